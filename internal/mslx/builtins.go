package mslx

import (
	"fmt"
	"math"
	"math/bits"

	"verif/internal/xrt"
)

// builtin describes one metal:: library function: its static typing rule and its
// evaluation. Semantics follow the "Metal Standard Library" chapter of the MSL
// specification.
type builtin struct {
	check func(c *checker, x *CallExpr, ts []*Type) (*Type, string)
	eval  func(iv *inv, f *frame, x *CallExpr) Value
}

var builtins = map[string]*builtin{}

// unifyArgs finds the common "T" of the arguments of a gentype function: all
// vector arguments must agree; scalars are converted (and splatted) to it.
func unifyArgs(ts []*Type, wantFloat bool) (*Type, string) {
	var vt *Type
	for i, t := range ts {
		t = t.unpacked()
		if t.Kind == KStruct && t.Conv != nil {
			continue
		}
		if !(t.isScalar() || t.isVec()) {
			return nil, fmt.Sprintf("argument %d has type %s", i, t)
		}
		if t.isVec() {
			if vt != nil && !sameType(vt, t) {
				return nil, fmt.Sprintf("vector arguments disagree: %s and %s", vt, t)
			}
			vt = t
		}
	}
	if vt != nil {
		if wantFloat && !vt.Elem.isFloating() {
			return nil, fmt.Sprintf("argument of type %s where a floating-point type is required", vt)
		}
		return vt, ""
	}
	var st *Type
	for _, t := range ts {
		if t.Kind == KStruct {
			continue
		}
		if st == nil {
			st = promoteKeepFloat(t)
		} else {
			st = arith(st, t)
		}
	}
	if st == nil {
		return nil, "cannot deduce the argument type"
	}
	if wantFloat && !st.isFloating() {
		st = tFloat
	}
	return st, ""
}

func promoteKeepFloat(t *Type) *Type {
	if t.isFloating() {
		return t
	}
	return promote(t)
}

func needN(n int, ts []*Type) string {
	if len(ts) != n {
		return fmt.Sprintf("wrong argument count: %d given, %d expected", len(ts), n)
	}
	return ""
}

func (iv *inv) argsAs(f *frame, x *CallExpr, t *Type) []Value {
	out := make([]Value, len(x.Args))
	for i, a := range x.Args {
		out[i] = iv.convert(f, iv.eval(f, a), t, a.base().line)
	}
	return out
}

func halfUnsupported(c *checker, x *CallExpr, t *Type) {
	if t.scalarOf().Kind == KHalf {
		c.unsupported(x.line, "metal::%s on half", x.Name)
	}
}

// regFloat registers a component-wise floating-point function of n arguments.
func regFloat(name string, n int, fn func(a []float32) float32) {
	builtins[name] = &builtin{
		check: func(c *checker, x *CallExpr, ts []*Type) (*Type, string) {
			if m := needN(n, ts); m != "" {
				return nil, m
			}
			t, m := unifyArgs(ts, true)
			if m != "" {
				return nil, m
			}
			halfUnsupported(c, x, t)
			return t, ""
		},
		eval: func(iv *inv, f *frame, x *CallExpr) Value {
			t := x.T
			args := iv.argsAs(f, x, t)
			out := Value{T: t, S: make([]Scalar, t.comps())}
			in := make([]float32, n)
			for i := range out.S {
				p := false
				for k := range args {
					in[k] = f32(args[k].S[i])
					p = p || args[k].S[i].P
				}
				out.S[i] = mkf(fn(in), p)
			}
			return out
		},
	}
}

func via64(g func(float64) float64) func(a []float32) float32 {
	return func(a []float32) float32 { return float32(g(float64(a[0]))) }
}

func fminf(x, y float32) float32 {
	switch {
	case x != x:
		return y
	case y != y:
		return x
	case y < x:
		return y
	}
	return x
}
func fmaxf(x, y float32) float32 {
	switch {
	case x != x:
		return y
	case y != y:
		return x
	case x < y:
		return y
	}
	return x
}

// regNum registers a component-wise function over int / uint / float.
func regNum(name string, n int, ff func(a []float32) float32, fi func(iv *inv, f *frame, line int, signed bool, a []uint32) uint32) {
	builtins[name] = &builtin{
		check: func(c *checker, x *CallExpr, ts []*Type) (*Type, string) {
			if m := needN(n, ts); m != "" {
				return nil, m
			}
			t, m := unifyArgs(ts, false)
			if m != "" {
				return nil, m
			}
			halfUnsupported(c, x, t)
			st := t.scalarOf()
			if st.Kind == KBool {
				return nil, "boolean arguments"
			}
			if st.Kind != KInt && st.Kind != KUint && st.Kind != KFloat {
				c.unsupported(x.line, "metal::%s on %s", x.Name, t)
			}
			if st.Kind == KFloat && ff == nil {
				return nil, fmt.Sprintf("floating-point argument of type %s to an integer function", t)
			}
			if st.Kind != KFloat && fi == nil {
				return nil, fmt.Sprintf("integer argument of type %s to a floating-point function", t)
			}
			return t, ""
		},
		eval: func(iv *inv, f *frame, x *CallExpr) Value {
			t := x.T
			args := iv.argsAs(f, x, t)
			out := Value{T: t, S: make([]Scalar, t.comps())}
			st := t.scalarOf()
			inF := make([]float32, n)
			inI := make([]uint32, n)
			for i := range out.S {
				p := false
				for k := range args {
					inF[k] = f32(args[k].S[i])
					inI[k] = args[k].S[i].U
					p = p || args[k].S[i].P
				}
				if st.Kind == KFloat {
					out.S[i] = mkf(ff(inF), p)
				} else {
					out.S[i] = Scalar{U: fi(iv, f, x.line, st.Kind == KInt, inI), P: p}
				}
			}
			return out
		},
	}
}

func imin(signed bool, a, b uint32) uint32 {
	if signed {
		if int32(b) < int32(a) {
			return b
		}
		return a
	}
	if b < a {
		return b
	}
	return a
}
func imax(signed bool, a, b uint32) uint32 {
	if signed {
		if int32(a) < int32(b) {
			return b
		}
		return a
	}
	if a < b {
		return b
	}
	return a
}

// regIntBits registers a component-wise integer-only function T f(T).
func regIntBits(name string, fn func(signed bool, a uint32) uint32) {
	regNum(name, 1, nil, func(iv *inv, f *frame, line int, signed bool, a []uint32) uint32 { return fn(signed, a[0]) })
}

func init() {
	// ---- math (computed in float64, rounded once to binary32)
	for name, g := range map[string]func(float64) float64{
		"sqrt": math.Sqrt, "exp": math.Exp, "exp2": math.Exp2, "log": math.Log, "log2": math.Log2, "log10": math.Log10,
		"sin": math.Sin, "cos": math.Cos, "tan": math.Tan, "asin": math.Asin, "acos": math.Acos, "atan": math.Atan,
		"sinh": math.Sinh, "cosh": math.Cosh, "tanh": math.Tanh, "asinh": math.Asinh, "acosh": math.Acosh, "atanh": math.Atanh,
		"floor": math.Floor, "ceil": math.Ceil, "trunc": math.Trunc, "round": math.Round, "rint": math.RoundToEven,
		"fabs": math.Abs,
	} {
		regFloat(name, 1, via64(g))
	}
	regFloat("exp10", 1, via64(func(x float64) float64 { return math.Pow(10, x) }))
	regFloat("rsqrt", 1, via64(func(x float64) float64 { return 1 / math.Sqrt(x) }))
	regFloat("fract", 1, func(a []float32) float32 {
		x := a[0]
		fl := float32(math.Floor(float64(x)))
		d := float32(x - fl)
		return fminf(d, math.Float32frombits(0x3f7fffff))
	})
	regFloat("saturate", 1, func(a []float32) float32 { return fminf(fmaxf(a[0], 0), 1) })
	regFloat("sign", 1, func(a []float32) float32 {
		x := a[0]
		switch {
		case x != x:
			return 0
		case x > 0:
			return 1
		case x < 0:
			return -1
		}
		return x // +0 / -0
	})
	regFloat("pow", 2, func(a []float32) float32 { return float32(math.Pow(float64(a[0]), float64(a[1]))) })
	regFloat("powr", 2, func(a []float32) float32 { return float32(math.Pow(float64(a[0]), float64(a[1]))) })
	regFloat("atan2", 2, func(a []float32) float32 { return float32(math.Atan2(float64(a[0]), float64(a[1]))) })
	regFloat("fmod", 2, func(a []float32) float32 { return float32(math.Mod(float64(a[0]), float64(a[1]))) })
	regFloat("fmin", 2, func(a []float32) float32 { return fminf(a[0], a[1]) })
	regFloat("fmax", 2, func(a []float32) float32 { return fmaxf(a[0], a[1]) })
	regFloat("copysign", 2, func(a []float32) float32 { return float32(math.Copysign(float64(a[0]), float64(a[1]))) })
	regFloat("fdim", 2, func(a []float32) float32 {
		if a[0] > a[1] {
			return float32(a[0] - a[1])
		}
		if a[0] != a[0] || a[1] != a[1] {
			return float32(math.NaN())
		}
		return 0
	})
	regFloat("step", 2, func(a []float32) float32 { // step(edge, x)
		if a[1] < a[0] {
			return 0
		}
		return 1
	})
	regFloat("fma", 3, func(a []float32) float32 { return float32(math.FMA(float64(a[0]), float64(a[1]), float64(a[2]))) })
	regFloat("mix", 3, func(a []float32) float32 { // x + (y - x) * a
		d := float32(a[1] - a[0])
		m := float32(d * a[2])
		return float32(a[0] + m)
	})
	regFloat("smoothstep", 3, func(a []float32) float32 {
		e0, e1, x := a[0], a[1], a[2]
		t := float32(float32(x-e0) / float32(e1-e0))
		t = fminf(fmaxf(t, 0), 1)
		u := float32(3 - float32(2*t))
		return float32(float32(t*t) * u)
	})

	// ---- int / uint / float
	regNum("min", 2, func(a []float32) float32 {
		if a[1] < a[0] {
			return a[1]
		}
		return a[0]
	}, func(iv *inv, f *frame, line int, s bool, a []uint32) uint32 { return imin(s, a[0], a[1]) })
	regNum("max", 2, func(a []float32) float32 {
		if a[0] < a[1] {
			return a[1]
		}
		return a[0]
	}, func(iv *inv, f *frame, line int, s bool, a []uint32) uint32 { return imax(s, a[0], a[1]) })
	regNum("min3", 3, func(a []float32) float32 { return fminf(fminf(a[0], a[1]), a[2]) },
		func(iv *inv, f *frame, line int, s bool, a []uint32) uint32 {
			return imin(s, imin(s, a[0], a[1]), a[2])
		})
	regNum("max3", 3, func(a []float32) float32 { return fmaxf(fmaxf(a[0], a[1]), a[2]) },
		func(iv *inv, f *frame, line int, s bool, a []uint32) uint32 {
			return imax(s, imax(s, a[0], a[1]), a[2])
		})
	regNum("clamp", 3, nil, nil)
	clampB := builtins["clamp"]
	clampB.eval = func(iv *inv, f *frame, x *CallExpr) Value {
		t := x.T
		args := iv.argsAs(f, x, t)
		out := Value{T: t, S: make([]Scalar, t.comps())}
		st := t.scalarOf()
		for i := range out.S {
			v, lo, hi := args[0].S[i], args[1].S[i], args[2].S[i]
			p := v.P || lo.P || hi.P
			var bad bool
			switch st.Kind {
			case KFloat:
				bad = f32(lo) > f32(hi)
				out.S[i] = mkf(fminf(fmaxf(f32(v), f32(lo)), f32(hi)), p)
			case KInt:
				bad = int32(lo.U) > int32(hi.U)
				out.S[i] = Scalar{U: imin(true, imax(true, v.U, lo.U), hi.U), P: p}
			default:
				bad = lo.U > hi.U
				out.S[i] = Scalar{U: imin(false, imax(false, v.U, lo.U), hi.U), P: p}
			}
			if bad && !p {
				iv.m.trap(xrt.TrapOther, "%s: metal::clamp with minval > maxval (results are undefined per the MSL specification)", iv.where(f, x.line))
			}
		}
		return out
	}
	// check for clamp accepts all three families
	clampB.check = func(c *checker, x *CallExpr, ts []*Type) (*Type, string) {
		if m := needN(3, ts); m != "" {
			return nil, m
		}
		t, m := unifyArgs(ts, false)
		if m != "" {
			return nil, m
		}
		halfUnsupported(c, x, t)
		k := t.scalarOf().Kind
		if k == KBool {
			return nil, "boolean arguments"
		}
		if k != KInt && k != KUint && k != KFloat {
			c.unsupported(x.line, "metal::clamp on %s", t)
		}
		return t, ""
	}
	regNum("abs", 1, func(a []float32) float32 { return float32(math.Abs(float64(a[0]))) },
		func(iv *inv, f *frame, line int, s bool, a []uint32) uint32 {
			if s && int32(a[0]) < 0 {
				return -a[0]
			}
			return a[0]
		})
	regNum("absdiff", 2, nil, func(iv *inv, f *frame, line int, s bool, a []uint32) uint32 {
		if s {
			x, y := int64(int32(a[0])), int64(int32(a[1]))
			if x > y {
				return uint32(x - y)
			}
			return uint32(y - x)
		}
		if a[0] > a[1] {
			return a[0] - a[1]
		}
		return a[1] - a[0]
	})
	regNum("addsat", 2, nil, func(iv *inv, f *frame, line int, s bool, a []uint32) uint32 {
		if s {
			r := int64(int32(a[0])) + int64(int32(a[1]))
			if r > math.MaxInt32 {
				r = math.MaxInt32
			}
			if r < math.MinInt32 {
				r = math.MinInt32
			}
			return uint32(int32(r))
		}
		r := uint64(a[0]) + uint64(a[1])
		if r > math.MaxUint32 {
			r = math.MaxUint32
		}
		return uint32(r)
	})
	regNum("subsat", 2, nil, func(iv *inv, f *frame, line int, s bool, a []uint32) uint32 {
		if s {
			r := int64(int32(a[0])) - int64(int32(a[1]))
			if r > math.MaxInt32 {
				r = math.MaxInt32
			}
			if r < math.MinInt32 {
				r = math.MinInt32
			}
			return uint32(int32(r))
		}
		if a[1] > a[0] {
			return 0
		}
		return a[0] - a[1]
	})
	regNum("mulhi", 2, nil, func(iv *inv, f *frame, line int, s bool, a []uint32) uint32 {
		if s {
			return uint32((int64(int32(a[0])) * int64(int32(a[1]))) >> 32)
		}
		return uint32((uint64(a[0]) * uint64(a[1])) >> 32)
	})
	regNum("rotate", 2, nil, func(iv *inv, f *frame, line int, s bool, a []uint32) uint32 {
		return bits.RotateLeft32(a[0], int(a[1]&31))
	})
	regIntBits("clz", func(s bool, a uint32) uint32 { return uint32(bits.LeadingZeros32(a)) })
	regIntBits("ctz", func(s bool, a uint32) uint32 { return uint32(bits.TrailingZeros32(a)) })
	regIntBits("popcount", func(s bool, a uint32) uint32 { return uint32(bits.OnesCount32(a)) })
	regIntBits("reverse_bits", func(s bool, a uint32) uint32 { return bits.Reverse32(a) })

	// ---- extract_bits / insert_bits
	bitsCheck := func(nval int) func(c *checker, x *CallExpr, ts []*Type) (*Type, string) {
		return func(c *checker, x *CallExpr, ts []*Type) (*Type, string) {
			if m := needN(nval+2, ts); m != "" {
				return nil, m
			}
			t, m := unifyArgs(ts[:nval], false)
			if m != "" {
				return nil, m
			}
			if k := t.scalarOf().Kind; k != KInt && k != KUint {
				if k == KFloat || k == KHalf || k == KBool {
					return nil, fmt.Sprintf("argument of type %s to an integer function", t)
				}
				c.unsupported(x.line, "metal::%s on %s", x.Name, t)
			}
			for _, ot := range ts[nval:] {
				if !(ot.isInteger() || ot.Kind == KBool) {
					return nil, fmt.Sprintf("offset / bits argument has type %s", ot)
				}
			}
			return t, ""
		}
	}
	bitRange := func(iv *inv, f *frame, x *CallExpr, k int) (off, cnt uint32, poison bool) {
		ov := iv.convert(f, iv.eval(f, x.Args[k]), tUint, x.line)
		cv := iv.convert(f, iv.eval(f, x.Args[k+1]), tUint, x.line)
		off, cnt = ov.S[0].U, cv.S[0].U
		poison = ov.S[0].P || cv.S[0].P
		if uint64(off)+uint64(cnt) > 32 && !poison {
			iv.m.trap(xrt.TrapOther, "%s: bitfield range: metal::%s with offset %d + bits %d > 32 is undefined", iv.where(f, x.line), x.Name, off, cnt)
		}
		return
	}
	builtins["extract_bits"] = &builtin{
		check: bitsCheck(1),
		eval: func(iv *inv, f *frame, x *CallExpr) Value {
			t := x.T
			v := iv.convert(f, iv.eval(f, x.Args[0]), t, x.line)
			off, cnt, pp := bitRange(iv, f, x, 1)
			out := Value{T: t, S: make([]Scalar, len(v.S))}
			signed := t.scalarOf().Kind == KInt
			for i, s := range v.S {
				var r uint32
				o, c := off&31, cnt
				if c > 32-o {
					c = 32 - o
				}
				switch {
				case c == 0:
					r = 0
				case signed:
					r = uint32(int32(s.U<<(32-o-c)) >> (32 - c))
				default:
					r = (s.U << (32 - o - c)) >> (32 - c)
				}
				out.S[i] = Scalar{U: r, P: s.P || pp}
			}
			return out
		},
	}
	builtins["insert_bits"] = &builtin{
		check: bitsCheck(2),
		eval: func(iv *inv, f *frame, x *CallExpr) Value {
			t := x.T
			base := iv.convert(f, iv.eval(f, x.Args[0]), t, x.line)
			ins := iv.convert(f, iv.eval(f, x.Args[1]), t, x.line)
			off, cnt, pp := bitRange(iv, f, x, 2)
			out := Value{T: t, S: make([]Scalar, len(base.S))}
			for i := range base.S {
				o, c := off&31, cnt
				if c > 32-o {
					c = 32 - o
				}
				var mask uint32
				if c >= 32 {
					mask = 0xffffffff
				} else {
					mask = ((uint32(1) << c) - 1) << o
				}
				r := (base.S[i].U &^ mask) | ((ins.S[i].U << o) & mask)
				out.S[i] = Scalar{U: r, P: base.S[i].P || ins.S[i].P || pp}
			}
			return out
		},
	}

	// ---- select
	builtins["select"] = &builtin{
		check: func(c *checker, x *CallExpr, ts []*Type) (*Type, string) {
			if m := needN(3, ts); m != "" {
				return nil, m
			}
			ct := ts[2].unpacked()
			var t *Type
			var m string
			if ct.isVec() {
				if ct.Elem.Kind != KBool {
					return nil, fmt.Sprintf("the condition has type %s, not a boolean vector", ct)
				}
				t, m = unifyArgs(ts[:2], false)
				if m != "" {
					return nil, m
				}
				if t.isScalar() {
					t = vecOf(t, ct.N)
				}
				if !t.isVec() || t.N != ct.N {
					return nil, fmt.Sprintf("vector size mismatch: values of type %s selected by %s", t, ct)
				}
			} else {
				if !ct.isScalar() {
					return nil, fmt.Sprintf("the condition has type %s", ct)
				}
				t, m = unifyArgs(ts[:2], false)
				if m != "" {
					return nil, m
				}
				// a scalar bool converts implicitly to the boolean vector (MSL scalar-to-vector
				// conversion), so select(vec, vec, bool) is accepted
			}
			halfUnsupported(c, x, t)
			return t, ""
		},
		eval: func(iv *inv, f *frame, x *CallExpr) Value {
			t := x.T
			a := iv.convert(f, iv.eval(f, x.Args[0]), t, x.line)
			b := iv.convert(f, iv.eval(f, x.Args[1]), t, x.line)
			cv := iv.eval(f, x.Args[2])
			if cv.T.isScalar() {
				cv = iv.convert(f, cv, tBool, x.line)
			}
			out := Value{T: t, S: make([]Scalar, len(a.S))}
			for i := range out.S {
				cs := cv.S[0]
				if len(cv.S) > 1 {
					cs = cv.S[i]
				}
				if cs.U != 0 {
					out.S[i] = b.S[i]
				} else {
					out.S[i] = a.S[i]
				}
				if cs.P {
					out.S[i].P = true
				}
			}
			return out
		},
	}

	// ---- relational
	boolVecCheck := func(c *checker, x *CallExpr, ts []*Type) (*Type, string) {
		if m := needN(1, ts); m != "" {
			return nil, m
		}
		t := ts[0].unpacked()
		if t.Kind == KBool {
			return tBool, ""
		}
		if !t.isVec() || t.Elem.Kind != KBool {
			return nil, fmt.Sprintf("argument has type %s, not a boolean vector", t)
		}
		return tBool, ""
	}
	builtins["all"] = &builtin{check: boolVecCheck, eval: func(iv *inv, f *frame, x *CallExpr) Value {
		v := iv.eval(f, x.Args[0])
		r := Scalar{U: 1}
		for _, s := range v.S {
			if s.U == 0 {
				r.U = 0
			}
			r.P = r.P || s.P
		}
		return Value{T: tBool, S: []Scalar{r}}
	}}
	builtins["any"] = &builtin{check: boolVecCheck, eval: func(iv *inv, f *frame, x *CallExpr) Value {
		v := iv.eval(f, x.Args[0])
		r := Scalar{}
		for _, s := range v.S {
			if s.U != 0 {
				r.U = 1
			}
			r.P = r.P || s.P
		}
		return Value{T: tBool, S: []Scalar{r}}
	}}
	regClass := func(name string, pred func(x float32) bool) {
		builtins[name] = &builtin{
			check: func(c *checker, x *CallExpr, ts []*Type) (*Type, string) {
				if m := needN(1, ts); m != "" {
					return nil, m
				}
				t, m := unifyArgs(ts, true)
				if m != "" {
					return nil, m
				}
				halfUnsupported(c, x, t)
				return t.withElem(tBool), ""
			},
			eval: func(iv *inv, f *frame, x *CallExpr) Value {
				v := iv.eval(f, x.Args[0])
				if v.T.scalarOf().Kind != KFloat {
					v = iv.convert(f, v, tFloat, x.line)
				}
				out := Value{T: x.T, S: make([]Scalar, len(v.S))}
				for i, s := range v.S {
					out.S[i] = Scalar{U: b2u(pred(f32(s))), P: s.P}
				}
				return out
			},
		}
	}
	regClass("isnan", func(x float32) bool { return x != x })
	regClass("isinf", func(x float32) bool { return math.IsInf(float64(x), 0) })
	regClass("isfinite", func(x float32) bool { return !math.IsInf(float64(x), 0) && x == x })
	regClass("signbit", func(x float32) bool { return math.Signbit(float64(x)) })

	// ---- functions with an out-parameter
	outCheck := func(outInt bool) func(c *checker, x *CallExpr, ts []*Type) (*Type, string) {
		return func(c *checker, x *CallExpr, ts []*Type) (*Type, string) {
			if m := needN(2, ts); m != "" {
				return nil, m
			}
			t := ts[0].unpacked()
			if !(t.isScalar() || t.isVec()) {
				return nil, fmt.Sprintf("argument 0 has type %s", t)
			}
			if !t.scalarOf().isFloating() {
				if t.isVec() {
					return nil, fmt.Sprintf("argument 0 has type %s where a floating-point type is required", t)
				}
				t = tFloat
			}
			halfUnsupported(c, x, t)
			ob := x.Args[1].base()
			want := t
			if outInt {
				want = t.withElem(tInt)
			}
			if !ob.LV {
				return nil, "the second argument must be an lvalue (it is a reference parameter)"
			}
			if ob.cq {
				return nil, "the second argument is const"
			}
			if !sameUnpacked(ts[1], want) {
				return nil, fmt.Sprintf("the second argument has type %s, expected %s&", ts[1], want)
			}
			if ob.sp != "thread" {
				c.unsupported(x.line, "metal::%s out-parameter in %s address space", x.Name, ob.sp)
			}
			return t, ""
		}
	}
	builtins["modf"] = &builtin{check: outCheck(false), eval: func(iv *inv, f *frame, x *CallExpr) Value {
		v := iv.convert(f, iv.eval(f, x.Args[0]), x.T, x.line)
		r := iv.lval(f, x.Args[1])
		fr := Value{T: x.T, S: make([]Scalar, len(v.S))}
		ip := Value{T: x.T, S: make([]Scalar, len(v.S))}
		for i, s := range v.S {
			xv := f32(s)
			w := float32(math.Trunc(float64(xv)))
			var fv float32
			if math.IsInf(float64(xv), 0) {
				fv = float32(math.Copysign(0, float64(xv)))
			} else {
				fv = float32(xv - w)
				fv = float32(math.Copysign(float64(fv), float64(xv)))
			}
			fr.S[i] = mkf(fv, s.P)
			ip.S[i] = mkf(w, s.P)
		}
		iv.store(f, r, ip, x.line)
		return fr
	}}
	builtins["frexp"] = &builtin{check: outCheck(true), eval: func(iv *inv, f *frame, x *CallExpr) Value {
		v := iv.convert(f, iv.eval(f, x.Args[0]), x.T, x.line)
		r := iv.lval(f, x.Args[1])
		fr := Value{T: x.T, S: make([]Scalar, len(v.S))}
		ex := Value{T: x.T.withElem(tInt), S: make([]Scalar, len(v.S))}
		for i, s := range v.S {
			xv := float64(f32(s))
			if math.IsInf(xv, 0) || xv != xv {
				fr.S[i] = mkf(float32(xv), s.P)
				ex.S[i] = Scalar{P: s.P}
				continue
			}
			m, e := math.Frexp(xv)
			fr.S[i] = mkf(float32(m), s.P)
			ex.S[i] = Scalar{U: uint32(int32(e)), P: s.P}
		}
		iv.store(f, r, ex, x.line)
		return fr
	}}
	builtins["ldexp"] = &builtin{
		check: func(c *checker, x *CallExpr, ts []*Type) (*Type, string) {
			if m := needN(2, ts); m != "" {
				return nil, m
			}
			t, m := unifyArgs(ts[:1], true)
			if m != "" {
				return nil, m
			}
			halfUnsupported(c, x, t)
			et := ts[1].unpacked()
			if !(et.scalarOf().isInteger()) {
				return nil, fmt.Sprintf("exponent has type %s", et)
			}
			if et.isVec() && (!t.isVec() || t.N != et.N) {
				return nil, fmt.Sprintf("vector size mismatch: %s and %s", t, et)
			}
			return t, ""
		},
		eval: func(iv *inv, f *frame, x *CallExpr) Value {
			v := iv.convert(f, iv.eval(f, x.Args[0]), x.T, x.line)
			e := iv.convert(f, iv.eval(f, x.Args[1]), x.T.withElem(tInt), x.line)
			out := Value{T: x.T, S: make([]Scalar, len(v.S))}
			for i, s := range v.S {
				out.S[i] = mkf(float32(math.Ldexp(float64(f32(s)), int(int32(e.S[i].U)))), s.P || e.S[i].P)
			}
			return out
		},
	}

	// ---- geometric
	fvecCheck := func(n int, scalarResult bool) func(c *checker, x *CallExpr, ts []*Type) (*Type, string) {
		return func(c *checker, x *CallExpr, ts []*Type) (*Type, string) {
			if m := needN(n, ts); m != "" {
				return nil, m
			}
			t, m := unifyArgs(ts, false)
			if m != "" {
				return nil, m
			}
			if !t.scalarOf().isFloating() {
				if t.isVec() {
					c.unsupported(x.line, "metal::%s on %s (the MSL geometric functions are floating-point only)", x.Name, t)
				}
				t = tFloat
			}
			halfUnsupported(c, x, t)
			if scalarResult {
				return t.scalarOf(), ""
			}
			return t, ""
		}
	}
	fdot := func(a, b Value) Scalar {
		var acc Scalar
		for i := range a.S {
			prod := mkf(float32(f32(a.S[i])*f32(b.S[i])), a.S[i].P || b.S[i].P)
			if i == 0 {
				acc = prod
			} else {
				acc = mkf(float32(f32(acc)+f32(prod)), acc.P || prod.P)
			}
		}
		return acc
	}
	geomArgs := func(iv *inv, f *frame, x *CallExpr) []Value {
		ts := make([]*Type, len(x.Args))
		for i, a := range x.Args {
			ts[i] = a.base().T
		}
		t, _ := unifyArgs(ts, false)
		if t == nil || !t.scalarOf().isFloating() {
			t = tFloat
		}
		return iv.argsAs(f, x, t)
	}
	fsqrt := func(s Scalar) Scalar { return mkf(float32(math.Sqrt(float64(f32(s)))), s.P) }
	builtins["dot"] = &builtin{check: fvecCheck(2, true), eval: func(iv *inv, f *frame, x *CallExpr) Value {
		a := geomArgs(iv, f, x)
		return Value{T: tFloat, S: []Scalar{fdot(a[0], a[1])}}
	}}
	builtins["length_squared"] = &builtin{check: fvecCheck(1, true), eval: func(iv *inv, f *frame, x *CallExpr) Value {
		a := geomArgs(iv, f, x)
		return Value{T: tFloat, S: []Scalar{fdot(a[0], a[0])}}
	}}
	builtins["length"] = &builtin{check: fvecCheck(1, true), eval: func(iv *inv, f *frame, x *CallExpr) Value {
		a := geomArgs(iv, f, x)
		return Value{T: tFloat, S: []Scalar{fsqrt(fdot(a[0], a[0]))}}
	}}
	fsub := func(a, b Value) Value {
		out := Value{T: a.T, S: make([]Scalar, len(a.S))}
		for i := range a.S {
			out.S[i] = mkf(float32(f32(a.S[i])-f32(b.S[i])), a.S[i].P || b.S[i].P)
		}
		return out
	}
	builtins["distance"] = &builtin{check: fvecCheck(2, true), eval: func(iv *inv, f *frame, x *CallExpr) Value {
		a := geomArgs(iv, f, x)
		d := fsub(a[0], a[1])
		return Value{T: tFloat, S: []Scalar{fsqrt(fdot(d, d))}}
	}}
	builtins["distance_squared"] = &builtin{check: fvecCheck(2, true), eval: func(iv *inv, f *frame, x *CallExpr) Value {
		a := geomArgs(iv, f, x)
		d := fsub(a[0], a[1])
		return Value{T: tFloat, S: []Scalar{fdot(d, d)}}
	}}
	builtins["normalize"] = &builtin{check: fvecCheck(1, false), eval: func(iv *inv, f *frame, x *CallExpr) Value {
		a := geomArgs(iv, f, x)
		l := fsqrt(fdot(a[0], a[0]))
		out := Value{T: a[0].T, S: make([]Scalar, len(a[0].S))}
		for i, s := range a[0].S {
			out.S[i] = mkf(float32(f32(s)/f32(l)), s.P || l.P)
		}
		return out
	}}
	builtins["cross"] = &builtin{
		check: func(c *checker, x *CallExpr, ts []*Type) (*Type, string) {
			if m := needN(2, ts); m != "" {
				return nil, m
			}
			a, b := ts[0].unpacked(), ts[1].unpacked()
			if !a.isVec() || a.N != 3 || !sameType(a, b) || !a.Elem.isFloating() {
				return nil, fmt.Sprintf("arguments of type %s and %s (float3 expected)", a, b)
			}
			halfUnsupported(c, x, a)
			return a, ""
		},
		eval: func(iv *inv, f *frame, x *CallExpr) Value {
			a := iv.eval(f, x.Args[0])
			b := iv.eval(f, x.Args[1])
			out := Value{T: a.T, S: make([]Scalar, 3)}
			term := func(i, j int) Scalar {
				p1 := float32(f32(a.S[i]) * f32(b.S[j]))
				p2 := float32(f32(a.S[j]) * f32(b.S[i]))
				return mkf(float32(p1-p2), a.S[i].P || a.S[j].P || b.S[i].P || b.S[j].P)
			}
			out.S[0] = term(1, 2)
			out.S[1] = term(2, 0)
			out.S[2] = term(0, 1)
			return out
		},
	}
	builtins["reflect"] = &builtin{check: fvecCheck(2, false), eval: func(iv *inv, f *frame, x *CallExpr) Value {
		a := geomArgs(iv, f, x) // I, N
		d := fdot(a[1], a[0])
		two := float32(2 * f32(d))
		out := Value{T: a[0].T, S: make([]Scalar, len(a[0].S))}
		for i := range out.S {
			m := float32(two * f32(a[1].S[i]))
			out.S[i] = mkf(float32(f32(a[0].S[i])-m), a[0].S[i].P || a[1].S[i].P || d.P)
		}
		return out
	}}
	builtins["faceforward"] = &builtin{check: fvecCheck(3, false), eval: func(iv *inv, f *frame, x *CallExpr) Value {
		a := geomArgs(iv, f, x) // N, I, Nref
		d := fdot(a[2], a[1])
		out := Value{T: a[0].T, S: make([]Scalar, len(a[0].S))}
		for i, s := range a[0].S {
			if f32(d) < 0 {
				out.S[i] = Scalar{U: s.U, P: s.P || d.P}
			} else {
				out.S[i] = Scalar{U: s.U ^ 0x80000000, P: s.P || d.P}
			}
		}
		return out
	}}
	builtins["refract"] = &builtin{
		check: func(c *checker, x *CallExpr, ts []*Type) (*Type, string) {
			if m := needN(3, ts); m != "" {
				return nil, m
			}
			t, m := unifyArgs(ts[:2], true)
			if m != "" {
				return nil, m
			}
			if !ts[2].isScalar() {
				return nil, fmt.Sprintf("eta has type %s", ts[2])
			}
			halfUnsupported(c, x, t)
			return t, ""
		},
		eval: func(iv *inv, f *frame, x *CallExpr) Value {
			I := iv.convert(f, iv.eval(f, x.Args[0]), x.T, x.line)
			N := iv.convert(f, iv.eval(f, x.Args[1]), x.T, x.line)
			etaV := iv.convert(f, iv.eval(f, x.Args[2]), tFloat, x.line)
			eta := f32(etaV.S[0])
			d := fdot(N, I)
			dv := f32(d)
			k := float32(1 - float32(float32(eta*eta)*float32(1-float32(dv*dv))))
			out := Value{T: x.T, S: make([]Scalar, len(I.S))}
			for i := range out.S {
				p := I.S[i].P || N.S[i].P || d.P || etaV.S[0].P
				if k < 0 {
					out.S[i] = mkf(0, p)
					continue
				}
				c1 := float32(float32(eta*dv) + float32(math.Sqrt(float64(k))))
				out.S[i] = mkf(float32(float32(eta*f32(I.S[i]))-float32(c1*f32(N.S[i]))), p)
			}
			return out
		},
	}

	// ---- matrix
	builtins["transpose"] = &builtin{
		check: func(c *checker, x *CallExpr, ts []*Type) (*Type, string) {
			if m := needN(1, ts); m != "" {
				return nil, m
			}
			if !ts[0].isMat() {
				return nil, fmt.Sprintf("argument has type %s, not a matrix", ts[0])
			}
			halfUnsupported(c, x, ts[0])
			return matOf(ts[0].Elem, ts[0].Rows, ts[0].N), ""
		},
		eval: func(iv *inv, f *frame, x *CallExpr) Value {
			m := iv.eval(f, x.Args[0])
			out := zeroValue(x.T)
			for c := 0; c < m.T.N; c++ {
				for r := 0; r < m.T.Rows; r++ {
					out.S[r*m.T.N+c] = m.S[c*m.T.Rows+r]
				}
			}
			return out
		},
	}
	builtins["determinant"] = &builtin{
		check: func(c *checker, x *CallExpr, ts []*Type) (*Type, string) {
			if m := needN(1, ts); m != "" {
				return nil, m
			}
			if !ts[0].isMat() || ts[0].N != ts[0].Rows {
				return nil, fmt.Sprintf("argument has type %s, not a square matrix", ts[0])
			}
			halfUnsupported(c, x, ts[0])
			return ts[0].Elem, ""
		},
		eval: func(iv *inv, f *frame, x *CallExpr) Value {
			m := iv.eval(f, x.Args[0])
			n := m.T.N
			a := make([][]float32, n) // a[row][col]
			p := false
			for r := 0; r < n; r++ {
				a[r] = make([]float32, n)
				for c := 0; c < n; c++ {
					a[r][c] = f32(m.S[c*n+r])
					p = p || m.S[c*n+r].P
				}
			}
			return Value{T: tFloat, S: []Scalar{mkf(det32(a), p)}}
		},
	}

	// ---- pack / unpack
	regPack := func(name string, n int, scale float32, lo float32, bitsPer uint) {
		builtins[name] = &builtin{
			check: func(c *checker, x *CallExpr, ts []*Type) (*Type, string) {
				if m := needN(1, ts); m != "" {
					return nil, m
				}
				if !sameUnpacked(ts[0], vecOf(tFloat, n)) {
					return nil, fmt.Sprintf("argument has type %s, expected float%d", ts[0], n)
				}
				return tUint, ""
			},
			eval: func(iv *inv, f *frame, x *CallExpr) Value {
				v := iv.eval(f, x.Args[0])
				var r uint32
				p := false
				for i, s := range v.S {
					xv := f32(s)
					p = p || s.P
					var q int32
					if xv == xv {
						cl := fminf(fmaxf(xv, lo), 1)
						q = int32(math.RoundToEven(float64(float32(cl * scale))))
					}
					mask := uint32(1)<<bitsPer - 1
					r |= (uint32(q) & mask) << (uint(i) * bitsPer)
				}
				return Value{T: tUint, S: []Scalar{{U: r, P: p}}}
			},
		}
	}
	regPack("pack_float_to_unorm4x8", 4, 255, 0, 8)
	regPack("pack_float_to_snorm4x8", 4, 127, -1, 8)
	regPack("pack_float_to_unorm2x16", 2, 65535, 0, 16)
	regPack("pack_float_to_snorm2x16", 2, 32767, -1, 16)
	regUnpack := func(name string, n int, scale float32, signed bool, bitsPer uint) {
		builtins[name] = &builtin{
			check: func(c *checker, x *CallExpr, ts []*Type) (*Type, string) {
				if m := needN(1, ts); m != "" {
					return nil, m
				}
				if !(ts[0].isInteger() || ts[0].Kind == KBool) {
					return nil, fmt.Sprintf("argument has type %s, expected uint", ts[0])
				}
				return vecOf(tFloat, n), ""
			},
			eval: func(iv *inv, f *frame, x *CallExpr) Value {
				v := iv.convert(f, iv.eval(f, x.Args[0]), tUint, x.line)
				out := Value{T: vecOf(tFloat, n), S: make([]Scalar, n)}
				for i := 0; i < n; i++ {
					raw := (v.S[0].U >> (uint(i) * bitsPer)) & (uint32(1)<<bitsPer - 1)
					var fv float32
					if signed {
						sv := int32(raw<<(32-bitsPer)) >> (32 - bitsPer)
						fv = fmaxf(float32(float32(sv)/scale), -1)
					} else {
						fv = float32(float32(raw) / scale)
					}
					out.S[i] = mkf(fv, v.S[0].P)
				}
				return out
			},
		}
	}
	regUnpack("unpack_unorm4x8_to_float", 4, 255, false, 8)
	regUnpack("unpack_snorm4x8_to_float", 4, 127, true, 8)
	regUnpack("unpack_unorm2x16_to_float", 2, 65535, false, 16)
	regUnpack("unpack_snorm2x16_to_float", 2, 32767, true, 16)

	// ---- barrier
	builtins["threadgroup_barrier"] = &builtin{
		check: func(c *checker, x *CallExpr, ts []*Type) (*Type, string) {
			if m := needN(1, ts); m != "" {
				return nil, m
			}
			if ts[0] != tMemFlags {
				return nil, fmt.Sprintf("argument has type %s, expected metal::mem_flags", ts[0])
			}
			return tVoid, ""
		},
		eval: func(iv *inv, f *frame, x *CallExpr) Value {
			iv.eval(f, x.Args[0])
			iv.barrier(x.line)
			return Value{T: tVoid}
		},
	}

	initAtomics()
}

// det32 computes a determinant by cofactor expansion along the first row with
// individually rounded float32 operations.
func det32(a [][]float32) float32 {
	n := len(a)
	switch n {
	case 1:
		return a[0][0]
	case 2:
		return float32(float32(a[0][0]*a[1][1]) - float32(a[0][1]*a[1][0]))
	}
	var acc float32
	for c := 0; c < n; c++ {
		sub := make([][]float32, 0, n-1)
		for r := 1; r < n; r++ {
			row := make([]float32, 0, n-1)
			for cc := 0; cc < n; cc++ {
				if cc != c {
					row = append(row, a[r][cc])
				}
			}
			sub = append(sub, row)
		}
		term := float32(a[0][c] * det32(sub))
		if c%2 == 1 {
			term = -term
		}
		if c == 0 {
			acc = term
		} else {
			acc = float32(acc + term)
		}
	}
	return acc
}

// ---------------------------------------------------------------------------
// atomics

func atomicPtrCheck(t *Type) (*Type, string) {
	if t.Kind != KPtr {
		return nil, fmt.Sprintf("the first argument has type %s, expected a pointer to an atomic object", t)
	}
	if t.Elem.Kind != KAtomic {
		return nil, fmt.Sprintf("the first argument points to %s, which is not an atomic type", t.Elem)
	}
	if t.Space != "device" && t.Space != "threadgroup" {
		return nil, fmt.Sprintf("atomic object in the %s address space", t.Space)
	}
	return t.Elem.Elem, ""
}

func initAtomics() {
	orderOK := func(t *Type) bool { return t == tMemOrder }
	atomicLoc := func(iv *inv, f *frame, x *CallExpr) Ref {
		pv := iv.eval(f, x.Args[0])
		if pv.Ptr == nil {
			iv.unsupported(x.line, "atomic on a non-pointer")
		}
		r := *pv.Ptr
		n := 4
		if r.off < 0 || r.off+n > len(r.reg.data) {
			iv.m.trap(xrt.TrapOOB, "%s: atomic access at offset %d of %s %q (%d bytes)", iv.where(f, x.line), r.off, r.reg.space, r.reg.name, len(r.reg.data))
			r.oob = true
		}
		return r
	}
	readA := func(r Ref) Scalar {
		if r.off < 0 || r.off+4 > len(r.reg.data) {
			return Scalar{}
		}
		v := decodeValue(r.reg.data, r.reg.poison, r.off, r.t)
		return v.S[0]
	}
	writeA := func(iv *inv, r Ref, s Scalar) {
		if r.oob || r.off < 0 || r.off+4 > len(r.reg.data) {
			return
		}
		if r.reg.readonly {
			iv.m.trap(xrt.TrapOther, "atomic write to read-only object %q", r.reg.name)
			return
		}
		if r.reg.isBuffer {
			s.P = false
		}
		encodeValue(r.reg.data, r.reg.poison, r.off, r.t, Value{T: r.t.Elem, S: []Scalar{s}})
	}
	operand := func(iv *inv, f *frame, x *CallExpr, k int, et *Type) Scalar {
		v := iv.convert(f, iv.eval(f, x.Args[k]), et, x.line)
		if v.S[0].P {
			iv.m.trap(xrt.TrapPoison, "%s: indeterminate (uninitialised) value passed to metal::%s", iv.where(f, x.line), x.Name)
		}
		return v.S[0]
	}
	builtins["atomic_load_explicit"] = &builtin{
		check: func(c *checker, x *CallExpr, ts []*Type) (*Type, string) {
			if m := needN(2, ts); m != "" {
				return nil, m
			}
			et, m := atomicPtrCheck(ts[0])
			if m != "" {
				return nil, m
			}
			if !orderOK(ts[1]) {
				return nil, "the memory order argument has type " + ts[1].String()
			}
			return et, ""
		},
		eval: func(iv *inv, f *frame, x *CallExpr) Value {
			r := atomicLoc(iv, f, x)
			iv.eval(f, x.Args[1])
			return Value{T: x.T, S: []Scalar{readA(r)}}
		},
	}
	builtins["atomic_store_explicit"] = &builtin{
		check: func(c *checker, x *CallExpr, ts []*Type) (*Type, string) {
			if m := needN(3, ts); m != "" {
				return nil, m
			}
			et, m := atomicPtrCheck(ts[0])
			if m != "" {
				return nil, m
			}
			if ts[0].Const {
				return nil, "store through a pointer to const"
			}
			if c.convCost(ts[1], x.Args[1], et) < 0 || !ts[1].isScalar() {
				return nil, fmt.Sprintf("cannot convert the value of type %s to %s", ts[1], et)
			}
			if !orderOK(ts[2]) {
				return nil, "the memory order argument has type " + ts[2].String()
			}
			return tVoid, ""
		},
		eval: func(iv *inv, f *frame, x *CallExpr) Value {
			r := atomicLoc(iv, f, x)
			s := operand(iv, f, x, 1, r.t.Elem)
			writeA(iv, r, s)
			return Value{T: tVoid}
		},
	}
	rmw := func(name string, fn func(signed bool, old, v uint32) uint32) {
		builtins[name] = &builtin{
			check: func(c *checker, x *CallExpr, ts []*Type) (*Type, string) {
				if m := needN(3, ts); m != "" {
					return nil, m
				}
				et, m := atomicPtrCheck(ts[0])
				if m != "" {
					return nil, m
				}
				if ts[0].Const {
					return nil, "read-modify-write through a pointer to const"
				}
				if !ts[1].isScalar() {
					return nil, fmt.Sprintf("cannot convert the operand of type %s to %s", ts[1], et)
				}
				if !orderOK(ts[2]) {
					return nil, "the memory order argument has type " + ts[2].String()
				}
				return et, ""
			},
			eval: func(iv *inv, f *frame, x *CallExpr) Value {
				r := atomicLoc(iv, f, x)
				et := r.t.Elem
				s := operand(iv, f, x, 1, et)
				old := readA(r)
				nv := Scalar{U: fn(et.Kind == KInt, old.U, s.U), P: old.P || s.P}
				writeA(iv, r, nv)
				return Value{T: et, S: []Scalar{old}}
			},
		}
	}
	rmw("atomic_exchange_explicit", func(s bool, old, v uint32) uint32 { return v })
	rmw("atomic_fetch_add_explicit", func(s bool, old, v uint32) uint32 { return old + v })
	rmw("atomic_fetch_sub_explicit", func(s bool, old, v uint32) uint32 { return old - v })
	rmw("atomic_fetch_and_explicit", func(s bool, old, v uint32) uint32 { return old & v })
	rmw("atomic_fetch_or_explicit", func(s bool, old, v uint32) uint32 { return old | v })
	rmw("atomic_fetch_xor_explicit", func(s bool, old, v uint32) uint32 { return old ^ v })
	rmw("atomic_fetch_min_explicit", func(s bool, old, v uint32) uint32 { return imin(s, old, v) })
	rmw("atomic_fetch_max_explicit", func(s bool, old, v uint32) uint32 { return imax(s, old, v) })
	builtins["atomic_compare_exchange_weak_explicit"] = &builtin{
		check: func(c *checker, x *CallExpr, ts []*Type) (*Type, string) {
			if m := needN(5, ts); m != "" {
				return nil, m
			}
			et, m := atomicPtrCheck(ts[0])
			if m != "" {
				return nil, m
			}
			if ts[1].Kind != KPtr || !sameType(ts[1].Elem, et) || ts[1].Const {
				return nil, fmt.Sprintf("the expected-value argument has type %s, want thread %s*", ts[1], et)
			}
			if ts[1].Space != "thread" {
				return nil, fmt.Sprintf("the expected-value pointer is in the %s address space", ts[1].Space)
			}
			if !ts[2].isScalar() {
				return nil, fmt.Sprintf("cannot convert the desired value of type %s to %s", ts[2], et)
			}
			if !orderOK(ts[3]) || !orderOK(ts[4]) {
				return nil, "memory order arguments"
			}
			return tBool, ""
		},
		eval: func(iv *inv, f *frame, x *CallExpr) Value {
			r := atomicLoc(iv, f, x)
			et := r.t.Elem
			ep := iv.eval(f, x.Args[1])
			if ep.Ptr == nil {
				iv.unsupported(x.line, "expected-value pointer")
			}
			exp := iv.load(f, *ep.Ptr, x.line)
			if exp.S[0].P {
				iv.m.trap(xrt.TrapPoison, "%s: indeterminate (uninitialised) expected value passed to metal::%s", iv.where(f, x.line), x.Name)
			}
			des := operand(iv, f, x, 2, et)
			old := readA(r)
			if old.U == exp.S[0].U {
				writeA(iv, r, des)
				return Value{T: tBool, S: []Scalar{{U: 1, P: old.P}}}
			}
			iv.store(f, *ep.Ptr, Value{T: et, S: []Scalar{old}}, x.line)
			return Value{T: tBool, S: []Scalar{{U: 0, P: old.P}}}
		},
	}
}

func (iv *inv) callBuiltin(f *frame, x *CallExpr) Value {
	b := builtins[x.Builtin]
	if b == nil || b.eval == nil {
		iv.unsupported(x.line, "metal::%s", x.Builtin)
	}
	if x.T == nil {
		iv.unsupported(x.line, "ill-typed call to metal::%s", x.Builtin)
	}
	iv.cov("fn." + x.Builtin)
	return b.eval(iv, f, x)
}
