package mslx

import (
	"math"
	"testing"

	"verif/internal/xrt"
)

// Every expected value below is computed by hand from the WGSL specification.

const hdrIO = `
@group(0) @binding(0) var<storage, read_write> o: array<i32>;
@group(0) @binding(1) var<storage, read> a: array<i32>;
`
const hdrUO = `
@group(0) @binding(0) var<storage, read_write> o: array<u32>;
@group(0) @binding(1) var<storage, read> a: array<u32>;
`
const hdrFO = `
@group(0) @binding(0) var<storage, read_write> o: array<f32>;
@group(0) @binding(1) var<storage, read> a: array<f32>;
`

func TestSemIntegerWrap(t *testing.T) {
	src := hdrIO + `
@compute @workgroup_size(1) fn main() {
  o[0] = a[0] + a[1];
  o[1] = a[0] * a[2];
  o[2] = a[3] - a[1];
  o[3] = -a[3];
  var x = a[0];
  x += 2;
  o[4] = x;
  var y = a[3];
  y--;
  o[5] = y;
}`
	r := runWGSL(t, src, runCfg{bufs: map[string][]byte{"o": zeros(24), "a": i32s(math.MaxInt32, 1, 2, math.MinInt32)}})
	wantNoTraps(t, r)
	eqI32(t, r, "o", math.MinInt32, -2, math.MaxInt32, math.MinInt32, math.MinInt32+1, math.MaxInt32)
}

func TestSemUnsignedWrap(t *testing.T) {
	src2 := hdrUO + `
@compute @workgroup_size(1) fn main() {
  o[0] = a[0] + a[1];
  o[1] = a[2] - a[1];
  o[2] = a[0] * a[0];
}`
	r := runWGSL(t, src2, runCfg{bufs: map[string][]byte{"o": zeros(12), "a": u32s(0xFFFFFFFF, 1, 0)}})
	wantNoTraps(t, r)
	eqU32(t, r, "o", 0, 0xFFFFFFFF, 1)
}

func TestSemDivMod(t *testing.T) {
	src := hdrIO + `
@compute @workgroup_size(1) fn main() {
  o[0] = a[0] / a[1];   // 7 / 0 -> 7
  o[1] = a[0] % a[1];   // 7 % 0 -> 0
  o[2] = a[2] / a[3];   // MIN / -1 -> MIN
  o[3] = a[2] % a[3];   // MIN % -1 -> 0
  o[4] = a[4] / a[5];   // -7 / 2 -> -3
  o[5] = a[4] % a[5];   // -7 % 2 -> -1
  o[6] = a[0] % a[6];   // 7 % -2 -> 1
  o[7] = a[0] / a[6];   // 7 / -2 -> -3
}`
	r := runWGSL(t, src, runCfg{bufs: map[string][]byte{"o": zeros(32), "a": i32s(7, 0, math.MinInt32, -1, -7, 2, -2)}})
	wantNoTraps(t, r)
	eqI32(t, r, "o", 7, 0, math.MinInt32, 0, -3, -1, 1, -3)
}

func TestSemDivModUnsignedAndVector(t *testing.T) {
	src := hdrUO + `
@compute @workgroup_size(1) fn main() {
  o[0] = a[0] / a[1];   // 7 / 0 -> 7
  o[1] = a[0] % a[1];   // 7 % 0 -> 0
  o[2] = a[0] / a[2];   // 7 / 2 -> 3
  o[3] = a[0] % a[2];   // 1
  let v = vec2<u32>(a[0], a[3]) / vec2<u32>(a[1], a[2]);  // (7/0, 9/2) = (7, 4)
  o[4] = v.x;
  o[5] = v.y;
  let w = vec2<i32>(-9, 5) % vec2<i32>(i32(a[2]), i32(a[1]));  // (-9 % 2, 5 % 0) = (-1, 0)
  o[6] = bitcast<u32>(w.x);
  o[7] = bitcast<u32>(w.y);
}`
	r := runWGSL(t, src, runCfg{bufs: map[string][]byte{"o": zeros(32), "a": u32s(7, 0, 2, 9)}})
	wantNoTraps(t, r)
	eqU32(t, r, "o", 7, 0, 3, 1, 7, 4, 0xFFFFFFFF, 0)
}

func TestSemShifts(t *testing.T) {
	src := hdrUO + `
@group(0) @binding(2) var<storage, read_write> s: array<i32>;
@compute @workgroup_size(1) fn main() {
  o[0] = a[0] << a[1];        // 3 << 33 -> 3 << 1 = 6
  o[1] = a[2] >> a[3];        // 0x80000000 >> 4 = 0x08000000
  o[2] = a[0] << 31u;         // 0x80000000
  s[0] = s[2] >> a[3];        // -64 >> 4 = -4
  s[1] = s[3] << a[3];        // 5 << 4 = 80
  let v = vec2<u32>(1u, 2u) << vec2<u32>(a[3], a[1]);  // (1<<4, 2<<(33&31)) = (16, 4)
  o[3] = v.x; o[4] = v.y;
}`
	r := runWGSL(t, src, runCfg{bufs: map[string][]byte{"o": zeros(20), "a": u32s(3, 33, 0x80000000, 4), "s": i32s(0, 0, -64, 5)}})
	wantNoTraps(t, r)
	eqU32(t, r, "o", 6, 0x08000000, 0x80000000, 16, 4)
	eqI32(t, r, "s", -4, 80, -64, 5)
}

func TestSemBitBuiltinsUnsigned(t *testing.T) {
	src := hdrUO + `
@compute @workgroup_size(1) fn main() {
  o[0] = countLeadingZeros(a[0]);    // 0 -> 32
  o[1] = countLeadingZeros(a[1]);    // 1 -> 31
  o[2] = firstLeadingBit(a[0]);      // 0 -> 0xFFFFFFFF
  o[3] = firstLeadingBit(a[2]);      // 0x10 -> 4
  o[4] = firstTrailingBit(a[3]);     // 8 -> 3
  o[5] = firstTrailingBit(a[0]);     // 0 -> 0xFFFFFFFF
  o[6] = countOneBits(a[4]);         // 0xF0F0 -> 8
  o[7] = reverseBits(a[1]);          // 1 -> 0x80000000
  o[8] = countTrailingZeros(a[0]);   // 32
  o[9] = countTrailingZeros(a[3]);   // 3
  o[10] = extractBits(a[5], 8u, 8u); // 0xABCD1234 -> 0x12
  o[11] = extractBits(a[5], 28u, 8u);// clamped: offset 28, count 4 -> 0xA
  o[12] = extractBits(a[5], a[0], a[0]); // count 0 -> 0
  o[13] = insertBits(a[6], a[0], 4u, 8u); // 0xFFFFFFFF with 0 at [4,12) -> 0xFFFFF00F
  o[14] = insertBits(a[0], a[6], 28u, 8u); // clamped count 4 -> 0xF0000000
  o[15] = extractBits(a[5], 0u, 32u);  // whole word
  o[16] = extractBits(a[5], 40u, 2u);  // offset clamped to 32, count 0 -> 0
}`
	r := runWGSL(t, src, runCfg{bufs: map[string][]byte{"o": zeros(68), "a": u32s(0, 1, 0x10, 8, 0xF0F0, 0xABCD1234, 0xFFFFFFFF)}})
	wantNoTraps(t, r)
	eqU32(t, r, "o", 32, 31, 0xFFFFFFFF, 4, 3, 0xFFFFFFFF, 8, 0x80000000, 32, 3, 0x12, 0xA, 0, 0xFFFFF00F, 0xF0000000, 0xABCD1234, 0)
}

func TestSemBitBuiltinsSigned(t *testing.T) {
	src := hdrIO + `
@compute @workgroup_size(1) fn main() {
  o[0] = countLeadingZeros(a[0]);   // -1 -> 0
  o[1] = firstLeadingBit(a[0]);     // -1 -> -1
  o[2] = firstLeadingBit(a[1]);     // -8 (…11111000) -> 2
  o[3] = firstLeadingBit(a[2]);     // 0 -> -1
  o[4] = firstLeadingBit(a[3]);     // 0x10 -> 4
  o[5] = extractBits(a[4], 12u, 4u);// 0xF000 bits [12,16) = 1111 -> -1
  o[6] = extractBits(a[4], 11u, 4u);// bits [11,15) = 1110 -> -2
  o[7] = countOneBits(a[0]);        // 32
  o[8] = reverseBits(a[5]);         // 1 -> MIN
  o[9] = insertBits(a[2], a[0], 0u, 4u); // 0 with -1 in low 4 -> 15
  o[10] = firstTrailingBit(a[1]);   // -8 -> 3
  let v = firstLeadingBit(vec2<i32>(a[1], a[3]));
  o[11] = v.x; o[12] = v.y;
}`
	r := runWGSL(t, src, runCfg{bufs: map[string][]byte{"o": zeros(52), "a": i32s(-1, -8, 0, 0x10, 0xF000, 1)}})
	wantNoTraps(t, r)
	eqI32(t, r, "o", 0, -1, 2, -1, 4, -1, -2, 32, math.MinInt32, 15, 3, 2, 4)
}

func TestSemSelectAbsMinMaxClampSignInt(t *testing.T) {
	src := hdrIO + `
@compute @workgroup_size(1) fn main() {
  o[0] = select(a[0], a[1], a[0] < a[1]);  // (-5 < 7) -> 7
  o[1] = abs(a[0]);          // 5
  o[2] = abs(a[2]);          // MIN -> MIN
  o[3] = min(a[0], a[1]);    // -5
  o[4] = max(a[0], a[1]);    // 7
  o[5] = clamp(a[3], 0, 10); // 15 -> 10
  o[6] = clamp(a[0], 0, 10); // -5 -> 0
  o[7] = sign(a[0]);         // -1
  o[8] = sign(a[4]);         // 0
  o[9] = sign(a[1]);         // 1
  let v = select(vec2<i32>(1, 2), vec2<i32>(3, 4), vec2<bool>(a[0] < 0, a[1] < 0)); // (3, 2)
  o[10] = v.x; o[11] = v.y;
  let m = max(vec2<u32>(3u, 9u), vec2<u32>(7u, 2u));
  o[12] = i32(m.x); o[13] = i32(m.y);
}`
	r := runWGSL(t, src, runCfg{bufs: map[string][]byte{"o": zeros(56), "a": i32s(-5, 7, math.MinInt32, 15, 0)}})
	wantNoTraps(t, r)
	eqI32(t, r, "o", 7, 5, math.MinInt32, -5, 7, 10, 0, -1, 0, 1, 3, 2, 7, 9)
}

func TestSemFloatBasics(t *testing.T) {
	src := hdrFO + `
@compute @workgroup_size(1) fn main() {
  o[0] = abs(a[0]);            // 2.5
  o[1] = min(a[0], a[1]);      // -2.5
  o[2] = max(a[0], a[1]);      // 0.75
  o[3] = clamp(a[2], 0.0, 1.0);// 3.5 -> 1
  o[4] = sign(a[0]);           // -1
  o[5] = sign(a[1]);           // 1
  o[6] = select(a[0], a[1], true); // 0.75
  o[7] = a[0] + a[1] * a[2];   // -2.5 + 2.625 = 0.125
  o[8] = a[2] / a[3];          // 3.5 / 0.5 = 7
  o[9] = saturate(a[0]);       // 0
  o[10] = mix(a[0], a[2], 0.5);// -2.5 + 6*0.5 = 0.5
  o[11] = step(a[1], a[2]);    // 3.5 >= 0.75 -> 1
  o[12] = a[2] % a[4];         // 3.5 % 2 = 1.5
  o[13] = a[0] % a[4];         // -2.5 % 2 = -0.5
}`
	r := runWGSL(t, src, runCfg{bufs: map[string][]byte{"o": zeros(56), "a": f32s(-2.5, 0.75, 3.5, 0.5, 2)}})
	wantNoTraps(t, r)
	eqF32(t, r, "o", 2.5, -2.5, 0.75, 1, -1, 1, 0.75, 0.125, 7, 0, 0.5, 1, 1.5, -0.5)
}

func TestSemRounding(t *testing.T) {
	src := hdrFO + `
@compute @workgroup_size(1) fn main() {
  o[0] = floor(a[0]);  // -1.5 -> -2
  o[1] = ceil(a[0]);   // -1
  o[2] = round(a[8]);  // 2.25 -> 2
  o[3] = round(a[2]);  // 3.5 -> 4
  o[4] = round(a[9]);  // -2.75 -> -3
  o[5] = trunc(a[4]);  // -1.75 -> -1
  o[6] = fract(a[5]);  // -0.25 -> 0.75
  o[7] = fract(a[6]);  // 1.25 -> 0.25
  o[8] = round(a[4]);  // -1.75 -> -2
  o[9] = sqrt(a[7]);   // 16 -> 4
  o[10] = inverseSqrt(a[7]); // 0.25
  o[11] = fma(a[1], a[2], a[0]); // 2.5*3.5-1.5 = 7.25
}`
	r := runWGSL(t, src, runCfg{bufs: map[string][]byte{"o": zeros(48), "a": f32s(-1.5, 2.5, 3.5, -2.5, -1.75, -0.25, 1.25, 16, 2.25, -2.75)}})
	wantNoTraps(t, r)
	eqF32(t, r, "o", -2, -1, 2, 4, -3, -1, 0.75, 0.25, -2, 4, 0.25, 7.25)
}

func TestSemConversions(t *testing.T) {
	src := hdrFO + `
@group(0) @binding(2) var<storage, read_write> oi: array<i32>;
@group(0) @binding(3) var<storage, read_write> ou: array<u32>;
@compute @workgroup_size(1) fn main() {
  oi[0] = i32(a[0]);   // 3.9 -> 3
  oi[1] = i32(a[1]);   // -3.9 -> -3
  oi[2] = i32(a[2]);   // 1e10 -> clamped: 2147483520 (largest f32 below 2^31)
  oi[3] = i32(a[3]);   // -1e10 -> -2147483648
  ou[0] = u32(a[0]);   // 3
  ou[1] = u32(a[1]);   // -3.9 -> 0
  ou[2] = u32(a[2]);   // 1e10 -> 4294967040
  ou[3] = u32(oi[1]);  // -3 -> 0xFFFFFFFD
  ou[4] = u32(a[0] > a[1]); // true -> 1
  o[0] = f32(oi[1]);   // -3.0
  o[1] = f32(ou[3]);   // 4294967293 -> 4294967296 (nearest f32)
  o[2] = f32(a[0] < a[1]); // false -> 0
  let v = vec2<i32>(vec2<f32>(a[0], a[1]));
  oi[4] = v.x; oi[5] = v.y;
  ou[5] = u32(bool(a[4])) + u32(bool(a[0])); // 0.0 -> false, 3.9 -> true => 1
}`
	r := runWGSL(t, src, runCfg{bufs: map[string][]byte{"o": zeros(12), "a": f32s(3.9, -3.9, 1e10, -1e10, 0), "oi": zeros(24), "ou": zeros(24)}})
	wantNoTraps(t, r)
	eqI32(t, r, "oi", 3, -3, 2147483520, math.MinInt32, 3, -3)
	eqU32(t, r, "ou", 3, 0, 4294967040, 0xFFFFFFFD, 1, 1)
	eqF32(t, r, "o", -3, 4294967296, 0)
}

func TestSemBitcast(t *testing.T) {
	src := hdrUO + `
@group(0) @binding(2) var<storage, read_write> f: array<f32>;
@compute @workgroup_size(1) fn main() {
  o[0] = bitcast<u32>(f[0]);               // 1.0 -> 0x3F800000
  f[1] = bitcast<f32>(a[0]);               // 0x40490FDB -> pi
  o[1] = bitcast<u32>(bitcast<i32>(a[1])); // identity
  let v = bitcast<vec2<u32>>(vec2<f32>(f[0], -2.0));
  o[2] = v.x; o[3] = v.y;                  // 0x3F800000, 0xC0000000
  o[4] = u32(bitcast<i32>(a[1]) < 0);      // 0xFFFFFFFF as i32 is -1 -> 1
}`
	r := runWGSL(t, src, runCfg{bufs: map[string][]byte{"o": zeros(20), "a": u32s(0x40490FDB, 0xFFFFFFFF), "f": f32s(1, 0)}})
	wantNoTraps(t, r)
	eqU32(t, r, "o", 0x3F800000, 0xFFFFFFFF, 0x3F800000, 0xC0000000, 1)
	eqF32(t, r, "f", 1, math.Float32frombits(0x40490FDB))
}

func TestSemVectorsSwizzles(t *testing.T) {
	src := hdrFO + `
@compute @workgroup_size(1) fn main() {
  var v = vec4<f32>(a[0], a[1], a[2], a[3]);  // 1 2 3 4
  let w = v.wzyx;
  o[0] = w.x; o[1] = w.y; o[2] = w.z; o[3] = w.w;   // 4 3 2 1
  let s = v.xy + v.zw;                // (4, 6)
  o[4] = s.x; o[5] = s.y;
  v.y = 10.0;
  o[6] = v.y;
  v[2] = 20.0;
  o[7] = v.z;
  let i = u32(a[0]);                  // 1
  v[i] = 30.0;
  o[8] = v.y;
  let d = v * 2.0;                    // (2, 60, 40, 8)
  o[9] = d.x + d.w;                   // 10
  o[10] = dot(v.xyz, vec3<f32>(1.0, 0.5, 0.25)); // 1 + 15 + 5 = 21
  let c = cross(vec3<f32>(1.0, 0.0, 0.0), vec3<f32>(0.0, 1.0, 0.0));
  o[11] = c.z;                        // 1
  o[12] = length(vec2<f32>(3.0, a[3]));  // 5
  let n = -v.xy;
  o[13] = n.x;                        // -1
}`
	r := runWGSL(t, src, runCfg{bufs: map[string][]byte{"o": zeros(56), "a": f32s(1, 2, 3, 4)}})
	wantNoTraps(t, r)
	eqF32(t, r, "o", 4, 3, 2, 1, 4, 6, 10, 20, 30, 10, 21, 1, 5, -1)
}

func TestSemMatrices(t *testing.T) {
	src := hdrFO + `
@compute @workgroup_size(1) fn main() {
  let m2 = mat2x2<f32>(a[0], a[1], a[2], a[3]);    // columns (1,2) (3,4)
  let r2 = m2 * vec2<f32>(5.0, 6.0);               // 5*(1,2)+6*(3,4) = (23, 34)
  o[0] = r2.x; o[1] = r2.y;
  let l2 = vec2<f32>(5.0, 6.0) * m2;               // (5*1+6*2, 5*3+6*4) = (17, 39)
  o[2] = l2.x; o[3] = l2.y;
  let m3 = mat3x3<f32>(1.0, 0.0, 0.0,  0.0, 2.0, 0.0,  a[0], a[1], a[2]); // cols (1,0,0) (0,2,0) (1,2,3)
  let r3 = m3 * vec3<f32>(1.0, 1.0, 2.0);          // (1,0,0)+(0,2,0)+2*(1,2,3) = (3, 6, 6)
  o[4] = r3.x; o[5] = r3.y; o[6] = r3.z;
  let m43 = mat4x3<f32>(vec3<f32>(1.0, 2.0, 3.0), vec3<f32>(4.0, 5.0, 6.0), vec3<f32>(7.0, 8.0, 9.0), vec3<f32>(a[0], a[1], a[2]));
  let r43 = m43 * vec4<f32>(1.0, 0.0, 1.0, 2.0);   // c0 + c2 + 2*c3 = (1+7+2, 2+8+4, 3+9+6) = (10, 14, 18)
  o[7] = r43.x; o[8] = r43.y; o[9] = r43.z;
  let t = transpose(m43);                           // mat3x4: column j = row j of m43
  o[10] = t[1].w;                                   // row 1 of m43, column 3 = a[1] = 2
  o[11] = t[2].x;                                   // row 2, column 0 = 3
  let mm = m2 * m2;                                 // [[1,3],[2,4]]^2 = [[7,15],[10,22]] ; column 0 = (7,10)
  o[12] = mm[0].x; o[13] = mm[0].y; o[14] = mm[1].x; o[15] = mm[1].y;
  o[16] = determinant(m2);                          // 1*4 - 3*2 = -2
  let sc = m2 * 2.0;
  o[17] = sc[1].y;                                  // 8
  var mv = m2;
  mv[1] = vec2<f32>(9.0, 8.0);
  mv[0][1] = 7.0;
  o[18] = mv[1].x + mv[0].y;                        // 16
}`
	r := runWGSL(t, src, runCfg{bufs: map[string][]byte{"o": zeros(76), "a": f32s(1, 2, 3, 4)}})
	wantNoTraps(t, r)
	eqF32(t, r, "o", 23, 34, 17, 39, 3, 6, 6, 10, 14, 18, 2, 3, 7, 10, 15, 22, -2, 8, 16)
}

func TestSemStructLayout(t *testing.T) {
	// struct S { v: vec3<f32> @0, s: f32 @12, m: mat3x3<f32> @16 (48 bytes), av: array<vec3<f32>,2> @64 (stride 16), n: Inner @96 {x: u32 @0, y: vec2<u32> @8} size 16 } => 112 bytes
	src := `
struct Inner { x: u32, y: vec2<u32> }
struct S { v: vec3<f32>, s: f32, m: mat3x3<f32>, av: array<vec3<f32>, 2>, n: Inner }
@group(0) @binding(0) var<storage, read_write> st: S;
@group(0) @binding(1) var<storage, read_write> o: array<f32>;
@compute @workgroup_size(1) fn main() {
  o[0] = st.v.z;        // 3
  o[1] = st.s;          // 4
  o[2] = st.m[1].y;     // column 1 at 32: y at 36
  o[3] = st.av[1].x;    // 80
  o[4] = f32(st.n.x);   // 96
  o[5] = f32(st.n.y.y); // 108
  st.s = 100.0;
  st.m[2] = vec3<f32>(7.0, 8.0, 9.0);   // bytes 48..60
  st.av[0].y = 55.0;                    // byte 68
  st.n.y = vec2<u32>(11u, 12u);         // bytes 104, 108
  st.v = vec3<f32>(-1.0, -2.0, -3.0);   // bytes 0..12 ; must not touch s at 12
}`
	in := make([]float32, 28)
	for i := range in {
		in[i] = float32(1000 + i)
	}
	in[0], in[1], in[2], in[3] = 1, 2, 3, 4
	in[9] = 36  // offset 36
	in[20] = 80 // offset 80
	buf := f32s(in...)
	copy(buf[96:], u32s(96))
	copy(buf[108:], u32s(108))
	r := runWGSL(t, src, runCfg{bufs: map[string][]byte{"st": buf, "o": zeros(24)}})
	wantNoTraps(t, r)
	eqF32(t, r, "o", 3, 4, 36, 80, 96, 108)
	got := getF32s(r.bufs["st"])
	want := append([]float32(nil), in...)
	want[0], want[1], want[2] = -1, -2, -3
	want[3] = 100
	want[12], want[13], want[14] = 7, 8, 9
	want[17] = 55
	for i, w := range want {
		if i == 24 || i == 26 || i == 27 {
			continue
		}
		if got[i] != w {
			t.Errorf("st float[%d] (byte %d) = %v, want %v", i, 4*i, got[i], w)
		}
	}
	gu := getU32s(r.bufs["st"])
	if gu[24] != 96 || gu[26] != 11 || gu[27] != 12 {
		t.Errorf("st.n = %v %v %v", gu[24], gu[26], gu[27])
	}
	if t.Failed() {
		t.Logf("msl:\n%s", r.msl)
	}
}

func TestSemUniformAndNested(t *testing.T) {
	src := `
struct P { k: vec4<f32>, n: array<vec4<u32>, 2>, m: mat2x2<f32> }
@group(0) @binding(0) var<uniform> u: P;
@group(0) @binding(1) var<storage, read_write> o: array<f32>;
@compute @workgroup_size(1) fn main() {
  o[0] = u.k.w;                 // byte 12
  o[1] = f32(u.n[1].z);         // 16 + 16 + 8 = 40
  o[2] = u.m[1].x;              // m at 48, column 1 at 56
  let r = u.m * u.k.xy;         // m = cols (1,2),(3,4); k.xy = (10, 20) -> (10+60, 20+80) = (70, 100)
  o[3] = r.x; o[4] = r.y;
}`
	buf := make([]byte, 64)
	copy(buf[0:], f32s(10, 20, 30, 40))
	copy(buf[16:], u32s(1, 2, 3, 4, 5, 6, 7, 8))
	copy(buf[48:], f32s(1, 2, 3, 4))
	r := runWGSL(t, src, runCfg{bufs: map[string][]byte{"u": buf, "o": zeros(20)}})
	wantNoTraps(t, r)
	eqF32(t, r, "o", 40, 7, 3, 70, 100)
}

func TestSemRuntimeArrayLength(t *testing.T) {
	src := `
struct H { count: u32, pad: u32, items: array<vec2<u32>> }
@group(0) @binding(0) var<storage, read_write> h: H;
@group(0) @binding(1) var<storage, read_write> o: array<u32>;
@compute @workgroup_size(1) fn main() {
  o[0] = arrayLength(&h.items);      // (40 - 8) / 8 = 4
  o[1] = arrayLength(&o);            // 24 / 4 = 6
  let i = h.count;                   // 3
  o[2] = h.items[i].y;               // item 3 -> 31
  h.items[i - 1u].x = 77u;           // item 2
  o[3] = h.items[i + 5u].x;          // out of bounds read -> any valid element or 0 (naga: 0)
  h.items[i + 5u].y = 99u;           // out of bounds write: must not land outside
  o[4] = h.items[0].x + h.items[1].y;// 0 + 11
}`
	hb := u32s(3, 0, 0, 1, 10, 11, 20, 21, 30, 31)
	r := runWGSL(t, src, runCfg{bufs: map[string][]byte{"h": hb, "o": zeros(24)}})
	wantNoTraps(t, r)
	eqU32(t, r, "o", 4, 6, 31, 0, 11, 0)
	eqU32(t, r, "h", 3, 0, 0, 1, 10, 11, 77, 21, 30, 31)
}

func TestSemLoopsContinuingBreakIf(t *testing.T) {
	src := hdrUO + `
@compute @workgroup_size(1) fn main() {
  var sum = 0u;
  var i = 0u;
  loop {
    if i == 3u { continue; }      // skips adding 3, continuing still runs
    sum += i;
    continuing {
      i++;
      break if i >= 6u;
    }
  }
  o[0] = sum;                     // 0+1+2+4+5 = 12
  o[1] = i;                       // 6
  var n = 0u;
  for (var k = 0u; k < 10u; k++) {
    if k % 2u == 0u { continue; }
    if k > 7u { break; }
    n += k;                       // 1+3+5+7 = 16
  }
  o[2] = n;
  var w = 100u;
  while w > 3u { w /= 3u; }       // 100 -> 33 -> 11 -> 3
  o[3] = w;
}`
	r := runWGSL(t, src, runCfg{bufs: map[string][]byte{"o": zeros(16), "a": u32s(6)}})
	wantNoTraps(t, r)
	eqU32(t, r, "o", 12, 6, 16, 3)
}

func TestSemSwitch(t *testing.T) {
	src := hdrIO + `
fn classify(x: i32) -> i32 {
  var r = 0;
  switch x {
    case 1: { r = 10; }
    default: { r = 99; }
    case 2, 3: { r = 20; }
    case 4: { r = 40; }
  }
  return r;
}
@compute @workgroup_size(1) fn main() {
  o[0] = classify(a[0]);   // 1 -> 10
  o[1] = classify(a[1]);   // 3 -> 20
  o[2] = classify(a[2]);   // 7 -> 99
  o[3] = classify(a[3]);   // 4 -> 40
  // continue inside switch inside loop
  var acc = 0;
  for (var i = 0; i < 6; i++) {
    switch i {
      case 2: { continue; }
      case 4: { acc += 100; }
      default: { acc += 1; }
    }
    acc += 10;
  }
  o[4] = acc;   // i=0:11, 1:11, 2: skipped, 3:11, 4:110, 5:11 => 154
}`
	r := runWGSL(t, src, runCfg{bufs: map[string][]byte{"o": zeros(20), "a": i32s(1, 3, 7, 4)}})
	wantNoTraps(t, r)
	eqI32(t, r, "o", 10, 20, 99, 40, 154)
}

func TestSemEarlyReturnAndPointers(t *testing.T) {
	src := hdrIO + `
fn find(x: i32) -> i32 {
  for (var i = 0; i < 4; i++) {
    if a[i] == x { return i; }
  }
  return -1;
}
fn bump(p: ptr<function, i32>, by: i32) { *p = *p + by; }
fn swap(p: ptr<function, vec2<i32>>) { let t = (*p).x; (*p).x = (*p).y; (*p).y = t; }
struct Acc { total: i32, n: i32 }
fn add(acc: ptr<function, Acc>, v: i32) { (*acc).total += v; (*acc).n++; }
@compute @workgroup_size(1) fn main() {
  o[0] = find(30);     // index 2
  o[1] = find(5);      // -1
  var x = 5;
  bump(&x, 7);
  bump(&x, -2);
  o[2] = x;            // 10
  var v = vec2<i32>(1, 2);
  swap(&v);
  o[3] = v.x * 10 + v.y;   // 21
  var acc = Acc(0, 0);
  for (var i = 0; i < 4; i++) { add(&acc, a[i]); }
  o[4] = acc.total;    // 10+20+30+40 = 100
  o[5] = acc.n;        // 4
}`
	r := runWGSL(t, src, runCfg{bufs: map[string][]byte{"o": zeros(24), "a": i32s(10, 20, 30, 40)}})
	wantNoTraps(t, r)
	eqI32(t, r, "o", 2, -1, 10, 21, 100, 4)
}

func TestSemPrivateAndWorkgroupVars(t *testing.T) {
	src := hdrUO + `
var<private> counter: u32 = 5u;
var<private> parr: array<u32, 3>;
var<workgroup> shared_sum: array<u32, 4>;
fn next() -> u32 { counter += 2u; return counter; }
@compute @workgroup_size(4) fn main(@builtin(local_invocation_index) li: u32, @builtin(workgroup_id) wid: vec3<u32>, @builtin(num_workgroups) nwg: vec3<u32>, @builtin(global_invocation_id) gid: vec3<u32>, @builtin(local_invocation_id) lid: vec3<u32>) {
  let x = next() + next();          // 7 + 9 = 16 (private per invocation)
  parr[1] = x;
  shared_sum[li] = a[gid.x] + parr[1] + parr[0];   // a + 16 + 0
  workgroupBarrier();
  // every invocation reads its neighbour's slot
  let nb = shared_sum[(li + 1u) % 4u];
  o[gid.x] = nb + wid.x * 1000u + nwg.x * 100000u + lid.x * 10000000u;
}`
	r := runWGSL(t, src, runCfg{local: [3]uint32{4, 1, 1}, groups: [3]uint32{2, 1, 1}, bufs: map[string][]byte{"o": zeros(32), "a": u32s(1, 2, 3, 4, 5, 6, 7, 8)}})
	wantNoTraps(t, r)
	// group 0: shared = 17 18 19 20 ; group 1: 21 22 23 24
	eqU32(t, r, "o",
		18+200000, 19+200000+10000000, 20+200000+20000000, 17+200000+30000000,
		22+1000+200000, 23+1000+200000+10000000, 24+1000+200000+20000000, 21+1000+200000+30000000)
}

func TestSemAtomics(t *testing.T) {
	src := `
struct A { add: atomic<u32>, mn: atomic<i32>, mx: atomic<i32>, ex: atomic<u32>, cas: atomic<u32>, bits: atomic<u32> }
@group(0) @binding(0) var<storage, read_write> at: A;
@group(0) @binding(1) var<storage, read_write> o: array<u32>;
var<workgroup> wsum: atomic<u32>;
@compute @workgroup_size(4) fn main(@builtin(local_invocation_index) li: u32) {
  atomicAdd(&at.add, li + 1u);              // 1+2+3+4 = 10 (+ initial 5) = 15
  atomicMin(&at.mn, 3 - i32(li) * 2);       // min(100, 3, 1, -1, -3) = -3
  atomicMax(&at.mx, i32(li) * 7 - 10);      // max(-50, -10, -3, 4, 11) = 11
  atomicAdd(&wsum, 10u);
  workgroupBarrier();
  if li == 0u {
    o[0] = atomicLoad(&wsum);               // 40
    o[1] = atomicExchange(&at.ex, 9u);      // old 123
    let r1 = atomicCompareExchangeWeak(&at.cas, 7u, 8u);   // matches: old 7, exchanged
    o[2] = r1.old_value; o[3] = u32(r1.exchanged);
    let r2 = atomicCompareExchangeWeak(&at.cas, 7u, 9u);   // now 8: fails
    o[4] = r2.old_value; o[5] = u32(r2.exchanged);
    o[6] = atomicOr(&at.bits, 0xF0u);       // old 0x0F
    o[7] = atomicAnd(&at.bits, 0x3Cu);      // old 0xFF
    o[8] = atomicXor(&at.bits, 0xFFu);      // old 0x3C -> 0xC3
    o[9] = atomicSub(&at.add, 5u);          // old 15 -> 10
    atomicStore(&wsum, 1u);
    o[10] = atomicLoad(&wsum);
  }
}`
	ab := make([]byte, 24)
	copy(ab, u32s(5))
	copy(ab[4:], i32s(100, -50))
	copy(ab[12:], u32s(123, 7, 0x0F))
	r := runWGSL(t, src, runCfg{local: [3]uint32{4, 1, 1}, bufs: map[string][]byte{"at": ab, "o": zeros(44)}})
	wantNoTraps(t, r)
	eqU32(t, r, "o", 40, 123, 7, 1, 8, 0, 0x0F, 0xFF, 0x3C, 15, 1)
	got := getU32s(r.bufs["at"])
	want := []uint32{10, 0xFFFFFFFD, 11, 9, 8, 0xC3}
	for i := range want {
		if got[i] != want[i] {
			t.Errorf("at[%d] = %#x want %#x", i, got[i], want[i])
		}
	}
}

func TestSemBarrierReduction(t *testing.T) {
	src := hdrUO + `
var<workgroup> tmp: array<u32, 4>;
@compute @workgroup_size(4) fn main(@builtin(local_invocation_index) li: u32) {
  tmp[li] = a[li];
  workgroupBarrier();
  for (var s = 2u; s > 0u; s >>= 1u) {
    if li < s { tmp[li] += tmp[li + s]; }
    workgroupBarrier();
  }
  if li == 0u { o[0] = tmp[0]; }
  o[1u + li] = workgroupUniformLoad(&tmp[1]);
}`
	// a = 1 2 3 4: step s=2: tmp = 4 6 3 4 ; s=1: tmp[0] = 10
	r := runWGSL(t, src, runCfg{local: [3]uint32{4, 1, 1}, bufs: map[string][]byte{"o": zeros(20), "a": u32s(1, 2, 3, 4)}})
	wantNoTraps(t, r)
	eqU32(t, r, "o", 10, 6, 6, 6, 6)
}

func TestSemPackUnpack(t *testing.T) {
	src := hdrUO + `
@group(0) @binding(2) var<storage, read_write> f: array<f32>;
@compute @workgroup_size(1) fn main() {
  o[0] = pack4x8unorm(vec4<f32>(0.0, 1.0, 2.0, 0.2));      // 0, 255, 255 (clamped), 51 -> 0x33FFFF00
  o[1] = pack4x8snorm(vec4<f32>(-1.0, 1.0, 0.0, -2.0));    // 0x81, 0x7F, 0x00, 0x81 -> 0x81007F81
  o[2] = pack2x16unorm(vec2<f32>(1.0, 0.0));               // 0x0000FFFF
  o[3] = pack2x16snorm(vec2<f32>(-1.0, 1.0));              // 0x7FFF8001
  o[4] = pack2x16float(vec2<f32>(1.0, -2.0));              // 0xC0003C00
  let u = unpack4x8unorm(a[0]);   // 0xFF003380 -> (128/255, 51/255, 0, 1)
  f[0] = u.y; f[1] = u.z; f[2] = u.w;
  let s = unpack4x8snorm(a[1]);   // 0x7F8100C0 -> (-64/127, 0, -1, 1)
  f[3] = s.y; f[4] = s.z; f[5] = s.w;
  let h = unpack2x16float(a[2]);  // 0xC0003C00 -> (1, -2)
  f[6] = h.x; f[7] = h.y;
  let us = unpack2x16unorm(a[3]); // 0xFFFF0000 -> (0, 1)
  f[8] = us.x; f[9] = us.y;
  let ss = unpack2x16snorm(a[4]); // 0x80007FFF -> (1, -1)
  f[10] = ss.x; f[11] = ss.y;
  o[5] = pack4xI8(vec4<i32>(-1, 2, 300, -128));            // FF 02 2C 80 -> 0x802C02FF
  o[6] = pack4xU8(vec4<u32>(1u, 2u, 3u, 260u));            // 01 02 03 04
  let i8 = unpack4xI8(a[5]);      // 0x80FF7F01 -> (1, 127, -1, -128)
  o[7] = bitcast<u32>(i8.z + i8.w);   // -129
  let u8 = unpack4xU8(a[5]);
  o[8] = u8.w + u8.y;             // 128 + 127 = 255
}`
	r := runWGSL(t, src, runCfg{bufs: map[string][]byte{"o": zeros(36), "a": u32s(0xFF003380, 0x7F8100C0, 0xC0003C00, 0xFFFF0000, 0x80007FFF, 0x80FF7F01), "f": zeros(48)}})
	wantNoTraps(t, r)
	eqU32(t, r, "o", 0x33FFFF00, 0x81007F81, 0x0000FFFF, 0x7FFF8001, 0xC0003C00, 0x802C02FF, 0x04030201, 0xFFFFFF7F, 255)
	eqF32(t, r, "f", float32(51)/255, 0, 1, 0, -1, 1, 1, -2, 0, 1, 1, -1)
}

// ---------------------------------------------------------------------------
// Cases where naga's MSL text does not compute what WGSL specifies (per the MSL
// specification as implemented here). They are logged, never "fixed" in the engine.

func TestSuspectRoundTies(t *testing.T) {
	src := hdrFO + `
@compute @workgroup_size(1) fn main() {
  o[0] = round(a[0]);  // 2.5 -> 2 (WGSL: ties to even)
  o[1] = round(a[1]);  // -2.5 -> -2
  o[2] = round(a[2]);  // 0.5 -> 0
  o[3] = round(a[3]);  // 1.5 -> 2
}`
	r := runWGSL(t, src, runCfg{bufs: map[string][]byte{"o": zeros(16), "a": f32s(2.5, -2.5, 0.5, 1.5)}})
	wantNoTraps(t, r)
	got := getF32s(r.bufs["o"])
	want := []float32{2, -2, 0, 2}
	same := true
	for i := range want {
		if got[i] != want[i] {
			same = false
		}
	}
	if !same {
		t.Logf("SUSPECT naga: WGSL round() is round-half-to-even %v but the MSL text calls metal::round (half away from zero) and yields %v; metal::rint would match", want, got)
		// the engine's reading of metal::round
		eqF32(t, r, "o", 3, -3, 1, 2)
	}
}

func TestSuspectBreakIfWithBufferLoad(t *testing.T) {
	src := hdrUO + `
@compute @workgroup_size(1) fn main() {
  var i = 0u;
  loop {
    continuing {
      i++;
      break if i >= a[0];      // a[0] = 6
    }
  }
  o[0] = i;                    // 6
}`
	r := runWGSL(t, src, runCfg{steps: 200000, bufs: map[string][]byte{"o": zeros(4), "a": u32s(6)}})
	if r.err != nil || getU32s(r.bufs["o"])[0] != 6 {
		t.Logf("SUSPECT naga: `break if i >= a[0]` with the default bounds-check policy is emitted as `if (i >= uint(0) < N ? a[0] : DefaultConstructible())` (no parentheses around the inlined guarded load, and the baked _eN is not used): the condition parses as ((i >= 0u) < N) ? a[0] : 0, so the loop does not terminate as WGSL requires. run error: %v, o[0]=%d", r.err, getU32s(r.bufs["o"])[0])
	}
}

func TestSuspectClampLowAboveHigh(t *testing.T) {
	src := hdrUO + `
@compute @workgroup_size(1) fn main() {
  o[0] = clamp(a[0], a[1], a[2]);   // WGSL: min(max(7, 5), 1) = 1
}`
	r := runWGSL(t, src, runCfg{bufs: map[string][]byte{"o": zeros(4), "a": u32s(7, 5, 1)}})
	if r.err != nil {
		t.Fatal(r.err)
	}
	if len(r.res.Traps) > 0 {
		t.Logf("SUSPECT naga: WGSL clamp(e, low, high) is defined as min(max(e, low), high) for low > high, but the MSL text uses metal::clamp whose result is undefined when minval > maxval: %v", r.res.Traps[0])
	}
	eqU32(t, r, "o", 1)
}

// ---------------------------------------------------------------------------

func TestSemTranscendental(t *testing.T) {
	src := hdrFO + `
@compute @workgroup_size(1) fn main() {
  o[0] = exp2(a[0]);      // 3 -> 8
  o[1] = log2(a[1]);      // 8 -> 3
  o[2] = pow(a[2], a[3]); // 2^10 = 1024
  o[3] = sin(a[4]);       // 0
  o[4] = cos(a[4]);       // 1
  o[5] = exp(a[4]);       // 1
  o[6] = atan2(a[4], a[0]);  // atan2(0, 3) = 0
  o[7] = tanh(a[4]);
  o[8] = degrees(a[5]);   // pi -> 180 (within rounding)
  o[9] = radians(a[6]);   // 180 -> pi
}`
	r := runWGSL(t, src, runCfg{bufs: map[string][]byte{"o": zeros(40), "a": f32s(3, 8, 2, 10, 0, math.Pi, 180)}})
	wantNoTraps(t, r)
	got := getF32s(r.bufs["o"])
	want := []float32{8, 3, 1024, 0, 1, 1, 0, 0, 180, math.Pi}
	for i := range want {
		if d := math.Abs(float64(got[i] - want[i])); d > 1e-4*math.Max(1, math.Abs(float64(want[i]))) {
			t.Errorf("o[%d] = %v want %v\n%s", i, got[i], want[i], r.msl)
		}
	}
}

func TestSemModfFrexpLdexp(t *testing.T) {
	src := hdrFO + `
@group(0) @binding(2) var<storage, read_write> oi: array<i32>;
@compute @workgroup_size(1) fn main() {
  let m = modf(a[0]);       // 3.75 -> fract 0.75 whole 3
  o[0] = m.fract; o[1] = m.whole;
  let n = modf(a[1]);       // -3.75 -> -0.75, -3
  o[2] = n.fract; o[3] = n.whole;
  let f = frexp(a[2]);      // 8 -> 0.5 * 2^4
  o[4] = f.fract; oi[0] = f.exp;
  let g = frexp(a[3]);      // 0.15625 = 0.625 * 2^-2
  o[5] = g.fract; oi[1] = g.exp;
  o[6] = ldexp(a[4], oi[2]);   // 0.75 * 2^3 = 6
  let v = modf(vec2<f32>(a[0], a[1]));
  o[7] = v.whole.y;         // -3
}`
	r := runWGSL(t, src, runCfg{bufs: map[string][]byte{"o": zeros(32), "a": f32s(3.75, -3.75, 8, 0.15625, 0.75), "oi": i32s(0, 0, 3)}})
	wantNoTraps(t, r)
	eqF32(t, r, "o", 0.75, 3, -0.75, -3, 0.5, 0.625, 6, -3)
	eqI32(t, r, "oi", 4, -2, 3)
}

func TestSemValueSemanticsOfArraysAndStructs(t *testing.T) {
	src := hdrIO + `
struct Box { v: array<i32, 3>, tag: i32 }
fn make(base: i32) -> Box { return Box(array<i32, 3>(base, base + 1, base + 2), -base); }
fn sum(b: Box) -> i32 { var c = b; c.v[0] = 1000; return b.v[0] + b.v[1] + b.v[2] + b.tag + c.v[0]; }
fn arr() -> array<i32, 2> { return array<i32, 2>(a[0], a[1]); }
@compute @workgroup_size(1) fn main() {
  var b1 = make(a[0]);         // v = 5 6 7, tag -5
  var b2 = b1;                 // copy
  b2.v[1] = 60;
  b2.tag = 9;
  o[0] = b1.v[1];              // 6 (unchanged)
  o[1] = b2.v[1];              // 60
  o[2] = sum(b1);              // 5+6+7-5+1000 = 1013
  var q = arr();
  let q2 = q;
  q[0] = 77;
  o[3] = q2[0] + q[0];         // 5 + 77 = 82
  var grid: array<array<i32, 2>, 2>;
  grid[1][0] = 4; grid[0][1] = 3;
  let g2 = grid;
  grid[1][0] = 40;
  o[4] = g2[1][0] * 10 + g2[0][1] + grid[1][0] * 100;   // 40 + 3 + 4000 = 4043
  o[5] = make(a[1]).v[2];      // 8 + 2 = 10
}`
	r := runWGSL(t, src, runCfg{bufs: map[string][]byte{"o": zeros(24), "a": i32s(5, 8)}})
	wantNoTraps(t, r)
	eqI32(t, r, "o", 6, 60, 1013, 82, 4043, 10)
}

func TestSemVectorRelational(t *testing.T) {
	src := hdrIO + `
@compute @workgroup_size(1) fn main() {
  let v = vec3<i32>(a[0], a[1], a[2]);      // 1 5 -3
  let w = vec3<i32>(2, 5, -4);
  let lt = v < w;                           // (true, false, false)
  let ge = v >= w;                          // (false, true, true)
  o[0] = i32(any(lt)) + 10 * i32(all(lt)) + 100 * i32(all(lt | ge));   // 1 + 0 + 100
  let s = select(v, w, lt);                 // (2, 5, -3)
  o[1] = s.x + s.y + s.z;                   // 4
  o[2] = i32(all(v == v)) + i32(any(v != v)) * 10;   // 1
  let nb = !lt;                             // (false, true, true)
  o[3] = i32(nb.x) + i32(nb.y) * 2 + i32(nb.z) * 4;  // 6
  o[4] = i32((a[0] < a[1]) && (a[2] < a[0]) || false);   // 1
  let b = (a[0] > a[1]) & (a[2] < a[0]) | (a[1] == 5);   // false & true | true = true
  o[5] = i32(b);
  let av = abs(v) * vec3<i32>(1, 10, 100);  // (1, 50, 300)
  o[6] = av.x + av.y + av.z;                // 351
  o[7] = dot(v, w);                         // 2 + 25 + 12 = 39
}`
	r := runWGSL(t, src, runCfg{bufs: map[string][]byte{"o": zeros(32), "a": i32s(1, 5, -3)}})
	wantNoTraps(t, r)
	eqI32(t, r, "o", 101, 4, 1, 6, 1, 1, 351, 39)
}

func TestSemDispatch3D(t *testing.T) {
	src := `
@group(0) @binding(0) var<storage, read_write> o: array<u32>;
@compute @workgroup_size(2, 2, 1) fn main(@builtin(global_invocation_id) gid: vec3<u32>, @builtin(local_invocation_index) li: u32, @builtin(workgroup_id) wg: vec3<u32>, @builtin(num_workgroups) nwg: vec3<u32>) {
  let idx = gid.y * 2u + gid.x;            // grid is 2 wide, 4 tall
  o[idx] = li + 10u * wg.y + 100u * gid.y + 1000u * nwg.y;
}`
	r := runWGSL(t, src, runCfg{local: [3]uint32{2, 2, 1}, groups: [3]uint32{1, 2, 1}, bufs: map[string][]byte{"o": zeros(32)}})
	wantNoTraps(t, r)
	// group y=0: (x,y) local idx: (0,0)=0 (1,0)=1 (0,1)=2 (1,1)=3
	eqU32(t, r, "o", 2000, 2001, 2102, 2103, 2210, 2211, 2312, 2313)
}

func TestSemDynamicIndexingPolicy(t *testing.T) {
	src := hdrIO + `
@compute @workgroup_size(1) fn main() {
  var loc = array<i32, 4>(10, 20, 30, 40);
  let i = a[0];          // 2
  let j = a[1];          // 9 (out of range)
  let k = a[2];          // -1 (out of range)
  o[0] = loc[i];         // 30
  loc[j] = 111;          // out of range write: no effect on in-range elements
  loc[k] = 222;
  o[1] = loc[0] + loc[1] + loc[2] + loc[3];   // 100
  var v = vec4<i32>(1, 2, 3, 4);
  v[i] = 50;
  o[2] = v.x + v.y + v.z + v.w;               // 57
  var m = mat2x2<f32>(1.0, 2.0, 3.0, 4.0);
  m[a[3]][a[3]] = 9.0;   // a[3] = 1 -> m[1][1]
  o[3] = i32(m[1].y + m[0].x);                // 10
}`
	r := runWGSL(t, src, runCfg{bufs: map[string][]byte{"o": zeros(16), "a": i32s(2, 9, -1, 1)}})
	wantNoTraps(t, r)
	eqI32(t, r, "o", 30, 100, 57, 10)
}

func TestSemZeroInit(t *testing.T) {
	src := hdrUO + `
struct T { x: u32, y: vec2<f32>, z: array<u32, 2> }
var<workgroup> wz: array<u32, 4>;
var<workgroup> wt: T;
var<private> pz: T;
@compute @workgroup_size(2) fn main(@builtin(local_invocation_index) li: u32) {
  var x: u32;
  var t: T;
  var arr: array<vec3<u32>, 2>;
  o[li * 4u + 0u] = x + t.x + t.z[1] + arr[1].z + u32(t.y.y);   // 0
  o[li * 4u + 1u] = wz[li] + wz[3] + wt.z[0] + u32(wt.y.x);      // 0 (workgroup memory is zero-initialised)
  o[li * 4u + 2u] = pz.x + pz.z[1] + 7u;                          // 7
  workgroupBarrier();
  wz[li] = li + 1u;
  workgroupBarrier();
  o[li * 4u + 3u] = wz[0] + wz[1] * 10u;                          // 21
}`
	r := runWGSL(t, src, runCfg{local: [3]uint32{2, 1, 1}, bufs: map[string][]byte{"o": u32s(9, 9, 9, 9, 9, 9, 9, 9), "a": u32s(0)}})
	wantNoTraps(t, r)
	eqU32(t, r, "o", 0, 0, 7, 21, 0, 0, 7, 21)
}

func TestSemGeometric(t *testing.T) {
	src := hdrFO + `
@compute @workgroup_size(1) fn main() {
  let v = vec3<f32>(a[0], a[1], a[2]);           // 3 0 4
  let n = normalize(v);                          // (0.6, 0, 0.8)
  o[0] = n.x; o[1] = n.z;
  o[2] = distance(v, vec3<f32>(0.0, 0.0, 0.0));  // 5
  o[3] = smoothstep(0.0, 4.0, a[3]);             // x=2: t=0.5 -> 0.5
  let r = reflect(vec2<f32>(1.0, -1.0), vec2<f32>(0.0, 1.0));   // (1, 1)
  o[4] = r.x; o[5] = r.y;
  let ff = faceForward(vec2<f32>(0.0, 1.0), vec2<f32>(0.0, -1.0), vec2<f32>(0.0, 1.0));  // dot(nref, i) = -1 < 0 -> n
  o[6] = ff.y;
  o[7] = quantizeToF16(a[4]);                    // 1.0009765625 + tiny -> 1.0009765625 (1 + 2^-10)
  o[8] = length(a[5]);                           // |-2| = 2
}`
	r := runWGSL(t, src, runCfg{bufs: map[string][]byte{"o": zeros(36), "a": f32s(3, 0, 4, 2, 1.0009766, -2)}})
	wantNoTraps(t, r)
	got := getF32s(r.bufs["o"])
	want := []float32{0.6, 0.8, 5, 0.5, 1, 1, 1, 1.0009765625, 2}
	for i := range want {
		if d := math.Abs(float64(got[i] - want[i])); d > 1e-6 {
			t.Errorf("o[%d] = %v want %v\n%s", i, got[i], want[i], r.msl)
		}
	}
}

func TestSemMatrixInBuffers(t *testing.T) {
	src := `
struct U { mvp: mat4x4<f32>, n: mat3x3<f32>, scale: f32 }
struct R { m: mat3x3<f32>, v: vec3<f32>, k: f32, m2: mat2x3<f32> }
@group(0) @binding(0) var<uniform> u: U;
@group(0) @binding(1) var<storage, read_write> r: R;
@compute @workgroup_size(1) fn main() {
  let p = u.mvp * vec4<f32>(1.0, 2.0, 3.0, 1.0);    // translation matrix by (10,20,30): (11, 22, 33, 1)
  r.v = p.xyz * u.scale;                            // * 2 = (22, 44, 66)
  r.k = p.w;
  r.m = transpose(u.n);
  r.m2 = mat2x3<f32>(u.n[0], u.n[2]);
}`
	// U: mvp @0 (64), n @64 (48), scale @112 ; size 128
	ub := make([]byte, 128)
	copy(ub[0:], f32s(1, 0, 0, 0, 0, 1, 0, 0, 0, 0, 1, 0, 10, 20, 30, 1))
	copy(ub[64:], f32s(1, 2, 3, 0, 4, 5, 6, 0, 7, 8, 9, 0))
	copy(ub[112:], f32s(2))
	// R: m @0 (48), v @48 (12), k @60, m2 @64 (2 columns * 16 = 32) ; size 96
	rb := make([]byte, 96)
	for i := range rb {
		rb[i] = 0xEE
	}
	out := runWGSL(t, src, runCfg{bufs: map[string][]byte{"u": ub, "r": rb}})
	wantNoTraps(t, out)
	g := getF32s(out.bufs["r"])
	chk := func(i int, w float32) {
		if g[i] != w {
			t.Errorf("r float[%d] (byte %d) = %v want %v", i, i*4, g[i], w)
		}
	}
	// transpose of columns (1,2,3),(4,5,6),(7,8,9) = columns (1,4,7),(2,5,8),(3,6,9)
	for i, w := range []float32{1, 4, 7} {
		chk(i, w)
	}
	for i, w := range []float32{2, 5, 8} {
		chk(4+i, w)
	}
	for i, w := range []float32{3, 6, 9} {
		chk(8+i, w)
	}
	for i, w := range []float32{22, 44, 66, 1} {
		chk(12+i, w)
	}
	for i, w := range []float32{1, 2, 3} {
		chk(16+i, w)
	}
	for i, w := range []float32{7, 8, 9} {
		chk(20+i, w)
	}
	if t.Failed() {
		t.Logf("msl:\n%s", out.msl)
	}
}

func TestSemVectorIntegerOps(t *testing.T) {
	src := hdrUO + `
@compute @workgroup_size(1) fn main() {
  let v = vec4<u32>(a[0], a[1], a[2], a[3]);        // 0xFFFFFFFF 2 3 0x80000000
  let w = v * vec4<u32>(2u, 3u, 4u, 2u);            // 0xFFFFFFFE 6 12 0
  o[0] = w.x; o[1] = w.y; o[2] = w.z; o[3] = w.w;
  let x = (v & vec4<u32>(0xFFu)) | vec4<u32>(0x100u);   // 0x1FF 0x102 0x103 0x100
  o[4] = x.x ^ x.y;                                 // 0x0FD
  o[5] = (~v).y;                                    // 0xFFFFFFFD
  let iv = vec2<i32>(bitcast<i32>(a[3]), 7) - vec2<i32>(1, -3);   // (MIN - 1 wraps to MAX, 10)
  o[6] = bitcast<u32>(iv.x); o[7] = bitcast<u32>(iv.y);
  let sh = v >> vec4<u32>(4u);
  o[8] = sh.x;                                      // 0x0FFFFFFF
  let c = countLeadingZeros(v);
  o[9] = c.y + c.w * 100u;                          // 30 + 0
  var acc = vec2<u32>(1u, 2u);
  acc += vec2<u32>(10u);
  acc *= 3u;
  o[10] = acc.x + acc.y;                            // 33 + 36 = 69
}`
	r := runWGSL(t, src, runCfg{bufs: map[string][]byte{"o": zeros(44), "a": u32s(0xFFFFFFFF, 2, 3, 0x80000000)}})
	wantNoTraps(t, r)
	eqU32(t, r, "o", 0xFFFFFFFE, 6, 12, 0, 0xFD, 0xFFFFFFFD, 0x7FFFFFFF, 10, 0x0FFFFFFF, 30, 69)
}

func TestSuspectAtomicOnRuntimeSizedArray(t *testing.T) {
	src := `
@group(0) @binding(0) var<storage, read_write> o: array<u32>;
@group(0) @binding(1) var<storage, read_write> at: array<atomic<u32>>;
@compute @workgroup_size(1) fn main() {
  let i = o[0];                       // 2
  o[1] = atomicAdd(&at[i], 5u);       // old 30 ; at[2] = 35
}`
	r := runWGSL(t, src, runCfg{static: true, bufs: map[string][]byte{"o": u32s(2, 0), "at": u32s(10, 20, 30, 40)}})
	if r.err != nil {
		t.Logf("SUSPECT naga: an atomic on a dynamically indexed element of a runtime-sized storage array is emitted as `metal::atomic_fetch_add_explicit(&uint(i) < N ? at[i] : DefaultConstructible(), ...)`: `&` binds to uint(i) (an rvalue) and the ?: mixes an atomic lvalue with DefaultConstructible: ill-formed MSL. (The same shape breaks atomicCompareExchangeWeak on any dynamically indexed array.) First diagnostic: %v", r.err)
		return
	}
	eqU32(t, r, "o", 2, 30)
	eqU32(t, r, "at", 10, 20, 35, 40)
}

func TestSuspectPointerToRuntimeArrayParameter(t *testing.T) {
	src := `
@group(0) @binding(0) var<storage, read_write> o: array<u32>;
fn put(p: ptr<storage, array<u32>, read_write>, i: u32) { (*p)[i] = 5u + arrayLength(p); }
@compute @workgroup_size(1) fn main() {
  put(&o, 0u); put(&o, 1u); put(&o, 3u);
}`
	r := runWGSL(t, src, runCfg{static: true, bufs: map[string][]byte{"o": zeros(16)}})
	if r.err != nil {
		t.Logf("SUSPECT naga: a storage array that is only accessed through a pointer argument is declared `device T const& o` in the kernel but passed to a `device T& p` parameter (ill-formed: drops const); inside the callee the bound of the pointee is the constant `1 + 0` and arrayLength(p) is emitted as `(/* array length */ 0)` because _buffer_sizes is not forwarded. WGSL requires o = [9 9 0 9]. First diagnostic: %v", r.err)
		return
	}
	got := getU32s(r.bufs["o"])
	if got[0] != 9 || got[1] != 9 || got[2] != 0 || got[3] != 9 {
		t.Logf("SUSPECT naga: pointer to runtime-sized array parameter: got %v, WGSL requires [9 9 0 9]", got)
	}
}

func TestSuspectPointerToStorageElement(t *testing.T) {
	src := `
@group(0) @binding(0) var<storage, read_write> o: array<u32>;
fn sset(p: ptr<storage, u32, read_write>, v: u32) { *p = v; }
@compute @workgroup_size(1) fn main(@builtin(local_invocation_index) li: u32) {
  sset(&o[li + 1u], 7u);
}`
	r := runWGSL(t, src, runCfg{static: true, bufs: map[string][]byte{"o": zeros(8)}})
	if r.err != nil {
		t.Logf("SUSPECT naga: passing a pointer to a dynamically indexed storage element is emitted as `sset(uint(i) < N ? o[i] : oob, ...)` where `oob` is a thread-space local: the two operands of ?: are lvalues in different address spaces, so the result cannot bind to the `device uint&` parameter (ill-formed MSL). First diagnostic: %v", r.err)
		return
	}
	eqU32(t, r, "o", 0, 7)
}

func TestSemPointersIntoArraysAndWorkgroup(t *testing.T) {
	src := hdrUO + `
var<workgroup> wa: array<atomic<u32>, 4>;
var<workgroup> wv: array<u32, 4>;
struct Acc { total: u32, n: u32 }
fn bump(p: ptr<function, u32>, by: u32) { *p += by; }
fn wadd(p: ptr<workgroup, array<atomic<u32>, 4>>, i: u32) -> u32 { return atomicAdd(&(*p)[i], 1u); }
fn wset(p: ptr<workgroup, array<u32, 4>>, i: u32, v: u32) { (*p)[i] = v; }
@compute @workgroup_size(4) fn main(@builtin(local_invocation_index) li: u32) {
  var arr = array<u32, 4>(1u, 2u, 3u, 4u);
  let i = a[0];                 // 2
  bump(&arr[i], 10u);           // arr[2] = 13
  bump(&arr[a[1]], 100u);       // a[1] = 7: out of range, no effect
  let p = &arr[li];
  *p = *p + 1u;                 // arr[li] += 1
  var acc = Acc(0u, 0u);
  bump(&acc.total, arr[2]);     // 13 (+1 if li == 2)
  bump(&acc.n, 1u);
  wset(&wv, li, acc.total);
  let old = wadd(&wa, li % 2u); // two invocations per slot
  workgroupBarrier();
  o[li] = wv[li] * 100u + atomicLoad(&wa[li % 2u]) * 10u + acc.n;
}`
	r := runWGSL(t, src, runCfg{local: [3]uint32{4, 1, 1}, bufs: map[string][]byte{"o": zeros(16), "a": u32s(2, 7)}})
	wantNoTraps(t, r)
	eqU32(t, r, "o", 1321, 1321, 1421, 1321)
}

func TestBarrierDivergenceTrap(t *testing.T) {
	r := runMSLSized(t, `
struct type_1 { uint inner[4]; };
kernel void main_(device type_1& o [[buffer(0)]], uint li [[thread_index_in_threadgroup]]) {
    if (li == 0u) { return; }
    metal::threadgroup_barrier(metal::mem_flags::mem_threadgroup);
    o.inner[li] = 1u;
    return;
}`, xrt.Buffers{slot(0): zeros(16)}, [3]uint32{4, 1, 1})
	if r.err != nil || !hasTrap(r, xrt.TrapOther) {
		t.Errorf("err=%v traps=%v", r.err, r.res.Traps)
	}
	if g := getU32s(r.bufs[slot(0)]); g[0] != 0 || g[1] != 1 || g[3] != 1 {
		t.Errorf("o=%v", g)
	}
}

func TestSuspectUncheckedValueIndexing(t *testing.T) {
	src := hdrIO + `
@compute @workgroup_size(1) fn main() {
  let i = a[0];                          // 9: out of range
  let t = array<i32, 3>(1, 2, 3);
  let v = vec4<i32>(5, 6, 7, 8);
  o[0] = t[i];                           // WGSL: some element / indeterminate value, but no undefined behaviour
  o[1] = v[i];
}`
	r := runWGSL(t, src, runCfg{bufs: map[string][]byte{"o": zeros(8), "a": i32s(9)}})
	if r.err != nil {
		t.Fatal(r.err)
	}
	n := 0
	for _, tr := range r.res.Traps {
		if tr.Kind == xrt.TrapOOB {
			n++
		}
	}
	if n > 0 {
		t.Logf("SUSPECT naga: dynamic indexing of a let-bound array / vector VALUE is emitted without any bounds check (`t.inner[i]`, `v[i]`) although the bounds-check policy is ReadZeroSkipWrite: out-of-range indices read outside the object in MSL (undefined behaviour): %d traps, first: %v", n, r.res.Traps[0])
	}
}
