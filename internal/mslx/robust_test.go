package mslx

import (
	"math/rand"
	"os"
	"path/filepath"
	"sort"
	"strings"
	"testing"
	"time"

	"verif/internal/xrt"
)

// TestParseNeverPanics mutates golden texts (drops / duplicates / swaps random
// spans) and checks that Parse and Run always return (value or error).
func TestParseNeverPanics(t *testing.T) {
	files, _ := filepath.Glob(filepath.Join(goldenDir, "*.msl"))
	if len(files) == 0 {
		t.Skip("no goldens")
	}
	sort.Strings(files)
	rng := rand.New(rand.NewSource(7))
	deadline := time.Now().Add(20 * time.Second)
	n, internal := 0, 0
	for _, f := range files {
		b, _ := os.ReadFile(f)
		src := string(b)
		if !strings.Contains(src, "\nkernel ") {
			continue
		}
		for k := 0; k < mutationsPerFile() && time.Now().Before(deadline); k++ {
			m := src
			i := rng.Intn(len(m))
			j := i + rng.Intn(12)
			if j > len(m) {
				j = len(m)
			}
			switch rng.Intn(3) {
			case 0:
				m = m[:i] + m[j:]
			case 1:
				m = m[:i] + m[i:j] + m[i:]
			case 2:
				x := rng.Intn(len(m))
				y := x + rng.Intn(12)
				if y > len(m) {
					y = len(m)
				}
				if x > j {
					m = m[:i] + m[x:y] + m[j:x] + m[i:j] + m[y:]
				}
			}
			n++
			p, err := Parse(m)
			if err != nil {
				if u, ok := err.(*xrt.Unsupported); ok && strings.Contains(u.What, "internal error") {
					internal++
					t.Errorf("%s: mutation %d: %v", filepath.Base(f), k, err)
				}
				continue
			}
			for _, e := range p.Entries() {
				if p.EntryUnsupported(e.Name) != nil || len(p.StaticTraps()) > 0 {
					continue
				}
				bufs := xrt.Buffers{}
				for _, r := range p.EntryResources(e.Name) {
					bufs[r.Slot] = make([]byte, 256)
				}
				_, err := p.Run(e.Name, bufs, xrt.Options{TrapMode: true, MaxSteps: 20000})
				if u, ok := err.(*xrt.Unsupported); ok && strings.Contains(u.What, "internal error") {
					internal++
					t.Errorf("%s: mutation %d: run: %v", filepath.Base(f), k, err)
				}
			}
		}
	}
	t.Logf("%d mutated texts, %d internal errors", n, internal)
}

func mutationsPerFile() int {
	if os.Getenv("MSLX_MUTATIONS") == "many" {
		return 150
	}
	return 4
}
