package mslx

import (
	"fmt"
	"strings"

	"verif/internal/xrt"
)

type checker struct {
	prog   *Program
	fn     *FuncDecl
	scopes []map[string]*VarDecl
	loops  int
	sws    int
	quiet  bool // suppress Decl-related monitors (template instantiations)
}

func (c *checker) where(line int) string {
	if c.fn != nil {
		return fmt.Sprintf("function %s, line %d", c.fn.Name, line)
	}
	return fmt.Sprintf("line %d", line)
}

func (c *checker) trap(kind xrt.TrapKind, line int, format string, a ...interface{}) {
	c.prog.trap(kind, "%s: %s", c.where(line), fmt.Sprintf(format, a...))
}

func (c *checker) unsupported(line int, format string, a ...interface{}) {
	panic(bail{unsupportedf("%s: %s", c.where(line), fmt.Sprintf(format, a...))})
}

// ---------------------------------------------------------------------------

func (c *checker) checkProgram() {
	p := c.prog
	// reserved identifiers
	for _, d := range p.decls {
		if why := reservedReason(d.Name); why != "" {
			scope := d.Scope
			if scope == "" {
				scope = "module scope"
			}
			p.trap(xrt.TrapReserved, "line %d: %s %q (%s) is a reserved word: %s", d.line, d.Kind, d.Name, scope, why)
		}
	}
	// module-scope redeclarations
	seen := map[string]string{}
	for _, g := range p.globals {
		if k, ok := seen[g.Name]; ok {
			p.trap(xrt.TrapRedecl, "line %d: %q redeclared at module scope (previously a %s)", g.line, g.Name, k)
		}
		seen[g.Name] = "variable"
		if _, ok := p.typeNames[g.Name]; ok {
			p.trap(xrt.TrapRedecl, "line %d: variable %q has the same name as a type", g.line, g.Name)
		}
	}
	for _, fn := range p.funcOrder {
		if k, ok := seen[fn.Name]; ok && k != "function" {
			p.trap(xrt.TrapRedecl, "line %d: function %q redeclares a %s", fn.line, fn.Name, k)
		}
		seen[fn.Name] = "function"
	}
	for name, fns := range p.funcs {
		for i := 0; i < len(fns); i++ {
			for j := i + 1; j < len(fns); j++ {
				if sameSignature(fns[i], fns[j]) {
					p.trap(xrt.TrapRedecl, "line %d: function %q redefined with the same parameter types (first at line %d)", fns[j].line, name, fns[i].line)
				}
			}
		}
	}
	// globals
	for _, g := range p.globals {
		c.checkGlobal(g)
	}
	// functions
	for _, fn := range p.funcOrder {
		if len(fn.TParams) > 0 {
			continue // checked per instantiation
		}
		c.checkFunc(fn)
	}
	// global declarations named like a library function that the text also calls unqualified
	// (only a problem when `using namespace metal;` merges the overload sets)
	if p.usingNS["metal"] {
		for _, fn := range p.funcOrder {
			if metalFunctionNames[fn.Name] && p.unqualifiedLibCalls[fn.Name] {
				p.trap(xrt.TrapReserved, "line %d: module-scope function %q has the name of a metal:: library function that the text calls unqualified under `using namespace metal`", fn.line, fn.Name)
			}
		}
	}
}

func sameSignature(a, b *FuncDecl) bool {
	if len(a.Params) != len(b.Params) || len(a.TParams) != len(b.TParams) {
		return false
	}
	for i := range a.Params {
		if !sameType(a.Params[i].Ty, b.Params[i].Ty) {
			return false
		}
	}
	return true
}

func (c *checker) checkGlobal(g *VarDecl) {
	defer func() {
		if r := recover(); r != nil {
			b, ok := r.(bail)
			if !ok {
				panic(r)
			}
			c.prog.skippedNames[g.Name] = b.err
			g.Ty = unsupportedType(g.Ty.String(), b.err.Error())
		}
	}()
	c.fn = nil
	c.scopes = nil
	if w, bad := hasUnsupported(g.Ty); bad {
		c.unsupported(g.line, "global %s has type %s", g.Name, w)
	}
	if g.Space != "constant" {
		if g.Space == "" {
			c.trap(xrt.TrapType, g.line, "module-scope variable %q must be declared in the constant address space", g.Name)
		} else {
			c.unsupported(g.line, "module-scope variable in %s address space", g.Space)
		}
	}
	if g.Init == nil {
		c.trap(xrt.TrapType, g.line, "constant variable %q has no initialiser", g.Name)
		return
	}
	c.checkInit(g.Ty, g.Init, "initialisation of "+g.Name)
}

func (c *checker) push() { c.scopes = append(c.scopes, map[string]*VarDecl{}) }
func (c *checker) pop()  { c.scopes = c.scopes[:len(c.scopes)-1] }

func (c *checker) declare(v *VarDecl) {
	top := c.scopes[len(c.scopes)-1]
	if old, ok := top[v.Name]; ok && v.Name != "" {
		c.trap(xrt.TrapRedecl, v.line, "%q redeclared in the same scope (first declared at line %d)", v.Name, old.line)
	}
	v.slot = c.fn.nslots
	c.fn.nslots++
	if v.Name != "" {
		top[v.Name] = v
	}
}

func (c *checker) lookup(name string) *VarDecl {
	for i := len(c.scopes) - 1; i >= 0; i-- {
		if v, ok := c.scopes[i][name]; ok {
			return v
		}
	}
	for _, g := range c.prog.globals {
		if g.Name == name {
			return g
		}
	}
	return nil
}

func (c *checker) checkFunc(fn *FuncDecl) {
	if fn.checked {
		return
	}
	fn.checked = true
	saveFn, saveScopes, saveLoops, saveSws := c.fn, c.scopes, c.loops, c.sws
	defer func() {
		c.fn, c.scopes, c.loops, c.sws = saveFn, saveScopes, saveLoops, saveSws
		if r := recover(); r != nil {
			b, ok := r.(bail)
			if !ok {
				panic(r)
			}
			fn.unsupported = b.err
		}
	}()
	c.fn = fn
	c.scopes = nil
	c.loops, c.sws = 0, 0
	c.push()
	if fn.Stage != "" && fn.Stage != "kernel" {
		c.unsupported(fn.line, "%s function (only compute is modelled)", fn.Stage)
	}
	if w, bad := hasUnsupported(fn.Ret); bad {
		c.unsupported(fn.line, "return type %s", w)
	}
	if fn.Ret.Kind == KRef || fn.Ret.Kind == KPtr {
		c.unsupported(fn.line, "function returning a reference / pointer")
	}
	if fn.Ret.Kind == KArray {
		c.trap(xrt.TrapType, fn.line, "function %s returns an array type", fn.Name)
	}
	if fn.Stage == "kernel" && fn.Ret.Kind != KVoid {
		c.trap(xrt.TrapType, fn.line, "kernel %s must return void", fn.Name)
	}
	for _, v := range fn.Params {
		if w, bad := hasUnsupported(v.Ty); bad {
			c.unsupported(v.line, "parameter %s has type %s", v.Name, w)
		}
		if v.Ty.Kind == KVoid {
			c.trap(xrt.TrapType, v.line, "parameter %q has type void", v.Name)
		}
		c.declare(v)
	}
	if fn.Stage == "kernel" {
		c.checkKernelParams(fn)
	}
	// C++: the parameters and the outermost block of the body share one scope
	for _, s := range fn.Body.List {
		c.stmt(s)
	}
}

var builtinInputAttrs = map[string]bool{
	"thread_position_in_grid": true, "thread_position_in_threadgroup": true, "thread_index_in_threadgroup": true,
	"threadgroup_position_in_grid": true, "threadgroups_per_grid": true, "threads_per_threadgroup": true, "threads_per_grid": true,
}

func (c *checker) checkKernelParams(fn *FuncDecl) {
	for _, v := range fn.Params {
		t := v.Ty
		switch {
		case (t.Kind == KRef || t.Kind == KPtr) && (t.Space == "device" || t.Space == "constant"):
			if t.Kind == KPtr {
				c.unsupported(v.line, "pointer-typed buffer parameter %s", v.Name)
			}
		case t.Kind == KRef && t.Space == "threadgroup", t.Kind == KPtr && t.Space == "threadgroup":
			if t.Kind == KPtr {
				c.unsupported(v.line, "pointer-typed threadgroup parameter %s", v.Name)
			}
		case t.Kind == KRef || t.Kind == KPtr:
			c.trap(xrt.TrapType, v.line, "kernel parameter %q is a %s reference; kernel arguments must be device, constant or threadgroup", v.Name, t.Space)
		default:
			ok := false
			for _, a := range v.Attrs {
				if builtinInputAttrs[a.Name] {
					ok = true
					st := t.scalarOf()
					if !(t.isScalar() || t.isVec()) || (st.Kind != KUint && st.Kind != KUshort) {
						c.trap(xrt.TrapType, v.line, "kernel input %q [[%s]] must have an unsigned integer scalar or vector type, has %s", v.Name, a.Name, t)
					}
					if st.Kind == KUshort {
						c.unsupported(v.line, "ushort kernel input")
					}
					if a.Name == "thread_index_in_threadgroup" && !t.isScalar() {
						c.trap(xrt.TrapType, v.line, "kernel input %q [[thread_index_in_threadgroup]] must be a scalar", v.Name)
					}
				}
			}
			if !ok {
				names := []string{}
				for _, a := range v.Attrs {
					names = append(names, a.Name)
				}
				c.unsupported(v.line, "kernel parameter %s with attributes [%s]", v.Name, strings.Join(names, ","))
			}
		}
	}
}

// ---------------------------------------------------------------------------
// statements

func (c *checker) stmt(s Stmt) {
	switch s := s.(type) {
	case *BlockStmt:
		c.push()
		for _, x := range s.List {
			c.stmt(x)
		}
		c.pop()
	case *EmptyStmt:
	case *DeclStmt:
		for _, v := range s.Vars {
			c.localDecl(v)
		}
	case *ExprStmt:
		c.expr(s.X)
	case *IfStmt:
		c.cond(s.Cond, "if")
		c.scoped(s.Then)
		if s.Else != nil {
			c.scoped(s.Else)
		}
	case *WhileStmt:
		c.cond(s.Cond, "while")
		c.loops++
		c.scoped(s.Body)
		c.loops--
	case *DoStmt:
		c.loops++
		c.scoped(s.Body)
		c.loops--
		c.cond(s.Cond, "do-while")
	case *ForStmt:
		c.push()
		if s.Init != nil {
			c.stmt(s.Init)
		}
		if s.Cond != nil {
			c.cond(s.Cond, "for")
		}
		if s.Post != nil {
			c.expr(s.Post)
		}
		c.loops++
		c.scoped(s.Body)
		c.loops--
		c.pop()
	case *SwitchStmt:
		t := c.expr(s.Tag)
		if t != nil {
			if t.Kind == KEnum {
				c.unsupported(s.line, "switch on enum")
			}
			if !t.isInteger() && t.Kind != KBool {
				c.trap(xrt.TrapType, s.line, "switch selector has non-integer type %s", t)
				t = nil
			}
		}
		var tagT *Type
		if t != nil {
			tagT = promote(t)
		}
		c.sws++
		c.push()
		seenVals := map[uint32]bool{}
		seenDefault := false
		for _, x := range s.Body {
			if cl, ok := x.(*CaseLabel); ok {
				if cl.Default {
					if seenDefault {
						c.trap(xrt.TrapType, cl.line, "multiple default labels in one switch")
					}
					seenDefault = true
					continue
				}
				ct := c.expr(cl.Val)
				if ct == nil {
					continue
				}
				if !ct.isInteger() && ct.Kind != KBool {
					c.trap(xrt.TrapType, cl.line, "case label has non-integer type %s", ct)
					continue
				}
				v, ok := c.constEval(cl.Val)
				if !ok {
					c.unsupported(cl.line, "case label is not a simple constant expression")
				}
				// converted constant expression of the promoted selector type
				cl.val = v
				if tagT != nil && tagT.Kind == KUint && ct.isSigned() && int32(v) < 0 {
					c.trap(xrt.TrapType, cl.line, "case value %d cannot be narrowed to the unsigned selector type", int32(v))
				}
				if seenVals[v] {
					c.trap(xrt.TrapType, cl.line, "duplicate case value %d", int32(v))
				}
				seenVals[v] = true
				continue
			}
			if ds, ok := x.(*DeclStmt); ok {
				_ = ds
				c.unsupported(x.stmtLine(), "declaration directly in a switch body")
			}
			c.stmt(x)
		}
		c.pop()
		c.sws--
	case *BreakStmt:
		if c.loops == 0 && c.sws == 0 {
			c.trap(xrt.TrapType, s.line, "break statement not in loop or switch")
		}
	case *ContinueStmt:
		if c.loops == 0 {
			c.trap(xrt.TrapType, s.line, "continue statement not in loop")
		}
	case *ReturnStmt:
		ret := c.fn.Ret
		if s.X == nil {
			if ret.Kind != KVoid {
				c.trap(xrt.TrapType, s.line, "non-void function %s returns without a value", c.fn.Name)
			}
			return
		}
		if ret.Kind == KVoid {
			t := c.expr(s.X)
			if t != nil && t.Kind != KVoid {
				c.trap(xrt.TrapType, s.line, "void function %s returns a value of type %s", c.fn.Name, t)
			}
			return
		}
		c.checkInit(ret, s.X, "return")
	case *CaseLabel:
		c.unsupported(s.line, "case label outside a switch body")
	default:
		c.unsupported(s.stmtLine(), "statement %T", s)
	}
}

// scoped checks a sub-statement in its own scope (C++: every substatement of a
// selection / iteration statement implicitly defines a block scope).
func (c *checker) scoped(s Stmt) {
	if _, ok := s.(*BlockStmt); ok {
		c.stmt(s)
		return
	}
	c.push()
	c.stmt(s)
	c.pop()
}

func (c *checker) cond(e Expr, what string) {
	t := c.expr(e)
	if t == nil {
		return
	}
	if !t.isScalar() {
		c.trap(xrt.TrapType, e.base().line, "%s condition has type %s, which is not contextually convertible to bool", what, t)
	}
}

func (c *checker) localDecl(v *VarDecl) {
	if w, bad := hasUnsupported(v.Ty); bad {
		c.unsupported(v.line, "local %s has type %s", v.Name, w)
	}
	t := v.Ty
	switch {
	case t.Kind == KVoid:
		c.trap(xrt.TrapType, v.line, "variable %q has type void", v.Name)
		c.declare(v)
		return
	case t.Kind == KRef:
		if v.Init == nil {
			c.trap(xrt.TrapType, v.line, "reference %q declared without an initialiser", v.Name)
		} else {
			it := c.expr(v.Init)
			ib := v.Init.base()
			if it != nil {
				if !ib.LV {
					if !(t.Const && t.Space == "thread") {
						c.trap(xrt.TrapType, v.line, "non-const reference %q cannot bind to an rvalue", v.Name)
					} else {
						c.unsupported(v.line, "const reference bound to a temporary")
					}
				} else {
					if !sameType(it, t.Elem) {
						c.trap(xrt.TrapType, v.line, "reference %q of type %s cannot bind to an lvalue of type %s", v.Name, t, it)
					}
					if ib.sp != t.Space {
						c.trap(xrt.TrapType, v.line, "reference %q in address space %s cannot bind to an lvalue in address space %s", v.Name, t.Space, ib.sp)
					}
					if ib.cq && !t.Const {
						c.trap(xrt.TrapType, v.line, "reference %q drops const", v.Name)
					}
				}
			}
		}
		c.declare(v)
		return
	case t.Kind == KPtr:
		if v.Init != nil {
			it := c.expr(v.Init)
			if it != nil && c.convCost(it, v.Init, t) < 0 {
				c.trap(xrt.TrapType, v.line, "cannot initialise %q of type %s with a value of type %s", v.Name, t, it)
			}
		}
		c.declare(v)
		return
	}
	if v.Space == "threadgroup" {
		if c.fn.Stage != "kernel" {
			c.trap(xrt.TrapType, v.line, "threadgroup variable %q declared outside a kernel function", v.Name)
		}
		if v.Init != nil {
			c.trap(xrt.TrapType, v.line, "threadgroup variable %q cannot have an initialiser", v.Name)
		}
		c.declare(v)
		return
	}
	if v.Space != "thread" {
		c.unsupported(v.line, "local variable in %s address space", v.Space)
	}
	if v.Init != nil {
		c.checkInit(t, v.Init, "initialisation of "+v.Name)
	} else if v.Const {
		c.trap(xrt.TrapType, v.line, "const variable %q has no initialiser", v.Name)
	}
	if containsAtomic(t) && v.Space == "thread" {
		c.unsupported(v.line, "atomic in thread address space")
	}
	c.declare(v)
}

func containsAtomic(t *Type) bool {
	switch t.Kind {
	case KAtomic:
		return true
	case KArray:
		return containsAtomic(t.Elem)
	case KStruct:
		for _, f := range t.Fields {
			if containsAtomic(f.T) {
				return true
			}
		}
	}
	return false
}

// ---------------------------------------------------------------------------
// conversions

// promote applies the integral promotions.
func promote(t *Type) *Type {
	switch t.Kind {
	case KBool, KChar, KUchar, KShort, KUshort:
		return tInt
	}
	return t
}

// arith applies the usual arithmetic conversions to two scalar types.
func arith(a, b *Type) *Type {
	if a.Kind == KFloat || b.Kind == KFloat {
		return tFloat
	}
	if a.Kind == KHalf || b.Kind == KHalf {
		return tHalf
	}
	a, b = promote(a), promote(b)
	if a.Kind == KUint || b.Kind == KUint {
		return tUint
	}
	return tInt
}

// convCost ranks the implicit conversion from an expression of type `from` to
// `to`: 0 identity, 1 promotion / qualification, 2 standard conversion, 3
// user-defined or list conversion, -1 impossible.
func (c *checker) convCost(from *Type, e Expr, to *Type) int {
	if to == nil {
		return 0
	}
	if il, ok := e.(*InitListExpr); ok {
		if c.listInitOK(to, il.Elems, true) {
			return 3
		}
		return -1
	}
	if from == nil {
		return 0
	}
	if to.Kind == KRef {
		to = to.Elem
	}
	if sameUnpacked(from, to) {
		if sameType(from, to) {
			return 0
		}
		return 1
	}
	if from.Kind == KStruct && from.Conv != nil {
		switch to.Kind {
		case KVoid, KPtr, KAtomic, KUnsupported, KTParam:
			return -1
		}
		inst := c.prog.convOpInst(from, to.unpacked())
		if c.fn != nil {
			c.fn.callees = append(c.fn.callees, inst)
		}
		return 3
	}
	switch {
	case to.isScalar() && (from.isScalar() || from.Kind == KEnum):
		if to.Kind == KInt && (from.Kind == KBool || from.Kind == KChar || from.Kind == KUchar || from.Kind == KShort || from.Kind == KUshort) {
			return 1
		}
		if to.Kind == KFloat && from.Kind == KHalf {
			return 1
		}
		return 2
	case to.isVec() && from.isScalar():
		return 2
	case to.isMat() && from.isScalar():
		c.unsupported(e.base().line, "implicit scalar-to-matrix conversion")
	case to.Kind == KPtr && from.Kind == KPtr:
		if from.Space != to.Space {
			return -1
		}
		if from.Const && !to.Const {
			return -1
		}
		if !sameType(from.Elem, to.Elem) {
			return -1
		}
		if from.Const != to.Const {
			return 1
		}
		return 0
	case to.Kind == KEnum && from.Kind == KEnum:
		if to.Name == from.Name {
			return 0
		}
		return -1
	}
	return -1
}

// checkInit checks copy-initialisation of a `to` object from e and types e.
func (c *checker) checkInit(to *Type, e Expr, what string) {
	if il, ok := e.(*InitListExpr); ok {
		il.T = to
		if to == nil {
			for _, x := range il.Elems {
				c.expr(x)
			}
			return
		}
		c.listInit(to, il.Elems, il.line, what)
		return
	}
	t := c.expr(e)
	if t == nil || to == nil {
		return
	}
	if c.convCost(t, e, to) < 0 {
		c.trap(xrt.TrapType, e.base().line, "%s: no implicit conversion from %s to %s", what, t, to)
	}
}

// listInitOK is the non-reporting form of listInit used for overload ranking.
func (c *checker) listInitOK(to *Type, elems []Expr, shallow bool) bool {
	switch {
	case to.Kind == KRef:
		return c.listInitOK(to.Elem, elems, shallow)
	case len(elems) == 0:
		return to.Kind != KVoid
	case to.isScalar():
		return len(elems) == 1
	case to.isVec():
		return len(elems) <= to.N
	case to.isMat():
		return len(elems) <= to.N
	case to.Kind == KArray:
		return len(elems) <= to.N
	case to.Kind == KStruct:
		return len(elems) <= len(to.Fields)
	}
	return false
}

// listInit checks list-initialisation `T{elems}` / `T x = {elems}`.
func (c *checker) listInit(to *Type, elems []Expr, line int, what string) {
	if to.Kind == KRef {
		to = to.Elem
	}
	if len(elems) == 0 {
		if to.Kind == KVoid {
			c.trap(xrt.TrapType, line, "%s: cannot value-initialise void", what)
		}
		return
	}
	sub := func(i int, et *Type) {
		e := elems[i]
		if il, ok := e.(*InitListExpr); ok {
			il.T = et
			c.listInit(et, il.Elems, il.line, what)
			return
		}
		t := c.expr(e)
		if t == nil {
			return
		}
		if c.convCost(t, e, et) < 0 {
			c.trap(xrt.TrapType, e.base().line, "%s: element %d: no implicit conversion from %s to %s", what, i, t, et)
			return
		}
		c.narrowing(t, e, et, what, i)
	}
	switch {
	case to.isScalar():
		if len(elems) != 1 {
			c.trap(xrt.TrapType, line, "%s: excess elements in scalar initialiser for %s", what, to)
			for _, e := range elems {
				c.expr(e)
			}
			return
		}
		sub(0, to)
	case to.isVec():
		// vector list-initialisation: same component rules as the constructor
		ts := make([]*Type, len(elems))
		for i, e := range elems {
			if _, ok := e.(*InitListExpr); ok {
				c.unsupported(line, "nested braces in vector initialiser")
			}
			ts[i] = c.expr(e)
		}
		c.vectorCtor(to, elems, ts, line)
	case to.isMat():
		ts := make([]*Type, len(elems))
		for i, e := range elems {
			if _, ok := e.(*InitListExpr); ok {
				c.unsupported(line, "nested braces in matrix initialiser")
			}
			ts[i] = c.expr(e)
		}
		c.matrixCtor(to, elems, ts, line)
	case to.Kind == KArray || to.Kind == KStruct:
		if to.Kind == KStruct {
			if to.Conv != nil && len(to.Fields) == 0 {
				c.trap(xrt.TrapType, line, "%s: too many initialisers for %s", what, to)
				return
			}
			// a single element of the same struct type is a copy, not aggregate initialisation
			if len(elems) == 1 {
				if _, isList := elems[0].(*InitListExpr); !isList {
					if t := c.expr(elems[0]); t != nil && sameType(t, to) {
						return
					}
				}
			}
		}
		cur := 0
		c.aggInit(to, elems, &cur, line, what)
		if cur < len(elems) {
			c.trap(xrt.TrapType, line, "%s: excess elements in initialiser for %s (%d given)", what, to, len(elems))
			for _, e := range elems[cur:] {
				if _, isList := e.(*InitListExpr); !isList {
					c.expr(e)
				}
			}
		}
	default:
		c.unsupported(line, "list-initialisation of %s", to)
	}
}

// aggInit initialises the members of aggregate `to` from elems starting at *cur,
// with C++ brace elision ([dcl.init.aggr]p12): a member that is itself an
// aggregate and is not given its own braces takes as many elements as it needs.
func (c *checker) aggInit(to *Type, elems []Expr, cur *int, line int, what string) {
	n := to.N
	if to.Kind == KStruct {
		n = len(to.Fields)
	}
	for i := 0; i < n && *cur < len(elems); i++ {
		mt := to.Elem
		if to.Kind == KStruct {
			mt = to.Fields[i].T
		}
		if mt.Kind == KAtomic {
			c.unsupported(line, "atomic member in aggregate initialiser")
		}
		e := elems[*cur]
		if il, ok := e.(*InitListExpr); ok {
			il.T = mt
			c.listInit(mt, il.Elems, il.line, what)
			*cur++
			continue
		}
		t := c.expr(e)
		if mt.Kind == KArray || mt.Kind == KStruct {
			if t == nil || sameType(t, mt) || (t.Kind == KStruct && t.Conv != nil) {
				if t != nil {
					c.convCost(t, e, mt)
				}
				*cur++
				continue
			}
			c.aggInit(mt, elems, cur, line, what) // brace elision
			continue
		}
		*cur++
		if t == nil {
			continue
		}
		if c.convCost(t, e, mt) < 0 {
			c.trap(xrt.TrapType, e.base().line, "%s: element %d: no implicit conversion from %s to %s", what, *cur-1, t, mt)
			continue
		}
		c.narrowing(t, e, mt, what, *cur-1)
	}
}

// narrowing reports C++11 narrowing conversions inside braces ([dcl.init.list]p7).
func (c *checker) narrowing(from *Type, e Expr, to *Type, what string, idx int) {
	if !from.isScalar() || !to.isScalar() {
		return
	}
	line := e.base().line
	switch {
	case from.isFloating() && (to.isInteger() || to.Kind == KBool):
		if to.Kind == KBool {
			return // not listed as narrowing in C++14
		}
		c.trap(xrt.TrapType, line, "%s: element %d: narrowing conversion from %s to %s inside braces", what, idx, from, to)
	case from.isInteger() && to.isInteger() && promote(from).Kind != promote(to).Kind && from.sizeOf() >= to.sizeOf():
		if v, ok := c.constEval(e); ok {
			if to.Kind == KUint && from.isSigned() && int32(v) < 0 {
				c.trap(xrt.TrapType, line, "%s: element %d: constant %d narrowed to %s inside braces", what, idx, int32(v), to)
			}
			if to.Kind == KInt && !from.isSigned() && v > 0x7fffffff {
				c.trap(xrt.TrapType, line, "%s: element %d: constant %d narrowed to %s inside braces", what, idx, v, to)
			}
			return
		}
		if c.isConstExpr(e) {
			return // a constant we cannot evaluate: do not guess
		}
		c.trap(xrt.TrapType, line, "%s: element %d: non-constant narrowing conversion from %s to %s inside braces", what, idx, from, to)
	}
}

// isConstExpr is a conservative "may be a constant expression" test: true means
// "possibly constant" (no narrowing diagnostic is given).
func (c *checker) isConstExpr(e Expr) bool {
	switch x := e.(type) {
	case *LitExpr:
		return true
	case *IdentExpr:
		if x.isEnum {
			return true
		}
		if x.Var == nil {
			return true
		}
		if x.Var.Kind == vkGlobal {
			return true
		}
		return x.Var.Const && x.Var.Ty.Kind != KRef
	case *UnaryExpr:
		if x.Op == "++" || x.Op == "--" || x.Op == "*" || x.Op == "&" {
			return false
		}
		return c.isConstExpr(x.X)
	case *BinaryExpr:
		return c.isConstExpr(x.L) && c.isConstExpr(x.R)
	case *CondExpr:
		return c.isConstExpr(x.C) && c.isConstExpr(x.A) && c.isConstExpr(x.B)
	case *CastExpr:
		return c.isConstExpr(x.X)
	case *ConstructExpr:
		for _, a := range x.Args {
			if !c.isConstExpr(a) {
				return false
			}
		}
		return true
	case *MemberExpr:
		return c.isConstExpr(x.X)
	case *IndexExpr:
		return c.isConstExpr(x.X) && c.isConstExpr(x.I)
	case *CallExpr:
		// library functions may be constexpr; user functions are not (naga never emits constexpr)
		return x.Fn == nil
	}
	return false
}

// constEval evaluates an integer constant expression made of literals, module
// constants, casts and the usual operators.
func (c *checker) constEval(e Expr) (uint32, bool) {
	switch x := e.(type) {
	case *LitExpr:
		if x.T.isInteger() || x.T.Kind == KBool {
			return x.Bits, true
		}
	case *IdentExpr:
		if x.Var != nil && x.Var.Kind == vkGlobal && x.Var.Init != nil && x.Var.Ty.isInteger() {
			v, ok := c.constEval(x.Var.Init)
			return v, ok
		}
		if x.Var != nil && x.Var.Kind == vkLocal && x.Var.Const && x.Var.Init != nil && x.Var.Ty.isInteger() {
			return c.constEval(x.Var.Init)
		}
	case *UnaryExpr:
		v, ok := c.constEval(x.X)
		if !ok || x.T == nil {
			return 0, false
		}
		switch x.Op {
		case "-":
			return -v, true
		case "+":
			return v, true
		case "~":
			return ^v, true
		}
	case *BinaryExpr:
		a, ok1 := c.constEval(x.L)
		b, ok2 := c.constEval(x.R)
		if !ok1 || !ok2 || x.T == nil || !(x.T.Kind == KInt || x.T.Kind == KUint) {
			return 0, false
		}
		lt, rt := x.L.base().T, x.R.base().T
		if lt == nil || rt == nil || !lt.isScalar() || !rt.isScalar() {
			return 0, false
		}
		switch x.Op {
		case "+":
			return a + b, true
		case "-":
			return a - b, true
		case "*":
			return a * b, true
		case "&":
			return a & b, true
		case "|":
			return a | b, true
		case "^":
			return a ^ b, true
		case "<<":
			return a << (b & 31), true
		}
	case *CastExpr:
		if x.How != "as_type" && x.Ty.isInteger() {
			if st := x.X.base().T; st != nil && (st.isInteger() || st.Kind == KBool) {
				return c.constEval(x.X)
			}
		}
	case *ConstructExpr:
		if len(x.Args) == 1 && x.Ty.isInteger() {
			if st := x.Args[0].base().T; st != nil && (st.isInteger() || st.Kind == KBool) {
				return c.constEval(x.Args[0])
			}
		}
	}
	return 0, false
}

// ---------------------------------------------------------------------------
// expressions

func (c *checker) expr(e Expr) *Type {
	b := e.base()
	t := c.expr1(e)
	if t != nil && t.Kind == KRef {
		t = t.Elem
	}
	b.T = t
	return t
}

func (c *checker) setLV(b *exprBase, lv bool, space string, cq bool) {
	b.LV, b.sp, b.cq = lv, space, cq
	if !lv {
		b.sp = "thread"
	}
}

func (c *checker) expr1(e Expr) *Type {
	switch x := e.(type) {
	case *LitExpr:
		c.setLV(&x.exprBase, false, "", false)
		return x.T
	case *IdentExpr:
		return c.ident(x)
	case *UnaryExpr:
		return c.unary(x)
	case *PostfixExpr:
		t := c.expr(x.X)
		c.setLV(&x.exprBase, false, "", false)
		if t == nil {
			return nil
		}
		c.incdec(x.X, t, x.Op, x.line)
		return t.unpacked()
	case *BinaryExpr:
		lt := c.expr(x.L)
		rt := c.expr(x.R)
		c.setLV(&x.exprBase, false, "", false)
		if lt == nil || rt == nil {
			return nil
		}
		return c.binary(x.Op, lt, rt, x.line)
	case *AssignExpr:
		return c.assign(x)
	case *CondExpr:
		return c.condExpr(x)
	case *IndexExpr:
		return c.index(x)
	case *MemberExpr:
		return c.member(x)
	case *CallExpr:
		return c.call(x)
	case *ConstructExpr:
		return c.construct(x)
	case *CastExpr:
		return c.cast(x)
	case *InitListExpr:
		c.unsupported(x.line, "braced list in this context")
	}
	c.unsupported(e.base().line, "expression %T", e)
	return nil
}

var enumValues = map[string]struct {
	t *Type
	v uint32
}{
	"memory_order_relaxed":                  {tMemOrder, 0},
	"memory_order_seq_cst":                  {tMemOrder, 5},
	"mem_flags::mem_none":                   {tMemFlags, 0},
	"mem_flags::mem_device":                 {tMemFlags, 1},
	"mem_flags::mem_threadgroup":            {tMemFlags, 2},
	"mem_flags::mem_texture":                {tMemFlags, 4},
	"mem_flags::mem_threadgroup_imageblock": {tMemFlags, 8},
}

func (c *checker) ident(x *IdentExpr) *Type {
	if len(x.Qual) > 0 {
		if x.Qual[0] != "metal" {
			c.trap(xrt.TrapUnresolved, x.line, "unknown namespace %q in %s::%s", x.Qual[0], strings.Join(x.Qual, "::"), x.Name)
			return nil
		}
		key := strings.Join(append(append([]string{}, x.Qual[1:]...), x.Name), "::")
		if ev, ok := enumValues[key]; ok {
			x.isEnum = true
			x.Enum = ev.v
			c.setLV(&x.exprBase, false, "", false)
			return ev.t
		}
		c.unsupported(x.line, "metal::%s", key)
	}
	v := c.lookup(x.Name)
	if v == nil {
		if _, isFn := c.prog.funcs[x.Name]; isFn {
			c.unsupported(x.line, "function %s used as a value", x.Name)
		}
		if why, ok := c.prog.skippedNames[x.Name]; ok {
			panic(bail{why})
		}
		if ev, ok := enumValues[x.Name]; ok && c.prog.usingNS["metal"] {
			x.isEnum = true
			x.Enum = ev.v
			return ev.t
		}
		c.trap(xrt.TrapUnresolved, x.line, "use of undeclared identifier %q", x.Name)
		return nil
	}
	x.Var = v
	if v.Kind == vkGlobal && v.line > x.line {
		c.trap(xrt.TrapUnresolved, x.line, "module constant %q is used before its declaration (line %d)", x.Name, v.line)
	}
	t := v.Ty
	if t.Kind == KUnsupported {
		panic(bail{unsupportedf("%s", t.Why)})
	}
	switch t.Kind {
	case KRef:
		c.setLV(&x.exprBase, true, t.Space, t.Const)
		return t.Elem
	}
	sp := v.Space
	if sp == "" {
		sp = "thread"
	}
	c.setLV(&x.exprBase, true, sp, v.Const)
	return t
}

func (c *checker) unary(x *UnaryExpr) *Type {
	t := c.expr(x.X)
	c.setLV(&x.exprBase, false, "", false)
	if t == nil {
		return nil
	}
	xb := x.X.base()
	switch x.Op {
	case "&":
		if !xb.LV {
			c.trap(xrt.TrapType, x.line, "cannot take the address of an rvalue of type %s", t)
			return nil
		}
		if m, ok := x.X.(*MemberExpr); ok && m.Swizzle != nil {
			c.trap(xrt.TrapType, x.line, "cannot take the address of a vector component")
			return nil
		}
		return ptrTo(xb.sp, t, xb.cq)
	case "*":
		if t.Kind != KPtr {
			c.trap(xrt.TrapType, x.line, "indirection requires a pointer operand, have %s", t)
			return nil
		}
		c.setLV(&x.exprBase, true, t.Space, t.Const)
		return t.Elem
	case "++", "--":
		c.incdec(x.X, t, x.Op, x.line)
		c.setLV(&x.exprBase, true, xb.sp, xb.cq)
		return t
	}
	t = t.unpacked()
	switch x.Op {
	case "+", "-":
		if t.isScalar() {
			if t.Kind == KHalf {
				return t
			}
			return promote(t)
		}
		if t.isVec() && t.Elem.Kind != KBool {
			return t
		}
		if t.isMat() && x.Op == "-" {
			return t
		}
	case "~":
		if t.isScalar() && (t.isInteger() || t.Kind == KBool) {
			return promote(t)
		}
		if t.isVec() && t.Elem.isInteger() {
			return t
		}
	case "!":
		if t.isScalar() {
			return tBool
		}
		if t.isVec() {
			return vecOf(tBool, t.N)
		}
	}
	c.trap(xrt.TrapType, x.line, "invalid operand of type %s to unary %s", t, x.Op)
	return nil
}

func (c *checker) incdec(operand Expr, t *Type, op string, line int) {
	ob := operand.base()
	if !ob.LV {
		c.trap(xrt.TrapType, line, "operand of %s is not an lvalue", op)
		return
	}
	if ob.cq {
		c.trap(xrt.TrapType, line, "cannot modify a const-qualified lvalue with %s", op)
	}
	if t.Kind == KBool {
		c.trap(xrt.TrapType, line, "%s on bool", op)
		return
	}
	if !(t.isScalar() || (t.isVec() && t.Elem.Kind != KBool)) {
		c.trap(xrt.TrapType, line, "invalid operand of type %s to %s", t, op)
	}
}

// binary types `l op r`.
func (c *checker) binary(op string, lt, rt *Type, line int) *Type {
	lt, rt = lt.unpacked(), rt.unpacked()
	bad := func() *Type {
		c.trap(xrt.TrapType, line, "invalid operands to binary %s: %s and %s", op, lt, rt)
		return nil
	}
	if lt.Kind == KEnum || rt.Kind == KEnum {
		if lt.Kind == KEnum && rt.Kind == KEnum && lt.Name == rt.Name && lt == tMemFlags && op == "|" {
			return lt
		}
		c.unsupported(line, "operator %s on enum", op)
	}
	if !lt.isNumeric() || !rt.isNumeric() {
		if lt.Kind == KPtr || rt.Kind == KPtr {
			c.unsupported(line, "pointer arithmetic / comparison")
		}
		return bad()
	}
	isCmp := op == "==" || op == "!=" || op == "<" || op == ">" || op == "<=" || op == ">="
	isLogic := op == "&&" || op == "||"
	isBit := op == "&" || op == "|" || op == "^"
	isShift := op == "<<" || op == ">>"
	// matrices
	if lt.isMat() || rt.isMat() {
		switch {
		case op == "*" && lt.isMat() && rt.isMat():
			if lt.N != rt.Rows || lt.Elem != rt.Elem {
				return bad()
			}
			return matOf(lt.Elem, rt.N, lt.Rows)
		case op == "*" && lt.isMat() && rt.isVec():
			if rt.N != lt.N || rt.Elem != lt.Elem {
				return bad()
			}
			return vecOf(lt.Elem, lt.Rows)
		case op == "*" && lt.isVec() && rt.isMat():
			if lt.N != rt.Rows || lt.Elem != rt.Elem {
				return bad()
			}
			return vecOf(rt.Elem, rt.N)
		case op == "*" && lt.isMat() && rt.isScalar():
			return lt
		case op == "*" && lt.isScalar() && rt.isMat():
			return rt
		case (op == "+" || op == "-") && lt.isMat() && rt.isMat():
			if !sameType(lt, rt) {
				return bad()
			}
			return lt
		case (op == "==" || op == "!=") && lt.isMat() && rt.isMat():
			c.unsupported(line, "matrix comparison")
		case op == "/" && lt.isMat() && rt.isScalar():
			c.unsupported(line, "matrix / scalar")
		}
		return bad()
	}
	// vectors
	if lt.isVec() || rt.isVec() {
		var vt *Type
		switch {
		case lt.isVec() && rt.isVec():
			if isShift {
				if lt.N != rt.N || !lt.Elem.isInteger() || !rt.Elem.isInteger() {
					return bad()
				}
				return lt
			}
			if !sameType(lt, rt) {
				return bad()
			}
			vt = lt
		case lt.isVec():
			vt = lt
			if isShift {
				if !lt.Elem.isInteger() || !(rt.isInteger() || rt.Kind == KBool) {
					return bad()
				}
				return lt
			}
			if rt.isFloating() && !lt.Elem.isFloating() {
				c.unsupported(line, "%s vector %s floating scalar", lt, op)
			}
		default:
			vt = rt
			if isShift {
				c.unsupported(line, "scalar shifted by a vector")
			}
			if lt.isFloating() && !rt.Elem.isFloating() {
				c.unsupported(line, "floating scalar %s %s vector", op, rt)
			}
		}
		el := vt.Elem
		switch {
		case isCmp:
			if el.Kind == KBool && op != "==" && op != "!=" {
				return bad()
			}
			return vecOf(tBool, vt.N)
		case isLogic:
			// MSL: && and || on vectors operate component-wise on boolean / integer vectors
			if el.isFloating() {
				return bad()
			}
			return vecOf(tBool, vt.N)
		case isBit:
			if el.isFloating() {
				return bad()
			}
			return vt
		case op == "%":
			if !el.isInteger() {
				return bad()
			}
			return vt
		case op == "+" || op == "-" || op == "*" || op == "/":
			if el.Kind == KBool {
				return bad()
			}
			if el.Kind == KHalf {
				c.unsupported(line, "half arithmetic")
			}
			return vt
		}
		return bad()
	}
	// scalars
	switch {
	case isCmp:
		return tBool
	case isLogic:
		return tBool
	case isShift:
		if lt.isFloating() || rt.isFloating() {
			return bad()
		}
		return promote(lt)
	case isBit || op == "%":
		if lt.isFloating() || rt.isFloating() {
			return bad()
		}
		return arith(lt, rt)
	case op == "+" || op == "-" || op == "*" || op == "/":
		r := arith(lt, rt)
		if r.Kind == KHalf {
			c.unsupported(line, "half arithmetic")
		}
		return r
	}
	c.unsupported(line, "operator %s", op)
	return nil
}

func (c *checker) assign(x *AssignExpr) *Type {
	lt := c.expr(x.L)
	lb := x.L.base()
	if lt != nil {
		if !lb.LV {
			c.trap(xrt.TrapType, x.line, "expression is not assignable (not an lvalue)")
		} else if lb.cq {
			c.trap(xrt.TrapType, x.line, "cannot assign to a const-qualified lvalue of type %s", lt)
		} else if lb.sp == "constant" {
			c.trap(xrt.TrapType, x.line, "cannot assign to an object in the constant address space")
		}
		if lt.Kind == KArray {
			c.trap(xrt.TrapType, x.line, "array type %s is not assignable", lt)
		}
		if containsAtomic(lt) {
			c.unsupported(x.line, "assignment to an object containing atomics")
		}
		if lt.Kind == KPtr {
			c.unsupported(x.line, "pointer assignment")
		}
	}
	c.setLV(&x.exprBase, lb.LV, lb.sp, lb.cq)
	if x.Op == "=" {
		c.checkInit(lt, x.R, "assignment")
		return lt
	}
	if _, ok := x.R.(*InitListExpr); ok {
		c.trap(xrt.TrapType, x.line, "braced list on the right of %s", x.Op)
		return lt
	}
	rt := c.expr(x.R)
	if lt == nil || rt == nil {
		return lt
	}
	op := strings.TrimSuffix(x.Op, "=")
	res := c.binary(op, lt, rt, x.line)
	if res == nil {
		return lt
	}
	// E1 op= E2 behaves as E1 = E1 op E2
	if c.convCost(res, x, lt) < 0 {
		c.trap(xrt.TrapType, x.line, "compound assignment: no implicit conversion from %s to %s", res, lt)
	}
	if lt.isVec() && !rt.isVec() && !rt.isScalar() {
		c.trap(xrt.TrapType, x.line, "invalid operands to %s: %s and %s", x.Op, lt, rt)
	}
	return lt
}

func (c *checker) condExpr(x *CondExpr) *Type {
	ct := c.expr(x.C)
	if ct != nil && !ct.isScalar() {
		if ct.isVec() {
			c.trap(xrt.TrapType, x.line, "the first operand of ?: must be a scalar boolean in MSL, have %s", ct)
		} else {
			c.trap(xrt.TrapType, x.line, "condition of ?: has type %s", ct)
		}
	}
	at := c.expr(x.A)
	bt := c.expr(x.B)
	c.setLV(&x.exprBase, false, "", false)
	if at == nil || bt == nil {
		return nil
	}
	ab, bb := x.A.base(), x.B.base()
	if sameType(at, bt) && ab.LV && bb.LV && ab.sp == bb.sp {
		// both operands are lvalues of the same type: the result is an lvalue
		c.setLV(&x.exprBase, true, ab.sp, ab.cq || bb.cq)
		return at
	}
	at, bt = at.unpacked(), bt.unpacked()
	switch {
	case sameType(at, bt):
		return at
	case at.Kind == KStruct && at.Conv != nil && !(bt.Kind == KStruct && bt.Conv != nil):
		if c.convCost(at, x.A, bt) < 0 {
			break
		}
		return bt
	case bt.Kind == KStruct && bt.Conv != nil && !(at.Kind == KStruct && at.Conv != nil):
		if c.convCost(bt, x.B, at) < 0 {
			break
		}
		return at
	case at.isScalar() && bt.isScalar():
		return arith(at, bt)
	case at.isVec() && bt.isScalar(), at.isScalar() && bt.isVec():
		c.unsupported(x.line, "?: mixing vector and scalar operands")
	}
	c.trap(xrt.TrapType, x.line, "incompatible operand types of ?: (%s and %s)", at, bt)
	return nil
}

func (c *checker) index(x *IndexExpr) *Type {
	t := c.expr(x.X)
	it := c.expr(x.I)
	xb := x.X.base()
	c.setLV(&x.exprBase, xb.LV, xb.sp, xb.cq)
	if it != nil {
		if !(it.isInteger() || it.Kind == KBool) {
			c.trap(xrt.TrapType, x.line, "array subscript is not an integer (type %s)", it)
		}
	}
	if t == nil {
		return nil
	}
	switch t.Kind {
	case KArray:
		return t.Elem
	case KVec:
		return t.Elem
	case KMat:
		return vecOf(t.Elem, t.Rows)
	case KPtr:
		c.unsupported(x.line, "pointer subscript")
	}
	c.trap(xrt.TrapType, x.line, "subscripted value of type %s is not an array, vector or matrix", t)
	return nil
}

func swizzleIndices(name string, n int) ([]int, bool) {
	if len(name) == 0 || len(name) > 4 {
		return nil, false
	}
	sets := []string{"xyzw", "rgba"}
	for _, set := range sets {
		idx := make([]int, 0, 4)
		ok := true
		for i := 0; i < len(name); i++ {
			k := strings.IndexByte(set, name[i])
			if k < 0 || k >= n {
				ok = false
				break
			}
			idx = append(idx, k)
		}
		if ok {
			return idx, true
		}
	}
	return nil, false
}

func (c *checker) member(x *MemberExpr) *Type {
	t := c.expr(x.X)
	xb := x.X.base()
	c.setLV(&x.exprBase, xb.LV, xb.sp, xb.cq)
	if t == nil {
		return nil
	}
	if x.Arrow {
		if t.Kind != KPtr {
			c.trap(xrt.TrapType, x.line, "member reference type %s is not a pointer", t)
			return nil
		}
		c.setLV(&x.exprBase, true, t.Space, t.Const)
		t = t.Elem
	} else if t.Kind == KPtr {
		c.trap(xrt.TrapType, x.line, "member reference type %s is a pointer; use ->", t)
		return nil
	}
	switch t.Kind {
	case KStruct:
		for i, f := range t.Fields {
			if f.Name == x.Name {
				x.Field = i
				if f.T.Kind == KUnsupported {
					panic(bail{unsupportedf("%s", f.T.Why)})
				}
				return f.T
			}
		}
		c.trap(xrt.TrapUnresolved, x.line, "no member named %q in struct %s", x.Name, t.Name)
		return nil
	case KVec:
		idx, ok := swizzleIndices(x.Name, t.N)
		if !ok {
			c.trap(xrt.TrapUnresolved, x.line, "invalid vector component / swizzle %q on %s", x.Name, t)
			return nil
		}
		x.Swizzle = idx
		if len(idx) == 1 {
			return t.Elem
		}
		dup := false
		for i := range idx {
			for j := i + 1; j < len(idx); j++ {
				if idx[i] == idx[j] {
					dup = true
				}
			}
		}
		if dup {
			x.cq = true // a swizzle with repeated components is not a modifiable lvalue
			x.LV = false
		}
		return vecOf(t.Elem, len(idx))
	}
	c.trap(xrt.TrapType, x.line, "member reference base type %s is not a structure or vector", t)
	return nil
}

func (c *checker) numericArgs(args []Expr) []*Type {
	ts := make([]*Type, len(args))
	for i, a := range args {
		if _, ok := a.(*InitListExpr); ok {
			c.unsupported(a.base().line, "braced list as a constructor argument")
		}
		ts[i] = c.expr(a)
	}
	return ts
}

// vectorCtor checks the arguments of a vector constructor / initialiser list.
func (c *checker) vectorCtor(to *Type, args []Expr, ts []*Type, line int) {
	for _, t := range ts {
		if t == nil {
			return
		}
	}
	if len(args) == 0 {
		return
	}
	if len(args) == 1 {
		t := ts[0].unpacked()
		switch {
		case t.isScalar():
			return // splat
		case t.isVec() && t.N == to.N:
			return // conversion between same-sized vectors
		case t.Kind == KStruct && t.Conv != nil:
			return
		case t.isVec():
			c.trap(xrt.TrapType, line, "vector size mismatch: cannot construct %s from %s", to, t)
			return
		}
		c.trap(xrt.TrapType, line, "cannot construct %s from %s", to, t)
		return
	}
	n := 0
	for i, t := range ts {
		t = t.unpacked()
		switch {
		case t.isScalar():
			n++
		case t.isVec():
			n += t.N
		default:
			c.trap(xrt.TrapType, args[i].base().line, "argument %d of type %s cannot initialise components of %s", i, t, to)
			return
		}
	}
	if n != to.N {
		c.trap(xrt.TrapType, line, "wrong constructor arity: %s needs %d components, %d given", to, to.N, n)
	}
}

func (c *checker) matrixCtor(to *Type, args []Expr, ts []*Type, line int) {
	for _, t := range ts {
		if t == nil {
			return
		}
	}
	switch {
	case len(args) == 0:
		return
	case len(args) == 1 && ts[0].isScalar():
		return // diagonal
	case len(args) == 1 && ts[0].isMat():
		if ts[0].N != to.N || ts[0].Rows != to.Rows {
			c.trap(xrt.TrapType, line, "cannot construct %s from %s", to, ts[0])
		}
		return
	case len(args) == to.N:
		for i, t := range ts {
			t = t.unpacked()
			if !t.isVec() || t.N != to.Rows {
				if t.isScalar() && to.N*to.Rows == len(args) {
					continue
				}
				c.trap(xrt.TrapType, args[i].base().line, "matrix column %d of %s must be a %d-component vector, have %s", i, to, to.Rows, t)
				return
			}
			if t.Elem != to.Elem {
				c.trap(xrt.TrapType, args[i].base().line, "matrix column %d of %s has type %s", i, to, t)
				return
			}
		}
		return
	case len(args) == to.N*to.Rows:
		for i, t := range ts {
			if !t.isScalar() {
				c.trap(xrt.TrapType, args[i].base().line, "matrix element %d of %s must be a scalar, have %s", i, to, t)
				return
			}
		}
		return
	}
	c.trap(xrt.TrapType, line, "wrong constructor arity: %s cannot be built from %d arguments", to, len(args))
}

func (c *checker) construct(x *ConstructExpr) *Type {
	to := x.Ty
	c.setLV(&x.exprBase, false, "", false)
	if w, bad := hasUnsupported(to); bad {
		c.unsupported(x.line, "construction of %s", w)
	}
	if to.Kind == KTParam {
		c.unsupported(x.line, "construction of a template parameter type outside an instantiation")
	}
	if x.Brace {
		c.listInit(to, x.Args, x.line, "initialiser of "+to.String())
		return to
	}
	switch {
	case to.Kind == KVoid:
		c.unsupported(x.line, "void(...)")
	case to.isScalar():
		ts := c.numericArgs(x.Args)
		if len(ts) == 0 {
			return to
		}
		if len(ts) != 1 {
			c.trap(xrt.TrapType, x.line, "wrong constructor arity: %s(...) takes one argument, %d given", to, len(ts))
			return to
		}
		if ts[0] == nil {
			return to
		}
		f := ts[0]
		if !(f.isScalar() || f.Kind == KEnum || (f.Kind == KStruct && f.Conv != nil)) {
			c.trap(xrt.TrapType, x.line, "cannot convert %s to %s", f, to)
		}
		return to
	case to.isVec():
		ts := c.numericArgs(x.Args)
		c.vectorCtor(to, x.Args, ts, x.line)
		return to.unpacked()
	case to.isMat():
		ts := c.numericArgs(x.Args)
		c.matrixCtor(to, x.Args, ts, x.line)
		return to
	case to.Kind == KStruct:
		if len(x.Args) == 0 {
			return to
		}
		if len(x.Args) == 1 {
			if _, isList := x.Args[0].(*InitListExpr); !isList {
				t := c.expr(x.Args[0])
				if t == nil || sameType(t, to) {
					return to
				}
				c.trap(xrt.TrapType, x.line, "no matching constructor: cannot convert %s to struct %s", t, to.Name)
				return to
			}
		}
		for _, a := range x.Args {
			if _, isList := a.(*InitListExpr); !isList {
				c.expr(a)
			}
		}
		c.trap(xrt.TrapType, x.line, "no matching constructor for struct %s with %d arguments (aggregates need braces)", to.Name, len(x.Args))
		return to
	case to.Kind == KArray:
		if len(x.Args) == 0 {
			return to
		}
		c.trap(xrt.TrapType, x.line, "array type %s cannot be constructed with parentheses", to)
		return to
	}
	c.unsupported(x.line, "construction of %s", to)
	return nil
}

func (c *checker) cast(x *CastExpr) *Type {
	t := c.expr(x.X)
	c.setLV(&x.exprBase, false, "", false)
	to := x.Ty
	if w, bad := hasUnsupported(to); bad {
		c.unsupported(x.line, "cast to %s", w)
	}
	if t == nil {
		return to
	}
	t = t.unpacked()
	if x.How == "as_type" {
		if !(to.isScalar() || to.isVec()) || !(t.isScalar() || t.isVec()) {
			c.trap(xrt.TrapType, x.line, "as_type between %s and %s: operands must be scalar or vector types", t, to)
			return to
		}
		if to.Kind == KBool || t.Kind == KBool || to.scalarOf().Kind == KBool || t.scalarOf().Kind == KBool {
			c.unsupported(x.line, "as_type on bool")
		}
		if t.sizeOf() != to.sizeOf() {
			c.trap(xrt.TrapType, x.line, "as_type between types of different size: %s (%d bytes) to %s (%d bytes)", t, t.sizeOf(), to, to.sizeOf())
		}
		return to.unpacked()
	}
	switch {
	case to.Kind == KVoid:
		return to
	case to.isScalar():
		if !(t.isScalar() || t.Kind == KEnum || (t.Kind == KStruct && t.Conv != nil)) {
			c.trap(xrt.TrapType, x.line, "cannot cast %s to %s", t, to)
		}
		return to
	case to.isVec():
		switch {
		case t.isScalar():
		case t.isVec() && t.N == to.N:
		case t.Kind == KStruct && t.Conv != nil:
		case t.isVec():
			c.trap(xrt.TrapType, x.line, "vector size mismatch in cast from %s to %s", t, to)
		default:
			c.trap(xrt.TrapType, x.line, "cannot cast %s to %s", t, to)
		}
		return to.unpacked()
	case to.isMat():
		if t.isMat() && t.N == to.N && t.Rows == to.Rows {
			if t.Elem != to.Elem {
				c.unsupported(x.line, "matrix element type conversion")
			}
			return to
		}
		c.trap(xrt.TrapType, x.line, "cannot cast %s to %s", t, to)
		return to
	case to.Kind == KStruct || to.Kind == KArray:
		if !sameType(t, to) && !(t.Kind == KStruct && t.Conv != nil) {
			c.trap(xrt.TrapType, x.line, "cannot cast %s to %s", t, to)
		}
		return to
	}
	c.unsupported(x.line, "cast to %s", to)
	return nil
}

// ---------------------------------------------------------------------------
// calls

func (c *checker) call(x *CallExpr) *Type {
	c.setLV(&x.exprBase, false, "", false)
	// type the arguments (braced lists are typed once the callee is known)
	ts := make([]*Type, len(x.Args))
	for i, a := range x.Args {
		if _, ok := a.(*InitListExpr); ok {
			continue
		}
		ts[i] = c.expr(a)
	}
	qualified := len(x.Qual) > 0
	if qualified && !(len(x.Qual) == 1 && (x.Qual[0] == "metal" || x.Qual[0] == "simd")) {
		c.unsupported(x.line, "call to %s::%s", strings.Join(x.Qual, "::"), x.Name)
	}
	if !qualified {
		if v := c.lookup(x.Name); v != nil {
			c.trap(xrt.TrapType, x.line, "called object %q is not a function (it is a variable of type %s)", x.Name, v.Ty)
			return nil
		}
		if cands, ok := c.prog.funcs[x.Name]; ok {
			if _, isLib := builtins[x.Name]; isLib {
				c.prog.unqualifiedLibCalls[x.Name] = true
			}
			return c.userCall(x, cands, ts)
		}
		if why, ok := c.prog.skippedNames[x.Name]; ok {
			panic(bail{why})
		}
		if _, ok := c.prog.typeNames[x.Name]; ok {
			c.unsupported(x.line, "functional cast through a shadowed type name")
		}
	}
	if bi, ok := builtins[x.Name]; ok {
		if !qualified {
			c.prog.unqualifiedLibCalls[x.Name] = true
		}
		for i, a := range x.Args {
			if _, isList := a.(*InitListExpr); isList {
				c.unsupported(a.base().line, "braced list passed to metal::%s (argument %d)", x.Name, i)
			}
		}
		for _, t := range ts {
			if t == nil {
				return nil
			}
		}
		x.Builtin = x.Name
		if x.Name == "threadgroup_barrier" {
			c.fn.usesBarrier = true
		}
		ret, msg := bi.check(c, x, ts)
		if msg != "" {
			c.trap(xrt.TrapType, x.line, "metal::%s: %s", x.Name, msg)
			return nil
		}
		return ret
	}
	if qualified || knownUnsupportedLib(x.Name) {
		c.unsupported(x.line, "library function metal::%s", x.Name)
	}
	c.trap(xrt.TrapUnresolved, x.line, "call to undeclared function %q", x.Name)
	return nil
}

func knownUnsupportedLib(name string) bool {
	if metalFunctionNames[name] {
		return true
	}
	for _, p := range []string{"simd_", "quad_", "atomic_", "unpack_", "pack_", "dfd", "fwidth"} {
		if strings.HasPrefix(name, p) {
			return true
		}
	}
	return false
}

// argCost ranks passing argument i to parameter type pt (-1: not viable).
func (c *checker) argCost(pt *Type, a Expr, at *Type) int {
	if il, ok := a.(*InitListExpr); ok {
		if pt.Kind == KRef && !(pt.Const) {
			return -1
		}
		if c.listInitOK(pt, il.Elems, true) {
			return 3
		}
		return -1
	}
	if at == nil {
		return 0
	}
	ab := a.base()
	if pt.Kind == KRef {
		if ab.LV && sameType(at, pt.Elem) && ab.sp == pt.Space && (!ab.cq || pt.Const) {
			return 0
		}
		// const T& binds to a temporary (thread address space only)
		if pt.Const && pt.Space == "thread" && !pt.RRef {
			k := c.convCost(at, a, pt.Elem)
			if k >= 0 && k < 1 {
				k = 1
			}
			return k
		}
		if pt.RRef && !ab.LV && pt.Space == "thread" {
			return c.convCost(at, a, pt.Elem)
		}
		return -1
	}
	return c.convCost(at, a, pt)
}

// unify deduces template parameters by matching pattern against the argument type.
func unify(pattern, arg *Type, bind map[string]*Type) bool {
	switch pattern.Kind {
	case KTParam:
		if old, ok := bind[pattern.Name]; ok {
			return sameType(old, arg)
		}
		bind[pattern.Name] = arg
		return true
	case KPtr:
		if arg.Kind != KPtr || arg.Space != pattern.Space {
			return false
		}
		if arg.Const && !pattern.Const {
			return false
		}
		return unify(pattern.Elem, arg.Elem, bind)
	case KRef:
		return unify(pattern.Elem, arg, bind)
	case KArray:
		return arg.Kind == KArray && arg.N == pattern.N && unify(pattern.Elem, arg.Elem, bind)
	}
	return true
}

func hasTParam(t *Type) bool {
	switch t.Kind {
	case KTParam:
		return true
	case KPtr, KRef, KArray:
		return hasTParam(t.Elem)
	}
	return false
}

func (c *checker) userCall(x *CallExpr, cands []*FuncDecl, ts []*Type) *Type {
	for i, a := range x.Args {
		if _, ok := a.(*InitListExpr); !ok && ts[i] == nil {
			// an argument already failed to type-check: pick by arity only to avoid cascades
			for _, f := range cands {
				if len(f.Params) == len(x.Args) {
					return f.Ret
				}
			}
			return nil
		}
	}
	type viable struct {
		fn    *FuncDecl
		costs []int
	}
	var vs []viable
	arityOK := false
	if c.fn != nil && !c.fn.isInst {
		// C++: a function must be declared before its use
		var visible []*FuncDecl
		for _, f := range cands {
			if f.start <= c.fn.start {
				visible = append(visible, f)
			}
		}
		if len(visible) == 0 {
			c.trap(xrt.TrapUnresolved, x.line, "function %q is used before its declaration (line %d)", x.Name, cands[0].line)
		} else {
			cands = visible
		}
	}
	for _, f := range cands {
		if len(f.Params) != len(x.Args) {
			continue
		}
		arityOK = true
		if f.Stage != "" {
			continue
		}
		fn := f
		if len(f.TParams) > 0 {
			bind := map[string]*Type{}
			ok := true
			for i, pv := range f.Params {
				if hasTParam(pv.Ty) {
					if ts[i] == nil || !unify(pv.Ty, ts[i], bind) {
						ok = false
						break
					}
				}
			}
			if !ok {
				continue
			}
			for _, tp := range f.TParams {
				if bind[tp] == nil {
					ok = false
				}
			}
			if !ok {
				continue
			}
			fn = c.instantiate(f, bind)
		}
		costs := make([]int, len(x.Args))
		ok := true
		for i, pv := range fn.Params {
			k := c.argCost(pv.Ty, x.Args[i], ts[i])
			if k < 0 {
				ok = false
				break
			}
			costs[i] = k
		}
		if ok {
			vs = append(vs, viable{fn, costs})
		}
	}
	if len(vs) == 0 {
		var sig []string
		for _, t := range ts {
			sig = append(sig, t.String())
		}
		if !arityOK {
			c.trap(xrt.TrapType, x.line, "no matching function for call to %s: wrong argument count (%d given)", x.Name, len(x.Args))
		} else {
			c.trap(xrt.TrapUnresolved, x.line, "no matching overload of %s for argument types (%s)", x.Name, strings.Join(sig, ", "))
		}
		for _, f := range cands {
			if len(f.Params) == len(x.Args) {
				return f.Ret
			}
		}
		return nil
	}
	best := -1
	for i := range vs {
		isBest := true
		for j := range vs {
			if i == j {
				continue
			}
			better := false
			for k := range vs[i].costs {
				if vs[i].costs[k] > vs[j].costs[k] {
					isBest = false
				}
				if vs[i].costs[k] < vs[j].costs[k] {
					better = true
				}
			}
			if !better {
				isBest = false
			}
		}
		if isBest {
			best = i
			break
		}
	}
	if best < 0 {
		c.unsupported(x.line, "overload resolution for %s is ambiguous under the simplified ranking", x.Name)
	}
	fn := vs[best].fn
	x.Fn = fn
	if fn.isInst && !fn.checked {
		c.checkFunc(fn) // the body of a template is only instantiated for the selected overload
	}
	for i, a := range x.Args {
		if il, ok := a.(*InitListExpr); ok {
			pt := fn.Params[i].Ty
			if pt.Kind == KRef {
				pt = pt.Elem
			}
			il.T = pt
			c.listInit(pt, il.Elems, il.line, "argument")
		}
	}
	c.fn.callees = append(c.fn.callees, fn)
	return fn.Ret
}

// instantiate re-parses a function template with its parameters bound.
func (c *checker) instantiate(f *FuncDecl, bind map[string]*Type) *FuncDecl {
	key := ""
	for _, tp := range f.TParams {
		key += tp + "=" + typeKey(bind[tp]) + ";"
	}
	if f.insts == nil {
		f.insts = map[string]*FuncDecl{}
	}
	if inst, ok := f.insts[key]; ok {
		return inst
	}
	ps := &parser{toks: c.prog.toks, pos: f.start, limit: f.end, prog: c.prog, tparams: bind, record: false}
	var inst *FuncDecl
	func() {
		defer func() {
			if r := recover(); r != nil {
				b, ok := r.(bail)
				if !ok {
					panic(r)
				}
				inst = &FuncDecl{Name: f.Name, Ret: f.Ret, Params: f.Params, line: f.line, unsupported: b.err, checked: true, isInst: true}
			}
		}()
		base, q := ps.parseDeclSpec()
		name, ty, _ := ps.parseDeclarator(base, q)
		inst = ps.parseFuncRest(name, ty, "", f.start, f.end)
		inst.isInst = true
	}()
	f.insts[key] = inst
	return inst
}

// convOpInst instantiates a template conversion operator for target type `to`.
func (c *checker) convOpInst(st *Type, to *Type) *FuncDecl {
	return c.prog.convOpInst(st, to)
}

func (p *Program) convOpInst(st *Type, to *Type) *FuncDecl {
	co := st.Conv
	key := typeKey(to)
	if inst, ok := co.instKey[key]; ok {
		return inst
	}
	ps := &parser{toks: p.toks, pos: co.start, limit: co.end, prog: p, tparams: map[string]*Type{co.TParam: to}, record: false}
	inst := &FuncDecl{Name: st.Name + "::operator " + to.String(), Ret: to, isInst: true}
	func() {
		defer func() {
			if r := recover(); r != nil {
				b, ok := r.(bail)
				if !ok {
					panic(r)
				}
				inst.unsupported = b.err
				inst.checked = true
			}
		}()
		inst.Body = ps.parseBlock()
	}()
	co.instKey[key] = inst
	if !inst.checked {
		ck := &checker{prog: p}
		ck.checkFunc(inst)
	}
	return inst
}
