package mslx

import (
	"fmt"

	"verif/internal/xrt"
)

// coro is the baton of one invocation that runs on its own goroutine.
type coro struct {
	resume chan bool // true: continue, false: abort
	status chan coStatus
}

type coStatus struct {
	done bool
	err  error
}

type abortSentinel struct{}

func (iv *inv) barrier(line int) {
	iv.cov("stmt.barrier")
	if iv.co == nil {
		return // a single invocation per group: the barrier is trivially satisfied
	}
	iv.co.status <- coStatus{}
	if !<-iv.co.resume {
		panic(abortSentinel{})
	}
}

func reachesBarrier(fn *FuncDecl, seen map[*FuncDecl]bool) bool {
	if seen[fn] {
		return false
	}
	seen[fn] = true
	if fn.usesBarrier {
		return true
	}
	for _, c := range fn.callees {
		if reachesBarrier(c, seen) {
			return true
		}
	}
	return false
}

// Run executes one compute entry point over opt.Dispatch workgroups, mutating bufs
// in place.
func (p *Program) Run(entry string, bufs xrt.Buffers, opt xrt.Options) (res xrt.Result, err error) {
	res = xrt.Result{Cov: xrt.Coverage{}}
	defer func() {
		if r := recover(); r != nil {
			switch b := r.(type) {
			case bail:
				err = b.err
			default:
				err = unsupportedf("internal error in mslx.Run: %v", r)
			}
		}
	}()
	fn := p.kernel(entry)
	if fn == nil {
		if e, ok := p.skippedNames[entry]; ok {
			return res, e
		}
		return res, fmt.Errorf("mslx: no kernel named %q", entry)
	}
	if e := p.reachUnsupported(fn); e != nil {
		return res, e
	}
	m := &machine{prog: p, opt: opt, res: &res, budget: opt.StepBudget(), globals: map[*VarDecl]*region{}, seen: map[string]bool{}}

	// bind buffers
	bound := map[*VarDecl]*region{}
	for _, bp := range p.entryBuffers(fn) {
		data, ok := bufs[bp.slot]
		if !ok {
			return res, fmt.Errorf("mslx: entry %s: no buffer bound at %s for parameter %s", entry, bp.slot, bp.v.Name)
		}
		bound[bp.v] = &region{name: bp.v.Name, space: bp.v.Ty.Space, data: data, isBuffer: true, readonly: bp.kind != "storage-rw", rootT: bp.v.Ty.Elem}
	}

	// module constants
	ginv := &inv{m: m, wg: &wgState{vars: map[*VarDecl]*region{}}, ids: map[string][3]uint32{}}
	gframe := &frame{fn: &FuncDecl{Name: "<module scope>"}}
	for _, g := range p.globals {
		if g.Ty.Kind == KUnsupported || g.Init == nil {
			continue
		}
		func() {
			defer func() {
				if r := recover(); r != nil {
					if _, ok := r.(bail); !ok {
						panic(r)
					}
					// an unsupported initialiser only matters if the constant is used
				}
			}()
			val := ginv.evalInit(gframe, g.Ty, g.Init)
			reg := newRegion(g.Name, "constant", g.Ty, false)
			encodeValue(reg.data, reg.poison, 0, g.Ty, val)
			reg.readonly = true
			m.globals[g] = reg
		}()
	}

	size, ok := p.localSize[entry]
	if !ok {
		size = [3]uint32{1, 1, 1}
	}
	groups := opt.Dispatch.Groups()
	perGroup := int(size[0]) * int(size[1]) * int(size[2])
	if perGroup <= 0 || perGroup > 4096 {
		return res, unsupportedf("threadgroup size %v", size)
	}
	useCoro := perGroup > 1 && reachesBarrier(fn, map[*FuncDecl]bool{})

	for gz := uint32(0); gz < groups[2]; gz++ {
		for gy := uint32(0); gy < groups[1]; gy++ {
			for gx := uint32(0); gx < groups[0]; gx++ {
				wg := &wgState{vars: map[*VarDecl]*region{}}
				// threadgroup reference parameters: one object per workgroup
				tgParams := map[*VarDecl]*region{}
				for _, v := range fn.Params {
					if v.Ty.Kind == KRef && v.Ty.Space == "threadgroup" {
						tgParams[v] = newRegion(v.Name, "threadgroup", v.Ty.Elem, opt.TrapMode)
					}
				}
				var invs []*inv
				for lz := uint32(0); lz < size[2]; lz++ {
					for ly := uint32(0); ly < size[1]; ly++ {
						for lx := uint32(0); lx < size[0]; lx++ {
							iv := &inv{m: m, wg: wg, ids: map[string][3]uint32{}}
							iv.ids["thread_position_in_threadgroup"] = [3]uint32{lx, ly, lz}
							iv.ids["thread_position_in_grid"] = [3]uint32{gx*size[0] + lx, gy*size[1] + ly, gz*size[2] + lz}
							iv.ids["threadgroup_position_in_grid"] = [3]uint32{gx, gy, gz}
							iv.ids["threadgroups_per_grid"] = groups
							iv.ids["threads_per_threadgroup"] = size
							iv.ids["threads_per_grid"] = [3]uint32{groups[0] * size[0], groups[1] * size[1], groups[2] * size[2]}
							idx := lx + ly*size[0] + lz*size[0]*size[1]
							iv.ids["thread_index_in_threadgroup"] = [3]uint32{idx, idx, idx}
							invs = append(invs, iv)
						}
					}
				}
				if e := runGroup(m, fn, invs, bound, tgParams, useCoro); e != nil {
					return res, e
				}
			}
		}
	}
	return res, nil
}

func (iv *inv) runKernel(fn *FuncDecl, bound, tgParams map[*VarDecl]*region) {
	f := &frame{fn: fn, slots: make([]binding, fn.nslots)}
	for _, v := range fn.Params {
		t := v.Ty
		if reg, ok := bound[v]; ok {
			r := Ref{reg: reg, t: t.Elem}
			if t.Elem.Kind == KArray && t.Elem.N == 1 {
				r.flex = true // whole-buffer runtime-sized array
			}
			f.slots[v.slot] = binding{ref: r}
			continue
		}
		if reg, ok := tgParams[v]; ok {
			f.slots[v.slot] = binding{ref: Ref{reg: reg, t: t.Elem}}
			continue
		}
		// built-in input
		var val Value
		found := false
		for _, a := range v.Attrs {
			if id, ok := iv.ids[a.Name]; ok {
				found = true
				n := t.comps()
				val = Value{T: t, S: make([]Scalar, n)}
				for i := 0; i < n && i < 3; i++ {
					val.S[i].U = id[i]
				}
			}
		}
		if !found {
			iv.unsupported(v.line, "kernel parameter %s", v.Name)
		}
		reg := newRegion(v.Name, "thread", t, false)
		encodeValue(reg.data, reg.poison, 0, t, val)
		f.slots[v.slot] = binding{ref: Ref{reg: reg, t: t}}
	}
	iv.execBlock(f, fn.Body.List)
}

func runGroup(m *machine, fn *FuncDecl, invs []*inv, bound, tgParams map[*VarDecl]*region, useCoro bool) error {
	if !useCoro {
		for _, iv := range invs {
			iv.runKernel(fn, bound, tgParams)
		}
		return nil
	}
	for _, iv := range invs {
		iv.co = &coro{resume: make(chan bool), status: make(chan coStatus)}
		go func(iv *inv) {
			var st coStatus
			st.done = true
			defer func() {
				if r := recover(); r != nil {
					switch b := r.(type) {
					case abortSentinel:
						return // aborted: nobody is listening
					case bail:
						st.err = b.err
					default:
						st.err = unsupportedf("internal error in mslx.Run: %v", r)
					}
				}
				iv.co.status <- st
			}()
			if !<-iv.co.resume {
				panic(abortSentinel{})
			}
			iv.runKernel(fn, bound, tgParams)
		}(iv)
	}
	live := append([]*inv(nil), invs...)
	var firstErr error
	finished := 0
	for len(live) > 0 && firstErr == nil {
		var next []*inv
		for i, iv := range live {
			iv.co.resume <- true
			st := <-iv.co.status
			if st.err != nil {
				firstErr = st.err
				// abort everybody still alive (those after i have not run this round;
				// those before are waiting at a barrier)
				for _, o := range next {
					o.co.resume <- false
				}
				for _, o := range live[i+1:] {
					o.co.resume <- false
				}
				next = nil
				break
			}
			if !st.done {
				next = append(next, iv)
			} else {
				finished++
			}
		}
		if firstErr == nil && len(next) > 0 && finished > 0 {
			// MSL: every thread of the threadgroup must execute the barrier
			m.trap(xrt.TrapOther, "kernel %s: barrier divergence: %d invocation(s) wait at a threadgroup_barrier after %d invocation(s) of the threadgroup have already returned", fn.Name, len(next), finished)
		}
		live = next
	}
	return firstErr
}
