package mslx

import (
	"errors"
	"strings"
	"testing"

	"verif/internal/xrt"
)

const mslPrelude = `// language: metal2.1
#include <metal_stdlib>
#include <simd/simd.h>

using metal::uint;
struct DefaultConstructible {
    template<typename T>
    operator T() && {
        return T {};
    }
};
`

func parseOK(t *testing.T, body string) *Program {
	t.Helper()
	p, err := Parse(mslPrelude + body)
	if err != nil {
		t.Fatalf("Parse: %v", err)
	}
	return p
}

func wantStatic(t *testing.T, body string, kind xrt.TrapKind, frag string) {
	t.Helper()
	p := parseOK(t, body)
	for _, tr := range p.StaticTraps() {
		if tr.Kind == kind && strings.Contains(tr.Detail, frag) {
			return
		}
	}
	t.Errorf("expected a %s trap mentioning %q, got %v", kind, frag, p.StaticTraps())
}

func wantClean(t *testing.T, body string) *Program {
	t.Helper()
	p := parseOK(t, body)
	if tr := p.StaticTraps(); len(tr) != 0 {
		t.Errorf("unexpected static traps: %v", tr)
	}
	return p
}

func TestStaticReserved(t *testing.T) {
	wantStatic(t, `kernel void main_() { float class = 1.0; return; }`, xrt.TrapReserved, `"class"`)
	wantStatic(t, `kernel void main_() { int float2 = 1; return; }`, xrt.TrapReserved, `"float2"`)
	wantStatic(t, `struct S { float default; int b; };
kernel void main_() { return; }`, xrt.TrapReserved, `"default"`)
	wantStatic(t, `void thread() { return; }
kernel void main_() { return; }`, xrt.TrapReserved, `"thread"`)
	wantStatic(t, `void float4(int a) { return; }
kernel void main_() { return; }`, xrt.TrapReserved, `"float4"`)
	wantStatic(t, `void f(int constant) { return; }
kernel void main_() { return; }`, xrt.TrapReserved, `"constant"`)
	wantStatic(t, `struct texture2d { int a; };
kernel void main_() { return; }`, xrt.TrapReserved, `"texture2d"`)
	wantStatic(t, `kernel void main() { return; }`, xrt.TrapReserved, `"main"`)
	wantStatic(t, `constant int device = 3;
kernel void main_() { return; }`, xrt.TrapReserved, `"device"`)
	// with `using namespace metal;` a module-scope function named like a library function
	// that the text calls unqualified joins the library's overload set
	wantStatic(t, `using namespace metal;
float clamp(float x, float lo, float hi) { return x; }
kernel void main_() { float y = clamp(1.0, 0.0, 2.0); return; }`, xrt.TrapReserved, `"clamp"`)
}

func TestStaticReservedLibraryClash(t *testing.T) {
	// only flagged when the name is also called unqualified AS A LIBRARY function somewhere
	p := parseOK(t, `float saturate(float x) { return x; }
kernel void main_() { float y = saturate(1.0); return; }`)
	for _, tr := range p.StaticTraps() {
		t.Errorf("a user function shadowing a metal:: name is legal C++: %v", tr)
	}
	// locals / members named like library functions are legal
	wantClean(t, `struct R { float fract; int exp; };
kernel void main_() { float fract = metal::fract(1.5); R r = R {fract, 2}; return; }`)
}

func TestStaticRedecl(t *testing.T) {
	wantStatic(t, `kernel void main_() { int x = 1; int x = 2; return; }`, xrt.TrapRedecl, `"x"`)
	wantStatic(t, `void f(int a) { int a = 1; return; }
kernel void main_() { return; }`, xrt.TrapRedecl, `"a"`)
	wantStatic(t, `void f(int a, float a) { return; }
kernel void main_() { return; }`, xrt.TrapRedecl, `"a"`)
	wantStatic(t, `struct S { int m; float m; };
kernel void main_() { return; }`, xrt.TrapRedecl, `"m"`)
	wantStatic(t, `struct S { int m; };
struct S { float k; };
kernel void main_() { return; }`, xrt.TrapRedecl, `"S"`)
	wantStatic(t, `int f(int a) { return a; }
int f(int b) { return b; }
kernel void main_() { return; }`, xrt.TrapRedecl, `"f"`)
	wantStatic(t, `constant int K = 1;
constant int K = 2;
kernel void main_() { return; }`, xrt.TrapRedecl, `"K"`)
	// legal: overloads, shadowing in an inner block, same name in sibling blocks
	wantClean(t, `int f(int a) { return a; }
uint f(uint a) { return a; }
metal::int2 f(metal::int2 a) { return a; }
kernel void main_() {
    int x = f(1);
    { int x = 2; x = x + 1; }
    { float x = 2.0; x = x + 1.0; }
    for (int i = 0; i < 2; i++) { int x = i; }
    uint y = f(2u);
    return;
}`)
}

func TestStaticUnresolved(t *testing.T) {
	wantStatic(t, `kernel void main_() { int x = 1; y = x; return; }`, xrt.TrapUnresolved, `"y"`)
	wantStatic(t, `struct S { int m; };
kernel void main_() { S s = S {1}; int k = s.q; return; }`, xrt.TrapUnresolved, `"q"`)
	wantStatic(t, `kernel void main_() { int k = g(1); return; }`, xrt.TrapUnresolved, `"g"`)
	wantStatic(t, `int f(metal::int2 a) { return a.x; }
kernel void main_() { metal::float2 v = metal::float2(1.0); int k = f(v); return; }`, xrt.TrapUnresolved, "no matching overload")
	wantStatic(t, `kernel void main_() { metal::float2 v = metal::float2(1.0); float k = v.z; return; }`, xrt.TrapUnresolved, `"z"`)
	wantStatic(t, `kernel void main_() { { int inner = 1; } int k = inner; return; }`, xrt.TrapUnresolved, `"inner"`)
	// used before its declaration
	wantStatic(t, `kernel void main_() { int k = later(1); return; }
int later(int a) { return a; }`, xrt.TrapUnresolved, `"later"`)
}

func TestStaticType(t *testing.T) {
	// vector element type mismatch without a cast
	wantStatic(t, `kernel void main_() { metal::int2 v = metal::float2(1.0); return; }`, xrt.TrapType, "no implicit conversion from float2 to int2")
	// float into an int member inside braces: narrowing
	wantStatic(t, `struct S { int m; };
kernel void main_() { float f = 1.5; S s = S {f}; return; }`, xrt.TrapType, "narrowing")
	// vector size mismatch
	wantStatic(t, `kernel void main_() { metal::float2 a = metal::float2(1.0); metal::float3 b = metal::float3(1.0); metal::float3 c = a + b; return; }`, xrt.TrapType, "invalid operands")
	wantStatic(t, `kernel void main_() { metal::float3 b = metal::float3(1.0); metal::float2 c = b; return; }`, xrt.TrapType, "no implicit conversion from float3 to float2")
	// wrong argument count
	wantStatic(t, `int f(int a, int b) { return a + b; }
kernel void main_() { int k = f(1); return; }`, xrt.TrapType, "wrong argument count")
	wantStatic(t, `kernel void main_() { float k = metal::clamp(1.0, 2.0); return; }`, xrt.TrapType, "wrong argument count")
	// wrong constructor arity
	wantStatic(t, `kernel void main_() { metal::float3 v = metal::float3(1.0, 2.0); return; }`, xrt.TrapType, "wrong constructor arity")
	wantStatic(t, `kernel void main_() { metal::float2x2 m = metal::float2x2(metal::float2(1.0), metal::float2(1.0), metal::float2(1.0)); return; }`, xrt.TrapType, "wrong constructor arity")
	wantStatic(t, `struct S { int m; };
kernel void main_() { S s = S {1, 2}; return; }`, xrt.TrapType, "excess elements")
	// operator on wrong types
	wantStatic(t, `kernel void main_() { float a = 1.0; float b = a % 2.0; return; }`, xrt.TrapType, "invalid operands")
	wantStatic(t, `struct S { int m; };
kernel void main_() { S a = S {1}; S b = a + a; return; }`, xrt.TrapType, "invalid operands")
	wantStatic(t, `kernel void main_() { float a = 1.0; int b = ~a; return; }`, xrt.TrapType, "invalid operand")
	// condition that cannot become bool
	wantStatic(t, `kernel void main_() { metal::float2 v = metal::float2(1.0); if (v) { } return; }`, xrt.TrapType, "condition")
	wantStatic(t, `kernel void main_() { metal::bool2 c = metal::bool2(true); int k = c ? 1 : 2; return; }`, xrt.TrapType, "scalar boolean")
	// calling a non-function
	wantStatic(t, `kernel void main_() { int x = 1; int y = x(2); return; }`, xrt.TrapType, "not a function")
	// return type
	wantStatic(t, `metal::int2 f() { return metal::float2(1.0); }
kernel void main_() { return; }`, xrt.TrapType, "no implicit conversion")
	wantStatic(t, `int f() { return; }
kernel void main_() { return; }`, xrt.TrapType, "without a value")
	// assignment to const / rvalue
	wantStatic(t, `void f(device int const& g) { g = 1; return; }
kernel void main_() { return; }`, xrt.TrapType, "const")
	wantStatic(t, `kernel void main_() { int a = 1; (a + 1) = 2; return; }`, xrt.TrapType, "not assignable")
	// reference binding across address spaces
	wantStatic(t, `void f(thread int& p) { p = 1; return; }
kernel void main_(device int& g [[buffer(0)]]) { f(g); return; }`, xrt.TrapUnresolved, "no matching overload")
	// as_type size mismatch
	wantStatic(t, `kernel void main_() { metal::float2 v = metal::float2(1.0); uint u = as_type<uint>(v); return; }`, xrt.TrapType, "different size")
	// address of an rvalue (what naga emits for a guarded atomic pointer)
	wantStatic(t, `kernel void main_() { int i = 1; thread int* p = &uint(i); return; }`, xrt.TrapType, "address of an rvalue")
	// things that are legal and must not be flagged
	wantClean(t, `struct S { int m; uint u; float f; };
int g(int a) { return a; }
kernel void main_() {
    int i = 1.5;               // implicit float -> int is legal outside braces
    float f = i;
    uint u = i;
    bool b = i;
    metal::float3 v = 1.0;     // scalar -> vector splat
    metal::int4 w = metal::int4(1) * 2;
    metal::uint3 z = metal::uint3(1u) << 3;
    S s = S {1, 2u, 3.0};
    S s2 = {};
    int k = g(2.5);
    int t = true ? i : 2u;
    metal::float2 sel = b ? metal::float2(1.0) : DefaultConstructible();
    if (i) { }
    while (f) { break; }
    return;
}`)
}

// ---------------------------------------------------------------------------
// dynamic traps on hand-written MSL

type mslRun struct {
	res  xrt.Result
	err  error
	bufs xrt.Buffers
}

func runMSL(t *testing.T, body string, bufs xrt.Buffers, trapMode bool) mslRun {
	t.Helper()
	p := wantClean(t, body)
	res, err := p.Run("main_", bufs, xrt.Options{TrapMode: trapMode, MaxSteps: 100000})
	return mslRun{res, err, bufs}
}

func runMSLSized(t *testing.T, body string, bufs xrt.Buffers, size [3]uint32) mslRun {
	t.Helper()
	p := wantClean(t, body)
	p.SetLocalSize("main_", size)
	res, err := p.Run("main_", bufs, xrt.Options{TrapMode: true, MaxSteps: 100000})
	return mslRun{res, err, bufs}
}

func hasTrap(r mslRun, k xrt.TrapKind) bool {
	for _, tr := range r.res.Traps {
		if tr.Kind == k {
			return true
		}
	}
	return false
}

func slot(n uint32) xrt.Slot { return xrt.Slot{Kind: "buffer", B: n} }

const ioKernel = `
struct type_1 { int inner[8]; };
kernel void main_(device type_1& o [[buffer(0)]], device type_1 const& a [[buffer(1)]]) {
`

func TestDynSignedOverflow(t *testing.T) {
	body := ioKernel + `
    int x = a.inner[0];
    o.inner[0] = x + 1;
    o.inner[1] = x * 2;
    o.inner[2] = -a.inner[1];
    o.inner[3] = a.inner[1] - 1;
    uint ux = static_cast<uint>(x);
    o.inner[4] = static_cast<int>(ux + 1u);   // unsigned wraps: fine
    return;
}`
	mk := func() xrt.Buffers {
		return xrt.Buffers{slot(0): zeros(32), slot(1): i32s(2147483647, -2147483648, 0, 0, 0, 0, 0, 0)}
	}
	r := runMSL(t, body, mk(), true)
	if r.err != nil {
		t.Fatal(r.err)
	}
	n := 0
	for _, tr := range r.res.Traps {
		if tr.Kind == xrt.TrapSignedOvf {
			n++
		} else {
			t.Errorf("unexpected trap %v", tr)
		}
	}
	if n != 4 {
		t.Errorf("want 4 signed-overflow traps, got %v", r.res.Traps)
	}
	got := getI32s(r.bufs[slot(0)])
	if got[0] != -2147483648 || got[1] != -2 || got[2] != -2147483648 || got[3] != 2147483647 || got[4] != -2147483648 {
		t.Errorf("wrapped fallback values: %v", got)
	}
	// non-trap mode: same values, no reports
	r2 := runMSL(t, body, mk(), false)
	if r2.err != nil || len(r2.res.Traps) != 0 {
		t.Errorf("non-trap mode: err=%v traps=%v", r2.err, r2.res.Traps)
	}
}

func TestDynDivision(t *testing.T) {
	body := ioKernel + `
    o.inner[0] = a.inner[0] / a.inner[1];    // 7 / 0
    o.inner[1] = a.inner[0] % a.inner[1];    // 7 % 0
    o.inner[2] = a.inner[2] / a.inner[3];    // MIN / -1
    o.inner[3] = a.inner[2] % a.inner[3];    // MIN % -1
    o.inner[4] = a.inner[4] / a.inner[5];    // -7 / 2 = -3
    o.inner[5] = a.inner[4] % a.inner[5];    // -1
    uint z = static_cast<uint>(a.inner[1]);
    o.inner[6] = static_cast<int>(5u / z);
    return;
}`
	r := runMSL(t, body, xrt.Buffers{slot(0): zeros(32), slot(1): i32s(7, 0, -2147483648, -1, -7, 2, 0, 0)}, true)
	if r.err != nil {
		t.Fatal(r.err)
	}
	nz, no := 0, 0
	for _, tr := range r.res.Traps {
		switch tr.Kind {
		case xrt.TrapDivZero:
			nz++
		case xrt.TrapDivOvf:
			no++
		default:
			t.Errorf("unexpected %v", tr)
		}
	}
	if nz != 3 || no != 2 {
		t.Errorf("div-zero=%d div-ovf=%d traps=%v", nz, no, r.res.Traps)
	}
	got := getI32s(r.bufs[slot(0)])
	if got[4] != -3 || got[5] != -1 {
		t.Errorf("C++ truncating division: %v", got)
	}
}

func TestDynShiftsAreMasked(t *testing.T) {
	body := ioKernel + `
    o.inner[0] = a.inner[0] << a.inner[1];                  // 1 << 33 -> 1 << 1
    o.inner[1] = a.inner[2] >> 1;                           // -8 >> 1 = -4 (arithmetic)
    o.inner[2] = static_cast<int>(static_cast<uint>(a.inner[2]) >> 28);   // 0xF
    o.inner[3] = a.inner[2] << 1;                           // -16: defined in MSL
    return;
}`
	r := runMSL(t, body, xrt.Buffers{slot(0): zeros(32), slot(1): i32s(1, 33, -8, 0, 0, 0, 0, 0)}, true)
	if r.err != nil || len(r.res.Traps) != 0 {
		t.Fatalf("err=%v traps=%v", r.err, r.res.Traps)
	}
	got := getI32s(r.bufs[slot(0)])
	if got[0] != 2 || got[1] != -4 || got[2] != 15 || got[3] != -16 {
		t.Errorf("%v", got)
	}
}

func TestDynFloatToInt(t *testing.T) {
	body := `
struct type_1 { int inner[8]; };
struct type_2 { float inner[8]; };
kernel void main_(device type_1& o [[buffer(0)]], device type_2 const& a [[buffer(1)]]) {
    o.inner[0] = static_cast<int>(a.inner[0]);      // 3.9 -> 3
    o.inner[1] = static_cast<int>(a.inner[1]);      // 3e9: out of range
    o.inner[2] = (int)a.inner[2];                   // NaN
    o.inner[3] = int(static_cast<uint>(a.inner[3]));// -1.5 -> uint: truncates to -1: out of range
    o.inner[4] = static_cast<int>(static_cast<uint>(a.inner[4]));   // -0.5 -> 0: fine
    o.inner[5] = static_cast<int>(a.inner[5]);      // -2147483648.0: fine
    return;
}`
	nan := f32s(0)
	copy(nan, []byte{0, 0, 0xc0, 0x7f})
	in := f32s(3.9, 3e9, 0, -1.5, -0.5, -2147483648, 0, 0)
	copy(in[8:], nan)
	r := runMSL(t, body, xrt.Buffers{slot(0): zeros(32), slot(1): in}, true)
	if r.err != nil {
		t.Fatal(r.err)
	}
	n := 0
	for _, tr := range r.res.Traps {
		if tr.Kind == xrt.TrapF2I {
			n++
		} else {
			t.Errorf("unexpected %v", tr)
		}
	}
	if n != 3 {
		t.Errorf("want 3 float-to-int traps, got %v", r.res.Traps)
	}
	got := getI32s(r.bufs[slot(0)])
	if got[0] != 3 || got[4] != 0 || got[5] != -2147483648 {
		t.Errorf("%v", got)
	}
}

func TestDynPoison(t *testing.T) {
	// stored to a buffer
	r := runMSL(t, ioKernel+`
    int x;
    o.inner[0] = x;
    return;
}`, xrt.Buffers{slot(0): zeros(32), slot(1): zeros(32)}, true)
	if r.err != nil || !hasTrap(r, xrt.TrapPoison) {
		t.Errorf("store of uninitialised local: err=%v traps=%v", r.err, r.res.Traps)
	}
	// propagates through arithmetic and a helper; used in a condition
	r = runMSL(t, `
struct type_1 { int inner[8]; };
int twice(int v) { return v + v; }
kernel void main_(device type_1& o [[buffer(0)]], device type_1 const& a [[buffer(1)]]) {
    int x;
    int y = twice(x) + 1;
    if (y > 3) { o.inner[0] = 1; }
    return;
}`, xrt.Buffers{slot(0): zeros(32), slot(1): zeros(32)}, true)
	if r.err != nil || !hasTrap(r, xrt.TrapPoison) {
		t.Errorf("condition on poison: err=%v traps=%v", r.err, r.res.Traps)
	}
	// used as an index / switch selector
	r = runMSL(t, ioKernel+`
    uint i;
    int v = a.inner[i & 7u];
    switch (v) { default: { break; } }
    return;
}`, xrt.Buffers{slot(0): zeros(32), slot(1): zeros(32)}, true)
	if r.err != nil || !hasTrap(r, xrt.TrapPoison) {
		t.Errorf("index on poison: err=%v traps=%v", r.err, r.res.Traps)
	}
	// a partially initialised struct: only the uninitialised member is poison
	r = runMSL(t, `
struct P { int a; int b; char _pad[8]; };
struct type_1 { P inner[2]; };
kernel void main_(device type_1& o [[buffer(0)]]) {
    P p;
    p.a = 1;
    o.inner[0].a = p.a;        // fine
    P q = {};
    q.b = 2;
    o.inner[1] = q;            // fine: value-initialised (padding never matters)
    return;
}`, xrt.Buffers{slot(0): zeros(32)}, true)
	if r.err != nil || len(r.res.Traps) != 0 {
		t.Errorf("partial init: err=%v traps=%v", r.err, r.res.Traps)
	}
	r = runMSL(t, `
struct P { int a; int b; };
struct type_1 { P inner[2]; };
kernel void main_(device type_1& o [[buffer(0)]]) {
    P p;
    p.a = 1;
    o.inner[0] = p;            // p.b is indeterminate
    return;
}`, xrt.Buffers{slot(0): zeros(16)}, true)
	if r.err != nil || !hasTrap(r, xrt.TrapPoison) {
		t.Errorf("struct with indeterminate member: err=%v traps=%v", r.err, r.res.Traps)
	}
	// threadgroup memory is not zeroed by the language
	r = runMSL(t, `
struct type_1 { uint inner[4]; };
kernel void main_(device type_1& o [[buffer(0)]], uint li [[thread_index_in_threadgroup]]) {
    threadgroup type_1 w;
    o.inner[li] = w.inner[li];
    return;
}`, xrt.Buffers{slot(0): zeros(16)}, true)
	if r.err != nil || !hasTrap(r, xrt.TrapPoison) {
		t.Errorf("threadgroup read before write: err=%v traps=%v", r.err, r.res.Traps)
	}
	// passed to an atomic
	r = runMSL(t, `
kernel void main_(device metal::atomic_uint& c [[buffer(0)]]) {
    uint v;
    metal::atomic_fetch_add_explicit(&c, v, metal::memory_order_relaxed);
    return;
}`, xrt.Buffers{slot(0): zeros(4)}, true)
	if r.err != nil || !hasTrap(r, xrt.TrapPoison) {
		t.Errorf("poison to atomic: err=%v traps=%v", r.err, r.res.Traps)
	}
	// value-initialised and assigned variables are clean; no poison in non-trap mode
	r = runMSL(t, ioKernel+`
    int x = {};
    int y;
    y = 4;
    o.inner[0] = x + y;
    return;
}`, xrt.Buffers{slot(0): zeros(32), slot(1): zeros(32)}, true)
	if r.err != nil || len(r.res.Traps) != 0 || getI32s(r.bufs[slot(0)])[0] != 4 {
		t.Errorf("clean case: err=%v traps=%v", r.err, r.res.Traps)
	}
}

func TestDynOutOfBounds(t *testing.T) {
	body := `
struct type_1 { int inner[4]; };
typedef int type_2[1];
struct Dyn { int head; type_2 tail; };
kernel void main_(device type_1& o [[buffer(0)]], device type_1 const& a [[buffer(1)]], device Dyn& d [[buffer(2)]], device type_2& raw [[buffer(3)]]) {
    type_1 loc = type_1 {1, 2, 3, 4};
    int i = a.inner[0];              // 5
    o.inner[0] = loc.inner[i];       // out of range: trap, clamped read -> 4
    loc.inner[i] = 9;                // out of range: trap, skipped
    o.inner[1] = loc.inner[3];       // 4
    metal::int4 v = metal::int4(1, 2, 3, 4);
    o.inner[2] = v[i];               // trap
    d.tail[2] = 7;                   // runtime-sized tail: 3 elements fit (16-byte buffer) -> fine
    d.tail[3] = 8;                   // beyond the buffer: trap, skipped
    raw[1] = 5;                      // whole-buffer array of 2 elements: fine
    raw[2] = 6;                      // trap
    o.inner[3] = d.tail[a.inner[1]]; // index -1: trap
    return;
}`
	bufs := xrt.Buffers{slot(0): zeros(16), slot(1): i32s(5, -1, 0, 0), slot(2): zeros(16), slot(3): zeros(8)}
	r := runMSL(t, body, bufs, true)
	if r.err != nil {
		t.Fatal(r.err)
	}
	n := 0
	for _, tr := range r.res.Traps {
		if tr.Kind == xrt.TrapOOB {
			n++
		} else {
			t.Errorf("unexpected %v", tr)
		}
	}
	if n != 6 {
		t.Errorf("want 6 OOB traps, got %d: %v", n, r.res.Traps)
	}
	if g := getI32s(bufs[slot(0)]); g[0] != 4 || g[1] != 4 || g[2] != 4 {
		t.Errorf("o = %v", g)
	}
	if g := getI32s(bufs[slot(2)]); g[3] != 7 || g[0] != 0 {
		t.Errorf("d = %v", g)
	}
	if g := getI32s(bufs[slot(3)]); g[1] != 5 || g[0] != 0 {
		t.Errorf("raw = %v", g)
	}
	// a buffer smaller than the type it is bound to
	r = runMSL(t, `
struct type_1 { int inner[4]; };
kernel void main_(device type_1& o [[buffer(0)]]) { o.inner[3] = 1; return; }`, xrt.Buffers{slot(0): zeros(8)}, true)
	if r.err != nil || !hasTrap(r, xrt.TrapOOB) {
		t.Errorf("short buffer: err=%v traps=%v", r.err, r.res.Traps)
	}
}

func TestDynMiscTraps(t *testing.T) {
	// falling off the end of a non-void function
	r := runMSL(t, `
struct type_1 { int inner[4]; };
int f(int x) { if (x > 0) { return 1; } }
kernel void main_(device type_1& o [[buffer(0)]]) { o.inner[0] = f(0); return; }`, xrt.Buffers{slot(0): zeros(16)}, true)
	if r.err != nil || !hasTrap(r, xrt.TrapUnreach) {
		t.Errorf("missing return: err=%v traps=%v", r.err, r.res.Traps)
	}
	// extract_bits / insert_bits with offset + bits > 32
	r = runMSL(t, `
struct type_1 { uint inner[4]; };
kernel void main_(device type_1& o [[buffer(0)]]) {
    uint off = o.inner[3];
    o.inner[0] = metal::extract_bits(0xABCD1234u, off, 8u);
    o.inner[1] = metal::insert_bits(0u, 0xFFu, off, 8u);
    o.inner[2] = metal::extract_bits(0xABCD1234u, 24u, 8u);
    return;
}`, xrt.Buffers{slot(0): u32s(0, 0, 0, 28)}, true)
	nb := 0
	for _, tr := range r.res.Traps {
		if tr.Kind == xrt.TrapOther && strings.Contains(tr.Detail, "bitfield range") {
			nb++
		}
	}
	if r.err != nil || nb != 2 || getU32s(r.bufs[slot(0)])[2] != 0xAB {
		t.Errorf("bitfield range: err=%v traps=%v o=%x", r.err, r.res.Traps, getU32s(r.bufs[slot(0)]))
	}
	// step budget
	r = runMSL(t, `
kernel void main_() { while (true) { } return; }`, xrt.Buffers{}, true)
	var u *xrt.Unsupported
	if !errors.As(r.err, &u) || u.What != "step budget" {
		t.Errorf("step budget: %v", r.err)
	}
	// missing slot
	r = runMSL(t, `
kernel void main_(device int& o [[buffer(4)]]) { o = 1; return; }`, xrt.Buffers{}, true)
	if r.err == nil || errors.As(r.err, &u) {
		t.Errorf("missing slot must be a plain error: %v", r.err)
	}
	// write through a constant buffer is rejected statically; read-only storage too
	wantStatic(t, `kernel void main_(constant int& c [[buffer(0)]]) { c = 1; return; }`, xrt.TrapType, "constant")
}

func TestParseErrorsAndUnsupported(t *testing.T) {
	var u *xrt.Unsupported
	// not MSL at all: plain error
	for _, src := range []string{
		"kernel void main_() { int x = ; }",
		"kernel void main_() { return; ",
		"kernel void main_() { int x = 1 }",
		"kernel void main_() { x = $; }",
	} {
		_, err := Parse(mslPrelude + src)
		if err == nil || errors.As(err, &u) {
			t.Errorf("%q: want a plain error, got %v", src, err)
		}
	}
	// outside the subset: inconclusive
	for _, src := range []string{
		"kernel void main_(metal::texture2d<float, metal::access::sample> t [[texture(0)]]) { return; }",
		"kernel void main_() { long x = 1L; return; }",
		"kernel void main_() { auto x = 1; return; }",
		"#define FOO 1\nkernel void main_() { return; }",
	} {
		_, err := Parse(mslPrelude + src)
		if !errors.As(err, &u) {
			t.Errorf("%q: want *xrt.Unsupported, got %v", src, err)
		}
	}
	// an unsupported helper that no kernel reaches is skipped
	p, err := Parse(mslPrelude + `
float tex(metal::texture2d<float, metal::access::sample> t, metal::sampler s) { return t.sample(s, metal::float2(0.0)).x; }
long wide(long a) { return a; }
kernel void main_(device int& o [[buffer(0)]]) { o = 1; return; }
kernel void other(device int& o [[buffer(0)]]) { o = static_cast<int>(wide(1L)); return; }`)
	if err != nil {
		t.Fatal(err)
	}
	if len(p.StaticTraps()) != 0 {
		t.Errorf("traps: %v", p.StaticTraps())
	}
	if p.EntryUnsupported("main_") != nil {
		t.Errorf("main_ should be runnable: %v", p.EntryUnsupported("main_"))
	}
	b := xrt.Buffers{slot(0): zeros(4)}
	if _, err := p.Run("main_", b, xrt.Options{TrapMode: true}); err != nil || getI32s(b[slot(0)])[0] != 1 {
		t.Errorf("run main_: %v", err)
	}
	if _, err := p.Run("other", b, xrt.Options{TrapMode: true}); !errors.As(err, &u) {
		t.Errorf("run other: want Unsupported, got %v", err)
	}
}

func TestAPIEntriesResourcesDecls(t *testing.T) {
	p := wantClean(t, `
struct _mslBufferSizes { uint size0; uint size2; };
struct S { metal::packed_float3 a; float b; };
typedef uint type_1[1];
constant uint K = 4u;
uint helper(uint x, thread uint& acc) { uint local = x + K; acc = local; return local; }
kernel void first(
  metal::uint3 gid [[thread_position_in_grid]]
, device type_1& out [[buffer(0)]]
, constant S& u [[buffer(1)]]
, device type_1 const& inp [[buffer(2)]]
, constant _mslBufferSizes& _buffer_sizes
) {
    uint acc = 0u;
    out[0] = helper(gid.x, acc);
    return;
}
kernel void second(device type_1& out [[buffer(5)]]) { out[0] = 1u; return; }
`)
	es := p.Entries()
	if len(es) != 2 || es[0].Name != "first" || es[1].Name != "second" || es[0].LocalSize != [3]uint32{} {
		t.Errorf("entries: %+v", es)
	}
	rs := p.EntryResources("first")
	want := []Resource{
		{"out", slot(0), "storage-rw", "type_1"},
		{"u", slot(1), "uniform", "S"},
		{"inp", slot(2), "storage-ro", "type_1"},
		{"_buffer_sizes", slot(3), "uniform", "_mslBufferSizes"},
	}
	if len(rs) != len(want) {
		t.Fatalf("resources: %+v", rs)
	}
	for i := range want {
		if rs[i] != want[i] {
			t.Errorf("resource %d: %+v want %+v", i, rs[i], want[i])
		}
	}
	if all := p.Resources(); len(all) != 5 {
		t.Errorf("all resources: %+v", all)
	}
	lay := p.BufferSizesLayout("_mslBufferSizes")
	if len(lay) != 2 || lay[0].Index != 0 || lay[0].Offset != 0 || lay[1].Index != 2 || lay[1].Offset != 4 {
		t.Errorf("sizes layout: %+v", lay)
	}
	have := map[Decl]bool{}
	for _, d := range p.Decls() {
		have[d] = true
	}
	for _, d := range []Decl{
		{"S", "type", ""}, {"a", "member", "S"}, {"b", "member", "S"}, {"type_1", "type", ""},
		{"K", "global", ""}, {"helper", "function", ""}, {"x", "param", "helper"}, {"acc", "param", "helper"},
		{"local", "local", "helper"}, {"first", "entry", ""}, {"gid", "param", "first"}, {"acc", "local", "first"},
		{"second", "entry", ""}, {"DefaultConstructible", "type", ""},
	} {
		if !have[d] {
			t.Errorf("missing decl %+v in %+v", d, p.Decls())
		}
	}
}

func TestCoverageAndSteps(t *testing.T) {
	p := wantClean(t, `
struct type_1 { int inner[4]; };
kernel void main_(device type_1& o [[buffer(0)]]) {
    metal::int3 v = metal::int3(1, 2, 3) + metal::int3(1);
    o.inner[0] = metal::clamp(v.x, 0, 1);
    if (v.y > 2) { o.inner[1] = 1; }
    return;
}`)
	res, err := p.Run("main_", xrt.Buffers{slot(0): zeros(16)}, xrt.Options{TrapMode: true})
	if err != nil {
		t.Fatal(err)
	}
	for _, k := range []string{"op.+.int3", "fn.clamp", "stmt.if", "stmt.return", "op.>.int"} {
		if res.Cov[k] == 0 {
			t.Errorf("coverage key %q missing: %v", k, res.Cov.Keys())
		}
	}
	if res.Steps == 0 {
		t.Error("no steps counted")
	}
}
