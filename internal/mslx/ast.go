package mslx

import (
	"fmt"

	"verif/internal/xrt"
)

func unsupportedf(format string, a ...interface{}) *xrt.Unsupported {
	return &xrt.Unsupported{What: fmt.Sprintf(format, a...)}
}

// ---------------------------------------------------------------------------
// expressions

type exprBase struct {
	line int
	T    *Type  // static type (set by the checker); reference types are stripped
	LV   bool   // is an lvalue
	sp   string // address space of the lvalue
	cq   bool   // lvalue is const-qualified
	cov  string
}

func (b *exprBase) base() *exprBase { return b }

// Expr is an expression node.
type Expr interface {
	base() *exprBase
}

type LitExpr struct {
	exprBase
	Bits uint32 // value bits in the representation of T
	text string
}

type varKind int

const (
	vkLocal varKind = iota
	vkParam
	vkGlobal
)

type IdentExpr struct {
	exprBase
	Qual []string // namespace qualifiers (metal, mem_flags ...)
	Name string

	Var    *VarDecl // resolved variable
	Enum   uint32   // for enum constants
	isEnum bool
}

type UnaryExpr struct {
	exprBase
	Op string // + - ! ~ * & ++ --
	X  Expr
}

type PostfixExpr struct {
	exprBase
	Op string // ++ --
	X  Expr
}

type BinaryExpr struct {
	exprBase
	Op   string
	L, R Expr
}

type AssignExpr struct {
	exprBase
	Op   string // = += ...
	L, R Expr
}

type CondExpr struct {
	exprBase
	C, A, B Expr
}

type IndexExpr struct {
	exprBase
	X, I Expr
}

type MemberExpr struct {
	exprBase
	X     Expr
	Name  string
	Arrow bool

	Field   int   // struct field index
	Swizzle []int // vector swizzle indices (nil for struct member)
}

type CallExpr struct {
	exprBase
	Qual []string
	Name string
	Args []Expr

	Fn      *FuncDecl // resolved user function
	Builtin string    // resolved library function
}

// ConstructExpr is `T(args)` or `T{args}`.
type ConstructExpr struct {
	exprBase
	Ty    *Type
	Args  []Expr
	Brace bool
}

// CastExpr is static_cast<T>(x), (T)x, as_type<T>(x).
type CastExpr struct {
	exprBase
	How string // static | cstyle | as_type
	Ty  *Type
	X   Expr
}

// InitListExpr is a braced list without a type: `{}` / `{a, b}`.
type InitListExpr struct {
	exprBase
	Elems []Expr
}

// ---------------------------------------------------------------------------
// statements

type Stmt interface {
	stmtLine() int
}

type stmtBase struct{ line int }

func (s stmtBase) stmtLine() int { return s.line }

// VarDecl is a variable: local, parameter or module-scope constant.
type VarDecl struct {
	Name  string
	Ty    *Type  // declared type (may be KRef / KPtr)
	Init  Expr   // nil when there is no initialiser
	Space string // thread | threadgroup | constant | device
	Const bool
	Kind  varKind
	Attrs []attr
	line  int
	slot  int // index in the frame (locals, params)
	owner string
}

type attr struct {
	Name string
	Args []token
}

type DeclStmt struct {
	stmtBase
	Vars []*VarDecl
}
type ExprStmt struct {
	stmtBase
	X Expr
}
type IfStmt struct {
	stmtBase
	Cond       Expr
	Then, Else Stmt
}
type CaseLabel struct {
	stmtBase
	Default bool
	Val     Expr
	val     uint32
}
type SwitchStmt struct {
	stmtBase
	Tag  Expr
	Body []Stmt // flat, with *CaseLabel markers
}
type WhileStmt struct {
	stmtBase
	Cond Expr
	Body Stmt
}
type DoStmt struct {
	stmtBase
	Body Stmt
	Cond Expr
}
type ForStmt struct {
	stmtBase
	Init Stmt
	Cond Expr
	Post Expr
	Body Stmt
}
type BreakStmt struct{ stmtBase }
type ContinueStmt struct{ stmtBase }
type ReturnStmt struct {
	stmtBase
	X Expr
}
type BlockStmt struct {
	stmtBase
	List []Stmt
}
type EmptyStmt struct{ stmtBase }

// ---------------------------------------------------------------------------
// top level

// FuncDecl is a function definition.
type FuncDecl struct {
	Name    string
	Stage   string // "" | kernel | vertex | fragment | ...
	Ret     *Type
	Params  []*VarDecl
	Body    *BlockStmt
	TParams []string // template type parameters
	line    int

	start, end int // token range (for template re-instantiation)
	nslots     int

	unsupported error // why the body is outside the subset (nil if fine)
	checked     bool
	insts       map[string]*FuncDecl // template instantiations by type-argument key
	isInst      bool
	callees     []*FuncDecl
	usesBarrier bool
}

type globalDecl struct {
	v *VarDecl
}
