package mslx

import "strings"

// Reserved-word tables written from the C++14 standard ([lex.key], [lex.digraph])
// and the Metal Shading Language specification (address spaces, function
// qualifiers, built-in scalar / vector / matrix / packed / texture / sampler type
// names).

var cppKeywords = strings.Fields(`
alignas alignof asm auto bool break case catch char char16_t char32_t class const constexpr const_cast
continue decltype default delete do double dynamic_cast else enum explicit export extern false float for
friend goto if inline int long mutable namespace new noexcept nullptr operator private protected public
register reinterpret_cast return short signed sizeof static static_assert static_cast struct switch template
this thread_local throw true try typedef typeid typename union unsigned using virtual void volatile wchar_t while
and and_eq bitand bitor compl not not_eq or or_eq xor xor_eq
`)

var metalKeywords = strings.Fields(`
kernel vertex fragment device constant threadgroup thread threadgroup_imageblock ray_data object_data
visible intersection mesh object patch
half bfloat uint uchar ushort ulong size_t ptrdiff_t
metal simd main as_type
NULL
`)

var reservedSet = map[string]string{}

func init() {
	for _, k := range cppKeywords {
		reservedSet[k] = "C++14 keyword"
	}
	for _, k := range metalKeywords {
		if _, ok := reservedSet[k]; !ok {
			reservedSet[k] = "Metal keyword / reserved name"
		}
	}
	// A few of the Metal words above are only function qualifiers in newer language
	// versions and are ordinary identifiers otherwise; keep the conservative core.
	for _, k := range []string{"visible", "intersection", "mesh", "object", "patch", "NULL"} {
		delete(reservedSet, k)
	}
}

// reservedReason returns why name may not be declared, or "".
func reservedReason(name string) string {
	if r, ok := reservedSet[name]; ok {
		return r
	}
	if isBuiltinTypeName(name) {
		return "Metal built-in type name"
	}
	return ""
}

// metalFunctionNames is the set of metal:: library functions (MSL spec chapter
// "Metal Standard Library") used by the global-scope clash monitor.
var metalFunctionNames = map[string]bool{}

func init() {
	for _, n := range strings.Fields(`
abs absdiff addsat clamp clz ctz extract_bits hadd insert_bits mad24 madhi madsat max max3 median3 min min3 mul24 mulhi
popcount reverse_bits rhadd rotate subsat
mix saturate sign smoothstep step select
acos acosh asin asinh atan atan2 atanh ceil copysign cos cosh cospi divide exp exp10 exp2 fabs fdim floor fma fmax fmax3 fmedian3
fmin fmin3 fmod fract frexp ilogb ldexp log log10 log2 modf nextafter pow powr rint round rsqrt sin sincos sinh sinpi sqrt tan tanh tanpi trunc
cross distance distance_squared dot faceforward length length_squared normalize reflect refract
determinant transpose all any isfinite isinf isnan isnormal isordered isunordered not signbit
pack_float_to_snorm4x8 pack_float_to_unorm4x8 pack_float_to_snorm2x16 pack_float_to_unorm2x16
unpack_snorm4x8_to_float unpack_unorm4x8_to_float unpack_snorm2x16_to_float unpack_unorm2x16_to_float
atomic_load_explicit atomic_store_explicit atomic_exchange_explicit atomic_compare_exchange_weak_explicit
atomic_fetch_add_explicit atomic_fetch_sub_explicit atomic_fetch_and_explicit atomic_fetch_or_explicit atomic_fetch_xor_explicit
atomic_fetch_min_explicit atomic_fetch_max_explicit atomic_min_explicit atomic_max_explicit
threadgroup_barrier simdgroup_barrier discard_fragment dfdx dfdy fwidth
`) {
		metalFunctionNames[n] = true
	}
}
