package mslx

import "sort"

// AdversarialWords lists names a hostile author would pick for user identifiers: C++14 keywords and alternative
// tokens, Metal keywords, builtin type names and metal:: library function names. Used by the renaming check.
func AdversarialWords() []string {
	seen := map[string]bool{}
	for _, k := range cppKeywords {
		seen[k] = true
	}
	for _, k := range metalKeywords {
		seen[k] = true
	}
	for k := range builtinTypeNames {
		seen[k] = true
	}
	for k := range metalFunctionNames {
		seen[k] = true
	}
	out := make([]string, 0, len(seen))
	for k := range seen {
		out = append(out, k)
	}
	sort.Strings(out)
	return out
}
