package mslx

import (
	"strings"

	"verif/internal/xrt"
)

// evalDiscard evaluates an expression statement.
func (iv *inv) evalDiscard(f *frame, e Expr) {
	switch x := e.(type) {
	case *AssignExpr:
		iv.assign(f, x)
		return
	case *UnaryExpr:
		if x.Op == "++" || x.Op == "--" {
			iv.incdec(f, x.X, x.Op, x.line)
			return
		}
	case *PostfixExpr:
		iv.incdec(f, x.X, x.Op, x.line)
		return
	}
	iv.eval(f, e)
}

// evalInit evaluates e as an initialiser for an object of type to.
func (iv *inv) evalInit(f *frame, to *Type, e Expr) Value {
	if il, ok := e.(*InitListExpr); ok {
		return iv.buildList(f, to, il.Elems, il.line)
	}
	v := iv.eval(f, e)
	return iv.convert(f, v, to, e.base().line)
}

func (iv *inv) eval(f *frame, e Expr) Value {
	iv.m.step()
	switch x := e.(type) {
	case *LitExpr:
		return Value{T: x.T, S: []Scalar{{U: x.Bits}}}
	case *IdentExpr:
		if x.isEnum {
			return Value{T: x.T, S: []Scalar{{U: x.Enum}}}
		}
		if x.Var == nil {
			iv.unsupported(x.line, "unresolved identifier %s", x.Name)
		}
		if x.Var.Ty.Kind == KPtr {
			b := iv.binding(f, x.Var, x.line)
			if b.ptr == nil {
				iv.m.trap(xrt.TrapPoison, "%s: use of uninitialised pointer %s", iv.where(f, x.line), x.Name)
				iv.unsupported(x.line, "uninitialised pointer")
			}
			return Value{T: x.Var.Ty, Ptr: b.ptr}
		}
		return iv.load(f, iv.lval(f, e), x.line)
	case *UnaryExpr:
		return iv.unary(f, x)
	case *PostfixExpr:
		return iv.incdec(f, x.X, x.Op, x.line)
	case *BinaryExpr:
		return iv.binary(f, x)
	case *AssignExpr:
		r := iv.assign(f, x)
		return iv.load(f, r, x.line)
	case *CondExpr:
		var v Value
		var src Expr
		if iv.truth(f, x.C, "the condition of ?:") {
			v, src = iv.eval(f, x.A), x.A
		} else {
			v, src = iv.eval(f, x.B), x.B
		}
		if x.T == nil {
			iv.unsupported(x.line, "ill-typed ?:")
		}
		return iv.convert(f, v, x.T, src.base().line)
	case *IndexExpr:
		if x.X.base().LV {
			return iv.load(f, iv.lval(f, e), x.line)
		}
		bv := iv.eval(f, x.X)
		idx := iv.eval(f, x.I)
		return iv.indexValue(f, bv, idx, x.line)
	case *MemberExpr:
		if x.Arrow || x.X.base().LV {
			return iv.load(f, iv.lval(f, e), x.line)
		}
		bv := iv.eval(f, x.X)
		return iv.memberValue(f, bv, x)
	case *CallExpr:
		if x.Fn != nil {
			return iv.callUser(f, x.Fn, x)
		}
		if x.Builtin != "" {
			return iv.callBuiltin(f, x)
		}
		iv.unsupported(x.line, "unresolved call to %s", x.Name)
	case *ConstructExpr:
		return iv.construct(f, x)
	case *CastExpr:
		v := iv.eval(f, x.X)
		if x.How == "as_type" {
			return iv.asType(f, v, x.Ty, x.line)
		}
		return iv.explicitConvert(f, v, x.Ty, x.line)
	case *InitListExpr:
		if x.T != nil {
			return iv.buildList(f, x.T, x.Elems, x.line)
		}
	}
	iv.unsupported(e.base().line, "expression %T", e)
	return Value{}
}

func (iv *inv) binding(f *frame, v *VarDecl, line int) binding {
	if v.Kind == vkGlobal {
		reg := iv.m.globals[v]
		if reg == nil {
			iv.unsupported(line, "module constant %s is not available", v.Name)
		}
		return binding{ref: Ref{reg: reg, t: v.Ty}}
	}
	if v.slot >= len(f.slots) {
		iv.unsupported(line, "internal: slot of %s", v.Name)
	}
	b := f.slots[v.slot]
	if b.ref.reg == nil && b.ptr == nil && v.Ty.Kind != KPtr {
		iv.unsupported(line, "variable %s used before its declaration was executed", v.Name)
	}
	return b
}

// lval evaluates an lvalue expression to a location.
func (iv *inv) lval(f *frame, e Expr) Ref {
	switch x := e.(type) {
	case *IdentExpr:
		if x.Var == nil {
			iv.unsupported(x.line, "unresolved identifier %s", x.Name)
		}
		if x.Var.Ty.Kind == KPtr {
			iv.unsupported(x.line, "pointer variable used as an lvalue")
		}
		return iv.binding(f, x.Var, x.line).ref
	case *UnaryExpr:
		switch x.Op {
		case "*":
			pv := iv.eval(f, x.X)
			if pv.Ptr == nil {
				iv.unsupported(x.line, "dereference of a non-pointer")
			}
			return *pv.Ptr
		case "++", "--":
			iv.incdec(f, x.X, x.Op, x.line)
			return iv.lval(f, x.X)
		}
	case *AssignExpr:
		return iv.assign(f, x)
	case *CondExpr:
		if !x.LV {
			break
		}
		if iv.truth(f, x.C, "the condition of ?:") {
			return iv.lval(f, x.A)
		}
		return iv.lval(f, x.B)
	case *MemberExpr:
		var base Ref
		if x.Arrow {
			pv := iv.eval(f, x.X)
			if pv.Ptr == nil {
				iv.unsupported(x.line, "-> on a non-pointer")
			}
			base = *pv.Ptr
		} else {
			base = iv.lval(f, x.X)
		}
		return iv.memberRef(f, base, x)
	case *IndexExpr:
		base := iv.lval(f, x.X)
		idx := iv.eval(f, x.I)
		return iv.indexRef(f, base, idx, x.line)
	}
	iv.unsupported(e.base().line, "expression %T used as an lvalue", e)
	return Ref{}
}

func isPadArray(t *Type) bool {
	return t.Kind == KArray && (t.Elem.Kind == KChar || t.Elem.Kind == KUchar)
}

func (iv *inv) memberRef(f *frame, base Ref, x *MemberExpr) Ref {
	if base.swz != nil {
		if x.Swizzle == nil {
			iv.unsupported(x.line, "member of a swizzle")
		}
		idx := make([]int, len(x.Swizzle))
		for i, k := range x.Swizzle {
			idx[i] = base.swz[k]
		}
		if len(idx) == 1 {
			return Ref{reg: base.reg, off: base.off + idx[0]*base.t.Elem.size, t: base.t.Elem, oob: base.oob}
		}
		return Ref{reg: base.reg, off: base.off, t: base.t, oob: base.oob, swz: idx}
	}
	t := base.t
	if x.Swizzle != nil {
		if t.Kind != KVec {
			iv.unsupported(x.line, "swizzle on %s", t)
		}
		if len(x.Swizzle) == 1 {
			return Ref{reg: base.reg, off: base.off + x.Swizzle[0]*t.Elem.size, t: t.Elem, oob: base.oob}
		}
		return Ref{reg: base.reg, off: base.off, t: t, oob: base.oob, swz: x.Swizzle}
	}
	if t.Kind != KStruct || x.Field >= len(t.Fields) {
		iv.unsupported(x.line, "member %s of %s", x.Name, t)
	}
	fl := t.Fields[x.Field]
	r := Ref{reg: base.reg, off: base.off + fl.Offset, t: fl.T, oob: base.oob}
	// runtime-sized array idiom: trailing `T name[1]` member of the root struct of a buffer
	if base.reg.isBuffer && base.off == 0 && base.reg.rootT == t && fl.T.Kind == KArray && fl.T.N == 1 {
		trailing := true
		for _, g := range t.Fields[x.Field+1:] {
			if !isPadArray(g.T) {
				trailing = false
			}
		}
		r.flex = trailing
	}
	return r
}

func (iv *inv) indexInt(f *frame, idx Value, line int) int64 {
	if len(idx.S) != 1 {
		iv.unsupported(line, "index of type %s", idx.T)
	}
	iv.usePoison(f, idx, "an index", line)
	if idx.T.isSigned() {
		return int64(int32(idx.S[0].U))
	}
	return int64(idx.S[0].U)
}

func (iv *inv) indexRef(f *frame, base Ref, idx Value, line int) Ref {
	if base.swz != nil {
		iv.unsupported(line, "subscript of a swizzle")
	}
	i := iv.indexInt(f, idx, line)
	t := base.t
	var n, stride int
	var et *Type
	what := ""
	switch t.Kind {
	case KArray:
		n, stride, et = t.N, t.Elem.sizeOf(), t.Elem
		what = "array"
		if base.flex {
			n = 0
			if rem := len(base.reg.data) - base.off; rem > 0 && stride > 0 {
				n = rem / stride
			}
			what = "runtime-sized array"
		}
	case KVec:
		n, stride, et = t.N, t.Elem.size, t.Elem
		what = "vector"
	case KMat:
		et = vecOf(t.Elem, t.Rows)
		n, stride = t.N, et.size
		what = "matrix"
	default:
		iv.unsupported(line, "subscript of %s", t)
	}
	r := Ref{reg: base.reg, t: et, oob: base.oob}
	if i < 0 || i >= int64(n) {
		iv.m.trap(xrt.TrapOOB, "%s: index %d out of range for %s of %d elements in %s %q", iv.where(f, line), i, what, n, base.reg.space, base.reg.name)
		r.oob = true
		if i < 0 || n == 0 {
			i = 0
		} else {
			i = int64(n - 1)
		}
	}
	r.off = base.off + int(i)*stride
	return r
}

func (iv *inv) indexValue(f *frame, bv Value, idx Value, line int) Value {
	i := iv.indexInt(f, idx, line)
	t := bv.T
	clampIdx := func(n int, what string) int {
		if i < 0 || i >= int64(n) {
			iv.m.trap(xrt.TrapOOB, "%s: index %d out of range for %s of %d elements (temporary)", iv.where(f, line), i, what, n)
			if i < 0 || n == 0 {
				return 0
			}
			return n - 1
		}
		return int(i)
	}
	switch t.Kind {
	case KVec:
		k := clampIdx(t.N, "vector")
		return Value{T: t.Elem, S: []Scalar{bv.S[k]}}
	case KMat:
		k := clampIdx(t.N, "matrix")
		return Value{T: vecOf(t.Elem, t.Rows), S: append([]Scalar(nil), bv.S[k*t.Rows:(k+1)*t.Rows]...)}
	case KArray:
		k := clampIdx(t.N, "array")
		return decodeValue(bv.B, bv.BP, k*t.Elem.sizeOf(), t.Elem)
	}
	iv.unsupported(line, "subscript of %s", t)
	return Value{}
}

func (iv *inv) memberValue(f *frame, bv Value, x *MemberExpr) Value {
	t := bv.T
	if x.Swizzle != nil {
		if len(x.Swizzle) == 1 {
			return Value{T: t.Elem, S: []Scalar{bv.S[x.Swizzle[0]]}}
		}
		out := Value{T: vecOf(t.Elem, len(x.Swizzle)), S: make([]Scalar, len(x.Swizzle))}
		for i, k := range x.Swizzle {
			out.S[i] = bv.S[k]
		}
		return out
	}
	if t.Kind != KStruct || x.Field >= len(t.Fields) {
		iv.unsupported(x.line, "member %s of %s", x.Name, t)
	}
	fl := t.Fields[x.Field]
	return decodeValue(bv.B, bv.BP, fl.Offset, fl.T)
}

// ---------------------------------------------------------------------------
// assignment

func (iv *inv) assign(f *frame, x *AssignExpr) Ref {
	iv.cov("op." + x.Op)
	lt := x.L.base().T
	if lt == nil {
		iv.unsupported(x.line, "ill-typed assignment")
	}
	if x.Op == "=" {
		// C++14 leaves the order of evaluating the operands of = unspecified; naga never
		// depends on it (it hoists side effects). Evaluate the value first.
		val := iv.evalInit(f, lt, x.R)
		r := iv.lval(f, x.L)
		iv.store(f, r, val, x.line)
		return r
	}
	rv := iv.eval(f, x.R)
	r := iv.lval(f, x.L)
	cur := iv.load(f, r, x.line)
	op := strings.TrimSuffix(x.Op, "=")
	res := iv.binop(f, op, cur, rv, x.line)
	res = iv.convertLoose(f, res, lt, x.line)
	iv.store(f, r, res, x.line)
	return r
}

func (iv *inv) incdec(f *frame, operand Expr, op string, line int) Value {
	iv.cov("op." + op)
	r := iv.lval(f, operand)
	cur := iv.load(f, r, line)
	one := Value{T: tInt, S: []Scalar{{U: 1}}}
	bop := "+"
	if op == "--" {
		bop = "-"
	}
	res := iv.binop(f, bop, cur, one, line)
	res = iv.convertLoose(f, res, cur.T, line)
	iv.store(f, r, res, line)
	return cur
}

// ---------------------------------------------------------------------------
// construction

func (iv *inv) buildList(f *frame, to *Type, elems []Expr, line int) Value {
	if to.Kind == KRef {
		to = to.Elem
	}
	if len(elems) == 0 {
		if to.Kind == KAtomic {
			return Value{T: to.Elem, S: make([]Scalar, 1)}
		}
		return zeroValue(to)
	}
	switch {
	case to.isScalar():
		return iv.evalInit(f, to, elems[0])
	case to.isVec():
		vals := make([]Value, len(elems))
		for i, e := range elems {
			vals[i] = iv.eval(f, e)
		}
		return iv.vectorFrom(f, to.unpacked(), vals, line)
	case to.isMat():
		vals := make([]Value, len(elems))
		for i, e := range elems {
			vals[i] = iv.eval(f, e)
		}
		return iv.matrixFrom(f, to, vals, line)
	case to.Kind == KArray || to.Kind == KStruct:
		if to.Kind == KStruct && len(elems) == 1 {
			if _, isList := elems[0].(*InitListExpr); !isList {
				if et := elems[0].base().T; et != nil && sameType(et, to) {
					return iv.eval(f, elems[0])
				}
			}
		}
		out := zeroValue(to)
		cur := 0
		iv.aggFill(f, to, elems, &cur, &out, 0)
		return out
	}
	iv.unsupported(line, "list-initialisation of %s", to)
	return Value{}
}

// aggFill mirrors checker.aggInit: it fills the members of an aggregate from a flat
// element list with brace elision.
func (iv *inv) aggFill(f *frame, to *Type, elems []Expr, cur *int, out *Value, off int) {
	n := to.N
	if to.Kind == KStruct {
		n = len(to.Fields)
	}
	es := 0
	if to.Kind == KArray {
		es = to.Elem.sizeOf()
	}
	for i := 0; i < n && *cur < len(elems); i++ {
		mt, moff := to.Elem, off+i*es
		if to.Kind == KStruct {
			mt, moff = to.Fields[i].T, off+to.Fields[i].Offset
		}
		e := elems[*cur]
		if il, ok := e.(*InitListExpr); ok {
			iv.putInto(out, moff, mt, iv.buildList(f, mt, il.Elems, il.line))
			*cur++
			continue
		}
		if mt.Kind == KArray || mt.Kind == KStruct {
			et := e.base().T
			if et == nil || sameType(et, mt) || (et.Kind == KStruct && et.Conv != nil) {
				iv.putInto(out, moff, mt, iv.evalInit(f, mt, e))
				*cur++
				continue
			}
			iv.aggFill(f, mt, elems, cur, out, moff)
			continue
		}
		iv.putInto(out, moff, mt, iv.evalInit(f, mt, e))
		*cur++
	}
}

// putInto writes a member / element value into an aggregate value under construction.
func (iv *inv) putInto(agg *Value, off int, t *Type, v Value) {
	poisoned := v.anyPoison()
	if poisoned && agg.BP == nil {
		agg.BP = make([]bool, len(agg.B))
	}
	encodeValue(agg.B, agg.BP, off, t, v)
}

func (iv *inv) construct(f *frame, x *ConstructExpr) Value {
	to := x.Ty
	iv.cov("ctor." + to.String())
	if x.Brace {
		return iv.buildList(f, to, x.Args, x.line)
	}
	switch {
	case to.isScalar():
		if len(x.Args) == 0 {
			return zeroValue(to)
		}
		v := iv.eval(f, x.Args[0])
		return iv.explicitConvert(f, v, to, x.line)
	case to.isVec():
		vals := make([]Value, len(x.Args))
		for i, a := range x.Args {
			vals[i] = iv.eval(f, a)
		}
		return iv.vectorFrom(f, to.unpacked(), vals, x.line)
	case to.isMat():
		vals := make([]Value, len(x.Args))
		for i, a := range x.Args {
			vals[i] = iv.eval(f, a)
		}
		return iv.matrixFrom(f, to, vals, x.line)
	case to.Kind == KStruct || to.Kind == KArray:
		if len(x.Args) == 0 {
			return zeroValue(to)
		}
		if len(x.Args) == 1 {
			v := iv.eval(f, x.Args[0])
			if sameType(v.T, to) {
				return v
			}
		}
	}
	iv.unsupported(x.line, "construction of %s from %d arguments", to, len(x.Args))
	return Value{}
}

// vectorFrom implements the vector constructors: splat, same-size conversion,
// and concatenation of scalars / vectors.
func (iv *inv) vectorFrom(f *frame, to *Type, vals []Value, line int) Value {
	if len(vals) == 0 {
		return zeroValue(to)
	}
	if len(vals) == 1 && vals[0].T.Kind == KStruct && vals[0].T.Conv != nil {
		return iv.convOp(vals[0].T, to, line)
	}
	out := Value{T: to, S: make([]Scalar, 0, to.N)}
	if len(vals) == 1 && vals[0].T.isScalar() {
		s := iv.convScalar(f, vals[0].S[0], vals[0].T, to.Elem, line)
		for i := 0; i < to.N; i++ {
			out.S = append(out.S, s)
		}
		return out
	}
	for _, v := range vals {
		if !(v.T.isScalar() || v.T.isVec()) {
			iv.unsupported(line, "vector constructor argument of type %s", v.T)
		}
		st := v.T.scalarOf()
		for _, s := range v.S {
			out.S = append(out.S, iv.convScalar(f, s, st, to.Elem, line))
		}
	}
	if len(out.S) != to.N {
		iv.unsupported(line, "vector constructor for %s given %d components", to, len(out.S))
	}
	return out
}

func (iv *inv) matrixFrom(f *frame, to *Type, vals []Value, line int) Value {
	out := zeroValue(to)
	switch {
	case len(vals) == 0:
		return out
	case len(vals) == 1 && vals[0].T.isScalar():
		s := iv.convScalar(f, vals[0].S[0], vals[0].T, to.Elem, line)
		for c := 0; c < to.N; c++ {
			if c < to.Rows {
				out.S[c*to.Rows+c] = s
			}
		}
		return out
	case len(vals) == 1 && vals[0].T.isMat() && sameType(vals[0].T, to):
		return vals[0]
	}
	k := 0
	for _, v := range vals {
		if !(v.T.isScalar() || v.T.isVec()) {
			iv.unsupported(line, "matrix constructor argument of type %s", v.T)
		}
		st := v.T.scalarOf()
		for _, s := range v.S {
			if k < len(out.S) {
				out.S[k] = iv.convScalar(f, s, st, to.Elem, line)
			}
			k++
		}
	}
	if k != len(out.S) {
		iv.unsupported(line, "matrix constructor for %s given %d components", to, k)
	}
	return out
}
