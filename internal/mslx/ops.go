package mslx

import (
	"math"

	"verif/internal/xrt"
)

// ---------------------------------------------------------------------------
// conversions

// convScalar converts one scalar between scalar types (C++ standard conversions;
// float->integer out of range is undefined => TrapF2I).
func (iv *inv) convScalar(f *frame, s Scalar, from, to *Type, line int) Scalar {
	if from.Kind == to.Kind {
		return s
	}
	if from.Kind == KEnum {
		from = tInt
	}
	out := Scalar{P: s.P}
	// source as float or integer
	switch {
	case to.Kind == KBool:
		switch from.Kind {
		case KFloat:
			if f32(s) != 0 {
				out.U = 1
			}
		case KHalf:
			if s.U&0x7fff != 0 {
				out.U = 1
			}
		default:
			if s.U != 0 {
				out.U = 1
			}
		}
		return out
	case to.isInteger():
		var u uint32
		switch from.Kind {
		case KFloat, KHalf:
			fv := f32(s)
			if from.Kind == KHalf {
				fv = halfToF32(uint16(s.U))
			}
			u = iv.f2i(f, fv, to, s.P, line)
		default:
			u = s.U // bool 0/1, sign/zero-extended small ints, int<->uint keep bits
		}
		switch to.Kind {
		case KChar:
			u = uint32(int32(int8(u)))
		case KUchar:
			u = uint32(uint8(u))
		case KShort:
			u = uint32(int32(int16(u)))
		case KUshort:
			u = uint32(uint16(u))
		}
		out.U = u
		return out
	case to.Kind == KFloat || to.Kind == KHalf:
		var fv float32
		switch from.Kind {
		case KFloat:
			fv = f32(s)
		case KHalf:
			fv = halfToF32(uint16(s.U))
		case KUint, KUchar, KUshort, KBool:
			fv = float32(s.U)
		default:
			fv = float32(int32(s.U))
		}
		if to.Kind == KHalf {
			out.U = uint32(f32ToHalf(fv))
		} else {
			out.U = fbits(fv)
		}
		return out
	}
	iv.unsupported(line, "conversion from %s to %s", from, to)
	return out
}

// f2i converts float to an integer type, truncating toward zero. C++14
// [conv.fpint]: "The behavior is undefined if the truncated value cannot be
// represented in the destination type."
func (iv *inv) f2i(f *frame, fv float32, to *Type, poison bool, line int) uint32 {
	t := math.Trunc(float64(fv))
	var lo, hi float64
	switch to.Kind {
	case KInt:
		lo, hi = -2147483648, 2147483647
	case KUint:
		lo, hi = 0, 4294967295
	case KChar:
		lo, hi = -128, 127
	case KUchar:
		lo, hi = 0, 255
	case KShort:
		lo, hi = -32768, 32767
	case KUshort:
		lo, hi = 0, 65535
	}
	if t != t || t < lo || t > hi {
		if !poison {
			iv.m.trap(xrt.TrapF2I, "%s: conversion of %v to %s is out of range (undefined behaviour)", iv.where(f, line), fv, to)
		}
		switch {
		case t != t:
			return 0
		case t < lo:
			t = lo
		default:
			t = hi
		}
	}
	if to.isSigned() {
		return uint32(int32(int64(t)))
	}
	return uint32(int64(t))
}

// convert performs an implicit conversion of v to type `to`.
func (iv *inv) convert(f *frame, v Value, to *Type, line int) Value {
	if to.Kind == KRef {
		to = to.Elem
	}
	if v.T == nil {
		iv.unsupported(line, "conversion of an untyped value")
	}
	if sameUnpacked(v.T, to) {
		v.T = to.unpacked()
		return v
	}
	if to.Kind == KAtomic && sameType(v.T, to.Elem) {
		return v
	}
	if v.T.Kind == KStruct && v.T.Conv != nil {
		return iv.convOp(v.T, to, line)
	}
	switch {
	case to.isScalar() && (v.T.isScalar() || v.T.Kind == KEnum):
		return Value{T: to, S: []Scalar{iv.convScalar(f, v.S[0], v.T, to, line)}}
	case to.isVec() && v.T.isScalar():
		s := iv.convScalar(f, v.S[0], v.T, to.Elem, line)
		out := Value{T: to.unpacked(), S: make([]Scalar, to.N)}
		for i := range out.S {
			out.S[i] = s
		}
		return out
	case to.Kind == KPtr && v.T.Kind == KPtr:
		return Value{T: to, Ptr: v.Ptr}
	case to.Kind == KEnum && v.T.Kind == KEnum:
		return v
	}
	iv.unsupported(line, "implicit conversion from %s to %s", v.T, to)
	return Value{}
}

func (iv *inv) convertLoose(f *frame, v Value, to *Type, line int) Value {
	if to.isVec() && v.T.isVec() && v.T.N == to.N && !sameUnpacked(v.T, to) {
		return iv.explicitConvert(f, v, to, line)
	}
	return iv.convert(f, v, to, line)
}

// explicitConvert implements static_cast / C-style / functional casts.
func (iv *inv) explicitConvert(f *frame, v Value, to *Type, line int) Value {
	if to.Kind == KVoid {
		return Value{T: tVoid}
	}
	if to.isVec() && v.T.isVec() && v.T.N == to.N {
		out := Value{T: to.unpacked(), S: make([]Scalar, to.N)}
		for i := range out.S {
			out.S[i] = iv.convScalar(f, v.S[i], v.T.Elem, to.Elem, line)
		}
		return out
	}
	return iv.convert(f, v, to, line)
}

// asType reinterprets the bits of v as type to (same total size).
func (iv *inv) asType(f *frame, v Value, to *Type, line int) Value {
	if !(v.T.isScalar() || v.T.isVec()) || !(to.isScalar() || to.isVec()) {
		iv.unsupported(line, "as_type from %s to %s", v.T, to)
	}
	n := v.T.sizeOf()
	if n != to.sizeOf() {
		iv.unsupported(line, "as_type between %s and %s (sizes differ)", v.T, to)
	}
	buf := make([]byte, n)
	bp := make([]bool, n)
	encodeValue(buf, bp, 0, v.T, v)
	out := decodeValue(buf, bp, 0, to)
	// 3-component vectors occupy 4 slots; the padding lane is not poison
	return out
}

// ---------------------------------------------------------------------------
// unary

func (iv *inv) unary(f *frame, x *UnaryExpr) Value {
	switch x.Op {
	case "&":
		r := iv.lval(f, x.X)
		if x.T == nil {
			iv.unsupported(x.line, "ill-typed &")
		}
		return Value{T: x.T, Ptr: &r}
	case "*":
		return iv.load(f, iv.lval(f, x), x.line)
	case "++", "--":
		iv.incdec(f, x.X, x.Op, x.line)
		return iv.load(f, iv.lval(f, x.X), x.line)
	}
	v := iv.eval(f, x.X)
	t := v.T
	if !t.isNumeric() {
		iv.unsupported(x.line, "unary %s on %s", x.Op, t)
	}
	iv.cov("op.u" + x.Op + "." + t.Name)
	st := t.scalarOf()
	if t.isScalar() && (x.Op == "-" || x.Op == "+" || x.Op == "~") && st.Kind != KFloat && st.Kind != KHalf {
		pt := promote(st)
		if pt != st {
			v = iv.convert(f, v, pt, x.line)
			t, st = pt, pt
		}
	}
	out := Value{T: t, S: make([]Scalar, len(v.S))}
	switch x.Op {
	case "+":
		return v
	case "-":
		for i, s := range v.S {
			switch st.Kind {
			case KFloat:
				out.S[i] = Scalar{U: s.U ^ 0x80000000, P: s.P}
			case KHalf:
				out.S[i] = Scalar{U: s.U ^ 0x8000, P: s.P}
			case KInt:
				if int32(s.U) == math.MinInt32 && !s.P {
					iv.m.trap(xrt.TrapSignedOvf, "%s: signed overflow in -(%d)", iv.where(f, x.line), int32(s.U))
				}
				out.S[i] = Scalar{U: -s.U, P: s.P}
			case KUint:
				out.S[i] = Scalar{U: -s.U, P: s.P}
			default:
				iv.unsupported(x.line, "unary - on %s", t)
			}
		}
		return out
	case "~":
		for i, s := range v.S {
			out.S[i] = Scalar{U: ^s.U, P: s.P}
		}
		if st.Kind != KInt && st.Kind != KUint {
			iv.unsupported(x.line, "~ on %s", t)
		}
		return out
	case "!":
		out.T = t.withElem(tBool)
		if t.isMat() {
			iv.unsupported(x.line, "! on matrix")
		}
		for i, s := range v.S {
			b := iv.toBool(Value{T: st, S: []Scalar{s}})
			out.S[i] = Scalar{P: s.P}
			if !b {
				out.S[i].U = 1
			}
		}
		return out
	}
	iv.unsupported(x.line, "unary %s", x.Op)
	return Value{}
}

// ---------------------------------------------------------------------------
// binary

func (iv *inv) binary(f *frame, x *BinaryExpr) Value {
	lt := x.L.base().T
	if (x.Op == "&&" || x.Op == "||") && lt != nil && lt.isScalar() {
		// scalar logical operators short-circuit
		iv.cov("op." + x.Op + ".bool")
		l := iv.truth(f, x.L, "an operand of "+x.Op)
		if x.Op == "&&" && !l {
			return boolValue(false)
		}
		if x.Op == "||" && l {
			return boolValue(true)
		}
		rv := iv.eval(f, x.R)
		if !rv.T.isScalar() {
			iv.unsupported(x.line, "%s mixing scalar and vector", x.Op)
		}
		iv.usePoison(f, rv, "an operand of "+x.Op, x.line)
		return boolValue(iv.toBool(rv))
	}
	l := iv.eval(f, x.L)
	r := iv.eval(f, x.R)
	return iv.binop(f, x.Op, l, r, x.line)
}

func isCmpOp(op string) bool {
	switch op {
	case "==", "!=", "<", ">", "<=", ">=":
		return true
	}
	return false
}

func (iv *inv) binop(f *frame, op string, l, r Value, line int) Value {
	lt, rt := l.T, r.T
	if lt.Kind == KEnum && rt.Kind == KEnum && op == "|" {
		return Value{T: lt, S: []Scalar{{U: l.S[0].U | r.S[0].U}}}
	}
	if !lt.isNumeric() || !rt.isNumeric() {
		iv.unsupported(line, "operator %s on %s and %s", op, lt, rt)
	}
	if lt.isMat() || rt.isMat() {
		return iv.matOp(f, op, l, r, line)
	}
	isShift := op == "<<" || op == ">>"
	// operand conversion
	var ct *Type // common scalar type of the operation
	switch {
	case lt.isVec() && rt.isVec():
		if isShift {
			ct = lt.Elem
		} else {
			if !sameType(lt, rt) {
				iv.unsupported(line, "operator %s on %s and %s", op, lt, rt)
			}
			ct = lt.Elem
		}
	case lt.isVec():
		ct = lt.Elem
		if !isShift {
			r = iv.convert(f, r, lt, line)
		} else {
			r = iv.convert(f, r, vecOf(promote(rt), lt.N), line)
		}
	case rt.isVec():
		if isShift {
			iv.unsupported(line, "scalar shifted by vector")
		}
		ct = rt.Elem
		l = iv.convert(f, l, rt, line)
	default:
		if isShift {
			ct = promote(lt)
			l = iv.convert(f, l, ct, line)
			r = iv.convert(f, r, promote(rt), line)
		} else if op == "&&" || op == "||" {
			ct = tBool
			l = iv.convert(f, l, tBool, line)
			r = iv.convert(f, r, tBool, line)
		} else {
			ct = arith(lt, rt)
			l = iv.convert(f, l, ct, line)
			r = iv.convert(f, r, ct, line)
		}
	}
	if ct.Kind == KHalf {
		iv.unsupported(line, "half arithmetic")
	}
	if ct.Kind != KBool && ct.Kind != KInt && ct.Kind != KUint && ct.Kind != KFloat {
		iv.unsupported(line, "operator %s on %s", op, ct)
	}
	iv.cov("op." + op + "." + l.T.Name)
	n := len(l.S)
	if len(r.S) != n {
		iv.unsupported(line, "operator %s on %s and %s", op, l.T, r.T)
	}
	resElem := ct
	if isCmpOp(op) || op == "&&" || op == "||" {
		resElem = tBool
	}
	out := Value{T: l.T.withElem(resElem), S: make([]Scalar, n)}
	rElem := r.T.scalarOf()
	for i := 0; i < n; i++ {
		out.S[i] = iv.scalarBin(f, op, ct, rElem, l.S[i], r.S[i], line)
	}
	return out
}

func b2u(b bool) uint32 {
	if b {
		return 1
	}
	return 0
}

// scalarBin computes one component. k is the operation type; rk the type of the
// right operand (differs from k only for shifts).
func (iv *inv) scalarBin(f *frame, op string, k, rk *Type, a, b Scalar, line int) Scalar {
	p := a.P || b.P
	switch k.Kind {
	case KFloat:
		x, y := f32(a), f32(b)
		switch op {
		case "+":
			return mkf(float32(x+y), p)
		case "-":
			return mkf(float32(x-y), p)
		case "*":
			return mkf(float32(x*y), p)
		case "/":
			return mkf(float32(x/y), p)
		case "==":
			return Scalar{U: b2u(x == y), P: p}
		case "!=":
			return Scalar{U: b2u(x != y), P: p}
		case "<":
			return Scalar{U: b2u(x < y), P: p}
		case ">":
			return Scalar{U: b2u(x > y), P: p}
		case "<=":
			return Scalar{U: b2u(x <= y), P: p}
		case ">=":
			return Scalar{U: b2u(x >= y), P: p}
		}
		iv.unsupported(line, "operator %s on float", op)
	case KBool:
		x, y := a.U != 0, b.U != 0
		switch op {
		case "==":
			return Scalar{U: b2u(x == y), P: p}
		case "!=":
			return Scalar{U: b2u(x != y), P: p}
		case "&", "&&":
			return Scalar{U: b2u(x && y), P: p}
		case "|", "||":
			return Scalar{U: b2u(x || y), P: p}
		case "^":
			return Scalar{U: b2u(x != y), P: p}
		}
		iv.unsupported(line, "operator %s on bool vector", op)
	case KInt:
		x, y := int32(a.U), int32(b.U)
		switch op {
		case "+":
			s := int64(x) + int64(y)
			if (s > math.MaxInt32 || s < math.MinInt32) && !p {
				iv.m.trap(xrt.TrapSignedOvf, "%s: signed overflow in %d + %d", iv.where(f, line), x, y)
			}
			return Scalar{U: uint32(s), P: p}
		case "-":
			s := int64(x) - int64(y)
			if (s > math.MaxInt32 || s < math.MinInt32) && !p {
				iv.m.trap(xrt.TrapSignedOvf, "%s: signed overflow in %d - %d", iv.where(f, line), x, y)
			}
			return Scalar{U: uint32(s), P: p}
		case "*":
			s := int64(x) * int64(y)
			if (s > math.MaxInt32 || s < math.MinInt32) && !p {
				iv.m.trap(xrt.TrapSignedOvf, "%s: signed overflow in %d * %d", iv.where(f, line), x, y)
			}
			return Scalar{U: uint32(s), P: p}
		case "/", "%":
			if y == 0 {
				if !p {
					iv.m.trap(xrt.TrapDivZero, "%s: %d %s 0", iv.where(f, line), x, op)
				}
				return Scalar{U: 0, P: p}
			}
			if x == math.MinInt32 && y == -1 {
				if !p {
					iv.m.trap(xrt.TrapDivOvf, "%s: %d %s -1", iv.where(f, line), x, op)
				}
				if op == "/" {
					return Scalar{U: uint32(x), P: p}
				}
				return Scalar{U: 0, P: p}
			}
			if op == "/" {
				return Scalar{U: uint32(x / y), P: p}
			}
			return Scalar{U: uint32(x % y), P: p}
		case "&":
			return Scalar{U: a.U & b.U, P: p}
		case "|":
			return Scalar{U: a.U | b.U, P: p}
		case "^":
			return Scalar{U: a.U ^ b.U, P: p}
		case "<<":
			// MSL: the shift count is taken modulo the bit width
			return Scalar{U: a.U << (b.U & 31), P: p}
		case ">>":
			return Scalar{U: uint32(x >> (b.U & 31)), P: p}
		case "==":
			return Scalar{U: b2u(x == y), P: p}
		case "!=":
			return Scalar{U: b2u(x != y), P: p}
		case "<":
			return Scalar{U: b2u(x < y), P: p}
		case ">":
			return Scalar{U: b2u(x > y), P: p}
		case "<=":
			return Scalar{U: b2u(x <= y), P: p}
		case ">=":
			return Scalar{U: b2u(x >= y), P: p}
		case "&&":
			return Scalar{U: b2u(x != 0 && y != 0), P: p}
		case "||":
			return Scalar{U: b2u(x != 0 || y != 0), P: p}
		}
	case KUint:
		x, y := a.U, b.U
		switch op {
		case "+":
			return Scalar{U: x + y, P: p}
		case "-":
			return Scalar{U: x - y, P: p}
		case "*":
			return Scalar{U: x * y, P: p}
		case "/", "%":
			if y == 0 {
				if !p {
					iv.m.trap(xrt.TrapDivZero, "%s: %du %s 0u", iv.where(f, line), x, op)
				}
				return Scalar{U: 0, P: p}
			}
			if op == "/" {
				return Scalar{U: x / y, P: p}
			}
			return Scalar{U: x % y, P: p}
		case "&":
			return Scalar{U: x & y, P: p}
		case "|":
			return Scalar{U: x | y, P: p}
		case "^":
			return Scalar{U: x ^ y, P: p}
		case "<<":
			return Scalar{U: x << (y & 31), P: p}
		case ">>":
			return Scalar{U: x >> (y & 31), P: p}
		case "==":
			return Scalar{U: b2u(x == y), P: p}
		case "!=":
			return Scalar{U: b2u(x != y), P: p}
		case "<":
			return Scalar{U: b2u(x < y), P: p}
		case ">":
			return Scalar{U: b2u(x > y), P: p}
		case "<=":
			return Scalar{U: b2u(x <= y), P: p}
		case ">=":
			return Scalar{U: b2u(x >= y), P: p}
		case "&&":
			return Scalar{U: b2u(x != 0 && y != 0), P: p}
		case "||":
			return Scalar{U: b2u(x != 0 || y != 0), P: p}
		}
	}
	iv.unsupported(line, "operator %s on %s", op, k)
	return Scalar{}
}

// matOp implements the matrix operators with individually rounded float32 steps.
func (iv *inv) matOp(f *frame, op string, l, r Value, line int) Value {
	lt, rt := l.T, r.T
	if lt.scalarOf().Kind != KFloat || rt.scalarOf().Kind != KFloat {
		iv.unsupported(line, "matrix operator %s on %s and %s", op, lt, rt)
	}
	iv.cov("op." + op + "." + lt.Name + "." + rt.Name)
	at := func(m Value, c, row int) Scalar { return m.S[c*m.T.Rows+row] }
	mac := func(acc Scalar, first bool, a, b Scalar) Scalar {
		prod := mkf(float32(f32(a)*f32(b)), a.P || b.P)
		if first {
			return prod
		}
		return mkf(float32(f32(acc)+f32(prod)), acc.P || prod.P)
	}
	switch {
	case op == "*" && lt.isMat() && rt.isMat():
		if lt.N != rt.Rows {
			iv.unsupported(line, "matrix shapes %s * %s", lt, rt)
		}
		out := zeroValue(matOf(tFloat, rt.N, lt.Rows))
		for c := 0; c < rt.N; c++ {
			for row := 0; row < lt.Rows; row++ {
				var acc Scalar
				for k := 0; k < lt.N; k++ {
					acc = mac(acc, k == 0, at(l, k, row), at(r, c, k))
				}
				out.S[c*lt.Rows+row] = acc
			}
		}
		return out
	case op == "*" && lt.isMat() && rt.isVec():
		if rt.N != lt.N {
			iv.unsupported(line, "shapes %s * %s", lt, rt)
		}
		out := zeroValue(vecOf(tFloat, lt.Rows))
		for row := 0; row < lt.Rows; row++ {
			var acc Scalar
			for k := 0; k < lt.N; k++ {
				acc = mac(acc, k == 0, at(l, k, row), r.S[k])
			}
			out.S[row] = acc
		}
		return out
	case op == "*" && lt.isVec() && rt.isMat():
		if lt.N != rt.Rows {
			iv.unsupported(line, "shapes %s * %s", lt, rt)
		}
		out := zeroValue(vecOf(tFloat, rt.N))
		for c := 0; c < rt.N; c++ {
			var acc Scalar
			for k := 0; k < rt.Rows; k++ {
				acc = mac(acc, k == 0, l.S[k], at(r, c, k))
			}
			out.S[c] = acc
		}
		return out
	case op == "*" && lt.isMat() && rt.isScalar():
		s := iv.convScalar(f, r.S[0], rt, tFloat, line)
		out := zeroValue(lt)
		for i := range out.S {
			out.S[i] = mkf(float32(f32(l.S[i])*f32(s)), l.S[i].P || s.P)
		}
		return out
	case op == "*" && lt.isScalar() && rt.isMat():
		s := iv.convScalar(f, l.S[0], lt, tFloat, line)
		out := zeroValue(rt)
		for i := range out.S {
			out.S[i] = mkf(float32(f32(s)*f32(r.S[i])), r.S[i].P || s.P)
		}
		return out
	case (op == "+" || op == "-") && sameType(lt, rt):
		out := zeroValue(lt)
		for i := range out.S {
			if op == "+" {
				out.S[i] = mkf(float32(f32(l.S[i])+f32(r.S[i])), l.S[i].P || r.S[i].P)
			} else {
				out.S[i] = mkf(float32(f32(l.S[i])-f32(r.S[i])), l.S[i].P || r.S[i].P)
			}
		}
		return out
	}
	iv.unsupported(line, "matrix operator %s on %s and %s", op, lt, rt)
	return Value{}
}
