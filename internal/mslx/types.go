// Package mslx is a front-end (lexer, parser, static checker) and a trapping
// interpreter for the subset of the Metal Shading Language that naga's MSL
// backend emits for compute shaders. Semantics follow the Metal Shading
// Language specification / C++14; naga's output is only used as a syntax
// calibration set.
package mslx

import (
	"fmt"
	"strings"
)

// Kind classifies a Type.
type Kind int

const (
	KVoid Kind = iota
	KBool
	KChar  // 8-bit signed (only used for padding members)
	KUchar // 8-bit unsigned
	KShort
	KUshort
	KInt
	KUint
	KHalf
	KFloat
	KVec
	KMat
	KArray
	KStruct
	KAtomic
	KPtr
	KRef
	KTParam      // template type parameter (placeholder inside template patterns)
	KEnum        // metal::memory_order / metal::mem_flags values
	KUnsupported // a type the language has but this engine does not model (long, texture2d, ...)
)

// Field is a struct member.
type Field struct {
	Name   string
	T      *Type
	Offset int
	Line   int
}

// ConvOp is a `template<typename T> operator T() && { body }` member.
type ConvOp struct {
	TParam     string
	start, end int // token range of the body block (including braces)
	inst       map[*Type]*FuncDecl
	instKey    map[string]*FuncDecl
}

// Type is an MSL type. Scalar, vector and matrix types are interned; use sameType
// to compare.
type Type struct {
	Kind   Kind
	Name   string // spelling used in messages
	Elem   *Type  // vec: scalar ; mat: scalar ; array/atomic/ptr/ref: element / pointee
	N      int    // vec: components ; mat: columns ; array: length
	Rows   int    // mat: rows
	Packed bool   // packed_ vector
	Space  string // ptr/ref: device | constant | thread | threadgroup
	Const  bool   // ptr/ref: pointee is const
	RRef   bool   // ref: rvalue reference (&&)
	Fields []Field
	Conv   *ConvOp // struct: template conversion operator, if any
	Why    string  // KUnsupported: reason
	Alias  string  // typedef name of an array type (for Resource.TypeName)

	size, align int
	laidOut     bool
}

func (t *Type) String() string {
	if t == nil {
		return "<error-type>"
	}
	switch t.Kind {
	case KPtr:
		c := ""
		if t.Const {
			c = " const"
		}
		return t.Space + " " + t.Elem.String() + c + "*"
	case KRef:
		c := ""
		if t.Const {
			c = " const"
		}
		return t.Space + " " + t.Elem.String() + c + "&"
	case KArray:
		return fmt.Sprintf("%s[%d]", t.Elem.String(), t.N)
	}
	return t.Name
}

var (
	tVoid   = &Type{Kind: KVoid, Name: "void"}
	tBool   = &Type{Kind: KBool, Name: "bool", size: 1, align: 1, laidOut: true}
	tChar   = &Type{Kind: KChar, Name: "char", size: 1, align: 1, laidOut: true}
	tUchar  = &Type{Kind: KUchar, Name: "uchar", size: 1, align: 1, laidOut: true}
	tShort  = &Type{Kind: KShort, Name: "short", size: 2, align: 2, laidOut: true}
	tUshort = &Type{Kind: KUshort, Name: "ushort", size: 2, align: 2, laidOut: true}
	tInt    = &Type{Kind: KInt, Name: "int", size: 4, align: 4, laidOut: true}
	tUint   = &Type{Kind: KUint, Name: "uint", size: 4, align: 4, laidOut: true}
	tHalf   = &Type{Kind: KHalf, Name: "half", size: 2, align: 2, laidOut: true}
	tFloat  = &Type{Kind: KFloat, Name: "float", size: 4, align: 4, laidOut: true}

	tAtomicInt  = &Type{Kind: KAtomic, Name: "atomic_int", Elem: tInt, size: 4, align: 4, laidOut: true}
	tAtomicUint = &Type{Kind: KAtomic, Name: "atomic_uint", Elem: tUint, size: 4, align: 4, laidOut: true}

	tMemOrder = &Type{Kind: KEnum, Name: "memory_order", size: 4, align: 4, laidOut: true}
	tMemFlags = &Type{Kind: KEnum, Name: "mem_flags", size: 4, align: 4, laidOut: true}
)

var vecTypes = map[string]*Type{}
var matTypes = map[string]*Type{}

func vecOf(elem *Type, n int) *Type { return vecOfP(elem, n, false) }

func vecOfP(elem *Type, n int, packed bool) *Type {
	name := fmt.Sprintf("%s%d", elem.Name, n)
	if packed {
		name = "packed_" + name
	}
	if t, ok := vecTypes[name]; ok {
		return t
	}
	t := &Type{Kind: KVec, Name: name, Elem: elem, N: n, Packed: packed}
	es := elem.size
	if packed {
		t.size = es * n
		t.align = es
	} else {
		m := n
		if m == 3 {
			m = 4
		}
		t.size = es * m
		t.align = es * m
	}
	t.laidOut = true
	vecTypes[name] = t
	return t
}

func matOf(elem *Type, cols, rows int) *Type {
	name := fmt.Sprintf("%s%dx%d", elem.Name, cols, rows)
	if t, ok := matTypes[name]; ok {
		return t
	}
	col := vecOf(elem, rows)
	t := &Type{Kind: KMat, Name: name, Elem: elem, N: cols, Rows: rows}
	t.size = col.size * cols
	t.align = col.align
	t.laidOut = true
	matTypes[name] = t
	return t
}

func init() {
	// Pre-intern every vector / matrix type so that the tables are read-only afterwards
	// (Programs may be used from several goroutines).
	for _, e := range []*Type{tBool, tChar, tUchar, tShort, tUshort, tInt, tUint, tHalf, tFloat} {
		for n := 2; n <= 4; n++ {
			vecOfP(e, n, false)
			vecOfP(e, n, true)
		}
	}
	for _, e := range []*Type{tHalf, tFloat} {
		for c := 2; c <= 4; c++ {
			for r := 2; r <= 4; r++ {
				matOf(e, c, r)
			}
		}
	}
}

func arrayOf(elem *Type, n int) *Type {
	return &Type{Kind: KArray, Name: fmt.Sprintf("%s[%d]", elem.Name, n), Elem: elem, N: n}
}

func ptrTo(space string, elem *Type, isConst bool) *Type {
	return &Type{Kind: KPtr, Elem: elem, Space: space, Const: isConst, size: 8, align: 8, laidOut: true}
}

func refTo(space string, elem *Type, isConst bool) *Type {
	return &Type{Kind: KRef, Elem: elem, Space: space, Const: isConst, size: 8, align: 8, laidOut: true}
}

func unsupportedType(name, why string) *Type {
	return &Type{Kind: KUnsupported, Name: name, Why: why}
}

func (t *Type) isScalar() bool {
	switch t.Kind {
	case KBool, KChar, KUchar, KShort, KUshort, KInt, KUint, KHalf, KFloat:
		return true
	}
	return false
}
func (t *Type) isInteger() bool {
	switch t.Kind {
	case KChar, KUchar, KShort, KUshort, KInt, KUint:
		return true
	}
	return false
}
func (t *Type) isSigned() bool {
	switch t.Kind {
	case KChar, KShort, KInt:
		return true
	}
	return false
}
func (t *Type) isFloating() bool { return t.Kind == KFloat || t.Kind == KHalf }
func (t *Type) isVec() bool      { return t.Kind == KVec }
func (t *Type) isMat() bool      { return t.Kind == KMat }
func (t *Type) isNumeric() bool  { return t.isScalar() || t.Kind == KVec || t.Kind == KMat }

// scalarOf returns the component type of a scalar / vector / matrix type.
func (t *Type) scalarOf() *Type {
	switch t.Kind {
	case KVec, KMat:
		return t.Elem
	}
	return t
}

// comps is the number of scalar leaves of a numeric type.
func (t *Type) comps() int {
	switch t.Kind {
	case KVec:
		return t.N
	case KMat:
		return t.N * t.Rows
	}
	return 1
}

// withElem returns the type with the same shape as t but component type e.
func (t *Type) withElem(e *Type) *Type {
	switch t.Kind {
	case KVec:
		return vecOf(e, t.N)
	case KMat:
		return matOf(e, t.N, t.Rows)
	}
	return e
}

// unpacked strips packed-ness (the type of an rvalue read from a packed vector).
func (t *Type) unpacked() *Type {
	if t.Kind == KVec && t.Packed {
		return vecOf(t.Elem, t.N)
	}
	return t
}

// layout computes size and alignment following the Metal / C++ ABI rules.
func (t *Type) layout() (size, align int) {
	if t.laidOut {
		return t.size, t.align
	}
	switch t.Kind {
	case KArray:
		es, ea := t.Elem.layout()
		t.size, t.align = es*t.N, ea
	case KStruct:
		off, maxA := 0, 1
		for i := range t.Fields {
			fs, fa := t.Fields[i].T.layout()
			if fa < 1 {
				fa = 1
			}
			off = roundUp(off, fa)
			t.Fields[i].Offset = off
			off += fs
			if fa > maxA {
				maxA = fa
			}
		}
		if off == 0 {
			off = 1 // empty class has size 1 in C++
		}
		t.size, t.align = roundUp(off, maxA), maxA
	default:
		t.size, t.align = 0, 1
	}
	t.laidOut = true
	return t.size, t.align
}

func (t *Type) sizeOf() int { s, _ := t.layout(); return s }

func roundUp(x, a int) int {
	if a <= 1 {
		return x
	}
	return (x + a - 1) / a * a
}

// sameType reports structural identity (ignoring packed-ness when loose is set).
func sameType(a, b *Type) bool {
	if a == b {
		return true
	}
	if a == nil || b == nil {
		return false
	}
	if a.Kind != b.Kind {
		return false
	}
	switch a.Kind {
	case KVec:
		return a.Elem == b.Elem && a.N == b.N && a.Packed == b.Packed
	case KMat:
		return a.Elem == b.Elem && a.N == b.N && a.Rows == b.Rows
	case KArray:
		return a.N == b.N && sameType(a.Elem, b.Elem)
	case KPtr, KRef:
		return a.Space == b.Space && a.Const == b.Const && sameType(a.Elem, b.Elem)
	case KStruct, KUnsupported, KTParam, KEnum:
		return a.Name == b.Name && a.Kind == b.Kind && (a.Kind != KStruct)
	}
	return a.Kind == b.Kind && a.Name == b.Name
}

// sameUnpacked compares ignoring packed-ness of vectors.
func sameUnpacked(a, b *Type) bool {
	if a == nil || b == nil {
		return false
	}
	return sameType(a.unpacked(), b.unpacked())
}

// typeKey gives a string usable as a map key for instantiation caches.
func typeKey(t *Type) string {
	switch t.Kind {
	case KPtr:
		return "P" + t.Space + fmt.Sprint(t.Const) + "(" + typeKey(t.Elem) + ")"
	case KRef:
		return "R" + t.Space + fmt.Sprint(t.Const) + "(" + typeKey(t.Elem) + ")"
	case KArray:
		return fmt.Sprintf("A%d(%s)", t.N, typeKey(t.Elem))
	case KStruct:
		return fmt.Sprintf("S%s@%p", t.Name, t)
	}
	return t.Name
}

// hasUnsupported reports whether t (transitively) contains a KUnsupported type and why.
func hasUnsupported(t *Type) (string, bool) {
	return hasUnsupportedDepth(t, 0)
}

func hasUnsupportedDepth(t *Type, d int) (string, bool) {
	if t == nil || d > 32 {
		return "", false
	}
	switch t.Kind {
	case KUnsupported:
		return t.Name + ": " + t.Why, true
	case KArray, KPtr, KRef, KAtomic:
		return hasUnsupportedDepth(t.Elem, d+1)
	case KStruct:
		for _, f := range t.Fields {
			if w, ok := hasUnsupportedDepth(f.T, d+1); ok {
				return w, true
			}
		}
	}
	return "", false
}

// ---------------------------------------------------------------------------
// builtin type-name table

// builtinTypeNames maps an (unqualified) builtin type name to its type. The same
// names are accepted with a `metal::` prefix.
var builtinTypeNames = map[string]*Type{}

func init() {
	sc := map[string]*Type{
		"bool": tBool, "char": tChar, "uchar": tUchar, "short": tShort, "ushort": tUshort,
		"int": tInt, "uint": tUint, "half": tHalf, "float": tFloat,
	}
	for n, t := range sc {
		builtinTypeNames[n] = t
		for k := 2; k <= 4; k++ {
			builtinTypeNames[fmt.Sprintf("%s%d", n, k)] = vecOfP(t, k, false)
			builtinTypeNames[fmt.Sprintf("packed_%s%d", n, k)] = vecOfP(t, k, true)
		}
	}
	builtinTypeNames["void"] = tVoid
	builtinTypeNames["int8_t"] = tChar
	builtinTypeNames["uint8_t"] = tUchar
	builtinTypeNames["int16_t"] = tShort
	builtinTypeNames["uint16_t"] = tUshort
	builtinTypeNames["int32_t"] = tInt
	builtinTypeNames["uint32_t"] = tUint
	for _, e := range []struct {
		n string
		t *Type
	}{{"float", tFloat}, {"half", tHalf}} {
		for c := 2; c <= 4; c++ {
			for r := 2; r <= 4; r++ {
				builtinTypeNames[fmt.Sprintf("%s%dx%d", e.n, c, r)] = matOf(e.t, c, r)
			}
		}
	}
	builtinTypeNames["atomic_int"] = tAtomicInt
	builtinTypeNames["atomic_uint"] = tAtomicUint
	builtinTypeNames["memory_order"] = tMemOrder
	builtinTypeNames["mem_flags"] = tMemFlags

	// 64-bit, double and other unmodelled scalar families
	for _, n := range []string{"long", "ulong", "double", "size_t", "ptrdiff_t", "int64_t", "uint64_t", "intptr_t", "uintptr_t", "bfloat"} {
		builtinTypeNames[n] = unsupportedType(n, "64-bit / unmodelled scalar type")
		for k := 2; k <= 4; k++ {
			vn := fmt.Sprintf("%s%d", n, k)
			builtinTypeNames[vn] = unsupportedType(vn, "64-bit / unmodelled vector type")
			builtinTypeNames["packed_"+vn] = unsupportedType("packed_"+vn, "64-bit / unmodelled vector type")
		}
	}
	for _, n := range []string{"atomic_long", "atomic_ulong", "atomic_float", "atomic_bool", "atomic"} {
		builtinTypeNames[n] = unsupportedType(n, "unmodelled atomic type")
	}
	for _, n := range opaqueTypeNames {
		builtinTypeNames[n] = unsupportedType(n, "texture / sampler / opaque type")
	}
}

// opaqueTypeNames are metal:: types outside the subset (recognised so that the
// declarations using them can be skipped).
var opaqueTypeNames = []string{
	"texture1d", "texture1d_array", "texture2d", "texture2d_array", "texture2d_ms", "texture2d_ms_array",
	"texture3d", "texturecube", "texturecube_array", "texture_buffer",
	"depth2d", "depth2d_array", "depth2d_ms", "depth2d_ms_array", "depthcube", "depthcube_array",
	"sampler", "array", "array_ref", "vec", "matrix", "simdgroup_matrix", "simdgroup_float8x8", "simdgroup_half8x8",
	"imageblock", "visible_function_table", "intersection_function_table", "acceleration_structure",
	"instance_acceleration_structure", "primitive_acceleration_structure", "intersector", "ray",
	"intersection_result", "intersection_query", "intersection_params", "mesh", "mesh_grid_properties",
	"command_buffer", "render_pipeline_state", "compute_pipeline_state", "render_command", "compute_command",
	"patch_control_point", "quadgroup", "simdgroup", "interpolant",
}

// isTypeNameSpelling tells the reserved-word monitor whether an identifier is a builtin type name.
func isBuiltinTypeName(s string) bool {
	if _, ok := builtinTypeNames[s]; ok {
		return true
	}
	if strings.HasPrefix(s, "texture") || strings.HasPrefix(s, "depth") {
		for _, n := range opaqueTypeNames {
			if n == s {
				return true
			}
		}
	}
	return false
}
