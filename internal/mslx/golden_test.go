package mslx

import (
	"errors"
	"os"
	"path/filepath"
	"sort"
	"strings"
	"testing"

	"verif/internal/xrt"
)

const goldenDir = "/repo/snapshot/testdata/golden/msl"

// goldenUnsupported lists the golden files with a compute entry point that are
// outside the subset as a whole (every kernel needs the feature), and why.
var goldenUnsupported = map[string]string{
	"aliased-ray-query.msl":              "ray query",
	"overrides-ray-query.msl":            "ray query",
	"ray-query.msl":                      "ray query",
	"ray-query-no-init-tracking.msl":     "ray query",
	"atomicCompareExchange-int64.msl":    "64-bit integers",
	"atomicOps-int64.msl":                "64-bit integers",
	"atomicOps-int64-min-max.msl":        "64-bit integers",
	"atomicTexture-int64.msl":            "textures, 64-bit",
	"int64.msl":                          "64-bit integers",
	"conversion-float-to-int.msl":        "64-bit integers, f16, f64",
	"conversion-float-to-int-no-f64.msl": "64-bit integers, f16",
	"f16.msl":                            "half arithmetic",
	"f64.msl":                            "double",
	"atomicOps-float32.msl":              "atomic_float",
	"atomicTexture.msl":                  "textures",
	"image.msl":                          "textures",
	"storage-textures.msl":               "textures",
	"texture_storage.msl":                "textures",
	"texture-external.msl":               "external textures",
	"policy-mix.msl":                     "textures",
	"subgroup-operations.msl":            "subgroup operations",
}

// goldenKnownFindings lists golden files whose text is ill-formed MSL. Each was
// investigated by hand; the traps are findings about naga, not engine bugs:
//
//   - atomicCompareExchange.msl: `naga_atomic_compare_exchange_weak_explicit(&uint(_e20) < 128 ?
//     arr_i32_.inner[_e20] : DefaultConstructible(), ...)`: the bounds-check wrapper is applied
//     underneath the address-of operator, so `&` binds to `uint(_e20)` (an rvalue) and the ?:
//     mixes an atomic lvalue with DefaultConstructible. Upstream's reference output for the
//     same input has `&arr_i32_.inner[_e20]`.
//   - 7048-multiple-dynamic-1.msl: `a + (c1 ? x : DefaultConstructible() * c2 ? y :
//     DefaultConstructible())`: two guarded loads are multiplied without parentheses, so `*`
//     applies to DefaultConstructible() and uint(...). (Upstream has no MSL output for it.)
//   - mesh-shader.msl (no compute entry): `taskPayload` is used but never declared.
var goldenKnownFindings = map[string]string{
	"atomicCompareExchange.msl":   "address of an rvalue",
	"7048-multiple-dynamic-1.msl": "invalid operands to binary *",
	"mesh-shader.msl":             "taskPayload",
}

func TestGoldenSyntax(t *testing.T) {
	files, _ := filepath.Glob(filepath.Join(goldenDir, "*.msl"))
	if len(files) == 0 {
		t.Skip("no goldens found")
	}
	sort.Strings(files)
	nKernelFiles, nParsed, nEntries, nRunnable := 0, 0, 0, 0
	for _, f := range files {
		name := filepath.Base(f)
		b, err := os.ReadFile(f)
		if err != nil {
			t.Fatal(err)
		}
		hasKernel := strings.Contains(string(b), "\nkernel ")
		if hasKernel {
			nKernelFiles++
		}
		p, err := Parse(string(b))
		if err != nil {
			var u *xrt.Unsupported
			if !errors.As(err, &u) {
				t.Errorf("%s: plain error on a golden: %v", name, err)
				continue
			}
			if why, ok := goldenUnsupported[name]; !ok {
				t.Errorf("%s: unexpectedly unsupported: %v", name, err)
			} else {
				_ = why
			}
			continue
		}
		if _, ok := goldenUnsupported[name]; ok {
			t.Errorf("%s: listed as unsupported but parsed", name)
		}
		nParsed++
		traps := p.StaticTraps()
		if frag, known := goldenKnownFindings[name]; known {
			found := false
			for _, tr := range traps {
				if strings.Contains(tr.Detail, frag) {
					found = true
				}
			}
			if !found {
				t.Errorf("%s: known finding %q not reported: %v", name, frag, traps)
			}
		} else {
			for _, tr := range traps {
				t.Errorf("%s: static trap on a golden: %v", name, tr)
			}
		}
		for _, e := range p.Entries() {
			nEntries++
			if p.EntryUnsupported(e.Name) == nil {
				nRunnable++
			} else if _, known := goldenKnownFindings[name]; !known {
				t.Errorf("%s: kernel %s is outside the subset: %v", name, e.Name, p.EntryUnsupported(e.Name))
			}
		}
	}
	t.Logf("goldens: %d files, %d with a kernel, %d parsed, %d skipped as unsupported; %d kernels, %d runnable",
		len(files), nKernelFiles, nParsed, len(files)-nParsed, nEntries, nRunnable)
}

// TestGoldenSmokeRun executes every runnable golden kernel on zero-filled buffers:
// the interpreter must finish (or hit the step budget / an unsupported construct),
// never fail internally.
func TestGoldenSmokeRun(t *testing.T) {
	files, _ := filepath.Glob(filepath.Join(goldenDir, "*.msl"))
	sort.Strings(files)
	ran, budget, uns := 0, 0, 0
	trapKinds := map[xrt.TrapKind]int{}
	for _, f := range files {
		name := filepath.Base(f)
		b, _ := os.ReadFile(f)
		p, err := Parse(string(b))
		if err != nil {
			continue
		}
		for _, e := range p.Entries() {
			if p.EntryUnsupported(e.Name) != nil {
				continue
			}
			bufs := xrt.Buffers{}
			for _, r := range p.EntryResources(e.Name) {
				bufs[r.Slot] = make([]byte, 4096)
			}
			p.SetLocalSize(e.Name, [3]uint32{2, 1, 1})
			res, err := p.Run(e.Name, bufs, xrt.Options{TrapMode: true, MaxSteps: 200000})
			if err != nil {
				var u *xrt.Unsupported
				if !errors.As(err, &u) {
					t.Errorf("%s/%s: %v", name, e.Name, err)
					continue
				}
				if strings.Contains(u.What, "internal error") {
					t.Errorf("%s/%s: %v", name, e.Name, err)
				}
				if u.What == "step budget" {
					budget++
				} else {
					uns++
					t.Logf("%s/%s: %v", name, e.Name, err)
				}
				continue
			}
			ran++
			for _, tr := range res.Traps {
				trapKinds[tr.Kind]++
			}
		}
	}
	t.Logf("ran %d kernels to completion, %d hit the step budget, %d unsupported at run time; traps by kind: %v", ran, budget, uns, trapKinds)
}

// TestCorpusDefaultOptions compiles naga's whole WGSL corpus with the default MSL
// options (what the harness feeds the engine) and checks that nothing yields a plain
// error or an uninvestigated static trap.
func TestCorpusDefaultOptions(t *testing.T) {
	files, _ := filepath.Glob("/repo/snapshot/testdata/in/*.wgsl")
	if len(files) == 0 {
		t.Skip("no corpus")
	}
	sort.Strings(files)
	known := map[string]string{
		"atomicCompareExchange.wgsl":   "address of an rvalue",
		"7048-multiple-dynamic-1.wgsl": "invalid operands to binary *",
	}
	compiled, parsed, uns, kernels, runnable := 0, 0, 0, 0, 0
	for _, f := range files {
		name := filepath.Base(f)
		b, _ := os.ReadFile(f)
		txt, ok := tryCompileWGSL(string(b))
		if !ok {
			continue
		}
		compiled++
		p, err := Parse(txt)
		if err != nil {
			var u *xrt.Unsupported
			if !errors.As(err, &u) {
				t.Errorf("%s: plain error: %v", name, err)
			}
			uns++
			continue
		}
		parsed++
		for _, tr := range p.StaticTraps() {
			if frag, ok := known[name]; ok && (strings.Contains(tr.Detail, frag) || strings.Contains(tr.Detail, "line")) {
				continue
			}
			t.Errorf("%s: static trap: %v", name, tr)
		}
		for _, e := range p.Entries() {
			kernels++
			if p.EntryUnsupported(e.Name) == nil {
				runnable++
			}
		}
	}
	t.Logf("corpus: %d wgsl files, %d compiled by naga, %d parsed, %d unsupported; %d kernels, %d runnable", len(files), compiled, parsed, uns, kernels, runnable)
}
