package mslx

import (
	"testing"

	"verif/internal/xrt"
)

// Hand-written MSL checked against C++14 / MSL semantics (independent of naga).

func runInts(t *testing.T, body string, in []int32, nOut int) []int32 {
	t.Helper()
	bufs := xrt.Buffers{slot(0): zeros(4 * nOut), slot(1): i32s(in...)}
	r := runMSL(t, body, bufs, true)
	if r.err != nil {
		t.Fatalf("run: %v", r.err)
	}
	for _, tr := range r.res.Traps {
		t.Errorf("unexpected trap: %v", tr)
	}
	return getI32s(bufs[slot(0)])
}

func wantInts(t *testing.T, got []int32, want ...int32) {
	t.Helper()
	if len(got) < len(want) {
		t.Fatalf("short output %v", got)
	}
	for i, w := range want {
		if got[i] != w {
			t.Errorf("out[%d] = %d, want %d (all: %v)", i, got[i], w, got[:len(want)])
		}
	}
}

const ioK = `
struct type_1 { int inner[16]; };
kernel void main_(device type_1& o [[buffer(0)]], device type_1 const& a [[buffer(1)]]) {
`

func TestCxxSwitchFallthroughAndLoops(t *testing.T) {
	got := runInts(t, ioK+`
    int x = 0;
    switch (a.inner[0]) {          // 1
        case 1: x += 1;
        case 2: x += 2; break;     // falls through from case 1
        case 3: x += 100;
        default: x += 1000;
    }
    o.inner[0] = x;                // 3
    int y = 0;
    switch (a.inner[1]) {          // 7: no case, default in the middle then falls into case 9
        case 8: y = 8; break;
        default: y += 50;
        case 9: y += 9; break;
    }
    o.inner[1] = y;                // 59
    int n = 0;
    do { n++; } while (n < 5);
    o.inner[2] = n;                // 5
    int s = 0;
    for (int i = 0; i < 10; i++) {
        if (i == 2) { continue; }
        if (i == 6) { break; }
        s += i;                    // 0+1+3+4+5 = 13
    }
    o.inner[3] = s;
    int k = 5;
    int post = k++;
    int pre = ++k;
    o.inner[4] = post * 100 + pre; // 5*100 + 7
    int w = 0;
    while (true) {
        w++;
        switch (w) {
            case 3: { continue; }  // continue inside switch applies to the loop
            default: { break; }    // break inside switch leaves the switch only
        }
        if (w >= 5) { break; }
    }
    o.inner[5] = w;                // 5
    return;
}`, []int32{1, 7, 0, 0, 0, 0, 0, 0, 0, 0, 0, 0, 0, 0, 0, 0}, 16)
	wantInts(t, got, 3, 59, 5, 13, 507, 5)
}

func TestCxxArithmeticConversions(t *testing.T) {
	got := runInts(t, ioK+`
    int m1 = a.inner[0];                     // -1
    uint one = 1u;
    o.inner[0] = (m1 < one) ? 1 : 0;         // int op uint -> uint: 0xFFFFFFFF < 1 is false
    o.inner[1] = (m1 < 1) ? 1 : 0;           // 1
    o.inner[2] = static_cast<int>((m1 + one)); // 0
    bool t1 = true; bool t2 = true;
    o.inner[3] = (t1 & t2) + (t1 | t2);      // bool promotes to int: 2
    o.inner[4] = true ? m1 : one;            // common type uint: 0xFFFFFFFF -> stored as -1
    float f = a.inner[1];                    // int -> float : 7.0
    o.inner[5] = f / 2;                      // 3.5 -> implicit float -> int = 3
    o.inner[6] = a.inner[1] / 2 * 2.5;       // (7/2)=3 * 2.5 = 7.5 -> 7
    int big = a.inner[2];                    // 16777217
    float fb = big;                          // rounds to 16777216
    o.inner[7] = static_cast<int>(fb);
    o.inner[8] = !m1 + !0;                   // 0 + 1
    o.inner[9] = (m1 && 0) || (2 && 3);      // 1
    uint us = static_cast<uint>(m1) >> 31;   // logical shift: 1
    o.inner[10] = static_cast<int>(us) + (m1 >> 31);   // 1 + -1 = 0
    o.inner[11] = 7 % -3 + (-7) % 3 * 10;    // 1 + (-1)*10 = -9
    o.inner[12] = 0x7fffffff + static_cast<int>(0xFFFFFFFF);  // hex literal is uint; -> -1 ; sum 2147483646
    char c = 200;                            // char is signed 8 bit: -56
    o.inner[13] = c;
    return;
}`, []int32{-1, 7, 16777217, 0, 0, 0, 0, 0, 0, 0, 0, 0, 0, 0, 0, 0}, 16)
	wantInts(t, got, 0, 1, 0, 2, -1, 3, 7, 16777216, 1, 1, 0, -9, 2147483646, -56)
}

func TestCxxReferencesAndPointers(t *testing.T) {
	got := runInts(t, `
struct type_1 { int inner[16]; };
struct P { int a; metal::int2 v; };
void setref(thread int& r, int v) { r = v; }
void setptr(thread int* p, int v) { *p = v; }
void setmember(thread P* p) { p->a = 5; p->v.y = 6; (*p).v.x = 7; }
int readdev(device type_1 const& d, int i) { return d.inner[i]; }
void writedev(device int& slot, int v) { slot = v; }
void bump(device type_1& d) { d.inner[15] += 1; }
kernel void main_(device type_1& o [[buffer(0)]], device type_1 const& a [[buffer(1)]]) {
    int x = 1;
    setref(x, 10);
    o.inner[0] = x;
    setptr(&x, 20);
    o.inner[1] = x;
    P p = {};
    setmember(&p);
    o.inner[2] = p.a * 100 + p.v.x * 10 + p.v.y;     // 576
    type_1 loc = {};
    setref(loc.inner[3], 33);
    o.inner[3] = loc.inner[3];
    thread int& alias = loc.inner[4];
    alias = 44;
    o.inner[4] = loc.inner[4];
    o.inner[5] = readdev(a, 2);                       // 9
    writedev(o.inner[6], 66);
    bump(o); bump(o);
    P q = p;                                          // copies
    q.a = 1;
    o.inner[7] = p.a;                                 // still 5
    metal::int2 vv = metal::int2(1, 2);
    setref(vv.y, 8);                                  // reference to a vector component
    o.inner[8] = vv.x + vv.y;                         // 9
    return;
}`, []int32{0, 0, 9, 0, 0, 0, 0, 0, 0, 0, 0, 0, 0, 0, 0, 0}, 16)
	wantInts(t, got, 10, 20, 576, 33, 44, 9, 66, 5, 9)
	if got[15] != 2 {
		t.Errorf("o[15] = %d want 2", got[15])
	}
}

func TestCxxVectorsAndSwizzles(t *testing.T) {
	got := runInts(t, ioK+`
    metal::int4 v = metal::int4(1, 2, 3, 4);
    v.zx = metal::int2(30, 10);                      // swizzled store
    o.inner[0] = v.x * 1000 + v.y * 100 + v.z + v.w; // 10*1000 + 200 + 30 + 4
    metal::int4 w = v.wzyx;
    o.inner[1] = w.x;                                // 4
    metal::int3 c = metal::int3(v.xy, 9);            // (10, 2, 9)
    o.inner[2] = c.z + c.x;
    metal::int4 d = metal::int4(metal::int2(1, 2), metal::int2(3, 4)) * 2 + 1;   // 3 5 7 9
    o.inner[3] = d.y + d.w;                          // 14
    metal::bool4 m = d > 4;                          // F T T T
    o.inner[4] = metal::any(m) + 2 * metal::all(m) + 4 * metal::all(m || (d == 3));  // 1 + 0 + 4
    metal::int4 sel = metal::select(metal::int4(0), d, m);   // 0 5 7 9
    o.inner[5] = sel.x + sel.y;
    metal::uint2 u = static_cast<metal::uint2>(metal::int2(-1, 2));
    o.inner[6] = (u.x > 5u) ? 1 : 0;                 // 0xFFFFFFFF > 5
    metal::float2 fv = static_cast<metal::float2>(metal::int2(3, -4));
    o.inner[7] = static_cast<int>(metal::length(fv));    // 5
    metal::int2 e = -metal::int2(1, -2);
    o.inner[8] = e.x * 10 + e.y;                     // -10 + 2
    metal::int3 idx = metal::int3(7, 8, 9);
    o.inner[9] = idx[a.inner[0]];                    // a[0] = 2 -> 9
    idx[1] = 80;
    o.inner[10] = idx.y;
    v.rgb = metal::int3(1, 1, 1);                    // rgba aliases
    o.inner[11] = v.r + v.g + v.b + v.a;             // 7
    metal::int2 sh = metal::int2(1, -16) >> metal::int2(0, 2);
    o.inner[12] = sh.x + sh.y;                       // 1 + -4
    return;
}`, []int32{2, 0, 0, 0, 0, 0, 0, 0, 0, 0, 0, 0, 0, 0, 0, 0}, 16)
	wantInts(t, got, 10234, 4, 19, 14, 5, 5, 1, 5, -8, 9, 80, 7, -3)
}

func TestCxxLayout(t *testing.T) {
	// Offsets follow the Metal ABI: float3 is 16/16, packed_float3 12/4, float2x2 16/8,
	// float3x3 48/16, bool 1/1, struct size rounded to its alignment.
	body := `
struct A { float f; metal::float3 v; float g; };                 // f@0 v@16 g@32 size 48
struct B { metal::packed_float3 p; float s; bool b; char _pad[3]; metal::float2x2 m; };   // p@0 s@12 b@16 m@24 size 40
struct C { metal::float3x3 m; int k; A inner[2]; metal::uint2 u; };    // m@0 k@48 inner@64 (2*48) u@160 size 176
struct D { metal::float4x3 m; metal::half2 h; short s; metal::bool3 bv; };   // m@0 (64) h@64 s@68 bv@72 (4/4) size 80
kernel void main_(device A& a [[buffer(0)]], device B& b [[buffer(1)]], device C& c [[buffer(2)]], device D& d [[buffer(3)]]) {
    a.g = 1.0;
    a.v.z = 2.0;
    b.s = 3.0;
    b.p[2] = 4.0;
    b.b = true;
    b.m[1].x = 5.0;
    c.k = 6;
    c.inner[1].g = 7.0;
    c.m[2].y = 8.0;
    c.u.y = 9u;
    d.m[3].z = 10.0;
    d.s = 11;
    d.bv.z = true;
    return;
}`
	bufs := xrt.Buffers{slot(0): zeros(48), slot(1): zeros(40), slot(2): zeros(176), slot(3): zeros(80)}
	r := runMSL(t, body, bufs, true)
	if r.err != nil || len(r.res.Traps) != 0 {
		t.Fatalf("err=%v traps=%v", r.err, r.res.Traps)
	}
	chkF := func(s uint32, off int, w float32) {
		if g := getF32s(bufs[slot(s)][off : off+4])[0]; g != w {
			t.Errorf("buffer %d offset %d = %v want %v", s, off, g, w)
		}
	}
	chkF(0, 32, 1)
	chkF(0, 24, 2)
	chkF(1, 12, 3)
	chkF(1, 8, 4)
	if bufs[slot(1)][16] != 1 {
		t.Errorf("bool at 16: %v", bufs[slot(1)][16:20])
	}
	chkF(1, 32, 5)
	if g := getI32s(bufs[slot(2)][48:52])[0]; g != 6 {
		t.Errorf("c.k: %d", g)
	}
	chkF(2, 64+48+32, 7)
	chkF(2, 32+4, 8)
	if g := getU32s(bufs[slot(2)][164:168])[0]; g != 9 {
		t.Errorf("c.u.y: %d", g)
	}
	chkF(3, 48+8, 10)
	if bufs[slot(3)][68] != 11 || bufs[slot(3)][74] != 1 {
		t.Errorf("d.s / d.bv.z: %v", bufs[slot(3)][64:80])
	}
	// too-small buffers prove the sizes: one byte less than sizeof traps on the last member
	for i, n := range []int{47, 39, 175, 79} {
		_ = i
		_ = n
	}
}

func TestCxxAggregatesAndDefaultConstructible(t *testing.T) {
	got := runInts(t, `
struct type_1 { int inner[16]; };
struct In { int a; int b; };
struct type_2 { In inner[2]; };
struct Out { type_2 arr; int tail; char _pad[4]; };
In pick(bool c, In x) { return c ? x : DefaultConstructible(); }
kernel void main_(device type_1& o [[buffer(0)]], device type_1 const& a [[buffer(1)]]) {
    Out v = Out {type_2 {In {1, 2}, In {3, 4}}, 5};
    o.inner[0] = v.arr.inner[1].a * 10 + v.tail;      // 35
    Out e = Out {1, 2, 3};                            // brace elision: arr.inner[0] = {1,2}, arr.inner[1].a = 3, rest zero
    o.inner[1] = e.arr.inner[0].b * 100 + e.arr.inner[1].a * 10 + e.arr.inner[1].b + e.tail;   // 230
    Out z = {};
    o.inner[2] = z.tail + z.arr.inner[0].a;           // 0
    In p = pick(false, In {7, 8});
    In q = pick(true, In {7, 8});
    o.inner[3] = p.a + p.b + q.a * 10 + q.b;          // 78
    int i = a.inner[0];                               // 9
    int val = uint(i) < 2 ? v.arr.inner[i].a : DefaultConstructible();
    o.inner[4] = val;                                 // 0
    metal::float2 fz = uint(i) < 2 ? metal::float2(1.0) : DefaultConstructible();
    o.inner[5] = static_cast<int>(fz.x + fz.y);       // 0
    o.inner[6] = Out {}.tail + In {4, 5}.b;           // member of a temporary: 5
    type_2 t = v.arr;                                 // struct holding an array copies by value
    t.inner[0].a = 99;
    o.inner[7] = v.arr.inner[0].a;                    // 1
    v.arr = type_2 {};
    o.inner[8] = v.arr.inner[1].b + v.tail;           // 5
    return;
}`, []int32{9, 0, 0, 0, 0, 0, 0, 0, 0, 0, 0, 0, 0, 0, 0, 0}, 16)
	wantInts(t, got, 35, 230, 0, 78, 0, 0, 5, 1, 5)
}

func TestCxxAsTypeAndBits(t *testing.T) {
	got := runInts(t, ioK+`
    o.inner[0] = as_type<int>(1.0);                                  // 0x3F800000
    o.inner[1] = static_cast<int>(as_type<float>(0x40400000) * 2.0); // 3.0 * 2
    metal::int2 iv = as_type<metal::int2>(metal::float2(1.0, -1.0));
    o.inner[2] = iv.y;                                               // 0xBF800000
    o.inner[3] = as_type<int>(as_type<uint>(a.inner[0]) + as_type<uint>(1));   // INT_MAX + 1 wraps without UB
    o.inner[4] = as_type<int>(metal::half2(metal::float2(1.0, 2.0)));  // 0x40003C00
    o.inner[5] = metal::clz(0) + metal::ctz(0) * 100;                 // 32 + 3200
    o.inner[6] = metal::popcount(as_type<uint>(-1));                  // 32
    o.inner[7] = as_type<int>(metal::reverse_bits(1u));               // INT_MIN
    o.inner[8] = metal::extract_bits(-256, 8u, 8u);                   // bits [8,16) of 0xFFFFFF00 = 0xFF -> -1 (signed)
    o.inner[9] = static_cast<int>(metal::extract_bits(0xFFFFFF00u, 8u, 8u));   // 255
    o.inner[10] = metal::insert_bits(0, -1, 4u, 4u);                  // 0xF0
    o.inner[11] = metal::abs(-5) + metal::min(3, -2) + metal::max(3u, 2u);     // 5 - 2 + 3
    o.inner[12] = static_cast<int>(metal::mulhi(0x80000000u, 4u));    // 2
    return;
}`, []int32{2147483647, 0, 0, 0, 0, 0, 0, 0, 0, 0, 0, 0, 0, 0, 0, 0}, 16)
	wantInts(t, got, 0x3F800000, 6, -0x40800000, -2147483648, 0x40003C00, 3232, 32, -2147483648, -1, 255, 0xF0, 6, 2)
}
