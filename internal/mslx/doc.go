// Package mslx: see types.go for the package comment. This file documents the
// supported subset and the conventions a caller needs.
//
// # Input
//
// The text produced by naga's MSL backend for compute shaders: #include lines,
// `using metal::uint;`, struct / typedef declarations, `constant` module-scope
// constants, (overloaded) helper functions, `template <typename A>` function
// templates, the `DefaultConstructible` class with its template conversion operator,
// and `kernel void` entry points. vertex / fragment functions and declarations that
// need textures, samplers, 64-bit integers, double, half arithmetic, subgroup or ray
// tracing features are skipped; a kernel that reaches one of them cannot be run
// (Run returns *xrt.Unsupported, see EntryUnsupported).
//
// # Slots
//
// `device T& x [[buffer(N)]]` binds xrt.Slot{Kind: "buffer", B: N}. A device /
// constant reference parameter WITHOUT an attribute (naga emits the _mslBufferSizes
// argument like that when no sizes-buffer slot is configured) gets the lowest buffer
// index not used explicitly by the same kernel, in parameter order. `[[user(fakeN)]]`
// placeholders get Slot{Kind: "fake", B: parameter index}.
//
// # Workgroup size
//
// MSL text has no workgroup size: call SetLocalSize(entry, size) before Run
// (default {1,1,1}).
//
// # Semantics
//
// C++14 / MSL: signed overflow, division by zero, INT_MIN / -1, float-to-integer
// conversion of NaN / out-of-range values, out-of-object indexing, reads of
// uninitialised thread / threadgroup memory, metal::clamp with minval > maxval,
// extract_bits / insert_bits with offset + bits > 32, falling off the end of a
// non-void function and barrier divergence are reported as traps in TrapMode (and
// evaluated with a deterministic fallback). Shift counts are taken modulo 32 (MSL).
// Every float operation is rounded to binary32 individually; transcendental functions
// are computed in float64 and rounded once.
//
// A Program is immutable after Parse except for SetLocalSize; Run may be called
// repeatedly (sequentially).
package mslx
