package mslx

import (
	"fmt"
	"sort"
	"strconv"

	"verif/internal/xrt"
)

// Entry is a compute entry point. MSL text does not carry the workgroup size, so
// LocalSize is always {0,0,0}; see SetLocalSize.
type Entry struct {
	Name      string
	LocalSize [3]uint32
}

// Resource is a buffer argument of an entry point.
type Resource struct {
	Name     string
	Slot     xrt.Slot
	Kind     string // "storage-rw" | "storage-ro" | "uniform"
	TypeName string
}

// Decl is a declared identifier.
type Decl struct{ Name, Kind, Scope string }

type declRec struct {
	Decl
	line int
}

// Program is a parsed and statically checked MSL translation unit.
type Program struct {
	toks []token

	typeNames map[string]*Type
	typeOrder []string
	globals   []*VarDecl
	funcs     map[string][]*FuncDecl
	funcOrder []*FuncDecl
	usings    [][]string
	usingNS   map[string]bool

	decls        []declRec
	traps        []*xrt.Trap
	trapSeen     map[string]bool
	skipped      []skippedItem
	skippedNames map[string]error

	localSize map[string][3]uint32

	unqualifiedLibCalls map[string]bool
}

func (p *Program) trap(kind xrt.TrapKind, format string, a ...interface{}) {
	d := fmt.Sprintf(format, a...)
	key := string(kind) + "|" + d
	if p.trapSeen[key] {
		return
	}
	p.trapSeen[key] = true
	p.traps = append(p.traps, &xrt.Trap{Kind: kind, Detail: d})
}

func (p *Program) addFunc(fn *FuncDecl) {
	p.funcs[fn.Name] = append(p.funcs[fn.Name], fn)
	p.funcOrder = append(p.funcOrder, fn)
}

// Parse lexes, parses and statically checks MSL source text.
//
// It returns *xrt.Unsupported when the text cannot be handled (inconclusive) and a
// plain error when the text is not valid MSL at all. Problems that a Metal
// compiler would diagnose semantically are reported by StaticTraps instead.
func Parse(src string) (prog *Program, err error) {
	defer func() {
		if r := recover(); r != nil {
			prog = nil
			if b, ok := r.(bail); ok {
				err = b.err
				return
			}
			err = unsupportedf("internal error in mslx.Parse: %v", r)
		}
	}()
	toks, lerr := lex(src)
	if lerr != nil {
		return nil, lerr
	}
	p := &Program{
		toks:                toks,
		typeNames:           map[string]*Type{},
		funcs:               map[string][]*FuncDecl{},
		usingNS:             map[string]bool{},
		trapSeen:            map[string]bool{},
		skippedNames:        map[string]error{},
		localSize:           map[string][3]uint32{},
		unqualifiedLibCalls: map[string]bool{},
	}
	ps := &parser{toks: toks, limit: len(toks), prog: p, record: true}
	if perr := ps.parseProgram(); perr != nil {
		return nil, perr
	}
	for _, name := range p.typeOrder {
		if t := p.typeNames[name]; t != nil {
			t.layout()
		}
	}
	ck := &checker{prog: p}
	ck.checkProgram()

	// Inconclusive when there are kernels but none of them is inside the subset.
	nk, nbad := 0, 0
	var first error
	for _, fn := range p.funcOrder {
		if fn.Stage == "kernel" {
			nk++
			if e := p.reachUnsupported(fn); e != nil {
				nbad++
				if first == nil {
					first = e
				}
			}
		}
	}
	for _, s := range p.skipped {
		if isKernelItem(toks, s) {
			nk++
			nbad++
			if first == nil {
				first = s.Why
			}
		}
	}
	if nk > 0 && nbad == nk {
		return nil, first
	}
	return p, nil
}

func isKernelItem(toks []token, s skippedItem) bool {
	for i := range toks {
		if toks[i].line == s.line && toks[i].kind == tkIdent {
			return toks[i].s == "kernel"
		}
		if toks[i].line > s.line {
			break
		}
	}
	return false
}

// reachUnsupported returns the reason fn (or anything it can call) is outside the subset.
func (p *Program) reachUnsupported(fn *FuncDecl) error {
	seen := map[*FuncDecl]bool{}
	var walk func(f *FuncDecl) error
	walk = func(f *FuncDecl) error {
		if seen[f] {
			return nil
		}
		seen[f] = true
		if f.unsupported != nil {
			return f.unsupported
		}
		for _, c := range f.callees {
			if e := walk(c); e != nil {
				return e
			}
		}
		return nil
	}
	return walk(fn)
}

// StaticTraps lists the statically detected problems of the text.
func (p *Program) StaticTraps() []*xrt.Trap {
	out := make([]*xrt.Trap, len(p.traps))
	copy(out, p.traps)
	return out
}

// Entries lists the compute entry points (kernel functions).
func (p *Program) Entries() []Entry {
	var out []Entry
	for _, fn := range p.funcOrder {
		if fn.Stage == "kernel" && !fn.isInst {
			out = append(out, Entry{Name: fn.Name})
		}
	}
	return out
}

// EntryUnsupported returns nil when entry can be run, or the reason why it is
// outside the supported subset.
func (p *Program) EntryUnsupported(entry string) error {
	fn := p.kernel(entry)
	if fn == nil {
		if e, ok := p.skippedNames[entry]; ok {
			return e
		}
		return fmt.Errorf("mslx: no kernel named %q", entry)
	}
	return p.reachUnsupported(fn)
}

// Skipped lists the top-level declarations that were skipped as outside the subset.
func (p *Program) Skipped() []string {
	var out []string
	for _, s := range p.skipped {
		out = append(out, fmt.Sprintf("%s: %v", s.Name, s.Why))
	}
	for _, fn := range p.funcOrder {
		if fn.unsupported != nil && !fn.isInst {
			out = append(out, fmt.Sprintf("%s: %v", fn.Name, fn.unsupported))
		}
	}
	return out
}

// SetLocalSize sets the threadgroup size used by Run for entry (default {1,1,1}).
func (p *Program) SetLocalSize(entry string, size [3]uint32) {
	for i := range size {
		if size[i] == 0 {
			size[i] = 1
		}
	}
	p.localSize[entry] = size
}

func (p *Program) kernel(name string) *FuncDecl {
	for _, fn := range p.funcs[name] {
		if fn.Stage == "kernel" {
			return fn
		}
	}
	return nil
}

// bufferSlot extracts N from [[buffer(N)]]; ok is false when the parameter has no
// explicit buffer index.
func bufferSlot(v *VarDecl) (uint32, bool) {
	for _, a := range v.Attrs {
		if a.Name == "buffer" && len(a.Args) == 1 && a.Args[0].kind == tkInt {
			return uint32(a.Args[0].ival), true
		}
	}
	return 0, false
}

func hasAttr(v *VarDecl, name string) (attr, bool) {
	for _, a := range v.Attrs {
		if a.Name == name {
			return a, true
		}
	}
	return attr{}, false
}

type boundParam struct {
	v    *VarDecl
	slot xrt.Slot
	kind string
}

// entryBuffers computes the slot of every device/constant reference or pointer
// parameter of a kernel. Parameters without an explicit [[buffer(n)]] get the
// lowest index not used explicitly (Metal assigns unattributed resources
// automatically); [[user(fakeN)]] placeholders get Kind "fake".
func (p *Program) entryBuffers(fn *FuncDecl) []boundParam {
	used := map[uint32]bool{}
	for _, v := range fn.Params {
		if n, ok := bufferSlot(v); ok {
			used[n] = true
		}
	}
	var out []boundParam
	next := uint32(0)
	for i, v := range fn.Params {
		if v.Ty.Kind != KRef && v.Ty.Kind != KPtr {
			continue
		}
		if v.Ty.Space != "device" && v.Ty.Space != "constant" {
			continue
		}
		kind := "storage-rw"
		switch {
		case v.Ty.Space == "constant":
			kind = "uniform"
		case v.Ty.Const:
			kind = "storage-ro"
		}
		bp := boundParam{v: v, kind: kind}
		if n, ok := bufferSlot(v); ok {
			bp.slot = xrt.Slot{Kind: "buffer", B: n}
		} else if _, fake := hasAttr(v, "user"); fake {
			bp.slot = xrt.Slot{Kind: "fake", B: uint32(i)}
		} else {
			for used[next] {
				next++
			}
			used[next] = true
			bp.slot = xrt.Slot{Kind: "buffer", B: next}
		}
		out = append(out, bp)
	}
	return out
}

func resourceTypeName(t *Type) string {
	if t.Alias != "" {
		return t.Alias
	}
	return t.String()
}

// Resources lists the buffer arguments of all compute entry points (deduplicated by
// name and slot).
func (p *Program) Resources() []Resource {
	var out []Resource
	seen := map[string]bool{}
	for _, fn := range p.funcOrder {
		if fn.Stage != "kernel" || fn.isInst {
			continue
		}
		for _, bp := range p.entryBuffers(fn) {
			key := bp.v.Name + "|" + bp.slot.String() + "|" + bp.kind
			if seen[key] {
				continue
			}
			seen[key] = true
			out = append(out, Resource{Name: bp.v.Name, Slot: bp.slot, Kind: bp.kind, TypeName: resourceTypeName(bp.v.Ty.Elem)})
		}
	}
	return out
}

// EntryResources lists the buffer arguments of one entry point.
func (p *Program) EntryResources(entry string) []Resource {
	fn := p.kernel(entry)
	if fn == nil {
		return nil
	}
	var out []Resource
	for _, bp := range p.entryBuffers(fn) {
		out = append(out, Resource{Name: bp.v.Name, Slot: bp.slot, Kind: bp.kind, TypeName: resourceTypeName(bp.v.Ty.Elem)})
	}
	return out
}

// BufferSizesLayout describes the `_mslBufferSizes`-style struct bound to a uniform
// resource: for each uint member named sizeN it gives N and the byte offset. It
// lets a caller fill the sizes buffer without knowing naga's conventions.
func (p *Program) BufferSizesLayout(typeName string) (members []struct {
	Index  int
	Offset int
}) {
	t := p.typeNames[typeName]
	if t == nil || t.Kind != KStruct {
		return nil
	}
	t.layout()
	for _, f := range t.Fields {
		if len(f.Name) > 4 && f.Name[:4] == "size" {
			if n, err := strconv.Atoi(f.Name[4:]); err == nil {
				members = append(members, struct {
					Index  int
					Offset int
				}{n, f.Offset})
			}
		}
	}
	return members
}

// Decls lists every declared identifier.
func (p *Program) Decls() []Decl {
	out := make([]Decl, len(p.decls))
	for i, d := range p.decls {
		out[i] = d.Decl
	}
	return out
}

func sortedKeys(m map[string]bool) []string {
	ks := make([]string, 0, len(m))
	for k := range m {
		ks = append(ks, k)
	}
	sort.Strings(ks)
	return ks
}
