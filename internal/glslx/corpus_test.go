package glslx

import (
	"errors"
	"os"
	"path/filepath"
	"sort"
	"strings"
	"testing"

	"github.com/gogpu/naga"
	"github.com/gogpu/naga/glsl"
	"github.com/gogpu/naga/ir"

	"verif/internal/xrt"
)

// runZero executes a parsed program over zero-filled buffers; only internal
// errors are failures (traps and Unsupported are legitimate outcomes).
func runZero(t *testing.T, label string, p *Program, trapMode bool) (traps int, unsupported bool) {
	bufs := xrt.Buffers{}
	for _, r := range p.Resources() {
		bufs[r.Slot] = make([]byte, 1024)
	}
	res, err := p.Run("main", bufs, xrt.Options{TrapMode: trapMode, MaxSteps: 200000})
	if err != nil {
		var u *xrt.Unsupported
		if errors.As(err, &u) {
			return len(res.Traps), true
		}
		t.Errorf("%s: Run: %v", label, err)
	}
	return len(res.Traps), false
}

func TestGoldenRun(t *testing.T) {
	chunks := loadGoldenChunks(t)
	ran, unsup, trapped := 0, 0, 0
	for _, ch := range chunks {
		if ch.stage != "compute" {
			continue
		}
		p, err := Parse(ch.text)
		if err != nil {
			continue
		}
		if _, known := goldenFindings[ch.file]; known {
			continue
		}
		n, u := runZero(t, ch.file+":"+ch.entry, p, true)
		ran++
		if u {
			unsup++
		}
		if n > 0 {
			trapped++
		}
		runZero(t, ch.file+":"+ch.entry+" (no trap mode)", p, false)
	}
	t.Logf("executed %d golden compute texts over zeroed buffers: %d hit Unsupported/step budget, %d reported traps", ran, unsup, trapped)
}

// TestCorpusCompile pushes every compute entry point of naga's WGSL corpus
// through naga's GLSL backend (desktop 4.30 and ES 3.10) and through Parse.
func TestCorpusCompile(t *testing.T) {
	files, _ := filepath.Glob("/repo/snapshot/testdata/in/*.wgsl")
	if len(files) == 0 {
		t.Skip("no corpus")
	}
	sort.Strings(files)
	type stat struct{ texts, clean, unsup, invalid, withTraps int }
	stats := map[string]*stat{"430 core": {}, "310 es": {}}
	trapSummary := map[string]int{}
	for _, f := range files {
		b, err := os.ReadFile(f)
		if err != nil {
			t.Fatal(err)
		}
		src := string(b)
		m := lowerQuiet(src)
		if m == nil {
			continue
		}
		for _, ep := range m.EntryPoints {
			if ep.Stage != ir.StageCompute {
				continue
			}
			for _, ver := range []glsl.Version{glsl.Version430, glsl.VersionES310} {
				txt, ok := compileQuiet(m, ep.Name, ver)
				if !ok {
					continue
				}
				st := stats[ver.String()]
				st.texts++
				label := filepath.Base(f) + ":" + ep.Name + " (" + ver.String() + ")"
				p, err := Parse(txt)
				if err != nil {
					var u *xrt.Unsupported
					if errors.As(err, &u) {
						st.unsup++
					} else {
						st.invalid++
						t.Logf("SUSPECT naga: %s: text rejected: %v", label, err)
					}
					continue
				}
				if tr := p.StaticTraps(); len(tr) > 0 {
					st.withTraps++
					for _, x := range tr {
						d := x.Detail
						if i := strings.Index(d, "): "); i >= 0 {
							d = d[i+3:]
						}
						trapSummary[ver.String()+" | "+string(x.Kind)+" | "+d]++
					}
				} else {
					st.clean++
				}
				runZero(t, label, p, true)
			}
		}
	}
	for v, s := range stats {
		t.Logf("%s: %d texts, %d clean, %d with static traps, %d unsupported, %d rejected", v, s.texts, s.clean, s.withTraps, s.unsup, s.invalid)
	}
	keys := make([]string, 0, len(trapSummary))
	for k := range trapSummary {
		keys = append(keys, k)
	}
	sort.Strings(keys)
	for _, k := range keys {
		t.Logf("static trap x%d: %s", trapSummary[k], k)
	}
}

func lowerQuiet(src string) (m *ir.Module) {
	defer func() {
		if recover() != nil {
			m = nil
		}
	}()
	ast, err := naga.Parse(src)
	if err != nil {
		return nil
	}
	m, err = naga.LowerWithSource(ast, src)
	if err != nil {
		return nil
	}
	return m
}

func compileQuiet(m *ir.Module, ep string, ver glsl.Version) (txt string, ok bool) {
	defer func() {
		if recover() != nil {
			ok = false
		}
	}()
	txt, _, err := glsl.Compile(m, glsl.Options{LangVersion: ver, EntryPoint: ep, ForceHighPrecision: true})
	return txt, err == nil
}
