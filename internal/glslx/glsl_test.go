package glslx

import (
	"errors"
	"math"
	"strings"
	"testing"

	"verif/internal/xrt"
)

// Hand-written GLSL texts exercising language features that naga's output
// does not reach (fallthrough, out parameters, poison, row_major, ...) and
// the static monitors.

const hdr430 = "#version 430 core\nlayout(local_size_x = 1, local_size_y = 1, local_size_z = 1) in;\n"
const hdrES = "#version 310 es\nprecision highp float;\nprecision highp int;\nlayout(local_size_x = 1, local_size_y = 1, local_size_z = 1) in;\n"

func mustParse(t *testing.T, src string) *Program {
	t.Helper()
	p, err := Parse(src)
	if err != nil {
		t.Fatalf("Parse: %v\n%s", err, src)
	}
	return p
}

func noStatic(t *testing.T, p *Program) {
	t.Helper()
	for _, tr := range p.StaticTraps() {
		t.Errorf("unexpected static trap: %v", tr)
	}
}

func runOK(t *testing.T, p *Program, bufs xrt.Buffers, opt xrt.Options) xrt.Result {
	t.Helper()
	res, err := p.Run("main", bufs, opt)
	if err != nil {
		t.Fatalf("Run: %v", err)
	}
	return res
}

func hasTrap(ts []*xrt.Trap, k xrt.TrapKind, sub string) bool {
	for _, t := range ts {
		if t.Kind == k && strings.Contains(t.Detail, sub) {
			return true
		}
	}
	return false
}

func wantInts(t *testing.T, b []byte, vals ...int32) {
	t.Helper()
	for i, v := range vals {
		if got := getI32(b, i); got != v {
			t.Errorf("word %d: got %d want %d", i, got, v)
		}
	}
}
func wantU32s(t *testing.T, b []byte, vals ...uint32) {
	t.Helper()
	for i, v := range vals {
		if got := getU32(b, i); got != v {
			t.Errorf("word %d: got %#x want %#x", i, got, v)
		}
	}
}
func wantFloats(t *testing.T, b []byte, vals ...float32) {
	t.Helper()
	for i, v := range vals {
		if got := getF32(b, i); got != v && !(got != got && v != v) {
			t.Errorf("word %d: got %v want %v", i, got, v)
		}
	}
}

func TestControlFlow(t *testing.T) {
	src := hdr430 + `
layout(std430, binding = 0) buffer O { int o[]; };
int classify(int x) {
    int r = 0;
    switch (x) {
        case 0:
            r += 1;      // falls through
        case 1:
            r += 10;
            break;
        case 2: {
            r += 100;
        }                // falls through into default
        default:
            r += 1000;
        case 7:
            r += 5;
    }
    return r;
}
void main() {
    o[0] = classify(0);   // 11
    o[1] = classify(1);   // 10
    o[2] = classify(2);   // 1105
    o[3] = classify(7);   // 5
    o[4] = classify(9);   // 1005
    int i = 0, n = 0;
    do { n += i; i++; } while (i < 5);   // 0+1+2+3+4
    o[5] = n;
    do { n = -1; } while (false);
    o[6] = n;
    int a = 3;
    int b = a++ + ++a;     // 3 + 5
    o[7] = b; o[8] = a;    // 8 5
    int c = (a--, a * 2);  // a = 4, c = 8
    o[9] = c;
    int s = 0;
    for (int k = 0; k < 10; ++k) { if (k == 3) continue; if (k == 6) break; s += k; }  // 0+1+2+4+5
    o[10] = s;
    int w = 0;
    while (true) { w++; if (w >= 4) break; }
    o[11] = w;
    o[12] = (w > 3) ? 1 : 2;
    uint sel = 2u;
    switch (sel) { case 2u: o[13] = 22; break; default: o[13] = 33; }
    for (;;) { o[14] = 99; break; }
}`
	p := mustParse(t, src)
	noStatic(t, p)
	bufs := xrt.Buffers{sb(0): make([]byte, 64)}
	res := runOK(t, p, bufs, xrt.Options{TrapMode: true})
	if len(res.Traps) != 0 {
		t.Errorf("traps: %v", res.Traps)
	}
	wantInts(t, bufs[sb(0)], 11, 10, 1105, 5, 1005, 10, -1, 8, 5, 8, 12, 4, 1, 22, 99)
	if res.Cov["stmt.switch"] == 0 || res.Cov["stmt.do"] == 0 || res.Cov["op.+.int"] == 0 || res.Cov["call.classify"] != 5 {
		t.Errorf("coverage: %v", res.Cov)
	}
}

func TestOutInoutParams(t *testing.T) {
	src := hdr430 + `
layout(std430, binding = 1) buffer O { float o[]; };
struct S { vec2 v; int k; };
void split(in float x, out float whole, inout float acc) { whole = floor(x); acc += x - whole; x = 0.0; }
void setk(inout S s, int k) { s.k = k; s.v.y = 2.5; }
void sw(inout vec4 v) { v.zx = v.xz; }
float twice(const in float x) { return x * 2.0; }
int over(int a) { return 1; }
int over(float a) { return 2; }
int over(int a, int b) { return 3; }
float proto(float x);
void main() {
    float w; float acc = 10.0; float x = 3.25;
    split(x, w, acc);
    o[0] = w; o[1] = acc; o[2] = x;        // 3, 10.25, 3.25
    S s = S(vec2(1.0), 0);
    setk(s, 7);
    o[3] = float(s.k) + s.v.x + s.v.y;     // 7 + 1 + 2.5
    vec4 v = vec4(1.0, 2.0, 3.0, 4.0);
    sw(v);
    o[4] = v.x; o[5] = v.z;                // 3, 1
    o[6] = twice(o[0]);                    // 6
    o[7] = float(over(1) * 100 + over(1.0) * 10 + over(1, 2));  // 123
    o[8] = proto(2.0);                     // 5
    float arr[3] = float[3](1.0, 2.0, 3.0);
    split(7.5, arr[1], arr[2]);            // arr[1] = 7, arr[2] = 3.5
    o[9] = arr[1] + arr[2];
}
float proto(float x) { return x + 3.0; }`
	p := mustParse(t, src)
	noStatic(t, p)
	bufs := xrt.Buffers{sb(1): make([]byte, 64)}
	res := runOK(t, p, bufs, xrt.Options{TrapMode: true})
	if len(res.Traps) != 0 {
		t.Errorf("traps: %v", res.Traps)
	}
	wantFloats(t, bufs[sb(1)], 3, 10.25, 3.25, 10.5, 3, 1, 6, 123, 5, 10.5)
}

func TestPoison(t *testing.T) {
	src := hdr430 + `
layout(std430, binding = 0) buffer O { int o[]; };
shared int sh[2];
struct R { int a; bool b; };
void noWrite(out int x) { }
void main() {
    int u;                  // undefined
    int v = 5;
    o[0] = v;
    o[1] = u + 1;           // poison stored
    if (u > 0) { o[2] = 1; }  // poison in condition
    int arr[2];
    arr[0] = 3;
    o[3] = arr[0];          // fine
    o[4] = arr[1];          // poison
    o[5] = sh[0];           // shared memory is undefined until written
    sh[1] = 4;
    o[6] = sh[1];           // fine
    R r; r.a = 9;
    o[7] = r.a;             // fine, partial initialisation
    int w = 1;
    noWrite(w);             // out parameter never written: w becomes undefined
    o[8] = w;
    int z;
    o[z & 1] = 0;           // poison index
    switch (z) { default: break; }
    atomicAdd(o[9], u);
    vec3 pv; pv.x = 1.0; pv.z = 2.0;
    o[10] = int(pv.x + pv.z);  // fine
}`
	p := mustParse(t, src)
	noStatic(t, p)
	bufs := xrt.Buffers{sb(0): make([]byte, 64)}
	res := runOK(t, p, bufs, xrt.Options{TrapMode: true})
	for _, tr := range res.Traps {
		if tr.Kind != xrt.TrapPoison {
			t.Errorf("unexpected trap %v", tr)
		}
	}
	for _, line := range []string{"line 12 ", "line 13 ", "line 17 ", "line 18 ", "line 25 ", "line 27 ", "line 28 ", "line 29 "} {
		if !hasTrap(res.Traps, xrt.TrapPoison, line) {
			t.Errorf("no poison trap at %s: %v", line, res.Traps)
		}
	}
	for _, line := range []string{"line 11 ", "line 16 ", "line 20 ", "line 22 ", "line 31 "} {
		if hasTrap(res.Traps, xrt.TrapPoison, line) {
			t.Errorf("false poison trap at %s", line)
		}
	}
	wantInts(t, bufs[sb(0)][12:], 3)
	// non-trap mode: silent
	bufs = xrt.Buffers{sb(0): make([]byte, 64)}
	res = runOK(t, p, bufs, xrt.Options{})
	if len(res.Traps) != 0 {
		t.Errorf("traps in non-trap mode: %v", res.Traps)
	}
}

func TestLayoutStd140Std430(t *testing.T) {
	src := hdr430 + `
struct In { float f; vec3 v; };                 // std430: f@0 v@16 size 32 ; std140 same
layout(std140, binding = 2) uniform U {
    float fa[3];            // std140 stride 16: 0,16,32 ; size 48
    vec2 v2;                // @48
    In s[2];                // @64 stride 32
    mat2 m;                 // @128 column stride 16
    layout(row_major) mat2x3 rm;   // 2 columns x 3 rows, row_major: 3 rows of vec2, stride 16 (std140): @160
    int last;               // @208
} u;
layout(std430, binding = 5) buffer B {
    float fa[3];            // stride 4: 0,4,8
    vec2 v2;                // @16
    In s[2];                // @32 stride 32
    mat2 m;                 // @96 column stride 8
    layout(row_major) mat2x3 rm;   // rows of vec2 stride 8: @112 (3 rows -> 24 bytes)
    layout(offset = 160) int off;  // explicit
    layout(align = 64) int al;     // @192
    int tail[];             // @196
} b;
layout(std430, binding = 0) buffer O { float o[]; };
void main() {
    o[0] = u.fa[2];         // word 8
    o[1] = u.v2.y;          // word 13
    o[2] = u.s[1].v.z;      // 64+32+16+8 = 120 -> word 30
    o[3] = u.m[1].x;        // 144 -> word 36
    o[4] = u.rm[1][2];      // column 1, row 2 -> row 2 at 160+32, column 1 -> +4 = 196 -> word 49
    o[5] = float(u.last);   // word 52
    o[6] = b.fa[2];         // word 2
    o[7] = b.v2.y;          // word 5
    o[8] = b.s[1].v.z;      // 32+32+16+8 = 88 -> word 22
    o[9] = b.m[1].x;        // 104 -> word 26
    o[10] = b.rm[1][2];     // row 2 at 112+16, col 1 +4 = 132 -> word 33
    o[11] = float(b.off);   // word 40
    o[12] = float(b.al);    // word 48
    o[13] = float(b.tail.length());  // (232 - 196) / 4 = 9
    b.rm[0] = vec3(7.0, 8.0, 9.0);    // column 0: words 28, 30, 32
    vec3 c1 = b.rm[1];               // words 29, 31, 33
    o[14] = c1.x + c1.y + c1.z;
    mat2x3 whole = b.rm;
    o[15] = whole[0].y;              // 8
    b.tail[8] = 5;
}`
	p := mustParse(t, src)
	noStatic(t, p)
	rs := p.Resources()
	if len(rs) != 3 || rs[0].Slot != ub(2) || rs[0].Kind != "uniform" || rs[1].Slot != sb(5) || rs[1].Kind != "storage-rw" || rs[2].Slot != sb(0) ||
		strings.Contains(rs[0].TypeName, "implicit") || rs[2].TypeName != "float[]" {
		t.Fatalf("resources: %+v", rs)
	}
	mk := func(n int) []byte {
		f := make([]float32, n)
		for i := range f {
			f[i] = float32(i)
		}
		return f32s(f...)
	}
	ubuf := mk(53)
	copy(ubuf[52*4:], i32s(52))
	bbuf := mk(58)
	copy(bbuf[40*4:], i32s(40))
	copy(bbuf[48*4:], i32s(48))
	bufs := xrt.Buffers{ub(2): ubuf, sb(5): bbuf, sb(0): make([]byte, 64)}
	res := runOK(t, p, bufs, xrt.Options{TrapMode: true})
	if len(res.Traps) != 0 {
		t.Errorf("traps: %v", res.Traps)
	}
	wantFloats(t, bufs[sb(0)], 8, 13, 30, 36, 49, 52, 2, 5, 22, 26, 33, 40, 48, 9, 29+31+33, 8)
	wantFloats(t, bbuf[28*4:], 7, 29, 8, 31, 9, 33)
	if getI32(bbuf, 49+8) != 5 {
		t.Errorf("tail[8] not written")
	}
	// direct layout checks
	l := newLayouter()
	v3arr := arrayOf(vecOf(tFloat, 3), 2)
	if li := l.of(v3arr, 430, false); li.stride != 16 || li.size != 32 || li.align != 16 {
		t.Errorf("vec3[2] std430: %+v", li)
	}
	fl := arrayOf(tFloat, 4)
	if li := l.of(fl, 140, false); li.stride != 16 || li.size != 64 {
		t.Errorf("float[4] std140: %+v", li)
	}
	if li := l.of(fl, 430, false); li.stride != 4 || li.size != 16 {
		t.Errorf("float[4] std430: %+v", li)
	}
	if li := l.of(matTypes[3][3], 430, false); li.stride != 16 || li.size != 48 {
		t.Errorf("mat3 std430: %+v", li)
	}
	if li := l.of(matTypes[2][2], 140, false); li.stride != 16 || li.size != 32 {
		t.Errorf("mat2 std140: %+v", li)
	}
	if li := l.of(matTypes[2][2], 430, false); li.stride != 8 || li.size != 16 {
		t.Errorf("mat2 std430: %+v", li)
	}
	if li := l.of(matTypes[4][3], 430, true); li.stride != 16 || li.size != 48 { // row_major 4x3: 3 rows of vec4
		t.Errorf("mat4x3 row_major std430: %+v", li)
	}
	st := &Type{Kind: KStruct, Name: "T", Fields: []Field{{Name: "a", T: tFloat}, {Name: "b", T: vecOf(tFloat, 2)}}}
	if li := l.of(st, 430, false); li.size != 16 || li.align != 8 || li.offsets[1] != 8 {
		t.Errorf("struct std430: %+v", li)
	}
	if li := l.of(st, 140, false); li.size != 16 || li.align != 16 {
		t.Errorf("struct std140: %+v", li)
	}
}

func TestImplicitBindingOrder(t *testing.T) {
	src := hdr430 + `
layout(std430) buffer A_block_0Compute { int a; };
layout(std140) uniform B_block_1Compute { vec4 b; };
layout(std430) readonly buffer C_block_2Compute { int c[]; } inst;
void main() { a = int(b.x) + inst.c[1]; }`
	p := mustParse(t, src)
	noStatic(t, p)
	rs := p.Resources()
	want := []Resource{
		{"A_block_0Compute", sb(0), "storage-rw", "int (implicit)"},
		{"B_block_1Compute", ub(1), "uniform", "vec4 (implicit)"},
		{"C_block_2Compute", sb(2), "storage-ro", "int[] (implicit)"},
	}
	if len(rs) != 3 || rs[0] != want[0] || rs[1] != want[1] || rs[2] != want[2] {
		t.Fatalf("resources: %+v", rs)
	}
	bufs := xrt.Buffers{sb(0): make([]byte, 4), ub(1): f32s(3, 0, 0, 0), sb(2): i32s(10, 20)}
	runOK(t, p, bufs, xrt.Options{TrapMode: true})
	wantInts(t, bufs[sb(0)], 23)
	delete(bufs, ub(1))
	if _, err := p.Run("main", bufs, xrt.Options{}); err == nil {
		t.Errorf("missing buffer not reported")
	} else {
		var u *xrt.Unsupported
		if errors.As(err, &u) {
			t.Errorf("missing buffer must be a plain error, got %v", err)
		}
	}
	if _, err := p.Run("other", bufs, xrt.Options{}); err == nil {
		t.Errorf("unknown entry not reported")
	}
	es := p.Entries()
	if len(es) != 1 || es[0].Name != "main" || es[0].LocalSize != [3]uint32{1, 1, 1} {
		t.Errorf("entries: %+v", es)
	}
}

func TestConstructorsAndSwizzles(t *testing.T) {
	src := hdr430 + `
layout(std430, binding = 0) buffer O { float o[]; };
struct P { vec2 a; int n; float w[2]; };
const int N = 2 + 1;
const float TAB[N] = float[N](1.5, 2.5, 3.5);
void main() {
    mat3 d = mat3(2.0);                        // diagonal
    o[0] = d[0][0] + d[1][1] + d[2][2] + d[0][1] + d[2][0];   // 6
    mat2 sub = mat2(mat3(1.0, 2.0, 3.0, 4.0, 5.0, 6.0, 7.0, 8.0, 9.0));  // upper-left: columns (1,2) (4,5)
    o[1] = sub[0].x + sub[0].y * 10.0 + sub[1].x * 100.0 + sub[1].y * 1000.0;   // 1+20+400+5000
    mat3 grow = mat3(mat2(1.0, 2.0, 3.0, 4.0));   // rest identity
    o[2] = grow[1][0] + grow[2][2] + grow[2][0] + grow[0][2];    // 3 + 1 + 0 + 0
    vec4 v = vec4(vec2(1.0, 2.0), 3, true);     // int and bool converted
    o[3] = v.x + v.y + v.z + v.w;              // 7
    ivec3 iv = ivec3(vec3(1.9, -1.9, 2.0));
    o[4] = float(iv.x * 100 + iv.y * 10 + iv.z);   // 100 - 10 + 2 = 92
    o[5] = float(vec3(4.0, 5.0, 6.0));         // first component
    vec3 fromMat = vec3(mat2(1.0, 2.0, 3.0, 4.0));  // first three components column-major
    o[6] = fromMat.z;                          // 3
    int ia[] = int[](4, 5, 6);
    o[7] = float(ia.length() * 10 + ia[2]);    // 36
    P p = P(vec2(1.0, 2.0), 3, float[2](4.0, 5.0));
    o[8] = p.a.y + float(p.n) + p.w[1];        // 10
    vec4 s = vec4(1.0, 2.0, 3.0, 4.0);
    s.zx = vec2(30.0, 10.0);
    s.yw += vec2(0.5);
    s.wzyx.x = 44.0;                           // writes s.w
    o[9] = s.x + s.y + s.z + s.w;              // 10 + 2.5 + 30 + 44
    o[10] = s.wwxx.z + s.rgba.g + s.stpq.p;    // 10 + 2.5 + 30
    o[11] = TAB[N - 1] + float(TAB.length());  // 3.5 + 3
    o[12] = float(s.length() + d.length());    // 4 + 3
    P q = p;
    q.w[0] = 4.0;
    o[13] = (p == q) ? 1.0 : 0.0;              // equal
    q.w[1] = -5.0;
    o[14] = (p != q) ? 1.0 : 0.0;
    o[15] = (ia == int[3](4, 5, 6)) ? 1.0 : 0.0;
    float sc = 5.0;
    o[16] = sc.xx.y;                           // scalar swizzle (4.20+)
    bvec3 bv = bvec3(1, 0.0, 2u);
    o[17] = float(bv.x) + float(bv.y) * 10.0 + float(bv.z) * 100.0;   // 101
    uvec2 uu = uvec2(ivec2(-1, 7));
    o[18] = float(uu.y) + (uu.x == 0xFFFFFFFFu ? 0.5 : 0.0);
    mat2x3 cm = mat2x3(vec3(1.0, 2.0, 3.0), vec3(4.0, 5.0, 6.0));
    mat2x3 cs = mat2x3(1.0, 2.0, 3.0, 4.0, 5.0, 6.0);
    o[19] = (cm == cs) ? cm[1][2] : -1.0;      // 6
}`
	p := mustParse(t, src)
	noStatic(t, p)
	bufs := xrt.Buffers{sb(0): make([]byte, 128)}
	res := runOK(t, p, bufs, xrt.Options{TrapMode: true})
	if len(res.Traps) != 0 {
		t.Errorf("traps: %v", res.Traps)
	}
	wantFloats(t, bufs[sb(0)], 6, 5421, 4, 7, 92, 4, 3, 36, 10, 86.5, 42.5, 6.5, 7, 1, 1, 1, 5, 101, 7.5, 6)
}

func TestBuiltinsDirect(t *testing.T) {
	src := hdr430 + `
layout(std430, binding = 0) buffer O { float o[]; };
layout(std430, binding = 1) buffer U { uint u[]; };
void main() {
    uint carry; uint borrow; uint hi; uint lo; int ihi; int ilo;
    u[0] = uaddCarry(0xFFFFFFFFu, 2u, carry); u[1] = carry;      // 1, 1
    u[2] = usubBorrow(1u, 2u, borrow); u[3] = borrow;             // 0xFFFFFFFF, 1
    umulExtended(0x10000u, 0x10000u, hi, lo); u[4] = hi; u[5] = lo;   // 1, 0
    imulExtended(-2, 0x40000000, ihi, ilo); u[6] = uint(ihi); u[7] = uint(ilo);  // -2^31 -> hi = -1, lo = 0x80000000
    u[8] = uint(findMSB(-1)) ; u[9] = uint(findMSB(0x00FF0000)); u[10] = uint(findLSB(0u)); u[11] = uint(bitCount(-1));
    u[12] = bitfieldExtract(0xF0u, 4, 4); u[13] = uint(bitfieldExtract(0xF0, 4, 4));   // 15, -1
    u[14] = bitfieldInsert(0u, 0xFFu, 28, 4);    // 0xF0000000
    u[15] = bitfieldReverse(2u);                 // 0x40000000
    u[16] = packUnorm2x16(vec2(1.0, 0.0)); u[17] = floatBitsToUint(-0.0);
    o[0] = mod(-1.5, 1.0);                 // 0.5
    o[1] = roundEven(2.5) + roundEven(3.5) + round(2.4);   // 2 + 4 + 2
    o[2] = float(isnan(o[31])) + 10.0 * float(isinf(1.0 / o[30]));   // o[31] NaN, o[30] zero -> 1 + 10
    mat2 m = mat2(4.0, 2.0, 7.0, 6.0);     // columns (4,2) (7,6): det = 24 - 14 = 10
    o[3] = determinant(m);
    mat2 inv = inverse(m);                 // 1/10 * [[6,-7],[-2,4]] -> columns (0.6,-0.2) (-0.7,0.4)
    o[4] = inv[0][0]; o[5] = inv[0][1]; o[6] = inv[1][0]; o[7] = inv[1][1];
    mat3 m3 = mat3(2.0, 0.0, 0.0, 0.0, 4.0, 0.0, 1.0, 0.0, 8.0);
    o[8] = determinant(m3);                // 64
    mat3 i3 = inverse(m3);                 // i3[2][0] = -1/16 , i3[1][1] = 0.25
    o[9] = i3[2][0]; o[10] = i3[1][1];
    mat2x3 op = outerProduct(vec3(1.0, 2.0, 3.0), vec2(10.0, 20.0));   // op[col][row] = c[row]*r[col]
    o[11] = op[1][2];                      // 60
    o[12] = matrixCompMult(m, m)[1][0];    // 49
    o[13] = refract(vec2(0.0, -1.0), vec2(0.0, 1.0), 0.5).y;  // straight through: -1
    o[14] = float(any(lessThan(ivec2(1, 5), ivec2(2, 3)))) + float(all(greaterThanEqual(uvec2(1u), uvec2(1u)))) * 10.0;  // 11
    o[15] = float(not(bvec2(true, false)).y);        // 1
    o[16] = mix(1.0, 2.0, true) + mix(ivec2(1, 2), ivec2(3, 4), bvec2(false, true)).y;   // 2 + 4 (int -> float implicit)
    o[17] = ldexp(0.5, 4) + smoothstep(0.0, 2.0, 1.0) + sign(-0.0);     // 8 + 0.5 + 0
    int e; float fr = frexp(-6.0, e);
    o[18] = fr * 100.0 + float(e);          // -0.75 * 100 + 3
    float ip; float fp = modf(2.75, ip);
    o[19] = ip * 10.0 + fp;                 // 20.75
    vec2 h = unpackHalf2x16(packHalf2x16(vec2(0.333251953125, 65504.0)));  // both exactly representable in f16
    o[20] = h.x; o[21] = h.y;
    o[22] = float(transpose(mat2x3(1.0, 2.0, 3.0, 4.0, 5.0, 6.0))[2].y);   // row 2 of column 1 = 6
    o[23] = degrees(radians(90.0));
    o[24] = distance(vec3(1.0, 2.0, 3.0), vec3(1.0, 2.0, 7.0)) + length(-3.0) + dot(2.0, 3.0);   // 4 + 3 + 6
    o[25] = float(gl_WorkGroupSize.x + gl_NumWorkGroups.y);    // 1 + 1
    o[26] = fma(2.0, 3.0, 4.0) + clamp(5.0, 0.0, 1.0) + min(vec2(1.0, 9.0), 4.0).y + max(ivec2(1, 9), 4).x;  // 10+1+4+4
    o[27] = step(vec2(0.5), vec2(0.2, 0.7)).y + inversesqrt(0.25) + exp2(-1.0) + abs(-2.5) + float(abs(-7));   // 1+2+0.5+2.5+7
}`
	p := mustParse(t, src)
	noStatic(t, p)
	ob := make([]byte, 128)
	copy(ob[31*4:], u32s(0x7FC00000))
	bufs := xrt.Buffers{sb(0): ob, sb(1): make([]byte, 128)}
	res := runOK(t, p, bufs, xrt.Options{TrapMode: true})
	if len(res.Traps) != 0 {
		t.Errorf("traps: %v", res.Traps)
	}
	wantU32s(t, bufs[sb(1)], 1, 1, 0xFFFFFFFF, 1, 1, 0, 0xFFFFFFFF, 0x80000000, 0xFFFFFFFF, 23, 0xFFFFFFFF, 32, 15, 0xFFFFFFFF, 0xF0000000, 0x40000000, 0x0000FFFF, 0x80000000)
	f := func(x float64) float32 { return float32(x) }
	wantFloats(t, ob, 0.5, 8, 11, 10, f(6.0)/f(10), f(-2.0)/f(10), f(-7.0)/f(10), f(4.0)/f(10), 64, f(-4.0)/f(64), f(16.0)/f(64), 60, 49, -1, 11, 1, 6, 8.5,
		-72, 20.75, 0.333251953125, 65504, 6)
	if g := getF32(ob, 23); math.Abs(float64(g-90)) > 1e-4 {
		t.Errorf("degrees(radians(90)) = %v", g)
	}
	wantFloats(t, ob[24*4:], 13, 2, 19, 13)
	if res.Cov["fn.uaddCarry"] != 1 || res.Cov["fn.inverse"] != 2 {
		t.Errorf("cov: %v", res.Cov)
	}
}

func TestDynamicTraps(t *testing.T) {
	src := hdr430 + `
layout(std430, binding = 0) buffer O { int o[]; };
layout(std430, binding = 1) readonly buffer I { int i[]; };
int noReturn(int x) { if (x > 100) { return 1; } }
void main() {
    o[0] = i[0] / i[1];                  // line 8: 1 / 0
    o[1] = i[2] / i[3];                  // INT_MIN / -1
    o[2] = i[0] % i[3];                  // negative operand
    o[3] = i[0] << i[4];                 // shift by 32
    o[4] = i[0] >> i[3];                 // negative shift
    o[5] = int(uintBitsToFloat(0x7F800000u));  // +inf
    o[6] = int(uint(-1.5 * float(i[0])));      // negative float to uint
    o[7] = bitfieldExtract(i[0], 30, 4);       // offset + bits > 32
    o[8] = i[9];                         // line 16: outside the 32-byte buffer
    o[100] = 1;                          // write outside
    ivec3 v = ivec3(1, 2, 3);
    o[9] = v[i[5]];                      // index 3
    mat2 m = mat2(1.0);
    o[10] = int(m[i[5]].x);              // column 3
    o[11] = noReturn(i[0]);              // falls off the end
    o[12] = int(sqrt(float(i[3])));      // sqrt(-1)
    o[13] = clamp(i[0], 5, 1);
}`
	p := mustParse(t, src)
	noStatic(t, p)
	mk := func() xrt.Buffers {
		return xrt.Buffers{sb(0): make([]byte, 64), sb(1): i32s(1, 0, intMin, -1, 32, 3, 0, 0)}
	}
	bufs := mk()
	res := runOK(t, p, bufs, xrt.Options{TrapMode: true})
	checks := []struct {
		k   xrt.TrapKind
		sub string
	}{
		{xrt.TrapDivZero, "line 8 "}, {xrt.TrapDivOvf, "line 9 "}, {xrt.TrapOther, "mod-negative"}, {xrt.TrapShift, "line 11 "}, {xrt.TrapShift, "line 12 "},
		{xrt.TrapF2I, "line 13 "}, {xrt.TrapF2I, "negative float to uint"}, {xrt.TrapOther, "bitfield range"}, {xrt.TrapOOB, "line 16 "}, {xrt.TrapOOB, "line 17 "},
		{xrt.TrapOOB, "line 19 "}, {xrt.TrapOOB, "line 21 "}, {xrt.TrapUnreach, "noReturn"}, {xrt.TrapOther, "sqrt"}, {xrt.TrapF2I, "line 23 "}, {xrt.TrapOther, "minVal > maxVal"},
		{xrt.TrapPoison, "line 22 "},
	}
	for _, c := range checks {
		if !hasTrap(res.Traps, c.k, c.sub) {
			t.Errorf("missing trap %s / %q in %v", c.k, c.sub, res.Traps)
		}
	}
	if len(res.Traps) != len(checks) {
		t.Errorf("got %d traps, want %d: %v", len(res.Traps), len(checks), res.Traps)
	}
	if got := getI32(bufs[sb(0)], 9); got != 3 { // clamped read
		t.Errorf("clamped vector read = %d", got)
	}
	// non-trap mode: natural results, nothing reported
	bufs = mk()
	res = runOK(t, p, bufs, xrt.Options{})
	if len(res.Traps) != 0 {
		t.Errorf("traps in non-trap mode: %v", res.Traps)
	}
	wantInts(t, bufs[sb(0)], 0, intMin, 0, 1, 0, 2147483647, 0, 0, 0, 3)
}

func TestBarrierScheduling(t *testing.T) {
	src := `#version 430 core
layout(local_size_x = 4, local_size_y = 1, local_size_z = 1) in;
layout(std430, binding = 0) buffer O { uint o[]; };
shared uint s[4];
shared uint order;
void main() {
    uint li = gl_LocalInvocationIndex;
    if (li == 0u) { order = 0u; }
    barrier();
    s[li] = atomicAdd(order, 1u);      // invocations run in index order between barriers
    memoryBarrierShared();
    barrier();
    o[li] = s[3u - li] * 10u + order;  // s = 0,1,2,3 ; order = 4
}`
	p := mustParse(t, src)
	noStatic(t, p)
	bufs := xrt.Buffers{sb(0): make([]byte, 16)}
	res := runOK(t, p, bufs, xrt.Options{TrapMode: true})
	if len(res.Traps) != 0 {
		t.Errorf("traps: %v", res.Traps)
	}
	wantU32s(t, bufs[sb(0)], 34, 24, 14, 4)

	div := `#version 430 core
layout(local_size_x = 2, local_size_y = 1, local_size_z = 1) in;
layout(std430, binding = 0) buffer O { uint o[]; };
void main() {
    if (gl_LocalInvocationIndex == 0u) { return; }
    barrier();
    o[0] = 1u;
}`
	p = mustParse(t, div)
	bufs = xrt.Buffers{sb(0): make([]byte, 16)}
	res = runOK(t, p, bufs, xrt.Options{TrapMode: true})
	if !hasTrap(res.Traps, xrt.TrapOther, "non-uniform") {
		t.Errorf("divergent barrier not reported: %v", res.Traps)
	}
	// an error inside one invocation must stop the whole group cleanly
	loop := `#version 430 core
layout(local_size_x = 3, local_size_y = 1, local_size_z = 1) in;
layout(std430, binding = 0) buffer O { uint o[]; };
void main() {
    barrier();
    if (gl_LocalInvocationIndex == 1u) { while (true) { o[0] += 1u; } }
    barrier();
}`
	p = mustParse(t, loop)
	bufs = xrt.Buffers{sb(0): make([]byte, 16)}
	_, err := p.Run("main", bufs, xrt.Options{MaxSteps: 5000})
	var u *xrt.Unsupported
	if !errors.As(err, &u) || u.What != "step budget" {
		t.Errorf("step budget: %v", err)
	}
}

// ---------- static monitors ----------

func staticKinds(t *testing.T, src string) []*xrt.Trap {
	t.Helper()
	p, err := Parse(src)
	if err != nil {
		t.Fatalf("Parse: %v\n%s", err, src)
	}
	return p.StaticTraps()
}

func TestStaticNegative(t *testing.T) {
	body := func(pre, stmts string) string {
		return hdr430 + "layout(std430, binding = 0) buffer O { int o[]; };\n" + pre + "\nvoid main() {\n" + stmts + "\n}\n"
	}
	cases := []struct {
		name string
		src  string
		kind xrt.TrapKind
		sub  string
	}{
		{"reserved local (future)", body("", "int input = 1; o[0] = input;"), xrt.TrapReserved, "\"input\""},
		{"reserved local (keyword)", body("", "float sample = 1.0;"), xrt.TrapReserved, "\"sample\""},
		{"reserved struct member", body("struct S { int half; };", "S s = S(1); o[0] = s.half;"), xrt.TrapReserved, "\"half\""},
		{"reserved function name", body("int filter(int x) { return x; }", "o[0] = filter(1);"), xrt.TrapReserved, "\"filter\""},
		{"reserved parameter", body("int f(int common) { return common; }", "o[0] = f(1);"), xrt.TrapReserved, "\"common\""},
		{"reserved global gl_", body("int gl_Thing = 1;", "o[0] = gl_Thing;"), xrt.TrapReserved, "gl_ prefix"},
		{"reserved double underscore", body("", "int a__b = 1; o[0] = a__b;"), xrt.TrapReserved, "__"},
		{"reserved struct name", body("struct union { int x; };", ""), xrt.TrapReserved, "\"union\""},
		{"reserved type keyword as variable", body("", "int sampler2D = 1;"), xrt.TrapReserved, "\"sampler2D\""},
		{"duplicate local", body("", "int x = 1; float x = 2.0; o[0] = 1;"), xrt.TrapRedecl, "\"x\""},
		{"local redeclares parameter", body("int f(int p) { int p = 2; return p; }", "o[0] = f(1);"), xrt.TrapRedecl, "\"p\""},
		{"for body redeclares loop variable", body("", "for (int i = 0; i < 2; i++) { int i = 5; o[0] = i; }"), xrt.TrapRedecl, "\"i\""},
		{"duplicate function", body("int f(int a) { return 1; }\nint f(int b) { return 2; }", "o[0] = f(1);"), xrt.TrapRedecl, "\"f\""},
		{"duplicate global", body("int g = 1;\nfloat g = 2.0;", ""), xrt.TrapRedecl, "\"g\""},
		{"function vs global", body("int g = 1;\nint g(int a) { return a; }", ""), xrt.TrapRedecl, "\"g\""},
		{"duplicate struct member", body("struct S { int a; float a; };", ""), xrt.TrapRedecl, "\"a\""},
		{"duplicate struct", body("struct S { int a; };\nstruct S { int b; };", ""), xrt.TrapRedecl, "\"S\""},
		{"undeclared identifier", body("", "o[0] = nothing;"), xrt.TrapUnresolved, "\"nothing\""},
		{"undeclared function", body("", "o[0] = helper(1);"), xrt.TrapUnresolved, "\"helper\""},
		{"function used before declaration", body("", "o[0] = later(1);") + "int later(int x) { return x; }\n", xrt.TrapUnresolved, "\"later\""},
		{"unknown member", body("struct S { int a; };", "S s = S(1); o[0] = s.b;"), xrt.TrapUnresolved, "\"b\""},
		{"out-of-scope use", body("", "{ int inner = 1; } o[0] = inner;"), xrt.TrapUnresolved, "\"inner\""},
		{"wrong argument count", body("int f(int a, int b) { return a + b; }", "o[0] = f(1);"), xrt.TrapUnresolved, "takes 1 argument"},
		{"wrong builtin argument count", body("", "o[0] = min(1);"), xrt.TrapUnresolved, "takes 1 argument"},
		{"float to int assignment", body("", "int x = 1; x = 2.5; o[0] = x;"), xrt.TrapType, "cannot assign a value of type float"},
		{"float to int initialiser", body("", "int x = 2.5; o[0] = x;"), xrt.TrapType, "cannot initialise"},
		{"uint to int", body("", "int x = 1u; o[0] = x;"), xrt.TrapType, "cannot initialise"},
		{"float argument for int parameter", body("int f(int a) { return a; }", "o[0] = f(1.5);"), xrt.TrapType, "argument types (float)"},
		{"float returned from int function", body("int f() { return 1.5; }", "o[0] = f();"), xrt.TrapType, "cannot return float"},
		{"non-bool condition", body("", "if (1) { o[0] = 1; }"), xrt.TrapType, "scalar bool"},
		{"vector condition", body("", "o[0] = bvec2(true) ? 1 : 2;"), xrt.TrapType, "scalar bool"},
		{"vector size mismatch", body("", "vec3 a = vec3(1.0) + vec2(1.0);"), xrt.TrapType, "vec3 and vec2"},
		{"vec3 from vec2", body("", "vec3 a = vec2(1.0);"), xrt.TrapType, "cannot initialise"},
		{"constructor too few", body("", "vec3 a = vec3(1.0, 2.0);"), xrt.TrapType, "not enough components"},
		{"constructor too many", body("", "vec2 a = vec2(1.0, 2.0, 3.0);"), xrt.TrapType, "too many arguments"},
		{"struct constructor arity", body("struct S { int a; float b; };", "S s = S(1);"), xrt.TrapType, "needs 2 arguments"},
		{"array constructor arity", body("", "int a[3] = int[3](1, 2);"), xrt.TrapType, "needs 3 arguments"},
		{"calling a variable", body("", "int v = 1; o[0] = v(2);"), xrt.TrapType, "not a function"},
		{"mod on floats", body("", "float f = 5.0 % 2.0;"), xrt.TrapType, "operator %"},
		{"logical and on ints", body("", "bool b = 1 && 2;"), xrt.TrapType, "operator &&"},
		{"relational on vectors", body("", "bool b = vec2(1.0) < vec2(2.0);"), xrt.TrapType, "operator <"},
		{"assign to const", body("const int K = 1;", "K = 2;"), xrt.TrapType, "not writable"},
		{"assign to readonly buffer", hdr430 + "layout(std430, binding = 0) readonly buffer I { int i[]; };\nvoid main() { i[0] = 1; }\n", xrt.TrapType, "not writable"},
		{"assign to uniform", hdr430 + "layout(std140, binding = 0) uniform U { int u; };\nvoid main() { u = 1; }\n", xrt.TrapType, "not writable"},
		{"assign to rvalue", body("", "int a = 1; (a + 1) = 2;"), xrt.TrapType, "l-value"},
		{"duplicate swizzle write", body("", "vec2 v = vec2(0.0); v.xx = vec2(1.0);"), xrt.TrapType, "repeats a component"},
		{"out argument must be l-value", body("void f(out int x) { x = 1; }", "f(3);"), xrt.TrapType, "l-value"},
		{"matrix dimension mismatch", body("", "vec3 r = mat2(1.0) * vec3(1.0);"), xrt.TrapType, "operator *"},
		{"shift by float", body("", "int a = 1 << 1.0;"), xrt.TrapType, "operator <<"},
		{"mixed int/uint bitwise in ES", hdrES + "layout(std430, binding = 0) buffer O { int o[]; };\nvoid main() { uint a = 1u | 2; }\n", xrt.TrapType, "operator |"},
		{"implicit int to float in ES", hdrES + "layout(std430, binding = 0) buffer O { int o[]; };\nvoid main() { float f = 1; }\n", xrt.TrapType, "cannot initialise"},
		{"int to uint in ES", hdrES + "layout(std430, binding = 0) buffer O { uint o[]; };\nvoid main() { o[0] = 31 - findMSB(o[1]); }\n", xrt.TrapType, "cannot assign a value of type int"},
		{"builtin redefined in ES", hdrES + "float fract(float x) { return x; }\nvoid main() { }\n", xrt.TrapReserved, "built-in function name"},
		{"swizzle out of range", body("", "vec2 v = vec2(1.0); float z = v.z;"), xrt.TrapType, "outside vec2"},
		{"constant index out of range", body("", "int a[2] = int[2](1, 2); o[0] = a[2];"), xrt.TrapType, "constant index 2 out of range"},
		{"break outside loop", body("", "break;"), xrt.TrapType, "break outside"},
		{"missing return value", body("int f() { return; }", ""), xrt.TrapType, "return without value"},
		{"recursion", body("int f(int x);\nint g(int x) { return f(x); }\nint f(int x) { return g(x); }", "o[0] = f(1);"), xrt.TrapType, "recursion"},
		{"non-constant array size", body("", "int n = 2; int a[n];"), xrt.TrapType, "array size"},
		{"non-constant global initialiser", body("int f() { return 1; }\nint g = f();", ""), xrt.TrapType, "not a constant expression"},
		{"case label type mismatch", hdrES + "layout(std430, binding = 0) buffer O { int o[]; };\nvoid main() { switch (o[0]) { case 1u: o[1] = 1; break; } }\n", xrt.TrapType, "case label type"},
		{"duplicate case", body("", "switch (o[0]) { case 1: o[1] = 1; break; case 1: o[1] = 2; break; }"), xrt.TrapType, "duplicate case"},
		{"atomic on private memory", body("", "int x = 1; atomicAdd(x, 1);"), xrt.TrapType, "buffer or shared"},
		{"ambiguous conversion-only overload", body("int f(uint a) { return 1; }\nint f(float a) { return 2; }", "o[0] = f(1);"), xrt.TrapType, "ambiguous"},
	}
	for _, c := range cases {
		traps := staticKinds(t, c.src)
		if !hasTrap(traps, c.kind, c.sub) {
			t.Errorf("%s: want %s containing %q, got %v", c.name, c.kind, c.sub, traps)
		}
	}
	// desktop-legal texts must stay silent
	legal := []struct{ name, src string }{
		{"implicit conversions 430", body("float f(float x) { return x; }\nfloat g() { return 1; }", "float a = 1; uint u = 2; vec3 v = ivec3(1); a = f(3) + g() + 2; u = u + 1; o[0] = int(a) + int(u) + int(v.x); float w = true ? 1 : 2.0; uvec2 q = uvec2(1u) + ivec2(2);")},
		{"variable named like a built-in function", body("", "float fract = 1.5; int mod = 2; o[0] = int(fract) + mod;")},
		{"overloading a built-in on desktop", body("float fract(int x) { return 0.5; }", "o[0] = int(fract(3) + fract(2.5));")},
		{"local hides global", body("int g = 1;", "int g = 2; { int g = 3; o[0] = g; } o[1] = g;")},
		{"struct and function share no name", body("struct S { int a; };\nS mk() { return S(1); }", "S s = mk(); o[0] = s.a;")},
		{"hex, octal, exponent literals", body("", "o[0] = 0x7fffffff + 017 + int(1e2) + int(.5) + int(2.) + int(3.0f) + int(0xFFFFFFFFu >> 31u); o[1] = -2147483648;")},
		{"shift of int by uint and vector by scalar", body("", "ivec2 v = ivec2(1, 2) << 3u; uint u = 1u << 2; o[0] = v.x + int(u);")},
		{"switch on uint with int labels (4.x implicit conversion)", body("", "switch (uint(o[0])) { case 1: o[1] = 1; break; default: break; }")},
	}
	for _, c := range legal {
		for _, tr := range staticKinds(t, c.src) {
			t.Errorf("%s: unexpected static trap %v", c.name, tr)
		}
	}
	// "if in doubt do not flag": these run as well
	p := mustParse(t, legal[1].src)
	bufs := xrt.Buffers{sb(0): make([]byte, 16)}
	runOK(t, p, bufs, xrt.Options{TrapMode: true})
	wantInts(t, bufs[sb(0)], 3)
	p = mustParse(t, legal[2].src)
	runOK(t, p, bufs, xrt.Options{TrapMode: true})
	wantInts(t, bufs[sb(0)], 1)
	p = mustParse(t, legal[5].src)
	runOK(t, p, bufs, xrt.Options{TrapMode: true})
	wantInts(t, bufs[sb(0)], 0x7fffffff+15+100+0+2+3+1-(1<<32), intMin)
}

func TestParseErrorsAndUnsupported(t *testing.T) {
	plain := []string{
		hdr430 + "void main() { int x = ; }",
		hdr430 + "void main() { int for = 1; for = 2; }",
		hdr430 + "void main() { x = 1 }",
		hdr430 + "void main() { int a = 4294967296; }",
		hdr430 + "void main() { float f = 1.0q; }",
		hdr430 + "void main() { case 1: ; }",
		hdr430 + "void main() { @ }",
		"void main() { }\n#version 430 core\n",
		hdr430 + "/* unterminated",
	}
	for _, src := range plain {
		_, err := Parse(src)
		var u *xrt.Unsupported
		if err == nil || errors.As(err, &u) {
			t.Errorf("want plain syntax error, got %v for %q", err, src)
		}
	}
	unsup := []string{
		"#version 430 core\nvoid main() { }",                                                 // no local size: not compute
		hdr430 + "uniform sampler2D tex;\nvoid main() { vec4 c = texture(tex, vec2(0.0)); }", // reachable texture use
		hdr430 + "void main() { double d = 1.0lf; }",
		hdr430 + "#define X 1\nvoid main() { }",
		hdr430 + "layout(binding = 0) buffer B { int x; };\nvoid main() { x = 1; }", // no std140/std430: implementation-defined layout
		hdr430 + "void main() { int64_t x; }",
	}
	for _, src := range unsup {
		_, err := Parse(src)
		var u *xrt.Unsupported
		if !errors.As(err, &u) {
			t.Errorf("want Unsupported, got %v for %q", err, src)
		}
	}
	// unsupported declarations and functions are skipped when main does not reach them
	src := hdr430 + `
uniform sampler2D tex;
layout(rgba8) uniform image2D img;
layout(std430, binding = 0) buffer O { int o[]; };
vec4 sampleIt(vec2 uv) { return texture(tex, uv); }
void store() { imageStore(img, ivec2(0), vec4(1.0)); }
void main() { o[0] = 1; }`
	p := mustParse(t, src)
	noStatic(t, p)
	var names []string
	for _, d := range p.Decls() {
		names = append(names, d.Kind+":"+d.Scope+":"+d.Name)
	}
	got := strings.Join(names, " ")
	for _, w := range []string{"global::tex", "type::O", "global::o", "function::sampleIt", "param:sampleIt:uv", "entry::main"} {
		if !strings.Contains(got, w) {
			t.Errorf("Decls missing %s in %s", w, got)
		}
	}
}
