package glslx

import (
	"strings"

	"verif/internal/xrt"
)

func isConstExpr(e expr) bool {
	if ce, ok := e.(interface{ isConst() bool }); ok {
		return ce.isConst()
	}
	return false
}

func typeCovName(t *Type) string { return t.String() }

// expr type-checks e, records its type and returns it.
func (c *checker) expr(e expr) *Type {
	t := c.expr1(e)
	if t == nil {
		t = tError
	}
	setType(e, t)
	return t
}

func setType(e expr, t *Type) {
	switch x := e.(type) {
	case *intLit:
		x.t = t
	case *floatLit:
		x.t = t
	case *boolLit:
		x.t = t
	case *identExpr:
		x.t = t
	case *unaryExpr:
		x.t = t
	case *binaryExpr:
		x.t = t
	case *assignExpr:
		x.t = t
	case *condExpr:
		x.t = t
	case *commaExpr:
		x.t = t
	case *indexExpr:
		x.t = t
	case *memberExpr:
		x.t = t
	case *lengthExpr:
		x.t = t
	case *callExpr:
		x.t = t
	}
}

func (c *checker) expr1(e expr) *Type {
	switch x := e.(type) {
	case *intLit:
		x.konst = true
		if x.unsigned {
			return tUint
		}
		return tInt
	case *floatLit:
		x.konst = true
		return tFloat
	case *boolLit:
		x.konst = true
		return tBool
	case *identExpr:
		return c.ident(x)
	case *unaryExpr:
		return c.unary(x)
	case *binaryExpr:
		return c.binary(x)
	case *assignExpr:
		return c.assign(x)
	case *condExpr:
		ct := c.expr(x.c)
		at := c.expr(x.a)
		bt := c.expr(x.b)
		if !ct.isErr() && ct.Kind != KBool {
			c.trap(xrt.TrapType, x.line, "?: condition must be a scalar bool, got %s", ct)
			return tError
		}
		if ct.isErr() || at.isErr() || bt.isErr() {
			return tError
		}
		x.konst = isConstExpr(x.c) && isConstExpr(x.a) && isConstExpr(x.b)
		if sameType(at, bt) {
			if at.Kind == KVoid {
				return tVoid
			}
			if at.Kind == KArray && c.prog.es && c.prog.version < 310 {
				c.trap(xrt.TrapType, x.line, "?: on arrays")
			}
			return at
		}
		if conv, ok := c.coerce(at, bt); ok {
			x.aconv = conv
			return bt
		}
		if conv, ok := c.coerce(bt, at); ok {
			x.bconv = conv
			return at
		}
		c.trap(xrt.TrapType, x.line, "?: operands have different types %s and %s", at, bt)
		return tError
	case *commaExpr:
		c.expr(x.l)
		t := c.expr(x.r)
		x.konst = false // the sequence operator is not allowed in constant expressions
		return t
	case *indexExpr:
		return c.index(x)
	case *memberExpr:
		return c.member(x)
	case *lengthExpr:
		t := c.expr(x.x)
		if t.isErr() {
			return tError
		}
		switch t.Kind {
		case KArray:
			x.konst = t.N >= 0
			return tInt
		case KVec, KMat:
			if c.prog.es || c.prog.version < 420 {
				c.trap(xrt.TrapType, x.line, ".length() on %s is not available in this GLSL version", t)
				return tError
			}
			x.konst = true
			return tInt
		}
		c.trap(xrt.TrapType, x.line, ".length() applied to %s", t)
		return tError
	case *callExpr:
		return c.call(x)
	}
	return tError
}

var builtinVars = map[string]*Type{}

func init() {
	u3 := vecOf(tUint, 3)
	builtinVars["gl_NumWorkGroups"] = u3
	builtinVars["gl_WorkGroupSize"] = u3
	builtinVars["gl_WorkGroupID"] = u3
	builtinVars["gl_LocalInvocationID"] = u3
	builtinVars["gl_GlobalInvocationID"] = u3
	builtinVars["gl_LocalInvocationIndex"] = tUint
}

func (c *checker) ident(x *identExpr) *Type {
	ent := c.cur.lookup(x.name)
	if ent == nil {
		if t, ok := builtinVars[x.name]; ok {
			sym := c.prog.builtinSym(x.name, t)
			x.sym = sym
			x.konst = x.name == "gl_WorkGroupSize"
			return t
		}
		if strings.HasPrefix(x.name, "gl_") {
			return c.unsupported("built-in variable " + x.name)
		}
		c.trap(xrt.TrapUnresolved, x.line, "undeclared identifier %q", x.name)
		return tError
	}
	switch ent.kind {
	case seVar:
		x.sym = ent.v
		if ent.v.kind == symUnsupportedGlobal {
			return c.unsupported("use of " + ent.v.name + " (" + ent.v.why + ")")
		}
		x.konst = ent.v.konst && ent.v.constInit
		return ent.v.t
	case seFunc:
		c.trap(xrt.TrapType, x.line, "function %q used as a value", x.name)
	case seType:
		c.trap(xrt.TrapType, x.line, "type %q used as a value", x.name)
	case seBlock:
		c.trap(xrt.TrapUnresolved, x.line, "block name %q used as a value", x.name)
	}
	return tError
}

// lvalue checks that e designates writable storage.
func (c *checker) lvalue(e expr, what string) bool {
	switch x := e.(type) {
	case *identExpr:
		if x.sym == nil {
			return x.t.isErr()
		}
		if x.sym.readonly || x.sym.kind == symBuiltinVar || x.sym.kind == symGlobalConst {
			c.trap(xrt.TrapType, x.line, "%s: %q is not writable", what, x.name)
			return false
		}
		return true
	case *indexExpr:
		return c.lvalue(x.x, what)
	case *memberExpr:
		if !c.lvalue(x.x, what) {
			return false
		}
		if x.swz != nil {
			seen := [4]bool{}
			for _, k := range x.swz {
				if seen[k] {
					c.trap(xrt.TrapType, x.line, "%s: swizzle %q repeats a component", what, x.name)
					return false
				}
				seen[k] = true
			}
			return true
		}
		// readonly member of a block instance
		if bx, ok := x.x.(*identExpr); ok && bx.sym != nil && bx.sym.block != nil && bx.sym.memberIdx < 0 && x.isField {
			if bx.sym.block.T.Fields[x.field].memReadonly {
				c.trap(xrt.TrapType, x.line, "%s: member %q is readonly", what, x.name)
				return false
			}
		}
		return true
	}
	if e.typ().isErr() {
		return true
	}
	c.trap(xrt.TrapType, e.pos(), "%s: expression is not an l-value", what)
	return false
}

func (c *checker) unary(x *unaryExpr) *Type {
	t := c.expr(x.x)
	if t.isErr() {
		return tError
	}
	x.konst = isConstExpr(x.x)
	x.covKey = "op." + x.op + "." + typeCovName(t)
	s := t.scalarType()
	switch x.op {
	case "+", "-":
		if s == nil || !s.isNumeric() {
			c.trap(xrt.TrapType, x.line, "unary %s applied to %s", x.op, t)
			return tError
		}
		return t
	case "++", "--":
		x.konst = false
		if s == nil || !s.isNumeric() {
			c.trap(xrt.TrapType, x.line, "%s applied to %s", x.op, t)
			return tError
		}
		c.lvalue(x.x, x.op)
		return t
	case "!":
		if t.Kind != KBool {
			c.trap(xrt.TrapType, x.line, "! applied to %s (needs scalar bool)", t)
			return tError
		}
		return t
	case "~":
		if s == nil || (s.Kind != KInt && s.Kind != KUint) || t.Kind == KMat {
			c.trap(xrt.TrapType, x.line, "~ applied to %s", t)
			return tError
		}
		return t
	}
	return tError
}

// commonBase finds the numeric base both operands convert to.
func (c *checker) commonBase(a, b *Type) *Type {
	if a == b {
		return a
	}
	if c.implicitScalar(a.Kind, b.Kind) {
		return b
	}
	if c.implicitScalar(b.Kind, a.Kind) {
		return a
	}
	return nil
}

// binaryType implements the operator typing rules of GLSL §5.9.
func (c *checker) binaryType(op string, lt, rt *Type, line int) (res, lconv, rconv *Type) {
	fail := func() (*Type, *Type, *Type) {
		c.trap(xrt.TrapType, line, "operator %s cannot be applied to %s and %s", op, lt, rt)
		return tError, nil, nil
	}
	ls, rs := lt.scalarType(), rt.scalarType()
	convTo := func(t *Type, base *Type) *Type {
		if t.scalarType() == base {
			return nil
		}
		return withScalar(t, base)
	}
	eff := func(t, conv *Type) *Type {
		if conv != nil {
			return conv
		}
		return t
	}
	switch op {
	case "+", "-", "*", "/":
		if ls == nil || rs == nil || !ls.isNumeric() || !rs.isNumeric() {
			return fail()
		}
		base := c.commonBase(ls, rs)
		if base == nil {
			return fail()
		}
		if (lt.Kind == KMat || rt.Kind == KMat) && base != tFloat {
			return fail()
		}
		lconv, rconv = convTo(lt, base), convTo(rt, base)
		l, r := eff(lt, lconv), eff(rt, rconv)
		switch {
		case l.isScalar() && r.isScalar():
			return l, lconv, rconv
		case l.isScalar():
			return r, lconv, rconv
		case r.isScalar():
			return l, lconv, rconv
		case l.Kind == KVec && r.Kind == KVec:
			if l.N != r.N {
				return fail()
			}
			return l, lconv, rconv
		}
		// at least one matrix, no scalars
		if op != "*" {
			if l.Kind == KMat && r.Kind == KMat && l.N == r.N && l.Rows == r.Rows {
				return l, lconv, rconv
			}
			return fail()
		}
		switch {
		case l.Kind == KVec && r.Kind == KMat: // row vector * matrix
			if l.N != r.Rows {
				return fail()
			}
			return vecOf(tFloat, r.N), lconv, rconv
		case l.Kind == KMat && r.Kind == KVec:
			if l.N != r.N {
				return fail()
			}
			return vecOf(tFloat, l.Rows), lconv, rconv
		case l.Kind == KMat && r.Kind == KMat:
			if l.N != r.Rows {
				return fail()
			}
			return matTypes[r.N][l.Rows], lconv, rconv
		}
		return fail()
	case "%", "&", "|", "^":
		if ls == nil || rs == nil || lt.Kind == KMat || rt.Kind == KMat {
			return fail()
		}
		if (ls.Kind != KInt && ls.Kind != KUint) || (rs.Kind != KInt && rs.Kind != KUint) {
			return fail()
		}
		base := c.commonBase(ls, rs)
		if base == nil {
			return fail()
		}
		lconv, rconv = convTo(lt, base), convTo(rt, base)
		l, r := eff(lt, lconv), eff(rt, rconv)
		switch {
		case l.isScalar() && r.isScalar():
			return l, lconv, rconv
		case l.isScalar():
			return r, lconv, rconv
		case r.isScalar():
			return l, lconv, rconv
		case l.N == r.N:
			return l, lconv, rconv
		}
		return fail()
	case "<<", ">>":
		if ls == nil || rs == nil || lt.Kind == KMat || rt.Kind == KMat {
			return fail()
		}
		if (ls.Kind != KInt && ls.Kind != KUint) || (rs.Kind != KInt && rs.Kind != KUint) {
			return fail()
		}
		if lt.isScalar() && !rt.isScalar() {
			return fail()
		}
		if lt.Kind == KVec && rt.Kind == KVec && lt.N != rt.N {
			return fail()
		}
		return lt, nil, nil
	case "<", ">", "<=", ">=":
		if !lt.isScalar() || !rt.isScalar() || !lt.isNumeric() || !rt.isNumeric() {
			return fail()
		}
		base := c.commonBase(lt, rt)
		if base == nil {
			return fail()
		}
		return tBool, convTo(lt, base), convTo(rt, base)
	case "==", "!=":
		if lt.Kind == KVoid || rt.Kind == KVoid {
			return fail()
		}
		if sameType(lt, rt) {
			if lt.containsRuntimeArray() {
				return fail()
			}
			return tBool, nil, nil
		}
		if cv, ok := c.coerce(lt, rt); ok {
			return tBool, cv, nil
		}
		if cv, ok := c.coerce(rt, lt); ok {
			return tBool, nil, cv
		}
		return fail()
	case "&&", "||", "^^":
		if lt.Kind != KBool || rt.Kind != KBool {
			return fail()
		}
		return tBool, nil, nil
	}
	return fail()
}

func (c *checker) binary(x *binaryExpr) *Type {
	lt := c.expr(x.l)
	rt := c.expr(x.r)
	if lt.isErr() || rt.isErr() {
		return tError
	}
	x.konst = isConstExpr(x.l) && isConstExpr(x.r)
	res, lc, rc := c.binaryType(x.op, lt, rt, x.line)
	x.lconv, x.rconv = lc, rc
	if !res.isErr() {
		ot := lt
		if lc != nil {
			ot = lc
		}
		if ot.isScalar() && !rt.isScalar() && x.op != "<<" && x.op != ">>" {
			ot = rt
			if rc != nil {
				ot = rc
			}
		}
		x.covKey = "op." + x.op + "." + typeCovName(ot)
	}
	return res
}

func (c *checker) assign(x *assignExpr) *Type {
	lt := c.expr(x.l)
	rt := c.expr(x.r)
	if lt.isErr() || rt.isErr() {
		if !lt.isErr() {
			c.lvalue(x.l, "assignment")
		}
		return tError
	}
	c.lvalue(x.l, "assignment")
	if lt.containsRuntimeArray() {
		c.trap(xrt.TrapType, x.line, "assignment to an unsized array")
		return tError
	}
	if x.op == "=" {
		conv, ok := c.coerce(rt, lt)
		if !ok {
			c.trap(xrt.TrapType, x.line, "cannot assign a value of type %s to an l-value of type %s", rt, lt)
			return tError
		}
		x.rconv = conv
		x.covKey = "op.=." + typeCovName(lt)
		return lt
	}
	op := strings.TrimSuffix(x.op, "=")
	res, lc, rc := c.binaryType(op, lt, rt, x.line)
	if res.isErr() {
		return tError
	}
	if lc != nil || !sameType(res, lt) {
		c.trap(xrt.TrapType, x.line, "%s: result type %s cannot be assigned to %s", x.op, res, lt)
		return tError
	}
	x.rconv = rc
	x.covKey = "op." + op + "." + typeCovName(lt)
	return lt
}

func (c *checker) index(x *indexExpr) *Type {
	t := c.expr(x.x)
	it := c.expr(x.i)
	if t.isErr() {
		return tError
	}
	var res *Type
	n := 0
	switch t.Kind {
	case KArray:
		res, n = t.Elem, t.N
	case KVec:
		res, n = t.Elem, t.N
	case KMat:
		res, n = t.colType(), t.N
	default:
		c.trap(xrt.TrapType, x.line, "indexing a value of type %s", t)
		return tError
	}
	if it.isErr() {
		return res
	}
	if it.Kind != KInt && it.Kind != KUint {
		c.trap(xrt.TrapType, x.line, "index must be a scalar integer, got %s", it)
		return res
	}
	x.konst = isConstExpr(x.x) && isConstExpr(x.i)
	if isConstExpr(x.i) && n >= 0 {
		if v, ok := c.constEval(x.i); ok {
			iv := int64(int32(v.S[0].Bits))
			if it.Kind == KUint {
				iv = int64(v.S[0].Bits)
			}
			if iv < 0 || iv >= int64(n) {
				c.trap(xrt.TrapType, x.line, "constant index %d out of range for %s", iv, t)
			}
		}
	}
	return res
}

const swzSets = "xyzwrgbastpq"

func (c *checker) member(x *memberExpr) *Type {
	t := c.expr(x.x)
	if t.isErr() {
		return tError
	}
	x.konst = isConstExpr(x.x)
	switch t.Kind {
	case KStruct:
		for i, f := range t.Fields {
			if f.Name == x.name {
				x.field = i
				x.isField = true
				return f.T
			}
		}
		c.trap(xrt.TrapUnresolved, x.line, "%s has no member %q", t, x.name)
		return tError
	case KVec, KBool, KInt, KUint, KFloat:
		if t.Kind != KVec && (c.prog.es || c.prog.version < 420) {
			c.trap(xrt.TrapType, x.line, "swizzle on scalar %s is not available in this GLSL version", t)
			return tError
		}
		if len(x.name) > 4 {
			c.trap(xrt.TrapType, x.line, "swizzle %q has more than 4 components", x.name)
			return tError
		}
		set := -1
		n := t.comps()
		x.swz = nil
		for _, ch := range x.name {
			p := strings.IndexRune(swzSets, ch)
			if p < 0 {
				c.trap(xrt.TrapUnresolved, x.line, "%s has no member/swizzle %q", t, x.name)
				return tError
			}
			if set >= 0 && p/4 != set {
				c.trap(xrt.TrapType, x.line, "swizzle %q mixes component sets", x.name)
				return tError
			}
			set = p / 4
			if p%4 >= n {
				c.trap(xrt.TrapType, x.line, "swizzle %q selects a component outside %s", x.name, t)
				return tError
			}
			x.swz = append(x.swz, p%4)
		}
		return vecOf(t.scalarType(), len(x.swz))
	}
	c.trap(xrt.TrapType, x.line, "member access .%s on %s", x.name, t)
	return tError
}

// ---------- calls ----------

func (c *checker) call(x *callExpr) *Type {
	argT := make([]*Type, len(x.args))
	anyErr := false
	allConst := true
	for i, a := range x.args {
		argT[i] = c.expr(a)
		if argT[i].isErr() {
			anyErr = true
		}
		if !isConstExpr(a) {
			allConst = false
		}
	}
	// constructor with explicit type syntax
	if x.tspec != nil {
		t := c.typeOf(x.tspec, nil)
		if t.isErr() || anyErr {
			return tError
		}
		if t.containsOpaque() {
			return c.unsupported("constructor of " + x.tspec.name)
		}
		x.konst = allConst
		return c.ctor(x, t, argT)
	}
	ent := c.cur.lookup(x.name)
	if ent != nil {
		switch ent.kind {
		case seType:
			if anyErr {
				return tError
			}
			x.konst = allConst
			return c.ctor(x, ent.t, argT)
		case seVar, seBlock:
			c.trap(xrt.TrapType, x.line, "%q is not a function", x.name)
			return tError
		case seFunc:
			if anyErr {
				return tError
			}
			if t, ok := c.userCall(x, ent.fns, argT); ok {
				return t
			}
			if _, isB := builtins[x.name]; !isB {
				sameCount := false
				for _, f := range ent.fns {
					if len(f.params) == len(argT) {
						sameCount = true
					}
				}
				if sameCount {
					// right number of arguments, no legal implicit conversion to any overload
					c.trap(xrt.TrapType, x.line, "no overload of %s accepts argument types (%s)", x.name, typeList(argT))
				} else {
					c.trap(xrt.TrapUnresolved, x.line, "no overload of %s takes %d argument(s) (%s)", x.name, len(argT), typeList(argT))
				}
				return tError
			}
		}
	}
	sigs, ok := builtins[x.name]
	if !ok {
		if builtinFuncNames[x.name] || isExtBuiltin(x.name) {
			return c.unsupported("built-in function " + x.name)
		}
		c.trap(xrt.TrapUnresolved, x.line, "call to undeclared function %q", x.name)
		return tError
	}
	if anyErr {
		return tError
	}
	return c.builtinCall(x, sigs, argT, allConst)
}

func isExtBuiltin(name string) bool {
	for _, p := range []string{"subgroup", "rayQuery", "imageAtomic", "textureGather", "unpack", "pack", "atomic", "dot4", "traceRay", "EmitMeshTasksEXT", "SetMeshOutputsEXT", "textureSamples", "controlBarrier", "debugPrintfEXT"} {
		if strings.HasPrefix(name, p) {
			return true
		}
	}
	return false
}

func typeList(ts []*Type) string {
	s := make([]string, len(ts))
	for i, t := range ts {
		s[i] = t.String()
	}
	return strings.Join(s, ", ")
}

// matchArgs checks the arguments against parameter types/directions.
// Returns (matches, exact, conversions).
func (c *checker) matchArgs(params []*Type, dirs []byte, argT []*Type) (bool, []bool, []*Type) {
	if len(params) != len(argT) {
		return false, nil, nil
	}
	exact := make([]bool, len(params))
	convs := make([]*Type, len(params))
	for i, p := range params {
		a := argT[i]
		if p.isErr() {
			exact[i] = true
			continue
		}
		if sameType(a, p) {
			exact[i] = true
			continue
		}
		switch dirs[i] {
		case 'i':
			cv, ok := c.coerce(a, p)
			if !ok {
				return false, nil, nil
			}
			convs[i] = cv
		case 'o':
			// the parameter's type must convert to the argument's type
			if _, ok := c.coerce(p, a); !ok {
				return false, nil, nil
			}
			convs[i] = a // conversion applied on copy-out
		default: // inout / atomic memory: exact match only
			return false, nil, nil
		}
	}
	return true, exact, convs
}

type cand struct {
	idx   int
	exact []bool
	convs []*Type
}

// pickBest implements "better match" of GLSL §6.1.1 restricted to rule 1
// (an exact match is better than a conversion). Returns -1 if ambiguous.
func pickBest(cs []cand) int {
	for i, a := range cs {
		best := true
		for j, b := range cs {
			if i == j {
				continue
			}
			better, worse := false, false
			for k := range a.exact {
				if a.exact[k] && !b.exact[k] {
					better = true
				}
				if !a.exact[k] && b.exact[k] {
					worse = true
				}
			}
			if !better || worse {
				best = false
				break
			}
		}
		if best {
			return i
		}
	}
	return -1
}

func dirByte(d string) byte {
	switch d {
	case "out":
		return 'o'
	case "inout":
		return 'b'
	}
	return 'i'
}

func (c *checker) userCall(x *callExpr, fns []*funcDecl, argT []*Type) (*Type, bool) {
	var cs []cand
	for i, f := range fns {
		params := make([]*Type, len(f.params))
		dirs := make([]byte, len(f.params))
		for k, p := range f.params {
			params[k] = p.t
			dirs[k] = dirByte(p.dir)
		}
		ok, exact, convs := c.matchArgs(params, dirs, argT)
		if !ok {
			continue
		}
		allExact := true
		for _, e := range exact {
			allExact = allExact && e
		}
		if allExact {
			cs = []cand{{i, exact, convs}}
			break
		}
		cs = append(cs, cand{i, exact, convs})
	}
	if len(cs) == 0 {
		return nil, false
	}
	pick := 0
	if len(cs) > 1 {
		pick = pickBest(cs)
		if pick < 0 {
			c.trap(xrt.TrapType, x.line, "ambiguous call to overloaded function %s(%s)", x.name, typeList(argT))
			return tError, true
		}
	}
	f := fns[cs[pick].idx]
	x.kind = callUser
	x.fn = f
	x.convs = cs[pick].convs
	x.covKey = "call." + f.name
	for k, p := range f.params {
		if p.dir != "in" {
			c.lvalue(x.args[k], "argument for "+p.dir+" parameter")
		}
	}
	if c.curFn != nil {
		c.curFn.calls = append(c.curFn.calls, f)
	}
	return f.ret, true
}

func (c *checker) builtinCall(x *callExpr, sigs []*builtinSig, argT []*Type, allConst bool) *Type {
	var cs []cand
	for i, s := range sigs {
		ok, exact, convs := c.matchArgs(s.params, s.dirs, argT)
		if !ok {
			continue
		}
		allExact := true
		for _, e := range exact {
			allExact = allExact && e
		}
		if allExact {
			cs = []cand{{i, exact, convs}}
			break
		}
		cs = append(cs, cand{i, exact, convs})
	}
	if len(cs) == 0 {
		sameCount := false
		for _, s := range sigs {
			if len(s.params) == len(argT) {
				sameCount = true
			}
		}
		if sameCount {
			c.trap(xrt.TrapType, x.line, "no overload of built-in %s accepts argument types (%s)", x.name, typeList(argT))
		} else {
			c.trap(xrt.TrapUnresolved, x.line, "no overload of built-in %s takes %d argument(s) (%s)", x.name, len(argT), typeList(argT))
		}
		return tError
	}
	pick := 0
	if len(cs) > 1 {
		pick = pickBest(cs)
		if pick < 0 {
			c.trap(xrt.TrapType, x.line, "ambiguous call to built-in %s(%s)", x.name, typeList(argT))
			return tError
		}
	}
	s := sigs[cs[pick].idx]
	x.kind = callBuiltin
	x.bi = s
	x.convs = cs[pick].convs
	x.konst = allConst && s.konstOK
	x.covKey = "fn." + s.name
	for k, d := range s.dirs {
		switch d {
		case 'o':
			c.lvalue(x.args[k], "argument for out parameter of "+s.name)
		case 'm':
			c.lvalue(x.args[k], "memory argument of "+s.name)
			if !c.atomicTarget(x.args[k]) {
				c.trap(xrt.TrapType, x.line, "%s: memory argument must be a buffer or shared variable", s.name)
			}
		}
	}
	if s.special == "barrier" && c.curFn != nil {
		c.curFn.usesBarrier = true
		c.prog.usesBarrier = true
	}
	return s.ret
}

// atomicTarget: the operand must be rooted in a buffer block or a shared variable.
func (c *checker) atomicTarget(e expr) bool {
	switch x := e.(type) {
	case *identExpr:
		if x.sym == nil {
			return true
		}
		return x.sym.kind == symBufferVar || x.sym.kind == symShared
	case *indexExpr:
		return c.atomicTarget(x.x)
	case *memberExpr:
		return c.atomicTarget(x.x)
	}
	return false
}

// ---------- constructors ----------

func (c *checker) ctor(x *callExpr, t *Type, argT []*Type) *Type {
	x.kind = callCtor
	x.ctorT = t
	x.covKey = "ctor." + typeCovName(t)
	x.convs = make([]*Type, len(argT))
	switch t.Kind {
	case KBool, KInt, KUint, KFloat:
		if len(argT) != 1 {
			c.trap(xrt.TrapType, x.line, "constructor %s needs exactly one argument, got %d", t, len(argT))
			return tError
		}
		if argT[0].scalarType() == nil {
			c.trap(xrt.TrapType, x.line, "constructor %s cannot take an argument of type %s", t, argT[0])
			return tError
		}
		return t
	case KVec, KMat:
		if len(argT) == 0 {
			c.trap(xrt.TrapType, x.line, "constructor %s needs arguments", t)
			return tError
		}
		for _, a := range argT {
			if a.scalarType() == nil {
				c.trap(xrt.TrapType, x.line, "constructor %s cannot take an argument of type %s", t, a)
				return tError
			}
		}
		if len(argT) == 1 && argT[0].isScalar() {
			return t // splat / diagonal
		}
		if t.Kind == KMat && len(argT) == 1 && argT[0].Kind == KMat {
			return t // matrix from matrix
		}
		if t.Kind == KMat {
			for _, a := range argT {
				if a.Kind == KMat {
					c.trap(xrt.TrapType, x.line, "constructor %s: a matrix argument must be the only argument", t)
					return tError
				}
			}
		}
		need := t.comps()
		have := 0
		for i, a := range argT {
			if have >= need {
				c.trap(xrt.TrapType, x.line, "constructor %s: too many arguments (argument %d is unused)", t, i+1)
				return tError
			}
			have += a.comps()
		}
		if have < need {
			c.trap(xrt.TrapType, x.line, "constructor %s: not enough components (%d of %d)", t, have, need)
			return tError
		}
		if t.Kind == KVec && len(argT) == 1 && argT[0].Kind == KMat {
			// allowed: vecN(matrix) takes the first components
			return t
		}
		return t
	case KArray:
		n := t.N
		if n < 0 {
			if len(argT) == 0 {
				c.trap(xrt.TrapType, x.line, "array constructor needs arguments")
				return tError
			}
			n = len(argT)
			t = arrayOf(t.Elem, n)
			x.ctorT = t
			x.covKey = "ctor." + typeCovName(t)
		}
		if len(argT) != n {
			c.trap(xrt.TrapType, x.line, "array constructor %s needs %d arguments, got %d", t, n, len(argT))
			return tError
		}
		for i, a := range argT {
			cv, ok := c.coerce(a, t.Elem)
			if !ok {
				c.trap(xrt.TrapType, x.line, "array constructor %s: argument %d has type %s", t, i+1, a)
				return tError
			}
			x.convs[i] = cv
		}
		return t
	case KStruct:
		if len(argT) != len(t.Fields) {
			c.trap(xrt.TrapType, x.line, "constructor of struct %s needs %d arguments, got %d", t, len(t.Fields), len(argT))
			return tError
		}
		for i, a := range argT {
			if t.Fields[i].T.isErr() {
				continue
			}
			cv, ok := c.coerce(a, t.Fields[i].T)
			if !ok {
				c.trap(xrt.TrapType, x.line, "constructor of struct %s: argument %d has type %s, member %s has type %s", t, i+1, a, t.Fields[i].Name, t.Fields[i].T)
				return tError
			}
			x.convs[i] = cv
		}
		return t
	}
	c.trap(xrt.TrapType, x.line, "cannot construct a value of type %s", t)
	return tError
}
