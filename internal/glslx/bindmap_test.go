package glslx

import (
	"testing"

	"github.com/gogpu/naga"
	"github.com/gogpu/naga/glsl"

	"verif/internal/xrt"
)

// With a BindingMap naga emits layout(binding = N); the Slot must follow it.
func TestExplicitBindingFromNaga(t *testing.T) {
	src := `
@group(0) @binding(0) var<storage, read_write> o: array<u32>;
@group(1) @binding(3) var<uniform> u: vec4<u32>;
@group(2) @binding(1) var<storage, read> i: array<u32>;
@compute @workgroup_size(1) fn main() { o[0] = u.y + i[1]; }`
	ast, err := naga.Parse(src)
	if err != nil {
		t.Fatal(err)
	}
	m, err := naga.LowerWithSource(ast, src)
	if err != nil {
		t.Fatal(err)
	}
	for _, ver := range []glsl.Version{glsl.Version430, glsl.Version450, glsl.Version460, glsl.VersionES310, glsl.VersionES320} {
		txt, _, err := glsl.Compile(m, glsl.Options{LangVersion: ver, EntryPoint: "main", ForceHighPrecision: true,
			BindingMap: map[glsl.BindingMapKey]uint8{{Group: 0, Binding: 0}: 7, {Group: 1, Binding: 3}: 2, {Group: 2, Binding: 1}: 4}})
		if err != nil {
			t.Fatal(err)
		}
		p, err := Parse(txt)
		if err != nil {
			t.Fatalf("%s: %v\n%s", ver, err, txt)
		}
		noStatic(t, p)
		rs := p.Resources()
		if len(rs) != 3 || rs[0].Slot != sb(7) || rs[1].Slot != ub(2) || rs[2].Slot != sb(4) || rs[0].Kind != "storage-rw" || rs[1].Kind != "uniform" || rs[2].Kind != "storage-ro" {
			t.Fatalf("%s: resources %+v\n%s", ver, rs, txt)
		}
		if v, prof := p.Version(); v != int(ver.Major)*100+int(ver.Minor) || (prof == "es") != ver.ES {
			t.Errorf("version %d %q", v, prof)
		}
		bufs := xrt.Buffers{sb(7): make([]byte, 8), ub(2): u32s(1, 20, 3, 4), sb(4): u32s(100, 300)}
		res := runOK(t, p, bufs, xrt.Options{TrapMode: true})
		if len(res.Traps) != 0 {
			t.Errorf("traps: %v", res.Traps)
		}
		wantU32s(t, bufs[sb(7)], 320)
	}
}
