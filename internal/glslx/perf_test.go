package glslx

import (
	"testing"
	"time"

	"verif/internal/xrt"
)

func TestThroughput(t *testing.T) {
	src := `#version 430 core
layout(local_size_x = 64, local_size_y = 1, local_size_z = 1) in;
layout(std430, binding = 0) buffer O { uint o[]; };
shared uint acc[64];
uint mixbits(uint x) { x ^= x >> 16u; x *= 0x7feb352du; x ^= x >> 15u; return x; }
void main() {
    uint li = gl_LocalInvocationIndex;
    uint h = gl_GlobalInvocationID.x;
    for (uint i = 0u; i < 200u; i++) { h = mixbits(h + i); }
    acc[li] = h;
    barrier();
    if (li == 0u) { uint s = 0u; for (uint k = 0u; k < 64u; k++) { s += acc[k]; } o[gl_WorkGroupID.x] = s; }
}`
	p := mustParse(t, src)
	noStatic(t, p)
	bufs := xrt.Buffers{sb(0): make([]byte, 64)}
	start := time.Now()
	res, err := p.Run("main", bufs, xrt.Options{TrapMode: true, Dispatch: xrt.Dispatch{NumGroups: [3]uint32{8, 1, 1}}, MaxSteps: 50_000_000})
	if err != nil {
		t.Fatal(err)
	}
	el := time.Since(start)
	t.Logf("%d steps in %v (%.1f Msteps/s), traps %d", res.Steps, el, float64(res.Steps)/el.Seconds()/1e6, len(res.Traps))
	// reference computed independently
	mix := func(x uint32) uint32 { x ^= x >> 16; x *= 0x7feb352d; x ^= x >> 15; return x }
	for g := uint32(0); g < 8; g++ {
		var s uint32
		for li := uint32(0); li < 64; li++ {
			h := g*64 + li
			for i := uint32(0); i < 200; i++ {
				h = mix(h + i)
			}
			s += h
		}
		if got := getU32(bufs[sb(0)], int(g)); got != s {
			t.Errorf("group %d: got %#x want %#x", g, got, s)
		}
	}
}
