package glslx

import (
	"fmt"
	"strconv"
	"strings"

	"verif/internal/xrt"
)

// token kinds
type tokKind int

const (
	tkEOF tokKind = iota
	tkIdent
	tkInt   // integer literal (val, unsigned)
	tkFloat // float literal
	tkPunct // operator / punctuation, text in s
)

type token struct {
	kind     tokKind
	s        string // identifier text / punct text / literal text
	ival     uint32
	unsigned bool
	fval     float32
	line     int
}

func (t token) String() string {
	if t.kind == tkEOF {
		return "end of file"
	}
	return fmt.Sprintf("%q", t.s)
}

// syntaxError is a plain error: the text is not valid GLSL at all.
type syntaxError struct {
	line int
	msg  string
}

func (e *syntaxError) Error() string { return fmt.Sprintf("glsl: line %d: %s", e.line, e.msg) }

type lexer struct {
	src  string
	pos  int
	line int
	toks []token

	version    int
	profile    string // "core", "es", "compatibility", ""
	extensions []string
}

func isIdentStart(c byte) bool {
	return c == '_' || (c >= 'a' && c <= 'z') || (c >= 'A' && c <= 'Z')
}
func isDigit(c byte) bool     { return c >= '0' && c <= '9' }
func isIdentChar(c byte) bool { return isIdentStart(c) || isDigit(c) }

var puncts3 = []string{"<<=", ">>="}
var puncts2 = []string{"++", "--", "<=", ">=", "==", "!=", "&&", "||", "^^", "<<", ">>", "+=", "-=", "*=", "/=", "%=", "&=", "|=", "^="}

const puncts1 = "(){}[];,.+-*/%<>=!~&|^?:"

// lex tokenises the whole source. Preprocessor lines are handled here.
func lex(src string) (*lexer, error) {
	lx := &lexer{src: src, line: 1}
	atLineStart := true
	for lx.pos < len(src) {
		c := src[lx.pos]
		switch {
		case c == '\n':
			lx.line++
			lx.pos++
			atLineStart = true
			continue
		case c == ' ' || c == '\t' || c == '\r' || c == '\f' || c == '\v':
			lx.pos++
			continue
		case c == '\\' && lx.pos+1 < len(src) && src[lx.pos+1] == '\n':
			lx.pos += 2
			lx.line++
			continue
		case c == '/' && lx.pos+1 < len(src) && src[lx.pos+1] == '/':
			for lx.pos < len(src) && src[lx.pos] != '\n' {
				lx.pos++
			}
			continue
		case c == '/' && lx.pos+1 < len(src) && src[lx.pos+1] == '*':
			end := strings.Index(src[lx.pos+2:], "*/")
			if end < 0 {
				return nil, &syntaxError{lx.line, "unterminated comment"}
			}
			lx.line += strings.Count(src[lx.pos:lx.pos+2+end+2], "\n")
			lx.pos += 2 + end + 2
			continue
		case c == '#':
			if !atLineStart {
				return nil, &syntaxError{lx.line, "'#' not at start of line"}
			}
			start := lx.pos
			for lx.pos < len(src) && src[lx.pos] != '\n' {
				lx.pos++
			}
			if err := lx.directive(strings.TrimSpace(src[start+1 : lx.pos])); err != nil {
				return nil, err
			}
			continue
		}
		atLineStart = false
		switch {
		case isIdentStart(c):
			start := lx.pos
			for lx.pos < len(src) && isIdentChar(src[lx.pos]) {
				lx.pos++
			}
			lx.toks = append(lx.toks, token{kind: tkIdent, s: src[start:lx.pos], line: lx.line})
		case isDigit(c) || (c == '.' && lx.pos+1 < len(src) && isDigit(src[lx.pos+1])):
			if err := lx.number(); err != nil {
				return nil, err
			}
		default:
			if c >= 0x80 {
				return nil, &syntaxError{lx.line, "non-ASCII character outside comment"}
			}
			matched := ""
			for _, p := range puncts3 {
				if strings.HasPrefix(src[lx.pos:], p) {
					matched = p
					break
				}
			}
			if matched == "" {
				for _, p := range puncts2 {
					if strings.HasPrefix(src[lx.pos:], p) {
						matched = p
						break
					}
				}
			}
			if matched == "" && strings.IndexByte(puncts1, c) >= 0 {
				matched = string(c)
			}
			if matched == "" {
				return nil, &syntaxError{lx.line, fmt.Sprintf("unexpected character %q", c)}
			}
			lx.toks = append(lx.toks, token{kind: tkPunct, s: matched, line: lx.line})
			lx.pos += len(matched)
		}
	}
	lx.toks = append(lx.toks, token{kind: tkEOF, line: lx.line})
	return lx, nil
}

func (lx *lexer) directive(d string) error {
	fields := strings.Fields(d)
	if len(fields) == 0 {
		return nil // null directive
	}
	switch fields[0] {
	case "version":
		if len(lx.toks) != 0 || lx.version != 0 {
			return &syntaxError{lx.line, "#version must be the first directive/token"}
		}
		if len(fields) < 2 || len(fields) > 3 {
			return &syntaxError{lx.line, "malformed #version"}
		}
		v, err := strconv.Atoi(fields[1])
		if err != nil {
			return &syntaxError{lx.line, "malformed #version number"}
		}
		lx.version = v
		if len(fields) == 3 {
			lx.profile = fields[2]
			switch lx.profile {
			case "core", "es", "compatibility":
			default:
				return &syntaxError{lx.line, "bad profile " + lx.profile}
			}
		}
		return nil
	case "extension":
		// #extension name : behavior
		rest := strings.TrimSpace(strings.TrimPrefix(d, "extension"))
		parts := strings.Split(rest, ":")
		if len(parts) != 2 {
			return &syntaxError{lx.line, "malformed #extension"}
		}
		lx.extensions = append(lx.extensions, strings.TrimSpace(parts[0]))
		return nil
	case "line", "pragma":
		return nil
	case "define", "undef", "if", "ifdef", "ifndef", "else", "elif", "endif", "error":
		return &xrt.Unsupported{What: "preprocessor directive #" + fields[0]}
	}
	return &syntaxError{lx.line, "unknown preprocessor directive #" + fields[0]}
}

// number scans an integer or floating literal.
func (lx *lexer) number() error {
	src := lx.src
	start := lx.pos
	isFloat := false
	if src[lx.pos] == '0' && lx.pos+1 < len(src) && (src[lx.pos+1] == 'x' || src[lx.pos+1] == 'X') {
		lx.pos += 2
		ds := lx.pos
		for lx.pos < len(src) && isHex(src[lx.pos]) {
			lx.pos++
		}
		if ds == lx.pos {
			return &syntaxError{lx.line, "malformed hex literal"}
		}
	} else {
		for lx.pos < len(src) && isDigit(src[lx.pos]) {
			lx.pos++
		}
		if lx.pos < len(src) && src[lx.pos] == '.' {
			isFloat = true
			lx.pos++
			for lx.pos < len(src) && isDigit(src[lx.pos]) {
				lx.pos++
			}
		}
		if lx.pos < len(src) && (src[lx.pos] == 'e' || src[lx.pos] == 'E') {
			p := lx.pos + 1
			if p < len(src) && (src[p] == '+' || src[p] == '-') {
				p++
			}
			if p < len(src) && isDigit(src[p]) {
				isFloat = true
				for p < len(src) && isDigit(src[p]) {
					p++
				}
				lx.pos = p
			}
		}
	}
	body := src[start:lx.pos]
	// suffix
	ss := lx.pos
	for lx.pos < len(src) && isIdentChar(src[lx.pos]) {
		lx.pos++
	}
	suffix := src[ss:lx.pos]
	text := src[start:lx.pos]
	if isFloat {
		switch suffix {
		case "", "f", "F":
		case "lf", "LF":
			return &xrt.Unsupported{What: "double literal " + text}
		case "hf", "HF":
			return &xrt.Unsupported{What: "half literal " + text}
		default:
			return &syntaxError{lx.line, "bad float literal suffix in " + text}
		}
		f, err := strconv.ParseFloat(body, 32)
		if err != nil {
			// out of range: ParseFloat returns ±Inf with ErrRange; GLSL: implementation may treat as inf.
			if ne, ok := err.(*strconv.NumError); !ok || ne.Err != strconv.ErrRange {
				return &syntaxError{lx.line, "malformed float literal " + text}
			}
		}
		lx.toks = append(lx.toks, token{kind: tkFloat, s: text, fval: float32(f), line: lx.line})
		return nil
	}
	unsigned := false
	switch suffix {
	case "":
	case "u", "U":
		unsigned = true
	case "l", "L", "ul", "UL", "uL", "Ul", "s", "S", "us", "US":
		return &xrt.Unsupported{What: "sized integer literal " + text}
	case "f", "F":
		// "1f" is not a valid GLSL literal
		return &syntaxError{lx.line, "bad literal " + text}
	default:
		return &syntaxError{lx.line, "bad integer literal suffix in " + text}
	}
	var v uint64
	var err error
	switch {
	case strings.HasPrefix(body, "0x") || strings.HasPrefix(body, "0X"):
		v, err = strconv.ParseUint(body[2:], 16, 64)
	case len(body) > 1 && body[0] == '0':
		v, err = strconv.ParseUint(body[1:], 8, 64)
	default:
		v, err = strconv.ParseUint(body, 10, 64)
	}
	if err != nil || v > 0xFFFFFFFF {
		// "It is a compile-time error to provide a literal integer whose bit pattern cannot fit in 32 bits."
		return &syntaxError{lx.line, "integer literal does not fit in 32 bits: " + text}
	}
	lx.toks = append(lx.toks, token{kind: tkInt, s: text, ival: uint32(v), unsigned: unsigned, line: lx.line})
	return nil
}

func isHex(c byte) bool {
	return isDigit(c) || (c >= 'a' && c <= 'f') || (c >= 'A' && c <= 'F')
}
