package glslx

import (
	"encoding/binary"
	"fmt"
	"strings"

	"verif/internal/xrt"
)

// ---------- run state ----------

type bufState struct {
	data     []byte
	readonly bool
	name     string
}

type runState struct {
	p        *Program
	opt      xrt.Options
	trapMode bool
	budget   int
	res      *xrt.Result
	trapKeys map[string]bool
	bufs     []*bufState // per block slot
	shared   [][]Scalar  // per shared variable, current workgroup
}

type frame struct {
	fn     *funcDecl
	locals [][]Scalar
	ret    Value
}

// interp executes one invocation (or constant expressions when rs == nil).
type interp struct {
	p        *Program
	rs       *runState
	privates [][]Scalar
	bvals    []Value // builtin variable values by slot
	fr       *frame
	depth    int
	barrier  func(line int) // yields to the scheduler

	constMode    bool
	constTrapped bool
}

// control-flow signal
type ctl int

const (
	ctlNone ctl = iota
	ctlBreak
	ctlContinue
	ctlReturn
)

// abort carries an error out of the interpreter.
type abort struct{ err error }

type constFail struct{}

func (in *interp) fail(format string, a ...interface{}) {
	panic(abort{fmt.Errorf("glslx: "+format, a...)})
}

func (in *interp) unsupported(what string) {
	if in.constMode {
		panic(constFail{})
	}
	panic(abort{&xrt.Unsupported{What: what}})
}

func (in *interp) where(line int) string {
	if in.fr != nil && in.fr.fn != nil {
		return fmt.Sprintf("line %d (function %s)", line, in.fr.fn.name)
	}
	return fmt.Sprintf("line %d", line)
}

func (in *interp) trap(kind xrt.TrapKind, line int, msg string) {
	if in.constMode {
		in.constTrapped = true
		return
	}
	rs := in.rs
	if !rs.trapMode {
		return
	}
	// one report per (kind, site, message class): the message up to its first
	// digit identifies the class, the first occurrence is the witness
	class := msg
	if k := strings.IndexAny(msg, "0123456789"); k >= 0 {
		class = msg[:k]
	}
	d := in.where(line) + ": " + msg
	key := string(kind) + "|" + in.where(line) + "|" + class
	if rs.trapKeys[key] {
		return
	}
	if len(rs.res.Traps) >= 64 {
		return
	}
	rs.trapKeys[key] = true
	rs.res.Traps = append(rs.res.Traps, &xrt.Trap{Kind: kind, Detail: d})
}

func (in *interp) trapOther(line int, msg string) { in.trap(xrt.TrapOther, line, msg) }

func (in *interp) step() {
	if in.constMode {
		return
	}
	in.rs.res.Steps++
	if in.rs.res.Steps > in.rs.budget {
		panic(abort{&xrt.Unsupported{What: "step budget"}})
	}
}

func (in *interp) cov(key string) {
	if in.constMode || key == "" {
		return
	}
	in.rs.res.Cov[key]++
}

// ---------- references ----------

type ref struct {
	t     *Type
	cells []Scalar // memory-backed storage (base vector when swz != nil)
	swz   []int

	isBuf    bool
	buf      *bufState
	off      int
	std      int
	rowMajor bool
	vstride  int // byte distance between vector components (0 = 4)

	dead     bool // derived from an out-of-range index: writes are dropped
	empty    bool // nothing addressable behind it (zero-length array): reads give zero
	atomicOK bool // lives in buffer or shared memory
}

func (r *ref) compStride() int {
	if r.vstride != 0 {
		return r.vstride
	}
	return 4
}

func (in *interp) bufRead32(r *ref, off int, line int, oob *bool) uint32 {
	if off < 0 || off+4 > len(r.buf.data) {
		if !*oob {
			*oob = true
			in.trap(xrt.TrapOOB, line, fmt.Sprintf("read at byte offset %d outside buffer %s of %d bytes", off, r.buf.name, len(r.buf.data)))
		}
		return 0
	}
	return binary.LittleEndian.Uint32(r.buf.data[off:])
}

func (in *interp) bufWrite32(r *ref, off int, v uint32, line int, oob *bool) {
	if off < 0 || off+4 > len(r.buf.data) {
		if !*oob {
			*oob = true
			in.trap(xrt.TrapOOB, line, fmt.Sprintf("write at byte offset %d outside buffer %s of %d bytes", off, r.buf.name, len(r.buf.data)))
		}
		return
	}
	binary.LittleEndian.PutUint32(r.buf.data[off:], v)
}

// bufLoad reads a value of type t at byte offset off.
func (in *interp) bufLoad(r *ref, t *Type, off int, rowMajor bool, vstride int, out []Scalar, line int, oob *bool) []Scalar {
	switch t.Kind {
	case KBool:
		out = append(out, Scalar{Bits: boolBits(in.bufRead32(r, off, line, oob) != 0)})
	case KInt, KUint, KFloat:
		out = append(out, Scalar{Bits: in.bufRead32(r, off, line, oob)})
	case KVec:
		for i := 0; i < t.N; i++ {
			v := in.bufRead32(r, off+i*vstride, line, oob)
			if t.Elem.Kind == KBool {
				v = boolBits(v != 0)
			}
			out = append(out, Scalar{Bits: v})
		}
	case KMat:
		ms := in.p.lay.of(t, r.std, rowMajor).stride
		for c := 0; c < t.N; c++ {
			for rr := 0; rr < t.Rows; rr++ {
				o := off + c*ms + rr*4
				if rowMajor {
					o = off + rr*ms + c*4
				}
				out = append(out, Scalar{Bits: in.bufRead32(r, o, line, oob)})
			}
		}
	case KArray:
		st := in.p.lay.of(t, r.std, rowMajor).stride
		for i := 0; i < t.N; i++ {
			out = in.bufLoad(r, t.Elem, off+i*st, rowMajor, 4, out, line, oob)
		}
	case KStruct:
		li := in.p.lay.of(t, r.std, rowMajor)
		for i, f := range t.Fields {
			out = in.bufLoad(r, f.T, off+li.offsets[i], fieldRowMajor(f, rowMajor), 4, out, line, oob)
		}
	}
	return out
}

func fieldRowMajor(f Field, inherited bool) bool {
	switch f.rowMajor {
	case 1:
		return true
	case 2:
		return false
	}
	return inherited
}

// bufStore writes cells (consumed from src) of type t; returns the rest of src.
func (in *interp) bufStore(r *ref, t *Type, off int, rowMajor bool, vstride int, src []Scalar, line int, oob *bool) []Scalar {
	switch t.Kind {
	case KBool, KInt, KUint, KFloat:
		in.bufWrite32(r, off, src[0].Bits, line, oob)
		return src[1:]
	case KVec:
		for i := 0; i < t.N; i++ {
			in.bufWrite32(r, off+i*vstride, src[i].Bits, line, oob)
		}
		return src[t.N:]
	case KMat:
		ms := in.p.lay.of(t, r.std, rowMajor).stride
		k := 0
		for c := 0; c < t.N; c++ {
			for rr := 0; rr < t.Rows; rr++ {
				o := off + c*ms + rr*4
				if rowMajor {
					o = off + rr*ms + c*4
				}
				in.bufWrite32(r, o, src[k].Bits, line, oob)
				k++
			}
		}
		return src[k:]
	case KArray:
		st := in.p.lay.of(t, r.std, rowMajor).stride
		for i := 0; i < t.N; i++ {
			src = in.bufStore(r, t.Elem, off+i*st, rowMajor, 4, src, line, oob)
		}
		return src
	case KStruct:
		li := in.p.lay.of(t, r.std, rowMajor)
		for i, f := range t.Fields {
			src = in.bufStore(r, f.T, off+li.offsets[i], fieldRowMajor(f, rowMajor), 4, src, line, oob)
		}
		return src
	}
	return src
}

func (in *interp) load(r *ref, line int) Value {
	if r.t.Kind == KArray && r.t.N < 0 {
		in.fail("line %d: load of a runtime-sized array", line)
	}
	if r.empty {
		return newValue(r.t) // the out-of-range access has been reported already
	}
	if r.isBuf {
		oob := false
		if r.swz != nil {
			v := Value{T: r.t, S: make([]Scalar, len(r.swz))}
			for i, k := range r.swz {
				v.S[i].Bits = in.bufRead32(r, r.off+k*r.compStride(), line, &oob)
			}
			return v
		}
		return Value{T: r.t, S: in.bufLoad(r, r.t, r.off, r.rowMajor, r.compStride(), make([]Scalar, 0, r.t.scalarCount()), line, &oob)}
	}
	if r.swz != nil {
		v := Value{T: r.t, S: make([]Scalar, len(r.swz))}
		for i, k := range r.swz {
			v.S[i] = r.cells[k]
		}
		return v
	}
	v := Value{T: r.t, S: make([]Scalar, len(r.cells))}
	copy(v.S, r.cells)
	return v
}

func (in *interp) store(r *ref, v Value, line int) {
	if r.dead {
		return
	}
	if len(v.S) != r.t.scalarCount() && r.swz == nil {
		in.fail("line %d: internal: store of %d cells into %s", line, len(v.S), r.t)
	}
	if r.isBuf {
		if r.buf.readonly {
			in.fail("line %d: write to read-only block %s", line, r.buf.name)
		}
		if v.anyPoison() {
			in.trap(xrt.TrapPoison, line, "undefined (never written) value stored to buffer "+r.buf.name)
		}
		oob := false
		if r.swz != nil {
			for i, k := range r.swz {
				in.bufWrite32(r, r.off+k*r.compStride(), v.S[i].Bits, line, &oob)
			}
			return
		}
		in.bufStore(r, r.t, r.off, r.rowMajor, r.compStride(), v.S, line, &oob)
		return
	}
	if r.swz != nil {
		for i, k := range r.swz {
			r.cells[k] = v.S[i]
		}
		return
	}
	copy(r.cells, v.S)
}

// index range check shared by refs and values. Returns the (clamped) index and whether it was in range.
func (in *interp) checkIndex(iv Value, n int, what string, line int) (int, bool) {
	if iv.S[0].Poison {
		in.trap(xrt.TrapPoison, line, "undefined value used as index")
	}
	var i int64
	if iv.T.Kind == KUint {
		i = int64(iv.S[0].Bits)
	} else {
		i = int64(int32(iv.S[0].Bits))
	}
	if i < 0 || i >= int64(n) {
		in.trap(xrt.TrapOOB, line, fmt.Sprintf("index %d out of range for %s of length %d", i, what, n))
		if n == 0 {
			return 0, false
		}
		if i < 0 {
			return 0, false
		}
		return n - 1, false
	}
	return int(i), true
}

func (in *interp) runtimeLen(r *ref) int {
	st := in.p.lay.of(r.t, r.std, r.rowMajor).stride
	rem := len(r.buf.data) - r.off
	if rem < 0 || st == 0 {
		return 0
	}
	return rem / st
}

func (in *interp) indexRef(r *ref, iv Value, line int) *ref {
	t := r.t
	out := &ref{isBuf: r.isBuf, buf: r.buf, std: r.std, rowMajor: r.rowMajor, dead: r.dead, empty: r.empty, atomicOK: r.atomicOK}
	switch t.Kind {
	case KArray:
		n := t.N
		if n < 0 {
			n = in.runtimeLen(r)
		}
		i, ok := in.checkIndex(iv, n, t.String(), line)
		if !ok {
			out.dead = true
		}
		out.t = t.Elem
		if r.isBuf {
			st := in.p.lay.of(t, r.std, r.rowMajor).stride
			out.off = r.off + i*st
			if n == 0 {
				out.empty = true
			}
		} else {
			ec := t.Elem.scalarCount()
			out.cells = r.cells[i*ec : (i+1)*ec]
		}
	case KVec:
		n := t.N
		if r.swz != nil {
			n = len(r.swz)
		}
		i, ok := in.checkIndex(iv, n, t.String(), line)
		if !ok {
			out.dead = true
		}
		if r.swz != nil {
			i = r.swz[i]
		}
		out.t = t.Elem
		if r.isBuf {
			out.off = r.off + i*r.compStride()
		} else {
			out.cells = r.cells[i : i+1]
		}
	case KMat:
		i, ok := in.checkIndex(iv, t.N, t.String(), line)
		if !ok {
			out.dead = true
		}
		out.t = t.colType()
		if r.isBuf {
			ms := in.p.lay.of(t, r.std, r.rowMajor).stride
			if r.rowMajor {
				out.off = r.off + i*4
				out.vstride = ms
			} else {
				out.off = r.off + i*ms
			}
		} else {
			out.cells = r.cells[i*t.Rows : (i+1)*t.Rows]
		}
	default:
		in.fail("line %d: internal: index of %s", line, t)
	}
	return out
}

func (in *interp) memberRef(r *ref, x *memberExpr, line int) *ref {
	out := &ref{isBuf: r.isBuf, buf: r.buf, std: r.std, rowMajor: r.rowMajor, dead: r.dead, empty: r.empty, atomicOK: r.atomicOK, vstride: r.vstride}
	if x.isField {
		t := r.t
		f := t.Fields[x.field]
		out.t = f.T
		out.vstride = 0
		if r.isBuf {
			li := in.p.lay.of(t, r.std, r.rowMajor)
			out.off = r.off + li.offsets[x.field]
			out.rowMajor = fieldRowMajor(f, r.rowMajor)
		} else {
			o := 0
			for i := 0; i < x.field; i++ {
				o += t.Fields[i].T.scalarCount()
			}
			out.cells = r.cells[o : o+f.T.scalarCount()]
		}
		return out
	}
	// swizzle
	out.t = x.t
	out.off = r.off
	out.cells = r.cells
	if r.swz != nil {
		out.swz = make([]int, len(x.swz))
		for i, k := range x.swz {
			out.swz[i] = r.swz[k]
		}
	} else {
		out.swz = x.swz
	}
	return out
}

// isRefable: can e be evaluated as a reference (variable-rooted access path).
func isRefable(e expr) bool {
	switch x := e.(type) {
	case *identExpr:
		return x.sym != nil
	case *indexExpr:
		return isRefable(x.x)
	case *memberExpr:
		return isRefable(x.x)
	}
	return false
}

func (in *interp) symRef(sym *varSym, line int) *ref {
	switch sym.kind {
	case symLocal, symParam:
		if in.fr == nil {
			panic(constFail{})
		}
		cells := in.fr.locals[sym.slot]
		if cells == nil {
			// declared in a scope that was skipped (e.g. switch case jumped over): undefined
			cells = poisonValue(sym.t).S
			in.fr.locals[sym.slot] = cells
		}
		return &ref{t: sym.t, cells: cells}
	case symGlobalConst:
		return &ref{t: sym.t, cells: sym.constVal.S}
	case symGlobalPrivate:
		if in.constMode {
			panic(constFail{})
		}
		return &ref{t: sym.t, cells: in.privates[sym.slot]}
	case symShared:
		if in.constMode {
			panic(constFail{})
		}
		return &ref{t: sym.t, cells: in.rs.shared[sym.slot], atomicOK: true}
	case symBuiltinVar:
		if in.constMode {
			if sym.name == "gl_WorkGroupSize" && in.p.hasLocalSize {
				return &ref{t: sym.t, cells: in.p.workGroupSizeValue().S}
			}
			panic(constFail{})
		}
		return &ref{t: sym.t, cells: in.bvals[sym.slot].S}
	case symBufferVar:
		if in.constMode {
			panic(constFail{})
		}
		b := sym.block
		bs := in.rs.bufs[b.slot]
		r := &ref{isBuf: true, buf: bs, std: b.std, rowMajor: b.rowMajor, atomicOK: true}
		if sym.memberIdx < 0 {
			r.t = b.T
			r.off = 0
		} else {
			f := b.T.Fields[sym.memberIdx]
			r.t = f.T
			r.off = b.offsets[sym.memberIdx]
			r.rowMajor = fieldRowMajor(f, b.rowMajor)
		}
		return r
	}
	in.unsupported("use of " + sym.name + " (" + sym.why + ")")
	return nil
}

func (in *interp) evalRef(e expr) *ref {
	if t := e.typ(); t == nil || t.isErr() {
		in.illTyped(e.pos())
	}
	switch x := e.(type) {
	case *identExpr:
		if x.sym == nil {
			in.fail("line %d: unresolved identifier %s", x.line, x.name)
		}
		if x.sym.constVal != nil {
			return &ref{t: x.sym.t, cells: x.sym.constVal.S}
		}
		return in.symRef(x.sym, x.line)
	case *indexExpr:
		r := in.evalRef(x.x)
		iv := in.eval(x.i)
		return in.indexRef(r, iv, x.line)
	case *memberExpr:
		r := in.evalRef(x.x)
		return in.memberRef(r, x, x.line)
	}
	in.fail("line %d: expression is not an l-value", e.pos())
	return nil
}

// ---------- expression evaluation ----------

func (in *interp) convert(v Value, to *Type) Value {
	if to == nil || v.T == to || sameType(v.T, to) || v.T.scalarType() == nil || to.scalarType() == nil {
		return v
	}
	fk, tk := v.T.scalarType().Kind, to.scalarType().Kind
	out := Value{T: to, S: make([]Scalar, len(v.S))}
	for i, s := range v.S {
		out.S[i], _ = convertScalar(s, fk, tk)
	}
	return out
}

func (in *interp) condBool(v Value, what string, line int) bool {
	if v.S[0].Poison {
		in.trap(xrt.TrapPoison, line, "undefined value used as "+what)
	}
	return v.S[0].Bits != 0
}

func (in *interp) illTyped(line int) {
	if in.constMode {
		panic(constFail{})
	}
	in.unsupported(fmt.Sprintf("execution reached a statically ill-typed construct at line %d (see StaticTraps)", line))
}

func (in *interp) eval(e expr) Value {
	if t := e.typ(); t == nil || t.isErr() {
		in.illTyped(e.pos())
	}
	switch x := e.(type) {
	case *intLit:
		return Value{T: x.t, S: []Scalar{{Bits: x.val}}}
	case *floatLit:
		return floatValue(x.val)
	case *boolLit:
		return boolValue(x.val)
	case *identExpr:
		if x.sym == nil {
			if in.constMode {
				panic(constFail{})
			}
			in.fail("line %d: unresolved identifier %s", x.line, x.name)
		}
		if x.sym.constVal != nil {
			return x.sym.constVal.clone()
		}
		return in.load(in.symRef(x.sym, x.line), x.line)
	case *indexExpr:
		if isRefable(x) {
			return in.load(in.evalRef(x), x.line)
		}
		base := in.eval(x.x)
		iv := in.eval(x.i)
		r := &ref{t: base.T, cells: base.S}
		return in.load(in.indexRef(r, iv, x.line), x.line)
	case *memberExpr:
		if isRefable(x) {
			return in.load(in.evalRef(x), x.line)
		}
		base := in.eval(x.x)
		r := &ref{t: base.T, cells: base.S}
		return in.load(in.memberRef(r, x, x.line), x.line)
	case *lengthExpr:
		t := x.x.typ()
		if t.Kind == KArray && t.N < 0 {
			if in.constMode {
				panic(constFail{})
			}
			r := in.evalRef(x.x)
			return intValue(int32(in.runtimeLen(r)))
		}
		switch t.Kind {
		case KArray, KVec, KMat:
			return intValue(int32(t.N))
		}
		in.fail("line %d: .length() on %s", x.line, t)
	case *unaryExpr:
		return in.evalUnary(x)
	case *binaryExpr:
		return in.evalBinary(x)
	case *assignExpr:
		return in.evalAssign(x)
	case *condExpr:
		c := in.eval(x.c)
		if in.condBool(c, "?: condition", x.line) {
			return in.convert(in.eval(x.a), x.aconv)
		}
		return in.convert(in.eval(x.b), x.bconv)
	case *commaExpr:
		in.eval(x.l)
		return in.eval(x.r)
	case *callExpr:
		return in.evalCall(x)
	}
	in.fail("line %d: internal: cannot evaluate expression", e.pos())
	return Value{}
}

func (in *interp) evalUnary(x *unaryExpr) Value {
	in.cov(x.covKey)
	switch x.op {
	case "++", "--":
		r := in.evalRef(x.x)
		old := in.load(r, x.line)
		nv := old.clone()
		k := old.T.scalarType().Kind
		for i := range nv.S {
			if k == KFloat {
				if x.op == "++" {
					nv.S[i].Bits = f2b(fadd(b2f(nv.S[i].Bits), 1))
				} else {
					nv.S[i].Bits = f2b(fsub(b2f(nv.S[i].Bits), 1))
				}
			} else if x.op == "++" {
				nv.S[i].Bits++
			} else {
				nv.S[i].Bits--
			}
		}
		in.store(r, nv, x.line)
		if x.postfix {
			return old
		}
		return nv
	}
	v := in.eval(x.x)
	out := v.clone()
	k := Kind(KError)
	if s := v.T.scalarType(); s != nil {
		k = s.Kind
	}
	for i := range out.S {
		switch x.op {
		case "-":
			if k == KFloat {
				out.S[i].Bits ^= 0x80000000
			} else {
				out.S[i].Bits = -out.S[i].Bits
			}
		case "+":
		case "!":
			out.S[i].Bits ^= 1
		case "~":
			out.S[i].Bits = ^out.S[i].Bits
		}
	}
	return out
}

func (in *interp) evalBinary(x *binaryExpr) Value {
	in.cov(x.covKey)
	switch x.op {
	case "&&":
		l := in.eval(x.l)
		if !in.condBool(l, "&& operand", x.line) {
			return boolValue(false)
		}
		r := in.eval(x.r)
		return Value{T: tBool, S: []Scalar{{Bits: r.S[0].Bits, Poison: r.S[0].Poison}}}
	case "||":
		l := in.eval(x.l)
		if in.condBool(l, "|| operand", x.line) {
			return boolValue(true)
		}
		r := in.eval(x.r)
		return Value{T: tBool, S: []Scalar{{Bits: r.S[0].Bits, Poison: r.S[0].Poison}}}
	}
	l := in.convert(in.eval(x.l), x.lconv)
	r := in.convert(in.eval(x.r), x.rconv)
	return in.binop(x.op, l, r, x.t, x.line)
}

func (in *interp) leafKinds(t *Type) []Kind {
	in.p.leafMu.Lock()
	defer in.p.leafMu.Unlock()
	if ks, ok := in.p.leafCache[t]; ok {
		return ks
	}
	ks := t.leafScalarKinds(nil)
	in.p.leafCache[t] = ks
	return ks
}

// binop evaluates a binary operator on converted operands.
func (in *interp) binop(op string, l, r Value, resT *Type, line int) Value {
	switch op {
	case "==", "!=":
		eq := true
		poison := false
		var kinds []Kind
		if l.T.scalarType() == nil {
			kinds = in.leafKinds(l.T)
		}
		for i := range l.S {
			k := Kind(KInt)
			if kinds != nil {
				k = kinds[i]
			} else {
				k = l.T.scalarType().Kind
			}
			if l.S[i].Poison || r.S[i].Poison {
				poison = true
			}
			if k == KFloat {
				if !(b2f(l.S[i].Bits) == b2f(r.S[i].Bits)) {
					eq = false
				}
			} else if l.S[i].Bits != r.S[i].Bits {
				eq = false
			}
		}
		if op == "!=" {
			eq = !eq
		}
		return Value{T: tBool, S: []Scalar{{Bits: boolBits(eq), Poison: poison}}}
	case "^^":
		return Value{T: tBool, S: []Scalar{{Bits: boolBits((l.S[0].Bits != 0) != (r.S[0].Bits != 0)), Poison: l.S[0].Poison || r.S[0].Poison}}}
	case "<", ">", "<=", ">=":
		var res bool
		switch l.T.Kind {
		case KFloat:
			a, b := l.f(0), r.f(0)
			switch op {
			case "<":
				res = a < b
			case ">":
				res = a > b
			case "<=":
				res = a <= b
			case ">=":
				res = a >= b
			}
		case KInt:
			a, b := l.i(0), r.i(0)
			switch op {
			case "<":
				res = a < b
			case ">":
				res = a > b
			case "<=":
				res = a <= b
			case ">=":
				res = a >= b
			}
		default:
			a, b := l.u(0), r.u(0)
			switch op {
			case "<":
				res = a < b
			case ">":
				res = a > b
			case "<=":
				res = a <= b
			case ">=":
				res = a >= b
			}
		}
		return Value{T: tBool, S: []Scalar{{Bits: boolBits(res), Poison: l.S[0].Poison || r.S[0].Poison}}}
	}
	// linear-algebra products
	if op == "*" && (l.T.Kind == KMat || r.T.Kind == KMat) && !l.T.isScalar() && !r.T.isScalar() {
		return in.matMul(l, r, resT)
	}
	out := newValue(resT)
	k := resT.scalarType().Kind
	for i := range out.S {
		a, b := l.comp(i), r.comp(i)
		out.S[i].Poison = a.Poison || b.Poison
		out.S[i].Bits = in.scalarOp(op, k, a.Bits, b.Bits, r.T.scalarType().Kind, line)
	}
	return out
}

func (in *interp) scalarOp(op string, k Kind, a, b uint32, rk Kind, line int) uint32 {
	if k == KFloat {
		x, y := b2f(a), b2f(b)
		switch op {
		case "+":
			return f2b(fadd(x, y))
		case "-":
			return f2b(fsub(x, y))
		case "*":
			return f2b(fmul(x, y))
		case "/":
			return f2b(fdiv(x, y))
		}
		in.fail("line %d: internal: float operator %s", line, op)
	}
	switch op {
	case "+":
		return a + b
	case "-":
		return a - b
	case "*":
		return a * b
	case "/":
		if b == 0 {
			in.trap(xrt.TrapDivZero, line, "integer division by zero")
			return 0
		}
		if k == KInt {
			if int32(a) == -2147483648 && int32(b) == -1 {
				in.trap(xrt.TrapDivOvf, line, "INT_MIN / -1")
				return a
			}
			return uint32(int32(a) / int32(b))
		}
		return a / b
	case "%":
		if b == 0 {
			in.trap(xrt.TrapDivZero, line, "integer remainder by zero")
			return 0
		}
		if k == KInt {
			if int32(a) < 0 || int32(b) < 0 {
				// GLSL §5.9: "If one or both operands are negative, the result is undefined."
				in.trap(xrt.TrapOther, line, "mod-negative: operator % with a negative operand")
			}
			if int32(b) == -1 {
				return 0
			}
			return uint32(int32(a) % int32(b))
		}
		return a % b
	case "&":
		return a & b
	case "|":
		return a | b
	case "^":
		return a ^ b
	case "<<", ">>":
		if (rk == KInt && int32(b) < 0) || b >= 32 {
			in.trap(xrt.TrapShift, line, fmt.Sprintf("shift amount %d out of range [0,31]", int64(int32(b))))
			b &= 31
		}
		if op == "<<" {
			return a << b
		}
		if k == KInt {
			return uint32(int32(a) >> b)
		}
		return a >> b
	}
	in.fail("line %d: internal: integer operator %s", line, op)
	return 0
}

func (in *interp) matMul(l, r Value, resT *Type) Value {
	out := newValue(resT)
	poison := l.anyPoison() || r.anyPoison()
	acc := func(n int, term func(k int) float32) float32 {
		var s float32
		for k := 0; k < n; k++ {
			t := term(k)
			if k == 0 {
				s = t
			} else {
				s = fadd(s, t)
			}
		}
		return s
	}
	switch {
	case l.T.Kind == KMat && r.T.Kind == KVec:
		rows, cols := l.T.Rows, l.T.N
		for rr := 0; rr < rows; rr++ {
			rr := rr
			out.S[rr].Bits = f2b(acc(cols, func(c int) float32 { return fmul(matAt(l, c, rr), r.f(c)) }))
		}
	case l.T.Kind == KVec && r.T.Kind == KMat:
		rows, cols := r.T.Rows, r.T.N
		for c := 0; c < cols; c++ {
			c := c
			out.S[c].Bits = f2b(acc(rows, func(k int) float32 { return fmul(l.f(k), matAt(r, c, k)) }))
		}
	default:
		// L: l.N cols x l.Rows rows ; R: r.N cols x r.Rows rows ; l.N == r.Rows
		for c := 0; c < r.T.N; c++ {
			for rr := 0; rr < l.T.Rows; rr++ {
				c, rr := c, rr
				out.S[c*l.T.Rows+rr].Bits = f2b(acc(l.T.N, func(k int) float32 { return fmul(matAt(l, k, rr), matAt(r, c, k)) }))
			}
		}
	}
	if poison {
		for i := range out.S {
			out.S[i].Poison = true
		}
	}
	return out
}

func (in *interp) evalAssign(x *assignExpr) Value {
	in.cov(x.covKey)
	if x.op == "=" {
		// GLSL does not define the order; evaluate the right side first, then the l-value
		v := in.convert(in.eval(x.r), x.rconv)
		r := in.evalRef(x.l)
		in.store(r, v, x.line)
		return v
	}
	r := in.evalRef(x.l)
	old := in.load(r, x.line)
	rv := in.convert(in.eval(x.r), x.rconv)
	op := x.op[:len(x.op)-1]
	nv := in.binop(op, old, rv, x.t, x.line)
	in.store(r, nv, x.line)
	return nv
}

// ---------- calls ----------

func (in *interp) evalCall(x *callExpr) Value {
	in.cov(x.covKey)
	switch x.kind {
	case callCtor:
		return in.evalCtor(x)
	case callBuiltin:
		return in.evalBuiltin(x)
	case callUser:
		return in.evalUser(x)
	}
	if in.constMode {
		panic(constFail{})
	}
	in.fail("line %d: unresolved call to %s", x.line, x.name)
	return Value{}
}

func (in *interp) evalCtor(x *callExpr) Value {
	t := x.ctorT
	args := make([]Value, len(x.args))
	for i, a := range x.args {
		args[i] = in.convert(in.eval(a), x.convs[i])
	}
	convTo := func(s Scalar, from Kind, to Kind) Scalar {
		o, why := convertScalar(s, from, to)
		if why != "" {
			in.trap(xrt.TrapF2I, x.line, why+" in "+t.String()+"(...)")
		}
		return o
	}
	switch t.Kind {
	case KBool, KInt, KUint, KFloat:
		a := args[0]
		return Value{T: t, S: []Scalar{convTo(a.S[0], a.T.scalarType().Kind, t.Kind)}}
	case KVec:
		out := newValue(t)
		tk := t.Elem.Kind
		if len(args) == 1 && args[0].T.isScalar() {
			s := convTo(args[0].S[0], args[0].T.Kind, tk)
			for i := range out.S {
				out.S[i] = s
			}
			return out
		}
		k := 0
		for _, a := range args {
			fk := a.T.scalarType().Kind
			for _, s := range a.S {
				if k < len(out.S) {
					out.S[k] = convTo(s, fk, tk)
					k++
				}
			}
		}
		return out
	case KMat:
		out := newValue(t)
		if len(args) == 1 && args[0].T.isScalar() {
			s := convTo(args[0].S[0], args[0].T.Kind, KFloat)
			for c := 0; c < t.N; c++ {
				if c < t.Rows {
					out.S[c*t.Rows+c] = s
				}
			}
			return out
		}
		if len(args) == 1 && args[0].T.Kind == KMat {
			m := args[0]
			for c := 0; c < t.N; c++ {
				for r := 0; r < t.Rows; r++ {
					switch {
					case c < m.T.N && r < m.T.Rows:
						out.S[c*t.Rows+r] = m.S[c*m.T.Rows+r]
					case c == r:
						out.S[c*t.Rows+r].Bits = f2b(1)
					}
				}
			}
			return out
		}
		k := 0
		for _, a := range args {
			fk := a.T.scalarType().Kind
			for _, s := range a.S {
				if k < len(out.S) {
					out.S[k] = convTo(s, fk, KFloat)
					k++
				}
			}
		}
		return out
	case KArray, KStruct:
		out := Value{T: t, S: make([]Scalar, 0, t.scalarCount())}
		for _, a := range args {
			out.S = append(out.S, a.S...)
		}
		return out
	}
	in.fail("line %d: internal: constructor of %s", x.line, t)
	return Value{}
}

func (in *interp) evalBuiltin(x *callExpr) Value {
	s := x.bi
	switch s.special {
	case "barrier":
		if in.constMode {
			panic(constFail{})
		}
		in.step()
		if in.barrier != nil {
			in.barrier(x.line)
		}
		return Value{T: tVoid}
	case "membar":
		return Value{T: tVoid}
	case "atomic":
		if in.constMode {
			panic(constFail{})
		}
		return in.evalAtomic(x)
	}
	c := &bctx{in: in, sig: s, line: x.line}
	c.a = make([]Value, len(x.args))
	var refs []*ref
	hasOut := false
	for i, a := range x.args {
		if s.dirs[i] == 'o' {
			hasOut = true
			if refs == nil {
				refs = make([]*ref, len(x.args))
			}
			refs[i] = in.evalRef(a)
			continue
		}
		c.a[i] = in.convert(in.eval(a), x.convs[i])
	}
	if hasOut {
		c.outs = make([]Value, len(x.args))
	}
	res := s.fn(c)
	if hasOut {
		for i, r := range refs {
			if r != nil {
				ov := c.outs[i]
				if ov.T != r.t {
					ov = in.convert(ov, r.t)
				}
				in.store(r, ov, x.line)
			}
		}
	}
	return res
}

func (in *interp) evalAtomic(x *callExpr) Value {
	s := x.bi
	r := in.evalRef(x.args[0])
	if !r.atomicOK {
		in.fail("line %d: atomic on non-shared, non-buffer memory", x.line)
	}
	args := make([]uint32, 0, 2)
	poison := false
	for _, a := range x.args[1:] {
		v := in.eval(a)
		if v.S[0].Poison {
			poison = true
		}
		args = append(args, v.S[0].Bits)
	}
	old := in.load(r, x.line)
	if old.S[0].Poison {
		poison = true
	}
	if poison {
		in.trap(xrt.TrapPoison, x.line, "undefined value passed to "+s.name)
	}
	nv := atomicOp(s.name, s.ret.Kind == KInt, old.S[0].Bits, args)
	in.store(r, Value{T: r.t, S: []Scalar{{Bits: nv}}}, x.line)
	return Value{T: s.ret, S: []Scalar{{Bits: old.S[0].Bits}}}
}

func (in *interp) evalUser(x *callExpr) Value {
	if in.constMode {
		panic(constFail{})
	}
	f := x.fn
	if impl, ok := in.p.protoImpl[f]; ok {
		f = impl
	}
	if f.body == nil {
		in.fail("line %d: function %s declared but never defined", x.line, f.name)
	}
	if f.unsupported != "" {
		in.unsupported("function " + f.name + ": " + f.unsupported)
	}
	in.step()
	if in.depth > 64 {
		in.unsupported("call depth")
	}
	nf := &frame{fn: f, locals: make([][]Scalar, f.nslots)}
	refs := make([]*ref, len(f.params))
	for i, p := range f.params {
		switch p.dir {
		case "in":
			v := in.convert(in.eval(x.args[i]), x.convs[i])
			nf.locals[p.sym.slot] = v.S
		case "inout":
			refs[i] = in.evalRef(x.args[i])
			nf.locals[p.sym.slot] = in.load(refs[i], x.line).S
		case "out":
			refs[i] = in.evalRef(x.args[i])
			nf.locals[p.sym.slot] = poisonValue(p.t).S
		}
	}
	saved := in.fr
	in.fr = nf
	in.depth++
	c := in.execBlock(f.body.stmts)
	in.depth--
	if c != ctlReturn && f.ret.Kind != KVoid {
		in.trap(xrt.TrapUnreach, f.line, "control reached the end of non-void function "+f.name)
		nf.ret = poisonValue(f.ret)
	}
	in.fr = saved
	for i, p := range f.params {
		if refs[i] != nil {
			v := Value{T: p.t, S: nf.locals[p.sym.slot]}
			if v.T != refs[i].t && p.dir == "out" {
				v = in.convert(v, refs[i].t)
			}
			in.store(refs[i], v, x.line)
		}
	}
	if f.ret.Kind == KVoid {
		return Value{T: tVoid}
	}
	return nf.ret
}

// ---------- statements ----------

func (in *interp) execBlock(stmts []stmt) ctl {
	for _, s := range stmts {
		if c := in.exec(s); c != ctlNone {
			return c
		}
	}
	return ctlNone
}

func (in *interp) exec(s stmt) ctl {
	in.step()
	switch s := s.(type) {
	case *emptyStmt:
		return ctlNone
	case *declStmt:
		in.cov("stmt.decl")
		for _, dc := range s.decls {
			sym := dc.sym
			if sym.constVal != nil {
				continue
			}
			if sym.t.isErr() {
				in.unsupported("ill-typed declaration of " + dc.name)
			}
			if dc.init != nil {
				v := in.convert(in.eval(dc.init), dc.conv)
				cells := make([]Scalar, len(v.S))
				copy(cells, v.S)
				in.fr.locals[sym.slot] = cells
			} else {
				in.fr.locals[sym.slot] = poisonValue(sym.t).S
			}
		}
		return ctlNone
	case *exprStmt:
		in.cov("stmt.expr")
		in.eval(s.x)
		return ctlNone
	case *blockStmt:
		return in.execBlock(s.stmts)
	case *ifStmt:
		in.cov("stmt.if")
		if in.condBool(in.eval(s.cond), "if condition", s.line) {
			return in.exec(s.then)
		}
		if s.els != nil {
			return in.exec(s.els)
		}
		return ctlNone
	case *whileStmt:
		in.cov("stmt.while")
		for {
			if !in.condBool(in.eval(s.cond), "while condition", s.line) {
				return ctlNone
			}
			c := in.exec(s.body)
			if c == ctlBreak {
				return ctlNone
			}
			if c == ctlReturn {
				return c
			}
			in.step()
		}
	case *doStmt:
		in.cov("stmt.do")
		for {
			c := in.exec(s.body)
			if c == ctlBreak {
				return ctlNone
			}
			if c == ctlReturn {
				return c
			}
			if !in.condBool(in.eval(s.cond), "do-while condition", s.line) {
				return ctlNone
			}
			in.step()
		}
	case *forStmt:
		in.cov("stmt.for")
		if s.init != nil {
			in.exec(s.init)
		}
		for {
			if s.cond != nil && !in.condBool(in.eval(s.cond), "for condition", s.line) {
				return ctlNone
			}
			c := in.exec(s.body)
			if c == ctlBreak {
				return ctlNone
			}
			if c == ctlReturn {
				return c
			}
			if s.post != nil {
				in.eval(s.post)
			}
			in.step()
		}
	case *switchStmt:
		in.cov("stmt.switch")
		sel := in.eval(s.sel)
		if sel.S[0].Poison {
			in.trap(xrt.TrapPoison, s.line, "undefined value used as switch selector")
		}
		start := -1
		def := -1
		for i, x := range s.body {
			if cl, ok := x.(*caseLabel); ok {
				if cl.isDefault {
					def = i
				} else if cl.cval == sel.S[0].Bits {
					start = i
					break
				}
			}
		}
		if start < 0 {
			start = def
		}
		if start < 0 {
			return ctlNone
		}
		for _, x := range s.body[start:] {
			if _, ok := x.(*caseLabel); ok {
				continue
			}
			c := in.exec(x)
			if c == ctlBreak {
				return ctlNone
			}
			if c != ctlNone {
				return c
			}
		}
		return ctlNone
	case *caseLabel:
		return ctlNone
	case *breakStmt:
		in.cov("stmt.break")
		return ctlBreak
	case *continueStmt:
		in.cov("stmt.continue")
		return ctlContinue
	case *returnStmt:
		in.cov("stmt.return")
		if s.x != nil {
			in.fr.ret = in.convert(in.eval(s.x), s.conv)
		}
		return ctlReturn
	case *discardStmt:
		in.unsupported("discard")
	}
	in.fail("internal: unknown statement")
	return ctlNone
}
