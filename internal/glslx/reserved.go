package glslx

import "strings"

// Reserved tables written from the GLSL 4.60 specification (§3.6 Keywords,
// §8 Built-in Functions) and the GLSL ES 3.20 specification (§3.8, §8).

func wordSet(lists ...string) map[string]bool {
	m := map[string]bool{}
	for _, l := range lists {
		for _, w := range strings.Fields(l) {
			m[w] = true
		}
	}
	return m
}

// keywords of GLSL 4.60 and ES 3.20 that are not type names.
var kwPlain = wordSet(`
const uniform buffer shared attribute varying
coherent volatile restrict readonly writeonly
atomic_uint layout
centroid flat smooth noperspective patch sample
invariant precise
break continue do for while switch case default if else
subroutine in out inout
true false
discard return
lowp mediump highp precision
struct
`)

// type keywords inside the supported subset are in basicByName; everything
// below is a type keyword outside the subset (opaque, double, Vulkan-only).
var kwOpaqueTypes = wordSet(`
double dvec2 dvec3 dvec4
dmat2 dmat3 dmat4 dmat2x2 dmat2x3 dmat2x4 dmat3x2 dmat3x3 dmat3x4 dmat4x2 dmat4x3 dmat4x4
sampler1D sampler1DShadow sampler1DArray sampler1DArrayShadow
isampler1D isampler1DArray usampler1D usampler1DArray
sampler2D sampler2DShadow sampler2DArray sampler2DArrayShadow
isampler2D isampler2DArray usampler2D usampler2DArray
sampler2DRect sampler2DRectShadow isampler2DRect usampler2DRect
sampler2DMS isampler2DMS usampler2DMS
sampler2DMSArray isampler2DMSArray usampler2DMSArray
sampler3D isampler3D usampler3D
samplerCube samplerCubeShadow isamplerCube usamplerCube
samplerCubeArray samplerCubeArrayShadow isamplerCubeArray usamplerCubeArray
samplerBuffer isamplerBuffer usamplerBuffer
image1D iimage1D uimage1D
image1DArray iimage1DArray uimage1DArray
image2D iimage2D uimage2D
image2DArray iimage2DArray uimage2DArray
image2DRect iimage2DRect uimage2DRect
image2DMS iimage2DMS uimage2DMS
image2DMSArray iimage2DMSArray uimage2DMSArray
image3D iimage3D uimage3D
imageCube iimageCube uimageCube
imageCubeArray iimageCubeArray uimageCubeArray
imageBuffer iimageBuffer uimageBuffer
texture1D texture1DArray itexture1D itexture1DArray utexture1D utexture1DArray
texture2D texture2DArray itexture2D itexture2DArray utexture2D utexture2DArray
texture2DRect itexture2DRect utexture2DRect
texture2DMS itexture2DMS utexture2DMS
texture2DMSArray itexture2DMSArray utexture2DMSArray
texture3D itexture3D utexture3D
textureCube itextureCube utextureCube
textureCubeArray itextureCubeArray utextureCubeArray
textureBuffer itextureBuffer utextureBuffer
sampler samplerShadow
subpassInput isubpassInput usubpassInput
subpassInputMS isubpassInputMS usubpassInputMS
`)

// extension types that naga may emit (not keywords of core GLSL, treated as
// out-of-subset type names so that texts using them are inconclusive).
var extTypes = wordSet(`
float16_t f16vec2 f16vec3 f16vec4 f16mat2 f16mat3 f16mat4
f16mat2x2 f16mat2x3 f16mat2x4 f16mat3x2 f16mat3x3 f16mat3x4 f16mat4x2 f16mat4x3 f16mat4x4
float32_t float64_t
int8_t int16_t int32_t int64_t uint8_t uint16_t uint32_t uint64_t
i8vec2 i8vec3 i8vec4 u8vec2 u8vec3 u8vec4
i16vec2 i16vec3 i16vec4 u16vec2 u16vec3 u16vec4
i32vec2 i32vec3 i32vec4 u32vec2 u32vec3 u32vec4
i64vec2 i64vec3 i64vec4 u64vec2 u64vec3 u64vec4
samplerExternalOES rayQueryEXT accelerationStructureEXT
`)

// reserved for future use (GLSL 4.60 ∪ ES 3.20).
var kwFuture = wordSet(`
common partition active asm class union enum typedef template this
resource goto inline noinline public static extern external interface
long short half fixed unsigned superp input output
hvec2 hvec3 hvec4 fvec2 fvec3 fvec4
filter sizeof cast namespace using sampler3DRect
`)

// built-in function names (GLSL 4.60 §8 ∪ ES 3.20 §8, all stages).
var builtinFuncNames = wordSet(`
radians degrees sin cos tan asin acos atan sinh cosh tanh asinh acosh atanh
pow exp log exp2 log2 sqrt inversesqrt
abs sign floor trunc round roundEven ceil fract mod modf min max clamp mix step smoothstep
isnan isinf floatBitsToInt floatBitsToUint intBitsToFloat uintBitsToFloat fma frexp ldexp
packUnorm2x16 packSnorm2x16 packUnorm4x8 packSnorm4x8
unpackUnorm2x16 unpackSnorm2x16 unpackUnorm4x8 unpackSnorm4x8
packHalf2x16 unpackHalf2x16 packDouble2x32 unpackDouble2x32
length distance dot cross normalize ftransform faceforward reflect refract
matrixCompMult outerProduct transpose determinant inverse
lessThan lessThanEqual greaterThan greaterThanEqual equal notEqual any all not
uaddCarry usubBorrow umulExtended imulExtended
bitfieldExtract bitfieldInsert bitfieldReverse bitCount findLSB findMSB
textureSize textureQueryLod textureQueryLevels textureSamples
texture textureProj textureLod textureOffset texelFetch texelFetchOffset
textureProjOffset textureLodOffset textureProjLod textureProjLodOffset
textureGrad textureGradOffset textureProjGrad textureProjGradOffset
textureGather textureGatherOffset textureGatherOffsets
texture1D texture1DProj texture1DLod texture1DProjLod
texture2D texture2DProj texture2DLod texture2DProjLod
texture3D texture3DProj texture3DLod texture3DProjLod
textureCube textureCubeLod
shadow1D shadow2D shadow1DProj shadow2DProj shadow1DLod shadow2DLod shadow1DProjLod shadow2DProjLod
atomicCounterIncrement atomicCounterDecrement atomicCounter
atomicCounterAdd atomicCounterSubtract atomicCounterMin atomicCounterMax
atomicCounterAnd atomicCounterOr atomicCounterXor atomicCounterExchange atomicCounterCompSwap
atomicAdd atomicMin atomicMax atomicAnd atomicOr atomicXor atomicExchange atomicCompSwap
imageSize imageSamples imageLoad imageStore
imageAtomicAdd imageAtomicMin imageAtomicMax imageAtomicAnd imageAtomicOr imageAtomicXor
imageAtomicExchange imageAtomicCompSwap
EmitStreamVertex EndStreamPrimitive EmitVertex EndPrimitive
dFdx dFdy dFdxFine dFdyFine dFdxCoarse dFdyCoarse fwidth fwidthFine fwidthCoarse
interpolateAtCentroid interpolateAtSample interpolateAtOffset
noise1 noise2 noise3 noise4
barrier memoryBarrier memoryBarrierAtomicCounter memoryBarrierBuffer
memoryBarrierShared memoryBarrierImage groupMemoryBarrier
subpassLoad anyInvocation allInvocations allInvocationsEqual
`)

// reservedClass returns "" if the identifier may be declared by a shader,
// otherwise the reason it is reserved. isFunc tells whether a function is
// being declared, es whether the text is GLSL ES.
//
// Built-in function names: GLSL (4.60 §4.2.2) places the built-in functions in
// a scope outside the global scope, so a variable, parameter, member or type
// with such a name is legal (it merely hides the built-in; naga's own
// naga_modf helper declares "float fract"). Desktop GLSL also allows
// redeclaring / overloading built-in functions (§6.1). Only GLSL ES forbids it
// ("A shader cannot redefine or overload built-in functions", ES 3.20 §6.1),
// so that is the only case reported.
func reservedClass(name string, isFunc, es bool) string {
	switch {
	case kwPlain[name]:
		return "keyword"
	case basicByName[name] != nil:
		return "keyword (type name)"
	case kwOpaqueTypes[name]:
		return "keyword (type name)"
	case kwFuture[name]:
		return "reserved for future use"
	case strings.HasPrefix(name, "gl_"):
		return "gl_ prefix"
	case strings.Contains(name, "__"):
		return "contains \"__\""
	case isFunc && es && builtinFuncNames[name]:
		return "built-in function name (GLSL ES forbids redefining or overloading built-in functions)"
	}
	return ""
}

// isTypeKeyword: a keyword naming a type (in or out of subset).
func isTypeKeyword(name string) bool {
	return basicByName[name] != nil || kwOpaqueTypes[name] || extTypes[name]
}

var qualifierWords = wordSet(`
const in out inout uniform buffer shared attribute varying
coherent volatile restrict readonly writeonly
centroid flat smooth noperspective patch sample
invariant precise lowp mediump highp layout subroutine
`)
