// Package glslx is an independent front-end (lexer, parser, static checker)
// and trapping interpreter for the subset of GLSL (desktop 4.30-4.60 core and
// GLSL ES 3.10/3.20) that naga's glsl backend emits for compute shaders.
//
// Semantics are written from the GLSL specification (GLSL 4.60, GLSL ES 3.20)
// and the OpenGL 4.6 specification §7.6.2.2 (std140/std430); nothing is taken
// from naga. Everything the specification leaves undefined is reported as an
// xrt.Trap in TrapMode; everything outside the implemented subset is reported
// as *xrt.Unsupported and never given a made-up value.
//
// # Supported subset
//
// Types bool/int/uint/float, vectors, float matrices, sized and runtime-sized
// arrays (arrays of arrays), structs; const / private globals, shared
// variables, uniform and buffer interface blocks (std140/std430, with or
// without instance name, binding/offset/align/row_major/column_major,
// readonly); functions with in/out/inout parameters, overloading, prototypes;
// all operators including ++/--, op=, ?:, the sequence operator; swizzles
// (read and write); constructors; if/else, switch with fall-through, while,
// do-while, for, break, continue, return; .length(); the built-in functions
// of GLSL 4.60 chapters 8.1-8.8 on float/int/uint/bool types, the atomic
// memory functions, barrier() and the memory barriers; the compute built-in
// variables. #version, #extension, #line, #pragma and precision statements
// are accepted and ignored.
//
// # Outside the subset (*xrt.Unsupported)
//
// double / 64-bit / 16-bit types and literals, samplers, images, textures,
// subgroup / ray-query / mesh built-ins, default-block uniforms, stage
// in/out variables and blocks, blocks without std140/std430 (implementation
// defined layout), arrays of block instances, anonymous / local / nested
// struct definitions, initializer lists, declarations inside while/for
// conditions, implicitly sized arrays, #define/#if, subroutines, discard,
// specialization constants. Unsupported global declarations and the functions
// using them are skipped; Parse fails only when main can reach them.
// Execution: round() of an exact .5 ("round-half", implementation-defined
// direction), fma() whose fused and unfused results differ, the step budget.
//
// # Traps (TrapMode)
//
// Integer /,% by zero (TrapDivZero), INT_MIN/-1 (TrapDivOvf), % with a
// negative operand (TrapOther "mod-negative"), shift amounts outside [0,31]
// (TrapShift), float->int conversions of NaN / out-of-range values and
// negative float->uint (TrapF2I), out-of-range indices and buffer offsets
// (TrapOOB), use of never-written storage (TrapPoison), falling off a
// non-void function (TrapUnreach), bitfieldExtract/Insert ranges ("bitfield
// range"), clamp with minVal > maxVal, barrier() in non-uniform control flow,
// and the domain restrictions the specification attaches to float built-ins
// (sqrt(x<0), pow(x<0,..), log(x<=0), asin(|x|>1), smoothstep(edge0>=edge1),
// atan(0,0), inverse of a singular matrix, ...: TrapOther, Detail contains
// "float-domain").
//
// # Floating point
//
// Every f32 operation is rounded to binary32 (round-to-nearest-even)
// individually, no contraction, denormals are kept; transcendental functions
// are computed in float64 and rounded once; dot/length/matrix products
// accumulate left to right; normalize(x) is x/length(x).
package glslx

import (
	"fmt"
	"sort"
	"sync"

	"verif/internal/xrt"
)

// Entry is a compute entry point found in the text.
type Entry struct {
	Name      string
	LocalSize [3]uint32
}

// Resource is a buffer-backed interface block.
//
// Name is the block name (naga: "<Type>_block_<N>Compute"). TypeName is the
// type of the single member (or the block name when the block has several
// members), followed by " (implicit)" when the block has no layout(binding=N);
// Slot.B is then the 0-based order of appearance of the block among ALL
// uniform/buffer blocks of the text (for naga output this equals the N of the
// block name "..._block_<N>Compute"). Slot.Kind is "buffer" or "uniform".
type Resource struct {
	Name     string
	Slot     xrt.Slot
	Kind     string // "storage-rw", "storage-ro", "uniform"
	TypeName string
}

// Decl is one declared identifier.
type Decl struct{ Name, Kind, Scope string }

// Program is a parsed and checked GLSL compute shader.
type Program struct {
	version int
	es      bool
	profile string
	exts    []string

	structs  []*Type
	funcs    []*funcDecl
	main     *funcDecl
	privates []*varSym
	shareds  []*varSym
	blocks   []*blockInfo
	bsyms    []*varSym // builtin variables in slot order

	localSize    [3]uint32
	hasLocalSize bool
	usesBarrier  bool

	defStd      map[string]int
	defRowMajor map[string]bool
	protoImpl   map[*funcDecl]*funcDecl
	lay         *layouter
	leafCache   map[*Type][]Kind
	leafMu      sync.Mutex

	decls []Decl
	traps []*xrt.Trap

	fatalUnsupported string
	nBlocksSeen      int
}

func (p *Program) builtinSym(name string, t *Type) *varSym {
	for _, s := range p.bsyms {
		if s.name == name {
			return s
		}
	}
	s := &varSym{name: name, kind: symBuiltinVar, t: t, slot: len(p.bsyms), readonly: true}
	p.bsyms = append(p.bsyms, s)
	return s
}

func (p *Program) workGroupSizeValue() Value {
	v := newValue(vecOf(tUint, 3))
	for i := 0; i < 3; i++ {
		v.S[i].Bits = p.localSize[i]
	}
	return v
}

// Parse lexes, parses and statically checks src.
//
// The error is *xrt.Unsupported when the text uses syntax or features outside
// the supported subset (inconclusive) and a plain error when the text is not
// valid GLSL at all.
func Parse(src string) (prog *Program, err error) {
	defer func() {
		if r := recover(); r != nil {
			prog = nil
			switch e := r.(type) {
			case *syntaxError:
				err = e
			case *xrt.Unsupported:
				err = e
			case abort:
				err = e.err
			default:
				err = fmt.Errorf("glslx: internal error in Parse: %v", r)
			}
		}
	}()
	lx, lerr := lex(src)
	if lerr != nil {
		return nil, lerr
	}
	p := &Program{
		version:     lx.version,
		profile:     lx.profile,
		es:          lx.profile == "es",
		exts:        lx.extensions,
		defStd:      map[string]int{},
		defRowMajor: map[string]bool{},
		protoImpl:   map[*funcDecl]*funcDecl{},
		lay:         newLayouter(),
		leafCache:   map[*Type][]Kind{},
		localSize:   [3]uint32{1, 1, 1},
	}
	if p.version == 0 {
		// no #version: GLSL 1.10 — far outside the subset
		return nil, &xrt.Unsupported{What: "missing #version directive (GLSL 1.10)"}
	}
	if p.version == 100 || (p.version == 300 && lx.profile != "es") || (p.es && p.version < 300) {
		if p.version == 300 && lx.profile != "es" {
			return nil, &syntaxError{1, "#version 300 requires the es profile"}
		}
	}
	ps := &parser{toks: lx.toks, typeNames: map[string]bool{}}
	items := ps.parseUnit()
	c := &checker{prog: p}
	c.global = &scope{m: map[string]*symEntry{}}
	c.cur = c.global
	c.unit(items)

	// recursion is a compile-time error in GLSL
	c.checkRecursion()
	// a called function must be defined somewhere in the (single) compilation unit
	for _, f := range p.funcs {
		for _, g := range f.calls {
			if g.body == nil && p.protoImpl[g] == nil {
				c.curFn = f
				c.trap(xrt.TrapUnresolved, g.line, "function %q is declared and called but never defined", g.name)
				c.curFn = nil
			}
		}
	}

	if p.fatalUnsupported != "" {
		return nil, &xrt.Unsupported{What: p.fatalUnsupported}
	}
	if !p.hasLocalSize {
		return nil, &xrt.Unsupported{What: "no compute entry point (no layout(local_size_x = ...) in; declaration)"}
	}
	if p.main == nil {
		return nil, fmt.Errorf("glslx: compute shader without a main function")
	}
	// anything outside the subset reachable from main makes the text inconclusive
	seen := map[*funcDecl]bool{}
	var visit func(f *funcDecl) string
	visit = func(f *funcDecl) string {
		if impl, ok := p.protoImpl[f]; ok {
			f = impl
		}
		if seen[f] {
			return ""
		}
		seen[f] = true
		if f.unsupported != "" {
			return "function " + f.name + ": " + f.unsupported
		}
		for _, g := range f.calls {
			if w := visit(g); w != "" {
				return w
			}
		}
		return ""
	}
	if w := visit(p.main); w != "" {
		return nil, &xrt.Unsupported{What: w}
	}
	for f := range seen {
		if f.usesBarrier {
			p.usesBarrier = true
		}
	}
	return p, nil
}

func (c *checker) checkRecursion() {
	p := c.prog
	state := map[*funcDecl]int{}
	var visit func(f *funcDecl)
	visit = func(f *funcDecl) {
		if impl, ok := p.protoImpl[f]; ok {
			f = impl
		}
		switch state[f] {
		case 1:
			c.trap(xrt.TrapType, f.line, "recursion involving function %s (not allowed in GLSL)", f.name)
			return
		case 2:
			return
		}
		state[f] = 1
		for _, g := range f.calls {
			visit(g)
		}
		state[f] = 2
	}
	for _, f := range p.funcs {
		visit(f)
	}
}

// StaticTraps returns the problems found statically.
func (p *Program) StaticTraps() []*xrt.Trap {
	out := make([]*xrt.Trap, len(p.traps))
	copy(out, p.traps)
	return out
}

// Entries returns the compute entry points (GLSL: exactly "main").
func (p *Program) Entries() []Entry {
	if p.main == nil || !p.hasLocalSize {
		return nil
	}
	return []Entry{{Name: "main", LocalSize: p.localSize}}
}

// Resources lists the uniform and shader-storage blocks.
func (p *Program) Resources() []Resource {
	var out []Resource
	for _, b := range p.blocks {
		r := Resource{Name: b.name, Slot: blockSlot(b)}
		switch {
		case b.storage == "uniform":
			r.Kind = "uniform"
		case b.readonly:
			r.Kind = "storage-ro"
		default:
			r.Kind = "storage-rw"
		}
		if len(b.T.Fields) == 1 {
			r.TypeName = b.T.Fields[0].T.String()
		} else {
			r.TypeName = b.name
		}
		if b.implicit {
			r.TypeName += " (implicit)"
		}
		out = append(out, r)
	}
	return out
}

func blockSlot(b *blockInfo) xrt.Slot {
	return xrt.Slot{Kind: b.storage, A: 0, B: b.binding}
}

// Decls lists every declared identifier.
func (p *Program) Decls() []Decl {
	out := make([]Decl, len(p.decls))
	copy(out, p.decls)
	return out
}

// Version reports the #version number and profile of the text.
func (p *Program) Version() (int, string) { return p.version, p.profile }

// ---------- constant evaluation (used by the checker) ----------

func (c *checker) constEval(e expr) (Value, bool) { return c.constEvalConv(e, nil) }

func (c *checker) constEvalConv(e expr, conv *Type) (v Value, ok bool) {
	if !isConstExpr(e) {
		return Value{}, false
	}
	in := &interp{p: c.prog, constMode: true}
	defer func() {
		if r := recover(); r != nil {
			if _, isCF := r.(constFail); isCF {
				v, ok = Value{}, false
				return
			}
			if _, isAb := r.(abort); isAb {
				v, ok = Value{}, false
				return
			}
			panic(r)
		}
	}()
	v = in.convert(in.eval(e), conv)
	if in.constTrapped || v.anyPoison() {
		return Value{}, false
	}
	return v, true
}

// ---------- execution ----------

// Run executes the entry point over the dispatch in opt.
//
// Non-TrapMode fallbacks ("natural" results): integer x/0 and x%0 give 0,
// INT_MIN/-1 gives INT_MIN, % with negative operands gives the truncated
// remainder, shift amounts are masked to 5 bits, float->int conversions
// saturate (NaN gives 0), out-of-range indices are clamped for reads and the
// write is dropped, undefined (never written) cells read as 0.
func (p *Program) Run(entry string, bufs xrt.Buffers, opt xrt.Options) (res xrt.Result, err error) {
	res = xrt.Result{Cov: xrt.Coverage{}}
	defer func() {
		if r := recover(); r != nil {
			if a, ok := r.(abort); ok {
				err = a.err
				return
			}
			err = fmt.Errorf("glslx: internal error in Run: %v", r)
		}
	}()
	if entry != "main" && entry != "" {
		return res, fmt.Errorf("glslx: no entry point %q (GLSL entry point is main)", entry)
	}
	if p.main == nil || !p.hasLocalSize {
		return res, fmt.Errorf("glslx: no compute entry point")
	}
	rs := &runState{p: p, opt: opt, trapMode: opt.TrapMode, budget: opt.StepBudget(), res: &res, trapKeys: map[string]bool{}}
	for _, b := range p.blocks {
		data, ok := bufs[blockSlot(b)]
		if !ok {
			return res, fmt.Errorf("glslx: no buffer bound for block %s at slot %s", b.name, blockSlot(b))
		}
		rs.bufs = append(rs.bufs, &bufState{data: data, readonly: b.readonly, name: b.name})
	}
	groups := opt.Dispatch.Groups()
	ls := p.localSize
	nInv := int(ls[0]) * int(ls[1]) * int(ls[2])
	if nInv <= 0 || nInv > 1<<16 {
		return res, &xrt.Unsupported{What: "workgroup size"}
	}
	// private globals: initializers are constant expressions, evaluate once
	privInit := make([][]Scalar, len(p.privates))
	{
		in := &interp{p: p, rs: rs}
		for i, g := range p.privates {
			if g.init != nil {
				privInit[i] = in.convert(in.eval(g.init), g.initConv).S
			} else {
				privInit[i] = poisonValue(g.t).S
			}
		}
	}
	u3 := vecOf(tUint, 3)
	mkU3 := func(a, b, c uint32) Value {
		return Value{T: u3, S: []Scalar{{Bits: a}, {Bits: b}, {Bits: c}}}
	}
	for gz := uint32(0); gz < groups[2]; gz++ {
		for gy := uint32(0); gy < groups[1]; gy++ {
			for gx := uint32(0); gx < groups[0]; gx++ {
				rs.shared = make([][]Scalar, len(p.shareds))
				for i, s := range p.shareds {
					rs.shared[i] = poisonValue(s.t).S
				}
				invs := make([]*interp, 0, nInv)
				for lz := uint32(0); lz < ls[2]; lz++ {
					for ly := uint32(0); ly < ls[1]; ly++ {
						for lx := uint32(0); lx < ls[0]; lx++ {
							in := &interp{p: p, rs: rs}
							in.privates = make([][]Scalar, len(privInit))
							for i, c := range privInit {
								in.privates[i] = append([]Scalar(nil), c...)
							}
							in.bvals = make([]Value, len(p.bsyms))
							for _, bs := range p.bsyms {
								var v Value
								switch bs.name {
								case "gl_NumWorkGroups":
									v = mkU3(groups[0], groups[1], groups[2])
								case "gl_WorkGroupSize":
									v = mkU3(ls[0], ls[1], ls[2])
								case "gl_WorkGroupID":
									v = mkU3(gx, gy, gz)
								case "gl_LocalInvocationID":
									v = mkU3(lx, ly, lz)
								case "gl_GlobalInvocationID":
									v = mkU3(gx*ls[0]+lx, gy*ls[1]+ly, gz*ls[2]+lz)
								case "gl_LocalInvocationIndex":
									v = uintValue(lz*ls[0]*ls[1] + ly*ls[0] + lx)
								}
								in.bvals[bs.slot] = v
							}
							invs = append(invs, in)
						}
					}
				}
				if err := runGroup(p, invs); err != nil {
					return res, err
				}
			}
		}
	}
	return res, nil
}

func (in *interp) runMain() {
	f := in.p.main
	in.fr = &frame{fn: f, locals: make([][]Scalar, f.nslots)}
	in.execBlock(f.body.stmts)
}

// event sent by an invocation goroutine to the scheduler.
type invEvent struct {
	done bool
	line int   // barrier call site
	err  error // terminal error (abort)
	pnc  interface{}
}

type killed struct{}

// runGroup runs the invocations of one workgroup. Without barriers they run
// to completion one after another; with barriers each invocation is a
// goroutine and exactly one goroutine runs at a time (baton passing), so the
// execution is fully deterministic.
func runGroup(p *Program, invs []*interp) error {
	if !p.usesBarrier {
		for _, in := range invs {
			in.runMain()
		}
		return nil
	}
	n := len(invs)
	resume := make([]chan bool, n) // true = continue, false = terminate
	events := make(chan invEvent)
	for i := range invs {
		resume[i] = make(chan bool)
		i := i
		in := invs[i]
		in.barrier = func(line int) {
			events <- invEvent{line: line}
			if !<-resume[i] {
				panic(killed{})
			}
		}
		go func() {
			if !<-resume[i] {
				return
			}
			defer func() {
				if r := recover(); r != nil {
					switch e := r.(type) {
					case killed:
						return
					case abort:
						events <- invEvent{done: true, err: e.err}
					default:
						events <- invEvent{done: true, pnc: r}
					}
					return
				}
				events <- invEvent{done: true}
			}()
			in.runMain()
		}()
	}
	started := make([]bool, n)
	done := make([]bool, n)
	waiting := make([]bool, n)
	killAll := func() {
		for i := 0; i < n; i++ {
			if !done[i] && (waiting[i] || !started[i]) {
				resume[i] <- false
			}
		}
	}
	for {
		live := 0
		firstLine := -1
		divergent := false
		anyDone := false
		for i := 0; i < n; i++ {
			if done[i] {
				anyDone = true
				continue
			}
			// run invocation i until it finishes or reaches a barrier
			started[i] = true
			waiting[i] = false
			resume[i] <- true
			ev := <-events
			if ev.err != nil || ev.pnc != nil {
				done[i] = true
				killAll()
				if ev.err != nil {
					return ev.err
				}
				return fmt.Errorf("glslx: internal error in Run: %v", ev.pnc)
			}
			if ev.done {
				done[i] = true
				anyDone = true
				continue
			}
			waiting[i] = true
			live++
			if firstLine < 0 {
				firstLine = ev.line
			} else if ev.line != firstLine {
				divergent = true
			}
		}
		if live == 0 {
			return nil
		}
		if divergent || anyDone {
			// GLSL: barrier() must be executed by all invocations of the workgroup in
			// uniform control flow, otherwise behaviour is undefined.
			invs[0].trap(xrt.TrapOther, firstLine, "barrier() reached in non-uniform control flow (some invocations finished or wait at a different barrier)")
		}
	}
}

// sortedCov is a helper for tests / debugging.
func sortedCov(c xrt.Coverage) []string {
	ks := c.Keys()
	sort.Strings(ks)
	return ks
}
