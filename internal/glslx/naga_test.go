package glslx

import (
	"encoding/binary"
	"math"
	"testing"

	"github.com/gogpu/naga"
	"github.com/gogpu/naga/glsl"

	"verif/internal/xrt"
)

// compileWGSL compiles the (single) compute entry point of src to GLSL with naga.
func compileWGSL(t *testing.T, src string, ver glsl.Version) string {
	t.Helper()
	ast, err := naga.Parse(src)
	if err != nil {
		t.Fatalf("naga.Parse: %v", err)
	}
	m, err := naga.LowerWithSource(ast, src)
	if err != nil {
		t.Fatalf("naga.Lower: %v", err)
	}
	if len(m.EntryPoints) == 0 {
		t.Fatal("no entry point")
	}
	txt, _, err := glsl.Compile(m, glsl.Options{LangVersion: ver, EntryPoint: m.EntryPoints[0].Name, ForceHighPrecision: true})
	if err != nil {
		t.Fatalf("glsl.Compile: %v", err)
	}
	return txt
}

func u32s(vals ...uint32) []byte {
	b := make([]byte, 4*len(vals))
	for i, v := range vals {
		binary.LittleEndian.PutUint32(b[4*i:], v)
	}
	return b
}
func i32s(vals ...int32) []byte {
	u := make([]uint32, len(vals))
	for i, v := range vals {
		u[i] = uint32(v)
	}
	return u32s(u...)
}
func f32s(vals ...float32) []byte {
	u := make([]uint32, len(vals))
	for i, v := range vals {
		u[i] = math.Float32bits(v)
	}
	return u32s(u...)
}
func getU32(b []byte, i int) uint32  { return binary.LittleEndian.Uint32(b[4*i:]) }
func getI32(b []byte, i int) int32   { return int32(getU32(b, i)) }
func getF32(b []byte, i int) float32 { return math.Float32frombits(getU32(b, i)) }

func sb(n uint32) xrt.Slot { return xrt.Slot{Kind: "buffer", B: n} }
func ub(n uint32) xrt.Slot { return xrt.Slot{Kind: "uniform", B: n} }
