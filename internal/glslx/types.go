package glslx

import (
	"fmt"
	"strconv"
)

// Kind of a GLSL type.
type Kind int

const (
	KError Kind = iota // result of an erroneous / unsupported expression; silences follow-up diagnostics
	KVoid
	KBool
	KInt
	KUint
	KFloat
	KVec    // Elem = scalar type, N = component count
	KMat    // N = columns, Rows = rows (float only)
	KArray  // Elem, N (-1 = runtime sized / unsized)
	KStruct // Name, Fields
	KOpaque // sampler/image/double/... : outside the subset
)

// Field of a struct or interface block.
type Field struct {
	Name string
	T    *Type
	Line int
	// block members only
	rowMajor    int // 0 inherit, 1 row_major, 2 column_major
	hasOffset   bool
	explOffset  int
	explAlign   int // 0 none
	memReadonly bool
}

// Type is a GLSL type. Basic types are interned (pointer equality); arrays are
// compared structurally, structs by identity.
type Type struct {
	Kind   Kind
	Elem   *Type
	N      int
	Rows   int
	Name   string
	Fields []Field
	nsc    int // cached scalar count (0 = not computed)
}

var (
	tError = &Type{Kind: KError, Name: "<error>"}
	tVoid  = &Type{Kind: KVoid, Name: "void"}
	tBool  = &Type{Kind: KBool, Name: "bool"}
	tInt   = &Type{Kind: KInt, Name: "int"}
	tUint  = &Type{Kind: KUint, Name: "uint"}
	tFloat = &Type{Kind: KFloat, Name: "float"}

	vecTypes    [4][5]*Type // [scalar idx][n]
	matTypes    [5][5]*Type // [cols][rows]
	basicByName map[string]*Type
)

func scalarIdx(k Kind) int {
	switch k {
	case KBool:
		return 0
	case KInt:
		return 1
	case KUint:
		return 2
	case KFloat:
		return 3
	}
	return -1
}

var _ = initTypes()

func initTypes() bool {
	basicByName = map[string]*Type{}
	scal := []*Type{tBool, tInt, tUint, tFloat}
	pref := []string{"bvec", "ivec", "uvec", "vec"}
	for i, s := range scal {
		basicByName[s.Name] = s
		vecTypes[i][1] = s
		for n := 2; n <= 4; n++ {
			t := &Type{Kind: KVec, Elem: s, N: n, Name: pref[i] + strconv.Itoa(n)}
			vecTypes[i][n] = t
			basicByName[t.Name] = t
		}
	}
	basicByName["void"] = tVoid
	for c := 2; c <= 4; c++ {
		for r := 2; r <= 4; r++ {
			t := &Type{Kind: KMat, Elem: tFloat, N: c, Rows: r, Name: fmt.Sprintf("mat%dx%d", c, r)}
			matTypes[c][r] = t
			basicByName[t.Name] = t
		}
		basicByName["mat"+strconv.Itoa(c)] = matTypes[c][c]
	}
	for _, bt := range basicByName {
		bt.finalize()
	}
	return true
}

// vecOf returns the vector (or scalar when n==1) of scalar type s.
func vecOf(s *Type, n int) *Type { return vecTypes[scalarIdx(s.Kind)][n] }

func arrayOf(elem *Type, n int) *Type { return (&Type{Kind: KArray, Elem: elem, N: n}).finalize() }

func (t *Type) String() string {
	switch t.Kind {
	case KArray:
		// GLSL spelling: float[5][10] is 5 arrays of 10
		base := t
		dims := ""
		for base.Kind == KArray {
			if base.N < 0 {
				dims += "[]"
			} else {
				dims += "[" + strconv.Itoa(base.N) + "]"
			}
			base = base.Elem
		}
		return base.String() + dims
	}
	return t.Name
}

func (t *Type) isScalar() bool  { return t.Kind >= KBool && t.Kind <= KFloat }
func (t *Type) isVector() bool  { return t.Kind == KVec }
func (t *Type) isMatrix() bool  { return t.Kind == KMat }
func (t *Type) isNumeric() bool { return t.Kind == KInt || t.Kind == KUint || t.Kind == KFloat }
func (t *Type) isErr() bool     { return t.Kind == KError }

// scalarType returns the component type of scalars, vectors and matrices, nil otherwise.
func (t *Type) scalarType() *Type {
	switch t.Kind {
	case KBool, KInt, KUint, KFloat:
		return t
	case KVec, KMat:
		return t.Elem
	}
	return nil
}

// colType returns the column vector type of a matrix.
func (t *Type) colType() *Type { return vecOf(tFloat, t.Rows) }

// comps returns the number of scalar components of a scalar/vector/matrix.
func (t *Type) comps() int {
	switch t.Kind {
	case KBool, KInt, KUint, KFloat:
		return 1
	case KVec:
		return t.N
	case KMat:
		return t.N * t.Rows
	}
	return 0
}

// scalarCount returns the number of scalar cells of a value of this type
// (runtime arrays count 0). The count is precomputed when the type is built
// (finalize) so that concurrent Runs never write to a Type.
func (t *Type) scalarCount() int {
	if t.nsc != 0 {
		return t.nsc
	}
	return t.computeScalarCount()
}

func (t *Type) computeScalarCount() int {
	n := 0
	switch t.Kind {
	case KBool, KInt, KUint, KFloat, KVec, KMat:
		n = t.comps()
	case KArray:
		if t.N > 0 {
			n = t.N * t.Elem.scalarCount()
		}
	case KStruct:
		for _, f := range t.Fields {
			n += f.T.scalarCount()
		}
	}
	return n
}

// finalize caches derived data; call once when the type is complete.
func (t *Type) finalize() *Type {
	t.nsc = t.computeScalarCount()
	return t
}

// sameType implements GLSL type equality.
func sameType(a, b *Type) bool {
	if a == b {
		return true
	}
	if a.Kind != b.Kind {
		return false
	}
	if a.Kind == KArray {
		return a.N == b.N && sameType(a.Elem, b.Elem)
	}
	return false
}

// containsOpaque reports whether the type contains an out-of-subset component.
func (t *Type) containsOpaque() bool {
	switch t.Kind {
	case KOpaque:
		return true
	case KArray:
		return t.Elem.containsOpaque()
	case KStruct:
		for _, f := range t.Fields {
			if f.T.containsOpaque() {
				return true
			}
		}
	}
	return false
}

func (t *Type) containsRuntimeArray() bool {
	switch t.Kind {
	case KArray:
		return t.N < 0 || t.Elem.containsRuntimeArray()
	case KStruct:
		for _, f := range t.Fields {
			if f.T.containsRuntimeArray() {
				return true
			}
		}
	}
	return false
}

// leafScalarTypes appends, in cell order, the scalar type of every cell.
func (t *Type) leafScalarKinds(out []Kind) []Kind {
	switch t.Kind {
	case KBool, KInt, KUint, KFloat:
		return append(out, t.Kind)
	case KVec, KMat:
		for i := 0; i < t.comps(); i++ {
			out = append(out, t.Elem.Kind)
		}
	case KArray:
		for i := 0; i < t.N; i++ {
			out = t.Elem.leafScalarKinds(out)
		}
	case KStruct:
		for _, f := range t.Fields {
			out = f.T.leafScalarKinds(out)
		}
	}
	return out
}
