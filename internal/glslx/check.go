package glslx

import (
	"fmt"
	"strings"

	"verif/internal/xrt"
)

// ---------- symbol table ----------

type seKind int

const (
	seVar seKind = iota
	seType
	seFunc
	seBlock
)

type symEntry struct {
	kind seKind
	v    *varSym
	t    *Type
	fns  []*funcDecl
	line int
}

type scope struct {
	parent *scope
	m      map[string]*symEntry
}

func (s *scope) lookup(name string) *symEntry {
	for sc := s; sc != nil; sc = sc.parent {
		if e, ok := sc.m[name]; ok {
			return e
		}
	}
	return nil
}

// ---------- checker ----------

type checker struct {
	prog    *Program
	global  *scope
	cur     *scope
	curFn   *funcDecl
	loops   int
	switchs int
	// reason the construct currently being checked is outside the subset
	pendingUnsupported string
}

func (c *checker) desktop() bool { return !c.prog.es }

func (c *checker) trap(kind xrt.TrapKind, line int, format string, a ...interface{}) {
	where := "global scope"
	if c.curFn != nil {
		where = "function " + c.curFn.name
	}
	d := fmt.Sprintf("line %d (%s): %s", line, where, fmt.Sprintf(format, a...))
	for _, t := range c.prog.traps {
		if t.Kind == kind && t.Detail == d {
			return
		}
	}
	c.prog.traps = append(c.prog.traps, &xrt.Trap{Kind: kind, Detail: d})
}

// unsupported marks the enclosing function (or pending global) as outside the subset.
func (c *checker) unsupported(what string) *Type {
	if c.curFn != nil {
		if c.curFn.unsupported == "" {
			c.curFn.unsupported = what
		}
	} else if c.pendingUnsupported == "" {
		c.pendingUnsupported = what
	}
	return tError
}

func (c *checker) push() { c.cur = &scope{parent: c.cur, m: map[string]*symEntry{}} }
func (c *checker) pop()  { c.cur = c.cur.parent }

func (c *checker) addDecl(name, kind, scopeName string) {
	c.prog.decls = append(c.prog.decls, Decl{Name: name, Kind: kind, Scope: scopeName})
}

func (c *checker) checkReserved(name, what string, line int) {
	if r := reservedClass(name, what == "function name", c.prog.es); r != "" {
		c.trap(xrt.TrapReserved, line, "%s %q is reserved: %s", what, name, r)
	}
}

// declare adds a non-function symbol to the current scope.
func (c *checker) declare(name string, e *symEntry) {
	if old, ok := c.cur.m[name]; ok {
		c.trap(xrt.TrapRedecl, e.line, "%q redeclared (previous declaration at line %d)", name, old.line)
		// keep the newer so that later uses type-check against the latest declaration
	}
	c.cur.m[name] = e
}

func (c *checker) fnName() string {
	if c.curFn != nil {
		return c.curFn.name
	}
	return ""
}

// ---------- implicit conversions ----------

func (c *checker) implicitScalar(from, to Kind) bool {
	if c.prog.es {
		return false
	}
	switch {
	case from == KInt && to == KFloat, from == KUint && to == KFloat:
		return c.prog.version >= 120
	case from == KInt && to == KUint:
		return c.prog.version >= 400
	}
	return false
}

// convertible: can a value of type from be used where to is required.
// Returns (ok, needsConversion).
func (c *checker) convertible(from, to *Type) (bool, bool) {
	if from.isErr() || to.isErr() {
		return true, false
	}
	if sameType(from, to) {
		return true, false
	}
	fs, ts := from.scalarType(), to.scalarType()
	if fs == nil || ts == nil {
		return false, false
	}
	if from.Kind == KMat || to.Kind == KMat {
		return false, false
	}
	if from.comps() != to.comps() || (from.Kind == KVec) != (to.Kind == KVec) {
		return false, false
	}
	if c.implicitScalar(fs.Kind, ts.Kind) {
		return true, true
	}
	return false, false
}

// coerce checks that e (already typed) can be used as type to; returns the
// conversion target (nil if none needed) and ok.
func (c *checker) coerce(t *Type, to *Type) (*Type, bool) {
	ok, conv := c.convertible(t, to)
	if !ok {
		return nil, false
	}
	if conv {
		return to, true
	}
	return nil, true
}

func withScalar(shape *Type, s *Type) *Type {
	switch shape.Kind {
	case KVec:
		return vecOf(s, shape.N)
	case KMat:
		return shape
	}
	return s
}

// ---------- types ----------

func (c *checker) resolveTypeName(name string, line int) *Type {
	if t := basicByName[name]; t != nil {
		return t
	}
	if kwOpaqueTypes[name] || extTypes[name] {
		return &Type{Kind: KOpaque, Name: name}
	}
	e := c.cur.lookup(name)
	if e == nil {
		c.trap(xrt.TrapUnresolved, line, "unknown type %q", name)
		return tError
	}
	if e.kind != seType {
		c.trap(xrt.TrapType, line, "%q is not a type", name)
		return tError
	}
	return e.t
}

// applyDims wraps t into arrays; dims outermost first.
func (c *checker) applyDims(t *Type, dims []arrayDim, line int) *Type {
	for i := len(dims) - 1; i >= 0; i-- {
		n := -1
		if dims[i].size != nil {
			st := c.expr(dims[i].size)
			if st.isErr() {
				return tError
			}
			if st.Kind != KInt && st.Kind != KUint {
				c.trap(xrt.TrapType, line, "array size must be an integral constant expression, got %s", st)
				return tError
			}
			v, ok := c.constEval(dims[i].size)
			if !ok {
				c.trap(xrt.TrapType, line, "array size is not a constant expression")
				return tError
			}
			n = int(int32(v.S[0].Bits))
			if st.Kind == KUint {
				n = int(v.S[0].Bits)
			}
			if n <= 0 || n > 1<<24 {
				if n <= 0 {
					c.trap(xrt.TrapType, line, "array size must be greater than zero (got %d)", n)
					return tError
				}
				c.unsupported("array too large")
				return tError
			}
		}
		if t.Kind == KArray && t.N < 0 {
			c.trap(xrt.TrapType, line, "array of unsized arrays")
			return tError
		}
		if t.isErr() {
			return tError
		}
		if t.Kind == KVoid {
			c.trap(xrt.TrapType, line, "array of void")
			return tError
		}
		t = arrayOf(t, n)
	}
	return t
}

// typeOf resolves a type specifier plus declarator dims. In GLSL
// "float[5] a[3]" declares a as 3 arrays of 5 floats.
func (c *checker) typeOf(ts *typeSpec, declDims []arrayDim) *Type {
	base := c.resolveTypeName(ts.name, ts.line)
	if base.isErr() {
		return tError
	}
	t := c.applyDims(base, ts.dims, ts.line)
	if t.isErr() {
		return t
	}
	return c.applyDims(t, declDims, ts.line)
}

// ---------- top level ----------

func (c *checker) unit(items []interface{}) {
	for _, it := range items {
		switch d := it.(type) {
		case *precisionDecl:
		case *layoutDefaultDecl:
			c.layoutDefault(d)
		case *structDecl:
			c.structDecl(d)
		case *globalDecl:
			c.globalDecl(d)
		case *blockDecl:
			c.blockDecl(d)
		case *funcDecl:
			c.funcDecl(d)
		}
	}
}

func (c *checker) layoutDefault(d *layoutDefaultDecl) {
	q := d.quals
	if q.storage == "in" {
		seen := false
		for i, n := range []string{"local_size_x", "local_size_y", "local_size_z"} {
			if a, ok := q.layoutGet(n); ok {
				seen = true
				if a.val == nil {
					c.trap(xrt.TrapType, a.line, "%s needs a value", n)
					continue
				}
				t := c.expr(a.val)
				if t.isErr() {
					continue
				}
				v, ok := c.constEval(a.val)
				if !ok || (t.Kind != KInt && t.Kind != KUint) {
					c.trap(xrt.TrapType, a.line, "%s must be an integral constant expression", n)
					continue
				}
				if int32(v.S[0].Bits) <= 0 {
					c.trap(xrt.TrapType, a.line, "%s must be positive", n)
					continue
				}
				c.prog.localSize[i] = v.S[0].Bits
			}
		}
		if seen {
			c.prog.hasLocalSize = true
			return
		}
		for _, a := range q.layout {
			if strings.HasPrefix(a.name, "local_size_") && strings.HasSuffix(a.name, "_id") {
				c.prog.fatalUnsupported = "specialization constant local size"
			}
		}
		// other input layout defaults (geometry/tessellation ...) => not a compute text
		return
	}
	// layout(std140) uniform; / layout(row_major) buffer; defaults
	if q.storage == "uniform" || q.storage == "buffer" {
		for _, a := range q.layout {
			switch a.name {
			case "row_major":
				c.prog.defRowMajor[q.storage] = true
			case "column_major":
				c.prog.defRowMajor[q.storage] = false
			case "std140":
				c.prog.defStd[q.storage] = 140
			case "std430":
				c.prog.defStd[q.storage] = 430
			case "shared", "packed":
				c.prog.defStd[q.storage] = 0
			}
		}
	}
}

func (c *checker) structDecl(d *structDecl) *Type {
	c.checkReserved(d.name, "struct name", d.line)
	t := &Type{Kind: KStruct, Name: d.name}
	seen := map[string]int{}
	for _, m := range d.members {
		if m.quals != nil && (m.quals.storage != "" || len(m.quals.layout) > 0 || m.quals.konst) {
			c.trap(xrt.TrapType, m.ts.line, "qualifier not allowed on struct member")
		}
		for _, dc := range m.decls {
			ft := c.typeOf(m.ts, dc.dims)
			c.checkReserved(dc.name, "struct member", dc.line)
			c.addDecl(dc.name, "member", d.name)
			if prev, dup := seen[dc.name]; dup {
				c.trap(xrt.TrapRedecl, dc.line, "struct %s: member %q redeclared (previous at line %d)", d.name, dc.name, prev)
			}
			seen[dc.name] = dc.line
			if ft.Kind == KArray && ft.containsRuntimeArray() {
				c.trap(xrt.TrapType, dc.line, "struct %s: member %q is an unsized array", d.name, dc.name)
				ft = tError
			}
			t.Fields = append(t.Fields, Field{Name: dc.name, T: ft, Line: dc.line})
		}
	}
	t.finalize()
	d.t = t
	c.addDecl(d.name, "type", "")
	c.declare(d.name, &symEntry{kind: seType, t: t, line: d.line})
	c.prog.structs = append(c.prog.structs, t)
	return t
}

func (c *checker) globalDecl(g *globalDecl) {
	q := g.quals
	storage := ""
	konst := false
	if q != nil {
		storage = q.storage
		konst = q.konst
	}
	if g.ts.structDef != nil {
		c.structDecl(g.ts.structDef)
	}
	for _, dc := range g.decls {
		c.pendingUnsupported = ""
		t := c.typeOf(g.ts, dc.dims)
		c.checkReserved(dc.name, "global variable", dc.line)
		c.addDecl(dc.name, "global", "")
		sym := &varSym{name: dc.name, t: t, line: dc.line, konst: konst, readonly: konst}
		dc.sym = sym
		switch {
		case t.containsOpaque():
			sym.kind = symUnsupportedGlobal
			sym.why = "type " + g.ts.name
		case storage == "uniform":
			sym.kind = symUnsupportedGlobal
			sym.why = "default-block uniform " + dc.name
		case storage == "in" || storage == "out" || storage == "attribute" || storage == "varying":
			sym.kind = symUnsupportedGlobal
			sym.why = "stage interface variable " + dc.name
		case storage == "buffer":
			c.trap(xrt.TrapType, dc.line, "buffer qualifier outside an interface block")
			sym.kind = symUnsupportedGlobal
			sym.why = "bad buffer variable"
		case storage == "shared":
			sym.kind = symShared
			if dc.init != nil {
				c.trap(xrt.TrapType, dc.line, "shared variable %q may not have an initializer", dc.name)
			}
			if konst {
				c.trap(xrt.TrapType, dc.line, "shared variable %q may not be const", dc.name)
			}
		case konst:
			sym.kind = symGlobalConst
		default:
			sym.kind = symGlobalPrivate
		}
		if t.Kind == KArray && t.containsRuntimeArray() && sym.kind != symUnsupportedGlobal {
			// unsized global arrays (sized by later redeclaration/indexing) are outside the subset
			if dc.init == nil {
				sym.kind = symUnsupportedGlobal
				sym.why = "implicitly sized array " + dc.name
			}
		}
		if t.Kind == KVoid {
			c.trap(xrt.TrapType, dc.line, "variable %q declared void", dc.name)
			sym.t = tError
		}
		if dc.init != nil && sym.kind != symUnsupportedGlobal {
			it := c.expr(dc.init)
			c.initCheck(sym, dc, it)
			sym.constInit = konst && !it.isErr() && isConstExpr(dc.init)
			if !it.isErr() && !isConstExpr(dc.init) {
				// GLSL 4.x §4.3 / ES 3.x: global initializers must be constant expressions
				c.trap(xrt.TrapType, dc.line, "initializer of global %q is not a constant expression", dc.name)
			}
			if c.pendingUnsupported != "" {
				sym.kind = symUnsupportedGlobal
				sym.why = c.pendingUnsupported
			}
		} else if konst && sym.kind == symGlobalConst {
			c.trap(xrt.TrapType, dc.line, "const %q has no initializer", dc.name)
		}
		switch sym.kind {
		case symGlobalConst:
			if dc.init != nil && !sym.t.isErr() {
				if v, ok := c.constEvalConv(dc.init, sym.initConv); ok {
					sym.constVal = &v
				}
			}
			if sym.constVal == nil {
				// treat as an initialised private global
				sym.kind = symGlobalPrivate
				sym.slot = len(c.prog.privates)
				c.prog.privates = append(c.prog.privates, sym)
			}
		case symGlobalPrivate:
			sym.slot = len(c.prog.privates)
			c.prog.privates = append(c.prog.privates, sym)
		case symShared:
			sym.slot = len(c.prog.shareds)
			c.prog.shareds = append(c.prog.shareds, sym)
		}
		c.declare(dc.name, &symEntry{kind: seVar, v: sym, line: dc.line})
	}
}

// initCheck validates "T name = init" and records the conversion.
func (c *checker) initCheck(sym *varSym, dc *declarator, it *Type) {
	sym.init = dc.init
	if it.isErr() || sym.t.isErr() {
		return
	}
	t := sym.t
	// "T a[] = T[](...)" takes its size from the initializer
	if t.Kind == KArray && t.N < 0 && it.Kind == KArray && it.N > 0 && sameType(t.Elem, it.Elem) {
		sym.t = it
		return
	}
	conv, ok := c.coerce(it, t)
	if !ok {
		c.trap(xrt.TrapType, dc.line, "cannot initialise %q of type %s with a value of type %s", dc.name, t, it)
		return
	}
	sym.initConv = conv
	dc.conv = conv
}

func (c *checker) blockDecl(b *blockDecl) {
	c.checkReserved(b.name, "block name", b.line)
	c.addDecl(b.name, "type", "")
	q := b.quals
	if b.storage == "in" || b.storage == "out" {
		// stage interface block: outside the compute subset; declare names as unsupported
		c.declare(b.name, &symEntry{kind: seBlock, line: b.line})
		why := "stage interface block " + b.name
		if b.instance != "" {
			c.declare(b.instance, &symEntry{kind: seVar, line: b.instLine, v: &varSym{name: b.instance, kind: symUnsupportedGlobal, t: tError, why: why, line: b.instLine}})
		} else {
			for _, m := range b.members {
				for _, dc := range m.decls {
					c.declare(dc.name, &symEntry{kind: seVar, line: dc.line, v: &varSym{name: dc.name, kind: symUnsupportedGlobal, t: tError, why: why, line: dc.line}})
				}
			}
		}
		return
	}
	bi := &blockInfo{name: b.name, storage: b.storage, instance: b.instance}
	bi.std = c.prog.defStd[b.storage]
	bi.rowMajor = c.prog.defRowMajor[b.storage]
	bi.implicit = true
	bi.readonly = q.readonly || b.storage == "uniform"
	badLayout := ""
	for _, a := range q.layout {
		switch a.name {
		case "std140":
			bi.std = 140
		case "std430":
			bi.std = 430
			if b.storage == "uniform" {
				c.trap(xrt.TrapType, a.line, "std430 is not allowed on uniform blocks")
			}
		case "shared", "packed":
			bi.std = 0
		case "row_major":
			bi.rowMajor = true
		case "column_major":
			bi.rowMajor = false
		case "binding":
			if a.val == nil {
				c.trap(xrt.TrapType, a.line, "binding needs a value")
				break
			}
			t := c.expr(a.val)
			v, ok := c.constEval(a.val)
			if !ok || (t.Kind != KInt && t.Kind != KUint) {
				c.trap(xrt.TrapType, a.line, "binding must be an integral constant expression")
				break
			}
			bi.binding = v.S[0].Bits
			bi.implicit = false
		case "set", "push_constant":
			badLayout = "vulkan layout qualifier " + a.name
		default:
			badLayout = "layout qualifier " + a.name
		}
	}
	if bi.implicit {
		// no layout(binding = N): the slot number is the order of appearance among
		// all uniform/buffer blocks of the text (0-based)
		bi.binding = uint32(c.prog.nBlocksSeen)
	}
	c.prog.nBlocksSeen++
	// members
	st := &Type{Kind: KStruct, Name: b.name}
	seen := map[string]int{}
	type mrec struct {
		name string
		line int
	}
	var recs []mrec
	for mi, m := range b.members {
		for di, dc := range m.decls {
			ft := c.typeOf(m.ts, dc.dims)
			c.checkReserved(dc.name, "block member", dc.line)
			f := Field{Name: dc.name, T: ft, Line: dc.line}
			if m.quals != nil {
				mq := m.quals
				if mq.storage != "" && mq.storage != b.storage {
					c.trap(xrt.TrapType, dc.line, "member storage qualifier %s does not match block (%s)", mq.storage, b.storage)
				}
				f.memReadonly = mq.readonly
				for _, a := range mq.layout {
					switch a.name {
					case "row_major":
						f.rowMajor = 1
					case "column_major":
						f.rowMajor = 2
					case "offset", "align":
						if a.val == nil {
							c.trap(xrt.TrapType, a.line, "%s needs a value", a.name)
							break
						}
						t := c.expr(a.val)
						v, ok := c.constEval(a.val)
						if !ok || (t.Kind != KInt && t.Kind != KUint) || int32(v.S[0].Bits) < 0 {
							c.trap(xrt.TrapType, a.line, "%s must be a non-negative integral constant expression", a.name)
							break
						}
						if a.name == "offset" {
							f.hasOffset, f.explOffset = true, int(v.S[0].Bits)
						} else {
							f.explAlign = int(v.S[0].Bits)
						}
					default:
						badLayout = "member layout qualifier " + a.name
					}
				}
			}
			if prev, dup := seen[dc.name]; dup {
				c.trap(xrt.TrapRedecl, dc.line, "block %s: member %q redeclared (previous at line %d)", b.name, dc.name, prev)
			}
			seen[dc.name] = dc.line
			last := mi == len(b.members)-1 && di == len(m.decls)-1
			if ft.Kind == KArray && ft.N < 0 {
				if !(last && b.storage == "buffer") {
					c.trap(xrt.TrapType, dc.line, "unsized array %q must be the last member of a buffer block", dc.name)
					ft = tError
					f.T = ft
				} else if ft.Elem.containsRuntimeArray() {
					c.trap(xrt.TrapType, dc.line, "only the outermost dimension may be unsized")
					f.T = tError
				}
			} else if ft.containsRuntimeArray() {
				c.trap(xrt.TrapType, dc.line, "unsized inner array in %q", dc.name)
				f.T = tError
			}
			st.Fields = append(st.Fields, f)
			recs = append(recs, mrec{dc.name, dc.line})
		}
	}
	st.finalize()
	bi.T = st
	unsupportedWhy := ""
	switch {
	case badLayout != "":
		unsupportedWhy = badLayout
	case bi.std == 0:
		unsupportedWhy = "block " + b.name + " without std140/std430 layout (implementation-defined layout)"
	case len(b.instDims) > 0:
		unsupportedWhy = "block instance array"
	case st.containsOpaque():
		unsupportedWhy = "opaque type in block " + b.name
	}
	for _, f := range st.Fields {
		if f.T.isErr() {
			if unsupportedWhy == "" {
				unsupportedWhy = "ill-formed block " + b.name
			}
		}
	}
	if unsupportedWhy == "" {
		li := c.prog.lay.of(st, bi.std, bi.rowMajor)
		bi.offsets = li.offsets
		bi.slot = len(c.prog.blocks)
		c.prog.blocks = append(c.prog.blocks, bi)
	}
	c.declare(b.name, &symEntry{kind: seBlock, line: b.line})
	mk := func(name string, t *Type, line int, idx int, ro bool) *varSym {
		v := &varSym{name: name, t: t, line: line, kind: symBufferVar, block: bi, memberIdx: idx, readonly: ro}
		if unsupportedWhy != "" {
			v.kind = symUnsupportedGlobal
			v.why = unsupportedWhy
		}
		return v
	}
	if b.instance != "" {
		c.checkReserved(b.instance, "block instance", b.instLine)
		c.addDecl(b.instance, "global", "")
		for _, r := range recs {
			c.addDecl(r.name, "member", b.name)
		}
		c.declare(b.instance, &symEntry{kind: seVar, line: b.instLine, v: mk(b.instance, st, b.instLine, -1, bi.readonly)})
	} else {
		for i, r := range recs {
			c.addDecl(r.name, "global", "")
			c.declare(r.name, &symEntry{kind: seVar, line: r.line, v: mk(r.name, st.Fields[i].T, r.line, i, bi.readonly || st.Fields[i].memReadonly)})
		}
	}
}

func sameParams(a, b *funcDecl) bool {
	if len(a.params) != len(b.params) {
		return false
	}
	for i := range a.params {
		if a.params[i].t.isErr() || b.params[i].t.isErr() {
			continue
		}
		if !sameType(a.params[i].t, b.params[i].t) {
			return false
		}
	}
	return true
}

func (c *checker) funcDecl(f *funcDecl) {
	f.ret = c.typeOf(f.retTS, nil)
	if f.ret.Kind == KArray && f.ret.containsRuntimeArray() {
		c.trap(xrt.TrapType, f.line, "function %s returns an unsized array", f.name)
		f.ret = tError
	}
	isMain := f.name == "main"
	if !isMain {
		c.checkReserved(f.name, "function name", f.line)
	}
	for _, p := range f.params {
		p.t = c.typeOf(p.ts, p.dims)
		if p.t.Kind == KVoid {
			c.trap(xrt.TrapType, p.line, "parameter of type void")
			p.t = tError
		}
		if p.t.Kind == KArray && p.t.containsRuntimeArray() {
			c.trap(xrt.TrapType, p.line, "unsized array parameter")
			p.t = tError
		}
	}
	if f.ret.containsOpaque() {
		f.unsupported = "return type " + f.retTS.name
	}
	for _, p := range f.params {
		if p.t.containsOpaque() && f.unsupported == "" {
			f.unsupported = "parameter of type " + p.ts.name
		}
	}
	// find previous declarations
	var proto *funcDecl
	if old, ok := c.global.m[f.name]; ok {
		if old.kind != seFunc {
			c.trap(xrt.TrapRedecl, f.line, "function %q redeclares a non-function (line %d)", f.name, old.line)
			c.global.m[f.name] = &symEntry{kind: seFunc, line: f.line}
		}
	} else {
		c.global.m[f.name] = &symEntry{kind: seFunc, line: f.line}
	}
	ent := c.global.m[f.name]
	for _, o := range ent.fns {
		if sameParams(o, f) {
			proto = o
			break
		}
	}
	if proto != nil {
		if !sameType(proto.ret, f.ret) && !proto.ret.isErr() && !f.ret.isErr() {
			c.trap(xrt.TrapType, f.line, "function %s redeclared with a different return type", f.name)
		}
		for i := range f.params {
			if proto.params[i].dir != f.params[i].dir {
				c.trap(xrt.TrapType, f.line, "function %s redeclared with different parameter qualifiers", f.name)
				break
			}
		}
		if proto.body != nil && f.body != nil {
			c.trap(xrt.TrapRedecl, f.line, "function %q with the same parameter types already defined at line %d", f.name, proto.line)
		}
		if f.body != nil && proto.body == nil {
			// the definition replaces the prototype in the overload set
			for i, o := range ent.fns {
				if o == proto {
					ent.fns[i] = f
				}
			}
			// calls already resolved to the prototype are redirected at run time
			proto.body = nil
			c.prog.protoImpl[proto] = f
		}
	} else {
		ent.fns = append(ent.fns, f)
	}
	if f.body == nil {
		return
	}
	if isMain {
		c.addDecl(f.name, "entry", "")
		if len(f.params) != 0 || f.ret.Kind != KVoid {
			c.trap(xrt.TrapType, f.line, "main must be declared as void main()")
		}
		c.prog.main = f
	} else {
		c.addDecl(f.name, "function", "")
	}
	c.prog.funcs = append(c.prog.funcs, f)
	// body
	c.curFn = f
	c.push()
	for _, p := range f.params {
		if p.name == "" {
			p.sym = &varSym{kind: symParam, t: p.t, slot: f.nslots}
			f.nslots++
			continue
		}
		c.checkReserved(p.name, "parameter", p.line)
		c.addDecl(p.name, "param", f.name)
		p.sym = &varSym{name: p.name, kind: symParam, t: p.t, line: p.line, slot: f.nslots, konst: p.konst, readonly: p.konst}
		f.nslots++
		c.declare(p.name, &symEntry{kind: seVar, v: p.sym, line: p.line})
	}
	for _, s := range f.body.stmts {
		c.stmt(s)
	}
	c.pop()
	c.curFn = nil
}

// ---------- statements ----------

func (c *checker) condition(e expr, what string) {
	t := c.expr(e)
	if !t.isErr() && t.Kind != KBool {
		c.trap(xrt.TrapType, e.pos(), "%s condition must be a scalar bool, got %s", what, t)
	}
}

func (c *checker) scoped(s stmt) {
	// the body of if/loops is its own scope even without braces
	if b, ok := s.(*blockStmt); ok {
		c.stmt(b)
		return
	}
	c.push()
	c.stmt(s)
	c.pop()
}

// loopBody: GLSL §6.3 "the sub-statement [of for and while] does not introduce
// a new scope", so a compound body shares the scope of the loop header.
func (c *checker) loopBody(s stmt) {
	if b, ok := s.(*blockStmt); ok {
		for _, x := range b.stmts {
			c.stmt(x)
		}
		return
	}
	c.stmt(s)
}

func (c *checker) stmt(s stmt) {
	switch s := s.(type) {
	case *emptyStmt:
	case *declStmt:
		c.localDecl(s)
	case *exprStmt:
		c.expr(s.x)
	case *blockStmt:
		c.push()
		for _, x := range s.stmts {
			c.stmt(x)
		}
		c.pop()
	case *ifStmt:
		c.condition(s.cond, "if")
		c.scoped(s.then)
		if s.els != nil {
			c.scoped(s.els)
		}
	case *whileStmt:
		c.push()
		c.condition(s.cond, "while")
		c.loops++
		c.loopBody(s.body)
		c.loops--
		c.pop()
	case *doStmt:
		c.loops++
		c.scoped(s.body)
		c.loops--
		c.condition(s.cond, "do-while")
	case *forStmt:
		c.push()
		if s.init != nil {
			c.stmt(s.init)
		}
		if s.cond != nil {
			c.condition(s.cond, "for")
		}
		if s.post != nil {
			c.expr(s.post)
		}
		c.loops++
		c.loopBody(s.body)
		c.loops--
		c.pop()
	case *switchStmt:
		st := c.expr(s.sel)
		if !st.isErr() && st.Kind != KInt && st.Kind != KUint {
			c.trap(xrt.TrapType, s.line, "switch selector must be a scalar integer, got %s", st)
			st = tError
		}
		c.switchs++
		c.push()
		seenLabel := false
		seenDefault := false
		vals := map[uint32]int{}
		for i, x := range s.body {
			if cl, ok := x.(*caseLabel); ok {
				seenLabel = true
				if cl.isDefault {
					if seenDefault {
						c.trap(xrt.TrapType, cl.line, "duplicate default label")
					}
					seenDefault = true
				} else {
					ct := c.expr(cl.val)
					if ct.isErr() || st.isErr() {
						continue
					}
					if ct.Kind != KInt && ct.Kind != KUint {
						c.trap(xrt.TrapType, cl.line, "case label must be a scalar integer, got %s", ct)
						continue
					}
					if ct != st {
						// GLSL 4.x: implicit int->uint conversion between selector and labels is allowed
						ok1, _ := c.convertible(ct, st)
						ok2, _ := c.convertible(st, ct)
						if !ok1 && !ok2 {
							c.trap(xrt.TrapType, cl.line, "case label type %s does not match switch selector type %s", ct, st)
						}
					}
					v, ok := c.constEval(cl.val)
					if !ok {
						c.trap(xrt.TrapType, cl.line, "case label is not a constant expression")
						continue
					}
					cl.cval = v.S[0].Bits
					if prev, dup := vals[cl.cval]; dup {
						c.trap(xrt.TrapType, cl.line, "duplicate case label value (previous at line %d)", prev)
					}
					vals[cl.cval] = cl.line
				}
				if i == len(s.body)-1 {
					// "a case or default label with no statement after it" is an error
					c.trap(xrt.TrapType, cl.line, "case label at the end of the switch body without a statement")
				}
				continue
			}
			if !seenLabel {
				c.trap(xrt.TrapType, x.stmtPos(), "statement in switch body before the first case label")
				seenLabel = true
			}
			c.stmt(x)
		}
		c.pop()
		c.switchs--
	case *caseLabel:
		c.trap(xrt.TrapType, s.line, "case label outside a switch body")
	case *breakStmt:
		if c.loops == 0 && c.switchs == 0 {
			c.trap(xrt.TrapType, s.line, "break outside loop or switch")
		}
	case *continueStmt:
		if c.loops == 0 {
			c.trap(xrt.TrapType, s.line, "continue outside loop")
		}
	case *discardStmt:
		c.unsupported("discard in compute shader")
	case *returnStmt:
		if c.curFn == nil {
			return
		}
		ret := c.curFn.ret
		if s.x == nil {
			if ret.Kind != KVoid && !ret.isErr() {
				c.trap(xrt.TrapType, s.line, "return without value in function returning %s", ret)
			}
			return
		}
		t := c.expr(s.x)
		if t.isErr() || ret.isErr() {
			return
		}
		if ret.Kind == KVoid {
			c.trap(xrt.TrapType, s.line, "return with a value in a void function")
			return
		}
		conv, ok := c.coerce(t, ret)
		if !ok {
			c.trap(xrt.TrapType, s.line, "cannot return %s from function returning %s", t, ret)
			return
		}
		s.conv = conv
	}
}

func (c *checker) localDecl(d *declStmt) {
	q := d.quals
	konst := false
	if q != nil {
		konst = q.konst
		if q.storage != "" {
			c.trap(xrt.TrapType, d.line, "storage qualifier %s on a local variable", q.storage)
		}
	}
	for _, dc := range d.decls {
		t := c.typeOf(d.ts, dc.dims)
		c.checkReserved(dc.name, "local variable", dc.line)
		c.addDecl(dc.name, "local", c.fnName())
		sym := &varSym{name: dc.name, kind: symLocal, t: t, line: dc.line, konst: konst, readonly: konst}
		dc.sym = sym
		if t.containsOpaque() {
			c.unsupported("local of type " + d.ts.name)
			sym.t = tError
		}
		if t.Kind == KVoid {
			c.trap(xrt.TrapType, dc.line, "variable %q declared void", dc.name)
			sym.t = tError
		}
		// the initializer is evaluated before the name comes into scope
		if dc.init != nil {
			it := c.expr(dc.init)
			c.initCheck(sym, dc, it)
			if konst && !sym.t.isErr() && !it.isErr() && isConstExpr(dc.init) {
				sym.constInit = true
				if v, ok := c.constEvalConv(dc.init, sym.initConv); ok {
					sym.constVal = &v
				}
			}
		} else if konst {
			c.trap(xrt.TrapType, dc.line, "const %q has no initializer", dc.name)
		}
		if sym.t.Kind == KArray && sym.t.containsRuntimeArray() && !sym.t.isErr() {
			c.trap(xrt.TrapType, dc.line, "local array %q has no size", dc.name)
			sym.t = tError
		}
		if c.curFn != nil {
			sym.slot = c.curFn.nslots
			c.curFn.nslots++
		}
		c.declare(dc.name, &symEntry{kind: seVar, v: sym, line: dc.line})
	}
}

func (e *exprBase) isConst() bool { return e.konst }
