package glslx

import (
	"errors"
	"os"
	"path/filepath"
	"sort"
	"strings"
	"testing"

	"verif/internal/xrt"
)

const goldenDir = "/repo/snapshot/testdata/golden/glsl"

type goldenChunk struct {
	file, entry, stage, text string
}

// splitGolden splits a snapshot file on the "// === Entry Point: name (stage) ===" separators.
func splitGolden(file, text string) []goldenChunk {
	const marker = "// === Entry Point: "
	if !strings.Contains(text, marker) {
		stage := "unknown"
		if strings.Contains(text, "local_size_x") {
			stage = "compute"
		}
		return []goldenChunk{{file, "main", stage, text}}
	}
	var out []goldenChunk
	parts := strings.Split(text, marker)
	for _, p := range parts[1:] {
		nl := strings.IndexByte(p, '\n')
		head := p[:nl]
		body := p[nl+1:]
		name := head[:strings.Index(head, " (")]
		stage := head[strings.Index(head, " (")+2 : strings.Index(head, ")")]
		out = append(out, goldenChunk{file, name, stage, body})
	}
	return out
}

func loadGoldenChunks(t *testing.T) []goldenChunk {
	files, err := filepath.Glob(filepath.Join(goldenDir, "*.glsl"))
	if err != nil || len(files) == 0 {
		t.Skipf("no golden files: %v", err)
	}
	sort.Strings(files)
	var out []goldenChunk
	for _, f := range files {
		b, err := os.ReadFile(f)
		if err != nil {
			t.Fatal(err)
		}
		out = append(out, splitGolden(filepath.Base(f), string(b))...)
	}
	return out
}

// goldenFindings: golden texts whose static traps were investigated and are
// genuine defects of the emitted GLSL (upstream naga does not target GLSL for
// these inputs: their .toml restricts the targets, so no upstream compiler has
// ever accepted these texts).
var goldenFindings = map[string]string{
	"atomicOps-float32.glsl":                   "atomic<f32> is emitted as uint: 'uint = 1.5' and atomicAdd(uint, float) are ill-typed GLSL",
	"overrides-atomicCompareExchangeWeak.glsl": "the result of atomicCompSwap on a uint is stored in an 'int' temporary (no implicit uint->int conversion in GLSL)",
}

func TestGoldenSyntax(t *testing.T) {
	chunks := loadGoldenChunks(t)
	nCompute, nOK, nUnsup := 0, 0, 0
	var skipped []string
	for _, ch := range chunks {
		if ch.stage != "compute" {
			continue
		}
		nCompute++
		p, err := Parse(ch.text)
		if err != nil {
			var u *xrt.Unsupported
			if errors.As(err, &u) {
				nUnsup++
				skipped = append(skipped, ch.file+":"+ch.entry+": "+u.What)
				continue
			}
			t.Errorf("%s:%s: Parse error (text rejected as invalid GLSL): %v", ch.file, ch.entry, err)
			continue
		}
		nOK++
		if why, known := goldenFindings[ch.file]; known {
			if len(p.StaticTraps()) == 0 {
				t.Errorf("%s: expected static traps (%s)", ch.file, why)
			} else {
				t.Logf("SUSPECT naga: %s:%s: %s; first trap: %v", ch.file, ch.entry, why, p.StaticTraps()[0])
			}
			continue
		}
		for _, tr := range p.StaticTraps() {
			t.Errorf("%s:%s: static trap %v", ch.file, ch.entry, tr)
		}
		if len(p.Entries()) != 1 {
			t.Errorf("%s:%s: entries = %v", ch.file, ch.entry, p.Entries())
		}
	}
	t.Logf("compute chunks: %d, parsed clean: %d, unsupported (skipped): %d", nCompute, nOK, nUnsup)
	for _, s := range skipped {
		t.Logf("skipped %s", s)
	}
}

// Every golden text of every stage must be handled without an internal error
// (non-compute texts are Unsupported: no compute entry point).
func TestGoldenAllStagesNoPanic(t *testing.T) {
	counts := map[string]int{}
	for _, ch := range loadGoldenChunks(t) {
		_, err := Parse(ch.text)
		switch {
		case err == nil:
			counts["ok"]++
		case strings.Contains(err.Error(), "internal error"):
			t.Errorf("%s:%s: %v", ch.file, ch.entry, err)
		default:
			var u *xrt.Unsupported
			if errors.As(err, &u) {
				counts["unsupported"]++
			} else {
				counts["rejected"]++
				if ch.stage == "compute" {
					t.Errorf("%s:%s: compute text rejected: %v", ch.file, ch.entry, err)
				} else {
					t.Logf("%s:%s (%s): rejected: %v", ch.file, ch.entry, ch.stage, err)
				}
			}
		}
	}
	t.Logf("all stages: %v", counts)
}
