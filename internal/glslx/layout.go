package glslx

import "sync"

// Buffer layout per OpenGL 4.6 §7.6.2.2 (std140 / std430).

func roundUp(x, a int) int {
	if a <= 0 {
		return x
	}
	return (x + a - 1) / a * a
}

type layoutKey struct {
	t        *Type
	std      int
	rowMajor bool
}

type layoutInfo struct {
	size, align int
	stride      int   // arrays: element stride; matrices: matrix stride
	offsets     []int // structs: member offsets
}

type layouter struct {
	mu    sync.Mutex // a Program may be Run concurrently
	cache map[layoutKey]*layoutInfo
}

func newLayouter() *layouter { return &layouter{cache: map[layoutKey]*layoutInfo{}} }

// of computes size/alignment of t. Runtime-sized arrays have size 0.
func (l *layouter) of(t *Type, std int, rowMajor bool) *layoutInfo {
	l.mu.Lock()
	defer l.mu.Unlock()
	return l.ofLocked(t, std, rowMajor)
}

func (l *layouter) ofLocked(t *Type, std int, rowMajor bool) *layoutInfo {
	k := layoutKey{t, std, rowMajor}
	if li, ok := l.cache[k]; ok {
		return li
	}
	li := &layoutInfo{}
	switch t.Kind {
	case KBool, KInt, KUint, KFloat:
		// rule 1
		li.size, li.align = 4, 4
	case KVec:
		// rules 2, 3
		switch t.N {
		case 2:
			li.size, li.align = 8, 8
		case 3:
			li.size, li.align = 12, 16
		default:
			li.size, li.align = 16, 16
		}
	case KMat:
		// rules 5, 7: stored as an array of C column vectors (R components), or
		// for row_major as an array of R row vectors (C components).
		nvec, vlen := t.N, t.Rows
		if rowMajor {
			nvec, vlen = t.Rows, t.N
		}
		vi := l.ofLocked(vecOf(tFloat, vlen), std, false)
		a := vi.align
		if std == 140 {
			a = roundUp(a, 16)
		}
		li.align = a
		li.stride = roundUp(vi.size, a)
		li.size = li.stride * nvec
	case KArray:
		// rules 4, 6, 8, 10
		ei := l.ofLocked(t.Elem, std, rowMajor)
		a := ei.align
		if std == 140 {
			a = roundUp(a, 16)
		}
		li.align = a
		li.stride = roundUp(ei.size, a)
		if t.N > 0 {
			li.size = li.stride * t.N
		}
	case KStruct:
		// rule 9
		off, maxA := 0, 0
		li.offsets = make([]int, len(t.Fields))
		for i, f := range t.Fields {
			rm := rowMajor
			if f.rowMajor == 1 {
				rm = true
			} else if f.rowMajor == 2 {
				rm = false
			}
			fi := l.ofLocked(f.T, std, rm)
			a := fi.align
			if f.explAlign > 0 {
				a = roundUp(a, f.explAlign)
				if f.explAlign > a {
					a = f.explAlign
				}
			}
			if f.hasOffset {
				off = f.explOffset
			}
			off = roundUp(off, a)
			li.offsets[i] = off
			off += fi.size
			if a > maxA {
				maxA = a
			}
		}
		if std == 140 {
			maxA = roundUp(maxA, 16)
		}
		li.align = maxA
		li.size = roundUp(off, maxA)
	}
	l.cache[k] = li
	return li
}
