package glslx

import (
	"sync"
	"testing"

	"verif/internal/xrt"
)

// A Program is immutable after Parse: concurrent Runs must not interfere.
func TestConcurrentRuns(t *testing.T) {
	src := `#version 430 core
layout(local_size_x = 4, local_size_y = 1, local_size_z = 1) in;
struct S { vec3 v; float f; };
layout(std430, binding = 0) buffer O { S o[]; };
shared float acc[4];
void main() {
    uint li = gl_LocalInvocationIndex;
    acc[li] = float(li) + o[li].f;
    barrier();
    S a = o[li]; S b = o[li];
    o[li].v = vec3(acc[(li + 1u) % 4u]) * ((a == b) ? 1.0 : 0.0);
}`
	p := mustParse(t, src)
	noStatic(t, p)
	var wg sync.WaitGroup
	for g := 0; g < 8; g++ {
		wg.Add(1)
		go func(g int) {
			defer wg.Done()
			buf := make([]byte, 64)
			for i := 0; i < 4; i++ {
				copy(buf[16*i+12:], f32s(float32(g)))
			}
			bufs := xrt.Buffers{sb(0): buf}
			res, err := p.Run("main", bufs, xrt.Options{TrapMode: true})
			if err != nil || len(res.Traps) != 0 {
				t.Errorf("run %d: %v %v", g, err, res.Traps)
				return
			}
			for i := 0; i < 4; i++ {
				want := float32((i+1)%4) + float32(g)
				if got := getF32(buf, 4*i); got != want {
					t.Errorf("run %d: o[%d].v.x = %v want %v", g, i, got, want)
				}
			}
		}(g)
	}
	wg.Wait()
}
