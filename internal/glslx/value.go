package glslx

import "math"

// Scalar is one 32-bit cell: bool (0/1), int/uint (two's complement bits) or
// float (IEEE-754 binary32 bits). Poison marks a never-written cell.
type Scalar struct {
	Bits   uint32
	Poison bool
}

// Value is a typed rvalue: the cells of T in declaration order (matrices
// column-major, arrays element after element, structs member after member).
type Value struct {
	T *Type
	S []Scalar
}

func f2b(f float32) uint32 { return math.Float32bits(f) }
func b2f(b uint32) float32 { return math.Float32frombits(b) }

func boolBits(b bool) uint32 {
	if b {
		return 1
	}
	return 0
}

func scalarValue(t *Type, bits uint32) Value { return Value{T: t, S: []Scalar{{Bits: bits}}} }
func floatValue(f float32) Value             { return scalarValue(tFloat, f2b(f)) }
func intValue(i int32) Value                 { return scalarValue(tInt, uint32(i)) }
func uintValue(u uint32) Value               { return scalarValue(tUint, u) }
func boolValue(b bool) Value                 { return scalarValue(tBool, boolBits(b)) }

func newValue(t *Type) Value { return Value{T: t, S: make([]Scalar, t.scalarCount())} }

func poisonValue(t *Type) Value {
	v := newValue(t)
	for i := range v.S {
		v.S[i].Poison = true
	}
	return v
}

func (v Value) clone() Value {
	c := Value{T: v.T, S: make([]Scalar, len(v.S))}
	copy(c.S, v.S)
	return c
}

func (v Value) anyPoison() bool {
	for i := range v.S {
		if v.S[i].Poison {
			return true
		}
	}
	return false
}

// comp returns component i of a scalar/vector/matrix value, broadcasting scalars.
func (v Value) comp(i int) Scalar {
	if len(v.S) == 1 {
		return v.S[0]
	}
	return v.S[i]
}

func (v Value) f(i int) float32 { return b2f(v.comp(i).Bits) }
func (v Value) i(i int) int32   { return int32(v.comp(i).Bits) }
func (v Value) u(i int) uint32  { return v.comp(i).Bits }
func (v Value) b(i int) bool    { return v.comp(i).Bits != 0 }

// convertScalar converts one cell between scalar kinds following the GLSL
// constructor rules. Undefined float->integer conversions are reported via
// the returned string (empty = fine).
func convertScalar(s Scalar, from, to Kind) (Scalar, string) {
	if from == to {
		return s, ""
	}
	out := Scalar{Poison: s.Poison}
	why := ""
	switch to {
	case KBool:
		switch from {
		case KFloat:
			out.Bits = boolBits(b2f(s.Bits) != 0)
		default:
			out.Bits = boolBits(s.Bits != 0)
		}
	case KInt:
		switch from {
		case KBool, KUint:
			out.Bits = s.Bits
		case KFloat:
			f := float64(b2f(s.Bits))
			switch {
			case f != f:
				why = "NaN to int"
				out.Bits = 0
			case f >= 2147483648.0:
				why = "float to int out of range"
				out.Bits = 0x7FFFFFFF
			case f <= -2147483649.0:
				why = "float to int out of range"
				out.Bits = 0x80000000
			default:
				out.Bits = uint32(int32(math.Trunc(f)))
			}
		}
	case KUint:
		switch from {
		case KBool, KInt:
			out.Bits = s.Bits
		case KFloat:
			f := float64(b2f(s.Bits))
			switch {
			case f != f:
				why = "NaN to uint"
				out.Bits = 0
			case f >= 4294967296.0:
				why = "float to uint out of range"
				out.Bits = 0xFFFFFFFF
			case f < 0:
				// "It is undefined to convert a negative floating-point value to an uint."
				why = "negative float to uint"
				out.Bits = 0
			default:
				out.Bits = uint32(math.Trunc(f))
			}
		}
	case KFloat:
		switch from {
		case KBool:
			if s.Bits != 0 {
				out.Bits = f2b(1)
			} else {
				out.Bits = 0
			}
		case KInt:
			out.Bits = f2b(float32(int32(s.Bits)))
		case KUint:
			out.Bits = f2b(float32(s.Bits))
		}
	}
	return out, why
}
