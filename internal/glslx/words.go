package glslx

import "sort"

// AdversarialWords lists names a hostile author would pick for user identifiers: GLSL keywords, type names, words
// reserved for future use, qualifiers and built-in function names. Used by the renaming check.
func AdversarialWords() []string {
	seen := map[string]bool{}
	for _, m := range []map[string]bool{kwPlain, kwOpaqueTypes, extTypes, kwFuture, builtinFuncNames, qualifierWords} {
		for k := range m {
			seen[k] = true
		}
	}
	for k := range basicByName {
		seen[k] = true
	}
	out := make([]string, 0, len(seen))
	for k := range seen {
		out = append(out, k)
	}
	sort.Strings(out)
	return out
}

// ExtensionTypeName: a type name that exists only with an extension or in Vulkan GLSL (the parser of this package
// reads it as a type, a plain OpenGL GLSL compiler does not): using it as an identifier is not certainly an error.
func ExtensionTypeName(name string) bool { return extTypes[name] }
