package glslx

import (
	"math"
	"math/bits"
	"strings"
)

// bctx is the context handed to a builtin implementation.
type bctx struct {
	in   *interp
	sig  *builtinSig
	a    []Value
	line int
	outs []Value // values for out parameters, indexed like params
}

// undef reports a target-undefined builtin use (TrapMode only).
func (c *bctx) undef(what string) { c.in.trapOther(c.line, c.sig.name+": "+what) }

type builtinSig struct {
	name    string
	params  []*Type
	dirs    []byte // 'i' in, 'o' out, 'm' atomic memory operand
	ret     *Type
	fn      func(c *bctx) Value
	special string // "", "atomic", "barrier", "membar"
	konstOK bool
}

var builtins = map[string][]*builtinSig{}

// ---- f32 arithmetic with individual rounding ----

func fadd(a, b float32) float32 { return float32(a + b) }
func fsub(a, b float32) float32 { return float32(a - b) }
func fmul(a, b float32) float32 { return float32(a * b) }
func fdiv(a, b float32) float32 { return float32(a / b) }

func ffloor(x float32) float32 { return float32(math.Floor(float64(x))) }
func fceil(x float32) float32  { return float32(math.Ceil(float64(x))) }
func ftrunc(x float32) float32 { return float32(math.Trunc(float64(x))) }
func fabs(x float32) float32   { return b2f(f2b(x) &^ 0x80000000) }
func fsqrt(x float32) float32  { return float32(math.Sqrt(float64(x))) }

// GLSL: min returns y if y < x, otherwise x; max returns y if x < y, otherwise x.
func fmin(x, y float32) float32 {
	if y < x {
		return y
	}
	return x
}
func fmax(x, y float32) float32 {
	if x < y {
		return y
	}
	return x
}

func isNaN32(x float32) bool { return x != x }
func isInf32(x float32) bool { return x > math.MaxFloat32 || x < -math.MaxFloat32 }

// ---- signature mini-language ----

type sigTok struct {
	dir   byte
	class byte // 'F' 'I' 'U' 'B' generic, 'f' 'i' 'u' 'b' scalar, 'v' void
	vonly bool // generic over vectors only (2..4)
	fixed int  // fixed vector size (2..4), 0 = none
}

func parseSigTok(s string) sigTok {
	t := sigTok{dir: 'i'}
	if i := strings.IndexByte(s, ':'); i >= 0 {
		switch s[:i] {
		case "o":
			t.dir = 'o'
		case "m":
			t.dir = 'm'
		}
		s = s[i+1:]
	}
	t.class = s[0]
	if len(s) > 1 {
		if s[1] == 'v' {
			t.vonly = true
		} else {
			t.fixed = int(s[1] - '0')
		}
	}
	return t
}

func (t sigTok) generic() bool {
	return t.fixed == 0 && (t.class == 'F' || t.class == 'I' || t.class == 'U' || t.class == 'B')
}

func (t sigTok) resolve(n int) *Type {
	var s *Type
	switch t.class {
	case 'F', 'f':
		s = tFloat
	case 'I', 'i':
		s = tInt
	case 'U', 'u':
		s = tUint
	case 'B', 'b':
		s = tBool
	case 'v':
		return tVoid
	}
	if t.class >= 'a' && t.class <= 'z' {
		return s
	}
	if t.fixed != 0 {
		return vecOf(s, t.fixed)
	}
	return vecOf(s, n)
}

// def registers the overloads described by sig ("ret p1 p2 ...").
func def(name, sig string, fn func(c *bctx) Value) []*builtinSig {
	fields := strings.Fields(sig)
	toks := make([]sigTok, len(fields))
	generic, vonly := false, false
	for i, f := range fields {
		toks[i] = parseSigTok(f)
		if toks[i].generic() {
			generic = true
			if toks[i].vonly {
				vonly = true
			}
		}
	}
	lo, hi := 1, 1
	if generic {
		hi = 4
		if vonly {
			lo = 2
		}
	}
	var out []*builtinSig
	for n := lo; n <= hi; n++ {
		b := &builtinSig{name: name, fn: fn, konstOK: true}
		b.ret = toks[0].resolve(n)
		for _, t := range toks[1:] {
			b.params = append(b.params, t.resolve(n))
			b.dirs = append(b.dirs, t.dir)
			if t.dir != 'i' {
				b.konstOK = false
			}
		}
		builtins[name] = append(builtins[name], b)
		out = append(out, b)
	}
	return out
}

// ---- component-wise helpers (poison handled per component) ----

func (c *bctx) result() Value { return newValue(c.sig.ret) }

func cwPoison(r *Value, i int, a []Value) bool {
	p := false
	for _, v := range a {
		if v.comp(i).Poison {
			p = true
		}
	}
	r.S[i].Poison = p
	return p
}

func cwF1(f func(c *bctx, x float32) float32) func(c *bctx) Value {
	return func(c *bctx) Value {
		r := c.result()
		for i := range r.S {
			cwPoison(&r, i, c.a)
			r.S[i].Bits = f2b(f(c, c.a[0].f(i)))
		}
		return r
	}
}
func cwF2(f func(c *bctx, x, y float32) float32) func(c *bctx) Value {
	return func(c *bctx) Value {
		r := c.result()
		for i := range r.S {
			cwPoison(&r, i, c.a)
			r.S[i].Bits = f2b(f(c, c.a[0].f(i), c.a[1].f(i)))
		}
		return r
	}
}
func cwF3(f func(c *bctx, x, y, z float32) float32) func(c *bctx) Value {
	return func(c *bctx) Value {
		r := c.result()
		for i := range r.S {
			cwPoison(&r, i, c.a)
			r.S[i].Bits = f2b(f(c, c.a[0].f(i), c.a[1].f(i), c.a[2].f(i)))
		}
		return r
	}
}

// cwBits: component-wise over raw bits (ints, uints, bools, bit casts).
func cwU1(f func(c *bctx, x uint32) uint32) func(c *bctx) Value {
	return func(c *bctx) Value {
		r := c.result()
		for i := range r.S {
			cwPoison(&r, i, c.a)
			r.S[i].Bits = f(c, c.a[0].u(i))
		}
		return r
	}
}
func cwU2(f func(c *bctx, x, y uint32) uint32) func(c *bctx) Value {
	return func(c *bctx) Value {
		r := c.result()
		for i := range r.S {
			cwPoison(&r, i, c.a)
			r.S[i].Bits = f(c, c.a[0].u(i), c.a[1].u(i))
		}
		return r
	}
}
func cwU3(f func(c *bctx, x, y, z uint32) uint32) func(c *bctx) Value {
	return func(c *bctx) Value {
		r := c.result()
		for i := range r.S {
			cwPoison(&r, i, c.a)
			r.S[i].Bits = f(c, c.a[0].u(i), c.a[1].u(i), c.a[2].u(i))
		}
		return r
	}
}

// whole: non component-wise function; any poison input poisons the whole result.
func whole(f func(c *bctx) Value) func(c *bctx) Value {
	return func(c *bctx) Value {
		r := f(c)
		p := false
		for _, v := range c.a {
			if v.anyPoison() {
				p = true
			}
		}
		if p {
			for i := range r.S {
				r.S[i].Poison = true
			}
			for k := range c.outs {
				for i := range c.outs[k].S {
					c.outs[k].S[i].Poison = true
				}
			}
		}
		return r
	}
}

// m64 lifts a float64 math function: computed in double, rounded once.
func m64(f func(float64) float64) func(c *bctx, x float32) float32 {
	return func(c *bctx, x float32) float32 { return float32(f(float64(x))) }
}

func dotF(a, b Value, n int) float32 {
	var s float32
	for i := 0; i < n; i++ {
		p := fmul(a.f(i), b.f(i))
		if i == 0 {
			s = p
		} else {
			s = fadd(s, p)
		}
	}
	return s
}

func floatVec(t *Type, xs ...float32) Value {
	v := newValue(t)
	for i, x := range xs {
		v.S[i].Bits = f2b(x)
	}
	return v
}

func roundHalf(c *bctx, x float32) float32 {
	if isNaN32(x) || isInf32(x) {
		return x
	}
	fl := ffloor(x)
	d := fsub(x, fl) // exact for |x| < 2^23; larger values are integers already
	if d == 0.5 {
		// GLSL: "The fraction 0.5 will round in a direction chosen by the implementation"
		c.in.unsupported("round-half")
	}
	if d < 0.5 {
		if fl == 0 && math.Signbit(float64(x)) {
			return b2f(0x80000000)
		}
		return fl
	}
	return fadd(fl, 1)
}

func roundEven32(x float32) float32 { return float32(math.RoundToEven(float64(x))) }

// f32 -> f16 bits, round to nearest even.
func f32ToF16(f float32) uint16 {
	b := f2b(f)
	sign := uint16(b>>16) & 0x8000
	exp := int(b>>23) & 0xFF
	man := b & 0x7FFFFF
	switch {
	case exp == 0xFF:
		if man != 0 {
			return sign | 0x7E00
		}
		return sign | 0x7C00
	}
	e := exp - 127 + 15
	if e >= 0x1F {
		return sign | 0x7C00
	}
	if e <= 0 {
		if e < -10 {
			return sign
		}
		man |= 0x800000
		shift := uint(14 - e)
		half := uint32(1) << (shift - 1)
		r := man >> shift
		rem := man & ((1 << shift) - 1)
		if rem > half || (rem == half && r&1 == 1) {
			r++
		}
		return sign | uint16(r)
	}
	r := uint32(e)<<10 | man>>13
	rem := man & 0x1FFF
	if rem > 0x1000 || (rem == 0x1000 && r&1 == 1) {
		r++
	}
	return sign | uint16(r)
}

func f16ToF32(h uint16) float32 {
	sign := uint32(h&0x8000) << 16
	exp := int(h>>10) & 0x1F
	man := uint32(h & 0x3FF)
	switch {
	case exp == 0:
		if man == 0 {
			return b2f(sign)
		}
		f := float32(man) * float32(math.Ldexp(1, -24))
		if sign != 0 {
			f = -f
		}
		return f
	case exp == 0x1F:
		if man == 0 {
			return b2f(sign | 0x7F800000)
		}
		return b2f(sign | 0x7FC00000 | man<<13)
	}
	return b2f(sign | uint32(exp-15+127)<<23 | man<<13)
}

func (c *bctx) packNorm(x float32, lo, scale float32, signed bool, bitsN uint) uint32 {
	// round(clamp(c, lo, 1) * scale)
	v := fmin(fmax(x, lo), 1)
	v = fmul(v, scale)
	if isNaN32(v) {
		c.undef("NaN input")
		return 0
	}
	r := roundHalf(c, v)
	mask := uint32(1)<<bitsN - 1
	if signed {
		return uint32(int32(r)) & mask
	}
	return uint32(r) & mask
}

func signExtend(v uint32, bitsN uint) int32 {
	sh := 32 - bitsN
	return int32(v<<sh) >> sh
}

// matrix helpers: column-major cells, m[c][r] = S[c*rows+r]
func matAt(m Value, c, r int) float32 { return b2f(m.S[c*m.T.Rows+r].Bits) }

func det2(a, b, c, d float32) float32 { return fsub(fmul(a, d), fmul(b, c)) }

func matGet(m Value) [][]float32 { // [col][row]
	out := make([][]float32, m.T.N)
	for c := range out {
		out[c] = make([]float32, m.T.Rows)
		for r := range out[c] {
			out[c][r] = matAt(m, c, r)
		}
	}
	return out
}

// minor-based determinant with individually rounded f32 operations.
func detN(m [][]float32) float32 {
	n := len(m)
	switch n {
	case 1:
		return m[0][0]
	case 2:
		return det2(m[0][0], m[1][0], m[0][1], m[1][1])
	}
	var s float32
	for c := 0; c < n; c++ {
		t := fmul(m[c][0], detN(minor(m, c, 0)))
		if c%2 == 1 {
			t = -t
		}
		if c == 0 {
			s = t
		} else {
			s = fadd(s, t)
		}
	}
	return s
}

func minor(m [][]float32, col, row int) [][]float32 {
	n := len(m)
	out := make([][]float32, 0, n-1)
	for c := 0; c < n; c++ {
		if c == col {
			continue
		}
		cc := make([]float32, 0, n-1)
		for r := 0; r < n; r++ {
			if r == row {
				continue
			}
			cc = append(cc, m[c][r])
		}
		out = append(out, cc)
	}
	return out
}

func init() {
	type F1 = func(c *bctx, x float32) float32

	// ---- 8.1 angle and trigonometry ----
	def("radians", "F F", cwF1(func(c *bctx, x float32) float32 { return fmul(x, float32(math.Pi/180)) }))
	def("degrees", "F F", cwF1(func(c *bctx, x float32) float32 { return fmul(x, float32(180/math.Pi)) }))
	def("sin", "F F", cwF1(m64(math.Sin)))
	def("cos", "F F", cwF1(m64(math.Cos)))
	def("tan", "F F", cwF1(m64(math.Tan)))
	def("asin", "F F", cwF1(func(c *bctx, x float32) float32 {
		if fabs(x) > 1 {
			c.undef("float-domain: |x| > 1")
		}
		return float32(math.Asin(float64(x)))
	}))
	def("acos", "F F", cwF1(func(c *bctx, x float32) float32 {
		if fabs(x) > 1 {
			c.undef("float-domain: |x| > 1")
		}
		return float32(math.Acos(float64(x)))
	}))
	def("atan", "F F F", cwF2(func(c *bctx, y, x float32) float32 {
		if x == 0 && y == 0 {
			c.undef("float-domain: atan(0,0)")
		}
		return float32(math.Atan2(float64(y), float64(x)))
	}))
	def("atan", "F F", cwF1(m64(math.Atan)))
	def("sinh", "F F", cwF1(m64(math.Sinh)))
	def("cosh", "F F", cwF1(m64(math.Cosh)))
	def("tanh", "F F", cwF1(m64(math.Tanh)))
	def("asinh", "F F", cwF1(m64(math.Asinh)))
	def("acosh", "F F", cwF1(func(c *bctx, x float32) float32 {
		if x < 1 {
			c.undef("float-domain: x < 1")
		}
		return float32(math.Acosh(float64(x)))
	}))
	def("atanh", "F F", cwF1(func(c *bctx, x float32) float32 {
		if fabs(x) >= 1 {
			c.undef("float-domain: |x| >= 1")
		}
		return float32(math.Atanh(float64(x)))
	}))

	// ---- 8.2 exponential ----
	def("pow", "F F F", cwF2(func(c *bctx, x, y float32) float32 {
		if x < 0 {
			c.undef("float-domain: x < 0")
		} else if x == 0 && y <= 0 {
			c.undef("float-domain: x == 0 and y <= 0")
		}
		return float32(math.Pow(float64(x), float64(y)))
	}))
	def("exp", "F F", cwF1(m64(math.Exp)))
	def("log", "F F", cwF1(func(c *bctx, x float32) float32 {
		if x <= 0 {
			c.undef("float-domain: x <= 0")
		}
		return float32(math.Log(float64(x)))
	}))
	def("exp2", "F F", cwF1(m64(math.Exp2)))
	def("log2", "F F", cwF1(func(c *bctx, x float32) float32 {
		if x <= 0 {
			c.undef("float-domain: x <= 0")
		}
		return float32(math.Log2(float64(x)))
	}))
	def("sqrt", "F F", cwF1(func(c *bctx, x float32) float32 {
		if x < 0 {
			c.undef("float-domain: x < 0")
		}
		return fsqrt(x)
	}))
	def("inversesqrt", "F F", cwF1(func(c *bctx, x float32) float32 {
		if x <= 0 {
			c.undef("float-domain: x <= 0")
		}
		return float32(1 / math.Sqrt(float64(x)))
	}))

	// ---- 8.3 common ----
	def("abs", "F F", cwF1(func(c *bctx, x float32) float32 { return fabs(x) }))
	def("abs", "I I", cwU1(func(c *bctx, x uint32) uint32 {
		if int32(x) < 0 {
			return -x
		}
		return x
	}))
	def("sign", "F F", cwF1(func(c *bctx, x float32) float32 {
		switch {
		case x > 0:
			return 1
		case x < 0:
			return -1
		case x == 0:
			return 0
		}
		c.undef("float-domain: sign(NaN)")
		return 0
	}))
	def("sign", "I I", cwU1(func(c *bctx, x uint32) uint32 {
		switch {
		case int32(x) > 0:
			return 1
		case int32(x) < 0:
			return 0xFFFFFFFF
		}
		return 0
	}))
	def("floor", "F F", cwF1(func(c *bctx, x float32) float32 { return ffloor(x) }))
	def("trunc", "F F", cwF1(func(c *bctx, x float32) float32 { return ftrunc(x) }))
	def("round", "F F", cwF1(roundHalf))
	def("roundEven", "F F", cwF1(func(c *bctx, x float32) float32 { return roundEven32(x) }))
	def("ceil", "F F", cwF1(func(c *bctx, x float32) float32 { return fceil(x) }))
	def("fract", "F F", cwF1(func(c *bctx, x float32) float32 { return fsub(x, ffloor(x)) }))
	modFn := cwF2(func(c *bctx, x, y float32) float32 { return fsub(x, fmul(y, ffloor(fdiv(x, y)))) })
	def("mod", "F F F", modFn)
	def("mod", "Fv Fv f", modFn)
	def("modf", "F F o:F", func(c *bctx) Value {
		r := c.result()
		o := newValue(c.sig.params[1])
		for i := range r.S {
			x := c.a[0].f(i)
			w := ftrunc(x)
			fr := fsub(x, w)
			if isInf32(x) {
				fr = b2f(f2b(x) & 0x80000000) // ±0
			}
			if fr == 0 { // keep the sign of x
				fr = b2f(f2b(x) & 0x80000000)
			}
			p := c.a[0].comp(i).Poison
			r.S[i] = Scalar{f2b(fr), p}
			o.S[i] = Scalar{f2b(w), p}
		}
		c.outs[1] = o
		return r
	})
	minI := cwU2(func(c *bctx, x, y uint32) uint32 {
		if int32(y) < int32(x) {
			return y
		}
		return x
	})
	maxI := cwU2(func(c *bctx, x, y uint32) uint32 {
		if int32(x) < int32(y) {
			return y
		}
		return x
	})
	minU := cwU2(func(c *bctx, x, y uint32) uint32 {
		if y < x {
			return y
		}
		return x
	})
	maxU := cwU2(func(c *bctx, x, y uint32) uint32 {
		if x < y {
			return y
		}
		return x
	})
	minF := cwF2(func(c *bctx, x, y float32) float32 { return fmin(x, y) })
	maxF := cwF2(func(c *bctx, x, y float32) float32 { return fmax(x, y) })
	def("min", "F F F", minF)
	def("min", "Fv Fv f", minF)
	def("min", "I I I", minI)
	def("min", "Iv Iv i", minI)
	def("min", "U U U", minU)
	def("min", "Uv Uv u", minU)
	def("max", "F F F", maxF)
	def("max", "Fv Fv f", maxF)
	def("max", "I I I", maxI)
	def("max", "Iv Iv i", maxI)
	def("max", "U U U", maxU)
	def("max", "Uv Uv u", maxU)
	clampF := cwF3(func(c *bctx, x, lo, hi float32) float32 {
		if lo > hi {
			c.undef("minVal > maxVal")
		}
		return fmin(fmax(x, lo), hi)
	})
	clampI := cwU3(func(c *bctx, x, lo, hi uint32) uint32 {
		if int32(lo) > int32(hi) {
			c.undef("minVal > maxVal")
		}
		r := x
		if int32(r) < int32(lo) {
			r = lo
		}
		if int32(hi) < int32(r) {
			r = hi
		}
		return r
	})
	clampU := cwU3(func(c *bctx, x, lo, hi uint32) uint32 {
		if lo > hi {
			c.undef("minVal > maxVal")
		}
		r := x
		if r < lo {
			r = lo
		}
		if hi < r {
			r = hi
		}
		return r
	})
	def("clamp", "F F F F", clampF)
	def("clamp", "Fv Fv f f", clampF)
	def("clamp", "I I I I", clampI)
	def("clamp", "Iv Iv i i", clampI)
	def("clamp", "U U U U", clampU)
	def("clamp", "Uv Uv u u", clampU)
	mixF := cwF3(func(c *bctx, x, y, a float32) float32 {
		// x*(1-a) + y*a
		return fadd(fmul(x, fsub(1, a)), fmul(y, a))
	})
	def("mix", "F F F F", mixF)
	def("mix", "Fv Fv Fv f", mixF)
	mixB := func(c *bctx) Value {
		// components of a that are false select x, true select y; the unselected
		// component does not influence the result
		r := c.result()
		for i := range r.S {
			sel := c.a[2].comp(i)
			src := c.a[0].comp(i)
			if sel.Bits != 0 {
				src = c.a[1].comp(i)
			}
			r.S[i] = Scalar{src.Bits, src.Poison || sel.Poison}
		}
		return r
	}
	def("mix", "F F F B", mixB)
	def("mix", "I I I B", mixB)
	def("mix", "U U U B", mixB)
	def("mix", "B B B B", mixB)
	stepF := cwF2(func(c *bctx, edge, x float32) float32 {
		if x < edge {
			return 0
		}
		return 1
	})
	def("step", "F F F", stepF)
	def("step", "Fv f Fv", stepF)
	smooth := cwF3(func(c *bctx, e0, e1, x float32) float32 {
		if e0 >= e1 {
			c.undef("float-domain: edge0 >= edge1")
		}
		t := fdiv(fsub(x, e0), fsub(e1, e0))
		t = fmin(fmax(t, 0), 1)
		return fmul(fmul(t, t), fsub(3, fmul(2, t)))
	})
	def("smoothstep", "F F F F", smooth)
	def("smoothstep", "Fv f f Fv", smooth)
	def("isnan", "B F", cwU1(func(c *bctx, x uint32) uint32 { return boolBits(isNaN32(b2f(x))) }))
	def("isinf", "B F", cwU1(func(c *bctx, x uint32) uint32 { return boolBits(isInf32(b2f(x))) }))
	ident := cwU1(func(c *bctx, x uint32) uint32 { return x })
	def("floatBitsToInt", "I F", ident)
	def("floatBitsToUint", "U F", ident)
	def("intBitsToFloat", "F I", ident)
	def("uintBitsToFloat", "F U", ident)
	def("fma", "F F F F", cwF3(func(c *bctx, a, b, d float32) float32 {
		unfused := fadd(fmul(a, b), d)
		fused := float32(math.FMA(float64(a), float64(b), float64(d)))
		if f2b(unfused) != f2b(fused) && !(isNaN32(unfused) && isNaN32(fused)) {
			// GLSL leaves it to the implementation whether fma() is fused
			// (unless consumed by a precise expression).
			c.in.unsupported("fma rounding ambiguous")
		}
		return unfused
	}))
	def("frexp", "F F o:I", func(c *bctx) Value {
		r := c.result()
		o := newValue(c.sig.params[1])
		for i := range r.S {
			x := c.a[0].f(i)
			if isNaN32(x) || isInf32(x) {
				c.undef("float-domain: frexp of NaN/Inf")
			}
			fr, e := math.Frexp(float64(x))
			p := c.a[0].comp(i).Poison
			r.S[i] = Scalar{f2b(float32(fr)), p}
			o.S[i] = Scalar{uint32(int32(e)), p}
		}
		c.outs[1] = o
		return r
	})
	def("ldexp", "F F I", func(c *bctx) Value {
		r := c.result()
		for i := range r.S {
			cwPoison(&r, i, c.a)
			x, e := c.a[0].f(i), c.a[1].i(i)
			if e > 128 {
				c.undef("exp > 128")
			}
			v := math.Ldexp(float64(x), int(e))
			if math.Abs(v) > math.MaxFloat32 && !isInf32(x) {
				c.undef("result not representable")
			}
			r.S[i].Bits = f2b(float32(v))
		}
		return r
	})

	// ---- 8.4 packing ----
	def("packUnorm2x16", "u F2", whole(func(c *bctx) Value {
		return uintValue(c.packNorm(c.a[0].f(0), 0, 65535, false, 16) | c.packNorm(c.a[0].f(1), 0, 65535, false, 16)<<16)
	}))
	def("packSnorm2x16", "u F2", whole(func(c *bctx) Value {
		return uintValue(c.packNorm(c.a[0].f(0), -1, 32767, true, 16) | c.packNorm(c.a[0].f(1), -1, 32767, true, 16)<<16)
	}))
	def("packUnorm4x8", "u F4", whole(func(c *bctx) Value {
		var r uint32
		for i := 0; i < 4; i++ {
			r |= c.packNorm(c.a[0].f(i), 0, 255, false, 8) << (8 * uint(i))
		}
		return uintValue(r)
	}))
	def("packSnorm4x8", "u F4", whole(func(c *bctx) Value {
		var r uint32
		for i := 0; i < 4; i++ {
			r |= c.packNorm(c.a[0].f(i), -1, 127, true, 8) << (8 * uint(i))
		}
		return uintValue(r)
	}))
	def("unpackUnorm2x16", "F2 u", whole(func(c *bctx) Value {
		p := c.a[0].u(0)
		return floatVec(c.sig.ret, fdiv(float32(p&0xFFFF), 65535), fdiv(float32(p>>16), 65535))
	}))
	def("unpackSnorm2x16", "F2 u", whole(func(c *bctx) Value {
		p := c.a[0].u(0)
		f := func(v uint32) float32 { return fmin(fmax(fdiv(float32(signExtend(v, 16)), 32767), -1), 1) }
		return floatVec(c.sig.ret, f(p&0xFFFF), f(p>>16))
	}))
	def("unpackUnorm4x8", "F4 u", whole(func(c *bctx) Value {
		p := c.a[0].u(0)
		r := c.result()
		for i := 0; i < 4; i++ {
			r.S[i].Bits = f2b(fdiv(float32((p>>(8*uint(i)))&0xFF), 255))
		}
		return r
	}))
	def("unpackSnorm4x8", "F4 u", whole(func(c *bctx) Value {
		p := c.a[0].u(0)
		r := c.result()
		for i := 0; i < 4; i++ {
			r.S[i].Bits = f2b(fmin(fmax(fdiv(float32(signExtend((p>>(8*uint(i)))&0xFF, 8)), 127), -1), 1))
		}
		return r
	}))
	def("packHalf2x16", "u F2", whole(func(c *bctx) Value {
		return uintValue(uint32(f32ToF16(c.a[0].f(0))) | uint32(f32ToF16(c.a[0].f(1)))<<16)
	}))
	def("unpackHalf2x16", "F2 u", whole(func(c *bctx) Value {
		p := c.a[0].u(0)
		return floatVec(c.sig.ret, f16ToF32(uint16(p)), f16ToF32(uint16(p>>16)))
	}))

	// ---- 8.5 geometric ----
	lengthOf := func(v Value) float32 {
		n := v.T.comps()
		if n == 1 {
			return fabs(v.f(0))
		}
		return fsqrt(dotF(v, v, n))
	}
	def("length", "f F", whole(func(c *bctx) Value { return floatValue(lengthOf(c.a[0])) }))
	def("distance", "f F F", whole(func(c *bctx) Value {
		d := newValue(c.a[0].T)
		for i := range d.S {
			d.S[i].Bits = f2b(fsub(c.a[0].f(i), c.a[1].f(i)))
		}
		return floatValue(lengthOf(d))
	}))
	def("dot", "f F F", whole(func(c *bctx) Value { return floatValue(dotF(c.a[0], c.a[1], c.a[0].T.comps())) }))
	def("cross", "F3 F3 F3", whole(func(c *bctx) Value {
		x, y := c.a[0], c.a[1]
		return floatVec(c.sig.ret,
			fsub(fmul(x.f(1), y.f(2)), fmul(y.f(1), x.f(2))),
			fsub(fmul(x.f(2), y.f(0)), fmul(y.f(2), x.f(0))),
			fsub(fmul(x.f(0), y.f(1)), fmul(y.f(0), x.f(1))))
	}))
	def("normalize", "F F", whole(func(c *bctx) Value {
		l := lengthOf(c.a[0])
		r := c.result()
		for i := range r.S {
			r.S[i].Bits = f2b(fdiv(c.a[0].f(i), l))
		}
		return r
	}))
	def("faceforward", "F F F F", whole(func(c *bctx) Value {
		n := c.a[0].T.comps()
		r := c.a[0].clone()
		if !(dotF(c.a[2], c.a[1], n) < 0) {
			for i := range r.S {
				r.S[i].Bits ^= 0x80000000
			}
		}
		return r
	}))
	def("reflect", "F F F", whole(func(c *bctx) Value {
		// I - 2 * dot(N, I) * N
		I, N := c.a[0], c.a[1]
		n := I.T.comps()
		k := fmul(2, dotF(N, I, n))
		r := c.result()
		for i := range r.S {
			r.S[i].Bits = f2b(fsub(I.f(i), fmul(k, N.f(i))))
		}
		return r
	}))
	def("refract", "F F F f", whole(func(c *bctx) Value {
		I, N, eta := c.a[0], c.a[1], c.a[2].f(0)
		n := I.T.comps()
		d := dotF(N, I, n)
		// k = 1.0 - eta * eta * (1.0 - dot(N, I) * dot(N, I))
		k := fsub(1, fmul(fmul(eta, eta), fsub(1, fmul(d, d))))
		r := c.result()
		if k < 0 {
			return r
		}
		s := fadd(fmul(eta, d), fsqrt(k))
		for i := range r.S {
			r.S[i].Bits = f2b(fsub(fmul(eta, I.f(i)), fmul(s, N.f(i))))
		}
		return r
	}))

	// ---- 8.6 matrix ----
	for cN := 2; cN <= 4; cN++ {
		for rN := 2; rN <= 4; rN++ {
			mt := matTypes[cN][rN]
			tt := matTypes[rN][cN]
			cN, rN := cN, rN
			reg := func(name string, ret *Type, params []*Type, fn func(c *bctx) Value) {
				b := &builtinSig{name: name, ret: ret, params: params, fn: whole(fn), konstOK: true}
				for range params {
					b.dirs = append(b.dirs, 'i')
				}
				builtins[name] = append(builtins[name], b)
			}
			reg("matrixCompMult", mt, []*Type{mt, mt}, func(c *bctx) Value {
				r := c.result()
				for i := range r.S {
					r.S[i].Bits = f2b(fmul(c.a[0].f(i), c.a[1].f(i)))
				}
				return r
			})
			// outerProduct(vecR c, vecC r) -> matCxR ; result[col][row] = c[row]*r[col]
			reg("outerProduct", mt, []*Type{vecOf(tFloat, rN), vecOf(tFloat, cN)}, func(c *bctx) Value {
				r := c.result()
				for col := 0; col < cN; col++ {
					for row := 0; row < rN; row++ {
						r.S[col*rN+row].Bits = f2b(fmul(c.a[0].f(row), c.a[1].f(col)))
					}
				}
				return r
			})
			reg("transpose", tt, []*Type{mt}, func(c *bctx) Value {
				r := c.result() // rN columns, cN rows
				for col := 0; col < cN; col++ {
					for row := 0; row < rN; row++ {
						r.S[row*cN+col] = c.a[0].S[col*rN+row]
					}
				}
				return r
			})
			if cN == rN {
				reg("determinant", tFloat, []*Type{mt}, func(c *bctx) Value {
					return floatValue(detN(matGet(c.a[0])))
				})
				reg("inverse", mt, []*Type{mt}, func(c *bctx) Value {
					m := matGet(c.a[0])
					n := cN
					d := detN(m)
					if d == 0 {
						c.undef("float-domain: singular matrix")
					}
					r := c.result()
					// inverse = adjugate / det ; adj[col][row] = cofactor(row, col)
					for col := 0; col < n; col++ {
						for row := 0; row < n; row++ {
							// element (row, col) of inverse = C(col,row)/det where C(i,j) cofactor of element row i col j
							var cof float32
							if n == 2 {
								cof = m[1-row][1-col] // element at column (1-row), row (1-col)
							} else {
								cof = detN(minor(m, row, col))
							}
							if (row+col)%2 == 1 {
								cof = -cof
							}
							r.S[col*n+row].Bits = f2b(fdiv(cof, d))
						}
					}
					return r
				})
			}
		}
	}

	// ---- 8.7 vector relational ----
	cmp := func(name string, ff func(x, y float32) bool, fi func(x, y int32) bool, fu func(x, y uint32) bool) {
		def(name, "Bv Fv Fv", cwU2(func(c *bctx, x, y uint32) uint32 { return boolBits(ff(b2f(x), b2f(y))) }))
		def(name, "Bv Iv Iv", cwU2(func(c *bctx, x, y uint32) uint32 { return boolBits(fi(int32(x), int32(y))) }))
		def(name, "Bv Uv Uv", cwU2(func(c *bctx, x, y uint32) uint32 { return boolBits(fu(x, y)) }))
	}
	cmp("lessThan", func(x, y float32) bool { return x < y }, func(x, y int32) bool { return x < y }, func(x, y uint32) bool { return x < y })
	cmp("lessThanEqual", func(x, y float32) bool { return x <= y }, func(x, y int32) bool { return x <= y }, func(x, y uint32) bool { return x <= y })
	cmp("greaterThan", func(x, y float32) bool { return x > y }, func(x, y int32) bool { return x > y }, func(x, y uint32) bool { return x > y })
	cmp("greaterThanEqual", func(x, y float32) bool { return x >= y }, func(x, y int32) bool { return x >= y }, func(x, y uint32) bool { return x >= y })
	cmp("equal", func(x, y float32) bool { return x == y }, func(x, y int32) bool { return x == y }, func(x, y uint32) bool { return x == y })
	cmp("notEqual", func(x, y float32) bool { return x != y }, func(x, y int32) bool { return x != y }, func(x, y uint32) bool { return x != y })
	def("equal", "Bv Bv Bv", cwU2(func(c *bctx, x, y uint32) uint32 { return boolBits((x != 0) == (y != 0)) }))
	def("notEqual", "Bv Bv Bv", cwU2(func(c *bctx, x, y uint32) uint32 { return boolBits((x != 0) != (y != 0)) }))
	def("any", "b Bv", whole(func(c *bctx) Value {
		r := false
		for i := range c.a[0].S {
			r = r || c.a[0].b(i)
		}
		return boolValue(r)
	}))
	def("all", "b Bv", whole(func(c *bctx) Value {
		r := true
		for i := range c.a[0].S {
			r = r && c.a[0].b(i)
		}
		return boolValue(r)
	}))
	def("not", "Bv Bv", cwU1(func(c *bctx, x uint32) uint32 { return boolBits(x == 0) }))

	// ---- 8.8 integer ----
	def("uaddCarry", "U U U o:U", func(c *bctx) Value {
		r := c.result()
		o := newValue(c.sig.params[2])
		for i := range r.S {
			s, carry := bits.Add32(c.a[0].u(i), c.a[1].u(i), 0)
			p := c.a[0].comp(i).Poison || c.a[1].comp(i).Poison
			r.S[i] = Scalar{s, p}
			o.S[i] = Scalar{carry, p}
		}
		c.outs[2] = o
		return r
	})
	def("usubBorrow", "U U U o:U", func(c *bctx) Value {
		r := c.result()
		o := newValue(c.sig.params[2])
		for i := range r.S {
			d, borrow := bits.Sub32(c.a[0].u(i), c.a[1].u(i), 0)
			p := c.a[0].comp(i).Poison || c.a[1].comp(i).Poison
			r.S[i] = Scalar{d, p}
			o.S[i] = Scalar{borrow, p}
		}
		c.outs[2] = o
		return r
	})
	def("umulExtended", "v U U o:U o:U", func(c *bctx) Value {
		hi := newValue(c.sig.params[2])
		lo := newValue(c.sig.params[3])
		for i := range hi.S {
			h, l := bits.Mul32(c.a[0].u(i), c.a[1].u(i))
			p := c.a[0].comp(i).Poison || c.a[1].comp(i).Poison
			hi.S[i] = Scalar{h, p}
			lo.S[i] = Scalar{l, p}
		}
		c.outs[2], c.outs[3] = hi, lo
		return Value{T: tVoid}
	})
	def("imulExtended", "v I I o:I o:I", func(c *bctx) Value {
		hi := newValue(c.sig.params[2])
		lo := newValue(c.sig.params[3])
		for i := range hi.S {
			pr := int64(c.a[0].i(i)) * int64(c.a[1].i(i))
			p := c.a[0].comp(i).Poison || c.a[1].comp(i).Poison
			hi.S[i] = Scalar{uint32(uint64(pr) >> 32), p}
			lo.S[i] = Scalar{uint32(uint64(pr)), p}
		}
		c.outs[2], c.outs[3] = hi, lo
		return Value{T: tVoid}
	})
	bfRange := func(c *bctx, offset, nbits int32) bool {
		// "The result will be undefined if offset or bits is negative, or if the
		// sum of offset and bits is greater than the number of bits used to store the operand."
		if offset < 0 || nbits < 0 || int64(offset)+int64(nbits) > 32 {
			c.undef("bitfield range")
			return false
		}
		return true
	}
	extract := func(signed bool) func(c *bctx) Value {
		return func(c *bctx) Value {
			r := c.result()
			off, nb := c.a[1].i(0), c.a[2].i(0)
			ok := bfRange(c, off, nb)
			for i := range r.S {
				r.S[i].Poison = c.a[0].comp(i).Poison || c.a[1].S[0].Poison || c.a[2].S[0].Poison
				if !ok || nb == 0 {
					r.S[i].Bits = 0
					continue
				}
				v := c.a[0].u(i) >> uint(off)
				if nb < 32 {
					v &= uint32(1)<<uint(nb) - 1
					if signed {
						v = uint32(signExtend(v, uint(nb)))
					}
				}
				r.S[i].Bits = v
			}
			return r
		}
	}
	def("bitfieldExtract", "I I i i", extract(true))
	def("bitfieldExtract", "U U i i", extract(false))
	insert := func(c *bctx) Value {
		r := c.result()
		off, nb := c.a[2].i(0), c.a[3].i(0)
		ok := bfRange(c, off, nb)
		for i := range r.S {
			r.S[i].Poison = c.a[0].comp(i).Poison || c.a[1].comp(i).Poison || c.a[2].S[0].Poison || c.a[3].S[0].Poison
			base, ins := c.a[0].u(i), c.a[1].u(i)
			if !ok || nb == 0 {
				r.S[i].Bits = base
				continue
			}
			var mask uint32 = 0xFFFFFFFF
			if nb < 32 {
				mask = (uint32(1)<<uint(nb) - 1) << uint(off)
			}
			r.S[i].Bits = (base &^ mask) | ((ins << uint(off)) & mask)
		}
		return r
	}
	def("bitfieldInsert", "I I I i i", insert)
	def("bitfieldInsert", "U U U i i", insert)
	rev := cwU1(func(c *bctx, x uint32) uint32 { return bits.Reverse32(x) })
	def("bitfieldReverse", "I I", rev)
	def("bitfieldReverse", "U U", rev)
	cnt := cwU1(func(c *bctx, x uint32) uint32 { return uint32(bits.OnesCount32(x)) })
	def("bitCount", "I I", cnt)
	def("bitCount", "I U", cnt)
	lsb := cwU1(func(c *bctx, x uint32) uint32 {
		if x == 0 {
			return 0xFFFFFFFF
		}
		return uint32(bits.TrailingZeros32(x))
	})
	def("findLSB", "I I", lsb)
	def("findLSB", "I U", lsb)
	def("findMSB", "I U", cwU1(func(c *bctx, x uint32) uint32 {
		if x == 0 {
			return 0xFFFFFFFF
		}
		return uint32(31 - bits.LeadingZeros32(x))
	}))
	def("findMSB", "I I", cwU1(func(c *bctx, x uint32) uint32 {
		// positive: most significant 1 bit; negative: most significant 0 bit; 0 / -1: -1
		if int32(x) < 0 {
			x = ^x
		}
		if x == 0 {
			return 0xFFFFFFFF
		}
		return uint32(31 - bits.LeadingZeros32(x))
	}))

	// ---- 8.11 atomic memory functions (handled by the interpreter) ----
	for _, n := range []string{"atomicAdd", "atomicMin", "atomicMax", "atomicAnd", "atomicOr", "atomicXor", "atomicExchange"} {
		for _, s := range def(n, "i m:i i", nil) {
			s.special = "atomic"
		}
		for _, s := range def(n, "u m:u u", nil) {
			s.special = "atomic"
		}
	}
	for _, s := range def("atomicCompSwap", "i m:i i i", nil) {
		s.special = "atomic"
	}
	for _, s := range def("atomicCompSwap", "u m:u u u", nil) {
		s.special = "atomic"
	}

	// ---- 8.16 / 8.17 barriers ----
	for _, s := range def("barrier", "v", nil) {
		s.special = "barrier"
		s.konstOK = false
	}
	for _, n := range []string{"memoryBarrier", "memoryBarrierAtomicCounter", "memoryBarrierBuffer", "memoryBarrierShared", "memoryBarrierImage", "groupMemoryBarrier"} {
		for _, s := range def(n, "v", nil) {
			s.special = "membar"
			s.konstOK = false
		}
	}
}

// atomicOp applies the named atomic to (old, data[, cmp]) returning the new value.
func atomicOp(name string, signed bool, old uint32, args []uint32) uint32 {
	d := args[len(args)-1]
	switch name {
	case "atomicAdd":
		return old + d
	case "atomicMin":
		if signed {
			if int32(d) < int32(old) {
				return d
			}
			return old
		}
		if d < old {
			return d
		}
		return old
	case "atomicMax":
		if signed {
			if int32(d) > int32(old) {
				return d
			}
			return old
		}
		if d > old {
			return d
		}
		return old
	case "atomicAnd":
		return old & d
	case "atomicOr":
		return old | d
	case "atomicXor":
		return old ^ d
	case "atomicExchange":
		return d
	case "atomicCompSwap":
		if old == args[0] {
			return d
		}
		return old
	}
	return old
}
