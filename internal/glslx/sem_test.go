package glslx

import (
	"fmt"
	"math"
	"sort"
	"strings"
	"testing"

	"github.com/gogpu/naga/glsl"

	"verif/internal/xrt"
)

// Semantic calibration: hand-written WGSL compute programs are compiled by
// naga to GLSL, executed by the interpreter, and the buffer contents are
// compared with values computed BY HAND from WGSL semantics.
//
// Where naga's text does something the GLSL specification leaves undefined
// (or computes a different value than WGSL requires) the case is kept and
// logged as "SUSPECT naga: ..." without failing.

type gb struct{ g, b int } // WGSL @group/@binding

type want struct {
	at      gb
	idx     int
	u       uint32  // expected bits for kind 'u'/'i'
	f       float32 // expected for kind 'f'
	kind    byte    // 'u', 'i', 'f'
	suspect string  // non-empty: a mismatch is a naga finding, not a test failure
}

func wu(at gb, idx int, v uint32) want  { return want{at: at, idx: idx, u: v, kind: 'u'} }
func wi(at gb, idx int, v int32) want   { return want{at: at, idx: idx, u: uint32(v), kind: 'i'} }
func wf(at gb, idx int, v float32) want { return want{at: at, idx: idx, f: v, kind: 'f'} }
func (w want) sus(why string) want      { w.suspect = why; return w }

type semCase struct {
	name     string
	wgsl     string
	bufs     map[gb][]byte
	groups   [3]uint32
	wants    []want
	traps    []xrt.TrapKind // dynamic trap kinds expected in TrapMode (each is a naga finding)
	trapWhy  string
	static   []xrt.TrapKind // static trap kinds expected (naga finding)
	unsup    string         // expected Unsupported from Run (substring)
	parseErr string         // expected Unsupported from Parse (substring)
	es       bool           // additionally compile for ES 3.10 and require identical behaviour
	esStatic []xrt.TrapKind // static traps expected for the ES text only
	esUnsup  string         // expected Unsupported from Run for the ES text only
}

// slotOf finds the slot of the block that naga generated for @group(g) @binding(b).
func slotOf(t *testing.T, p *Program, at gb) (xrt.Slot, bool) {
	name := fmt.Sprintf("_group_%d_binding_%d_cs", at.g, at.b)
	for _, b := range p.blocks {
		if b.instance == name || (len(b.T.Fields) > 0 && b.T.Fields[0].Name == name) {
			return blockSlot(b), true
		}
	}
	return xrt.Slot{}, false
}

func kindsOf(ts []*xrt.Trap) []string {
	m := map[string]bool{}
	for _, t := range ts {
		m[string(t.Kind)] = true
	}
	var out []string
	for k := range m {
		out = append(out, k)
	}
	sort.Strings(out)
	return out
}

func kindNames(ks []xrt.TrapKind) []string {
	m := map[string]bool{}
	for _, k := range ks {
		m[string(k)] = true
	}
	var out []string
	for k := range m {
		out = append(out, k)
	}
	sort.Strings(out)
	return out
}

func runSem(t *testing.T, c semCase, ver glsl.Version, wantStatic []xrt.TrapKind) {
	if ver.ES && c.esUnsup != "" {
		c.unsup = c.esUnsup
	}
	txt := compileWGSL(t, c.wgsl, ver)
	p, err := Parse(txt)
	if c.parseErr != "" {
		if err == nil || !strings.Contains(err.Error(), c.parseErr) {
			t.Fatalf("Parse error = %v, want one containing %q", err, c.parseErr)
		}
		t.Logf("SUSPECT naga: %s (Parse: %v)", c.trapWhy, err)
		return
	}
	if err != nil {
		t.Fatalf("Parse: %v\n%s", err, txt)
	}
	st := p.StaticTraps()
	if got, wantK := strings.Join(kindsOf(st), ","), strings.Join(kindNames(wantStatic), ","); got != wantK {
		t.Errorf("static traps = [%s], want [%s]: %v\n%s", got, wantK, st, txt)
	} else if len(st) > 0 {
		t.Logf("SUSPECT naga (%s): emitted GLSL is statically ill-formed: %v", ver.String(), st[0])
	}
	bufs := xrt.Buffers{}
	slots := map[gb]xrt.Slot{}
	for at, data := range c.bufs {
		s, ok := slotOf(t, p, at)
		if !ok {
			continue // naga dropped an unused binding
		}
		slots[at] = s
		bufs[s] = append([]byte(nil), data...)
	}
	res, err := p.Run("main", bufs, xrt.Options{TrapMode: true, Dispatch: xrt.Dispatch{NumGroups: c.groups}})
	if c.unsup != "" {
		if err == nil || !strings.Contains(err.Error(), c.unsup) {
			t.Fatalf("Run error = %v, want Unsupported containing %q", err, c.unsup)
		}
		t.Logf("SUSPECT naga: %s (interpreter: %v)", c.trapWhy, err)
		return
	}
	if err != nil {
		t.Fatalf("Run: %v\n%s", err, txt)
	}
	if got, wantK := strings.Join(kindsOf(res.Traps), ","), strings.Join(kindNames(c.traps), ","); got != wantK {
		t.Errorf("dynamic traps = [%s], want [%s]: %v\n%s", got, wantK, res.Traps, txt)
	} else if len(res.Traps) > 0 {
		t.Logf("SUSPECT naga: %s; first trap: %v", c.trapWhy, res.Traps[0])
	}
	for _, w := range c.wants {
		s, ok := slots[w.at]
		if !ok {
			t.Errorf("no buffer for %v", w.at)
			continue
		}
		b := bufs[s]
		if 4*w.idx+4 > len(b) {
			t.Errorf("want index %d outside buffer %v", w.idx, w.at)
			continue
		}
		got := getU32(b, w.idx)
		okv := got == w.u
		desc := ""
		switch w.kind {
		case 'f':
			gf := math.Float32frombits(got)
			okv = gf == w.f || (gf != gf && w.f != w.f) || math.Abs(float64(gf-w.f)) <= 1e-6*math.Abs(float64(w.f))
			desc = fmt.Sprintf("got %v want %v", gf, w.f)
		case 'i':
			desc = fmt.Sprintf("got %d want %d", int32(got), int32(w.u))
		default:
			desc = fmt.Sprintf("got %#x want %#x", got, w.u)
		}
		if !okv {
			if w.suspect != "" {
				t.Logf("SUSPECT naga: %s: buffer %v[%d]: %s", w.suspect, w.at, w.idx, desc)
			} else {
				t.Errorf("buffer %v[%d]: %s\n%s", w.at, w.idx, desc, txt)
			}
		}
	}
	if res.Steps == 0 || len(res.Cov) == 0 {
		t.Errorf("no steps/coverage recorded")
	}
}

func TestSemantics(t *testing.T) {
	for _, c := range semCases {
		c := c
		t.Run(c.name, func(t *testing.T) {
			runSem(t, c, glsl.Version430, c.static)
			if c.es {
				st := c.static
				if c.esStatic != nil {
					st = c.esStatic
				}
				runSem(t, c, glsl.VersionES310, st)
			}
		})
	}
	if len(semCases) < 30 {
		t.Errorf("only %d semantic cases", len(semCases))
	}
}

const (
	hdrIO = `
@group(0) @binding(0) var<storage, read_write> o: array<i32>;
@group(0) @binding(1) var<storage, read> a: array<i32>;
@group(0) @binding(2) var<storage, read_write> uo: array<u32>;
@group(0) @binding(3) var<storage, read_write> fo: array<f32>;
@group(0) @binding(4) var<storage, read> fa: array<f32>;
`
)

var (
	O  = gb{0, 0}
	A  = gb{0, 1}
	UO = gb{0, 2}
	FO = gb{0, 3}
	FA = gb{0, 4}
)

func zeros(n int) []byte { return make([]byte, 4*n) }

const intMin = int32(-2147483648)

var semCases = []semCase{
	{
		name: "int_wrap",
		wgsl: hdrIO + `
@compute @workgroup_size(1) fn main() {
  o[0] = a[0] + a[1];
  o[1] = a[2] * a[3];
  o[2] = a[4] - a[1];
  o[3] = -a[4];
  uo[0] = u32(a[5]) + 2u;
  uo[1] = 0u - u32(a[1]);
  uo[2] = u32(a[6]) * u32(a[6]);
}`,
		bufs: map[gb][]byte{O: zeros(8), A: i32s(2147483647, 1, 65536, 65536, intMin, -1, 0x10001), UO: zeros(8)},
		wants: []want{
			wi(O, 0, intMin), wi(O, 1, 0), wi(O, 2, 2147483647), wi(O, 3, intMin),
			wu(UO, 0, 1), wu(UO, 1, 0xFFFFFFFF), wu(UO, 2, 0x00020001),
		},
		es: true,
	},
	{
		name: "div_mod_positive",
		wgsl: hdrIO + `
@compute @workgroup_size(1) fn main() {
  o[0] = a[0] / a[1];     // 17 / 5 = 3
  o[1] = a[0] % a[1];     // 17 % 5 = 2
  o[2] = a[2] / a[1];     // -17 / 5 = -3 (truncation)
  uo[0] = u32(a[3]) / 3u; // 0xFFFFFFFF / 3 = 0x55555555
  uo[1] = u32(a[3]) % 7u; // 4294967295 % 7 = 3
  let v = vec2<i32>(a[0], a[4]) / vec2<i32>(a[1], 2); // (3, 50)
  o[3] = v.x; o[4] = v.y;
}`,
		bufs:  map[gb][]byte{O: zeros(8), A: i32s(17, 5, -17, -1, 100), UO: zeros(4)},
		wants: []want{wi(O, 0, 3), wi(O, 1, 2), wi(O, 2, -3), wu(UO, 0, 0x55555555), wu(UO, 1, 3), wi(O, 3, 3), wi(O, 4, 50)},
		es:    true,
	},
	{
		name: "mod_negative",
		wgsl: hdrIO + `
@compute @workgroup_size(1) fn main() {
  o[0] = a[0] % a[1];  // -7 % 2 = -1 in WGSL
  o[1] = a[2] % a[3];  //  7 % -2 = 1 in WGSL
}`,
		bufs:    map[gb][]byte{O: zeros(4), A: i32s(-7, 2, 7, -2)},
		wants:   []want{wi(O, 0, -1), wi(O, 1, 1)},
		traps:   []xrt.TrapKind{xrt.TrapOther},
		trapWhy: "i32 % with a negative operand is emitted as GLSL '%', whose result is undefined for negative operands (GLSL 4.60 §5.9)",
	},
	{
		name: "div_mod_zero",
		wgsl: hdrIO + `
@compute @workgroup_size(1) fn main() {
  o[0] = a[0] / a[1];   // 9 / 0 = 9 in WGSL
  o[1] = a[0] % a[1];   // 9 % 0 = 0 in WGSL
  uo[0] = u32(a[0]) / u32(a[1]); // 9
  uo[1] = u32(a[0]) % u32(a[1]); // 0
  o[2] = a[2] / a[3];   // INT_MIN / -1 = INT_MIN in WGSL
}`,
		bufs: map[gb][]byte{O: zeros(4), A: i32s(9, 0, intMin, -1), UO: zeros(4)},
		wants: []want{
			wi(O, 0, 9).sus("x/0 must be x in WGSL; GLSL '/' by zero is undefined"),
			wi(O, 1, 0),
			wu(UO, 0, 9).sus("x/0 must be x in WGSL; GLSL '/' by zero is undefined"),
			wu(UO, 1, 0),
			wi(O, 2, intMin),
		},
		traps:   []xrt.TrapKind{xrt.TrapDivZero, xrt.TrapDivOvf},
		trapWhy: "integer / and % are emitted unguarded; division by zero and INT_MIN/-1 are undefined in GLSL",
	},
	{
		name: "shifts",
		wgsl: hdrIO + `
@compute @workgroup_size(1) fn main() {
  uo[0] = u32(a[0]) << u32(a[1]);  // 1 << 31
  uo[1] = u32(a[2]) >> u32(a[3]);  // 0x80000000 >> 4 = 0x08000000
  o[0] = a[2] >> u32(a[3]);        // arithmetic: 0xF8000000
  o[1] = a[4] << u32(a[3]);        // -3 << 4 = -48
  let v = vec2<u32>(1u, 3u) << vec2<u32>(u32(a[3]), u32(a[1])); // (16, 3<<31 = 0x80000000)
  uo[2] = v.x; uo[3] = v.y;
}`,
		bufs:  map[gb][]byte{O: zeros(4), A: i32s(1, 31, intMin, 4, -3), UO: zeros(4)},
		wants: []want{wu(UO, 0, 0x80000000), wu(UO, 1, 0x08000000), wu(O, 0, 0xF8000000), wi(O, 1, -48), wu(UO, 2, 16), wu(UO, 3, 0x80000000)},
		es:    true,
	},
	{
		name: "shift_out_of_range",
		wgsl: hdrIO + `
@compute @workgroup_size(1) fn main() {
  uo[0] = u32(a[0]) << u32(a[1]);  // WGSL: shift amount taken modulo 32: 1 << (33 % 32) = 2
}`,
		bufs:    map[gb][]byte{A: i32s(1, 33), UO: zeros(4)},
		wants:   []want{wu(UO, 0, 2)},
		traps:   []xrt.TrapKind{xrt.TrapShift},
		trapWhy: "shift amounts are not masked; a shift by >= 32 is undefined in GLSL",
	},
	{
		name: "bit_builtins",
		wgsl: hdrIO + `
@compute @workgroup_size(1) fn main() {
  for (var i = 0u; i < 4u; i++) {
    let x = u32(a[i]);
    uo[i] = countLeadingZeros(x);
    uo[4u + i] = countTrailingZeros(x);
    uo[8u + i] = firstLeadingBit(x);
    uo[12u + i] = firstTrailingBit(x);
    uo[16u + i] = countOneBits(x);
    uo[20u + i] = reverseBits(x);
    o[i] = firstLeadingBit(a[i]);
    o[4u + i] = countLeadingZeros(a[i]);
  }
}`,
		// inputs: 0, 1, 0x80000000 (INT_MIN), 0x00F0F000
		bufs: map[gb][]byte{O: zeros(8), A: i32s(0, 1, intMin, 0x00F0F000), UO: zeros(24)},
		wants: []want{
			wu(UO, 0, 32), wu(UO, 1, 31), wu(UO, 2, 0), wu(UO, 3, 8),
			wu(UO, 4, 32).sus("countTrailingZeros(0) must be 32"), wu(UO, 5, 0), wu(UO, 6, 31), wu(UO, 7, 12),
			wu(UO, 8, 0xFFFFFFFF), wu(UO, 9, 0), wu(UO, 10, 31), wu(UO, 11, 23),
			wu(UO, 12, 0xFFFFFFFF), wu(UO, 13, 0), wu(UO, 14, 31), wu(UO, 15, 12),
			wu(UO, 16, 0), wu(UO, 17, 1), wu(UO, 18, 1), wu(UO, 19, 8),
			wu(UO, 20, 0), wu(UO, 21, 0x80000000), wu(UO, 22, 1), wu(UO, 23, 0x000F0F00),
			// signed firstLeadingBit: 0 -> -1, 1 -> 0, INT_MIN (1000..0) -> most significant 0 bit = 30, 0x00F0F000 -> 23
			wi(O, 0, -1), wi(O, 1, 0), wi(O, 2, 30), wi(O, 3, 23),
			// signed countLeadingZeros: 0 -> 32, 1 -> 31, INT_MIN -> 0, 0x00F0F000 -> 8
			wi(O, 4, 32), wi(O, 5, 31), wi(O, 6, 0).sus("countLeadingZeros of a negative i32 must be 0"), wi(O, 7, 8),
		},
	},
	{
		name: "bit_builtins_es_types",
		wgsl: hdrIO + `
@compute @workgroup_size(1) fn main() {
  uo[0] = countLeadingZeros(u32(a[0]));    // 0x00F0F000 -> 8
  uo[1] = countTrailingZeros(u32(a[0]));   // 12
}`,
		bufs:     map[gb][]byte{A: i32s(0x00F0F000), UO: zeros(4)},
		wants:    []want{wu(UO, 0, 8), wu(UO, 1, 12)},
		es:       true,
		esStatic: []xrt.TrapKind{xrt.TrapType},
		esUnsup:  "ill-typed",
		trapWhy:  "countLeadingZeros/countTrailingZeros on u32 are emitted as int expressions ('31 - findMSB(x)', 'findLSB(x)') assigned to uint; GLSL ES has no implicit int->uint conversion",
	},
	{
		name: "extract_insert_bits",
		wgsl: hdrIO + `
@compute @workgroup_size(1) fn main() {
  let x = u32(a[0]);                       // 0xABCD1234
  uo[0] = extractBits(x, u32(a[1]), 8u);   // offset 4, count 8 -> 0x23
  uo[1] = extractBits(x, 28u, u32(a[2]));  // offset 28, count 8 -> clamped to 4 bits -> 0xA
  uo[2] = extractBits(x, u32(a[3]), 5u);   // offset 32 -> 0
  uo[3] = extractBits(x, 3u, 0u);          // 0
  o[0] = extractBits(a[4], 4u, 4u);        // 0xF0 -> field 0xF -> -1
  o[1] = extractBits(a[5], 4u, 4u);        // 0x70 -> 7
  o[2] = extractBits(a[6], 3u, 29u);       // -1 >> 3 signed 29 bits -> -1
  uo[4] = insertBits(0xFFFFFFFFu, 0u, u32(a[2]), 8u);     // 0xFFFF00FF
  uo[5] = insertBits(0u, 0xABCu, u32(a[1]), 8u);          // 0xBC0
  uo[6] = insertBits(0u, 3u, 30u, u32(a[2]));             // 0xC0000000
  uo[7] = insertBits(0x12345678u, 0xFFFFFFFFu, 0u, 32u);  // 0xFFFFFFFF
  uo[8] = extractBits(x, 0u, 32u);                        // x
}`,
		bufs: map[gb][]byte{O: zeros(4), A: i32s(int32(-0x5432EDCC), 4, 8, 32, 0xF0, 0x70, -1), UO: zeros(12)},
		wants: []want{
			wu(UO, 0, 0x23), wu(UO, 1, 0xA), wu(UO, 2, 0), wu(UO, 3, 0),
			wi(O, 0, -1), wi(O, 1, 7), wi(O, 2, -1),
			wu(UO, 4, 0xFFFF00FF), wu(UO, 5, 0xBC0), wu(UO, 6, 0xC0000000), wu(UO, 7, 0xFFFFFFFF), wu(UO, 8, 0xABCD1234),
		},
		es: true,
	},
	{
		name: "select_int_minmax",
		wgsl: hdrIO + `
@compute @workgroup_size(1) fn main() {
  o[0] = select(a[0], a[1], a[2] > 0);   // cond true -> a[1] = -5
  o[1] = select(a[0], a[1], a[2] < 0);   // false -> a[0] = 7
  o[2] = abs(a[1]);                      // 5
  o[3] = abs(a[3]);                      // abs(INT_MIN) = INT_MIN
  o[4] = min(a[0], a[1]);                // -5
  o[5] = max(a[0], a[1]);                // 7
  uo[0] = max(u32(a[1]), 3u);            // 0xFFFFFFFB
  uo[1] = min(u32(a[1]), 3u);            // 3
  o[6] = clamp(a[0], 0, 5);              // 5
  o[7] = clamp(a[1], -3, 3);             // -3
  uo[2] = clamp(u32(a[0]), 8u, 10u);     // 8
  o[8] = sign(a[1]); o[9] = sign(a[0]); o[10] = sign(a[4]);  // -1 1 0
}`,
		bufs: map[gb][]byte{O: zeros(16), A: i32s(7, -5, 1, intMin, 0), UO: zeros(4)},
		wants: []want{
			wi(O, 0, -5), wi(O, 1, 7), wi(O, 2, 5), wi(O, 3, intMin), wi(O, 4, -5), wi(O, 5, 7),
			wu(UO, 0, 0xFFFFFFFB), wu(UO, 1, 3), wi(O, 6, 5), wi(O, 7, -3), wu(UO, 2, 8),
			wi(O, 8, -1), wi(O, 9, 1), wi(O, 10, 0),
		},
		es: true,
	},
	{
		name: "vector_select",
		wgsl: hdrIO + `
@compute @workgroup_size(1) fn main() {
  let s = select(vec3<i32>(1, 2, 3), vec3<i32>(10, 20, 30), vec3<bool>(a[0] > 0, a[1] > 0, true)); // (10, 2, 30)
  o[0] = s.x; o[1] = s.y; o[2] = s.z;
  let f = select(vec2<f32>(1.0, 2.0), vec2<f32>(3.0, 4.0), vec2<bool>(a[1] > 0, a[0] > 0));        // (1, 4)
  fo[0] = f.x; fo[1] = f.y;
}`,
		bufs:    map[gb][]byte{O: zeros(4), A: i32s(7, -5), FO: zeros(4)},
		static:  []xrt.TrapKind{xrt.TrapType},
		unsup:   "ill-typed",
		trapWhy: "select() with a vector condition is emitted as 'bvec ? a : b'; the GLSL ?: operator requires a scalar bool condition (mix(a, b, cond) is the valid spelling)",
		es:      true,
	},
	{
		name: "clamp_low_above_high",
		wgsl: hdrIO + `
@compute @workgroup_size(1) fn main() {
  o[0] = clamp(a[0], a[1], a[2]);   // WGSL: min(max(3, 5), 1) = 1
}`,
		bufs:    map[gb][]byte{O: zeros(4), A: i32s(3, 5, 1)},
		wants:   []want{wi(O, 0, 1)},
		traps:   []xrt.TrapKind{xrt.TrapOther},
		trapWhy: "integer clamp(e, low, high) with low > high is well defined in WGSL but 'Results are undefined if minVal > maxVal' for GLSL clamp",
	},
	{
		name: "float_common",
		wgsl: hdrIO + `
@compute @workgroup_size(1) fn main() {
  fo[0] = abs(fa[0]);            // 1.5
  fo[1] = min(fa[0], fa[1]);     // -1.5
  fo[2] = max(fa[0], fa[1]);     // 2.25
  fo[3] = clamp(fa[1], 0.0, 1.0);// 1
  fo[4] = sign(fa[0]);           // -1
  fo[5] = floor(fa[0]);          // -2
  fo[6] = ceil(fa[0]);           // -1
  fo[7] = trunc(fa[2]);          // -1 (from -1.75)
  fo[8] = fract(fa[3]);          // -1.25 -> 0.75
  fo[9] = fract(fa[1]);          // 0.25
  fo[10] = round(fa[1]);         // 2
  fo[11] = round(fa[2]);         // -2
  fo[12] = saturate(fa[0]);      // 0
  fo[13] = fa[1] % fa[4];        // 2.25 % 0.5 = 0.25
  fo[14] = fa[2] % fa[4];        // -1.75 % 0.5 = -0.25 (truncated)
}`,
		bufs: map[gb][]byte{FO: zeros(16), FA: f32s(-1.5, 2.25, -1.75, -1.25, 0.5)},
		wants: []want{
			wf(FO, 0, 1.5), wf(FO, 1, -1.5), wf(FO, 2, 2.25), wf(FO, 3, 1), wf(FO, 4, -1), wf(FO, 5, -2), wf(FO, 6, -1),
			wf(FO, 7, -1), wf(FO, 8, 0.75), wf(FO, 9, 0.25), wf(FO, 10, 2), wf(FO, 11, -2), wf(FO, 12, 0), wf(FO, 13, 0.25), wf(FO, 14, -0.25),
		},
		es: true,
	},
	{
		name: "round_half",
		wgsl: hdrIO + `
@compute @workgroup_size(1) fn main() {
  fo[0] = round(fa[0]);   // WGSL: round(2.5) = 2 (ties to even)
}`,
		bufs:    map[gb][]byte{FO: zeros(4), FA: f32s(2.5)},
		unsup:   "round-half",
		trapWhy: "WGSL round() is ties-to-even but GLSL round() is emitted (direction of .5 is implementation-defined; roundEven() is the exact match)",
	},
	{
		name: "conversions",
		wgsl: hdrIO + `
@compute @workgroup_size(1) fn main() {
  o[0] = i32(fa[0]);        // 3.99 -> 3
  o[1] = i32(fa[1]);        // -3.99 -> -3
  uo[0] = u32(fa[0]);       // 3
  fo[0] = f32(a[0]);        // 16777217 -> 16777216
  fo[1] = f32(u32(a[1]));   // 0xFFFFFFFF -> 4294967296
  fo[2] = f32(a[1]);        // -1
  uo[1] = u32(a[1]);        // 0xFFFFFFFF
  o[2] = i32(u32(a[1]));    // -1
  uo[2] = u32(a[2] > 0);    // 1
  fo[3] = f32(a[2] > 5);    // 0
  uo[3] = u32(bool(a[2]));  // 1
  uo[4] = u32(bool(fa[2])); // 0.0 -> false -> 0
  let v = vec3<i32>(vec3<f32>(fa[0], fa[1], 7.5)); // (3,-3,7)
  o[3] = v.x + v.y + v.z;   // 7
  let w = vec2<f32>(vec2<u32>(3u, 4u));
  fo[4] = w.x * w.y;        // 12
}`,
		bufs: map[gb][]byte{O: zeros(4), A: i32s(16777217, -1, 3), UO: zeros(8), FO: zeros(8), FA: f32s(3.99, -3.99, 0)},
		wants: []want{
			wi(O, 0, 3), wi(O, 1, -3), wu(UO, 0, 3), wf(FO, 0, 16777216), wf(FO, 1, 4294967296), wf(FO, 2, -1),
			wu(UO, 1, 0xFFFFFFFF), wi(O, 2, -1), wu(UO, 2, 1), wf(FO, 3, 0), wu(UO, 3, 1), wu(UO, 4, 0), wi(O, 3, 7), wf(FO, 4, 12),
		},
		es: true,
	},
	{
		name: "float_to_int_out_of_range",
		wgsl: hdrIO + `
@compute @workgroup_size(1) fn main() {
  o[0] = i32(fa[0]);     // 1e10 -> 2147483520 (WGSL clamps to the representable range)
  o[1] = i32(fa[1]);     // -1e10 -> -2147483648
  uo[0] = u32(fa[1]);    // negative -> 0
  uo[1] = u32(fa[2]);    // 5e9 -> 4294967040
}`,
		bufs: map[gb][]byte{O: zeros(4), UO: zeros(4), FA: f32s(1e10, -1e10, 5e9)},
		wants: []want{
			wi(O, 0, 2147483520).sus("f32->i32 out of range must clamp"), wi(O, 1, intMin),
			wu(UO, 0, 0), wu(UO, 1, 4294967040).sus("f32->u32 out of range must clamp"),
		},
		traps:   []xrt.TrapKind{xrt.TrapF2I},
		trapWhy: "float->int conversions are emitted as plain int()/uint() constructors; out-of-range and negative-to-uint conversions are undefined in GLSL",
	},
	{
		name: "bitcast",
		wgsl: hdrIO + `
@compute @workgroup_size(1) fn main() {
  uo[0] = bitcast<u32>(fa[0]);   // 1.0 -> 0x3F800000
  fo[0] = bitcast<f32>(a[0]);    // 0x40490FDB -> pi
  o[0] = bitcast<i32>(uo[4]);    // 0xFFFFFFFF -> -1
  let v = bitcast<vec2<u32>>(vec2<f32>(fa[0], fa[1]));
  uo[1] = v.x; uo[2] = v.y;      // 0x3F800000 0xC0000000
  fo[1] = bitcast<f32>(a[1]);    // NaN payload must survive a move
  uo[3] = bitcast<u32>(fo[1]);
}`,
		bufs: map[gb][]byte{O: zeros(4), A: i32s(0x40490FDB, 0x7FC01234), UO: u32s(0, 0, 0, 0, 0xFFFFFFFF), FO: zeros(4), FA: f32s(1, -2)},
		wants: []want{
			wu(UO, 0, 0x3F800000), wu(FO, 0, 0x40490FDB), wi(O, 0, -1), wu(UO, 1, 0x3F800000), wu(UO, 2, 0xC0000000), wu(UO, 3, 0x7FC01234),
		},
		es: true,
	},
	{
		name: "vectors_swizzles",
		wgsl: hdrIO + `
@compute @workgroup_size(1) fn main() {
  var v = vec4<f32>(fa[0], fa[1], fa[2], fa[3]);   // (1,2,3,4)
  let r = v.wzyx;                                  // (4,3,2,1)
  fo[0] = r.x; fo[1] = r.y; fo[2] = r.z; fo[3] = r.w;
  let s = v.xy + v.zw;                             // (4,6)
  fo[4] = s.x; fo[5] = s.y;
  v.y = 9.0;
  v[2] = 8.0;
  fo[6] = v.x + v.y + v.z + v.w;                   // 1+9+8+4 = 22
  let a3 = vec3<f32>(1.0, 2.0, 3.0);
  let b3 = vec3<f32>(4.0, 5.0, 6.0);
  fo[7] = dot(a3, b3);                             // 32
  let c = cross(vec3<f32>(1.0, 0.0, 0.0), vec3<f32>(0.0, fa[0], 0.0)); // (0,0,1)
  fo[8] = c.x; fo[9] = c.y; fo[10] = c.z;
  fo[11] = length(vec2<f32>(fa[2], fa[3]));        // 5
  let n = normalize(vec2<f32>(fa[2], fa[3]));      // (0.6, 0.8)
  fo[12] = n.x; fo[13] = n.y;
  let m = a3 * b3 - vec3<f32>(2.0);                // (2, 8, 16)
  fo[14] = m.z;
  fo[15] = (a3 * 2.0).y + (3.0 * b3).x;            // 4 + 12 = 16
  let iv = vec3<i32>(1, 2, 3) * 2 + vec3<i32>(a[0]); // (2,4,6)+5 = (7,9,11)
  o[0] = iv.x + iv.y + iv.z;                       // 27
  let idx = a[1];
  o[1] = iv[idx];                                  // iv[2] = 11
  fo[16] = distance(vec2<f32>(0.0, 0.0), vec2<f32>(fa[2], fa[3])); // 5
}`,
		bufs: map[gb][]byte{O: zeros(4), A: i32s(5, 2), FO: zeros(20), FA: f32s(1, 2, 3, 4)},
		wants: []want{
			wf(FO, 0, 4), wf(FO, 1, 3), wf(FO, 2, 2), wf(FO, 3, 1), wf(FO, 4, 4), wf(FO, 5, 6), wf(FO, 6, 22), wf(FO, 7, 32),
			wf(FO, 8, 0), wf(FO, 9, 0), wf(FO, 10, 1), wf(FO, 11, 5), wf(FO, 12, float32(3)/float32(5)), wf(FO, 13, float32(4)/float32(5)),
			wf(FO, 14, 16), wf(FO, 15, 16), wi(O, 0, 27), wi(O, 1, 11), wf(FO, 16, 5),
		},
		es: true,
	},
	{
		name: "matrices",
		wgsl: hdrIO + `
@compute @workgroup_size(1) fn main() {
  let m2 = mat2x2<f32>(vec2<f32>(fa[0], fa[1]), vec2<f32>(fa[2], fa[3]));  // columns (1,2) (3,4)
  let r2 = m2 * vec2<f32>(5.0, 6.0);           // (1*5+3*6, 2*5+4*6) = (23, 34)
  fo[0] = r2.x; fo[1] = r2.y;
  let l2 = vec2<f32>(5.0, 6.0) * m2;           // (dot((5,6),(1,2)), dot((5,6),(3,4))) = (17, 39)
  fo[2] = l2.x; fo[3] = l2.y;
  let m3 = mat3x3<f32>(vec3<f32>(1.0, 0.0, 0.0), vec3<f32>(0.0, 2.0, 0.0), vec3<f32>(fa[0], fa[1], 3.0));
  let r3 = m3 * vec3<f32>(1.0, 1.0, 2.0);      // (1+2, 2+4, 6) = (3, 6, 6)
  fo[4] = r3.x; fo[5] = r3.y; fo[6] = r3.z;
  let m43 = mat4x3<f32>(vec3<f32>(1.0, 2.0, 3.0), vec3<f32>(4.0, 5.0, 6.0), vec3<f32>(7.0, 8.0, 9.0), vec3<f32>(fa[0], fa[0], fa[0]));
  let r43 = m43 * vec4<f32>(1.0, 0.0, 2.0, 10.0);  // c0 + 2*c2 + 10*c3 = (1+14+10, 2+16+10, 3+18+10) = (25, 28, 31)
  fo[7] = r43.x; fo[8] = r43.y; fo[9] = r43.z;
  let l43 = vec3<f32>(1.0, 1.0, 1.0) * m43;   // (6, 15, 24, 3)
  fo[10] = l43.x; fo[11] = l43.y; fo[12] = l43.z; fo[13] = l43.w;
  let t = transpose(mat2x3<f32>(vec3<f32>(1.0, 2.0, 3.0), vec3<f32>(4.0, 5.0, fa[3]))); // mat3x2 columns (1,4) (2,5) (3,4)
  fo[14] = t[0].y; fo[15] = t[2].x; fo[16] = t[2].y;   // 4 3 4
  let p = m2 * mat2x2<f32>(vec2<f32>(5.0, 6.0), vec2<f32>(7.0, 8.0)); // columns (23,34) (31,46)
  fo[17] = p[0].x; fo[18] = p[0].y; fo[19] = p[1].x; fo[20] = p[1].y;
  fo[21] = determinant(m2);                    // 1*4 - 3*2 = -2
  let sc = m2 * fa[1] + m2;                    // 3*m2
  fo[22] = sc[1].y;                            // 12
  var mv = m3;
  mv[1] = vec3<f32>(9.0, 8.0, 7.0);
  mv[2][0] = 5.0;
  let j = a[0];
  fo[23] = mv[j].z + mv[2].x;                  // mv[1].z + 5 = 12
}`,
		bufs: map[gb][]byte{A: i32s(1), FO: zeros(24), FA: f32s(1, 2, 3, 4)},
		wants: []want{
			wf(FO, 0, 23), wf(FO, 1, 34), wf(FO, 2, 17), wf(FO, 3, 39), wf(FO, 4, 3), wf(FO, 5, 6), wf(FO, 6, 6),
			wf(FO, 7, 25), wf(FO, 8, 28), wf(FO, 9, 31), wf(FO, 10, 6), wf(FO, 11, 15), wf(FO, 12, 24), wf(FO, 13, 3),
			wf(FO, 14, 4), wf(FO, 15, 3), wf(FO, 16, 4), wf(FO, 17, 23), wf(FO, 18, 34), wf(FO, 19, 31), wf(FO, 20, 46),
			wf(FO, 21, -2), wf(FO, 22, 12), wf(FO, 23, 12),
		},
		es: true,
	},
	{
		name: "matrix_times_abstract_float",
		wgsl: hdrIO + `
@compute @workgroup_size(1) fn main() {
  let m2 = mat2x2<f32>(vec2<f32>(fa[0], fa[1]), vec2<f32>(fa[2], fa[3]));
  let sc = m2 * 2.0;       // abstract-float literal must become an f32
  fo[0] = sc[1].y;         // 8
}`,
		bufs:     map[gb][]byte{FO: zeros(4), FA: f32s(1, 2, 3, 4)},
		parseErr: "double literal 2.0LF",
		trapWhy:  "matrix * abstract-float literal is emitted with a double literal (2.0LF): mat2x2 * double is a dmat2x2, which cannot initialise a mat2x2 (and doubles need GLSL 4.00 / are absent from ES)",
	},
	{
		name: "struct_layout_vec3_scalar",
		wgsl: `
struct S { a: vec3<f32>, b: f32, c: vec2<f32>, d: u32 }
@group(0) @binding(0) var<storage, read_write> o: array<f32>;
@group(0) @binding(1) var<storage, read> s: S;
@group(0) @binding(2) var<storage, read_write> w: S;
@compute @workgroup_size(1) fn main() {
  o[0] = s.a.x; o[1] = s.a.y; o[2] = s.a.z; o[3] = s.b; o[4] = s.c.x; o[5] = s.c.y; o[6] = f32(s.d);
  w.a = vec3<f32>(10.0, 11.0, 12.0);
  w.b = 13.0;
  w.c = s.c * 2.0;
  w.d = s.d + 1u;
}`,
		// S: a @0 (12 bytes), b @12, c @16, d @24, size 32
		bufs: map[gb][]byte{{0, 0}: zeros(8), {0, 1}: append(f32s(1, 2, 3, 4, 5, 6), u32s(7, 0xDEAD)...), {0, 2}: u32s(0xAA, 0xAA, 0xAA, 0xAA, 0xAA, 0xAA, 0xAA, 0xAA)},
		wants: []want{
			wf(gb{0, 0}, 0, 1), wf(gb{0, 0}, 1, 2), wf(gb{0, 0}, 2, 3), wf(gb{0, 0}, 3, 4), wf(gb{0, 0}, 4, 5), wf(gb{0, 0}, 5, 6), wf(gb{0, 0}, 6, 7),
			wf(gb{0, 2}, 0, 10), wf(gb{0, 2}, 1, 11), wf(gb{0, 2}, 2, 12), wf(gb{0, 2}, 3, 13), wf(gb{0, 2}, 4, 10), wf(gb{0, 2}, 5, 12), wu(gb{0, 2}, 6, 8), wu(gb{0, 2}, 7, 0xAA),
		},
		es: true,
	},
	{
		name: "mat3x3_in_storage_struct",
		wgsl: `
struct M { m: mat3x3<f32>, s: f32 }
@group(0) @binding(0) var<storage, read_write> o: array<f32>;
@group(0) @binding(1) var<storage, read_write> d: M;
@compute @workgroup_size(1) fn main() {
  o[0] = d.m[1][2];          // column 1 at byte 16, row 2 -> float index 6
  o[1] = d.s;                // byte 48 -> float index 12
  let c = d.m * vec3<f32>(1.0, 1.0, 1.0);   // sum of columns
  o[2] = c.x; o[3] = c.y; o[4] = c.z;
  d.m[2] = vec3<f32>(100.0, 101.0, 102.0);  // bytes 32..44, float index 8,9,10 ; 11 untouched
  d.m[0][1] = 55.0;                         // float index 1
  let whole = d.m;
  o[5] = whole[2].y + whole[0].y;           // 101 + 55
}`,
		// floats 0..15: column0 = (0,1,2) pad 3, column1 = (4,5,6) pad 7, column2 = (8,9,10) pad 11, s = 12
		bufs: map[gb][]byte{{0, 0}: zeros(8), {0, 1}: f32s(0, 1, 2, 3, 4, 5, 6, 7, 8, 9, 10, 11, 12, 13, 14, 15)},
		wants: []want{
			wf(gb{0, 0}, 0, 6), wf(gb{0, 0}, 1, 12), wf(gb{0, 0}, 2, 12), wf(gb{0, 0}, 3, 15), wf(gb{0, 0}, 4, 18),
			wf(gb{0, 1}, 8, 100), wf(gb{0, 1}, 9, 101), wf(gb{0, 1}, 10, 102), wf(gb{0, 1}, 11, 11), wf(gb{0, 1}, 1, 55), wf(gb{0, 1}, 3, 3),
			wf(gb{0, 0}, 5, 156),
		},
		es: true,
	},
	{
		name: "array_of_vec3",
		wgsl: `
@group(0) @binding(0) var<storage, read_write> o: array<vec3<f32>>;
@group(0) @binding(1) var<storage, read> i: array<vec3<f32>, 3>;
@compute @workgroup_size(1) fn main() {
  for (var k = 0u; k < arrayLength(&o); k++) {
    o[k] = i[k] * 2.0;     // stride 16; the padding word must stay untouched
  }
}`,
		bufs: map[gb][]byte{{0, 0}: f32s(-1, -1, -1, -1, -1, -1, -1, -1, -1, -1, -1, -1), {0, 1}: f32s(1, 2, 3, 99, 4, 5, 6, 99, 7, 8, 9, 99)},
		wants: []want{
			wf(gb{0, 0}, 0, 2), wf(gb{0, 0}, 1, 4), wf(gb{0, 0}, 2, 6), wf(gb{0, 0}, 3, -1),
			wf(gb{0, 0}, 4, 8), wf(gb{0, 0}, 6, 12), wf(gb{0, 0}, 7, -1), wf(gb{0, 0}, 8, 14), wf(gb{0, 0}, 10, 18), wf(gb{0, 0}, 11, -1),
		},
		es: true,
	},
	{
		name: "nested_structs",
		wgsl: `
struct Inner { x: u32, v: vec2<f32> }
struct Outer { a: f32, inner: array<Inner, 2>, z: u32 }
@group(0) @binding(0) var<storage, read_write> o: array<f32>;
@group(0) @binding(1) var<storage, read_write> d: Outer;
@compute @workgroup_size(1) fn main() {
  // Inner: x @0, v @8, size 16. Outer: a @0, inner @8 (stride 16), z @40, size 48
  o[0] = d.a; o[1] = f32(d.inner[0].x); o[2] = d.inner[0].v.y; o[3] = f32(d.inner[1].x); o[4] = d.inner[1].v.x; o[5] = f32(d.z);
  var t = d.inner[1];
  t.x = t.x + 100u;
  t.v = t.v.yx;
  d.inner[0] = t;
  d.z = 77u;
}`,
		// words: 0:a 1:pad 2:i0.x 3:pad 4:i0.v.x 5:i0.v.y 6:i1.x 7:pad 8:i1.v.x 9:i1.v.y 10:z 11:pad
		bufs: map[gb][]byte{{0, 0}: zeros(8), {0, 1}: append(append(append(f32s(1.5), u32s(0xEE, 5, 0xEE)...), f32s(2.5, 3.5)...), append(u32s(6, 0xEE), append(f32s(4.5, 5.5), u32s(9, 0xEE)...)...)...)},
		wants: []want{
			wf(gb{0, 0}, 0, 1.5), wf(gb{0, 0}, 1, 5), wf(gb{0, 0}, 2, 3.5), wf(gb{0, 0}, 3, 6), wf(gb{0, 0}, 4, 4.5), wf(gb{0, 0}, 5, 9),
			wu(gb{0, 1}, 2, 106), wu(gb{0, 1}, 3, 0xEE), wf(gb{0, 1}, 4, 5.5), wf(gb{0, 1}, 5, 4.5), wu(gb{0, 1}, 10, 77), wu(gb{0, 1}, 1, 0xEE),
		},
		es: true,
	},
	{
		name: "uniform_buffer",
		wgsl: `
struct P { scale: f32, offset: vec3<f32>, n: u32, arr: array<vec4<f32>, 2>, m: mat2x2<f32> }
@group(0) @binding(0) var<storage, read_write> o: array<f32>;
@group(0) @binding(1) var<uniform> p: P;
@compute @workgroup_size(1) fn main() {
  // scale @0, offset @16, n @28, arr @32 (stride 16), m @64 (std140: column stride 16; WGSL: column stride 8!)
  o[0] = p.scale; o[1] = p.offset.z; o[2] = f32(p.n); o[3] = p.arr[1].w; o[4] = p.arr[0].x;
}`,
		bufs:  map[gb][]byte{{0, 0}: zeros(8), {0, 1}: append(append(f32s(2, 0, 0, 0, 10, 11, 12), u32s(3)...), f32s(20, 21, 22, 23, 24, 25, 26, 27, 1, 2, 3, 4, 0, 0, 0, 0)...)},
		wants: []want{wf(gb{0, 0}, 0, 2), wf(gb{0, 0}, 1, 12), wf(gb{0, 0}, 2, 3), wf(gb{0, 0}, 3, 27), wf(gb{0, 0}, 4, 20)},
		es:    true,
	},
	{
		name: "uniform_mat2x2_layout",
		wgsl: `
struct P { m: mat2x2<f32>, after: f32 }
@group(0) @binding(0) var<storage, read_write> o: array<f32>;
@group(0) @binding(1) var<uniform> p: P;
@compute @workgroup_size(1) fn main() {
  // WGSL uniform layout: m columns at 0 and 8, after @16.
  o[0] = p.m[1].x;   // WGSL: float index 2
  o[1] = p.after;    // WGSL: float index 4
}`,
		bufs: map[gb][]byte{{0, 0}: zeros(4), {0, 1}: f32s(0, 1, 2, 3, 4, 5, 6, 7, 8, 9, 10, 11)},
		wants: []want{
			wf(gb{0, 0}, 0, 2).sus("mat2x2 in a uniform block: WGSL column stride is 8 but std140 column stride is 16"),
			wf(gb{0, 0}, 1, 4).sus("member after mat2x2 in a uniform block: WGSL offset 16, std140 offset 32"),
		},
	},
	{
		name: "runtime_array_length",
		wgsl: `
struct R { count: u32, data: array<vec2<f32>> }
@group(0) @binding(0) var<storage, read_write> o: array<u32>;
@group(0) @binding(1) var<storage, read_write> r: R;
@compute @workgroup_size(1) fn main() {
  o[0] = arrayLength(&o);        // 40 bytes -> 10
  o[1] = arrayLength(&r.data);   // (48 - 8) / 8 = 5
  o[arrayLength(&o) - 1u] = r.count;
  r.data[arrayLength(&r.data) - 1u] = vec2<f32>(1.0, 2.0);
}`,
		bufs:  map[gb][]byte{{0, 0}: zeros(10), {0, 1}: u32s(42, 0, 0, 0, 0, 0, 0, 0, 0, 0, 0, 0)},
		wants: []want{wu(gb{0, 0}, 0, 10), wu(gb{0, 0}, 1, 5), wu(gb{0, 0}, 9, 42), wf(gb{0, 1}, 10, 1), wf(gb{0, 1}, 11, 2)},
		es:    true,
	},
	{
		name: "loops_continuing_breakif",
		wgsl: hdrIO + `
@compute @workgroup_size(1) fn main() {
  var i = 0u; var s = 0u;
  loop {
    if i >= 10u { break; }
    if (i & 1u) == 1u { continue; }
    s += i;
    continuing { i += 1u; }
  }
  uo[0] = s;          // 0+2+4+6+8 = 20
  uo[1] = i;          // 10
  var j = 0u; var s2 = 0u;
  loop {
    s2 += j;
    continuing { j += 1u; break if j == 5u; }
  }
  uo[2] = s2;         // 0+1+2+3+4 = 10
  var k = 0; var n = 0;
  while k < 100 { k = k * 2 + 1; n++; }   // 1,3,7,15,31,63,127 -> n = 7
  o[0] = n; o[1] = k;
  var t = 0;
  for (var x = 0; x < 4; x++) { for (var y = 0; y < 4; y++) { if y > x { break; } t += 1; } }  // 1+2+3+4 = 10
  o[2] = t;
}`,
		bufs:  map[gb][]byte{O: zeros(4), UO: zeros(4)},
		wants: []want{wu(UO, 0, 20), wu(UO, 1, 10), wu(UO, 2, 10), wi(O, 0, 7), wi(O, 1, 127), wi(O, 2, 10)},
		es:    true,
	},
	{
		name: "switch_default_middle",
		wgsl: hdrIO + `
fn f(x: i32) -> i32 {
  switch x {
    case 1: { return 10; }
    default: { return 99; }
    case 2, 3: { return 23; }
  }
}
fn g(x: u32) -> u32 {
  var r = 0u;
  switch x {
    case 0u: { r = 5u; }
    case 1u, 2u: { r = 6u; }
    default: { r = 7u; }
  }
  return r + 1u;
}
@compute @workgroup_size(1) fn main() {
  o[0] = f(a[0]); o[1] = f(a[1]); o[2] = f(a[2]); o[3] = f(a[3]);
  uo[0] = g(0u); uo[1] = g(u32(a[1])); uo[2] = g(9u);
}`,
		bufs:  map[gb][]byte{O: zeros(4), A: i32s(1, 2, 3, 7), UO: zeros(4)},
		wants: []want{wi(O, 0, 10), wi(O, 1, 23), wi(O, 2, 23), wi(O, 3, 99), wu(UO, 0, 6), wu(UO, 1, 7), wu(UO, 2, 8)},
		es:    true,
	},
	{
		name: "continue_in_switch_in_loop",
		wgsl: hdrIO + `
@compute @workgroup_size(1) fn main() {
  var acc = 0;
  for (var i = 0; i < 6; i++) {
    switch i {
      case 2: { continue; }
      case 4: { break; }
      default: { acc += 10; }
    }
    acc += 1;
  }
  o[0] = acc;   // i=0:11 1:22 2:skip 3:33 4:34 5:45
}`,
		bufs:  map[gb][]byte{O: zeros(4)},
		wants: []want{wi(O, 0, 45)},
		es:    true,
	},
	{
		name: "continue_in_default_only_switch",
		wgsl: hdrIO + `
@compute @workgroup_size(1) fn main() {
  var acc = 0;
  for (var i = 0; i < 4; i++) {
    switch i { default: { if i == 1 { continue; } acc += 10; } }
    acc += 1;
  }
  o[0] = acc;    // i=0: 11, i=1: continue, i=2: 22, i=3: 33
  var n = 0;
  var j = 0;
  loop {
    if j >= 5 { break; }
    switch j {
      case 3: { j += 2; continue; }    // continuing still runs: j = 6
      default: { n += 1; }
    }
    continuing { j += 1; }
  }
  o[1] = n; o[2] = j;   // j: 0,1,2 counted (n=3), 3 -> 5 -> continuing 6 -> break
}`,
		bufs:  map[gb][]byte{O: zeros(4)},
		wants: []want{wi(O, 0, 33), wi(O, 1, 3), wi(O, 2, 6)},
		es:    true,
	},
	{
		name: "array_return_and_compare",
		wgsl: hdrIO + `
fn mk(b: i32) -> array<i32, 3> { return array<i32, 3>(b, b + 1, b + 2); }
fn rev(x: array<i32, 3>) -> array<i32, 3> { return array<i32, 3>(x[2], x[1], x[0]); }
struct W { v: array<vec2<i32>, 2>, k: i32 }
fn mw(k: i32) -> W { return W(array<vec2<i32>, 2>(vec2<i32>(k), vec2<i32>(k, -k)), k * 2); }
@compute @workgroup_size(1) fn main() {
  let r = rev(mk(a[0]));          // (7, 6, 5)
  o[0] = r[0] * 100 + r[1] * 10 + r[2];   // 765
  var w = mw(3);
  w.v[1].x += 10;
  o[1] = w.v[0].y + w.v[1].x + w.v[1].y + w.k;  // 3 + 13 - 3 + 6 = 19
  let idx = a[1];
  o[2] = mk(10)[idx];             // 11
}`,
		bufs:  map[gb][]byte{O: zeros(4), A: i32s(5, 1)},
		wants: []want{wi(O, 0, 765), wi(O, 1, 19), wi(O, 2, 11)},
		es:    true,
	},
	{
		name: "early_return_in_loop",
		wgsl: hdrIO + `
fn find(x: i32) -> i32 {
  for (var i = 0; i < 5; i++) {
    if a[i] >= x { return i; }
  }
  return -1;
}
@compute @workgroup_size(1) fn main() {
  o[0] = find(4); o[1] = find(100); o[2] = find(-5);
}`,
		bufs:  map[gb][]byte{O: zeros(4), A: i32s(1, 3, 5, 7, 9)},
		wants: []want{wi(O, 0, 2), wi(O, 1, -1), wi(O, 2, 0)},
		es:    true,
	},
	{
		name: "pointer_params",
		wgsl: hdrIO + `
fn inc(p: ptr<function, i32>, by: i32) -> i32 { let old = *p; *p += by; return old; }
fn swap(x: ptr<function, i32>, y: ptr<function, i32>) { let t = *x; *x = *y; *y = t; }
fn setv(v: ptr<function, vec3<f32>>) { (*v).y = 7.0; }
fn sum(arr: ptr<function, array<i32, 3>>) -> i32 { (*arr)[1] = 50; return (*arr)[0] + (*arr)[1] + (*arr)[2]; }
@compute @workgroup_size(1) fn main() {
  var a0 = a[0]; var a1 = a[1];
  let old = inc(&a0, 10);      // a0 = 13, old = 3
  swap(&a0, &a1);              // a0 = 4, a1 = 13
  o[0] = old; o[1] = a0; o[2] = a1;
  var v = vec3<f32>(1.0, 2.0, 3.0);
  setv(&v);
  fo[0] = v.x + v.y + v.z;     // 11
  var arr = array<i32, 3>(1, 2, 3);
  o[3] = sum(&arr);            // 54
  o[4] = arr[1];               // 50
}`,
		bufs:  map[gb][]byte{O: zeros(8), A: i32s(3, 4), FO: zeros(4)},
		wants: []want{wi(O, 0, 3), wi(O, 1, 4), wi(O, 2, 13), wf(FO, 0, 11), wi(O, 3, 54), wi(O, 4, 50)},
		es:    true,
	},
	{
		name: "private_and_workgroup_vars",
		wgsl: `
@group(0) @binding(0) var<storage, read_write> o: array<i32>;
var<private> counter: i32 = 5;
var<private> pv: vec2<f32>;
var<workgroup> total: array<i32, 2>;
fn bump() { counter += 1; }
@compute @workgroup_size(2) fn main(@builtin(local_invocation_index) li: u32) {
  for (var k = 0u; k <= li; k++) { bump(); }
  o[li] = counter;             // 6, 7 (private: one copy per invocation)
  total[li] = counter * 10;
  workgroupBarrier();
  o[2u + li] = total[1u - li]; // 70, 60
  o[4u + li] = i32(pv.x);      // zero-initialised
}`,
		bufs:  map[gb][]byte{{0, 0}: u32s(9, 9, 9, 9, 9, 9)},
		wants: []want{wi(gb{0, 0}, 0, 6), wi(gb{0, 0}, 1, 7), wi(gb{0, 0}, 2, 70), wi(gb{0, 0}, 3, 60), wi(gb{0, 0}, 4, 0), wi(gb{0, 0}, 5, 0)},
		es:    true,
	},
	{
		name: "atomics",
		wgsl: `
struct A { add: atomic<u32>, mx: atomic<i32>, mn: atomic<i32>, ex: atomic<u32>, cas: atomic<u32>, bits: atomic<u32>, sub: atomic<i32> }
@group(0) @binding(0) var<storage, read_write> o: array<u32>;
@group(0) @binding(1) var<storage, read_write> s: A;
var<workgroup> wa: atomic<u32>;
@compute @workgroup_size(4) fn main(@builtin(local_invocation_index) li: u32) {
  atomicAdd(&s.add, li + 1u);                 // 1+2+3+4 = 10
  atomicMax(&s.mx, i32(li) - 2);              // max(-100, -2..1) = 1
  atomicMin(&s.mn, i32(li) - 2);              // min(100, -2..1) = -2
  o[li] = atomicExchange(&s.ex, li);          // invocations run in order: 77, 0, 1, 2
  let r = atomicCompareExchangeWeak(&s.cas, 10u, 20u + li);
  o[4u + li] = r.old_value;                   // 10, 20, 20, 20
  o[8u + li] = u32(r.exchanged);              // 1, 0, 0, 0
  atomicOr(&s.bits, 1u << li);                // 0xF
  atomicXor(&s.bits, 0x100u);                 // toggled 4 times -> unchanged
  atomicAnd(&s.bits, 0xFFFFFFFEu | li);       // inv 0 clears bit 0; bit 0 stays cleared only if no later invocation... (and with x|li where li odd keeps bit0) -> bit 0 cleared by inv0 and inv2
  atomicSub(&s.sub, 3);                       // 50 - 12 = 38
  atomicAdd(&wa, 2u);
  workgroupBarrier();
  if li == 0u { o[12] = atomicLoad(&wa); atomicStore(&s.add, atomicLoad(&s.add) + 100u); }  // 8 ; 110
}`,
		bufs: map[gb][]byte{{0, 0}: zeros(16), {0, 1}: append(u32s(0), append(i32s(-100, 100), append(u32s(77, 10, 0), i32s(50)...)...)...)},
		wants: []want{
			wu(gb{0, 1}, 0, 110), wi(gb{0, 1}, 1, 1), wi(gb{0, 1}, 2, -2), wu(gb{0, 1}, 3, 3), wu(gb{0, 1}, 4, 20), wu(gb{0, 1}, 5, 0xE), wi(gb{0, 1}, 6, 38),
			wu(gb{0, 0}, 0, 77), wu(gb{0, 0}, 1, 0), wu(gb{0, 0}, 2, 1), wu(gb{0, 0}, 3, 2),
			wu(gb{0, 0}, 4, 10), wu(gb{0, 0}, 5, 20), wu(gb{0, 0}, 6, 20), wu(gb{0, 0}, 7, 20),
			wu(gb{0, 0}, 8, 1), wu(gb{0, 0}, 9, 0), wu(gb{0, 0}, 10, 0), wu(gb{0, 0}, 11, 0), wu(gb{0, 0}, 12, 8),
		},
		es: true,
	},
	{
		name: "barriers_wg4",
		wgsl: `
@group(0) @binding(0) var<storage, read_write> o: array<u32>;
var<workgroup> w: array<u32, 4>;
@compute @workgroup_size(4) fn main(@builtin(local_invocation_id) lid: vec3<u32>, @builtin(workgroup_id) wg: vec3<u32>) {
  w[lid.x] = lid.x * 10u + wg.x * 100u;
  workgroupBarrier();
  let nb = w[(lid.x + 1u) % 4u];
  workgroupBarrier();
  w[lid.x] = nb + 1u;
  workgroupBarrier();
  o[wg.x * 4u + lid.x] = w[3u - lid.x];
}`,
		bufs:   map[gb][]byte{{0, 0}: zeros(8)},
		groups: [3]uint32{2, 1, 1},
		// group 0: w = 0,10,20,30 -> nb = 10,20,30,0 -> w = 11,21,31,1 -> o = 1,31,21,11 ; group 1: +100
		wants: []want{
			wu(gb{0, 0}, 0, 1), wu(gb{0, 0}, 1, 31), wu(gb{0, 0}, 2, 21), wu(gb{0, 0}, 3, 11),
			wu(gb{0, 0}, 4, 101), wu(gb{0, 0}, 5, 131), wu(gb{0, 0}, 6, 121), wu(gb{0, 0}, 7, 111),
		},
		es: true,
	},
	{
		name: "pack_unpack",
		wgsl: hdrIO + `
@compute @workgroup_size(1) fn main() {
  uo[0] = pack4x8unorm(vec4<f32>(fa[0], fa[1], fa[2], fa[3]));   // 0, 1, 0.2, 2.0(clamped) -> 0x00, 0xFF, 0x33, 0xFF
  uo[1] = pack4x8snorm(vec4<f32>(fa[0], fa[1], fa[4], fa[5]));   // 0, 1, -1, -3 -> 0x00 0x7F 0x81 0x81
  uo[2] = pack2x16unorm(vec2<f32>(fa[1], fa[0]));                // 0x0000FFFF
  uo[3] = pack2x16snorm(vec2<f32>(fa[4], fa[1]));                // -1 -> 0x8001, 1 -> 0x7FFF
  uo[4] = pack2x16float(vec2<f32>(fa[1], fa[6]));                // 1.0 -> 0x3C00, -2.5 -> 0xC100
  let u = unpack4x8unorm(u32(a[0]));                             // 0xFF800000 -> (0, 0, 128/255, 1)
  fo[0] = u.x; fo[1] = u.y; fo[2] = u.z; fo[3] = u.w;
  let s = unpack4x8snorm(u32(a[1]));                             // 0x7F810040 -> (64/127, 0, -1, 1)
  fo[4] = s.x; fo[5] = s.y; fo[6] = s.z; fo[7] = s.w;
  let h = unpack2x16float(u32(a[2]));                            // 0xC1003C00 -> (1.0, -2.5)
  fo[8] = h.x; fo[9] = h.y;
  let un = unpack2x16unorm(u32(a[3]));                           // 0xFFFF0000 -> (0, 1)
  fo[10] = un.x; fo[11] = un.y;
  let sn = unpack2x16snorm(u32(a[4]));                           // 0x80004000 -> (16384/32767, -1 (clamped))
  fo[12] = sn.x; fo[13] = sn.y;
}`,
		bufs: map[gb][]byte{A: i32s(-0x00800000, 0x7F810040, -0x3EFFC400, -0x10000, -0x7FFFC000), UO: zeros(8), FO: zeros(16), FA: f32s(0, 1, 0.2, 2.0, -1, -3, -2.5)},
		wants: []want{
			wu(UO, 0, 0xFF33FF00), wu(UO, 1, 0x81817F00), wu(UO, 2, 0x0000FFFF), wu(UO, 3, 0x7FFF8001), wu(UO, 4, 0xC1003C00),
			wf(FO, 0, 0), wf(FO, 1, 0), wf(FO, 2, float32(128)/float32(255)), wf(FO, 3, 1),
			wf(FO, 4, float32(64)/float32(127)), wf(FO, 5, 0), wf(FO, 6, -1), wf(FO, 7, 1),
			wf(FO, 8, 1), wf(FO, 9, -2.5), wf(FO, 10, 0), wf(FO, 11, 1), wf(FO, 12, float32(16384)/float32(32767)), wf(FO, 13, -1),
		},
		es: true,
	},
	{
		name: "vector_int_compare",
		wgsl: hdrIO + `
@compute @workgroup_size(1) fn main() {
  let x = vec3<i32>(a[0], a[1], a[2]);     // (1, -2, 3)
  let y = vec3<i32>(2, -2, 1);
  let lt = x < y;                          // (t, f, f)
  let ge = x >= y;                         // (f, t, t)
  let eq = x == y;                         // (f, t, f)
  o[0] = i32(lt.x) + 2 * i32(lt.y) + 4 * i32(lt.z);   // 1
  o[1] = i32(ge.x) + 2 * i32(ge.y) + 4 * i32(ge.z);   // 6
  o[2] = i32(eq.x) + 2 * i32(eq.y) + 4 * i32(eq.z);   // 2
  o[3] = i32(any(lt)) + 2 * i32(all(lt)) + 4 * i32(all(ge | lt)); // 1 + 0 + 4 = 5
  let n = !eq;                             // (t, f, t)
  o[4] = i32(n.x) + 2 * i32(n.y) + 4 * i32(n.z);      // 5
  let ux = vec2<u32>(u32(a[1]), 5u) > vec2<u32>(7u, 7u);  // (0xFFFFFFFE > 7 = t, f)
  o[5] = i32(ux.x) + 2 * i32(ux.y);        // 1
  let fx = vec2<f32>(fa[0], fa[1]) <= vec2<f32>(1.0, 1.0); // (0.5<=1 t, 1.5<=1 f)
  o[6] = i32(fx.x) + 2 * i32(fx.y);        // 1
  o[7] = i32(all(x == x)) + i32(any(x != x)) * 2;    // 1
  let m = abs(x) + min(x, y) + max(x, y) + clamp(x, vec3<i32>(0), vec3<i32>(2));
  // abs (1,2,3) + min (1,-2,1) + max (2,-2,3) + clamp (1,0,2) = (5,-2,9)
  o[8] = m.x; o[9] = m.y; o[10] = m.z;
  let bw = (x & vec3<i32>(3)) | (y ^ vec3<i32>(1)) ;   // x&3 = (1, 2, 3); y^1 = (3, -1, 0) -> (3, -1, 3)
  o[11] = bw.x; o[12] = bw.y; o[13] = bw.z;
  let neg = -x + ~y;                       // (-1,2,-3) + (-3,1,-2) = (-4,3,-5)
  o[14] = neg.x; o[15] = neg.y; o[16] = neg.z;
}`,
		bufs: map[gb][]byte{O: zeros(20), A: i32s(1, -2, 3), FA: f32s(0.5, 1.5)},
		wants: []want{
			wi(O, 0, 1), wi(O, 1, 6), wi(O, 2, 2), wi(O, 3, 5), wi(O, 4, 5), wi(O, 5, 1), wi(O, 6, 1), wi(O, 7, 1),
			wi(O, 8, 5), wi(O, 9, -2), wi(O, 10, 9), wi(O, 11, 3), wi(O, 12, -1), wi(O, 13, 3), wi(O, 14, -4), wi(O, 15, 3), wi(O, 16, -5),
		},
		es: true,
	},
	{
		name: "float_math_exact",
		wgsl: hdrIO + `
@compute @workgroup_size(1) fn main() {
  fo[0] = mix(fa[0], fa[1], fa[2]);          // mix(1, 3, 0.25) = 1.5
  fo[1] = step(fa[3], fa[2]);                // step(0.5, 0.25) = 0
  fo[2] = step(fa[2], fa[3]);                // 1
  fo[3] = smoothstep(0.0, fa[0], fa[3]);     // smoothstep(0,1,0.5) = 0.5
  fo[4] = fma(fa[1], fa[1], fa[0]);          // 10
  fo[5] = sqrt(fa[4]);                       // sqrt(16) = 4
  fo[6] = inverseSqrt(fa[4]);                // 0.25
  fo[7] = pow(fa[5], fa[1]);                 // 2^3 = 8
  fo[8] = exp2(fa[1]);                       // 8
  fo[9] = log2(fa[4]);                       // 4
  fo[10] = exp(fa[6]);                       // 1
  fo[11] = log(fa[0]);                       // 0
  fo[12] = sin(fa[6]) + cos(fa[6]) + tan(fa[6]);  // 1
  fo[13] = atan2(fa[6], fa[0]) + atan(fa[6]) + asin(fa[6]) + acos(fa[0]);  // 0
  fo[14] = sinh(fa[6]) + cosh(fa[6]) + tanh(fa[6]);  // 1
  let mv = mix(vec2<f32>(0.0, 10.0), vec2<f32>(10.0, 20.0), fa[3]);   // (5, 15)
  fo[15] = mv.x + mv.y;                      // 20
  fo[16] = fa[0] / fa[6];                    // 1/0 = +inf
  fo[17] = faceForward(vec2<f32>(1.0, 2.0), vec2<f32>(0.0, 1.0), vec2<f32>(0.0, 1.0)).y;  // dot > 0 -> -e1 -> -2
  fo[18] = reflect(vec2<f32>(1.0, -1.0), vec2<f32>(0.0, 1.0)).y;      // 1
}`,
		bufs: map[gb][]byte{FO: zeros(20), FA: f32s(1, 3, 0.25, 0.5, 16, 2, 0)},
		wants: []want{
			wf(FO, 0, 1.5), wf(FO, 1, 0), wf(FO, 2, 1), wf(FO, 3, 0.5), wf(FO, 4, 10), wf(FO, 5, 4), wf(FO, 6, 0.25), wf(FO, 7, 8),
			wf(FO, 8, 8), wf(FO, 9, 4), wf(FO, 10, 1), wf(FO, 11, 0), wf(FO, 12, 1), wf(FO, 13, 0), wf(FO, 14, 1), wf(FO, 15, 20),
			wf(FO, 16, float32(math.Inf(1))), wf(FO, 17, -2), wf(FO, 18, 1),
		},
		es: true,
	},
	{
		name: "const_table_dynamic_index",
		wgsl: hdrIO + `
const table = array<i32, 4>(10, 20, 30, 40);
const K: u32 = 3u;
@compute @workgroup_size(1) fn main() {
  var t = table;
  let i = a[0];
  o[0] = t[i];                 // 30
  o[1] = table[K];             // 40
  t[1] = 5;
  var s = 0;
  for (var k = 0u; k < 4u; k++) { s += t[k]; }
  o[2] = s;                    // 10+5+30+40 = 85
  var grid = array<array<i32, 2>, 3>(array<i32, 2>(1, 2), array<i32, 2>(3, 4), array<i32, 2>(5, 6));
  grid[i][1] = 60;
  o[3] = grid[2][0] + grid[2][1] + grid[1][a[1]];   // 5 + 60 + 3 = 68
  let eq = select(0, 1, grid[0][0] == 1 && grid[0][1] == 2);
  o[4] = eq;
}`,
		bufs:  map[gb][]byte{O: zeros(8), A: i32s(2, 0)},
		wants: []want{wi(O, 0, 30), wi(O, 1, 40), wi(O, 2, 85), wi(O, 3, 68), wi(O, 4, 1)},
		es:    true,
	},
	{
		name: "modf_frexp_ldexp",
		wgsl: hdrIO + `
@compute @workgroup_size(1) fn main() {
  let m = modf(fa[0]);            // -1.5 -> fract -0.5 whole -1
  fo[0] = m.fract; fo[1] = m.whole;
  let f = frexp(fa[1]);           // 8 -> 0.5 * 2^4
  fo[2] = f.fract; o[0] = f.exp;
  fo[3] = ldexp(fa[2], a[0]);     // 0.75 * 2^3 = 6
  let f2 = frexp(fa[2]);          // 0.75 -> 0.75 * 2^0
  fo[4] = f2.fract; o[1] = f2.exp;
  let mv = modf(vec2<f32>(fa[1], fa[3]));  // (8, 2.25) -> fract (0, 0.25) whole (8, 2)
  fo[5] = mv.fract.y; fo[6] = mv.whole.x + mv.whole.y;
}`,
		bufs:  map[gb][]byte{O: zeros(4), A: i32s(3), FO: zeros(8), FA: f32s(-1.5, 8, 0.75, 2.25)},
		wants: []want{wf(FO, 0, -0.5), wf(FO, 1, -1), wf(FO, 2, 0.5), wi(O, 0, 4), wf(FO, 3, 6), wf(FO, 4, 0.75), wi(O, 1, 0), wf(FO, 5, 0.25), wf(FO, 6, 10)},
		es:    true,
	},
	{
		name: "dispatch_builtins",
		wgsl: `
@group(0) @binding(0) var<storage, read_write> o: array<u32>;
@compute @workgroup_size(2, 2, 1) fn main(@builtin(global_invocation_id) gid: vec3<u32>, @builtin(local_invocation_id) lid: vec3<u32>,
    @builtin(local_invocation_index) li: u32, @builtin(workgroup_id) wg: vec3<u32>, @builtin(num_workgroups) nwg: vec3<u32>) {
  // dispatch (2,1,1): global grid is 4 x 2
  let idx = gid.y * 4u + gid.x;
  o[idx] = nwg.x * 10000u + wg.x * 1000u + lid.y * 100u + lid.x * 10u + li;
}`,
		bufs:   map[gb][]byte{{0, 0}: zeros(8)},
		groups: [3]uint32{2, 1, 1},
		wants: []want{
			wu(gb{0, 0}, 0, 20000), wu(gb{0, 0}, 1, 20011), wu(gb{0, 0}, 2, 21000), wu(gb{0, 0}, 3, 21011),
			wu(gb{0, 0}, 4, 20102), wu(gb{0, 0}, 5, 20113), wu(gb{0, 0}, 6, 21102), wu(gb{0, 0}, 7, 21113),
		},
		es: true,
	},
	{
		name: "out_of_bounds_local_array",
		wgsl: hdrIO + `
@compute @workgroup_size(1) fn main() {
  var arr = array<i32, 4>(1, 2, 3, 4);
  let i = a[0];
  o[0] = arr[i];    // index 7: WGSL allows any element of the array; GLSL: undefined
}`,
		bufs:    map[gb][]byte{O: zeros(4), A: i32s(7)},
		wants:   []want{wi(O, 0, 4)},
		traps:   []xrt.TrapKind{xrt.TrapOOB},
		trapWhy: "dynamic index into a function-local array is emitted without a bounds check; out-of-range indexing is undefined in GLSL",
	},
	{
		name: "integer_dot_and_struct_copy",
		wgsl: `
struct Pt { p: vec3<i32>, w: i32 }
@group(0) @binding(0) var<storage, read_write> o: array<i32>;
@group(0) @binding(1) var<storage, read_write> pts: array<Pt, 2>;
fn mk(x: i32) -> Pt { return Pt(vec3<i32>(x, x + 1, x + 2), x * 10); }
@compute @workgroup_size(1) fn main() {
  let d = dot(pts[0].p, pts[1].p);     // (1,2,3).(4,5,6) = 32
  o[0] = d;
  var t = pts[0];
  pts[0] = pts[1];
  pts[1] = t;
  let q = mk(7);
  o[2] = q.p.z + q.w;                  // 9 + 70
  var arr = array<Pt, 2>(mk(1), mk(2));
  arr[0] = arr[1];
  o[3] = arr[0].p.x + arr[0].w;        // 2 + 20
}`,
		bufs: map[gb][]byte{{0, 0}: zeros(4), {0, 1}: i32s(1, 2, 3, 7, 4, 5, 6, 8)},
		wants: []want{
			wi(gb{0, 0}, 0, 32), wi(gb{0, 0}, 2, 79), wi(gb{0, 0}, 3, 22),
			wi(gb{0, 1}, 0, 4), wi(gb{0, 1}, 3, 8), wi(gb{0, 1}, 4, 1), wi(gb{0, 1}, 7, 7),
		},
	},
	{
		name: "workgroup_zero_init_large",
		wgsl: `
@group(0) @binding(0) var<storage, read_write> o: array<u32>;
var<workgroup> big: array<u32, 300>;
var<workgroup> flag: u32;
@compute @workgroup_size(4) fn main(@builtin(local_invocation_index) li: u32) {
  // WGSL zero-initialises workgroup memory
  o[li] = big[li * 70u] + flag;
  workgroupBarrier();
  big[li] = li;
}`,
		bufs:  map[gb][]byte{{0, 0}: u32s(5, 5, 5, 5)},
		wants: []want{wu(gb{0, 0}, 0, 0), wu(gb{0, 0}, 1, 0), wu(gb{0, 0}, 2, 0), wu(gb{0, 0}, 3, 0)},
		es:    true,
	},
}
