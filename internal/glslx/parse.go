package glslx

import (
	"fmt"

	"verif/internal/xrt"
)

type parser struct {
	toks      []token
	p         int
	typeNames map[string]bool // struct names seen so far
	depth     int
}

func (ps *parser) peek() token { return ps.toks[ps.p] }
func (ps *parser) peekAt(n int) token {
	if ps.p+n < len(ps.toks) {
		return ps.toks[ps.p+n]
	}
	return ps.toks[len(ps.toks)-1]
}
func (ps *parser) next() token {
	t := ps.toks[ps.p]
	if t.kind != tkEOF {
		ps.p++
	}
	return t
}

func (ps *parser) fail(line int, format string, a ...interface{}) {
	panic(&syntaxError{line, fmt.Sprintf(format, a...)})
}
func (ps *parser) unsupported(what string) { panic(&xrt.Unsupported{What: what}) }

func (ps *parser) isPunct(s string) bool {
	t := ps.peek()
	return t.kind == tkPunct && t.s == s
}
func (ps *parser) isWord(s string) bool {
	t := ps.peek()
	return t.kind == tkIdent && t.s == s
}
func (ps *parser) accept(s string) bool {
	if ps.isPunct(s) {
		ps.p++
		return true
	}
	return false
}
func (ps *parser) expect(s string) token {
	t := ps.peek()
	if t.kind != tkPunct || t.s != s {
		ps.fail(t.line, "expected %q, found %s", s, t)
	}
	ps.p++
	return t
}
func (ps *parser) expectIdent() token {
	t := ps.peek()
	if t.kind != tkIdent {
		ps.fail(t.line, "expected identifier, found %s", t)
	}
	ps.p++
	return t
}

func (ps *parser) enter(line int) {
	ps.depth++
	if ps.depth > 400 {
		ps.unsupported("nesting too deep")
	}
}
func (ps *parser) leave() { ps.depth-- }

// ---------- top level ----------

func (ps *parser) parseUnit() []interface{} {
	var out []interface{}
	for ps.peek().kind != tkEOF {
		if ps.accept(";") {
			continue
		}
		out = append(out, ps.parseExternal())
	}
	return out
}

func (ps *parser) parseQualifiers() *qualifiers {
	var q *qualifiers
	for {
		t := ps.peek()
		if t.kind != tkIdent || !qualifierWords[t.s] {
			return q
		}
		if q == nil {
			q = &qualifiers{line: t.line}
		}
		ps.p++
		switch t.s {
		case "const":
			if q.konst {
				ps.fail(t.line, "duplicate const qualifier")
			}
			q.konst = true
		case "in", "out", "inout", "uniform", "buffer", "shared", "attribute", "varying":
			if q.storage != "" {
				ps.fail(t.line, "multiple storage qualifiers (%s %s)", q.storage, t.s)
			}
			q.storage = t.s
		case "readonly":
			q.readonly = true
		case "writeonly":
			q.writeonly = true
		case "layout":
			ps.expect("(")
			for {
				nt := ps.peek()
				if nt.kind != tkIdent {
					ps.fail(nt.line, "expected layout qualifier name, found %s", nt)
				}
				ps.p++
				la := layoutArg{name: nt.s, line: nt.line}
				if ps.accept("=") {
					la.val = ps.parseConditional()
				}
				q.layout = append(q.layout, la)
				if ps.accept(",") {
					continue
				}
				break
			}
			ps.expect(")")
		case "subroutine":
			ps.unsupported("subroutine")
		default:
			q.other = append(q.other, t.s)
		}
	}
}

func (q *qualifiers) has(word string) bool {
	if q == nil {
		return false
	}
	for _, o := range q.other {
		if o == word {
			return true
		}
	}
	return false
}

func (ps *parser) parseExternal() interface{} {
	t := ps.peek()
	if t.kind == tkIdent && t.s == "precision" {
		ps.p++
		pq := ps.expectIdent()
		if pq.s != "highp" && pq.s != "mediump" && pq.s != "lowp" {
			ps.fail(pq.line, "expected precision qualifier, found %s", pq)
		}
		ty := ps.expectIdent()
		if !isTypeKeyword(ty.s) {
			ps.fail(ty.line, "expected type in precision statement, found %s", ty)
		}
		ps.expect(";")
		return &precisionDecl{line: t.line}
	}
	q := ps.parseQualifiers()
	if q != nil && ps.isPunct(";") {
		ps.p++
		return &layoutDefaultDecl{quals: q, line: q.line}
	}
	// interface block?
	if q != nil && (q.storage == "uniform" || q.storage == "buffer" || q.storage == "in" || q.storage == "out") {
		a, b := ps.peek(), ps.peekAt(1)
		if a.kind == tkIdent && b.kind == tkPunct && b.s == "{" && a.s != "struct" {
			return ps.parseBlock(q)
		}
	}
	if q != nil && q.storage == "" && len(q.layout) == 0 && !q.konst && ps.peek().kind == tkIdent &&
		!isTypeKeyword(ps.peek().s) && !ps.typeNames[ps.peek().s] && ps.peek().s != "struct" {
		if n := ps.peekAt(1); n.kind == tkPunct && (n.s == ";" || n.s == ",") {
			// "invariant gl_Position;" / "precise x;" re-qualification of an existing variable
			ps.unsupported("qualifier redeclaration of " + ps.peek().s)
		}
	}
	ts := ps.parseTypeSpec()
	if ps.isPunct(";") {
		ps.p++
		if ts.structDef == nil {
			ps.fail(t.line, "declaration without declarator")
		}
		if q != nil && q.storage != "" {
			ps.fail(t.line, "qualifier on struct-only declaration")
		}
		return ts.structDef
	}
	nameTok := ps.expectIdent()
	if ps.isPunct("(") {
		return ps.parseFunction(q, ts, nameTok)
	}
	g := &globalDecl{quals: q, ts: ts, line: nameTok.line}
	g.decls = ps.parseDeclarators(nameTok)
	ps.expect(";")
	return g
}

func (ps *parser) parseDeclarators(first token) []*declarator {
	var out []*declarator
	nameTok := first
	for {
		d := &declarator{name: nameTok.s, line: nameTok.line}
		d.dims = ps.parseDims()
		if ps.accept("=") {
			if ps.isPunct("{") {
				ps.unsupported("initializer list {...}")
			}
			d.init = ps.parseAssignment()
		}
		out = append(out, d)
		if ps.accept(",") {
			nameTok = ps.expectIdent()
			continue
		}
		return out
	}
}

func (ps *parser) parseDims() []arrayDim {
	var dims []arrayDim
	for ps.isPunct("[") {
		ps.p++
		if ps.accept("]") {
			dims = append(dims, arrayDim{})
			continue
		}
		e := ps.parseConditional()
		ps.expect("]")
		dims = append(dims, arrayDim{size: e})
	}
	return dims
}

// parseTypeSpec parses "struct {...}", a type keyword or a struct name, followed by optional array dims.
func (ps *parser) parseTypeSpec() *typeSpec {
	t := ps.peek()
	if t.kind != tkIdent {
		ps.fail(t.line, "expected type, found %s", t)
	}
	ts := &typeSpec{line: t.line}
	if t.s == "struct" {
		ts.structDef = ps.parseStruct()
		ts.name = ts.structDef.name
	} else {
		if !isTypeKeyword(t.s) && !ps.typeNames[t.s] {
			if kwPlain[t.s] || kwFuture[t.s] {
				ps.fail(t.line, "unexpected keyword %s", t)
			}
			ps.fail(t.line, "unknown type name %s", t)
		}
		ps.p++
		ts.name = t.s
	}
	ts.dims = ps.parseDims()
	return ts
}

func (ps *parser) parseStruct() *structDecl {
	st := ps.next() // struct
	sd := &structDecl{line: st.line}
	if ps.peek().kind == tkIdent {
		nt := ps.next()
		sd.name = nt.s
		sd.line = nt.line
	} else {
		ps.unsupported("anonymous struct")
	}
	ps.expect("{")
	sd.members = ps.parseMembers()
	ps.expect("}")
	ps.typeNames[sd.name] = true
	return sd
}

func (ps *parser) parseMembers() []*memberDecl {
	var out []*memberDecl
	for !ps.isPunct("}") {
		if ps.peek().kind == tkEOF {
			ps.fail(ps.peek().line, "unexpected end of file in member list")
		}
		m := &memberDecl{}
		m.quals = ps.parseQualifiers()
		m.ts = ps.parseTypeSpec()
		if m.ts.structDef != nil {
			ps.unsupported("nested struct definition")
		}
		m.decls = ps.parseDeclarators(ps.expectIdent())
		for _, d := range m.decls {
			if d.init != nil {
				ps.fail(d.line, "member %s has an initializer", d.name)
			}
		}
		ps.expect(";")
		out = append(out, m)
	}
	if len(out) == 0 {
		ps.fail(ps.peek().line, "empty member list")
	}
	return out
}

func (ps *parser) parseBlock(q *qualifiers) *blockDecl {
	nt := ps.next()
	b := &blockDecl{quals: q, storage: q.storage, name: nt.s, line: nt.line}
	ps.expect("{")
	b.members = ps.parseMembers()
	ps.expect("}")
	if ps.peek().kind == tkIdent {
		it := ps.next()
		b.instance = it.s
		b.instLine = it.line
		b.instDims = ps.parseDims()
	}
	ps.expect(";")
	return b
}

func (ps *parser) parseFunction(q *qualifiers, ret *typeSpec, nameTok token) *funcDecl {
	if q != nil && (q.storage != "" || len(q.layout) > 0) {
		ps.fail(nameTok.line, "storage/layout qualifier on function %s", nameTok.s)
	}
	if ret.structDef != nil {
		ps.fail(nameTok.line, "struct definition in function return type")
	}
	f := &funcDecl{name: nameTok.s, line: nameTok.line, retTS: ret}
	ps.expect("(")
	if ps.isWord("void") && ps.peekAt(1).kind == tkPunct && ps.peekAt(1).s == ")" {
		ps.p++
	}
	for !ps.isPunct(")") {
		p := &param{}
		p.quals = ps.parseQualifiers()
		p.dir = "in"
		if p.quals != nil {
			switch p.quals.storage {
			case "", "in":
			case "out", "inout":
				p.dir = p.quals.storage
			default:
				ps.fail(p.quals.line, "bad parameter qualifier %s", p.quals.storage)
			}
			p.konst = p.quals.konst
			if p.konst && p.dir != "in" {
				ps.fail(p.quals.line, "const cannot be combined with %s", p.dir)
			}
		}
		p.ts = ps.parseTypeSpec()
		if p.ts.structDef != nil {
			ps.fail(p.ts.line, "struct definition in parameter")
		}
		p.line = p.ts.line
		if ps.peek().kind == tkIdent {
			nt := ps.next()
			p.name = nt.s
			p.line = nt.line
			p.dims = ps.parseDims()
		}
		f.params = append(f.params, p)
		if !ps.accept(",") {
			break
		}
	}
	ps.expect(")")
	if ps.accept(";") {
		f.proto = true
		return f
	}
	if !ps.isPunct("{") {
		ps.fail(ps.peek().line, "expected function body, found %s", ps.peek())
	}
	f.body = ps.parseCompound()
	f.body.noScope = true
	return f
}

// ---------- statements ----------

func (ps *parser) parseCompound() *blockStmt {
	lb := ps.expect("{")
	ps.enter(lb.line)
	defer ps.leave()
	b := &blockStmt{stmtBase: stmtBase{lb.line}}
	for !ps.isPunct("}") {
		if ps.peek().kind == tkEOF {
			ps.fail(ps.peek().line, "unexpected end of file in block")
		}
		b.stmts = append(b.stmts, ps.parseStatement(false))
	}
	ps.p++
	return b
}

// startsDecl decides whether the upcoming tokens start a declaration.
func (ps *parser) startsDecl() bool {
	t := ps.peek()
	if t.kind != tkIdent {
		return false
	}
	if t.s == "struct" || t.s == "precision" {
		return true
	}
	if qualifierWords[t.s] {
		// a qualifier is always followed by another qualifier or a type (layout by
		// "("); anything else means the word is (mis)used as an identifier, which
		// the checker reports as TrapReserved at its declaration
		n := ps.peekAt(1)
		if t.s == "layout" {
			return n.kind == tkPunct && n.s == "("
		}
		return n.kind == tkIdent
	}
	isT := isTypeKeyword(t.s) || ps.typeNames[t.s]
	if !isT {
		return false
	}
	// type followed by identifier => declaration; type followed by dims then identifier => declaration;
	// otherwise (constructor call) expression.
	i := 1
	for {
		n := ps.peekAt(i)
		if n.kind == tkPunct && n.s == "[" {
			depth := 0
			for {
				m := ps.peekAt(i)
				if m.kind == tkEOF {
					return false
				}
				if m.kind == tkPunct && m.s == "[" {
					depth++
				}
				if m.kind == tkPunct && m.s == "]" {
					depth--
					if depth == 0 {
						i++
						break
					}
				}
				i++
			}
			continue
		}
		return n.kind == tkIdent
	}
}

func (ps *parser) parseLocalDecl() stmt {
	t := ps.peek()
	if t.s == "precision" {
		ps.p++
		ps.expectIdent()
		ps.expectIdent()
		ps.expect(";")
		return &emptyStmt{stmtBase{t.line}}
	}
	q := ps.parseQualifiers()
	ts := ps.parseTypeSpec()
	d := &declStmt{stmtBase: stmtBase{t.line}, quals: q, ts: ts}
	if ps.isPunct(";") {
		if ts.structDef == nil {
			ps.fail(t.line, "declaration without declarator")
		}
		ps.unsupported("local struct definition")
	}
	if ts.structDef != nil {
		ps.unsupported("local struct definition")
	}
	d.decls = ps.parseDeclarators(ps.expectIdent())
	return d
}

func (ps *parser) parseStatement(inSwitch bool) stmt {
	t := ps.peek()
	ps.enter(t.line)
	defer ps.leave()
	if t.kind == tkPunct {
		switch t.s {
		case "{":
			return ps.parseCompound()
		case ";":
			ps.p++
			return &emptyStmt{stmtBase{t.line}}
		}
	}
	if t.kind == tkIdent {
		switch t.s {
		case "if":
			ps.p++
			ps.expect("(")
			c := ps.parseExpr()
			ps.expect(")")
			s := &ifStmt{stmtBase: stmtBase{t.line}, cond: c}
			s.then = ps.parseStatement(false)
			if ps.isWord("else") {
				ps.p++
				s.els = ps.parseStatement(false)
			}
			return s
		case "while":
			ps.p++
			ps.expect("(")
			if ps.startsDecl() {
				ps.unsupported("declaration in while condition")
			}
			c := ps.parseExpr()
			ps.expect(")")
			return &whileStmt{stmtBase: stmtBase{t.line}, cond: c, body: ps.parseStatement(false)}
		case "do":
			ps.p++
			body := ps.parseStatement(false)
			if !ps.isWord("while") {
				ps.fail(ps.peek().line, "expected 'while' after do body, found %s", ps.peek())
			}
			ps.p++
			ps.expect("(")
			c := ps.parseExpr()
			ps.expect(")")
			ps.expect(";")
			return &doStmt{stmtBase: stmtBase{t.line}, body: body, cond: c}
		case "for":
			ps.p++
			ps.expect("(")
			s := &forStmt{stmtBase: stmtBase{t.line}}
			if ps.accept(";") {
			} else if ps.startsDecl() {
				s.init = ps.parseLocalDecl()
				ps.expect(";")
			} else {
				e := ps.parseExpr()
				ps.expect(";")
				s.init = &exprStmt{stmtBase{t.line}, e}
			}
			if !ps.isPunct(";") {
				if ps.startsDecl() {
					ps.unsupported("declaration in for condition")
				}
				s.cond = ps.parseExpr()
			}
			ps.expect(";")
			if !ps.isPunct(")") {
				s.post = ps.parseExpr()
			}
			ps.expect(")")
			s.body = ps.parseStatement(false)
			return s
		case "switch":
			ps.p++
			ps.expect("(")
			sel := ps.parseExpr()
			ps.expect(")")
			ps.expect("{")
			s := &switchStmt{stmtBase: stmtBase{t.line}, sel: sel}
			for !ps.isPunct("}") {
				if ps.peek().kind == tkEOF {
					ps.fail(ps.peek().line, "unexpected end of file in switch")
				}
				s.body = append(s.body, ps.parseStatement(true))
			}
			ps.p++
			return s
		case "case":
			if !inSwitch {
				ps.fail(t.line, "case label outside switch body")
			}
			ps.p++
			v := ps.parseExpr()
			ps.expect(":")
			return &caseLabel{stmtBase: stmtBase{t.line}, val: v}
		case "default":
			if !inSwitch {
				ps.fail(t.line, "default label outside switch body")
			}
			ps.p++
			ps.expect(":")
			return &caseLabel{stmtBase: stmtBase{t.line}, isDefault: true}
		case "break":
			ps.p++
			ps.expect(";")
			return &breakStmt{stmtBase{t.line}}
		case "continue":
			ps.p++
			ps.expect(";")
			return &continueStmt{stmtBase{t.line}}
		case "discard":
			ps.p++
			ps.expect(";")
			return &discardStmt{stmtBase{t.line}}
		case "return":
			ps.p++
			s := &returnStmt{stmtBase: stmtBase{t.line}}
			if !ps.isPunct(";") {
				s.x = ps.parseExpr()
			}
			ps.expect(";")
			return s
		case "else":
			ps.fail(t.line, "'else' without 'if'")
		}
		if ps.startsDecl() {
			d := ps.parseLocalDecl()
			ps.expect(";")
			return d
		}
	}
	e := ps.parseExpr()
	ps.expect(";")
	return &exprStmt{stmtBase{t.line}, e}
}

// ---------- expressions ----------

func (ps *parser) parseExpr() expr {
	e := ps.parseAssignment()
	for ps.isPunct(",") {
		t := ps.next()
		r := ps.parseAssignment()
		e = &commaExpr{exprBase: exprBase{line: t.line}, l: e, r: r}
	}
	return e
}

// keywords that can never be read as an identifier in an expression
var hardKeywords = wordSet(`if else for while do switch case default break continue return discard struct
	const in out inout uniform buffer layout precision subroutine`)

var assignOps = map[string]bool{"=": true, "+=": true, "-=": true, "*=": true, "/=": true, "%=": true,
	"<<=": true, ">>=": true, "&=": true, "|=": true, "^=": true}

func (ps *parser) parseAssignment() expr {
	ps.enter(ps.peek().line)
	defer ps.leave()
	l := ps.parseConditional()
	t := ps.peek()
	if t.kind == tkPunct && assignOps[t.s] {
		ps.p++
		r := ps.parseAssignment()
		return &assignExpr{exprBase: exprBase{line: t.line}, op: t.s, l: l, r: r}
	}
	return l
}

func (ps *parser) parseConditional() expr {
	c := ps.parseBinary(0)
	if ps.isPunct("?") {
		t := ps.next()
		a := ps.parseExpr()
		ps.expect(":")
		b := ps.parseAssignment()
		return &condExpr{exprBase: exprBase{line: t.line}, c: c, a: a, b: b}
	}
	return c
}

var binLevels = [][]string{
	{"||"},
	{"^^"},
	{"&&"},
	{"|"},
	{"^"},
	{"&"},
	{"==", "!="},
	{"<", ">", "<=", ">="},
	{"<<", ">>"},
	{"+", "-"},
	{"*", "/", "%"},
}

func (ps *parser) parseBinary(level int) expr {
	if level == len(binLevels) {
		return ps.parseUnary()
	}
	l := ps.parseBinary(level + 1)
	for {
		t := ps.peek()
		if t.kind != tkPunct {
			return l
		}
		found := false
		for _, op := range binLevels[level] {
			if t.s == op {
				found = true
				break
			}
		}
		if !found {
			return l
		}
		ps.p++
		r := ps.parseBinary(level + 1)
		l = &binaryExpr{exprBase: exprBase{line: t.line}, op: t.s, l: l, r: r}
	}
}

func (ps *parser) parseUnary() expr {
	t := ps.peek()
	if t.kind == tkPunct {
		switch t.s {
		case "+", "-", "!", "~", "++", "--":
			ps.p++
			ps.enter(t.line)
			x := ps.parseUnary()
			ps.leave()
			return &unaryExpr{exprBase: exprBase{line: t.line}, op: t.s, x: x}
		}
	}
	return ps.parsePostfix()
}

func (ps *parser) parsePostfix() expr {
	e := ps.parsePrimary()
	for {
		t := ps.peek()
		if t.kind != tkPunct {
			return e
		}
		switch t.s {
		case "[":
			ps.p++
			i := ps.parseExpr()
			ps.expect("]")
			e = &indexExpr{exprBase: exprBase{line: t.line}, x: e, i: i}
		case ".":
			ps.p++
			nt := ps.expectIdent()
			if ps.isPunct("(") {
				if nt.s != "length" {
					ps.fail(nt.line, "unknown method %s", nt)
				}
				ps.p++
				ps.expect(")")
				e = &lengthExpr{exprBase: exprBase{line: nt.line}, x: e}
			} else {
				e = &memberExpr{exprBase: exprBase{line: nt.line}, x: e, name: nt.s}
			}
		case "++", "--":
			ps.p++
			e = &unaryExpr{exprBase: exprBase{line: t.line}, op: t.s, postfix: true, x: e}
		default:
			return e
		}
	}
}

func (ps *parser) parseArgs() []expr {
	ps.expect("(")
	var args []expr
	if ps.isWord("void") && ps.peekAt(1).kind == tkPunct && ps.peekAt(1).s == ")" {
		ps.p += 2
		return nil
	}
	if ps.accept(")") {
		return nil
	}
	for {
		args = append(args, ps.parseAssignment())
		if ps.accept(",") {
			continue
		}
		ps.expect(")")
		return args
	}
}

func (ps *parser) parsePrimary() expr {
	t := ps.peek()
	switch t.kind {
	case tkInt:
		ps.p++
		return &intLit{exprBase: exprBase{line: t.line}, val: t.ival, unsigned: t.unsigned}
	case tkFloat:
		ps.p++
		return &floatLit{exprBase: exprBase{line: t.line}, val: t.fval}
	case tkPunct:
		if t.s == "(" {
			ps.p++
			ps.enter(t.line)
			e := ps.parseExpr()
			ps.leave()
			ps.expect(")")
			return e
		}
	case tkIdent:
		switch t.s {
		case "true", "false":
			ps.p++
			return &boolLit{exprBase: exprBase{line: t.line}, val: t.s == "true"}
		}
		if isTypeKeyword(t.s) {
			ts := ps.parseTypeSpec()
			if !ps.isPunct("(") {
				ps.fail(t.line, "expected '(' after type %s in expression", t.s)
			}
			args := ps.parseArgs()
			return &callExpr{exprBase: exprBase{line: t.line}, name: ts.name, tspec: ts, args: args}
		}
		if hardKeywords[t.s] {
			ps.fail(t.line, "unexpected keyword %s in expression", t)
		}
		// other reserved words used as identifiers are parsed as such; their
		// declaration is reported by the checker (TrapReserved)
		ps.p++
		if ps.isPunct("(") {
			args := ps.parseArgs()
			return &callExpr{exprBase: exprBase{line: t.line}, name: t.s, args: args}
		}
		if ps.isPunct("[") && ps.typeNames[t.s] {
			// possibly an array constructor of a struct type: S[2](...)
			save := ps.p
			dims := ps.parseDims()
			if ps.isPunct("(") {
				args := ps.parseArgs()
				ts := &typeSpec{name: t.s, line: t.line, dims: dims}
				return &callExpr{exprBase: exprBase{line: t.line}, name: t.s, tspec: ts, args: args}
			}
			ps.p = save
		}
		return &identExpr{exprBase: exprBase{line: t.line}, name: t.s}
	}
	ps.fail(t.line, "unexpected %s in expression", t)
	return nil
}
