package glslx

// ---- syntactic types (before resolution) ----

// typeSpec is a parsed type specifier: a name plus array dimensions
// (outermost first; nil expr = unsized []).
type typeSpec struct {
	name      string
	line      int
	dims      []arrayDim
	structDef *structDecl // inline struct definition
}

type arrayDim struct {
	size expr // nil = unsized
}

// ---- expressions ----

type expr interface {
	typ() *Type
	pos() int
}

type exprBase struct {
	t     *Type
	line  int
	konst bool // constant expression
}

func (e *exprBase) typ() *Type { return e.t }
func (e *exprBase) pos() int   { return e.line }

type intLit struct {
	exprBase
	val      uint32
	unsigned bool
}
type floatLit struct {
	exprBase
	val float32
}
type boolLit struct {
	exprBase
	val bool
}
type identExpr struct {
	exprBase
	name string
	sym  *varSym
}
type unaryExpr struct {
	exprBase
	op      string // "-" "+" "!" "~" "++" "--"
	postfix bool   // for ++/--
	x       expr
	covKey  string
}
type binaryExpr struct {
	exprBase
	op     string
	l, r   expr
	lconv  *Type // implicit conversion target for l (nil = none)
	rconv  *Type
	covKey string
}
type assignExpr struct {
	exprBase
	op     string // "=" "+=" ...
	l, r   expr
	rconv  *Type // implicit conversion of r (for "=": to l type; for op=: operand conversion)
	covKey string
}
type condExpr struct {
	exprBase
	c, a, b      expr
	aconv, bconv *Type
}
type commaExpr struct {
	exprBase
	l, r expr
}
type indexExpr struct {
	exprBase
	x, i expr
}
type memberExpr struct {
	exprBase
	x       expr
	name    string
	field   int   // struct field index (when swz == nil)
	swz     []int // swizzle component indices
	isField bool
}
type lengthExpr struct { // x.length()
	exprBase
	x expr
}

type callKind int

const (
	callUnresolved callKind = iota
	callUser
	callBuiltin
	callCtor
)

type callExpr struct {
	exprBase
	name   string    // function name (or type name for constructors)
	tspec  *typeSpec // constructor type (nil for plain calls)
	args   []expr
	kind   callKind
	fn     *funcDecl   // user function
	bi     *builtinSig // builtin overload
	convs  []*Type     // per-argument implicit conversion target (nil = none)
	ctorT  *Type       // constructed type
	covKey string
}

// ---- statements ----

type stmt interface{ stmtPos() int }

type stmtBase struct{ line int }

func (s *stmtBase) stmtPos() int { return s.line }

type declarator struct {
	name string
	line int
	dims []arrayDim
	init expr
	sym  *varSym
	conv *Type // implicit conversion of initializer
}

type declStmt struct {
	stmtBase
	quals *qualifiers
	ts    *typeSpec
	decls []*declarator
}
type exprStmt struct {
	stmtBase
	x expr
}
type blockStmt struct {
	stmtBase
	stmts   []stmt
	noScope bool // function body shares the parameter scope
}
type ifStmt struct {
	stmtBase
	cond      expr
	then, els stmt
}
type whileStmt struct {
	stmtBase
	cond expr // may be a declaration-condition: unsupported
	body stmt
}
type doStmt struct {
	stmtBase
	body stmt
	cond expr
}
type forStmt struct {
	stmtBase
	init stmt // declStmt / exprStmt / nil
	cond expr // nil = true
	post expr
	body stmt
}
type switchStmt struct {
	stmtBase
	sel   expr
	body  []stmt // caseLabel statements interleaved
	nscal int
}
type caseLabel struct {
	stmtBase
	isDefault bool
	val       expr
	cval      uint32 // evaluated constant
}
type breakStmt struct{ stmtBase }
type continueStmt struct{ stmtBase }
type discardStmt struct{ stmtBase }
type returnStmt struct {
	stmtBase
	x    expr
	conv *Type
}
type emptyStmt struct{ stmtBase }

// ---- declarations ----

type qualifiers struct {
	line      int
	storage   string // "", in, out, inout, uniform, buffer, shared, attribute, varying
	konst     bool
	readonly  bool
	writeonly bool
	layout    []layoutArg
	other     []string // precision, interpolation, memory qualifiers kept for information
}

type layoutArg struct {
	name string
	val  expr // nil when no "= value"
	line int
}

func (q *qualifiers) layoutGet(name string) (layoutArg, bool) {
	if q == nil {
		return layoutArg{}, false
	}
	for _, a := range q.layout {
		if a.name == name {
			return a, true
		}
	}
	return layoutArg{}, false
}

type structDecl struct {
	name    string
	line    int
	members []*memberDecl
	t       *Type
}

type memberDecl struct {
	quals *qualifiers
	ts    *typeSpec
	decls []*declarator
}

type param struct {
	quals *qualifiers
	ts    *typeSpec
	name  string
	line  int
	dims  []arrayDim
	dir   string // "in" "out" "inout"
	konst bool
	t     *Type
	sym   *varSym
}

type funcDecl struct {
	name   string
	line   int
	retTS  *typeSpec
	ret    *Type
	params []*param
	body   *blockStmt // nil for prototype
	proto  bool

	nslots      int    // number of local variable slots (params first)
	unsupported string // non-empty: function uses something outside the subset
	calls       []*funcDecl
	usesBarrier bool
}

type blockDecl struct { // interface block
	quals    *qualifiers
	storage  string // uniform | buffer | in | out
	name     string
	line     int
	members  []*memberDecl
	instance string
	instLine int
	instDims []arrayDim
}

type globalDecl struct { // global variable declaration
	quals *qualifiers
	ts    *typeSpec
	decls []*declarator
	line  int
}

type precisionDecl struct{ line int }

type layoutDefaultDecl struct { // layout(...) in; etc.
	quals *qualifiers
	line  int
}

// symbol kinds for variables
type symKind int

const (
	symLocal symKind = iota
	symParam
	symGlobalPrivate // per-invocation global
	symGlobalConst
	symShared
	symBufferVar // member of an instance-less block, or a block instance
	symBuiltinVar
	symUnsupportedGlobal
)

type varSym struct {
	name      string
	kind      symKind
	t         *Type
	line      int
	slot      int  // local slot / global index
	konst     bool // const-qualified
	readonly  bool // may not be written (const, uniform, readonly buffer, builtin inputs)
	init      expr
	initConv  *Type
	constVal  *Value // evaluated constant value (const globals / const locals with const init)
	constInit bool   // const-qualified with a constant-expression initializer
	why       string // symUnsupportedGlobal: reason

	// buffer-backed
	block     *blockInfo
	memberIdx int // index into block.T.Fields, -1 = the whole block instance
}

type blockInfo struct {
	name     string
	storage  string // "buffer" / "uniform"
	readonly bool
	std      int // 140 / 430
	rowMajor bool
	binding  uint32
	implicit bool
	T        *Type // struct type holding the members
	offsets  []int // byte offset per member
	instance string
	slot     int // resource index
}
