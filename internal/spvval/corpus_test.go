package spvval

import (
	"fmt"
	"math"
	"os"
	"path/filepath"
	"sort"
	"strconv"
	"strings"
	"testing"

	"github.com/gogpu/naga"
	"github.com/gogpu/naga/ir"
	"github.com/gogpu/naga/spirv"
)

const corpusDir = "/repo/snapshot/testdata/in"

var corpusVersions = [][2]int{{1, 0}, {1, 1}, {1, 2}, {1, 3}, {1, 4}, {1, 5}, {1, 6}}

type corpusShader struct {
	name string
	src  string
	toml string
}

func loadCorpus(t testing.TB) []corpusShader {
	files, err := filepath.Glob(filepath.Join(corpusDir, "*.wgsl"))
	if err != nil || len(files) == 0 {
		t.Skipf("corpus not available: %v", err)
	}
	sort.Strings(files)
	var out []corpusShader
	for _, f := range files {
		src, err := os.ReadFile(f)
		if err != nil {
			t.Fatal(err)
		}
		name := strings.TrimSuffix(filepath.Base(f), ".wgsl")
		toml, _ := os.ReadFile(filepath.Join(corpusDir, name+".toml"))
		out = append(out, corpusShader{name, string(src), string(toml)})
	}
	return out
}

var capByName = map[string]spirv.Capability{
	"Matrix": spirv.CapabilityMatrix, "Shader": spirv.CapabilityShader, "Float16": spirv.CapabilityFloat16,
	"Float64": spirv.CapabilityFloat64, "Int64": spirv.CapabilityInt64, "Int16": spirv.CapabilityInt16,
	"Int8": spirv.CapabilityInt8, "Linkage": spirv.CapabilityLinkage, "ClipDistance": spirv.CapabilityClipDistance,
	"ImageCubeArray": spirv.CapabilityImageCubeArray, "SampleRateShading": spirv.CapabilitySampleRateShading,
	"Sampled1D": spirv.CapabilitySampled1D, "Image1D": spirv.CapabilityImage1D, "SampledCubeArray": spirv.CapabilitySampledCubeArray,
	"StorageImageExtendedFormats": spirv.CapabilityStorageImageExtendedFormats, "ImageQuery": spirv.CapabilityImageQuery,
	"DerivativeControl": spirv.CapabilityDerivativeControl, "StorageBuffer16BitAccess": spirv.CapabilityStorageBuffer16BitAccess,
	"UniformAndStorageBuffer16BitAccess": spirv.CapabilityUniformAndStorageBuffer16BitAccess,
	"StorageInputOutput16":               spirv.CapabilityStorageInputOutput16, "MultiView": spirv.CapabilityMultiView,
	"FragmentBarycentricKHR": spirv.CapabilityFragmentBarycentricKHR, "ShaderNonUniform": spirv.CapabilityShaderNonUniform,
	"AtomicFloat32AddEXT": spirv.CapabilityAtomicFloat32AddEXT, "DotProductInput4x8BitPacked": spirv.CapabilityDotProductInput4x8BitPacked,
	"DotProduct": spirv.CapabilityDotProduct, "GroupNonUniform": spirv.CapabilityGroupNonUniform,
	"GroupNonUniformVote": spirv.CapabilityGroupNonUniformVote, "GroupNonUniformArithmetic": spirv.CapabilityGroupNonUniformArithmetic,
	"GroupNonUniformBallot": spirv.CapabilityGroupNonUniformBallot, "GroupNonUniformShuffle": spirv.CapabilityGroupNonUniformShuffle,
	"GroupNonUniformShuffleRelative": spirv.CapabilityGroupNonUniformShuffleRel, "GroupNonUniformQuad": spirv.CapabilityGroupNonUniformQuad,
	"Geometry": spirv.CapabilityGeometry, "SubgroupBallotKHR": spirv.CapabilitySubgroupBallotKHR,
}

// tomlSection returns the "key = value" lines of one [section] ("" = top level before any section).
func tomlSection(toml, section string) map[string]string {
	kv := map[string]string{}
	cur := ""
	for _, line := range strings.Split(toml, "\n") {
		tr := strings.TrimSpace(line)
		if strings.HasPrefix(tr, "[") && strings.HasSuffix(tr, "]") && !strings.Contains(tr, "=") {
			cur = strings.Trim(tr, "[]")
			continue
		}
		if cur != section || strings.HasPrefix(tr, "#") {
			continue
		}
		if p := strings.SplitN(tr, "=", 2); len(p) == 2 {
			kv[strings.TrimSpace(p[0])] = strings.TrimSpace(p[1])
		}
	}
	return kv
}

func policyByName(s string) spirv.BoundsCheckPolicy {
	switch strings.Trim(s, "\"") {
	case "ReadZeroSkipWrite":
		return spirv.BoundsCheckReadZeroSkipWrite
	case "Restrict":
		return spirv.BoundsCheckRestrict
	}
	return spirv.BoundsCheckUnchecked
}

// corpusOptions translates the trivially mappable keys of the per-shader .toml.
func corpusOptions(sh corpusShader) (spirv.Options, []uint32) {
	o := spirv.DefaultOptions()
	spv := tomlSection(sh.toml, "spv")
	if v, ok := spv["force_point_size"]; ok {
		o.ForcePointSize = v == "true"
	}
	if v, ok := spv["adjust_coordinate_space"]; ok {
		o.AdjustCoordinateSpace = v == "true"
	}
	if v, ok := spv["use_storage_input_output_16"]; ok {
		o.UseStorageInputOutput16 = v == "true"
	}
	if v, ok := spv["ray_query_initialization_tracking"]; ok {
		o.RayQueryInitTracking = v == "true"
	}
	var allowed []uint32
	if v, ok := spv["capabilities"]; ok {
		caps := map[spirv.Capability]struct{}{}
		for _, item := range strings.Split(strings.Trim(v, "[]"), ",") {
			if c, ok := capByName[strings.Trim(strings.TrimSpace(item), "\"")]; ok {
				caps[c] = struct{}{}
				allowed = append(allowed, uint32(c))
			}
		}
		if len(caps) > 0 {
			o.CapabilitiesAvailable = caps
			// Shader and Matrix are unconditional for every naga module
			allowed = append(allowed, capShader, capMatrix)
		} else {
			allowed = nil
		}
	}
	bc := tomlSection(sh.toml, "bounds_check_policies")
	o.BoundsCheckPolicies.ImageLoad = policyByName(bc["image_load"])
	o.BoundsCheckPolicies.ImageStore = policyByName(bc["image_store"])
	o.BoundsCheckPolicies.Index = policyByName(bc["index"])
	return o, allowed
}

func pipelineConstants(toml string) ir.PipelineConstants {
	pc := ir.PipelineConstants{}
	for _, line := range strings.Split(toml, "\n") {
		tr := strings.TrimSpace(line)
		if !strings.HasPrefix(tr, "pipeline_constants") {
			continue
		}
		a, b := strings.Index(tr, "{"), strings.LastIndex(tr, "}")
		if a < 0 || b <= a {
			continue
		}
		for _, pair := range strings.Split(tr[a+1:b], ",") {
			p := strings.SplitN(pair, "=", 2)
			if len(p) != 2 {
				continue
			}
			k, v := strings.Trim(strings.TrimSpace(p[0]), "\""), strings.TrimSpace(p[1])
			switch v {
			case "nan":
				pc[k] = math.NaN()
			case "inf":
				pc[k] = math.Inf(1)
			case "-inf":
				pc[k] = math.Inf(-1)
			default:
				if f, err := strconv.ParseFloat(v, 64); err == nil {
					pc[k] = f
				}
			}
		}
	}
	return pc
}

// lowerCorpus parses and lowers one shader (overrides resolved), or returns an error.
func lowerCorpus(sh corpusShader) (m *ir.Module, err error) {
	defer func() {
		if r := recover(); r != nil {
			err = fmt.Errorf("front-end panic: %v", r)
		}
	}()
	ast, err := naga.Parse(sh.src)
	if err != nil {
		return nil, err
	}
	m, err = naga.LowerWithSource(ast, sh.src)
	if err != nil {
		return nil, err
	}
	if len(m.Overrides) > 0 {
		m = ir.CloneModuleForOverrides(m)
		if err := ir.ProcessOverrides(m, pipelineConstants(sh.toml)); err != nil {
			return nil, err
		}
	}
	return m, nil
}

func generate(m *ir.Module, o spirv.Options) (bin []byte, err error) {
	defer func() {
		if r := recover(); r != nil {
			err = fmt.Errorf("backend panic: %v", r)
		}
	}()
	return naga.GenerateSPIRV(m, o)
}

// optionVariants returns the per-shader options plus alternative code-generation settings.
func optionVariants(base spirv.Options) []spirv.Options {
	a := base
	a.ForcePointSize, a.AdjustCoordinateSpace = true, true
	a.BoundsCheckPolicies = spirv.BoundsCheckPolicies{ImageLoad: spirv.BoundsCheckRestrict, ImageStore: spirv.BoundsCheckRestrict, Index: spirv.BoundsCheckRestrict}
	b := base
	b.ForceLoopBounding, b.RayQueryInitTracking, b.UseStorageInputOutput16 = false, false, false
	b.BoundsCheckPolicies = spirv.BoundsCheckPolicies{ImageLoad: spirv.BoundsCheckReadZeroSkipWrite, ImageStore: spirv.BoundsCheckReadZeroSkipWrite, Index: spirv.BoundsCheckReadZeroSkipWrite}
	c := base
	c.BoundsCheckPolicies = spirv.BoundsCheckPolicies{}
	c.ForcePointSize, c.AdjustCoordinateSpace = false, false
	return []spirv.Options{base, a, b, c}
}

// knownNaga lists findings on the corpus that were examined by hand and judged
// to be genuine naga defects per the SPIR-V / Vulkan specification (see the
// package report). Key: rule id; value: substring that must occur in the detail.
// TestCorpusSilent tolerates exactly these and nothing else.
var knownNaga = []struct{ rule, substr string }{
	// bitcast<i64>(i64) / bitcast<u64>(u64) is emitted as OpBitcast between identical types
	// (spec, OpBitcast: "Operand ... must be a different type than Result Type"); upstream elides it.
	{"O.bitcast", "are the same type"},
	// CapabilitiesAvailable = {Float16}: the 16-bit storage capabilities are declared anyway (upstream does the same).
	// BoundsCheckPolicies.ImageLoad = Restrict with unsigned coordinates: the "size - 1" clamp uses a
	// vec<u32> OpConstantComposite whose constituents are the i32 constant 1 (shader: image, textureLoad with u32 coords).
	{"O.composite", "has type i32, the vector component requires u32"},
	{"K5", "declares capability 4433"},
	{"K5", "declares capability 4434"},
	{"K5", "declares capability 4436"},
}

func isKnown(f Finding) bool {
	for _, k := range knownNaga {
		if k.rule == f.Rule && strings.Contains(f.Detail, k.substr) {
			return true
		}
	}
	return false
}

// TestCorpusSilent compiles every corpus shader for SPIR-V 1.0..1.6 with and
// without debug info and requires the validator to stay silent.
func TestCorpusSilent(t *testing.T) {
	shaders := loadCorpus(t)
	fired := map[string]int{}
	compiled, failed, modules, known := 0, 0, 0, 0
	type key struct{ rule, detail string }
	loud := map[string][]string{}
	for _, sh := range shaders {
		m, err := lowerCorpus(sh)
		if err != nil {
			failed++
			continue
		}
		base, allowed := corpusOptions(sh)
		okAny := false
		for vi, variant := range optionVariants(base) {
			for _, v := range corpusVersions {
				for _, dbg := range []bool{false, true} {
					if vi > 0 && dbg {
						continue // debug info is orthogonal to the code-generation options
					}
					o := variant
					o.Version = spirv.Version{Major: uint8(v[0]), Minor: uint8(v[1])}
					o.Debug = dbg
					bin, err := generate(m, o)
					if err != nil {
						continue
					}
					okAny = true
					modules++
					rep := Validate(bin, Options{RequestedVersion: v, AllowedCaps: allowed})
					for r, n := range rep.Fired {
						fired[r] += n
					}
					for _, f := range rep.Findings {
						if isKnown(f) {
							known++
							continue
						}
						id := fmt.Sprintf("%s v%d.%d debug=%v variant=%d", sh.name, v[0], v[1], dbg, vi)
						loud[f.Rule] = append(loud[f.Rule], id+": "+f.Detail)
					}
				}
			}
		}
		if okAny {
			compiled++
		} else {
			failed++
		}
	}
	t.Logf("shaders: %d compiled, %d not compilable; %d modules validated; %d known-naga findings tolerated", compiled, failed, modules, known)
	var never []string
	ids := RuleIDs()
	line := ""
	for _, id := range ids {
		line += fmt.Sprintf("%s=%d ", id, fired[id])
		if fired[id] == 0 {
			never = append(never, id)
		}
	}
	t.Logf("Fired totals: %s", line)
	t.Logf("rules never fired on the corpus: %v", never)
	rules := make([]string, 0, len(loud))
	for r := range loud {
		rules = append(rules, r)
	}
	sort.Strings(rules)
	for _, r := range rules {
		t.Errorf("rule %s: %d finding(s); first: %s", r, len(loud[r]), loud[r][0])
		if testing.Verbose() {
			for i, d := range loud[r] {
				if i >= 40 {
					break
				}
				t.Logf("   %s", d)
			}
		}
	}
}
