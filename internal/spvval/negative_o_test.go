package spvval

import "testing"

// ---- O: per-opcode typing ----

func f32ConstID(t testing.TB, tm *tmod) uint32 {
	i := tm.mustFind(t, opConstant, 0, func(in []uint32) bool { return in[1] == tm.typeID(opTypeFloat, 32) })
	return tm.insts[i][2]
}

func u32ConstID(t testing.TB, tm *tmod, v uint32) uint32 {
	i := tm.mustFind(t, opConstant, 0, func(in []uint32) bool { return in[1] == tm.typeID(opTypeInt, 32, 0) && in[3] == v })
	return tm.insts[i][2]
}

func TestNegOArithInt(t *testing.T) {
	tm := baseCompute(t, v13)
	a := tm.mustFind(t, opIAdd, 0, nil)
	tm.insts[a][4] = f32ConstID(t, tm)
	expectOnly(t, tm.encode(), "O.arith-int")
	// float result type
	tm = baseCompute(t, v13)
	a = tm.mustFind(t, opIMul, 0, nil)
	tm.insts[a][1] = tm.typeID(opTypeFloat, 32)
	expectRule(t, tm.encode(), "O.arith-int")
}

func TestNegOArithFloat(t *testing.T) {
	tm := baseCompute(t, v13)
	a := tm.mustFind(t, opFAdd, 0, nil)
	tm.insts[a][3] = u32ConstID(t, tm, 1)
	expectOnly(t, tm.encode(), "O.arith-float")
}

func TestNegOBitwiseShift(t *testing.T) {
	tm := baseCompute(t, v13)
	a := tm.mustFind(t, opBitwiseXor, 0, nil)
	tm.insts[a][4] = f32ConstID(t, tm)
	expectOnly(t, tm.encode(), "O.bitwise")
	tm = baseCompute(t, v13)
	a = tm.mustFind(t, opShiftLeftLogical, 0, nil)
	tm.insts[a][4] = f32ConstID(t, tm)
	expectOnly(t, tm.encode(), "O.shift")
	tm = baseCompute(t, v13)
	a = tm.mustFind(t, opBitCount, 0, nil)
	tm.insts[a][3] = f32ConstID(t, tm)
	expectOnly(t, tm.encode(), "O.bitwise")
}

func TestNegOCompareLogical(t *testing.T) {
	tm := baseCompute(t, v13)
	a := tm.mustFind(t, opIEqual, 0, func(in []uint32) bool { return in[1] == tm.typeID(opTypeBool) })
	tm.insts[a][1] = tm.typeID(opTypeInt, 32, 0) // result must be bool
	expectRule(t, tm.encode(), "O.compare")
	tm = baseCompute(t, v13)
	a = tm.mustFind(t, 186 /* OpFOrdGreaterThan */, 0, nil)
	tm.insts[a][4] = u32ConstID(t, tm, 1)
	expectOnly(t, tm.encode(), "O.compare")
	tm = baseCompute(t, v13)
	a = tm.mustFind(t, opAll, 0, nil)
	tm.insts[a][3] = u32ConstID(t, tm, 1)
	expectOnly(t, tm.encode(), "O.logical")
}

func TestNegOSelect(t *testing.T) {
	// vector select with a scalar condition is invalid before 1.4 ...
	tm := baseCompute(t, v13)
	boolT := tm.typeID(opTypeBool)
	s := tm.mustFind(t, opSelect, 0, func(in []uint32) bool { return in[1] == tm.typeID(opTypeVector, tm.typeID(opTypeFloat, 32), 3) })
	cc := tm.mustFind(t, opCompositeConstruct, 0, func(in []uint32) bool { return in[2] == tm.insts[s][3] })
	scalarCond := tm.insts[cc][3]
	_ = boolT
	tm.insts[s][3] = scalarCond
	expectOnly(t, tm.encode(), "O.select")
	// ... and valid from 1.4 on
	tm = baseCompute(t, [2]int{1, 4})
	s = tm.mustFind(t, opSelect, 0, func(in []uint32) bool { return in[1] == tm.typeID(opTypeVector, tm.typeID(opTypeFloat, 32), 3) })
	cc = tm.mustFind(t, opCompositeConstruct, 0, func(in []uint32) bool { return in[2] == tm.insts[s][3] })
	tm.insts[s][3] = tm.insts[cc][3]
	expectClean(t, tm.encode())
	// objects of different types
	tm = baseCompute(t, v13)
	s = tm.mustFind(t, opSelect, 0, nil)
	tm.insts[s][4] = f32ConstID(t, tm)
	expectOnly(t, tm.encode(), "O.select")
}

func TestNegOConvertBitcast(t *testing.T) {
	tm := baseCompute(t, v13)
	a := tm.mustFind(t, opConvertFToU, 0, nil)
	tm.insts[a][3] = u32ConstID(t, tm, 1)
	expectOnly(t, tm.encode(), "O.convert")
	tm = baseCompute(t, v13)
	a = tm.mustFind(t, opConvertUToF, 0, nil)
	tm.insts[a][1] = tm.typeID(opTypeInt, 32, 0)
	expectRule(t, tm.encode(), "O.convert")
	// bitcast f32 -> vec2<u32>: bit width mismatch
	tm = baseCompute(t, v13)
	a = tm.mustFind(t, opBitcast, 0, nil)
	tm.insts[a][1] = tm.typeID(opTypeVector, tm.typeID(opTypeInt, 32, 0), 2)
	expectRule(t, tm.encode(), "O.bitcast")
	// bitcast to bool
	tm = baseCompute(t, v13)
	a = tm.mustFind(t, opBitcast, 0, nil)
	tm.insts[a][1] = tm.typeID(opTypeBool)
	expectRule(t, tm.encode(), "O.bitcast")
}

func TestNegOComposite(t *testing.T) {
	// extract index out of range
	tm := baseCompute(t, v13)
	a := tm.mustFind(t, opCompositeExtract, 0, nil)
	tm.insts[a][4] = 9
	expectOnly(t, tm.encode(), "O.composite")
	// construct with too few components
	tm = baseCompute(t, v13)
	a = tm.mustFind(t, opCompositeConstruct, 0, func(in []uint32) bool { return len(in) == 6 })
	tm.insts[a] = mk(opCompositeConstruct, tm.insts[a][1], tm.insts[a][2], tm.insts[a][3], tm.insts[a][4])
	expectOnly(t, tm.encode(), "O.composite")
	// constant composite with a constituent of the wrong type
	tm = baseCompute(t, v13)
	a = tm.mustFind(t, opConstantComposite, 0, nil)
	tm.insts[a][3] = f32ConstID(t, tm)
	expectRule(t, tm.encode(), "O.composite")
	// extract result type mismatch
	tm = baseCompute(t, v13)
	a = tm.mustFind(t, opCompositeExtract, 0, nil)
	tm.insts[a][1] = tm.typeID(opTypeBool)
	expectRule(t, tm.encode(), "O.composite")
}

func TestNegOShuffle(t *testing.T) {
	tm := baseCompute(t, v13)
	a := tm.mustFind(t, opVectorShuffle, 0, nil)
	tm.insts[a][5] = 4 // two vec2 operands: valid literals are 0..3
	expectOnly(t, tm.encode(), "O.shuffle")
	tm.insts[a][5] = 0xFFFFFFFF
	expectClean(t, tm.encode())
	tm.insts[a] = append(tm.insts[a], 0)
	tm.insts[a][0] += 1 << 16
	expectOnly(t, tm.encode(), "O.shuffle")
}

func TestNegOAccessChain(t *testing.T) {
	// struct index out of range
	tm := baseCompute(t, v13)
	sb := tm.mustFind(t, opVariable, 0, func(in []uint32) bool { return in[3] == scStorageBuffer })
	sbID := tm.insts[sb][2]
	a := tm.mustFind(t, opAccessChain, 0, func(in []uint32) bool { return in[3] == sbID })
	tm.insts[a][4] = u32ConstID(t, tm, 64)
	expectOnly(t, tm.encode(), "O.access-chain")
	// non-constant struct index
	tm = baseCompute(t, v13)
	a = tm.mustFind(t, opAccessChain, 1, func(in []uint32) bool { return in[3] == sbID })
	ld := tm.mustFind(t, opLoad, 0, func(in []uint32) bool { return in[1] == tm.typeID(opTypeInt, 32, 0) })
	if ld > a {
		t.Fatalf("test setup: no earlier u32 load")
	}
	tm.insts[a][4] = tm.insts[ld][2]
	expectOnly(t, tm.encode(), "O.access-chain")
	// wrong result pointee
	tm = baseCompute(t, v13)
	a = tm.mustFind(t, opAccessChain, 0, func(in []uint32) bool { return in[3] == sbID })
	other := tm.mustFind(t, opTypePointer, 0, func(in []uint32) bool {
		return in[2] == scStorageBuffer && in[1] != tm.insts[a][1] && in[3] != tm.insts[sb][1]
	})
	tm.insts[a][1] = tm.insts[other][1]
	expectRule(t, tm.encode(), "O.access-chain")
	// float index
	tm = baseCompute(t, v13)
	a = tm.mustFind(t, opAccessChain, 0, func(in []uint32) bool { return in[3] == sbID })
	tm.insts[a][4] = f32ConstID(t, tm)
	expectOnly(t, tm.encode(), "O.access-chain")
}

func TestNegOLoadStore(t *testing.T) {
	tm := baseCompute(t, v13)
	a := tm.mustFind(t, opLoad, 0, nil)
	tm.insts[a][1] = tm.typeID(opTypeBool)
	expectRule(t, tm.encode(), "O.load-store")
	// store an f32 into a u32 variable
	tm = baseCompute(t, v13)
	a = tm.mustFind(t, opStore, 0, nil)
	tm.insts[a][2] = f32ConstID(t, tm)
	expectOnly(t, tm.encode(), "O.load-store")
	// store through an Input pointer
	tm = baseCompute(t, v13)
	in := tm.mustFind(t, opVariable, 0, func(in []uint32) bool {
		return in[3] == scInput && in[1] == tm.typeID(opTypePointer, scInput, tm.typeID(opTypeInt, 32, 0))
	})
	a = tm.mustFind(t, opStore, 0, nil)
	tm.insts[a][1] = tm.insts[in][2]
	expectOnly(t, tm.encode(), "O.load-store")
	// store into the uniform (Block) buffer
	tm = baseCompute(t, v13)
	ac := tm.mustFind(t, opAccessChain, 0, func(in []uint32) bool {
		return in[1] == tm.typeID(opTypePointer, scUniform, tm.typeID(opTypeFloat, 32))
	})
	tm.insert(ac+1, mk(opStore, tm.insts[ac][2], f32ConstID(t, tm)))
	expectOnly(t, tm.encode(), "O.load-store")
}

func TestNegOCallReturn(t *testing.T) {
	tm := baseCompute(t, v13)
	a := tm.mustFind(t, opFunctionCall, 0, nil)
	tm.insts[a][5] = u32ConstID(t, tm, 1) // f32 parameter receives a u32
	expectOnly(t, tm.encode(), "O.call")
	tm = baseCompute(t, v13)
	a = tm.mustFind(t, opFunctionCall, 0, nil)
	tm.insts[a] = mk(opFunctionCall, tm.insts[a][1], tm.insts[a][2], tm.insts[a][3], tm.insts[a][4])
	expectOnly(t, tm.encode(), "O.call")
	tm = baseCompute(t, v13)
	a = tm.mustFind(t, opFunctionCall, 0, nil)
	tm.insts[a][1] = tm.typeID(opTypeFloat, 32)
	expectRule(t, tm.encode(), "O.call")
	// OpReturn in a function returning u32
	tm = baseCompute(t, v13)
	a = tm.mustFind(t, opReturnValue, 0, nil)
	tm.insts[a] = mk(opReturn)
	expectOnly(t, tm.encode(), "O.return")
	// value of the wrong type
	tm = baseCompute(t, v13)
	a = tm.mustFind(t, opReturnValue, 0, nil)
	tm.insts[a][1] = f32ConstID(t, tm)
	expectOnly(t, tm.encode(), "O.return")
	// OpReturnValue in the void entry function
	tm = baseCompute(t, v13)
	a = tm.mustFind(t, opReturn, 0, nil)
	tm.insts[a] = mk(opReturnValue, u32ConstID(t, tm, 1))
	expectOnly(t, tm.encode(), "O.return")
}

func TestNegOAtomic(t *testing.T) {
	// scope operand that is not a constant
	tm := baseCompute(t, v13)
	a := tm.mustFind(t, opAtomicIAdd, 0, nil)
	ld := a - 1
	for ; ld > 0; ld-- { // nearest preceding u32 load (same block)
		if opOf(tm.insts[ld]) == opLoad && tm.insts[ld][1] == tm.typeID(opTypeInt, 32, 0) {
			break
		}
	}
	tm.insts[a][4] = tm.insts[ld][2]
	expectOnly(t, tm.encode(), "O.atomic")
	// atomic on a Function-class pointer
	tm = baseCompute(t, v13)
	a = tm.mustFind(t, opAtomicIAdd, 0, nil)
	v := tm.mustFind(t, opVariable, 0, func(in []uint32) bool {
		return in[3] == scFunction && in[1] == tm.typeID(opTypePointer, scFunction, tm.typeID(opTypeInt, 32, 0))
	})
	tm.insts[a][3] = tm.insts[v][2]
	expectOnly(t, tm.encode(), "O.atomic")
	// value of the wrong type
	tm = baseCompute(t, v13)
	a = tm.mustFind(t, opAtomicIAdd, 0, nil)
	tm.insts[a][6] = f32ConstID(t, tm)
	expectOnly(t, tm.encode(), "O.atomic")
	// float semantics operand on a barrier
	tm = baseCompute(t, v13)
	a = tm.mustFind(t, opControlBarrier, 0, nil)
	tm.insts[a][3] = f32ConstID(t, tm)
	expectOnly(t, tm.encode(), "O.atomic")
}

func TestNegOExtInst(t *testing.T) {
	tm := baseCompute(t, v13)
	a := tm.mustFind(t, opExtInst, 0, nil) // FMax
	tm.insts[a][4] = 200
	expectOnly(t, tm.encode(), "O.extinst")
	tm = baseCompute(t, v13)
	a = tm.mustFind(t, opExtInst, 0, nil)
	tm.insts[a][4] = 43 // FClamp needs 3 operands
	expectOnly(t, tm.encode(), "O.extinst")
	tm = baseCompute(t, v13)
	a = tm.mustFind(t, opExtInst, 0, nil)
	tm.insts[a][4] = 41 // UMax on floats
	expectOnly(t, tm.encode(), "O.extinst")
	tm = baseCompute(t, v13)
	a = tm.mustFind(t, opExtInst, 0, nil)
	tm.insts[a][6] = u32ConstID(t, tm, 1) // FMax(f32, u32)
	expectOnly(t, tm.encode(), "O.extinst")
}

func TestNegOArrayLength(t *testing.T) {
	tm := baseCompute(t, v13)
	a := tm.mustFind(t, opArrayLength, 0, nil)
	tm.insts[a][4] = 2 // not the last member
	expectOnly(t, tm.encode(), "O.array-length")
	tm = baseCompute(t, v13)
	a = tm.mustFind(t, opArrayLength, 0, nil)
	tm.insts[a][1] = tm.typeID(opTypeFloat, 32)
	expectRule(t, tm.encode(), "O.array-length")
}

func TestNegOMatrix(t *testing.T) {
	tm := baseCompute(t, v13)
	a := tm.mustFind(t, opMatrixTimesVector, 0, nil)
	tm.insts[a][3], tm.insts[a][4] = tm.insts[a][4], tm.insts[a][3]
	expectOnly(t, tm.encode(), "O.matrix")
	tm = baseCompute(t, v13)
	a = tm.mustFind(t, opDot, 0, nil)
	tm.insts[a][1] = tm.typeID(opTypeInt, 32, 0)
	expectRule(t, tm.encode(), "O.matrix")
}

func TestNegOBranchSwitch(t *testing.T) {
	tm := baseCompute(t, v13)
	a := tm.mustFind(t, opBranchConditional, 0, nil)
	tm.insts[a][1] = u32ConstID(t, tm, 1)
	expectOnly(t, tm.encode(), "O.branch")
	// duplicate case literal
	tm = baseCompute(t, v13)
	a = tm.mustFind(t, opSwitch, 0, nil)
	tm.insts[a][5] = tm.insts[a][3]
	expectOnly(t, tm.encode(), "O.switch")
	// float selector
	tm = baseCompute(t, v13)
	a = tm.mustFind(t, opSwitch, 0, nil)
	tm.insts[a][1] = f32ConstID(t, tm)
	expectRule(t, tm.encode(), "O.switch")
}

func TestNegOImage(t *testing.T) {
	v10 := [2]int{1, 0}
	// sample from a plain image instead of a sampled image
	tm := baseGfx(t, v10)
	a := tm.mustFind(t, opImageSampleImplicit, 0, nil)
	si := tm.mustFind(t, opSampledImage, 0, nil)
	tm.insts[a][3] = tm.insts[si][3]
	expectOnly(t, tm.encode(), "O.image")
	// integer coordinate for an implicit-lod sample
	tm = baseGfx(t, v10)
	a = tm.mustFind(t, opImageSampleImplicit, 0, nil)
	iv := tm.mustFind(t, opCompositeConstruct, 0, func(in []uint32) bool { return in[1] == tm.typeID(opTypeVector, tm.typeID(opTypeInt, 32, 1), 2) })
	if iv > a {
		// the ivec2 is built later in the function; use a module-scope undef instead
		u := mk(opUndef, tm.typeID(opTypeVector, tm.typeID(opTypeInt, 32, 1), 2), tm.newID())
		tm.insert(tm.firstFunction(), u)
		tm.insts[a+1][4] = u[2]
	} else {
		tm.insts[a][4] = tm.insts[iv][2]
	}
	expectOnly(t, tm.encode(), "O.image")
	// OpSampledImage with two images
	tm = baseGfx(t, v10)
	si = tm.mustFind(t, opSampledImage, 0, nil)
	tm.insts[si][4] = tm.insts[si][3]
	expectOnly(t, tm.encode(), "O.image")
	// result of a sample that is not a 4-vector
	tm = baseGfx(t, v10)
	a = tm.mustFind(t, opImageSampleImplicit, 0, nil)
	tm.insts[a][1] = tm.typeID(opTypeVector, tm.typeID(opTypeFloat, 32), 2)
	expectRule(t, tm.encode(), "O.image")
}
