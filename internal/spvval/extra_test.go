package spvval

import (
	"fmt"
	"sort"
	"strings"
	"testing"

	"github.com/gogpu/naga/spirv"
)

// Minimal reproducers of the naga defects this validator found. Each entry: WGSL, the option
// variant index (see optionVariants), the rule and a detail substring that identify the finding.
var nagaDefects = []struct {
	name, wgsl   string
	variant      int
	rule, substr string
}{
	{"sint-texture-load-to-float", `
@group(0) @binding(0) var ti: texture_2d<i32>;
@fragment fn fs() -> @location(0) vec4<f32> { return vec4<f32>(textureLoad(ti, vec2<i32>(0), 0)); }`,
		0, "O.load-store", "type vec4<i32> differs from the pointee type vec4<f32>"},
	{"pointer-parameter-access-chain-storage-class", `
struct S { f: f32 }
var<private> pv: S;
fn take(p: ptr<private, S>) -> f32 { return (*p).f; }
@fragment fn fs() -> @location(0) vec4<f32> { return vec4<f32>(take(&pv)); }`,
		0, "O.access-chain", "result pointer storage class 7 differs from the base's 6"},
	{"workgroup-pointer-argument-type", `
struct P { a: array<f32, 4> }
var<workgroup> wp: P;
fn f_wg(p: ptr<workgroup, P>, i: i32) -> f32 { return (*p).a[i]; }
@group(0) @binding(0) var<storage, read_write> o: array<f32>;
@compute @workgroup_size(1) fn main() { o[0] = f_wg(&wp, 1); }`,
		0, "O.call", "argument 0"},
	{"restrict-image-load-unsigned-coords", `
@group(0) @binding(0) var t: texture_2d<f32>;
@fragment fn fs() -> @location(0) vec4<f32> { return textureLoad(t, vec2<u32>(1u, 2u), 0); }`,
		1, "O.composite", "has type i32, the vector component requires u32"},
	{"bitcast-vec2f16-to-u32", `
enable f16;
@group(0) @binding(0) var<storage, read_write> o: array<u32>;
@group(0) @binding(1) var<storage, read> h: array<vec2<f16>>;
@compute @workgroup_size(1) fn main() { o[0] = bitcast<u32>(h[0]) + 1u; }`,
		0, "O.load-store", "type vec2<u16> differs from the pointee type u32"},
	{"bitcast-u32-const-to-vec2f16", `
enable f16;
@group(0) @binding(0) var<storage, read_write> o: array<vec2<f16>>;
@compute @workgroup_size(1) fn main() { o[0] = bitcast<vec2<f16>>(1065353216u); }`,
		0, "O.load-store", "type f32 differs from the pointee type vec2<f16>"},
	{"identity-bitcast-64", `
@group(0) @binding(0) var<storage, read_write> o: array<i64>;
@compute @workgroup_size(1) fn main() { o[0] = bitcast<i64>(o[1] + 10li); }`,
		0, "O.bitcast", "are the same type"},
}

// defectPatterns: every shape in which the documented defects surface.
var defectPatterns = []struct{ rule, substr string }{
	{"O.load-store", "type vec4<i32> differs from the pointee type vec4<f32>"},   // sint texture load -> float
	{"O.arith-float", "type vec4<i32> differs from result type vec4<f32>"},       // same defect, value consumed by OpFAdd
	{"O.access-chain", "result pointer storage class 7 differs from the base's"}, // pointer parameter in a non-Function class
	{"O.call", "has type ptr<sc4,"},                                              // workgroup pointer argument: duplicated struct type
	{"O.composite", "has type i32, the vector component requires u32"},           // Restrict image-load clamp
	{"O.bitcast", "are the same type"},                                           // identity bitcast
	{"O.load-store", "type vec2<u16> differs from the pointee type u32"},         // bitcast<u32>(vec2<f16>) typed vec2<u16>
	{"O.arith-int", "type vec2<u32> does not match result type vec2<u16>"},       // same defect, consumed by OpIAdd
	{"O.load-store", "type f32 differs from the pointee type vec2<f16>"},         // bitcast<vec2<f16>>(u32 constant) typed f32
}

func isKnownDefect(f Finding) bool {
	for _, d := range defectPatterns {
		if d.rule == f.Rule && strings.Contains(f.Detail, d.substr) {
			return true
		}
	}
	return false
}

// TestNagaDefectReproducers documents the defects: it fails only if a reproducer produces a finding
// other than the documented one; a reproducer that has gone silent (naga fixed) is logged.
func TestNagaDefectReproducers(t *testing.T) {
	for _, d := range nagaDefects {
		m, err := lowerCorpus(corpusShader{name: d.name, src: d.wgsl})
		if err != nil {
			t.Logf("%s: front end rejects the reproducer: %v", d.name, err)
			continue
		}
		for _, v := range corpusVersions {
			o := optionVariants(spirv.DefaultOptions())[d.variant]
			o.Version = spirv.Version{Major: uint8(v[0]), Minor: uint8(v[1])}
			bin, err := generate(m, o)
			if err != nil {
				t.Logf("%s v%d.%d: backend error: %v", d.name, v[0], v[1], err)
				continue
			}
			rep := Validate(bin, Options{RequestedVersion: v})
			hit := false
			for _, f := range rep.Findings {
				if f.Rule == d.rule && strings.Contains(f.Detail, d.substr) {
					hit = true
				} else if !isKnownDefect(f) {
					t.Errorf("%s v%d.%d: unexpected finding %s", d.name, v[0], v[1], f)
				}
			}
			if !hit {
				t.Logf("%s v%d.%d: defect no longer reproduces (findings: %s)", d.name, v[0], v[1], rulesOf(rep))
			} else if v == corpusVersions[0] {
				t.Logf("%s: reproduced (%s)", d.name, d.rule)
			}
		}
	}
}

// TestExtraShadersSilent runs the stress shaders through all versions and option variants. Apart from the
// documented naga defects the validator must stay silent.
func TestExtraShadersSilent(t *testing.T) {
	names := make([]string, 0, len(extraShaders))
	for n := range extraShaders {
		names = append(names, n)
	}
	sort.Strings(names)
	modules, known := 0, 0
	for _, n := range names {
		m, err := lowerCorpus(corpusShader{name: n, src: extraShaders[n]})
		if err != nil {
			t.Errorf("%s: front end: %v", n, err)
			continue
		}
		seen := map[string]bool{}
		for vi, variant := range optionVariants(spirv.DefaultOptions()) {
			for _, v := range corpusVersions {
				o := variant
				o.Version = spirv.Version{Major: uint8(v[0]), Minor: uint8(v[1])}
				bin, err := generate(m, o)
				if err != nil {
					if k := "backend: " + err.Error(); !seen[k] {
						seen[k] = true
						t.Logf("%s v%d.%d variant %d: %s", n, v[0], v[1], vi, k)
					}
					continue
				}
				modules++
				for _, f := range Validate(bin, Options{RequestedVersion: v}).Findings {
					if isKnownDefect(f) {
						known++
						continue
					}
					if k := f.String(); !seen[k] {
						seen[k] = true
						t.Errorf("%s v%d.%d variant %d: %s", n, v[0], v[1], vi, k)
					}
				}
			}
		}
	}
	t.Logf("%d modules validated, %d findings attributed to documented naga defects", modules, known)
	_ = fmt.Sprint
}
