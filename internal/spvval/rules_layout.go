package spvval

// L rules: logical layout of a module (SPIR-V spec 2.4) and of a function.
// The linear function scan also produces the C1 findings (block termination),
// because that property is about instruction order, not about the CFG.

// moduleSection returns the logical-layout section (spec 2.4, items 1..11) of a
// module-scope instruction, or -1 if the opcode cannot appear at module scope,
// or -2 if it may appear anywhere from section 10 on without changing it.
func moduleSection(op uint16) int {
	switch op {
	case opCapability:
		return 0
	case opExtension:
		return 1
	case opExtInstImport:
		return 2
	case opMemoryModel:
		return 3
	case opEntryPoint:
		return 4
	case opExecutionMode, opExecutionModeId:
		return 5
	case opString, opSourceExtension, opSource, opSourceContinued:
		return 6
	case opName, opMemberName:
		return 7
	case opModuleProcessed:
		return 8
	case opDecorate, opMemberDecorate, opDecorateId, opGroupDecorate, opGroupMemberDecorate, opDecorationGroup:
		return 9
	case opVariable, opUndef, opTypeForwardPointer:
		return 10
	case opLine, opNoLine, opExtInst, opNop:
		return -2
	case opFunction:
		return 11
	}
	if isTypeOp(op) || isConstOp(op) {
		return 10
	}
	return -1
}

var sectionNames = []string{"capabilities", "extensions", "ext-inst-imports", "memory model", "entry points", "execution modes",
	"debug strings/source", "debug names", "module-processed", "annotations", "types/constants/globals", "functions"}

func (m *module) checkLayout() {
	m.fire("L1")
	m.fire("L2")
	section := 0
	memModels := 0
	inFn := false
	reported := 0
	for _, in := range m.insts {
		if in.Op == opFunction {
			inFn = true
			section = 11
			continue
		}
		if in.Op == opFunctionEnd {
			inFn = false
			continue
		}
		if inFn {
			continue
		}
		s := moduleSection(in.Op)
		if in.Op == opMemoryModel {
			memModels++
			if in.Decode == "" {
				am, mm := in.Ops[0].Lit, in.Ops[1].Lit
				if am != 0 && am != 1 && am != 2 && am != 5348 {
					m.fail("L2", "%s: addressing model %d is not a known enumerant", in, am)
				} else if m.caps[capShader] && !m.caps[capKernel] && am != 0 && am != 5348 {
					m.fail("L2", "%s: addressing model %d; a Vulkan shader module must use Logical or PhysicalStorageBuffer64", in, am)
				}
				if mm > 3 {
					m.fail("L2", "%s: memory model %d is not a known enumerant", in, mm)
				} else if m.caps[capShader] && !m.caps[capKernel] && mm != 1 && mm != 3 {
					m.fail("L2", "%s: memory model %d; a Vulkan shader module must use GLSL450 or Vulkan", in, mm)
				}
			}
		}
		if reported >= 8 {
			continue
		}
		switch {
		case s == -1:
			m.fail("L1", "%s is not allowed outside a function", in)
			reported++
		case s == -2:
			if section < 9 && in.Op != opNop {
				m.fail("L1", "%s appears in section %q, only allowed from the annotation/type sections on", in, sectionNames[section])
				reported++
			}
		case s < section:
			m.fail("L1", "%s belongs to section %q but appears after section %q started", in, sectionNames[s], sectionNames[section])
			reported++
		default:
			section = s
		}
	}
	if memModels != 1 {
		m.fail("L2", "module has %d OpMemoryModel instructions, exactly one required", memModels)
	}
	m.checkFunctionLayout()
}

func (m *module) checkFunctionLayout() {
	const (
		stOutside = iota
		stHeader  // after OpFunction / parameters, no block yet
		stBlock   // inside a block
		stAfterTerm
	)
	st := stOutside
	var fn *Inst
	blockNo := 0
	varsAllowed := false
	for _, in := range m.insts {
		switch in.Op {
		case opFunction:
			m.fire("L3")
			if st != stOutside {
				m.fail("L3", "%s appears inside function %%%d (missing OpFunctionEnd)", in, fn.Result)
				if st == stBlock {
					m.fail("C1", "block before %s has no terminator", in)
				}
			}
			st, fn, blockNo = stHeader, in, 0
			continue
		case opFunctionEnd:
			switch st {
			case stOutside:
				m.fail("L3", "%s without a matching OpFunction", in)
			case stBlock:
				m.fail("C1", "last block of function %%%d has no terminator before OpFunctionEnd (word %d)", fn.Result, in.Pos)
			}
			st, fn = stOutside, nil
			continue
		}
		if st == stOutside {
			if in.Op == opVariable && len(in.Ops) > 0 && in.Ops[0].Lit == scFunction {
				m.fail("L3", "%s at module scope has Function storage class", in)
			}
			if in.Op == opLabel || in.Op == opFunctionParameter || isTerminator(in.Op) {
				m.fail("L3", "%s outside any function", in)
			}
			continue
		}
		switch in.Op {
		case opFunctionParameter:
			if st != stHeader {
				m.fail("L3", "%s is not directly after OpFunction of %%%d", in, fn.Result)
			}
			continue
		case opLabel:
			m.fire("C1")
			if st == stBlock {
				m.fail("C1", "block before %s in function %%%d has no terminator", in, fn.Result)
			}
			st = stBlock
			blockNo++
			varsAllowed = blockNo == 1
			continue
		case opLine, opNoLine:
			continue
		}
		switch st {
		case stHeader:
			m.fail("L3", "%s in function %%%d is outside a block (before the first OpLabel)", in, fn.Result)
			continue
		case stAfterTerm:
			m.fail("C1", "%s in function %%%d follows a block terminator without a new OpLabel", in, fn.Result)
			continue
		}
		if in.Op == opVariable {
			if len(in.Ops) > 0 && in.Ops[0].Lit != scFunction {
				m.fail("L3", "%s inside function %%%d has storage class %d, must be Function", in, fn.Result, in.Ops[0].Lit)
			}
			if !varsAllowed {
				m.fail("L3", "%s in function %%%d is not at the start of the first block", in, fn.Result)
			}
		} else {
			varsAllowed = false
		}
		if isTerminator(in.Op) {
			st = stAfterTerm
		}
	}
	if st != stOutside {
		m.fail("L3", "module ends inside function %%%d (missing OpFunctionEnd)", fn.Result)
	}
}
