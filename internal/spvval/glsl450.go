package spvval

// GLSL.std.450 extended instruction set (specification "SPIR-V Extended
// Instructions for GLSL", version 1.00 revision 14).

type glslKind uint8

const (
	gkFloatSame glslKind = iota // all operands and result the same float scalar/vector type
	gkIntSame                   // operands and result integer scalar/vector, same component count and width
	gkSpecial
)

type glslInst struct {
	name  string
	nargs int
	kind  glslKind
}

var glsl450 = map[uint32]glslInst{
	1: {"Round", 1, gkFloatSame}, 2: {"RoundEven", 1, gkFloatSame}, 3: {"Trunc", 1, gkFloatSame},
	4: {"FAbs", 1, gkFloatSame}, 5: {"SAbs", 1, gkIntSame}, 6: {"FSign", 1, gkFloatSame}, 7: {"SSign", 1, gkIntSame},
	8: {"Floor", 1, gkFloatSame}, 9: {"Ceil", 1, gkFloatSame}, 10: {"Fract", 1, gkFloatSame},
	11: {"Radians", 1, gkFloatSame}, 12: {"Degrees", 1, gkFloatSame},
	13: {"Sin", 1, gkFloatSame}, 14: {"Cos", 1, gkFloatSame}, 15: {"Tan", 1, gkFloatSame},
	16: {"Asin", 1, gkFloatSame}, 17: {"Acos", 1, gkFloatSame}, 18: {"Atan", 1, gkFloatSame},
	19: {"Sinh", 1, gkFloatSame}, 20: {"Cosh", 1, gkFloatSame}, 21: {"Tanh", 1, gkFloatSame},
	22: {"Asinh", 1, gkFloatSame}, 23: {"Acosh", 1, gkFloatSame}, 24: {"Atanh", 1, gkFloatSame},
	25: {"Atan2", 2, gkFloatSame}, 26: {"Pow", 2, gkFloatSame},
	27: {"Exp", 1, gkFloatSame}, 28: {"Log", 1, gkFloatSame}, 29: {"Exp2", 1, gkFloatSame}, 30: {"Log2", 1, gkFloatSame},
	31: {"Sqrt", 1, gkFloatSame}, 32: {"InverseSqrt", 1, gkFloatSame},
	33: {"Determinant", 1, gkSpecial}, 34: {"MatrixInverse", 1, gkSpecial},
	35: {"Modf", 2, gkSpecial}, 36: {"ModfStruct", 1, gkSpecial},
	37: {"FMin", 2, gkFloatSame}, 38: {"UMin", 2, gkIntSame}, 39: {"SMin", 2, gkIntSame},
	40: {"FMax", 2, gkFloatSame}, 41: {"UMax", 2, gkIntSame}, 42: {"SMax", 2, gkIntSame},
	43: {"FClamp", 3, gkFloatSame}, 44: {"UClamp", 3, gkIntSame}, 45: {"SClamp", 3, gkIntSame},
	46: {"FMix", 3, gkFloatSame}, 48: {"Step", 2, gkFloatSame}, 49: {"SmoothStep", 3, gkFloatSame},
	50: {"Fma", 3, gkFloatSame}, 51: {"Frexp", 2, gkSpecial}, 52: {"FrexpStruct", 1, gkSpecial},
	53: {"Ldexp", 2, gkSpecial},
	54: {"PackSnorm4x8", 1, gkSpecial}, 55: {"PackUnorm4x8", 1, gkSpecial}, 56: {"PackSnorm2x16", 1, gkSpecial},
	57: {"PackUnorm2x16", 1, gkSpecial}, 58: {"PackHalf2x16", 1, gkSpecial}, 59: {"PackDouble2x32", 1, gkSpecial},
	60: {"UnpackSnorm2x16", 1, gkSpecial}, 61: {"UnpackUnorm2x16", 1, gkSpecial}, 62: {"UnpackHalf2x16", 1, gkSpecial},
	63: {"UnpackSnorm4x8", 1, gkSpecial}, 64: {"UnpackUnorm4x8", 1, gkSpecial}, 65: {"UnpackDouble2x32", 1, gkSpecial},
	66: {"Length", 1, gkSpecial}, 67: {"Distance", 2, gkSpecial}, 68: {"Cross", 2, gkSpecial},
	69: {"Normalize", 1, gkFloatSame}, 70: {"FaceForward", 3, gkFloatSame}, 71: {"Reflect", 2, gkFloatSame},
	72: {"Refract", 3, gkSpecial},
	73: {"FindILsb", 1, gkIntSame}, 74: {"FindSMsb", 1, gkIntSame}, 75: {"FindUMsb", 1, gkIntSame},
	76: {"InterpolateAtCentroid", 1, gkSpecial}, 77: {"InterpolateAtSample", 2, gkSpecial}, 78: {"InterpolateAtOffset", 2, gkSpecial},
	79: {"NMin", 2, gkFloatSame}, 80: {"NMax", 2, gkFloatSame}, 81: {"NClamp", 3, gkFloatSame},
}

func (c *opCtx) extInst() {
	in := c.in
	m := c.m
	set := m.extSets[in.opID(0)]
	if d := m.defs[in.opID(0)]; d == nil || d.Op != opExtInstImport {
		return // I2 / I6 report
	}
	if set != "GLSL.std.450" {
		return // other sets (non-semantic debug info) are not checked
	}
	num, _ := in.opLit(1)
	args := in.idOps()[1:]
	for _, a := range args {
		if m.typeOf(a.ID) == nil {
			return
		}
	}
	if m.types[in.Type] == nil {
		return
	}
	m.fire(c.rule)
	gi, ok := glsl450[num]
	if !ok {
		c.bad("GLSL.std.450 instruction number %d does not exist", num)
		return
	}
	if len(args) != gi.nargs {
		c.bad("GLSL.std.450 %s takes %d operand(s), got %d", gi.name, gi.nargs, len(args))
		return
	}
	tn := func(id uint32) string { return m.typeName(m.typeIDOf(id)) }
	r := c.resultShape()
	rt := m.types[in.Type]
	switch gi.kind {
	case gkFloatSame:
		if !r.ok || r.kind != tkFloat {
			c.bad("%s: result type %s is not a float scalar or vector", gi.name, m.typeName(in.Type))
			return
		}
		for i, a := range args {
			if m.typeIDOf(a.ID) != in.Type {
				c.bad("%s: operand %d (%%%d) type %s differs from result type %s", gi.name, i+1, a.ID, tn(a.ID), m.typeName(in.Type))
			}
		}
	case gkIntSame:
		if !r.ok || r.kind != tkInt {
			c.bad("%s: result type %s is not an integer scalar or vector", gi.name, m.typeName(in.Type))
			return
		}
		for i, a := range args {
			s := m.shapeOf(a.ID)
			if !s.ok || s.kind != tkInt || s.count != r.count || s.width != r.width {
				c.bad("%s: operand %d (%%%d) type %s does not match result type %s in kind/count/width", gi.name, i+1, a.ID, tn(a.ID), m.typeName(in.Type))
			}
		}
	case gkSpecial:
		c.extInstSpecial(gi, num, args, r, rt)
	}
}

func (c *opCtx) extInstSpecial(gi glslInst, num uint32, args []Operand, r shape, rt *Type) {
	in := c.in
	m := c.m
	tn := func(id uint32) string { return m.typeName(m.typeIDOf(id)) }
	a0 := args[0].ID
	t0 := m.typeOf(a0)
	s0 := m.shapeOf(a0)
	isSquareMat := func(t *Type) bool {
		if t == nil || t.Kind != tkMatrix {
			return false
		}
		col := m.types[t.Elem]
		return col != nil && col.Kind == tkVector && col.Count == t.Count
	}
	floatVecN := func(s shape, n, w uint32) bool {
		return s.ok && s.kind == tkFloat && s.vector && s.count == n && s.width == w
	}
	u32 := func(s shape) bool { return s.ok && s.kind == tkInt && !s.vector && s.width == 32 }
	switch num {
	case 33: // Determinant
		if !isSquareMat(t0) {
			c.bad("Determinant: operand type %s is not a square matrix", tn(a0))
			return
		}
		if col := m.types[t0.Elem]; col.Elem != in.Type {
			c.bad("Determinant: result type %s differs from the matrix component type %s", m.typeName(in.Type), m.typeName(col.Elem))
		}
	case 34: // MatrixInverse
		if !isSquareMat(t0) || t0.ID != in.Type {
			c.bad("MatrixInverse: operand type %s must be a square matrix equal to result type %s", tn(a0), m.typeName(in.Type))
		}
	case 35, 51: // Modf / Frexp (x, pointer)
		if !r.ok || r.kind != tkFloat || t0.ID != in.Type {
			c.bad("%s: x type %s must be the float result type %s", gi.name, tn(a0), m.typeName(in.Type))
			return
		}
		pt := m.typeOf(args[1].ID)
		if pt.Kind != tkPointer {
			c.bad("%s: second operand type %s is not a pointer", gi.name, tn(args[1].ID))
			return
		}
		if num == 35 && pt.Elem != in.Type {
			c.bad("Modf: pointer %%%d points to %s, expected %s", args[1].ID, m.typeName(pt.Elem), m.typeName(in.Type))
		}
		if num == 51 {
			ps := m.shapeOfType(m.types[pt.Elem])
			if !ps.ok || ps.kind != tkInt || ps.count != r.count {
				c.bad("Frexp: pointer %%%d points to %s, expected integer type with %d component(s)", args[1].ID, m.typeName(pt.Elem), r.count)
			}
		}
	case 36, 52: // ModfStruct / FrexpStruct
		if rt.Kind != tkStruct || len(rt.Members) != 2 {
			c.bad("%s: result type %s is not a two-member struct", gi.name, m.typeName(in.Type))
			return
		}
		if !s0.ok || s0.kind != tkFloat || rt.Members[0] != t0.ID {
			c.bad("%s: first struct member %s must be the float operand type %s", gi.name, m.typeName(rt.Members[0]), tn(a0))
		}
		if num == 36 && rt.Members[1] != t0.ID {
			c.bad("ModfStruct: second struct member %s must be the operand type %s", m.typeName(rt.Members[1]), tn(a0))
		}
		if num == 52 {
			ms := m.shapeOfType(m.types[rt.Members[1]])
			if !ms.ok || ms.kind != tkInt || ms.count != s0.count {
				c.bad("FrexpStruct: second struct member %s must be an integer type with %d component(s)", m.typeName(rt.Members[1]), s0.count)
			}
		}
	case 53: // Ldexp
		if !r.ok || r.kind != tkFloat || t0.ID != in.Type {
			c.bad("Ldexp: x type %s must be the float result type %s", tn(a0), m.typeName(in.Type))
			return
		}
		es := m.shapeOf(args[1].ID)
		if !es.ok || es.kind != tkInt || es.count != r.count {
			c.bad("Ldexp: exp type %s must be an integer type with %d component(s)", tn(args[1].ID), r.count)
		}
	case 54, 55: // PackSnorm4x8 / PackUnorm4x8
		if !floatVecN(s0, 4, 32) || !u32(r) {
			c.bad("%s: expected vec4<f32> -> 32-bit integer, got %s -> %s", gi.name, tn(a0), m.typeName(in.Type))
		}
	case 56, 57, 58: // PackSnorm2x16 / PackUnorm2x16 / PackHalf2x16
		if !floatVecN(s0, 2, 32) || !u32(r) {
			c.bad("%s: expected vec2<f32> -> 32-bit integer, got %s -> %s", gi.name, tn(a0), m.typeName(in.Type))
		}
	case 59: // PackDouble2x32
		if !(s0.ok && s0.kind == tkInt && s0.vector && s0.count == 2 && s0.width == 32) || !(r.ok && r.kind == tkFloat && !r.vector && r.width == 64) {
			c.bad("PackDouble2x32: expected vec2<32-bit int> -> f64, got %s -> %s", tn(a0), m.typeName(in.Type))
		}
	case 60, 61, 62: // Unpack*2x16
		if !u32(s0) || !floatVecN(r, 2, 32) {
			c.bad("%s: expected 32-bit integer -> vec2<f32>, got %s -> %s", gi.name, tn(a0), m.typeName(in.Type))
		}
	case 63, 64: // Unpack*4x8
		if !u32(s0) || !floatVecN(r, 4, 32) {
			c.bad("%s: expected 32-bit integer -> vec4<f32>, got %s -> %s", gi.name, tn(a0), m.typeName(in.Type))
		}
	case 65: // UnpackDouble2x32
		if !(s0.ok && s0.kind == tkFloat && !s0.vector && s0.width == 64) || !(r.ok && r.kind == tkInt && r.vector && r.count == 2 && r.width == 32) {
			c.bad("UnpackDouble2x32: expected f64 -> vec2<32-bit int>, got %s -> %s", tn(a0), m.typeName(in.Type))
		}
	case 66, 67: // Length / Distance
		if !r.ok || r.kind != tkFloat || r.vector {
			c.bad("%s: result type %s is not a float scalar", gi.name, m.typeName(in.Type))
			return
		}
		for i, a := range args {
			s := m.shapeOf(a.ID)
			if !s.ok || s.kind != tkFloat || s.width != r.width {
				c.bad("%s: operand %d type %s must be a float scalar/vector with the result's component type", gi.name, i+1, tn(a.ID))
			}
		}
		if num == 67 && m.typeIDOf(args[0].ID) != m.typeIDOf(args[1].ID) {
			c.bad("Distance: operand types %s and %s differ", tn(args[0].ID), tn(args[1].ID))
		}
	case 68: // Cross
		if !r.ok || r.kind != tkFloat || !r.vector || r.count != 3 {
			c.bad("Cross: result type %s is not a 3-component float vector", m.typeName(in.Type))
			return
		}
		for i, a := range args {
			if m.typeIDOf(a.ID) != in.Type {
				c.bad("Cross: operand %d type %s differs from result type %s", i+1, tn(a.ID), m.typeName(in.Type))
			}
		}
	case 72: // Refract(I, N, eta)
		if !r.ok || r.kind != tkFloat {
			c.bad("Refract: result type %s is not a float scalar or vector", m.typeName(in.Type))
			return
		}
		for i, a := range args[:2] {
			if m.typeIDOf(a.ID) != in.Type {
				c.bad("Refract: operand %d type %s differs from result type %s", i+1, tn(a.ID), m.typeName(in.Type))
			}
		}
		es := m.shapeOf(args[2].ID)
		if !es.ok || es.kind != tkFloat || es.vector {
			c.bad("Refract: eta type %s is not a float scalar", tn(args[2].ID))
		}
	case 76, 77, 78: // InterpolateAt*
		if t0.Kind != tkPointer || t0.SC != scInput {
			c.bad("%s: interpolant %%%d type %s is not a pointer into the Input storage class", gi.name, a0, tn(a0))
			return
		}
		if t0.Elem != in.Type {
			c.bad("%s: interpolant pointee %s differs from result type %s", gi.name, m.typeName(t0.Elem), m.typeName(in.Type))
		}
	}
}
