package spvval

import "testing"

var v13 = [2]int{1, 3}

// ---- H ----

func TestNegH1BadMagic(t *testing.T) {
	tm := baseCompute(t, v13)
	tm.hdr[0] = 0x07230204
	expectOnly(t, tm.encode(), "H1")
	expectRule(t, []byte{1, 2, 3, 4, 5, 6, 7, 8}, "H1")
	expectRule(t, nil, "H1")
}

func TestNegH2Version(t *testing.T) {
	tm := baseCompute(t, v13)
	tm.hdr[1] = 0x00010700
	expectRule(t, tm.encode(), "H2")
	tm.hdr[1] = 0x01010300
	expectRule(t, tm.encode(), "H2")
	// higher than requested without a feature that needs it
	tm = baseCompute(t, [2]int{1, 2})
	tm.hdr[1] = 0x00010300
	expectOnly(t, tm.encode(), "H2", Options{RequestedVersion: [2]int{1, 2}})
	expectClean(t, tm.encode())
}

func TestNegH3Bound(t *testing.T) {
	tm := baseCompute(t, v13)
	tm.hdr[3] -= 3
	expectOnly(t, tm.encode(), "H3")
}

func TestNegH4Schema(t *testing.T) {
	tm := baseCompute(t, v13)
	tm.hdr[4] = 1
	expectOnly(t, tm.encode(), "H4")
}

func TestNegH5WordCounts(t *testing.T) {
	tm := baseCompute(t, v13)
	bin := tm.encode()
	// trailing garbage word: an instruction whose count runs past the end
	expectRule(t, append(append([]byte(nil), bin...), 0x11, 0x00, 0x05, 0x00), "H5")
	// size not a multiple of 4
	expectRule(t, append(append([]byte(nil), bin...), 0x11), "H5")
	// zero word count
	expectRule(t, append(append([]byte(nil), bin...), 0x11, 0x00, 0x00, 0x00), "H5")
	// OpTypeVoid with a surplus operand
	i := tm.mustFind(t, opTypeVoid, 0, nil)
	tm.insts[i] = mk(opTypeVoid, tm.insts[i][1], 7)
	expectRule(t, tm.encode(), "H5")
	// OpIAdd with a missing operand
	tm = baseCompute(t, v13)
	i = tm.mustFind(t, opIAdd, 0, nil)
	tm.insts[i] = mk(opIAdd, tm.insts[i][1], tm.insts[i][2], tm.insts[i][3])
	expectRule(t, tm.encode(), "H5")
	// unknown opcode
	tm = baseCompute(t, v13)
	tm.insert(tm.firstFunction(), mk(9999))
	expectRule(t, tm.encode(), "H5")
}

// ---- L ----

func TestNegL1SectionOrder(t *testing.T) {
	// swap OpMemoryModel and OpCapability
	tm := baseCompute(t, v13)
	ci, mi := tm.mustFind(t, opCapability, 0, nil), tm.mustFind(t, opMemoryModel, 0, nil)
	tm.insts[ci], tm.insts[mi] = tm.insts[mi], tm.insts[ci]
	expectRule(t, tm.encode(), "L1")
	// a decoration after the first type
	tm = baseCompute(t, v13)
	di := tm.mustFind(t, opDecorate, 0, nil)
	d := tm.insts[di]
	tm.remove(di)
	tm.insert(tm.mustFind(t, opTypeFloat, 0, nil)+1, d)
	expectOnly(t, tm.encode(), "L1")
	// a type declared after the first function
	tm = baseCompute(t, v13)
	fe := tm.mustFind(t, opFunctionEnd, 0, nil)
	tm.insert(fe+1, mk(opTypeInt, tm.newID(), 16, 1))
	expectRule(t, tm.encode(), "L1")
	// an arithmetic instruction at module scope
	tm = baseCompute(t, v13)
	ai := tm.mustFind(t, opIAdd, 0, nil)
	a := append([]uint32(nil), tm.insts[ai]...)
	a[2] = tm.newID()
	tm.insert(tm.firstFunction(), a)
	expectRule(t, tm.encode(), "L1")
}

func TestNegL2MemoryModel(t *testing.T) {
	tm := baseCompute(t, v13)
	mi := tm.mustFind(t, opMemoryModel, 0, nil)
	tm.insert(mi, tm.insts[mi])
	expectOnly(t, tm.encode(), "L2")
	tm = baseCompute(t, v13)
	tm.remove(tm.mustFind(t, opMemoryModel, 0, nil))
	expectRule(t, tm.encode(), "L2")
}

func TestNegL3FunctionLayout(t *testing.T) {
	// OpVariable not at the start of the first block
	tm := baseCompute(t, v13)
	vi := tm.mustFind(t, opVariable, 0, func(in []uint32) bool { return in[3] == scFunction })
	v := tm.insts[vi]
	tm.remove(vi)
	si := tm.mustFind(t, opStore, 0, nil)
	tm.insert(si+1, v)
	expectRule(t, tm.encode(), "L3")
	// missing OpFunctionEnd
	tm = baseCompute(t, v13)
	tm.remove(tm.mustFind(t, opFunctionEnd, 0, nil))
	expectRule(t, tm.encode(), "L3")
	// instruction between OpFunction and the first OpLabel
	tm = baseCompute(t, v13)
	li := tm.mustFind(t, opLabel, 0, nil)
	tm.insert(li, mk(opNop))
	expectOnly(t, tm.encode(), "L3")
	// function variable with a non-Function storage class
	tm = baseCompute(t, v13)
	vi = tm.mustFind(t, opVariable, 0, func(in []uint32) bool { return in[3] == scFunction })
	tm.insts[vi][3] = scPrivate
	expectRule(t, tm.encode(), "L3")
}

// ---- I ----

func TestNegI1DuplicateResult(t *testing.T) {
	tm := baseCompute(t, v13)
	a, b := tm.mustFind(t, opIAdd, 0, nil), tm.mustFind(t, opIAdd, 1, nil)
	tm.insts[b][2] = tm.insts[a][2]
	expectRule(t, tm.encode(), "I1")
}

func TestNegI2UndefinedID(t *testing.T) {
	tm := baseCompute(t, v13)
	a := tm.mustFind(t, opIAdd, 0, nil)
	tm.insts[a][4] = tm.newID()
	expectOnly(t, tm.encode(), "I2")
}

func TestNegI3ForwardReference(t *testing.T) {
	// use a type before its definition: swap OpTypeFloat and the vector type built on it
	tm := baseCompute(t, v13)
	fi := tm.mustFind(t, opTypeFloat, 0, nil)
	vi := tm.mustFind(t, opTypeVector, 0, func(in []uint32) bool { return in[2] == tm.insts[fi][1] })
	tm.insts[fi], tm.insts[vi] = tm.insts[vi], tm.insts[fi]
	expectOnly(t, tm.encode(), "I3")
	// a value used before its definition inside one block
	tm = baseCompute(t, v13)
	a := tm.mustFind(t, opIAdd, 0, nil)
	tm.insts[a], tm.insts[a-1] = tm.insts[a-1], tm.insts[a]
	rep := expectRule(t, tm.encode(), "I3")
	_ = rep
}

func TestNegI4Dominance(t *testing.T) {
	// helper(): `%52 = OpIMul` lives in the "then" block; make the merge block use it
	tm := baseCompute(t, v13)
	mul := tm.mustFind(t, opIMul, 0, nil)
	mulID := tm.insts[mul][2]
	// the OpIAdd after the merge label of the same function
	add := tm.find(opIAdd, 0, nil)
	for i := mul; i < len(tm.insts); i++ {
		if opOf(tm.insts[i]) == opIAdd {
			add = i
			break
		}
	}
	tm.insts[add][4] = mulID
	expectOnly(t, tm.encode(), "I4")
}

func TestNegI5Phi(t *testing.T) {
	// build a phi in the merge block of helper() with a wrong parent
	tm := baseCompute(t, v13)
	sm := tm.mustFind(t, opSelectionMerge, 0, nil)
	mergeID := tm.insts[sm][1]
	br := tm.insts[sm+1] // OpBranchConditional cond then else
	thenID, elseID := br[2], br[3]
	_ = thenID
	ml := tm.mustFind(t, opLabel, 0, func(in []uint32) bool { return in[1] == mergeID })
	u32 := tm.typeID(opTypeInt, 32, 0)
	c := tm.mustFind(t, opConstant, 0, func(in []uint32) bool { return in[1] == u32 })
	cid := tm.insts[c][2]
	// correct phi: only predecessor is the else block (then-block returns)
	good := *tm
	good.insts = append([][]uint32(nil), tm.insts...)
	good.insert(ml+1, mk(opPhi, u32, good.newID(), cid, elseID))
	expectClean(t, good.encode())
	// wrong parent: the merge block itself
	bad := *tm
	bad.insts = append([][]uint32(nil), tm.insts...)
	bad.insert(ml+1, mk(opPhi, u32, bad.newID(), cid, mergeID))
	expectOnly(t, bad.encode(), "I5")
	// phi after a non-phi instruction
	bad2 := *tm
	bad2.insts = append([][]uint32(nil), tm.insts...)
	bad2.insert(ml+2, mk(opPhi, u32, bad2.newID(), cid, elseID))
	expectRule(t, bad2.encode(), "I5")
}

func TestNegI6OperandClass(t *testing.T) {
	// result type operand that is a constant, not a type
	tm := baseCompute(t, v13)
	a := tm.mustFind(t, opIAdd, 0, nil)
	c := tm.mustFind(t, opConstant, 0, nil)
	tm.insts[a][1] = tm.insts[c][2]
	expectRule(t, tm.encode(), "I6")
	// a type id used as a value operand
	tm = baseCompute(t, v13)
	a = tm.mustFind(t, opIAdd, 0, nil)
	tm.insts[a][4] = tm.insts[a][1]
	expectRule(t, tm.encode(), "I6")
	// array length that is a type
	tm = baseCompute(t, v13)
	ar := tm.mustFind(t, opTypeArray, 0, nil)
	tm.insts[ar][3] = tm.insts[ar][2]
	expectRule(t, tm.encode(), "I6")
}

// ---- T ----

func TestNegT1DuplicateType(t *testing.T) {
	tm := baseCompute(t, v13)
	ti := tm.mustFind(t, opTypeInt, 0, nil)
	tm.insert(ti+1, mk(opTypeInt, tm.newID(), tm.insts[ti][2], tm.insts[ti][3]))
	expectOnly(t, tm.encode(), "T1")
	// duplicate pointer / array types are allowed
	tm = baseCompute(t, v13)
	pi := tm.mustFind(t, opTypePointer, 0, nil)
	tm.insert(pi+1, mk(opTypePointer, tm.newID(), tm.insts[pi][2], tm.insts[pi][3]))
	expectClean(t, tm.encode())
}

func TestNegT2Shapes(t *testing.T) {
	tm := baseCompute(t, v13)
	vi := tm.mustFind(t, opTypeVector, 0, nil)
	tm.insert(vi+1, mk(opTypeVector, tm.newID(), tm.insts[vi][2], 5))
	expectOnly(t, tm.encode(), "T2")
	tm = baseCompute(t, v13)
	ti := tm.mustFind(t, opTypeInt, 0, nil)
	tm.insert(ti+1, mk(opTypeInt, tm.newID(), 24, 0))
	expectOnly(t, tm.encode(), "T2")
	tm = baseCompute(t, v13)
	mi := tm.mustFind(t, opTypeMatrix, 0, nil)
	tm.insert(mi+1, mk(opTypeMatrix, tm.newID(), tm.insts[mi][2], 5))
	expectOnly(t, tm.encode(), "T2")
	// matrix of integer vectors
	tm = baseCompute(t, v13)
	uv := tm.mustFind(t, opTypeVector, 0, func(in []uint32) bool { return in[2] == tm.typeID(opTypeInt, 32, 0) })
	tm.insert(uv+1, mk(opTypeMatrix, tm.newID(), tm.insts[uv][1], 2))
	expectOnly(t, tm.encode(), "T2")
}

func TestNegT3Variable(t *testing.T) {
	// storage class operand differs from the pointer type's
	tm := baseCompute(t, v13)
	vi := tm.mustFind(t, opVariable, 0, func(in []uint32) bool { return in[3] == scWorkgroup })
	tm.insts[vi][3] = scPrivate
	expectRule(t, tm.encode(), "T3")
	// initializer of the wrong type
	tm = baseCompute(t, v13)
	vi = tm.mustFind(t, opVariable, 0, func(in []uint32) bool { return len(in) == 5 })
	f := tm.mustFind(t, opConstant, 0, func(in []uint32) bool { return in[1] == tm.typeID(opTypeFloat, 32) })
	tm.insts[vi][4] = tm.insts[f][2]
	expectOnly(t, tm.encode(), "T3")
}

func TestNegT4ArrayLength(t *testing.T) {
	tm := baseCompute(t, v13)
	ar := tm.mustFind(t, opTypeArray, 0, nil)
	zero := tm.mustFind(t, opConstant, 0, func(in []uint32) bool { return in[1] == tm.typeID(opTypeInt, 32, 0) && in[3] == 0 })
	// the zero constant is defined after the array type in the base module: add an own one
	z := mk(opConstant, tm.insts[zero][1], tm.newID(), 0)
	tm.insert(ar, z)
	tm.insts[ar+1][3] = z[2]
	expectRule(t, tm.encode(), "T4")
	// float-typed length
	tm = baseCompute(t, v13)
	ar = tm.mustFind(t, opTypeArray, 0, nil)
	fl := mk(opConstant, tm.typeID(opTypeFloat, 32), tm.newID(), 0x40800000)
	tm.insert(ar, fl)
	tm.insts[ar+1][3] = fl[2]
	expectRule(t, tm.encode(), "T4")
}

func TestNegT5RuntimeArray(t *testing.T) {
	// the struct holding the runtime array loses its Block decoration
	tm := baseCompute(t, v13)
	ra := tm.mustFind(t, opTypeRuntimeArray, 0, nil)
	raID := tm.insts[ra][1]
	st := tm.mustFind(t, opTypeStruct, 0, func(in []uint32) bool { return in[len(in)-1] == raID })
	stID := tm.insts[st][1]
	tm.remove(tm.mustFind(t, opDecorate, 0, func(in []uint32) bool { return in[1] == stID && in[2] == decBlock }))
	expectRule(t, tm.encode(), "T5")
	// runtime array not last: swap the last two members
	tm = baseCompute(t, v13)
	s := tm.insts[st]
	s[len(s)-1], s[len(s)-2] = s[len(s)-2], s[len(s)-1]
	expectRule(t, tm.encode(), "T5")
}

func TestNegT6FunctionType(t *testing.T) {
	// helper(u32, f32): point the OpFunction at the (u32,u32) function type
	tm := baseCompute(t, v13)
	f0, f1 := tm.mustFind(t, opFunction, 0, nil), tm.mustFind(t, opFunction, 1, nil)
	tm.insts[f1][4] = tm.insts[f0][4]
	expectRule(t, tm.encode(), "T6")
	// drop a parameter
	tm = baseCompute(t, v13)
	p := tm.mustFind(t, opFunctionParameter, 1, nil)
	// keep the id defined so that only the signature is wrong: turn it into an OpUndef at module scope
	u := mk(opUndef, tm.insts[p][1], tm.insts[p][2])
	tm.remove(p)
	tm.insert(tm.firstFunction(), u)
	expectRule(t, tm.encode(), "T6")
}
