package spvval

import "fmt"

// K rules: capabilities and extensions (SPIR-V spec 3.31 "Capability" and the
// "Enabling Capabilities" / "Missing before version" columns of every enumerant table).

const (
	capMatrix                   = 0
	capShader                   = 1
	capGeometry                 = 2
	capTessellation             = 3
	capAddresses                = 4
	capLinkage                  = 5
	capKernel                   = 6
	capVector16                 = 7
	capFloat16Buffer            = 8
	capFloat16                  = 9
	capFloat64                  = 10
	capInt64                    = 11
	capInt64Atomics             = 12
	capImageBasic               = 13
	capAtomicStorage            = 21
	capInt16                    = 22
	capTessellationPointSize    = 23
	capGeometryPointSize        = 24
	capImageGatherExtended      = 25
	capStorageImageMultisample  = 27
	capClipDistance             = 32
	capCullDistance             = 33
	capImageCubeArray           = 34
	capSampleRateShading        = 35
	capImageRect                = 36
	capSampledRect              = 37
	capGenericPointer           = 38
	capInt8                     = 39
	capInputAttachment          = 40
	capSparseResidency          = 41
	capMinLod                   = 42
	capSampled1D                = 43
	capImage1D                  = 44
	capSampledCubeArray         = 45
	capSampledBuffer            = 46
	capImageBuffer              = 47
	capImageMSArray             = 48
	capStorageImageExtFormats   = 49
	capImageQuery               = 50
	capDerivativeControl        = 51
	capInterpolationFunction    = 52
	capTransformFeedback        = 53
	capGeometryStreams          = 54
	capStorageImageReadNoFmt    = 55
	capStorageImageWriteNoFmt   = 56
	capMultiViewport            = 57
	capGroupNonUniform          = 61
	capGroupNonUniformVote      = 62
	capGroupNonUniformArith     = 63
	capGroupNonUniformBallot    = 64
	capGroupNonUniformShuffle   = 65
	capGroupNonUniformShuffleRe = 66
	capGroupNonUniformClustered = 67
	capGroupNonUniformQuad      = 68
	capShaderLayer              = 69
	capShaderViewportIndex      = 70
	capSubgroupBallotKHR        = 4423
	capDrawParameters           = 4427
	capSubgroupVoteKHR          = 4431
	capStorageBuffer16          = 4433
	capUniformAndStorage16      = 4434
	capStoragePushConstant16    = 4435
	capStorageInputOutput16     = 4436
	capDeviceGroup              = 4437
	capMultiView                = 4439
	capVariablePointersSB       = 4441
	capVariablePointers         = 4442
	capStorageBuffer8           = 4448
	capUniformAndStorage8       = 4449
	capStoragePushConstant8     = 4450
	capRayQueryProvisionalKHR   = 4471
	capRayQueryKHR              = 4472
	capRayTracingKHR            = 4479
	capInt64ImageEXT            = 5016
	capShaderViewportIdxLayer   = 5254
	capMeshShadingNV            = 5266
	capMeshShadingEXT           = 5283
	capFragmentBarycentricKHR   = 5284
	capShaderNonUniform         = 5301
	capRuntimeDescriptorArray   = 5302
	capRayTracingNV             = 5340
	capVulkanMemoryModel        = 5345
	capPhysicalStorageBuffer    = 5347
	capDemoteToHelper           = 5379
	capAtomicFloat32MinMaxEXT   = 5612
	capAtomicFloat64MinMaxEXT   = 5613
	capAtomicFloat16MinMaxEXT   = 5616
	capDotProductInputAll       = 6016
	capDotProductInput4x8Bit    = 6017
	capDotProductInput4x8Packed = 6018
	capDotProduct               = 6019
	capAtomicFloat32AddEXT      = 6033
	capAtomicFloat64AddEXT      = 6034
	capAtomicFloat16AddEXT      = 6095
)

// capImplies: "Implicitly Declares" column of the capability table.
var capImplies = map[uint32][]uint32{
	capShader: {capMatrix}, capGeometry: {capShader}, capTessellation: {capShader}, capVector16: {capKernel},
	capFloat16Buffer: {capKernel}, capInt64Atomics: {capInt64}, capImageBasic: {capKernel}, capAtomicStorage: {capShader},
	capTessellationPointSize: {capTessellation}, capGeometryPointSize: {capGeometry}, capImageGatherExtended: {capShader},
	capStorageImageMultisample: {capShader}, 28: {capShader}, 29: {capShader}, 30: {capShader}, 31: {capShader},
	capClipDistance: {capShader}, capCullDistance: {capShader}, capImageCubeArray: {capSampledCubeArray},
	capSampleRateShading: {capShader}, capImageRect: {capSampledRect}, capSampledRect: {capShader},
	capInputAttachment: {capShader}, capSparseResidency: {capShader}, capMinLod: {capShader}, capImage1D: {capSampled1D},
	capSampledCubeArray: {capShader}, capImageBuffer: {capSampledBuffer}, capImageMSArray: {capShader},
	capStorageImageExtFormats: {capShader}, capImageQuery: {capShader}, capDerivativeControl: {capShader},
	capInterpolationFunction: {capShader}, capTransformFeedback: {capShader}, capGeometryStreams: {capGeometry},
	capStorageImageReadNoFmt: {capShader}, capStorageImageWriteNoFmt: {capShader}, capMultiViewport: {capGeometry},
	capGroupNonUniformVote: {capGroupNonUniform}, capGroupNonUniformArith: {capGroupNonUniform},
	capGroupNonUniformBallot: {capGroupNonUniform}, capGroupNonUniformShuffle: {capGroupNonUniform},
	capGroupNonUniformShuffleRe: {capGroupNonUniform}, capGroupNonUniformClustered: {capGroupNonUniform},
	capGroupNonUniformQuad: {capGroupNonUniform}, capShaderLayer: {capShader}, capShaderViewportIndex: {capShader},
	capDrawParameters: {capShader}, capUniformAndStorage16: {capStorageBuffer16}, capMultiView: {capShader},
	capVariablePointersSB: {capShader}, capVariablePointers: {capVariablePointersSB},
	capUniformAndStorage8: {capStorageBuffer8}, capRayQueryKHR: {capShader}, capRayQueryProvisionalKHR: {capShader},
	capRayTracingKHR: {capShader}, capShaderViewportIdxLayer: {capMultiViewport}, capMeshShadingNV: {capShader},
	capMeshShadingEXT: {capShader}, capShaderNonUniform: {capShader}, capRuntimeDescriptorArray: {capShader},
	5303: {capShaderNonUniform}, 5304: {capShaderNonUniform}, 5305: {capShaderNonUniform}, 5306: {capShaderNonUniform},
	5307: {capShaderNonUniform}, 5308: {capShaderNonUniform}, 5309: {capShaderNonUniform}, 5310: {capShaderNonUniform},
	5311: {capShaderNonUniform}, 5312: {capShaderNonUniform},
	capPhysicalStorageBuffer: {capShader}, capDemoteToHelper: {capShader}, capDotProductInput4x8Bit: {capInt8},
	capAtomicFloat32AddEXT: {capShader}, capAtomicFloat64AddEXT: {capShader}, capAtomicFloat16AddEXT: {capShader},
	capAtomicFloat32MinMaxEXT: {capShader}, capAtomicFloat64MinMaxEXT: {capShader}, capAtomicFloat16MinMaxEXT: {capShader},
	capInt64ImageEXT: {capShader}, capRayTracingNV: {capShader},
}

// capExtension: capability -> (extension(s) that provide it, core-since version {major,minor} or {0,0} if never core).
type capExt struct {
	exts []string
	core [2]int
}

var capExtension = map[uint32]capExt{
	capSubgroupBallotKHR:        {[]string{"SPV_KHR_shader_ballot"}, [2]int{0, 0}},
	capSubgroupVoteKHR:          {[]string{"SPV_KHR_subgroup_vote"}, [2]int{0, 0}},
	capDrawParameters:           {[]string{"SPV_KHR_shader_draw_parameters"}, [2]int{1, 3}},
	capStorageBuffer16:          {[]string{"SPV_KHR_16bit_storage"}, [2]int{1, 3}},
	capUniformAndStorage16:      {[]string{"SPV_KHR_16bit_storage"}, [2]int{1, 3}},
	capStoragePushConstant16:    {[]string{"SPV_KHR_16bit_storage"}, [2]int{1, 3}},
	capStorageInputOutput16:     {[]string{"SPV_KHR_16bit_storage"}, [2]int{1, 3}},
	capDeviceGroup:              {[]string{"SPV_KHR_device_group"}, [2]int{1, 3}},
	capMultiView:                {[]string{"SPV_KHR_multiview"}, [2]int{1, 3}},
	capVariablePointersSB:       {[]string{"SPV_KHR_variable_pointers"}, [2]int{1, 3}},
	capVariablePointers:         {[]string{"SPV_KHR_variable_pointers"}, [2]int{1, 3}},
	capStorageBuffer8:           {[]string{"SPV_KHR_8bit_storage"}, [2]int{1, 5}},
	capUniformAndStorage8:       {[]string{"SPV_KHR_8bit_storage"}, [2]int{1, 5}},
	capStoragePushConstant8:     {[]string{"SPV_KHR_8bit_storage"}, [2]int{1, 5}},
	capRayQueryKHR:              {[]string{"SPV_KHR_ray_query"}, [2]int{0, 0}},
	capRayQueryProvisionalKHR:   {[]string{"SPV_KHR_ray_query"}, [2]int{0, 0}},
	capRayTracingKHR:            {[]string{"SPV_KHR_ray_tracing"}, [2]int{0, 0}},
	capInt64ImageEXT:            {[]string{"SPV_EXT_shader_image_int64"}, [2]int{0, 0}},
	capShaderViewportIdxLayer:   {[]string{"SPV_EXT_shader_viewport_index_layer", "SPV_NV_viewport_array2"}, [2]int{0, 0}},
	capMeshShadingEXT:           {[]string{"SPV_EXT_mesh_shader"}, [2]int{0, 0}},
	capMeshShadingNV:            {[]string{"SPV_NV_mesh_shader"}, [2]int{0, 0}},
	capFragmentBarycentricKHR:   {[]string{"SPV_KHR_fragment_shader_barycentric", "SPV_NV_fragment_shader_barycentric"}, [2]int{0, 0}},
	capShaderNonUniform:         {[]string{"SPV_EXT_descriptor_indexing"}, [2]int{1, 5}},
	capRuntimeDescriptorArray:   {[]string{"SPV_EXT_descriptor_indexing"}, [2]int{1, 5}},
	capVulkanMemoryModel:        {[]string{"SPV_KHR_vulkan_memory_model"}, [2]int{1, 5}},
	capPhysicalStorageBuffer:    {[]string{"SPV_KHR_physical_storage_buffer", "SPV_EXT_physical_storage_buffer"}, [2]int{1, 5}},
	capDemoteToHelper:           {[]string{"SPV_EXT_demote_to_helper_invocation"}, [2]int{1, 6}},
	capAtomicFloat32MinMaxEXT:   {[]string{"SPV_EXT_shader_atomic_float_min_max"}, [2]int{0, 0}},
	capAtomicFloat64MinMaxEXT:   {[]string{"SPV_EXT_shader_atomic_float_min_max"}, [2]int{0, 0}},
	capAtomicFloat16MinMaxEXT:   {[]string{"SPV_EXT_shader_atomic_float_min_max"}, [2]int{0, 0}},
	capDotProductInputAll:       {[]string{"SPV_KHR_integer_dot_product"}, [2]int{1, 6}},
	capDotProductInput4x8Bit:    {[]string{"SPV_KHR_integer_dot_product"}, [2]int{1, 6}},
	capDotProductInput4x8Packed: {[]string{"SPV_KHR_integer_dot_product"}, [2]int{1, 6}},
	capDotProduct:               {[]string{"SPV_KHR_integer_dot_product"}, [2]int{1, 6}},
	capAtomicFloat32AddEXT:      {[]string{"SPV_EXT_shader_atomic_float_add"}, [2]int{0, 0}},
	capAtomicFloat64AddEXT:      {[]string{"SPV_EXT_shader_atomic_float_add"}, [2]int{0, 0}},
	capAtomicFloat16AddEXT:      {[]string{"SPV_EXT_shader_atomic_float16_add"}, [2]int{0, 0}},
}

func init() {
	for c := uint32(5303); c <= 5312; c++ { // the *NonUniformIndexing family
		capExtension[c] = capExt{[]string{"SPV_EXT_descriptor_indexing"}, [2]int{1, 5}}
	}
}

// capMinVersion: capabilities that are "missing before" a version and have no extension.
var capMinVersion = map[uint32][2]int{
	capGroupNonUniform: {1, 3}, capGroupNonUniformVote: {1, 3}, capGroupNonUniformArith: {1, 3},
	capGroupNonUniformBallot: {1, 3}, capGroupNonUniformShuffle: {1, 3}, capGroupNonUniformShuffleRe: {1, 3},
	capGroupNonUniformClustered: {1, 3}, capGroupNonUniformQuad: {1, 3},
	capShaderLayer: {1, 5}, capShaderViewportIndex: {1, 5},
	58: {1, 1}, 59: {1, 1}, 60: {1, 1}, // SubgroupDispatch, NamedBarrier, PipeStorage
}

type capChecker struct {
	m    *module
	have map[uint32]bool // declared + implied
}

func (m *module) capClosure() map[uint32]bool {
	have := map[uint32]bool{}
	var add func(c uint32)
	add = func(c uint32) {
		if have[c] {
			return
		}
		have[c] = true
		for _, i := range capImplies[c] {
			add(i)
		}
	}
	for c := range m.caps {
		add(c)
	}
	return have
}

// need records a finding under rule unless one of anyOf is available. An empty anyOf means "no capability needed".
func (k *capChecker) need(rule string, in *Inst, what string, anyOf ...uint32) {
	if len(anyOf) == 0 {
		return
	}
	k.m.fire(rule)
	for _, c := range anyOf {
		if k.have[c] {
			return
		}
	}
	k.m.fail(rule, "%s: %s requires capability %s, which is neither declared nor implied", in, what, capList(anyOf))
}

func capList(cs []uint32) string {
	s := ""
	for i, c := range cs {
		if i > 0 {
			s += " or "
		}
		s += fmt.Sprintf("%d", c)
	}
	return s
}

func (m *module) needExt(in *Inst, what string, core [2]int, exts ...string) {
	m.fire("K4")
	for _, e := range exts {
		if m.exts[e] {
			return
		}
	}
	if core != [2]int{0, 0} {
		// without the extension the feature itself forces the core version
		m.noteFeatureVersion(core)
		if m.atLeast(core[0], core[1]) {
			return
		}
	}
	since := "never core"
	if core != [2]int{0, 0} {
		since = fmt.Sprintf("core from %d.%d", core[0], core[1])
	}
	m.fail("K4", "%s: %s needs OpExtension %q (%s) in a version %d.%d module", in, what, exts[0], since, m.version[0], m.version[1])
}

// noteFeatureVersion records that some feature of the module needs at least version v.
func (m *module) noteFeatureVersion(v [2]int) {
	if v[0] > m.featureMin[0] || (v[0] == m.featureMin[0] && v[1] > m.featureMin[1]) {
		m.featureMin = v
	}
}

func (m *module) needVersion(in *Inst, what string, v [2]int) {
	m.fire("K4")
	m.noteFeatureVersion(v)
	if !m.atLeast(v[0], v[1]) {
		m.fail("K4", "%s: %s is missing before SPIR-V %d.%d, module is %d.%d", in, what, v[0], v[1], m.version[0], m.version[1])
	}
}

func (m *module) checkCapabilities() {
	k := &capChecker{m: m, have: m.capClosure()}
	// K5 and capability-level extension/version requirements
	allowed := map[uint32]bool{}
	for _, c := range m.opt.AllowedCaps {
		allowed[c] = true
	}
	for _, in := range m.insts {
		if in.Op != opCapability || in.Decode != "" {
			continue
		}
		c := in.Ops[0].Lit
		if m.opt.AllowedCaps != nil {
			m.fire("K5")
			if !allowed[c] {
				m.fail("K5", "%s declares capability %d, which is not in the allowed set", in, c)
			}
		}
		if ce, ok := capExtension[c]; ok {
			m.needExt(in, fmt.Sprintf("capability %d", c), ce.core, ce.exts...)
		}
		if v, ok := capMinVersion[c]; ok {
			m.needVersion(in, fmt.Sprintf("capability %d", c), v)
		}
	}
	storageBufferSeen := false
	for _, in := range m.insts {
		if in.Info == nil || in.Decode != "" {
			continue
		}
		k.checkInst(in, &storageBufferSeen)
	}
	// H2, second half: the module version may exceed the requested one only when a feature forces it.
	if rq := m.opt.RequestedVersion; rq != [2]int{0, 0} {
		m.fire("H2")
		higher := m.version[0] > rq[0] || (m.version[0] == rq[0] && m.version[1] > rq[1])
		forced := m.featureMin[0] > rq[0] || (m.featureMin[0] == rq[0] && m.featureMin[1] > rq[1])
		if higher && !forced {
			m.fail("H2", "module version %d.%d is higher than the requested %d.%d although no feature of the module needs more than %d.%d",
				m.version[0], m.version[1], rq[0], rq[1], m.featureMin[0], m.featureMin[1])
		}
	}
}

func (k *capChecker) checkInst(in *Inst, storageBufferSeen *bool) {
	m := k.m
	op := in.Op
	switch {
	// ---- K2: types ----
	case op == opTypeInt:
		switch in.Ops[0].Lit {
		case 8:
			k.need("K2", in, "8-bit integer type", capInt8, capStorageBuffer8, capUniformAndStorage8, capStoragePushConstant8, capKernel)
		case 16:
			k.need("K2", in, "16-bit integer type", capInt16, capStorageBuffer16, capUniformAndStorage16, capStoragePushConstant16, capStorageInputOutput16, capKernel)
		case 64:
			k.need("K2", in, "64-bit integer type", capInt64)
		default:
			m.fire("K2")
		}
	case op == opTypeFloat:
		switch in.Ops[0].Lit {
		case 16:
			k.need("K2", in, "16-bit float type", capFloat16, capFloat16Buffer, capStorageBuffer16, capUniformAndStorage16, capStoragePushConstant16, capStorageInputOutput16)
		case 64:
			k.need("K2", in, "64-bit float type", capFloat64)
		default:
			m.fire("K2")
		}
	case op == opTypeVector:
		if c := in.Ops[1].Lit; c == 8 || c == 16 {
			k.need("K2", in, "vector with 8/16 components", capVector16)
		}
	case op == opTypeMatrix:
		k.need("K2", in, "matrix type", capMatrix)
	case op == opTypeRuntimeArray:
		k.need("K2", in, "runtime array type", capShader)
	case op == opTypeRayQuery:
		k.need("K2", in, "ray query type", capRayQueryKHR, capRayQueryProvisionalKHR)
	case op == opTypeAccelStruct:
		k.need("K2", in, "acceleration structure type", capRayQueryKHR, capRayQueryProvisionalKHR, capRayTracingKHR, capRayTracingNV)
	case op == opTypeImage:
		k.imageType(in)
	case op == opTypePointer:
		k.storageClass(in, in.Ops[0].Lit, storageBufferSeen)
	case op == opVariable:
		k.storageClass(in, in.Ops[0].Lit, storageBufferSeen)
	// ---- K3: module-level enumerants ----
	case op == opMemoryModel:
		switch in.Ops[0].Lit {
		case 1, 2:
			k.need("K3", in, "physical addressing model", capAddresses)
		case 5348:
			k.need("K3", in, "PhysicalStorageBuffer64 addressing model", capPhysicalStorageBuffer)
		}
		switch in.Ops[1].Lit {
		case 0, 1:
			k.need("K3", in, "Simple/GLSL450 memory model", capShader)
		case 2:
			k.need("K3", in, "OpenCL memory model", capKernel)
		case 3:
			k.need("K3", in, "Vulkan memory model", capVulkanMemoryModel)
		}
	case op == opEntryPoint:
		switch in.Ops[0].Lit {
		case emVertex, emFragment, emGLCompute:
			k.need("K3", in, "execution model", capShader)
		case emTessCtrl, emTessEval:
			k.need("K3", in, "tessellation execution model", capTessellation)
		case emGeometry:
			k.need("K3", in, "Geometry execution model", capGeometry)
		case emKernel:
			k.need("K3", in, "Kernel execution model", capKernel)
		case emTaskEXT, emMeshEXT:
			k.need("K3", in, "mesh/task execution model", capMeshShadingEXT)
		case emTaskNV, emMeshNV:
			k.need("K3", in, "mesh/task execution model", capMeshShadingNV)
		}
	case op == opExecutionMode || op == opExecutionModeId:
		if op == opExecutionModeId {
			m.needVersion(in, "OpExecutionModeId", [2]int{1, 2})
		}
		switch in.Ops[1].Lit {
		case 7, 8, 9, 12, 14, 15, 16, 6: // origin, early tests, depth modes, pixel center
			k.need("K3", in, "fragment execution mode", capShader)
		case 0, 19, 20, 21, 23, 24, 27, 28, 29: // geometry modes
			k.need("K3", in, "geometry execution mode", capGeometry, capTessellation, capMeshShadingEXT, capMeshShadingNV)
		case xmLocalSizeId:
			m.needVersion(in, "LocalSizeId", [2]int{1, 2})
		}
	case op == opDecorate || op == opMemberDecorate || op == opDecorateId:
		k.decoration(in)
	case op == opModuleProcessed:
		m.needVersion(in, "OpModuleProcessed", [2]int{1, 1})
	// ---- K1: instructions ----
	case op >= opImageQueryFormat && op <= opImageQuerySamples:
		k.need("K1", in, in.name(), capImageQuery, capKernel)
	case op >= opDPdx && op <= 209:
		k.need("K1", in, in.name(), capShader)
	case op >= 210 && op <= opFwidthCoarse:
		k.need("K1", in, in.name(), capDerivativeControl)
	case op == opTranspose || (op >= opMatrixTimesScalar && op <= opOuterProduct):
		k.need("K1", in, in.name(), capMatrix)
	case op == opArrayLength || op == opKill || op == opQuantizeToF16 ||
		(op >= opImageSampleImplicit && op <= opImageSampleProjDrefE) || op == opImageGather || op == opImageDrefGather:
		k.need("K1", in, in.name(), capShader)
		k.imageOperands(in)
	case op == opImageFetch:
		k.imageOperands(in)
	case op == opImageRead || op == opImageWrite:
		k.imageOperands(in)
		if it := m.typeOf(in.opID(0)); it != nil && it.Kind == tkImage && it.Format == 0 && it.Dim != 6 {
			if op == opImageRead {
				k.need("K1", in, "OpImageRead from an image with Unknown format", capStorageImageReadNoFmt)
			} else {
				k.need("K1", in, "OpImageWrite to an image with Unknown format", capStorageImageWriteNoFmt)
			}
		}
	case op == opBitFieldInsert || op == opBitFieldSExtract || op == opBitFieldUExtract || op == opBitReverse:
		k.need("K1", in, in.name(), capShader, 6025 /* BitInstructions */)
	case op == opGNUElect:
		m.needVersion(in, in.name(), [2]int{1, 3})
		k.need("K1", in, in.name(), capGroupNonUniform)
	case op >= opGNUAll && op <= opGNUAllEqual:
		m.needVersion(in, in.name(), [2]int{1, 3})
		k.need("K1", in, in.name(), capGroupNonUniformVote)
	case op >= opGNUBroadcast && op <= opGNUBallotFindMSB:
		m.needVersion(in, in.name(), [2]int{1, 3})
		k.need("K1", in, in.name(), capGroupNonUniformBallot)
	case op == opGNUShuffle || op == opGNUShuffleXor:
		m.needVersion(in, in.name(), [2]int{1, 3})
		k.need("K1", in, in.name(), capGroupNonUniformShuffle)
	case op == opGNUShuffleUp || op == opGNUShuffleDown:
		m.needVersion(in, in.name(), [2]int{1, 3})
		k.need("K1", in, in.name(), capGroupNonUniformShuffleRe)
	case op >= opGNUIAdd && op <= opGNULogicalXor:
		m.needVersion(in, in.name(), [2]int{1, 3})
		if g, _ := in.opLit(1); g == 3 { // ClusteredReduce
			k.need("K1", in, in.name()+" ClusteredReduce", capGroupNonUniformClustered)
		} else {
			k.need("K1", in, in.name(), capGroupNonUniformArith, capGroupNonUniformClustered, 5297 /* PartitionedNV */)
		}
	case op == opGNUQuadBroadcast || op == opGNUQuadSwap:
		m.needVersion(in, in.name(), [2]int{1, 3})
		k.need("K1", in, in.name(), capGroupNonUniformQuad)
	case (op >= opRayQueryInitialize && op <= opRayQueryGetIntType) || (op >= opRayQueryGetRayTMin && op <= opRayQueryGetWorldToOb):
		k.need("K1", in, in.name(), capRayQueryKHR, capRayQueryProvisionalKHR)
	case op == opAtomicFAddEXT || op == opAtomicFMinEXT || op == opAtomicFMaxEXT:
		t := m.types[in.Type]
		if t != nil && t.Kind == tkFloat {
			add := map[uint32]uint32{16: capAtomicFloat16AddEXT, 32: capAtomicFloat32AddEXT, 64: capAtomicFloat64AddEXT}
			mm := map[uint32]uint32{16: capAtomicFloat16MinMaxEXT, 32: capAtomicFloat32MinMaxEXT, 64: capAtomicFloat64MinMaxEXT}
			if op == opAtomicFAddEXT {
				k.need("K1", in, in.name(), add[t.Width])
			} else {
				k.need("K1", in, in.name(), mm[t.Width])
			}
		}
	case op >= opAtomicLoad && op <= opAtomicXor:
		// 64-bit integer atomics
		var vt *Type
		if op == opAtomicStore {
			vt = m.typeOf(in.opID(3))
		} else {
			vt = m.types[in.Type]
		}
		if vt != nil && vt.Kind == tkInt && vt.Width == 64 {
			k.need("K1", in, "64-bit integer atomic", capInt64Atomics)
		} else {
			m.fire("K1")
		}
	case op == opSDot || op == opUDot || op == opSUDot || op == opSDotAccSat || op == opUDotAccSat || op == opSUDotAccSat:
		k.need("K1", in, in.name(), capDotProduct)
		m.needExt(in, in.name(), [2]int{1, 6}, "SPV_KHR_integer_dot_product")
		s := m.shapeOf(in.opID(0))
		switch {
		case s.ok && !s.vector:
			k.need("K1", in, in.name()+" on packed 4x8-bit input", capDotProductInput4x8Packed)
		case s.ok && s.vector && s.count == 4 && s.width == 8:
			k.need("K1", in, in.name()+" on 4x8-bit vector input", capDotProductInput4x8Bit)
		case s.ok:
			k.need("K1", in, in.name()+" on vector input", capDotProductInputAll)
		}
	case op == opTerminateInvocation:
		k.need("K1", in, in.name(), capShader)
		m.needExt(in, in.name(), [2]int{1, 6}, "SPV_KHR_terminate_invocation")
	case op == opDemoteToHelper:
		k.need("K1", in, in.name(), capDemoteToHelper)
	case op == opCopyLogical || op == opPtrEqual || op == opPtrNotEqual || op == opPtrDiff:
		m.needVersion(in, in.name(), [2]int{1, 4})
	case op == opDecorationGroup:
	}
}

func (k *capChecker) storageClass(in *Inst, sc uint32, storageBufferSeen *bool) {
	m := k.m
	switch sc {
	case scUniform, scOutput, scPrivate, scPushConstant, scStorageBuffer:
		k.need("K3", in, fmt.Sprintf("storage class %d", sc), capShader)
	case scAtomicCounter:
		k.need("K3", in, "AtomicCounter storage class", capAtomicStorage)
	case scGeneric:
		k.need("K3", in, "Generic storage class", capGenericPointer)
	case scPhysicalStorage:
		k.need("K3", in, "PhysicalStorageBuffer storage class", capPhysicalStorageBuffer)
	case scTaskPayloadEXT:
		k.need("K3", in, "TaskPayloadWorkgroupEXT storage class", capMeshShadingEXT)
	}
	if sc == scStorageBuffer && !*storageBufferSeen {
		*storageBufferSeen = true
		m.needExt(in, "StorageBuffer storage class", [2]int{1, 3}, "SPV_KHR_storage_buffer_storage_class", "SPV_KHR_variable_pointers")
	}
}

func (k *capChecker) imageType(in *Inst) {
	dim, arrayed, ms, sampled, format := in.Ops[1].Lit, in.Ops[3].Lit, in.Ops[4].Lit, in.Ops[5].Lit, in.Ops[6].Lit
	storage := sampled == 2
	switch dim {
	case 0: // 1D
		if storage {
			k.need("K3", in, "1D storage image", capImage1D)
		} else {
			k.need("K3", in, "1D image", capSampled1D)
		}
	case 1: // 2D
		if ms == 1 && storage {
			if arrayed == 1 {
				k.need("K3", in, "multisampled storage image array", capImageMSArray)
			}
			k.need("K3", in, "multisampled storage image", capStorageImageMultisample)
		} else {
			k.m.fire("K3")
		}
	case 3: // Cube
		k.need("K3", in, "cube image", capShader)
		if arrayed == 1 {
			if storage {
				k.need("K3", in, "cube array storage image", capImageCubeArray)
			} else {
				k.need("K3", in, "cube array image", capSampledCubeArray)
			}
		}
	case 4: // Rect
		if storage {
			k.need("K3", in, "rect storage image", capImageRect)
		} else {
			k.need("K3", in, "rect image", capSampledRect)
		}
	case 5: // Buffer
		if storage {
			k.need("K3", in, "buffer storage image", capImageBuffer)
		} else {
			k.need("K3", in, "buffer image", capSampledBuffer)
		}
	case 6: // SubpassData
		k.need("K3", in, "subpass image", capInputAttachment)
	}
	switch {
	case format == 0:
	case format <= 5, format >= 21 && format <= 24, format >= 30 && format <= 33:
		k.need("K3", in, fmt.Sprintf("image format %d", format), capShader)
	case format <= 39:
		k.need("K3", in, fmt.Sprintf("image format %d", format), capStorageImageExtFormats)
	case format == 40 || format == 41:
		k.need("K3", in, fmt.Sprintf("image format %d", format), capInt64ImageEXT)
	}
}

func (k *capChecker) imageOperands(in *Inst) {
	for _, o := range in.Ops {
		if o.Kind != okMask {
			continue
		}
		mask := o.Lit
		if mask&0x1 != 0 {
			k.need("K1", in, "image operand Bias", capShader)
		}
		if mask&0x10 != 0 {
			k.need("K1", in, "image operand Offset (non-constant)", capImageGatherExtended)
		}
		if mask&0x20 != 0 {
			k.need("K1", in, "image operand ConstOffsets", capImageGatherExtended)
		}
		if mask&0x80 != 0 {
			k.need("K1", in, "image operand MinLod", capMinLod)
		}
		if mask&0x3f00 != 0 && mask&0x3000 == 0 {
			k.need("K1", in, "Vulkan-memory-model image operands", capVulkanMemoryModel)
		}
		if mask&0x3000 != 0 {
			k.m.needVersion(in, "SignExtend/ZeroExtend image operands", [2]int{1, 4})
		}
	}
}

func (k *capChecker) decoration(in *Inst) {
	m := k.m
	var dec uint32
	var args []Operand
	if in.Op == opMemberDecorate {
		dec, args = in.Ops[2].Lit, in.Ops[3:]
	} else {
		dec, args = in.Ops[1].Lit, in.Ops[2:]
	}
	if in.Op == opDecorateId {
		m.needVersion(in, "OpDecorateId", [2]int{1, 2})
	}
	switch dec {
	case decRelaxedPrecision, decBlock, decBufferBlock, decArrayStride, decNoPerspective, decFlat, decCentroid, decInvariant,
		decLocation, decComponent, decIndex, decBinding, decDescriptorSet, decOffset, decNoContraction, 26 /* Uniform */ :
		k.need("K3", in, fmt.Sprintf("decoration %d", dec), capShader)
	case decSpecId:
		k.need("K3", in, "decoration SpecId", capShader, capKernel)
	case decRowMajor, decColMajor, decMatrixStride:
		k.need("K3", in, fmt.Sprintf("decoration %d", dec), capMatrix)
	case decPatch:
		k.need("K3", in, "decoration Patch", capTessellation)
	case decSample:
		k.need("K3", in, "decoration Sample", capSampleRateShading)
	case decInputAttachment:
		k.need("K3", in, "decoration InputAttachmentIndex", capInputAttachment)
	case decPerVertexKHR:
		k.need("K3", in, "decoration PerVertexKHR", capFragmentBarycentricKHR)
	case decNonUniform:
		k.need("K3", in, "decoration NonUniform", capShaderNonUniform)
	case decPerPrimitiveEXT:
		k.need("K3", in, "decoration PerPrimitiveEXT", capMeshShadingEXT, capMeshShadingNV)
	case 4469, 4470: // NoSignedWrap, NoUnsignedWrap
		m.needExt(in, "NoSignedWrap/NoUnsignedWrap", [2]int{1, 4}, "SPV_KHR_no_integer_wrap_decoration")
	case decBuiltIn:
		if len(args) == 0 {
			return
		}
		bi := args[0].Lit
		name := fmt.Sprintf("BuiltIn %d", bi)
		switch bi {
		case biPosition, biPointSize, biVertexIndex, biInstanceIndex, biFragCoord, biPointCoord, biFrontFacing, biSampleMask, biFragDepth, biHelperInvocation, 5, 6:
			k.need("K3", in, name, capShader)
		case biClipDistance:
			k.need("K3", in, name, capClipDistance)
		case biCullDistance:
			k.need("K3", in, name, capCullDistance)
		case biPrimitiveId:
			k.need("K3", in, name, capGeometry, capTessellation, capRayTracingKHR, capRayTracingNV, capMeshShadingEXT, capMeshShadingNV)
		case biInvocationId:
			k.need("K3", in, name, capGeometry, capTessellation)
		case biLayer:
			k.need("K3", in, name, capGeometry, capShaderLayer, capShaderViewportIdxLayer, capMeshShadingEXT, capMeshShadingNV)
		case biViewportIndex:
			k.need("K3", in, name, capMultiViewport, capShaderViewportIndex, capShaderViewportIdxLayer, capMeshShadingEXT, capMeshShadingNV)
		case 11, 12, 13, 14: // TessLevelOuter, TessLevelInner, TessCoord, PatchVertices
			k.need("K3", in, name, capTessellation)
		case biSampleId, biSamplePosition:
			k.need("K3", in, name, capSampleRateShading)
		case biSubgroupSize, biSubgroupLocalInvId:
			k.need("K3", in, name, capKernel, capGroupNonUniform, capSubgroupBallotKHR)
		case biNumSubgroups, biSubgroupId, 37, 39:
			k.need("K3", in, name, capKernel, capGroupNonUniform)
		case 4416, 4417, 4418, 4419, 4420: // Subgroup{Eq,Ge,Gt,Le,Lt}Mask
			k.need("K3", in, name, capSubgroupBallotKHR, capGroupNonUniformBallot)
		case biBaseVertex, biBaseInstance:
			k.need("K3", in, name, capDrawParameters)
		case biDrawIndex:
			k.need("K3", in, name, capDrawParameters, capMeshShadingEXT, capMeshShadingNV)
		case 4438: // DeviceIndex
			k.need("K3", in, name, capDeviceGroup)
		case biViewIndex:
			k.need("K3", in, name, capMultiView)
		case biBaryCoordKHR, biBaryCoordNoPerspKHR:
			k.need("K3", in, name, capFragmentBarycentricKHR)
		case 5294, 5295, 5296, 5299: // mesh primitive index / cull builtins
			k.need("K3", in, name, capMeshShadingEXT)
		}
	}
}
