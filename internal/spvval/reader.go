package spvval

import (
	"encoding/binary"
	"fmt"
)

// Inst is one decoded SPIR-V instruction.
type Inst struct {
	Op     uint16
	Words  []uint32 // all words of the instruction, Words[0] is the (wordcount<<16 | opcode) word
	Pos    int      // word index of Words[0] in the module
	Info   *opInfo  // nil if opcode unknown
	Type   uint32   // result type id (0 if none)
	Result uint32   // result id (0 if none)
	// Ops is the decoded operand list after (type, result); filled when Info != nil and decoding succeeded.
	Ops    []Operand
	Decode string // non-empty: operand decoding problem description
}

// Operand is a decoded operand.
type Operand struct {
	Kind opKind // okID, okLit, okString ...
	Word int    // index into Inst.Words of the first word
	N    int    // number of words
	ID   uint32 // for id operands
	Lit  uint32 // for single-word literals (first word otherwise)
	Str  string // for strings
}

func (in *Inst) name() string {
	if in.Info != nil {
		return in.Info.name
	}
	return fmt.Sprintf("Op#%d", in.Op)
}

func (in *Inst) String() string {
	if in.Result != 0 {
		return fmt.Sprintf("%%%d = %s @word %d", in.Result, in.name(), in.Pos)
	}
	return fmt.Sprintf("%s @word %d", in.name(), in.Pos)
}

// idOps returns the id operands (excluding result type and result id).
func (in *Inst) idOps() []Operand {
	var r []Operand
	for _, o := range in.Ops {
		if o.Kind == okID {
			r = append(r, o)
		}
	}
	return r
}

// opID returns the i-th decoded operand's id, or 0.
func (in *Inst) opID(i int) uint32 {
	if i < len(in.Ops) && in.Ops[i].Kind == okID {
		return in.Ops[i].ID
	}
	return 0
}

// opLit returns the i-th decoded operand's literal and whether it exists.
func (in *Inst) opLit(i int) (uint32, bool) {
	if i < len(in.Ops) && in.Ops[i].Kind == okLit {
		return in.Ops[i].Lit, true
	}
	return 0, false
}

type header struct {
	Magic, Version, Generator, Bound, Schema uint32
}

// rawModule is the result of the binary reader.
type rawModule struct {
	Words  []uint32
	Hdr    header
	Insts  []*Inst
	HdrOK  bool
	Errors []Finding // H-rule findings produced while reading
}

const magicNumber = 0x07230203

func bswap(x uint32) uint32 {
	return x>>24 | (x>>8)&0xff00 | (x<<8)&0xff0000 | x<<24
}

// readModule splits the byte stream into words and instructions. It never fails
// hard: problems are recorded as findings and reading stops at the first
// instruction whose word count is broken.
func readModule(bin []byte, fired map[string]int) *rawModule {
	rm := &rawModule{}
	fired["H1"]++
	if len(bin)%4 != 0 {
		rm.Errors = append(rm.Errors, Finding{"H5", fmt.Sprintf("module size %d bytes is not a multiple of 4", len(bin))})
	}
	n := len(bin) / 4
	if n < 5 {
		rm.Errors = append(rm.Errors, Finding{"H1", fmt.Sprintf("module has %d words, header needs 5", n)})
		return rm
	}
	words := make([]uint32, n)
	for i := range words {
		words[i] = binary.LittleEndian.Uint32(bin[4*i:])
	}
	if words[0] != magicNumber {
		if bswap(words[0]) == magicNumber {
			for i := range words {
				words[i] = bswap(words[i])
			}
		} else {
			rm.Errors = append(rm.Errors, Finding{"H1", fmt.Sprintf("bad magic 0x%08x", words[0])})
			return rm
		}
	}
	rm.Words = words
	rm.Hdr = header{words[0], words[1], words[2], words[3], words[4]}
	rm.HdrOK = true
	fired["H5"]++
	pos := 5
	for pos < n {
		w := words[pos]
		wc := int(w >> 16)
		op := uint16(w & 0xffff)
		if wc == 0 {
			rm.Errors = append(rm.Errors, Finding{"H5", fmt.Sprintf("instruction at word %d (opcode %d) has word count 0", pos, op)})
			return rm
		}
		if pos+wc > n {
			rm.Errors = append(rm.Errors, Finding{"H5", fmt.Sprintf("instruction at word %d (opcode %d) word count %d runs past module end (%d words)", pos, op, wc, n)})
			return rm
		}
		in := &Inst{Op: op, Words: words[pos : pos+wc], Pos: pos, Info: opTable[op]}
		decodeInst(in)
		rm.Insts = append(rm.Insts, in)
		pos += wc
	}
	return rm
}

// decodeString decodes a nul-terminated UTF-8 literal string starting at ws[0].
// It returns the string, the number of words consumed and ok=false if no terminator.
func decodeString(ws []uint32) (string, int, bool) {
	var b []byte
	for i, w := range ws {
		for k := 0; k < 4; k++ {
			c := byte(w >> (8 * k))
			if c == 0 {
				return string(b), i + 1, true
			}
			b = append(b, c)
		}
	}
	return string(b), len(ws), false
}

// decodeInst fills Type, Result and Ops according to the opcode table.
func decodeInst(in *Inst) {
	info := in.Info
	if info == nil {
		return
	}
	ws := in.Words
	p := 1
	if info.hasType {
		if p >= len(ws) {
			in.Decode = "missing result type"
			return
		}
		in.Type = ws[p]
		p++
	}
	if info.hasResult {
		if p >= len(ws) {
			in.Decode = "missing result id"
			return
		}
		in.Result = ws[p]
		p++
	}
	for _, k := range info.operands {
		switch k {
		case okID:
			if p >= len(ws) {
				in.Decode = "missing id operand"
				return
			}
			in.Ops = append(in.Ops, Operand{Kind: okID, Word: p, N: 1, ID: ws[p]})
			p++
		case okLit:
			if p >= len(ws) {
				in.Decode = "missing literal operand"
				return
			}
			in.Ops = append(in.Ops, Operand{Kind: okLit, Word: p, N: 1, Lit: ws[p]})
			p++
		case okOptID:
			if p < len(ws) {
				in.Ops = append(in.Ops, Operand{Kind: okID, Word: p, N: 1, ID: ws[p]})
				p++
			}
		case okOptLit:
			if p < len(ws) {
				in.Ops = append(in.Ops, Operand{Kind: okLit, Word: p, N: 1, Lit: ws[p]})
				p++
			}
		case okIDs:
			for p < len(ws) {
				in.Ops = append(in.Ops, Operand{Kind: okID, Word: p, N: 1, ID: ws[p]})
				p++
			}
		case okLits:
			for p < len(ws) {
				in.Ops = append(in.Ops, Operand{Kind: okLit, Word: p, N: 1, Lit: ws[p]})
				p++
			}
		case okString, okOptString:
			if p >= len(ws) {
				if k == okOptString {
					continue
				}
				in.Decode = "missing string operand"
				return
			}
			s, n, ok := decodeString(ws[p:])
			if !ok {
				in.Decode = "string literal not nul-terminated"
				return
			}
			in.Ops = append(in.Ops, Operand{Kind: okString, Word: p, N: n, Str: s})
			p += n
		case okConstVal:
			// context-dependent literal: all remaining words (at least one)
			if p >= len(ws) {
				in.Decode = "missing constant value"
				return
			}
			in.Ops = append(in.Ops, Operand{Kind: okLit, Word: p, N: len(ws) - p, Lit: ws[p]})
			p = len(ws)
		case okRaw:
			if p < len(ws) {
				in.Ops = append(in.Ops, Operand{Kind: okRaw, Word: p, N: len(ws) - p})
				p = len(ws)
			}
		case okMemAccess, okMemAccessReq:
			if p >= len(ws) {
				if k == okMemAccessReq {
					in.Decode = "missing memory access operand"
					return
				}
				continue
			}
			mask := ws[p]
			in.Ops = append(in.Ops, Operand{Kind: okMask, Word: p, N: 1, Lit: mask})
			p++
			if mask&0x2 != 0 { // Aligned
				if p >= len(ws) {
					in.Decode = "Aligned memory access without alignment literal"
					return
				}
				in.Ops = append(in.Ops, Operand{Kind: okLit, Word: p, N: 1, Lit: ws[p]})
				p++
			}
			for _, bit := range []uint32{0x8, 0x10} { // MakePointerAvailable, MakePointerVisible: scope id
				if mask&bit != 0 {
					if p >= len(ws) {
						in.Decode = "memory access mask needs a scope id"
						return
					}
					in.Ops = append(in.Ops, Operand{Kind: okID, Word: p, N: 1, ID: ws[p]})
					p++
				}
			}
		case okImageOps, okImageOpsReq:
			if p >= len(ws) {
				if k == okImageOpsReq {
					in.Decode = "missing image operands"
					return
				}
				continue
			}
			mask := ws[p]
			in.Ops = append(in.Ops, Operand{Kind: okMask, Word: p, N: 1, Lit: mask})
			p++
			// number of ids per bit, in bit order
			type bitn struct {
				bit uint32
				n   int
			}
			for _, b := range []bitn{{0x1, 1}, {0x2, 1}, {0x4, 2}, {0x8, 1}, {0x10, 1}, {0x20, 1}, {0x40, 1}, {0x80, 1}, {0x100, 1}, {0x200, 1}, {0x10000, 1}} {
				if mask&b.bit == 0 {
					continue
				}
				for j := 0; j < b.n; j++ {
					if p >= len(ws) {
						in.Decode = fmt.Sprintf("image operand bit 0x%x lacks its id operand", b.bit)
						return
					}
					in.Ops = append(in.Ops, Operand{Kind: okID, Word: p, N: 1, ID: ws[p]})
					p++
				}
			}
		case okPhiPairs:
			if (len(ws)-p)%2 != 0 {
				in.Decode = "OpPhi operands are not (value, parent) pairs"
				return
			}
			for p < len(ws) {
				in.Ops = append(in.Ops, Operand{Kind: okID, Word: p, N: 1, ID: ws[p]})
				p++
			}
		case okSwitchPairs:
			// literal width depends on the selector type; resolved later. Keep raw.
			if p < len(ws) {
				in.Ops = append(in.Ops, Operand{Kind: okRaw, Word: p, N: len(ws) - p})
				p = len(ws)
			}
		case okGroupMemberPairs:
			if (len(ws)-p)%2 != 0 {
				in.Decode = "operands are not (id, literal) pairs"
				return
			}
			for p < len(ws) {
				in.Ops = append(in.Ops, Operand{Kind: okID, Word: p, N: 1, ID: ws[p]})
				in.Ops = append(in.Ops, Operand{Kind: okLit, Word: p + 1, N: 1, Lit: ws[p+1]})
				p += 2
			}
		}
	}
	if p < len(ws) {
		in.Decode = fmt.Sprintf("%d surplus operand word(s)", len(ws)-p)
	}
}
