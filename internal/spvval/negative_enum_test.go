package spvval

import "testing"

// Enumerant / mask validity checks attached to the structural rules.

func TestNegEnumerants(t *testing.T) {
	// function control mask
	tm := baseCompute(t, v13)
	tm.insts[tm.mustFind(t, opFunction, 0, nil)][3] = 0x30
	expectOnly(t, tm.encode(), "T6")
	// memory model operands
	tm = baseCompute(t, v13)
	tm.insts[tm.mustFind(t, opMemoryModel, 0, nil)][1] = 7
	expectOnly(t, tm.encode(), "L2")
	tm = baseCompute(t, v13)
	tm.insts[tm.mustFind(t, opMemoryModel, 0, nil)][2] = 0 // Simple: not a Vulkan memory model
	expectOnly(t, tm.encode(), "L2")
	// selection control
	tm = baseCompute(t, v13)
	tm.insts[tm.mustFind(t, opSelectionMerge, 0, nil)][2] = 3
	expectOnly(t, tm.encode(), "C3")
	// loop control DependencyLength without its literal
	tm = baseCompute(t, v13)
	tm.insts[tm.mustFind(t, opLoopMerge, 0, nil)][3] = 0x8
	expectOnly(t, tm.encode(), "C4")
	// image type operands
	tm = baseGfx(t, v10)
	img := tm.mustFind(t, opTypeImage, 0, nil)
	tm.insts[img][4] = 3 // Depth
	expectOnly(t, tm.encode(), "T2")
	tm = baseGfx(t, v10)
	tm.insts[img][7] = 0 // Sampled = 0
	expectRule(t, tm.encode(), "T2")
	// LocalSize with a zero dimension
	tm = baseCompute(t, v13)
	tm.insts[tm.mustFind(t, opExecutionMode, 0, nil)][4] = 0
	expectOnly(t, tm.encode(), "E4")
}

func TestNegScopeAndSemanticsValues(t *testing.T) {
	// atomic with CrossDevice scope (constant 0)
	tm := baseCompute(t, v13)
	a := tm.mustFind(t, opAtomicIAdd, 0, nil)
	tm.insts[a][4] = u32ConstID(t, tm, 0)
	expectOnly(t, tm.encode(), "O.atomic")
	// semantics Acquire|Release at once (0x6 | UniformMemory)
	tm = baseCompute(t, v13)
	sem := mk(opConstant, tm.typeID(opTypeInt, 32, 0), tm.newID(), 0x46)
	tm.insert(tm.firstFunction(), sem)
	a = tm.mustFind(t, opAtomicIAdd, 0, nil)
	tm.insts[a][5] = sem[2]
	expectOnly(t, tm.encode(), "O.atomic")
	// SequentiallyConsistent
	tm = baseCompute(t, v13)
	sem = mk(opConstant, tm.typeID(opTypeInt, 32, 0), tm.newID(), 0x50)
	tm.insert(tm.firstFunction(), sem)
	a = tm.mustFind(t, opAtomicIAdd, 0, nil)
	tm.insts[a][5] = sem[2]
	expectOnly(t, tm.encode(), "O.atomic")
	// control barrier with Device execution scope
	tm = baseCompute(t, v13)
	a = tm.mustFind(t, opControlBarrier, 0, nil)
	tm.insts[a][1] = u32ConstID(t, tm, 1)
	expectOnly(t, tm.encode(), "O.atomic")
}
