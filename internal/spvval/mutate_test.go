package spvval

import (
	"encoding/binary"
	"strings"
	"testing"

	"github.com/gogpu/naga"
	"github.com/gogpu/naga/spirv"
)

// ---- helpers to hand-corrupt valid binaries ----

type tmod struct {
	hdr   [5]uint32
	insts [][]uint32
}

func decodeT(t testing.TB, bin []byte) *tmod {
	t.Helper()
	n := len(bin) / 4
	ws := make([]uint32, n)
	for i := range ws {
		ws[i] = binary.LittleEndian.Uint32(bin[4*i:])
	}
	tm := &tmod{}
	copy(tm.hdr[:], ws[:5])
	for p := 5; p < n; {
		wc := int(ws[p] >> 16)
		if wc == 0 || p+wc > n {
			t.Fatalf("bad base module at word %d", p)
		}
		tm.insts = append(tm.insts, append([]uint32(nil), ws[p:p+wc]...))
		p += wc
	}
	return tm
}

func (tm *tmod) encode() []byte {
	var ws []uint32
	ws = append(ws, tm.hdr[:]...)
	for _, in := range tm.insts {
		ws = append(ws, in...)
	}
	out := make([]byte, 4*len(ws))
	for i, w := range ws {
		binary.LittleEndian.PutUint32(out[4*i:], w)
	}
	return out
}

func mk(op uint16, operands ...uint32) []uint32 {
	in := make([]uint32, 0, 1+len(operands))
	in = append(in, uint32(len(operands)+1)<<16|uint32(op))
	return append(in, operands...)
}

func opOf(in []uint32) uint16 { return uint16(in[0] & 0xffff) }

// find returns the index of the n-th (0-based) instruction with the opcode for which pred (may be nil) holds, or -1.
func (tm *tmod) find(op uint16, n int, pred func(in []uint32) bool) int {
	for i, in := range tm.insts {
		if opOf(in) == op && (pred == nil || pred(in)) {
			if n == 0 {
				return i
			}
			n--
		}
	}
	return -1
}

func (tm *tmod) mustFind(t testing.TB, op uint16, n int, pred func(in []uint32) bool) int {
	t.Helper()
	i := tm.find(op, n, pred)
	if i < 0 {
		t.Fatalf("base module has no matching instruction with opcode %d (#%d)", op, n)
	}
	return i
}

func (tm *tmod) remove(i int) { tm.insts = append(tm.insts[:i], tm.insts[i+1:]...) }
func (tm *tmod) insert(i int, in []uint32) {
	tm.insts = append(tm.insts[:i], append([][]uint32{in}, tm.insts[i:]...)...)
}
func (tm *tmod) newID() uint32 {
	id := tm.hdr[3]
	tm.hdr[3]++
	return id
}

// firstFunctionIndex returns the index of the first OpFunction.
func (tm *tmod) firstFunction() int { return tm.find(opFunction, 0, nil) }

// typeID finds the result id of a type instruction matching the words after the result id.
func (tm *tmod) typeID(op uint16, operands ...uint32) uint32 {
	for _, in := range tm.insts {
		if opOf(in) != op || len(in) != 2+len(operands) {
			continue
		}
		ok := true
		for k, w := range operands {
			if in[2+k] != w {
				ok = false
			}
		}
		if ok {
			return in[1]
		}
	}
	return 0
}

func compileT(t testing.TB, src string, ver [2]int) []byte {
	t.Helper()
	ast, err := naga.Parse(src)
	if err != nil {
		t.Fatalf("parse: %v", err)
	}
	m, err := naga.LowerWithSource(ast, src)
	if err != nil {
		t.Fatalf("lower: %v", err)
	}
	o := spirv.DefaultOptions()
	o.Version = spirv.Version{Major: uint8(ver[0]), Minor: uint8(ver[1])}
	bin, err := naga.GenerateSPIRV(m, o)
	if err != nil {
		t.Fatalf("generate: %v", err)
	}
	return bin
}

func rulesOf(rep Report) string {
	var s []string
	for _, f := range rep.Findings {
		s = append(s, f.Rule+": "+f.Detail)
	}
	return strings.Join(s, "\n   ")
}

func expectClean(t testing.TB, bin []byte) {
	t.Helper()
	rep := Validate(bin, Options{})
	if len(rep.Findings) != 0 {
		t.Fatalf("base module is not clean:\n   %s", rulesOf(rep))
	}
}

// expectRule asserts that the rule fires (other rules may fire too, corruption is rarely surgical).
func expectRule(t testing.TB, bin []byte, rule string, opt ...Options) Report {
	t.Helper()
	var o Options
	if len(opt) > 0 {
		o = opt[0]
	}
	rep := Validate(bin, o)
	for _, f := range rep.Findings {
		if f.Rule == "INTERNAL" {
			t.Fatalf("validator panicked: %s", f.Detail)
		}
	}
	for _, f := range rep.Findings {
		if f.Rule == rule {
			if rep.Fired[rule] == 0 && !strings.HasPrefix(rule, "H") {
				t.Errorf("rule %s reported a finding but Fired[%s] == 0", rule, rule)
			}
			return rep
		}
	}
	t.Errorf("expected a %s finding, got:\n   %s", rule, rulesOf(rep))
	return rep
}

// expectOnly asserts that the rule fires and no other rule does (surgical corruption).
func expectOnly(t testing.TB, bin []byte, rule string, opt ...Options) {
	t.Helper()
	rep := expectRule(t, bin, rule, opt...)
	for _, f := range rep.Findings {
		if f.Rule != rule {
			t.Errorf("expected only %s findings, also got %s: %s", rule, f.Rule, f.Detail)
		}
	}
}
