package spvval

import "fmt"

// ---- enumerant values (SPIR-V specification, section 3) ----

const (
	scUniformConstant = 0
	scInput           = 1
	scUniform         = 2
	scOutput          = 3
	scWorkgroup       = 4
	scCrossWorkgroup  = 5
	scPrivate         = 6
	scFunction        = 7
	scGeneric         = 8
	scPushConstant    = 9
	scAtomicCounter   = 10
	scImage           = 11
	scStorageBuffer   = 12
	scPhysicalStorage = 5349
	scTaskPayloadEXT  = 5402
)

const (
	decRelaxedPrecision = 0
	decSpecId           = 1
	decBlock            = 2
	decBufferBlock      = 3
	decRowMajor         = 4
	decColMajor         = 5
	decArrayStride      = 6
	decMatrixStride     = 7
	decBuiltIn          = 11
	decNoPerspective    = 13
	decFlat             = 14
	decPatch            = 15
	decCentroid         = 16
	decSample           = 17
	decInvariant        = 18
	decNonWritable      = 24
	decNonReadable      = 25
	decLocation         = 30
	decComponent        = 31
	decIndex            = 32
	decBinding          = 33
	decDescriptorSet    = 34
	decOffset           = 35
	decNoContraction    = 42
	decInputAttachment  = 43
	decPerVertexKHR     = 5285
	decNonUniform       = 5300
	decPerPrimitiveEXT  = 5271
)

const (
	emVertex    = 0
	emTessCtrl  = 1
	emTessEval  = 2
	emGeometry  = 3
	emFragment  = 4
	emGLCompute = 5
	emKernel    = 6
	emTaskNV    = 5267
	emMeshNV    = 5268
	emTaskEXT   = 5364
	emMeshEXT   = 5365
)

const (
	xmOriginUpperLeft = 7
	xmOriginLowerLeft = 8
	xmDepthReplacing  = 12
	xmLocalSize       = 17
	xmLocalSizeId     = 38
)

type typeKind uint8

const (
	tkInvalid typeKind = iota
	tkVoid
	tkBool
	tkInt
	tkFloat
	tkVector
	tkMatrix
	tkImage
	tkSampler
	tkSampledImage
	tkArray
	tkRuntimeArray
	tkStruct
	tkOpaque
	tkPointer
	tkFunction
	tkRayQuery
	tkAccelStruct
)

// Type is a declared SPIR-V type.
type Type struct {
	ID      uint32
	Kind    typeKind
	Width   uint32 // int/float
	Signed  bool
	Elem    uint32   // vector component / matrix column / array element / pointer pointee / sampled-image image / image sampled type / function return
	Count   uint32   // vector component count, matrix column count
	LenID   uint32   // array length id
	Members []uint32 // struct members / function parameters
	SC      uint32   // pointer storage class
	// image
	Dim, Depth, Arrayed, MS, Sampled, Format uint32
	Inst                                     *Inst
}

type decoration struct {
	Dec  uint32
	Args []uint32
	Inst *Inst
}

// Block is a basic block of a function.
type Block struct {
	Label    uint32
	Insts    []*Inst // including OpLabel and the terminator (if any)
	Index    int     // index in Func.Blocks
	Succs    []int
	Preds    []int
	Reach    bool
	Idom     int // index of immediate dominator (entry: itself); -1 unreachable
	RPO      int
	domIn    int
	domOut   int
	Merge    uint32 // merge block id declared by a merge instruction in this block (0 none)
	Continue uint32 // continue target id (loop merge)
	IsLoop   bool
	IsSel    bool
}

func (b *Block) term() *Inst {
	if len(b.Insts) == 0 {
		return nil
	}
	l := b.Insts[len(b.Insts)-1]
	if isTerminator(l.Op) {
		return l
	}
	return nil
}

// Func is a function definition or declaration.
type Func struct {
	Inst    *Inst
	Params  []*Inst
	Blocks  []*Block
	ByLabel map[uint32]*Block
	End     *Inst
}

type entryPoint struct {
	Inst      *Inst
	Model     uint32
	Fn        uint32
	Name      string
	Interface []uint32
}

// module is the decoded model the rules work on.
type module struct {
	raw        *rawModule
	opt        Options
	version    [2]int // major, minor
	featureMin [2]int // lowest version the module's features need (filled by the K rules)
	insts      []*Inst

	defs     map[uint32]*Inst // result id -> defining instruction (first definition)
	defIndex map[uint32]int   // result id -> index in insts
	types    map[uint32]*Type
	decos    map[uint32][]decoration
	mdecos   map[uint32]map[uint32][]decoration
	caps     map[uint32]bool
	exts     map[string]bool
	extSets  map[uint32]string
	entries  []*entryPoint
	modes    map[uint32][]*Inst // entry function id -> execution mode instructions
	funcs    []*Func
	funcByID map[uint32]*Func
	globals  []*Inst // module-scope OpVariable
	// per-id location inside functions
	inFunc  map[uint32]*Func
	inBlock map[uint32]*Block
	posIn   map[uint32]int // position of defining instruction in its block

	rep *Report
}

func (m *module) fire(rule string) { m.rep.Fired[rule]++ }

func (m *module) fail(rule string, format string, a ...any) {
	if len(m.rep.Findings) >= maxFindings {
		return
	}
	m.rep.Findings = append(m.rep.Findings, Finding{Rule: rule, Detail: fmt.Sprintf(format, a...)})
}

const maxFindings = 200

func (m *module) atLeast(maj, min int) bool {
	return m.version[0] > maj || (m.version[0] == maj && m.version[1] >= min)
}

func (m *module) hasDec(id uint32, dec uint32) bool {
	for _, d := range m.decos[id] {
		if d.Dec == dec {
			return true
		}
	}
	return false
}

func (m *module) getDec(id uint32, dec uint32) (decoration, bool) {
	for _, d := range m.decos[id] {
		if d.Dec == dec {
			return d, true
		}
	}
	return decoration{}, false
}

func (m *module) hasMemberDec(id, member, dec uint32) bool {
	_, ok := m.getMemberDec(id, member, dec)
	return ok
}

func (m *module) getMemberDec(id, member, dec uint32) (decoration, bool) {
	for _, d := range m.mdecos[id][member] {
		if d.Dec == dec {
			return d, true
		}
	}
	return decoration{}, false
}

// typeOf returns the result type of the value with the given id (nil if unknown / not a value).
func (m *module) typeOf(id uint32) *Type {
	d := m.defs[id]
	if d == nil || d.Type == 0 {
		return nil
	}
	return m.types[d.Type]
}

func (m *module) typeIDOf(id uint32) uint32 {
	d := m.defs[id]
	if d == nil {
		return 0
	}
	return d.Type
}

// constValue returns the value of an integer scalar OpConstant / OpConstantNull (never a specialization constant).
func (m *module) constValue(id uint32) (uint64, bool) {
	d := m.defs[id]
	if d == nil {
		return 0, false
	}
	t := m.types[d.Type]
	if t == nil || t.Kind != tkInt {
		return 0, false
	}
	switch d.Op {
	case opConstant:
		if len(d.Words) < 4 {
			return 0, false
		}
		v := uint64(d.Words[3])
		if t.Width == 64 && len(d.Words) >= 5 {
			v |= uint64(d.Words[4]) << 32
		}
		if t.Width < 32 {
			v &= (1 << t.Width) - 1
		}
		return v, true
	case opConstantNull:
		return 0, true
	}
	return 0, false
}

// buildModel runs over the instruction stream once and fills tables. It does not report findings.
func buildModel(rm *rawModule, opt Options, rep *Report) *module {
	m := &module{
		raw: rm, opt: opt, insts: rm.Insts, rep: rep,
		defs: map[uint32]*Inst{}, defIndex: map[uint32]int{}, types: map[uint32]*Type{},
		decos: map[uint32][]decoration{}, mdecos: map[uint32]map[uint32][]decoration{},
		caps: map[uint32]bool{}, exts: map[string]bool{}, extSets: map[uint32]string{},
		modes: map[uint32][]*Inst{}, funcByID: map[uint32]*Func{},
		inFunc: map[uint32]*Func{}, inBlock: map[uint32]*Block{}, posIn: map[uint32]int{},
	}
	m.version = [2]int{int(rm.Hdr.Version >> 16 & 0xff), int(rm.Hdr.Version >> 8 & 0xff)}
	var cur *Func
	var blk *Block
	for idx, in := range rm.Insts {
		if in.Result != 0 {
			if _, dup := m.defs[in.Result]; !dup {
				m.defs[in.Result] = in
				m.defIndex[in.Result] = idx
			}
		}
		if in.Info == nil || in.Decode != "" {
			// still track function structure for robustness
			if cur != nil && blk != nil {
				blk.Insts = append(blk.Insts, in)
			}
			continue
		}
		switch in.Op {
		case opCapability:
			m.caps[in.Ops[0].Lit] = true
		case opExtension:
			m.exts[in.Ops[0].Str] = true
		case opExtInstImport:
			m.extSets[in.Result] = in.Ops[0].Str
		case opEntryPoint:
			ep := &entryPoint{Inst: in, Model: in.Ops[0].Lit, Fn: in.Ops[1].ID, Name: in.Ops[2].Str}
			for _, o := range in.Ops[3:] {
				ep.Interface = append(ep.Interface, o.ID)
			}
			m.entries = append(m.entries, ep)
		case opExecutionMode, opExecutionModeId:
			m.modes[in.Ops[0].ID] = append(m.modes[in.Ops[0].ID], in)
		case opDecorate, opDecorateId:
			d := decoration{Dec: in.Ops[1].Lit, Inst: in}
			for _, o := range in.Ops[2:] {
				if o.Kind == okID {
					d.Args = append(d.Args, o.ID)
				} else {
					d.Args = append(d.Args, o.Lit)
				}
			}
			m.decos[in.Ops[0].ID] = append(m.decos[in.Ops[0].ID], d)
		case opMemberDecorate:
			d := decoration{Dec: in.Ops[2].Lit, Inst: in}
			for _, o := range in.Ops[3:] {
				d.Args = append(d.Args, o.Lit)
			}
			id := in.Ops[0].ID
			if m.mdecos[id] == nil {
				m.mdecos[id] = map[uint32][]decoration{}
			}
			m.mdecos[id][in.Ops[1].Lit] = append(m.mdecos[id][in.Ops[1].Lit], d)
		}
		if isTypeOp(in.Op) && in.Result != 0 {
			if _, dup := m.types[in.Result]; !dup {
				m.types[in.Result] = makeType(in)
			}
		}
		switch in.Op {
		case opFunction:
			cur = &Func{Inst: in, ByLabel: map[uint32]*Block{}}
			blk = nil
			m.funcs = append(m.funcs, cur)
			if _, dup := m.funcByID[in.Result]; !dup {
				m.funcByID[in.Result] = cur
			}
			continue
		case opFunctionEnd:
			if cur != nil {
				cur.End = in
			}
			cur, blk = nil, nil
			continue
		}
		if cur == nil {
			if in.Op == opVariable {
				m.globals = append(m.globals, in)
			}
			continue
		}
		if in.Result != 0 {
			m.inFunc[in.Result] = cur
		}
		switch in.Op {
		case opFunctionParameter:
			if blk == nil {
				cur.Params = append(cur.Params, in)
			}
		case opLabel:
			blk = &Block{Label: in.Result, Index: len(cur.Blocks), Idom: -1}
			cur.Blocks = append(cur.Blocks, blk)
			if _, dup := cur.ByLabel[in.Result]; !dup {
				cur.ByLabel[in.Result] = blk
			}
		}
		if blk != nil {
			if in.Result != 0 {
				m.inBlock[in.Result] = blk
				m.posIn[in.Result] = len(blk.Insts)
			}
			blk.Insts = append(blk.Insts, in)
			switch in.Op {
			case opLoopMerge:
				blk.IsLoop = true
				blk.Merge, blk.Continue = in.Ops[0].ID, in.Ops[1].ID
			case opSelectionMerge:
				blk.IsSel = true
				blk.Merge = in.Ops[0].ID
			}
			if isTerminator(in.Op) {
				blk = nil
			}
		}
	}
	return m
}

func makeType(in *Inst) *Type {
	t := &Type{ID: in.Result, Inst: in}
	switch in.Op {
	case opTypeVoid:
		t.Kind = tkVoid
	case opTypeBool:
		t.Kind = tkBool
	case opTypeInt:
		t.Kind = tkInt
		t.Width = in.Ops[0].Lit
		t.Signed = in.Ops[1].Lit != 0
	case opTypeFloat:
		t.Kind = tkFloat
		t.Width = in.Ops[0].Lit
	case opTypeVector:
		t.Kind = tkVector
		t.Elem, t.Count = in.Ops[0].ID, in.Ops[1].Lit
	case opTypeMatrix:
		t.Kind = tkMatrix
		t.Elem, t.Count = in.Ops[0].ID, in.Ops[1].Lit
	case opTypeImage:
		t.Kind = tkImage
		t.Elem = in.Ops[0].ID
		t.Dim, t.Depth, t.Arrayed, t.MS, t.Sampled, t.Format = in.Ops[1].Lit, in.Ops[2].Lit, in.Ops[3].Lit, in.Ops[4].Lit, in.Ops[5].Lit, in.Ops[6].Lit
	case opTypeSampler:
		t.Kind = tkSampler
	case opTypeSampledImage:
		t.Kind = tkSampledImage
		t.Elem = in.Ops[0].ID
	case opTypeArray:
		t.Kind = tkArray
		t.Elem, t.LenID = in.Ops[0].ID, in.Ops[1].ID
	case opTypeRuntimeArray:
		t.Kind = tkRuntimeArray
		t.Elem = in.Ops[0].ID
	case opTypeStruct:
		t.Kind = tkStruct
		for _, o := range in.Ops {
			t.Members = append(t.Members, o.ID)
		}
	case opTypeOpaque:
		t.Kind = tkOpaque
	case opTypePointer:
		t.Kind = tkPointer
		t.SC, t.Elem = in.Ops[0].Lit, in.Ops[1].ID
	case opTypeFunction:
		t.Kind = tkFunction
		t.Elem = in.Ops[0].ID
		for _, o := range in.Ops[1:] {
			t.Members = append(t.Members, o.ID)
		}
	case opTypeRayQuery:
		t.Kind = tkRayQuery
	case opTypeAccelStruct:
		t.Kind = tkAccelStruct
	}
	return t
}

// ---- type helper predicates ----

// scalarOf returns the component type of a scalar or vector type (nil otherwise) and the component count.
func (m *module) scalarOf(t *Type) (*Type, uint32) {
	if t == nil {
		return nil, 0
	}
	switch t.Kind {
	case tkInt, tkFloat, tkBool:
		return t, 1
	case tkVector:
		e := m.types[t.Elem]
		if e == nil {
			return nil, 0
		}
		switch e.Kind {
		case tkInt, tkFloat, tkBool:
			return e, t.Count
		}
	}
	return nil, 0
}

func (m *module) typeName(id uint32) string { return m.typeNameD(id, 0) }

// typeNameD is typeName with a recursion guard (corrupt modules may contain cyclic types).
func (m *module) typeNameD(id uint32, depth int) string {
	if depth > 6 {
		return fmt.Sprintf("%%%d", id)
	}
	t := m.types[id]
	if t == nil {
		return fmt.Sprintf("%%%d(not a type)", id)
	}
	switch t.Kind {
	case tkVoid:
		return "void"
	case tkBool:
		return "bool"
	case tkInt:
		if t.Signed {
			return fmt.Sprintf("i%d", t.Width)
		}
		return fmt.Sprintf("u%d", t.Width)
	case tkFloat:
		return fmt.Sprintf("f%d", t.Width)
	case tkVector:
		return fmt.Sprintf("vec%d<%s>", t.Count, m.typeNameD(t.Elem, depth+1))
	case tkMatrix:
		return fmt.Sprintf("mat%dx<%s>", t.Count, m.typeNameD(t.Elem, depth+1))
	case tkPointer:
		return fmt.Sprintf("ptr<sc%d,%s>", t.SC, m.typeNameD(t.Elem, depth+1))
	case tkArray:
		return fmt.Sprintf("%%%d=array<%s,%%%d>", id, m.typeNameD(t.Elem, depth+1), t.LenID)
	case tkRuntimeArray:
		return fmt.Sprintf("%%%d=rtarray<%s>", id, m.typeNameD(t.Elem, depth+1))
	case tkStruct:
		return fmt.Sprintf("%%%d=struct", id)
	}
	return fmt.Sprintf("%%%d=%s", id, t.Inst.name())
}
