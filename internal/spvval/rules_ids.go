package spvval

// I rules: id definition, use, forward references, dominance (SPIR-V spec 2.16.1 "Universal Validation Rules", SSA form).

// mayForwardRef reports whether operand #k (index into the decoded id-operand list
// returned by allIDOperands) of instruction in may name an id defined later in the module.
func (m *module) mayForwardRef(in *Inst, k int, id uint32, fwdPtrs map[uint32]bool) bool {
	switch in.Op {
	case opEntryPoint, opExecutionMode, opExecutionModeId, opName, opMemberName,
		opDecorate, opMemberDecorate, opDecorateId, opGroupDecorate, opGroupMemberDecorate, opTypeForwardPointer:
		return true
	case opTypeStruct, opTypePointer, opTypeArray, opTypeRuntimeArray, opTypeFunction:
		return fwdPtrs[id]
	case opFunctionCall:
		return k == 0
	case opPhi:
		return true
	case opBranch:
		return true
	case opBranchConditional:
		return k == 1 || k == 2
	case opSwitch:
		return k >= 1
	case opLoopMerge:
		return k == 0 || k == 1
	case opSelectionMerge:
		return k == 0
	case opExtInst:
		// non-semantic instruction sets may forward reference; GLSL.std.450 may not
		return m.extSets[in.opID(0)] != "GLSL.std.450" && k > 0
	}
	return false
}

func (m *module) checkIDs() {
	// I1: single definition
	seen := map[uint32]*Inst{}
	for _, in := range m.insts {
		if in.Result == 0 {
			continue
		}
		m.fire("I1")
		if prev := seen[in.Result]; prev != nil {
			m.fail("I1", "id %%%d defined twice: %s and %s", in.Result, prev, in)
			continue
		}
		seen[in.Result] = in
	}
	// I2, I3, I6 in stream order
	defined := map[uint32]bool{}
	fwdPtrs := map[uint32]bool{}
	var curFn *Inst
	for _, in := range m.insts {
		if in.Info == nil {
			continue
		}
		if in.Op == opFunction {
			curFn = in
		}
		if in.Info.hasType {
			m.fire("I6")
			if _, ok := m.defs[in.Type]; !ok {
				m.fail("I2", "%s: result type %%%d is not defined anywhere", in, in.Type)
			} else if m.types[in.Type] == nil {
				m.fail("I6", "%s: result type operand %%%d is not a type (%s)", in, in.Type, m.defs[in.Type].name())
			} else if !defined[in.Type] {
				m.fail("I3", "%s: result type %%%d is used before its definition", in, in.Type)
			}
		}
		for k, o := range m.allIDOperands(in) {
			m.fire("I2")
			d, ok := m.defs[o.ID]
			if !ok {
				m.fail("I2", "%s: operand %%%d (word %d) is not defined anywhere in the module", in, o.ID, in.Pos+o.Word)
				continue
			}
			m.fire("I3")
			if !defined[o.ID] && !m.mayForwardRef(in, k, o.ID, fwdPtrs) {
				m.fail("I3", "%s: operand %%%d is used before its definition (%s) where no forward reference is allowed", in, o.ID, d)
			}
			m.checkOperandClass(in, k, o.ID, d, curFn != nil)
		}
		if in.Op == opTypeForwardPointer {
			fwdPtrs[in.Ops[0].ID] = true
		}
		if in.Result != 0 {
			defined[in.Result] = true
		}
		if in.Op == opFunctionEnd {
			curFn = nil
		}
	}
}

// isValueDef reports whether the defining instruction produces a value (has a result type).
func isValueDef(d *Inst) bool { return d.Type != 0 }

// checkOperandClass implements the operand-class part of I6.
func (m *module) checkOperandClass(in *Inst, k int, id uint32, d *Inst, inFunction bool) {
	isType := m.types[id] != nil
	bad := func(want string) {
		m.fail("I6", "%s: operand %%%d must be %s but is defined by %s", in, id, want, d.name())
	}
	switch in.Op {
	case opTypeVector, opTypeMatrix, opTypeRuntimeArray, opTypeStruct, opTypePointer, opTypeFunction, opTypeSampledImage, opTypeImage:
		m.fire("I6")
		if !isType && d.Op != opTypeForwardPointer {
			bad("a type")
		}
	case opTypeArray:
		m.fire("I6")
		if k == 0 && !isType {
			bad("a type")
		}
		if k == 1 && !isConstOp(d.Op) {
			bad("a constant")
		}
	case opConstantComposite:
		m.fire("I6")
		if !isConstOp(d.Op) && d.Op != opUndef {
			bad("a constant")
		} else if isSpecConstOp(d.Op) {
			bad("a non-specialization constant")
		}
	case opSpecConstantComposit:
		m.fire("I6")
		if !isConstOp(d.Op) && d.Op != opUndef {
			bad("a constant")
		}
	case opFunction:
		m.fire("I6")
		if t := m.types[id]; t == nil || t.Kind != tkFunction {
			bad("a function type")
		}
	case opFunctionCall:
		if k == 0 {
			m.fire("I6")
			if d.Op != opFunction {
				bad("an OpFunction")
			}
			return
		}
		fallthrough
	default:
		if !inFunction {
			return
		}
		switch in.Op {
		case opBranch, opLoopMerge, opSelectionMerge, opFunctionParameter, opLabel, opLine:
			return
		case opBranchConditional:
			if k > 0 {
				return
			}
		case opSwitch:
			if k > 0 {
				return
			}
		case opPhi:
			if k%2 == 1 {
				return
			}
		case opExtInst:
			if k == 0 {
				m.fire("I6")
				if d.Op != opExtInstImport {
					bad("an OpExtInstImport")
				}
				return
			}
		}
		// every remaining operand of a function-body instruction consumes a value
		m.fire("I6")
		if !isValueDef(d) {
			bad("a value (an id with a result type)")
		}
	}
}

// checkDominance implements I4 and I5.
func (m *module) checkDominance() {
	for _, f := range m.funcs {
		for _, b := range f.Blocks {
			phiAllowed := true
			for pos, in := range b.Insts {
				if in.Info == nil || in.Decode != "" {
					continue
				}
				switch in.Op {
				case opLabel, opLine, opNoLine:
					continue
				case opPhi:
					m.checkPhi(f, b, in, phiAllowed)
					continue
				}
				phiAllowed = false
				if !b.Reach {
					continue
				}
				for k, o := range m.allIDOperands(in) {
					if isLabelOperand(in, k) {
						continue
					}
					df := m.inFunc[o.ID]
					if df == nil {
						continue // module-scope definition
					}
					dd := m.defs[o.ID]
					if dd == nil || dd.Op == opLabel {
						continue
					}
					m.fire("I4")
					if df != f {
						m.fail("I4", "%s in function %%%d uses %%%d which is defined in function %%%d", in, f.Inst.Result, o.ID, df.Inst.Result)
						continue
					}
					db := m.inBlock[o.ID]
					if db == nil {
						continue // function parameter
					}
					if db == b {
						if m.posIn[o.ID] >= pos {
							m.fail("I4", "%s uses %%%d before its definition in the same block %%%d", in, o.ID, b.Label)
						}
						continue
					}
					if !dominates(db, b) {
						m.fail("I4", "%s in block %%%d uses %%%d whose definition (block %%%d) does not dominate the use", in, b.Label, o.ID, db.Label)
					}
				}
			}
		}
	}
}

// isLabelOperand reports whether id operand #k of in is a label reference.
func isLabelOperand(in *Inst, k int) bool {
	switch in.Op {
	case opBranch, opSelectionMerge:
		return k == 0
	case opLoopMerge:
		return k <= 1
	case opBranchConditional:
		return k == 1 || k == 2
	case opSwitch:
		return k >= 1
	case opPhi:
		return k%2 == 1
	}
	return false
}

func (m *module) checkPhi(f *Func, b *Block, in *Inst, atStart bool) {
	m.fire("I5")
	if !atStart {
		m.fail("I5", "%s in block %%%d is preceded by a non-OpPhi instruction", in, b.Label)
	}
	ids := in.idOps()
	seen := map[uint32]bool{}
	for i := 0; i+1 < len(ids); i += 2 {
		val, parent := ids[i].ID, ids[i+1].ID
		pb := f.ByLabel[parent]
		if pb == nil {
			m.fail("I5", "%s: parent %%%d is not a block label of function %%%d", in, parent, f.Inst.Result)
			continue
		}
		if seen[parent] {
			m.fail("I5", "%s: parent block %%%d listed more than once", in, parent)
			continue
		}
		seen[parent] = true
		isPred := false
		for _, p := range b.Preds {
			if p == pb.Index {
				isPred = true
			}
		}
		if !isPred {
			m.fail("I5", "%s: parent %%%d is not a predecessor of block %%%d", in, parent, b.Label)
			continue
		}
		// I4 for phi: the value's definition must dominate the end of the parent block
		if !b.Reach || !pb.Reach {
			continue
		}
		df := m.inFunc[val]
		if df == nil {
			continue
		}
		m.fire("I4")
		if df != f {
			m.fail("I4", "%s uses %%%d which is defined in function %%%d", in, val, df.Inst.Result)
			continue
		}
		db := m.inBlock[val]
		if db == nil {
			continue
		}
		if db != pb && !dominates(db, pb) {
			m.fail("I4", "%s: value %%%d (block %%%d) does not dominate parent block %%%d", in, val, db.Label, parent)
		}
		// I6-like: value type equals the phi's result type
		if vt := m.typeIDOf(val); vt != 0 && vt != in.Type {
			m.fail("I6", "%s: incoming value %%%d has type %%%d, result type is %%%d", in, val, vt, in.Type)
		}
	}
	for _, p := range b.Preds {
		if !seen[f.Blocks[p].Label] {
			m.fail("I5", "%s in block %%%d has no entry for predecessor %%%d", in, b.Label, f.Blocks[p].Label)
		}
	}
}
