package spvval

import (
	"strings"
	"testing"
)

var v10 = [2]int{1, 0}

func decoIndex(t testing.TB, tm *tmod, target, dec uint32) int {
	return tm.mustFind(t, opDecorate, 0, func(in []uint32) bool { return in[1] == target && in[2] == dec })
}

func memberDecoIndex(t testing.TB, tm *tmod, target, member, dec uint32) int {
	return tm.mustFind(t, opMemberDecorate, 0, func(in []uint32) bool { return in[1] == target && in[2] == member && in[3] == dec })
}

// blockStructOf returns the struct type id behind the first variable of the storage class.
func blockStructOf(t testing.TB, tm *tmod, sc uint32) (varID, structID uint32) {
	v := tm.mustFind(t, opVariable, 0, func(in []uint32) bool { return in[3] == sc })
	p := tm.mustFind(t, opTypePointer, 0, func(in []uint32) bool { return in[1] == tm.insts[v][1] })
	return tm.insts[v][2], tm.insts[p][3]
}

// ---- D ----

func TestNegD1Block(t *testing.T) {
	tm := baseCompute(t, v13)
	_, st := blockStructOf(t, tm, scUniform)
	tm.remove(decoIndex(t, tm, st, decBlock))
	expectOnly(t, tm.encode(), "D1")
	// BufferBlock on a StorageBuffer-class struct
	tm = baseCompute(t, v13)
	_, st = blockStructOf(t, tm, scStorageBuffer)
	tm.insts[decoIndex(t, tm, st, decBlock)][2] = decBufferBlock
	expectRule(t, tm.encode(), "D1")
}

func TestNegD2Offset(t *testing.T) {
	tm := baseCompute(t, v13)
	_, st := blockStructOf(t, tm, scStorageBuffer)
	tm.remove(memberDecoIndex(t, tm, st, 2, decOffset))
	expectOnly(t, tm.encode(), "D2")
	// nested struct member (array<Inner,4> element)
	tm = baseCompute(t, v13)
	inner := tm.mustFind(t, opTypeStruct, 0, nil)
	tm.remove(memberDecoIndex(t, tm, tm.insts[inner][1], 1, decOffset))
	expectOnly(t, tm.encode(), "D2")
}

func TestNegD3ArrayStride(t *testing.T) {
	tm := baseCompute(t, v13)
	ra := tm.mustFind(t, opTypeRuntimeArray, 0, nil)
	tm.remove(decoIndex(t, tm, tm.insts[ra][1], decArrayStride))
	expectOnly(t, tm.encode(), "D3")
}

func TestNegD4Matrix(t *testing.T) {
	tm := baseCompute(t, v13)
	_, st := blockStructOf(t, tm, scStorageBuffer)
	tm.remove(memberDecoIndex(t, tm, st, 1, decMatrixStride))
	expectOnly(t, tm.encode(), "D4")
	tm = baseCompute(t, v13)
	tm.remove(memberDecoIndex(t, tm, st, 1, decColMajor))
	expectOnly(t, tm.encode(), "D4")
}

func TestNegD5Layout(t *testing.T) {
	// mat3x3 member at offset 8: not a multiple of the column alignment 16
	tm := baseCompute(t, v13)
	_, st := blockStructOf(t, tm, scStorageBuffer)
	tm.insts[memberDecoIndex(t, tm, st, 1, decOffset)][4] = 8
	expectOnly(t, tm.encode(), "D5")
	// overlapping members
	tm = baseCompute(t, v13)
	tm.insts[memberDecoIndex(t, tm, st, 2, decOffset)][4] = 32
	expectOnly(t, tm.encode(), "D5")
	// array stride smaller than the element
	tm = baseCompute(t, v13)
	arr := tm.mustFind(t, opTypeArray, 0, nil)
	tm.insts[decoIndex(t, tm, tm.insts[arr][1], decArrayStride)][3] = 8
	expectOnly(t, tm.encode(), "D5")
	// matrix stride not a multiple of the column alignment
	tm = baseCompute(t, v13)
	tm.insts[memberDecoIndex(t, tm, st, 1, decMatrixStride)][4] = 12
	expectOnly(t, tm.encode(), "D5")
	// vec4 straddling a 16-byte boundary
	tm = baseGfx(t, v10)
	_, ust := blockStructOf(t, tm, scUniform)
	wrapped := tm.mustFind(t, opTypeStruct, 0, func(in []uint32) bool { return in[1] == ust })
	innerU := tm.insts[wrapped][2]
	tm.insts[memberDecoIndex(t, tm, innerU, 1, decOffset)][4] = 72
	expectOnly(t, tm.encode(), "D5")
}

func TestNegD6DescriptorSet(t *testing.T) {
	tm := baseGfx(t, v10)
	v := tm.mustFind(t, opVariable, 0, func(in []uint32) bool { return in[3] == scUniformConstant })
	tm.remove(decoIndex(t, tm, tm.insts[v][2], decDescriptorSet))
	expectOnly(t, tm.encode(), "D6")
	tm = baseCompute(t, v13)
	sb, _ := blockStructOf(t, tm, scStorageBuffer)
	tm.remove(decoIndex(t, tm, sb, decBinding))
	expectOnly(t, tm.encode(), "D6")
}

func TestNegD7BuiltIn(t *testing.T) {
	// GlobalInvocationId (uvec3) re-labelled LocalInvocationIndex (needs a scalar)
	tm := baseCompute(t, v13)
	d := tm.mustFind(t, opDecorate, 0, func(in []uint32) bool { return in[2] == decBuiltIn && in[3] == biGlobalInvocationId })
	tm.insts[d][3] = biLocalInvocationIdx
	expectOnly(t, tm.encode(), "D7")
	// FragCoord used as a vertex-shader input
	tm = baseGfx(t, v10)
	d = tm.mustFind(t, opDecorate, 0, func(in []uint32) bool { return in[2] == decBuiltIn && in[3] == biFragCoord })
	fc := tm.insts[d][1]
	ep := tm.mustFind(t, opEntryPoint, 0, func(in []uint32) bool { return in[1] == emVertex })
	tm.insts[ep] = append(tm.insts[ep], fc)
	tm.insts[ep][0] += 1 << 16
	expectOnly(t, tm.encode(), "D7")
	// Position as an f32 vec2
	tm = baseGfx(t, v10)
	d = tm.mustFind(t, opDecorate, 0, func(in []uint32) bool { return in[2] == decBuiltIn && in[3] == biPosition })
	other := tm.mustFind(t, opDecorate, 0, func(in []uint32) bool { return in[2] == decLocation })
	_ = other
	tm.insts[d][3] = biPointSize // vec4 output labelled PointSize
	expectOnly(t, tm.encode(), "D7")
	// FragDepth as an input
	tm = baseGfx(t, v10)
	d = tm.mustFind(t, opDecorate, 0, func(in []uint32) bool { return in[2] == decBuiltIn && in[3] == biFrontFacing })
	tm.insts[d][3] = biFragDepth
	expectRule(t, tm.encode(), "D7")
}

func TestNegD8Location(t *testing.T) {
	tm := baseGfx(t, v10)
	tm.remove(tm.mustFind(t, opDecorate, 0, func(in []uint32) bool { return in[2] == decLocation }))
	expectOnly(t, tm.encode(), "D8")
	// integer fragment input without Flat
	tm = baseGfx(t, v10)
	in := tm.mustFind(t, opVariable, 1, func(in []uint32) bool {
		return in[3] == scInput && in[1] == tm.typeID(opTypePointer, scInput, tm.typeID(opTypeInt, 32, 0))
	})
	tm.remove(decoIndex(t, tm, tm.insts[in][2], decFlat))
	expectOnly(t, tm.encode(), "D8")
}

func TestNegD9Targets(t *testing.T) {
	tm := baseCompute(t, v13)
	d := tm.mustFind(t, opMemberDecorate, 0, nil)
	tm.insts[d][2] = 9
	expectRule(t, tm.encode(), "D9")
	tm = baseCompute(t, v13)
	d = tm.mustFind(t, opMemberDecorate, 0, nil)
	tm.insts[d][1] = tm.typeID(opTypeFloat, 32)
	expectRule(t, tm.encode(), "D9")
	tm = baseCompute(t, v13)
	d = tm.mustFind(t, opDecorate, 0, func(in []uint32) bool { return in[2] == decBuiltIn })
	tm.insert(d, mk(opDecorate, tm.newID(), decFlat))
	expectRule(t, tm.encode(), "D9")
}

func TestNegD10BuiltInAndLocation(t *testing.T) {
	tm := baseGfx(t, v10)
	d := tm.mustFind(t, opDecorate, 0, func(in []uint32) bool { return in[2] == decBuiltIn })
	tm.insert(d, mk(opDecorate, tm.insts[d][1], decLocation, 3))
	expectOnly(t, tm.encode(), "D10")
}

// ---- E ----

func TestNegE1EntryFunction(t *testing.T) {
	tm := baseCompute(t, v13)
	ep := tm.mustFind(t, opEntryPoint, 0, nil)
	helper := tm.insts[tm.mustFind(t, opFunction, 1, nil)][2]
	xm := tm.mustFind(t, opExecutionMode, 0, nil)
	tm.insts[ep][2] = helper
	tm.insts[xm][1] = helper
	expectRule(t, tm.encode(), "E1")
	// entry point id that is not a function
	tm = baseCompute(t, v13)
	tm.insts[ep][2] = u32ConstID(t, tm, 1)
	expectRule(t, tm.encode(), "E1")
}

func TestNegE2Interface(t *testing.T) {
	// a constant in the interface list
	tm := baseCompute(t, v13)
	ep := tm.mustFind(t, opEntryPoint, 0, nil)
	tm.insts[ep] = append(tm.insts[ep], u32ConstID(t, tm, 1))
	tm.insts[ep][0] += 1 << 16
	expectOnly(t, tm.encode(), "E2")
	// a StorageBuffer variable listed before SPIR-V 1.4
	tm = baseCompute(t, v13)
	sb, _ := blockStructOf(t, tm, scStorageBuffer)
	tm.insts[ep] = append(tm.insts[ep], sb)
	tm.insts[ep][0] += 1 << 16
	expectOnly(t, tm.encode(), "E2")
	// from 1.4 on every used global must be listed
	tm = baseCompute(t, [2]int{1, 4})
	ep = tm.mustFind(t, opEntryPoint, 0, nil)
	sb, _ = blockStructOf(t, tm, scStorageBuffer)
	var kept []uint32
	for i, w := range tm.insts[ep] {
		if i >= 5 && w == sb {
			continue
		}
		kept = append(kept, w)
	}
	if len(kept) == len(tm.insts[ep]) {
		t.Fatal("test setup: storage buffer not in the 1.4 interface")
	}
	kept[0] -= 1 << 16
	tm.insts[ep] = kept
	expectOnly(t, tm.encode(), "E2")
	// duplicates (1.4+)
	tm = baseCompute(t, [2]int{1, 4})
	tm.insts[ep] = append(tm.insts[ep], sb)
	tm.insts[ep][0] += 1 << 16
	expectOnly(t, tm.encode(), "E2")
}

func TestNegE3InputOutputListed(t *testing.T) {
	tm := baseCompute(t, v13)
	ep := tm.mustFind(t, opEntryPoint, 0, nil)
	in := tm.insts[ep]
	tm.insts[ep] = in[:len(in)-1]
	tm.insts[ep][0] -= 1 << 16
	expectOnly(t, tm.encode(), "E3")
}

const fragDepthWGSL = `
struct Out { @builtin(frag_depth) d: f32, @location(0) c: vec4<f32> }
@fragment fn fs(@builtin(position) p: vec4<f32>) -> Out { return Out(p.z * 0.5, p); }
`

func TestNegE4ExecutionModes(t *testing.T) {
	tm := baseCompute(t, v13)
	tm.remove(tm.mustFind(t, opExecutionMode, 0, nil))
	expectOnly(t, tm.encode(), "E4")
	tm = baseGfx(t, v10)
	tm.remove(tm.mustFind(t, opExecutionMode, 0, nil))
	expectOnly(t, tm.encode(), "E4")
	// FragDepth without DepthReplacing
	bin := compileT(t, fragDepthWGSL, v10)
	expectClean(t, bin)
	tm = decodeT(t, bin)
	tm.remove(tm.mustFind(t, opExecutionMode, 0, func(in []uint32) bool { return in[2] == xmDepthReplacing }))
	expectOnly(t, tm.encode(), "E4")
	// execution mode on a function that is no entry point
	tm = baseCompute(t, v13)
	xm := tm.mustFind(t, opExecutionMode, 0, nil)
	helper := tm.insts[tm.mustFind(t, opFunction, 1, nil)][2]
	tm.insert(xm, mk(opExecutionMode, helper, xmLocalSize, 1, 1, 1))
	expectOnly(t, tm.encode(), "E4")
}

func TestNegE5EntryPointUniqueness(t *testing.T) {
	tm := baseCompute(t, v13)
	ep := tm.mustFind(t, opEntryPoint, 0, nil)
	tm.insert(ep, tm.insts[ep])
	expectOnly(t, tm.encode(), "E5")
	// the entry function is called
	tm = baseCompute(t, v13)
	mainID := tm.insts[ep][2]
	r := tm.mustFind(t, opReturn, 0, nil)
	tm.insert(r, mk(opFunctionCall, tm.typeID(opTypeVoid), tm.newID(), mainID))
	expectOnly(t, tm.encode(), "E5")
}

// ---- K ----

func TestNegK1OpcodeCapability(t *testing.T) {
	tm := baseGfx(t, v10)
	tm.remove(tm.mustFind(t, opCapability, 0, func(in []uint32) bool { return in[1] == capImageQuery }))
	expectOnly(t, tm.encode(), "K1")
	// OpImageWrite to an Unknown-format image
	tm = baseGfx(t, v10)
	img := tm.mustFind(t, opTypeImage, 0, func(in []uint32) bool { return in[7] == 2 })
	tm.insts[img][8] = 0
	expectOnly(t, tm.encode(), "K1")
	// derivative control
	bin := compileT(t, `@fragment fn fs(@location(0) x: f32) -> @location(0) vec4<f32> { return vec4<f32>(dpdxFine(x)); }`, v10)
	expectClean(t, bin)
	tm = decodeT(t, bin)
	tm.remove(tm.mustFind(t, opCapability, 0, func(in []uint32) bool { return in[1] == capDerivativeControl }))
	expectOnly(t, tm.encode(), "K1")
}

func TestNegK2TypeCapability(t *testing.T) {
	tm := baseCompute(t, v13)
	ti := tm.mustFind(t, opTypeInt, 0, nil)
	tm.insert(ti, mk(opTypeInt, tm.newID(), 64, 0))
	expectOnly(t, tm.encode(), "K2")
	tm = baseCompute(t, v13)
	tm.insert(ti, mk(opTypeFloat, tm.newID(), 16))
	expectOnly(t, tm.encode(), "K2")
	// Shader implies Matrix: removing Shader loses both
	tm = baseCompute(t, v13)
	tm.insts[tm.mustFind(t, opCapability, 0, nil)][1] = capLinkage
	expectRule(t, tm.encode(), "K2")
}

func TestNegK3EnumerantCapability(t *testing.T) {
	// Sample decoration without SampleRateShading
	tm := baseGfx(t, v10)
	d := tm.mustFind(t, opDecorate, 0, func(in []uint32) bool { return in[2] == decFlat })
	tm.insts[d][2] = decSample
	expectRule(t, tm.encode(), "K3")
	// extended storage image format
	tm = baseGfx(t, v10)
	img := tm.mustFind(t, opTypeImage, 0, func(in []uint32) bool { return in[7] == 2 })
	tm.insts[img][8] = 6 // Rg32f
	expectOnly(t, tm.encode(), "K3")
	// 1D sampled image
	tm = baseGfx(t, v10)
	img = tm.mustFind(t, opTypeImage, 0, func(in []uint32) bool { return in[7] == 1 })
	tm.insts[img][3] = 0
	expectRule(t, tm.encode(), "K3")
	// ViewIndex builtin without MultiView
	tm = baseGfx(t, v10)
	d = tm.mustFind(t, opDecorate, 0, func(in []uint32) bool { return in[2] == decBuiltIn && in[3] == biVertexIndex })
	tm.insts[d][3] = biViewIndex
	expectOnly(t, tm.encode(), "K3")
	// ImageQuery implies Shader: dropping the explicit Shader declaration changes nothing ...
	tm = baseGfx(t, v10)
	tm.remove(tm.mustFind(t, opCapability, 0, func(in []uint32) bool { return in[1] == capShader }))
	expectClean(t, tm.encode())
	// ... dropping both leaves no Shader capability at all
	tm.remove(tm.mustFind(t, opCapability, 0, func(in []uint32) bool { return in[1] == capImageQuery }))
	expectRule(t, tm.encode(), "K3")
}

func TestNegK4Extensions(t *testing.T) {
	// StorageBuffer storage class before 1.3 needs its extension
	tm := baseCompute(t, v10)
	tm.remove(tm.mustFind(t, opExtension, 0, nil))
	expectOnly(t, tm.encode(), "K4")
	// a GroupNonUniform capability in a 1.2 module
	tm = baseCompute(t, [2]int{1, 2})
	tm.insert(1, mk(opCapability, capGroupNonUniform))
	expectOnly(t, tm.encode(), "K4")
	// MultiView capability without SPV_KHR_multiview at 1.1
	tm = baseCompute(t, [2]int{1, 1})
	tm.insert(1, mk(opCapability, capMultiView))
	expectOnly(t, tm.encode(), "K4")
	// ... which 1.3 has folded in
	tm = baseCompute(t, v13)
	tm.insert(1, mk(opCapability, capMultiView))
	expectClean(t, tm.encode())
}

func TestNegK5AllowedCaps(t *testing.T) {
	tm := baseGfx(t, v10)
	expectOnly(t, tm.encode(), "K5", Options{AllowedCaps: []uint32{capShader, capMatrix}})
	rep := Validate(tm.encode(), Options{AllowedCaps: []uint32{capShader, capImageQuery}})
	if len(rep.Findings) != 0 {
		t.Errorf("unexpected findings: %s", rulesOf(rep))
	}
}

// ---- robustness ----

func TestNeverPanics(t *testing.T) {
	bin := compileT(t, computeWGSL, v13)
	// truncations and single-word corruptions must produce findings, never a panic
	for cut := 0; cut < len(bin); cut += 37 {
		rep := Validate(bin[:cut], Options{})
		for _, f := range rep.Findings {
			if f.Rule == "INTERNAL" {
				t.Fatalf("panic on truncation at %d: %s", cut, f.Detail)
			}
		}
	}
	for w := 5; w < len(bin)/4; w += 3 {
		for _, val := range []uint32{0, 1, 0xFFFFFFFF, 0x00020000 | 248, 77} {
			c := append([]byte(nil), bin...)
			c[4*w], c[4*w+1], c[4*w+2], c[4*w+3] = byte(val), byte(val>>8), byte(val>>16), byte(val>>24)
			rep := Validate(c, Options{RequestedVersion: v13})
			for _, f := range rep.Findings {
				if f.Rule == "INTERNAL" {
					t.Fatalf("panic with word %d = %#x: %s", w, val, f.Detail)
				}
			}
		}
	}
}

func TestRuleIDsCoverFindings(t *testing.T) {
	ids := map[string]bool{}
	for _, id := range RuleIDs() {
		if ids[id] {
			t.Errorf("duplicate rule id %s", id)
		}
		ids[id] = true
	}
	for _, g := range []string{"H1", "L1", "I4", "T1", "O.select", "C7", "D5", "E3", "K4"} {
		if !ids[g] {
			t.Errorf("rule %s missing from RuleIDs", g)
		}
	}
}

const smallStrideWGSL = `
struct Inner { p: vec2<f32> }
struct S { a: vec2<f32>, inner: Inner, b: array<vec2<f32>, 4> }
@group(0) @binding(0) var<storage, read> s: S;
@group(0) @binding(1) var<storage, read_write> o: array<f32>;
@compute @workgroup_size(1) fn main() { o[0] = s.b[1].x + s.a.y + s.inner.p.x; }
`

// Uniform blocks need the extended alignment for arrays and nested structs.
func TestNegD5UniformExtendedAlignment(t *testing.T) {
	bin := compileT(t, smallStrideWGSL, v13)
	expectClean(t, bin)
	tm := decodeT(t, bin)
	// turn the read-only storage buffer into a uniform buffer (variable and its pointer type only: the access
	// chains now mismatch, which is irrelevant for the layout rule under test)
	v := tm.mustFind(t, opVariable, 0, func(in []uint32) bool { return in[3] == scStorageBuffer })
	p := tm.mustFind(t, opTypePointer, 0, func(in []uint32) bool { return in[1] == tm.insts[v][1] })
	tm.insts[v][3], tm.insts[p][2] = scUniform, scUniform
	rep := Validate(tm.encode(), Options{})
	var stride, nested bool
	for _, f := range rep.Findings {
		if f.Rule == "D5" && strings.Contains(f.Detail, "ArrayStride 8 is not a multiple of the array's base alignment 16") {
			stride = true
		}
		if f.Rule == "D5" && strings.Contains(f.Detail, "Offset 8 is not a multiple of its base alignment 16") {
			nested = true
		}
	}
	if !stride || !nested {
		t.Errorf("expected D5 findings for the stride-8 array and the offset-8 nested struct, got:\n   %s", rulesOf(rep))
	}
}
