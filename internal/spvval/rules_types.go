package spvval

import (
	"fmt"
	"strings"
)

// T rules: type declarations, variables, function signatures.

func (m *module) checkTypes() {
	m.checkTypeUniqueness()
	// runtime array usage (T5) needs "who uses this type"
	type use struct {
		by  *Type
		idx int
	}
	uses := map[uint32][]use{}
	for _, in := range m.insts {
		if !isTypeOp(in.Op) || in.Info == nil || in.Decode != "" {
			continue
		}
		t := m.types[in.Result]
		if t == nil || t.Inst != in {
			continue
		}
		switch t.Kind {
		case tkStruct:
			for i, mem := range t.Members {
				uses[mem] = append(uses[mem], use{t, i})
			}
		case tkArray, tkRuntimeArray, tkPointer:
			uses[t.Elem] = append(uses[t.Elem], use{t, 0})
		}
		switch t.Kind {
		case tkInt:
			m.fire("T2")
			switch t.Width {
			case 8, 16, 32, 64:
			default:
				m.fail("T2", "%s: integer width %d is not one of 8/16/32/64", in, t.Width)
			}
			if s := in.Ops[1].Lit; s > 1 {
				m.fail("T2", "%s: signedness operand is %d, must be 0 or 1", in, s)
			}
		case tkFloat:
			m.fire("T2")
			switch t.Width {
			case 16, 32, 64:
			default:
				m.fail("T2", "%s: float width %d is not one of 16/32/64", in, t.Width)
			}
		case tkVector:
			m.fire("T2")
			e := m.types[t.Elem]
			if e != nil && e.Kind != tkInt && e.Kind != tkFloat && e.Kind != tkBool {
				m.fail("T2", "%s: component type %s is not a scalar", in, m.typeName(t.Elem))
			}
			switch t.Count {
			case 2, 3, 4:
			case 8, 16:
				if !m.caps[capVector16] {
					m.fail("T2", "%s: component count %d requires the Vector16 capability", in, t.Count)
				}
			default:
				m.fail("T2", "%s: component count %d is not 2, 3 or 4", in, t.Count)
			}
		case tkMatrix:
			m.fire("T2")
			c := m.types[t.Elem]
			if c != nil {
				ce := m.types[c.Elem]
				if c.Kind != tkVector || ce == nil || ce.Kind != tkFloat {
					m.fail("T2", "%s: column type %s is not a vector of floats", in, m.typeName(t.Elem))
				}
			}
			if t.Count < 2 || t.Count > 4 {
				m.fail("T2", "%s: column count %d is not 2, 3 or 4", in, t.Count)
			}
		case tkImage:
			m.fire("T2")
			if st := m.types[t.Elem]; st != nil && st.Kind != tkVoid && st.Kind != tkInt && st.Kind != tkFloat {
				m.fail("T2", "%s: sampled type %s is neither void nor a numerical scalar", in, m.typeName(t.Elem))
			}
			switch {
			case t.Dim > 6 && t.Dim != 4173: // TileImageDataEXT
				m.fail("T2", "%s: Dim operand %d is not a known dimensionality", in, t.Dim)
			case t.Depth > 2:
				m.fail("T2", "%s: Depth operand %d must be 0, 1 or 2", in, t.Depth)
			case t.Arrayed > 1:
				m.fail("T2", "%s: Arrayed operand %d must be 0 or 1", in, t.Arrayed)
			case t.MS > 1:
				m.fail("T2", "%s: MS operand %d must be 0 or 1", in, t.MS)
			case t.Sampled > 2:
				m.fail("T2", "%s: Sampled operand %d must be 0, 1 or 2", in, t.Sampled)
			case t.Sampled == 0 && m.caps[capShader]:
				m.fail("T2", "%s: Sampled operand 0 (known only at run time) is not allowed in the Vulkan environment", in)
			case t.Format > 41:
				m.fail("T2", "%s: image format %d is not a known format", in, t.Format)
			}
		case tkArray:
			m.fire("T4")
			ld := m.defs[t.LenID]
			if ld == nil {
				break
			}
			lt := m.types[ld.Type]
			if !isConstOp(ld.Op) || lt == nil || lt.Kind != tkInt {
				m.fail("T4", "%s: length %%%d is not an integer-typed constant (defined by %s)", in, t.LenID, ld.name())
				break
			}
			if v, ok := m.constValue(t.LenID); ok {
				neg := lt.Signed && lt.Width <= 64 && v>>(lt.Width-1)&1 == 1
				if v == 0 || neg {
					m.fail("T4", "%s: length constant %%%d has value %d, must be at least 1", in, t.LenID, int64(v))
				}
			}
			if e := m.types[t.Elem]; e != nil && (e.Kind == tkVoid || e.Kind == tkFunction) {
				m.fail("T4", "%s: element type %s is not allowed", in, m.typeName(t.Elem))
			}
		}
	}
	// T5
	for _, in := range m.insts {
		if in.Op != opTypeRuntimeArray || in.Decode != "" {
			continue
		}
		m.fire("T5")
		for _, u := range uses[in.Result] {
			switch u.by.Kind {
			case tkStruct:
				if u.idx != len(u.by.Members)-1 {
					m.fail("T5", "%s is member %d of struct %%%d, only the last member (%d) may be a runtime array", in, u.idx, u.by.ID, len(u.by.Members)-1)
				} else if !m.hasDec(u.by.ID, decBlock) && !m.hasDec(u.by.ID, decBufferBlock) {
					m.fail("T5", "%s is a member of struct %%%d which has neither Block nor BufferBlock", in, u.by.ID)
				}
			case tkArray, tkRuntimeArray:
				m.fail("T5", "%s is the element type of array type %%%d", in, u.by.ID)
			case tkPointer:
				switch u.by.SC {
				case scUniformConstant, scUniform, scStorageBuffer:
				default:
					e := m.types[in.Ops[0].ID]
					if e != nil && (e.Kind == tkImage || e.Kind == tkSampler || e.Kind == tkSampledImage || e.Kind == tkAccelStruct) {
						m.fail("T5", "%s (descriptor array) is the pointee of pointer %%%d with storage class %d", in, u.by.ID, u.by.SC)
					}
				}
			}
		}
	}
	// T3: variables
	for _, in := range m.insts {
		if in.Op != opVariable || in.Decode != "" {
			continue
		}
		m.fire("T3")
		pt := m.types[in.Type]
		if pt == nil {
			continue
		}
		if pt.Kind != tkPointer {
			m.fail("T3", "%s: result type %s is not a pointer", in, m.typeName(in.Type))
			continue
		}
		if sc := in.Ops[0].Lit; pt.SC != sc {
			m.fail("T3", "%s: storage class operand %d differs from the pointer type's storage class %d", in, sc, pt.SC)
		}
		if len(in.Ops) > 1 {
			init := in.Ops[1].ID
			d := m.defs[init]
			if d == nil {
				continue
			}
			isGlobalVar := d.Op == opVariable && m.inFunc[init] == nil
			if !isConstOp(d.Op) && !isGlobalVar && d.Op != opUndef {
				m.fail("T3", "%s: initializer %%%d is defined by %s, must be a constant or module-scope variable", in, init, d.name())
			} else if d.Type != pt.Elem {
				m.fail("T3", "%s: initializer %%%d has type %s, pointee type is %s", in, init, m.typeName(d.Type), m.typeName(pt.Elem))
			}
		}
	}
	// T6: function signature
	for _, f := range m.funcs {
		in := f.Inst
		if in.Decode != "" {
			continue
		}
		m.fire("T6")
		if fc := in.Ops[0].Lit; fc&^0xF != 0 || fc&0x3 == 0x3 {
			m.fail("T6", "%s: function control mask 0x%x has unknown bits or both Inline and DontInline", in, fc)
		}
		ft := m.types[in.Ops[1].ID]
		if ft == nil || ft.Kind != tkFunction {
			continue // I6 reports
		}
		if ft.Elem != in.Type {
			m.fail("T6", "%s: result type %s differs from the function type's return type %s", in, m.typeName(in.Type), m.typeName(ft.Elem))
		}
		if len(f.Params) != len(ft.Members) {
			m.fail("T6", "%s: %d OpFunctionParameter(s) but function type %%%d has %d parameter(s)", in, len(f.Params), ft.ID, len(ft.Members))
			continue
		}
		for i, p := range f.Params {
			if p.Type != ft.Members[i] {
				m.fail("T6", "%s: parameter %d (%%%d) has type %s, function type says %s", in, i, p.Result, m.typeName(p.Type), m.typeName(ft.Members[i]))
			}
		}
	}
}

// checkTypeUniqueness implements T1 (spec 2.8: non-aggregate, non-pointer types must be unique).
func (m *module) checkTypeUniqueness() {
	seen := map[string]uint32{}
	for _, in := range m.insts {
		if !isTypeOp(in.Op) || in.Decode != "" {
			continue
		}
		switch in.Op {
		case opTypeArray, opTypeRuntimeArray, opTypeStruct, opTypePointer:
			continue
		}
		m.fire("T1")
		var sb strings.Builder
		fmt.Fprintf(&sb, "%d", in.Op)
		for _, w := range in.Words[2:] {
			fmt.Fprintf(&sb, ",%d", w)
		}
		k := sb.String()
		if prev, dup := seen[k]; dup {
			m.fail("T1", "%s duplicates the non-aggregate type %%%d (same opcode and operands)", in, prev)
			continue
		}
		seen[k] = in.Result
	}
}
