package spvval

// O rules: per-opcode typing. Each family has one rule id. The wording of every
// check follows the instruction's description in the SPIR-V specification
// (section 3.x "Instructions").

// shape is the (kind, width, count) view of a scalar or vector type.
type shape struct {
	ok     bool
	kind   typeKind // tkInt, tkFloat, tkBool
	width  uint32
	signed bool
	count  uint32 // 1 for scalars
	vector bool
}

func (m *module) shapeOfType(t *Type) shape {
	s, n := m.scalarOf(t)
	if s == nil {
		return shape{}
	}
	return shape{ok: true, kind: s.Kind, width: s.Width, signed: s.Signed, count: n, vector: t.Kind == tkVector}
}

func (m *module) shapeOf(id uint32) shape { return m.shapeOfType(m.typeOf(id)) }

type opCtx struct {
	m    *module
	f    *Func
	in   *Inst
	rule string
}

func (c *opCtx) bad(format string, a ...any) {
	c.m.fail(c.rule, "%s: "+format, append([]any{c.in}, a...)...)
}

// resultShape returns the shape of the result type.
func (c *opCtx) resultShape() shape { return c.m.shapeOfType(c.m.types[c.in.Type]) }

// known reports whether all value operands have a known type (otherwise I2/I6 already reported).
func (c *opCtx) known(ids ...uint32) bool {
	if c.m.types[c.in.Type] == nil && c.in.Info.hasType {
		return false
	}
	for _, id := range ids {
		if c.m.typeOf(id) == nil {
			return false
		}
	}
	return true
}

func (m *module) checkOps() {
	for _, f := range m.funcs {
		for _, b := range f.Blocks {
			for _, in := range b.Insts {
				if in.Info == nil || in.Decode != "" {
					continue
				}
				m.checkOp(f, in)
			}
		}
	}
	// constant composites use the same construction rule as OpCompositeConstruct
	for _, in := range m.insts {
		if (in.Op == opConstantComposite || in.Op == opSpecConstantComposit) && in.Decode == "" {
			c := &opCtx{m: m, in: in, rule: "O.composite"}
			c.checkConstruct(true)
		}
	}
}

func (m *module) checkOp(f *Func, in *Inst) {
	c := &opCtx{m: m, f: f, in: in}
	op := in.Op
	switch {
	case op == opIAdd || op == opISub || op == opIMul || op == opSDiv || op == opSRem || op == opSMod:
		c.rule = "O.arith-int"
		c.intBinary(false)
	case op == opUDiv || op == opUMod:
		c.rule = "O.arith-int"
		c.intBinary(true)
	case op == opSNegate:
		c.rule = "O.arith-int"
		c.intUnary()
	case op == opIAddCarry || op == opISubBorrow || op == opUMulExtended || op == opSMulExtended:
		c.rule = "O.arith-int"
		c.intExtended()
	case op == opSDot || op == opUDot || op == opSUDot:
		c.rule = "O.arith-int"
		c.intDot()
	case op == opFAdd || op == opFSub || op == opFMul || op == opFDiv || op == opFRem || op == opFMod:
		c.rule = "O.arith-float"
		c.floatSame(in.opID(0), in.opID(1))
	case op == opFNegate || (op >= opDPdx && op <= opFwidthCoarse):
		c.rule = "O.arith-float"
		c.floatSame(in.opID(0))
	case op == opBitwiseOr || op == opBitwiseXor || op == opBitwiseAnd:
		c.rule = "O.bitwise"
		c.intBinary(false)
	case op == opNot:
		c.rule = "O.bitwise"
		c.intUnary()
	case op == opBitFieldInsert || op == opBitFieldSExtract || op == opBitFieldUExtract || op == opBitReverse || op == opBitCount:
		c.rule = "O.bitwise"
		c.bitField()
	case op == opShiftRightLogical || op == opShiftRightArithmetic || op == opShiftLeftLogical:
		c.rule = "O.shift"
		c.shift()
	case op >= opIEqual && op <= opSLessThanEqual:
		c.rule = "O.compare"
		c.intCompare()
	case op >= opFOrdEqual && op <= opFUnordGreaterThanEq:
		c.rule = "O.compare"
		c.floatCompare()
	case op == opLogicalEqual || op == opLogicalNotEqual || op == opLogicalOr || op == opLogicalAnd:
		c.rule = "O.logical"
		c.logical(in.opID(0), in.opID(1))
	case op == opLogicalNot:
		c.rule = "O.logical"
		c.logical(in.opID(0))
	case op == opAny || op == opAll:
		c.rule = "O.logical"
		c.anyAll()
	case op == opIsNan || op == opIsInf:
		c.rule = "O.logical"
		c.isNanInf()
	case op == opSelect:
		c.rule = "O.select"
		c.sel()
	case op >= opConvertFToU && op <= opQuantizeToF16:
		c.rule = "O.convert"
		c.convert()
	case op == opBitcast:
		c.rule = "O.bitcast"
		c.bitcast()
	case op == opCompositeConstruct:
		c.rule = "O.composite"
		c.checkConstruct(false)
	case op == opCompositeExtract || op == opCompositeInsert:
		c.rule = "O.composite"
		c.extractInsert()
	case op == opVectorExtractDynamic || op == opVectorInsertDynamic:
		c.rule = "O.composite"
		c.vectorDynamic()
	case op == opCopyObject:
		c.rule = "O.composite"
		c.m.fire(c.rule)
		if c.known(in.opID(0)) && c.m.typeIDOf(in.opID(0)) != in.Type {
			c.bad("operand type %s differs from result type %s", m.typeName(m.typeIDOf(in.opID(0))), m.typeName(in.Type))
		}
	case op == opCopyLogical:
		c.rule = "O.composite"
		c.m.fire(c.rule)
		if !m.atLeast(1, 4) {
			c.bad("OpCopyLogical requires SPIR-V 1.4, module is %d.%d", m.version[0], m.version[1])
		}
		if c.known(in.opID(0)) && c.m.typeIDOf(in.opID(0)) == in.Type {
			c.bad("operand type must differ from the result type %s", m.typeName(in.Type))
		}
	case op == opVectorShuffle:
		c.rule = "O.shuffle"
		c.shuffle()
	case op == opAccessChain || op == opInBoundsAccessChain:
		c.rule = "O.access-chain"
		c.accessChain()
	case op == opLoad || op == opStore:
		c.rule = "O.load-store"
		c.loadStore()
	case op == opFunctionCall:
		c.rule = "O.call"
		c.call()
	case op == opReturn || op == opReturnValue:
		c.rule = "O.return"
		c.ret()
	case (op >= opAtomicLoad && op <= opAtomicXor) || op == opAtomicFAddEXT || op == opAtomicFMinEXT || op == opAtomicFMaxEXT:
		c.rule = "O.atomic"
		c.atomic()
	case op == opControlBarrier || op == opMemoryBarrier:
		c.rule = "O.atomic"
		c.m.fire(c.rule)
		ids := in.idOps()
		if op == opControlBarrier {
			c.scopeOrSemantics(ids[0].ID, roleExecScope)
			c.scopeOrSemantics(ids[1].ID, roleMemScope)
			c.scopeOrSemantics(ids[2].ID, roleSemantics)
		} else {
			c.scopeOrSemantics(ids[0].ID, roleMemScope)
			c.scopeOrSemantics(ids[1].ID, roleSemantics)
		}
	case op == opExtInst:
		c.rule = "O.extinst"
		c.extInst()
	case op == opArrayLength:
		c.rule = "O.array-length"
		c.arrayLength()
	case op >= opVectorTimesScalar && op <= opDot, op == opTranspose:
		c.rule = "O.matrix"
		c.matrix()
	case op == opBranch || op == opBranchConditional:
		c.rule = "O.branch"
		c.branch()
	case op == opSwitch:
		c.rule = "O.switch"
		c.switchOp()
	case op == opSampledImage || (op >= opImageSampleImplicit && op <= opImageQuerySamples) || op == opImageTexelPointer:
		c.rule = "O.image"
		c.image()
	}
}

// ---- integer arithmetic / bitwise ----

// intBinary: result int scalar/vector; operands int scalar/vector with the result's
// component count and width. strictUnsigned (OpUDiv/OpUMod): result unsigned and
// operands of exactly the result type.
func (c *opCtx) intBinary(strictUnsigned bool) {
	in := c.in
	a, b := in.opID(0), in.opID(1)
	if !c.known(a, b) {
		return
	}
	c.m.fire(c.rule)
	r := c.resultShape()
	if !r.ok || r.kind != tkInt {
		c.bad("result type %s is not an integer scalar or vector", c.m.typeName(in.Type))
		return
	}
	for i, id := range []uint32{a, b} {
		s := c.m.shapeOf(id)
		if !s.ok || s.kind != tkInt {
			c.bad("operand %d (%%%d) has type %s, expected integer scalar or vector", i+1, id, c.m.typeName(c.m.typeIDOf(id)))
			continue
		}
		if s.count != r.count || s.width != r.width {
			c.bad("operand %d (%%%d) type %s does not match result type %s in component count/width", i+1, id, c.m.typeName(c.m.typeIDOf(id)), c.m.typeName(in.Type))
		}
	}
	if strictUnsigned {
		if r.signed {
			c.bad("result type %s must be unsigned", c.m.typeName(in.Type))
		}
	}
}

func (c *opCtx) intUnary() {
	in := c.in
	a := in.opID(0)
	if !c.known(a) {
		return
	}
	c.m.fire(c.rule)
	r, s := c.resultShape(), c.m.shapeOf(a)
	if !r.ok || r.kind != tkInt {
		c.bad("result type %s is not an integer scalar or vector", c.m.typeName(in.Type))
		return
	}
	if !s.ok || s.kind != tkInt || s.count != r.count || s.width != r.width {
		c.bad("operand %%%d type %s does not match result type %s", a, c.m.typeName(c.m.typeIDOf(a)), c.m.typeName(in.Type))
	}
}

func (c *opCtx) intExtended() {
	in := c.in
	a, b := in.opID(0), in.opID(1)
	if !c.known(a, b) {
		return
	}
	c.m.fire(c.rule)
	rt := c.m.types[in.Type]
	if rt.Kind != tkStruct || len(rt.Members) != 2 || rt.Members[0] != rt.Members[1] {
		c.bad("result type %s must be a struct of two identical integer members", c.m.typeName(in.Type))
		return
	}
	ms := c.m.shapeOfType(c.m.types[rt.Members[0]])
	if !ms.ok || ms.kind != tkInt {
		c.bad("result struct members are not integer scalars/vectors")
		return
	}
	for i, id := range []uint32{a, b} {
		if c.m.typeIDOf(id) != rt.Members[0] {
			c.bad("operand %d (%%%d) type %s differs from the result member type %s", i+1, id, c.m.typeName(c.m.typeIDOf(id)), c.m.typeName(rt.Members[0]))
		}
	}
}

func (c *opCtx) intDot() {
	in := c.in
	a, b := in.opID(0), in.opID(1)
	if !c.known(a, b) {
		return
	}
	c.m.fire(c.rule)
	r := c.resultShape()
	if !r.ok || r.kind != tkInt || r.vector {
		c.bad("result type %s is not an integer scalar", c.m.typeName(in.Type))
	}
	sa, sb := c.m.shapeOf(a), c.m.shapeOf(b)
	if !sa.ok || !sb.ok || sa.kind != tkInt || sb.kind != tkInt {
		c.bad("operands must be integer vectors or packed 32-bit integers")
		return
	}
	if sa.count != sb.count || sa.width != sb.width {
		c.bad("operand types %s and %s differ in component count/width", c.m.typeName(c.m.typeIDOf(a)), c.m.typeName(c.m.typeIDOf(b)))
	}
	pf, hasFmt := in.opLit(2)
	if hasFmt && pf != 0 {
		c.bad("Packed Vector Format %d is not a known enumerant (only PackedVectorFormat4x8Bit = 0)", pf)
	}
	if !sa.vector {
		if sa.width != 32 || !hasFmt {
			c.bad("scalar operands must be 32-bit integers with a Packed Vector Format operand")
		}
	} else if hasFmt {
		c.bad("Packed Vector Format operand given for vector operands")
	}
}

func (c *opCtx) bitField() {
	in := c.in
	base := in.opID(0)
	if !c.known(base) {
		return
	}
	c.m.fire(c.rule)
	r := c.resultShape()
	if !r.ok || r.kind != tkInt {
		c.bad("result type %s is not an integer scalar or vector", c.m.typeName(in.Type))
		return
	}
	intScalar := func(id uint32, what string) {
		s := c.m.shapeOf(id)
		if c.m.typeOf(id) != nil && (!s.ok || s.kind != tkInt || s.vector) {
			c.bad("%s %%%d has type %s, expected an integer scalar", what, id, c.m.typeName(c.m.typeIDOf(id)))
		}
	}
	switch in.Op {
	case opBitCount:
		s := c.m.shapeOf(base)
		if !s.ok || s.kind != tkInt || s.count != r.count {
			c.bad("base %%%d type %s must be an integer type with the result's component count", base, c.m.typeName(c.m.typeIDOf(base)))
		}
	case opBitReverse:
		if c.m.typeIDOf(base) != in.Type {
			c.bad("base %%%d type %s differs from result type %s", base, c.m.typeName(c.m.typeIDOf(base)), c.m.typeName(in.Type))
		}
	case opBitFieldInsert:
		if c.m.typeIDOf(base) != in.Type {
			c.bad("base %%%d type %s differs from result type %s", base, c.m.typeName(c.m.typeIDOf(base)), c.m.typeName(in.Type))
		}
		if ins := in.opID(1); c.m.typeOf(ins) != nil && c.m.typeIDOf(ins) != in.Type {
			c.bad("insert %%%d type %s differs from result type %s", ins, c.m.typeName(c.m.typeIDOf(ins)), c.m.typeName(in.Type))
		}
		intScalar(in.opID(2), "offset")
		intScalar(in.opID(3), "count")
	default:
		if c.m.typeIDOf(base) != in.Type {
			c.bad("base %%%d type %s differs from result type %s", base, c.m.typeName(c.m.typeIDOf(base)), c.m.typeName(in.Type))
		}
		intScalar(in.opID(1), "offset")
		intScalar(in.opID(2), "count")
	}
}

func (c *opCtx) shift() {
	in := c.in
	base, sh := in.opID(0), in.opID(1)
	if !c.known(base, sh) {
		return
	}
	c.m.fire(c.rule)
	r, b, s := c.resultShape(), c.m.shapeOf(base), c.m.shapeOf(sh)
	if !r.ok || r.kind != tkInt {
		c.bad("result type %s is not an integer scalar or vector", c.m.typeName(in.Type))
		return
	}
	if !b.ok || b.kind != tkInt || b.count != r.count || b.width != r.width {
		c.bad("base %%%d type %s does not match result type %s in component count/width", base, c.m.typeName(c.m.typeIDOf(base)), c.m.typeName(in.Type))
	}
	if !s.ok || s.kind != tkInt || s.count != r.count {
		c.bad("shift %%%d type %s must be an integer type with %d component(s)", sh, c.m.typeName(c.m.typeIDOf(sh)), r.count)
	}
}

// ---- float arithmetic ----

func (c *opCtx) floatSame(ids ...uint32) {
	in := c.in
	if !c.known(ids...) {
		return
	}
	c.m.fire(c.rule)
	r := c.resultShape()
	if !r.ok || r.kind != tkFloat {
		c.bad("result type %s is not a float scalar or vector", c.m.typeName(in.Type))
		return
	}
	for i, id := range ids {
		if c.m.typeIDOf(id) != in.Type {
			c.bad("operand %d (%%%d) type %s differs from result type %s", i+1, id, c.m.typeName(c.m.typeIDOf(id)), c.m.typeName(in.Type))
		}
	}
}

// ---- comparisons / logical ----

func (c *opCtx) boolResult() (shape, bool) {
	r := c.resultShape()
	if !r.ok || r.kind != tkBool {
		c.bad("result type %s is not a bool scalar or vector", c.m.typeName(c.in.Type))
		return r, false
	}
	return r, true
}

func (c *opCtx) intCompare() {
	in := c.in
	a, b := in.opID(0), in.opID(1)
	if !c.known(a, b) {
		return
	}
	c.m.fire(c.rule)
	r, ok := c.boolResult()
	if !ok {
		return
	}
	sa, sb := c.m.shapeOf(a), c.m.shapeOf(b)
	if !sa.ok || sa.kind != tkInt || !sb.ok || sb.kind != tkInt {
		c.bad("operands %%%d (%s) and %%%d (%s) must be integer scalars or vectors", a, c.m.typeName(c.m.typeIDOf(a)), b, c.m.typeName(c.m.typeIDOf(b)))
		return
	}
	if sa.count != r.count || sb.count != r.count {
		c.bad("operand component counts (%d, %d) differ from the result's (%d)", sa.count, sb.count, r.count)
	}
	if sa.width != sb.width {
		c.bad("operand component widths differ (%d vs %d)", sa.width, sb.width)
	}
}

func (c *opCtx) floatCompare() {
	in := c.in
	a, b := in.opID(0), in.opID(1)
	if !c.known(a, b) {
		return
	}
	c.m.fire(c.rule)
	r, ok := c.boolResult()
	if !ok {
		return
	}
	sa := c.m.shapeOf(a)
	if !sa.ok || sa.kind != tkFloat {
		c.bad("operand %%%d has type %s, expected float scalar or vector", a, c.m.typeName(c.m.typeIDOf(a)))
		return
	}
	if c.m.typeIDOf(a) != c.m.typeIDOf(b) {
		c.bad("operand types differ: %s vs %s", c.m.typeName(c.m.typeIDOf(a)), c.m.typeName(c.m.typeIDOf(b)))
	}
	if sa.count != r.count {
		c.bad("operand component count %d differs from the result's %d", sa.count, r.count)
	}
}

func (c *opCtx) logical(ids ...uint32) {
	if !c.known(ids...) {
		return
	}
	c.m.fire(c.rule)
	if _, ok := c.boolResult(); !ok {
		return
	}
	for i, id := range ids {
		if c.m.typeIDOf(id) != c.in.Type {
			c.bad("operand %d (%%%d) type %s differs from result type %s", i+1, id, c.m.typeName(c.m.typeIDOf(id)), c.m.typeName(c.in.Type))
		}
	}
}

func (c *opCtx) anyAll() {
	a := c.in.opID(0)
	if !c.known(a) {
		return
	}
	c.m.fire(c.rule)
	r := c.resultShape()
	if !r.ok || r.kind != tkBool || r.vector {
		c.bad("result type %s is not a bool scalar", c.m.typeName(c.in.Type))
	}
	s := c.m.shapeOf(a)
	if !s.ok || s.kind != tkBool || !s.vector {
		c.bad("operand %%%d type %s is not a bool vector", a, c.m.typeName(c.m.typeIDOf(a)))
	}
}

func (c *opCtx) isNanInf() {
	a := c.in.opID(0)
	if !c.known(a) {
		return
	}
	c.m.fire(c.rule)
	r, ok := c.boolResult()
	if !ok {
		return
	}
	s := c.m.shapeOf(a)
	if !s.ok || s.kind != tkFloat || s.count != r.count {
		c.bad("operand %%%d type %s must be a float type with %d component(s)", a, c.m.typeName(c.m.typeIDOf(a)), r.count)
	}
}

func (c *opCtx) sel() {
	in := c.in
	cond, o1, o2 := in.opID(0), in.opID(1), in.opID(2)
	if !c.known(cond, o1, o2) {
		return
	}
	c.m.fire(c.rule)
	m := c.m
	rt := m.types[in.Type]
	for i, id := range []uint32{o1, o2} {
		if m.typeIDOf(id) != in.Type {
			c.bad("object %d (%%%d) type %s differs from result type %s", i+1, id, m.typeName(m.typeIDOf(id)), m.typeName(in.Type))
		}
	}
	cs := m.shapeOf(cond)
	if !cs.ok || cs.kind != tkBool {
		c.bad("condition %%%d type %s is not a bool scalar or vector", cond, m.typeName(m.typeIDOf(cond)))
		return
	}
	r := m.shapeOfType(rt)
	scalarOrVector := r.ok || rt.Kind == tkPointer
	if !m.atLeast(1, 4) {
		// before 1.4: result scalar, vector (or pointer); condition has the result's component count
		if !scalarOrVector {
			c.bad("result type %s must be a scalar or vector before SPIR-V 1.4 (module is %d.%d)", m.typeName(in.Type), m.version[0], m.version[1])
			return
		}
		rc := r.count
		if rt.Kind == tkPointer {
			rc = 1
		}
		if cs.count != rc {
			c.bad("condition %s has %d component(s) but result type %s has %d; a scalar condition selecting whole vectors needs SPIR-V 1.4 (module is %d.%d)",
				m.typeName(m.typeIDOf(cond)), cs.count, m.typeName(in.Type), rc, m.version[0], m.version[1])
		}
		return
	}
	if cs.vector {
		if !r.ok || !r.vector || r.count != cs.count {
			c.bad("vector condition %s needs a vector result with %d components, result type is %s", m.typeName(m.typeIDOf(cond)), cs.count, m.typeName(in.Type))
		}
	}
}

// ---- conversions ----

func (c *opCtx) convert() {
	in := c.in
	a := in.opID(0)
	if !c.known(a) {
		return
	}
	c.m.fire(c.rule)
	m := c.m
	r, s := c.resultShape(), m.shapeOf(a)
	want := func(sh shape, k typeKind, what string, tid uint32) bool {
		if !sh.ok || sh.kind != k {
			kn := "integer"
			if k == tkFloat {
				kn = "float"
			}
			c.bad("%s type %s is not a %s scalar or vector", what, m.typeName(tid), kn)
			return false
		}
		return true
	}
	var rk, sk typeKind
	switch in.Op {
	case opConvertFToU, opConvertFToS:
		rk, sk = tkInt, tkFloat
	case opConvertSToF, opConvertUToF:
		rk, sk = tkFloat, tkInt
	case opUConvert, opSConvert:
		rk, sk = tkInt, tkInt
	case opFConvert, opQuantizeToF16:
		rk, sk = tkFloat, tkFloat
	}
	if !want(r, rk, "result", in.Type) || !want(s, sk, "operand", m.typeIDOf(a)) {
		return
	}
	if r.count != s.count {
		c.bad("operand %s and result %s differ in component count", m.typeName(m.typeIDOf(a)), m.typeName(in.Type))
	}
	switch in.Op {
	case opConvertFToU:
		if r.signed {
			c.bad("result type %s must be unsigned (Signedness 0)", m.typeName(in.Type))
		}
	case opUConvert, opSConvert, opFConvert:
		if r.width == s.width {
			c.bad("operand and result component widths are both %d, they must differ", r.width)
		}
	case opQuantizeToF16:
		if r.width != 32 || m.typeIDOf(a) != in.Type {
			c.bad("operand and result must be the same 32-bit float type (got %s -> %s)", m.typeName(m.typeIDOf(a)), m.typeName(in.Type))
		}
	}
}

func (c *opCtx) bitcast() {
	in := c.in
	a := in.opID(0)
	if !c.known(a) {
		return
	}
	c.m.fire(c.rule)
	m := c.m
	rt, st := m.types[in.Type], m.typeOf(a)
	r, s := m.shapeOfType(rt), m.shapeOfType(st)
	numeric := func(sh shape) bool { return sh.ok && (sh.kind == tkInt || sh.kind == tkFloat) }
	if rt.Kind != tkPointer && !numeric(r) {
		c.bad("result type %s is neither a pointer nor a numerical scalar/vector", m.typeName(in.Type))
		return
	}
	if st.Kind != tkPointer && !numeric(s) {
		c.bad("operand %%%d type %s is neither a pointer nor a numerical scalar/vector", a, m.typeName(m.typeIDOf(a)))
		return
	}
	if rt.Kind == tkPointer || st.Kind == tkPointer {
		return
	}
	if m.typeIDOf(a) == in.Type {
		c.bad("operand type and result type are the same type %s; OpBitcast requires different types", m.typeName(in.Type))
	}
	if r.count*r.width != s.count*s.width {
		c.bad("total bit width differs: operand %s has %d bits, result %s has %d bits", m.typeName(m.typeIDOf(a)), s.count*s.width, m.typeName(in.Type), r.count*r.width)
	}
}

// ---- composites ----

// checkConstruct checks OpCompositeConstruct and Op(Spec)ConstantComposite.
// For constants the vector form takes exactly one scalar per component.
func (c *opCtx) checkConstruct(constant bool) {
	in := c.in
	m := c.m
	rt := m.types[in.Type]
	if rt == nil {
		return
	}
	parts := in.idOps()
	for _, p := range parts {
		if m.typeOf(p.ID) == nil {
			return
		}
	}
	m.fire(c.rule)
	exact := func(n int, elemType func(i int) uint32, what string) {
		if len(parts) != n {
			c.bad("%d constituent(s) for %s which needs %d", len(parts), m.typeName(in.Type), n)
			return
		}
		for i, p := range parts {
			if m.typeIDOf(p.ID) != elemType(i) {
				c.bad("constituent %d (%%%d) has type %s, %s requires %s", i, p.ID, m.typeName(m.typeIDOf(p.ID)), what, m.typeName(elemType(i)))
			}
		}
	}
	switch rt.Kind {
	case tkVector:
		if constant {
			exact(int(rt.Count), func(int) uint32 { return rt.Elem }, "the vector component")
			return
		}
		if len(parts) < 2 {
			c.bad("vector construction needs at least 2 constituents, got %d", len(parts))
		}
		total := uint32(0)
		for i, p := range parts {
			pt := m.typeOf(p.ID)
			switch {
			case pt.ID == rt.Elem:
				total++
			case pt.Kind == tkVector && pt.Elem == rt.Elem:
				total += pt.Count
			default:
				c.bad("constituent %d (%%%d) has type %s, not the component type %s or a vector of it", i, p.ID, m.typeName(pt.ID), m.typeName(rt.Elem))
				return
			}
		}
		if total != rt.Count {
			c.bad("constituents supply %d component(s), result %s needs %d", total, m.typeName(in.Type), rt.Count)
		}
	case tkMatrix:
		exact(int(rt.Count), func(int) uint32 { return rt.Elem }, "the matrix column")
	case tkArray:
		n, ok := m.constValue(rt.LenID)
		if !ok {
			return
		}
		exact(int(n), func(int) uint32 { return rt.Elem }, "the array element")
	case tkStruct:
		exact(len(rt.Members), func(i int) uint32 { return rt.Members[i] }, "the struct member")
	default:
		c.bad("result type %s is not a composite type", m.typeName(in.Type))
	}
}

// walkLiteral returns the type reached from tid by the literal index (0 on error, with message).
func (m *module) walkLiteral(tid uint32, idx uint32) (uint32, string) {
	t := m.types[tid]
	if t == nil {
		return 0, "unknown type"
	}
	switch t.Kind {
	case tkVector, tkMatrix:
		if idx >= t.Count {
			return 0, "index out of range for " + m.typeName(tid)
		}
		return t.Elem, ""
	case tkArray:
		if n, ok := m.constValue(t.LenID); ok && uint64(idx) >= n {
			return 0, "index out of range for " + m.typeName(tid)
		}
		return t.Elem, ""
	case tkRuntimeArray:
		return t.Elem, ""
	case tkStruct:
		if int(idx) >= len(t.Members) {
			return 0, "member index out of range for " + m.typeName(tid)
		}
		return t.Members[idx], ""
	}
	return 0, m.typeName(tid) + " is not a composite"
}

func (c *opCtx) extractInsert() {
	in := c.in
	m := c.m
	var comp, obj uint32
	var lits []Operand
	if in.Op == opCompositeExtract {
		comp = in.opID(0)
		lits = in.Ops[1:]
		if !c.known(comp) {
			return
		}
	} else {
		obj, comp = in.opID(0), in.opID(1)
		lits = in.Ops[2:]
		if !c.known(obj, comp) {
			return
		}
	}
	m.fire(c.rule)
	if len(lits) == 0 {
		c.bad("no index operands")
		return
	}
	cur := m.typeIDOf(comp)
	for i, l := range lits {
		next, msg := m.walkLiteral(cur, l.Lit)
		if next == 0 {
			c.bad("index %d (value %d): %s", i, l.Lit, msg)
			return
		}
		cur = next
	}
	if in.Op == opCompositeExtract {
		if cur != in.Type {
			c.bad("indexed type is %s but result type is %s", m.typeName(cur), m.typeName(in.Type))
		}
		return
	}
	if m.typeIDOf(obj) != cur {
		c.bad("object %%%d type %s differs from the indexed type %s", obj, m.typeName(m.typeIDOf(obj)), m.typeName(cur))
	}
	if m.typeIDOf(comp) != in.Type {
		c.bad("composite %%%d type %s differs from result type %s", comp, m.typeName(m.typeIDOf(comp)), m.typeName(in.Type))
	}
}

func (c *opCtx) vectorDynamic() {
	in := c.in
	m := c.m
	vec := in.opID(0)
	idx := in.opID(1)
	var comp uint32
	if in.Op == opVectorInsertDynamic {
		comp, idx = in.opID(1), in.opID(2)
		if !c.known(vec, comp, idx) {
			return
		}
	} else if !c.known(vec, idx) {
		return
	}
	m.fire(c.rule)
	vt := m.typeOf(vec)
	if vt.Kind != tkVector {
		c.bad("vector operand %%%d has type %s, not a vector", vec, m.typeName(vt.ID))
		return
	}
	if is := m.shapeOf(idx); !is.ok || is.kind != tkInt || is.vector {
		c.bad("index %%%d has type %s, expected an integer scalar", idx, m.typeName(m.typeIDOf(idx)))
	}
	if in.Op == opVectorExtractDynamic {
		if vt.Elem != in.Type {
			c.bad("result type %s differs from the vector's component type %s", m.typeName(in.Type), m.typeName(vt.Elem))
		}
		return
	}
	if vt.ID != in.Type {
		c.bad("result type %s differs from the vector operand type %s", m.typeName(in.Type), m.typeName(vt.ID))
	}
	if m.typeIDOf(comp) != vt.Elem {
		c.bad("component %%%d type %s differs from the vector's component type %s", comp, m.typeName(m.typeIDOf(comp)), m.typeName(vt.Elem))
	}
}

func (c *opCtx) shuffle() {
	in := c.in
	m := c.m
	v1, v2 := in.opID(0), in.opID(1)
	if !c.known(v1, v2) {
		return
	}
	m.fire(c.rule)
	rt, t1, t2 := m.types[in.Type], m.typeOf(v1), m.typeOf(v2)
	if rt.Kind != tkVector {
		c.bad("result type %s is not a vector", m.typeName(in.Type))
		return
	}
	if t1.Kind != tkVector || t2.Kind != tkVector {
		c.bad("operands %%%d (%s) and %%%d (%s) must both be vectors", v1, m.typeName(t1.ID), v2, m.typeName(t2.ID))
		return
	}
	if t1.Elem != rt.Elem || t2.Elem != rt.Elem {
		c.bad("operand component types (%s, %s) differ from the result's %s", m.typeName(t1.Elem), m.typeName(t2.Elem), m.typeName(rt.Elem))
	}
	lits := in.Ops[2:]
	if uint32(len(lits)) != rt.Count {
		c.bad("%d component literal(s) for result type %s", len(lits), m.typeName(in.Type))
	}
	n := t1.Count + t2.Count
	for i, l := range lits {
		if l.Lit != 0xFFFFFFFF && l.Lit >= n {
			c.bad("component literal %d is %d, must be below %d or 0xFFFFFFFF", i, l.Lit, n)
		}
	}
}

// ---- matrix / vector products ----

func (c *opCtx) matrix() {
	in := c.in
	m := c.m
	a, b := in.opID(0), in.opID(1)
	if in.Op == opTranspose {
		if !c.known(a) {
			return
		}
	} else if !c.known(a, b) {
		return
	}
	m.fire(c.rule)
	rt, ta, tb := m.types[in.Type], m.typeOf(a), m.typeOf(b)
	// matInfo returns (column type, columns, rows, component type)
	matInfo := func(t *Type) (col *Type, cols, rows uint32, comp uint32, ok bool) {
		if t == nil || t.Kind != tkMatrix {
			return nil, 0, 0, 0, false
		}
		col = m.types[t.Elem]
		if col == nil || col.Kind != tkVector {
			return nil, 0, 0, 0, false
		}
		return col, t.Count, col.Count, col.Elem, true
	}
	floatVec := func(t *Type) bool {
		if t == nil || t.Kind != tkVector {
			return false
		}
		e := m.types[t.Elem]
		return e != nil && e.Kind == tkFloat
	}
	tn := func(t *Type) string {
		if t == nil {
			return "?"
		}
		return m.typeName(t.ID)
	}
	switch in.Op {
	case opVectorTimesScalar:
		if !floatVec(rt) {
			c.bad("result type %s is not a float vector", tn(rt))
			return
		}
		if ta.ID != rt.ID {
			c.bad("vector operand type %s differs from result type %s", tn(ta), tn(rt))
		}
		if tb.ID != rt.Elem {
			c.bad("scalar operand type %s differs from the component type %s", tn(tb), m.typeName(rt.Elem))
		}
	case opMatrixTimesScalar:
		_, _, _, comp, ok := matInfo(rt)
		if !ok {
			c.bad("result type %s is not a matrix", tn(rt))
			return
		}
		if ta.ID != rt.ID {
			c.bad("matrix operand type %s differs from result type %s", tn(ta), tn(rt))
		}
		if tb.ID != comp {
			c.bad("scalar operand type %s differs from the component type %s", tn(tb), m.typeName(comp))
		}
	case opVectorTimesMatrix:
		_, cols, rows, comp, ok := matInfo(tb)
		if !ok || !floatVec(ta) || !floatVec(rt) {
			c.bad("expected vector * matrix -> vector, got %s * %s -> %s", tn(ta), tn(tb), tn(rt))
			return
		}
		if rt.Count != cols || rt.Elem != comp {
			c.bad("result type %s must be a vector of %d x %s", tn(rt), cols, m.typeName(comp))
		}
		if ta.Count != rows || ta.Elem != comp {
			c.bad("vector operand %s must have %d components of %s", tn(ta), rows, m.typeName(comp))
		}
	case opMatrixTimesVector:
		col, cols, _, comp, ok := matInfo(ta)
		if !ok || !floatVec(tb) || !floatVec(rt) {
			c.bad("expected matrix * vector -> vector, got %s * %s -> %s", tn(ta), tn(tb), tn(rt))
			return
		}
		if rt.ID != col.ID {
			c.bad("result type %s must be the matrix column type %s", tn(rt), tn(col))
		}
		if tb.Count != cols || tb.Elem != comp {
			c.bad("vector operand %s must have %d components of %s", tn(tb), cols, m.typeName(comp))
		}
	case opMatrixTimesMatrix:
		rcol, rcols, _, _, ok := matInfo(rt)
		lcol, lcols, _, lcomp, okl := matInfo(ta)
		_, rrcols, rrrows, rrcomp, okr := matInfo(tb)
		if !ok || !okl || !okr {
			c.bad("expected matrix * matrix -> matrix, got %s * %s -> %s", tn(ta), tn(tb), tn(rt))
			return
		}
		if lcol.ID != rcol.ID {
			c.bad("left matrix column type %s differs from the result column type %s", tn(lcol), tn(rcol))
		}
		if rrcols != rcols {
			c.bad("right matrix has %d columns, result has %d", rrcols, rcols)
		}
		if rrrows != lcols || rrcomp != lcomp {
			c.bad("right matrix columns have %d components, left matrix has %d columns", rrrows, lcols)
		}
	case opTranspose:
		_, rcols, rrows, rcomp, ok := matInfo(rt)
		_, acols, arows, acomp, oka := matInfo(ta)
		if !ok || !oka {
			c.bad("expected matrix -> matrix, got %s -> %s", tn(ta), tn(rt))
			return
		}
		if rcols != arows || rrows != acols || rcomp != acomp {
			c.bad("result %s is not the transpose shape of %s", tn(rt), tn(ta))
		}
	case opOuterProduct:
		rcol, rcols, _, comp, ok := matInfo(rt)
		if !ok || !floatVec(ta) || !floatVec(tb) {
			c.bad("expected vector x vector -> matrix, got %s, %s -> %s", tn(ta), tn(tb), tn(rt))
			return
		}
		if ta.ID != rcol.ID {
			c.bad("vector 1 type %s differs from the result column type %s", tn(ta), tn(rcol))
		}
		if tb.Count != rcols || tb.Elem != comp {
			c.bad("vector 2 type %s must have %d components of %s", tn(tb), rcols, m.typeName(comp))
		}
	case opDot:
		if rt.Kind != tkFloat {
			c.bad("result type %s is not a float scalar", tn(rt))
			return
		}
		if !floatVec(ta) || ta.ID != tb.ID {
			c.bad("operands %s and %s must be the same float vector type", tn(ta), tn(tb))
			return
		}
		if ta.Elem != rt.ID {
			c.bad("operand component type %s differs from result type %s", m.typeName(ta.Elem), tn(rt))
		}
	}
}
