package spvval

import (
	"fmt"
	"os"
	"strings"
	"testing"
)

// disasmT renders a module one instruction per line (debug aid for writing mutations).
func disasmT(bin []byte) string {
	fired := map[string]int{}
	rm := readModule(bin, fired)
	var sb strings.Builder
	fmt.Fprintf(&sb, "; version %#x bound %d\n", rm.Hdr.Version, rm.Hdr.Bound)
	for i, in := range rm.Insts {
		fmt.Fprintf(&sb, "%4d: ", i)
		if in.Result != 0 {
			fmt.Fprintf(&sb, "%%%d = ", in.Result)
		}
		sb.WriteString(in.name())
		if in.Type != 0 {
			fmt.Fprintf(&sb, " %%%d", in.Type)
		}
		for _, o := range in.Ops {
			switch o.Kind {
			case okID:
				fmt.Fprintf(&sb, " %%%d", o.ID)
			case okString:
				fmt.Fprintf(&sb, " %q", o.Str)
			case okRaw:
				fmt.Fprintf(&sb, " raw%v", in.Words[o.Word:o.Word+o.N])
			default:
				fmt.Fprintf(&sb, " %d", o.Lit)
			}
		}
		sb.WriteString("\n")
	}
	return sb.String()
}

// TestDumpShader is a manual aid: SPVVAL_DUMP=<wgsl file> [SPVVAL_VER=1.3] go test -run TestDumpShader -v
func TestDumpShader(t *testing.T) {
	path := os.Getenv("SPVVAL_DUMP")
	if path == "" {
		t.Skip("set SPVVAL_DUMP to a .wgsl file")
	}
	src, err := os.ReadFile(path)
	if err != nil {
		t.Fatal(err)
	}
	ver := [2]int{1, 3}
	if v := os.Getenv("SPVVAL_VER"); v != "" {
		fmt.Sscanf(v, "%d.%d", &ver[0], &ver[1])
	}
	bin := compileT(t, string(src), ver)
	fmt.Println(disasmT(bin))
	rep := Validate(bin, Options{RequestedVersion: ver})
	fmt.Println("findings:", rulesOf(rep))
}
