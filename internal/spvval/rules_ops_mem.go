package spvval

// O rules, part 2: memory, calls, atomics, control-flow operands, images.

func (c *opCtx) accessChain() {
	in := c.in
	m := c.m
	base := in.opID(0)
	if !c.known(base) {
		return
	}
	idx := in.idOps()[1:]
	for _, o := range idx {
		if m.typeOf(o.ID) == nil {
			return
		}
	}
	m.fire(c.rule)
	bt := m.typeOf(base)
	rt := m.types[in.Type]
	if bt.Kind != tkPointer {
		c.bad("base %%%d has type %s, not a pointer", base, m.typeName(bt.ID))
		return
	}
	if rt.Kind != tkPointer {
		c.bad("result type %s is not a pointer", m.typeName(in.Type))
		return
	}
	cur := bt.Elem
	for i, o := range idx {
		is := m.shapeOf(o.ID)
		if !is.ok || is.kind != tkInt || is.vector {
			c.bad("index %d (%%%d) has type %s, expected an integer scalar", i, o.ID, m.typeName(m.typeIDOf(o.ID)))
			return
		}
		t := m.types[cur]
		if t == nil {
			return
		}
		switch t.Kind {
		case tkVector, tkMatrix, tkArray, tkRuntimeArray:
			cur = t.Elem
		case tkStruct:
			d := m.defs[o.ID]
			if d.Op != opConstant && d.Op != opConstantNull {
				c.bad("index %d (%%%d) into struct %s is defined by %s, must be an OpConstant", i, o.ID, m.typeName(cur), d.name())
				return
			}
			v, _ := m.constValue(o.ID)
			if v >= uint64(len(t.Members)) {
				c.bad("index %d (%%%d = %d) is out of range for struct %s with %d member(s)", i, o.ID, v, m.typeName(cur), len(t.Members))
				return
			}
			cur = t.Members[v]
		default:
			c.bad("index %d (%%%d) applied to non-composite type %s", i, o.ID, m.typeName(cur))
			return
		}
	}
	if rt.SC != bt.SC {
		c.bad("result pointer storage class %d differs from the base's %d", rt.SC, bt.SC)
	}
	if rt.Elem != cur {
		c.bad("result pointee type %s differs from the indexed type %s", m.typeName(rt.Elem), m.typeName(cur))
	}
}

// rootVariable follows access chains / copies back to the OpVariable (or nil).
func (m *module) rootVariable(id uint32) *Inst {
	for i := 0; i < 64; i++ {
		d := m.defs[id]
		if d == nil {
			return nil
		}
		switch d.Op {
		case opVariable:
			return d
		case opAccessChain, opInBoundsAccessChain, opPtrAccessChain, opCopyObject, opImageTexelPointer:
			id = d.opID(0)
		default:
			return nil
		}
	}
	return nil
}

// stripArrays removes array / runtime-array levels.
func (m *module) stripArrays(tid uint32) *Type {
	t := m.types[tid]
	for i := 0; t != nil && (t.Kind == tkArray || t.Kind == tkRuntimeArray); i++ {
		if i > 64 {
			return nil // cyclic type in a corrupt module
		}
		t = m.types[t.Elem]
	}
	return t
}

func (c *opCtx) loadStore() {
	in := c.in
	m := c.m
	ptr := in.opID(0)
	if in.Op == opLoad {
		if !c.known(ptr) {
			return
		}
	} else if !c.known(ptr, in.opID(1)) {
		return
	}
	m.fire(c.rule)
	pt := m.typeOf(ptr)
	if pt.Kind != tkPointer {
		c.bad("pointer operand %%%d has type %s, not a pointer", ptr, m.typeName(pt.ID))
		return
	}
	if in.Op == opLoad {
		if pt.Elem != in.Type {
			c.bad("result type %s differs from the pointee type %s of %%%d", m.typeName(in.Type), m.typeName(pt.Elem), ptr)
		}
		return
	}
	obj := in.opID(1)
	if m.typeIDOf(obj) != pt.Elem {
		c.bad("object %%%d type %s differs from the pointee type %s of %%%d", obj, m.typeName(m.typeIDOf(obj)), m.typeName(pt.Elem), ptr)
	}
	switch pt.SC {
	case scInput, scUniformConstant, scPushConstant:
		c.bad("store through pointer %%%d in read-only storage class %d", ptr, pt.SC)
	case scUniform:
		if v := m.rootVariable(ptr); v != nil {
			if vt := m.types[v.Type]; vt != nil && vt.Kind == tkPointer {
				if st := m.stripArrays(vt.Elem); st != nil && st.Kind == tkStruct && m.hasDec(st.ID, decBlock) && !m.hasDec(st.ID, decBufferBlock) {
					c.bad("store into Uniform-class variable %%%d whose struct %%%d is a Block (read-only uniform buffer)", v.Result, st.ID)
				}
			}
		}
	}
}

func (c *opCtx) call() {
	in := c.in
	m := c.m
	callee := m.funcByID[in.opID(0)]
	if callee == nil || m.types[in.Type] == nil {
		return
	}
	ft := m.types[callee.Inst.opID(1)]
	if ft == nil || ft.Kind != tkFunction {
		return
	}
	m.fire(c.rule)
	if ft.Elem != in.Type {
		c.bad("result type %s differs from the callee's return type %s", m.typeName(in.Type), m.typeName(ft.Elem))
	}
	args := in.idOps()[1:]
	if len(args) != len(ft.Members) {
		c.bad("%d argument(s) passed, callee %%%d takes %d", len(args), in.opID(0), len(ft.Members))
		return
	}
	for i, a := range args {
		if at := m.typeIDOf(a.ID); at != 0 && at != ft.Members[i] {
			c.bad("argument %d (%%%d) has type %s, parameter type is %s", i, a.ID, m.typeName(at), m.typeName(ft.Members[i]))
		}
	}
}

func (c *opCtx) ret() {
	in := c.in
	m := c.m
	rt := m.types[c.f.Inst.Type]
	if rt == nil {
		return
	}
	m.fire(c.rule)
	if in.Op == opReturn {
		if rt.Kind != tkVoid {
			c.bad("OpReturn in function %%%d whose return type is %s", c.f.Inst.Result, m.typeName(rt.ID))
		}
		return
	}
	v := in.opID(0)
	if rt.Kind == tkVoid {
		c.bad("OpReturnValue in void function %%%d", c.f.Inst.Result)
		return
	}
	if vt := m.typeIDOf(v); vt != 0 && vt != rt.ID {
		c.bad("value %%%d has type %s, function %%%d returns %s", v, m.typeName(vt), c.f.Inst.Result, m.typeName(rt.ID))
	}
}

// Operand roles for scopeOrSemantics.
const (
	roleExecScope = "execution scope"
	roleMemScope  = "memory scope"
	roleSemantics = "memory semantics"
)

// scopeOrSemantics: with the Shader capability scope and memory-semantics ids must be
// constant instructions of 32-bit integer type. For plain constants the value is checked
// against the Vulkan environment rules ("Scope" and "Memory Semantics" validation rules).
func (c *opCtx) scopeOrSemantics(id uint32, role string) {
	m := c.m
	d := m.defs[id]
	if d == nil {
		return
	}
	t := m.types[d.Type]
	if t == nil || t.Kind != tkInt || t.Width != 32 {
		c.bad("%s operand %%%d has type %s, expected a 32-bit integer", role, id, m.typeName(d.Type))
		return
	}
	if !isConstOp(d.Op) {
		c.bad("%s operand %%%d is defined by %s, must be a constant instruction", role, id, d.name())
		return
	}
	v64, ok := m.constValue(id)
	if !ok {
		return // specialization constant
	}
	v := uint32(v64)
	switch role {
	case roleExecScope:
		if v != 2 && v != 3 {
			c.bad("execution scope %%%d = %d; Vulkan allows only Workgroup (2) and Subgroup (3)", id, v)
		}
	case roleMemScope:
		if v == 0 || v > 6 {
			c.bad("memory scope %%%d = %d; Vulkan allows Device (1), Workgroup (2), Subgroup (3), Invocation (4), QueueFamily (5), ShaderCallKHR (6)", id, v)
		}
	case roleSemantics:
		const known = 0x2 | 0x4 | 0x8 | 0x10 | 0x40 | 0x80 | 0x100 | 0x200 | 0x400 | 0x800 | 0x1000 | 0x2000 | 0x4000 | 0x8000
		if v&^known != 0 {
			c.bad("memory semantics %%%d = 0x%x has unknown bits 0x%x", id, v, v&^uint32(known))
		}
		order := v & 0x1e
		if order&(order-1) != 0 {
			c.bad("memory semantics %%%d = 0x%x sets more than one of Acquire/Release/AcquireRelease/SequentiallyConsistent", id, v)
		}
		if order&0x10 != 0 {
			c.bad("memory semantics %%%d = 0x%x uses SequentiallyConsistent, which Vulkan does not allow", id, v)
		}
		switch c.in.Op {
		case opAtomicLoad:
			if order&(0x4|0x8) != 0 {
				c.bad("OpAtomicLoad memory semantics %%%d = 0x%x must not be Release or AcquireRelease", id, v)
			}
		case opAtomicStore:
			if order&(0x2|0x8) != 0 {
				c.bad("OpAtomicStore memory semantics %%%d = 0x%x must not be Acquire or AcquireRelease", id, v)
			}
		case opMemoryBarrier:
			if order == 0 || v&0x1fc0 == 0 {
				c.bad("OpMemoryBarrier memory semantics %%%d = 0x%x needs an ordering bit and at least one storage-class bit", id, v)
			}
		}
	}
}

func (c *opCtx) atomic() {
	in := c.in
	m := c.m
	ptr := in.opID(0)
	if !c.known(ptr) {
		return
	}
	m.fire(c.rule)
	pt := m.typeOf(ptr)
	if pt.Kind != tkPointer {
		c.bad("pointer operand %%%d has type %s, not a pointer", ptr, m.typeName(pt.ID))
		return
	}
	switch pt.SC {
	case scUniform, scWorkgroup, scImage, scStorageBuffer, scPhysicalStorage, scTaskPayloadEXT, scCrossWorkgroup, scGeneric, scAtomicCounter:
	default:
		c.bad("pointer %%%d is in storage class %d, which atomics do not allow", ptr, pt.SC)
	}
	pe := m.types[pt.Elem]
	floatOK := false
	switch in.Op {
	case opAtomicLoad, opAtomicStore, opAtomicExchange, opAtomicFAddEXT, opAtomicFMinEXT, opAtomicFMaxEXT:
		floatOK = true
	}
	isFloatOnly := in.Op == opAtomicFAddEXT || in.Op == opAtomicFMinEXT || in.Op == opAtomicFMaxEXT
	switch {
	case pe == nil:
		return
	case pe.Kind == tkInt && !isFloatOnly:
		if pe.Width != 32 && pe.Width != 64 {
			c.bad("pointee type %s must be a 32- or 64-bit integer", m.typeName(pe.ID))
		}
	case pe.Kind == tkFloat && floatOK:
	default:
		c.bad("pointee type %s is not valid for %s", m.typeName(pe.ID), in.name())
		return
	}
	ops := in.idOps()
	c.scopeOrSemantics(ops[1].ID, roleMemScope)
	c.scopeOrSemantics(ops[2].ID, roleSemantics)
	valueIdx := -1
	switch in.Op {
	case opAtomicLoad, opAtomicIIncrement, opAtomicIDecrement:
	case opAtomicStore:
		valueIdx = 3
	case opAtomicCompareExchang:
		c.scopeOrSemantics(ops[3].ID, roleSemantics)
		valueIdx = 4
		if ct := m.typeIDOf(ops[5].ID); ct != 0 && ct != pe.ID {
			c.bad("comparator %%%d type %s differs from the pointee type %s", ops[5].ID, m.typeName(ct), m.typeName(pe.ID))
		}
	default:
		valueIdx = 3
	}
	if in.Op != opAtomicStore && in.Type != pe.ID {
		c.bad("result type %s differs from the pointee type %s", m.typeName(in.Type), m.typeName(pe.ID))
	}
	if valueIdx >= 0 {
		if vt := m.typeIDOf(ops[valueIdx].ID); vt != 0 && vt != pe.ID {
			c.bad("value %%%d type %s differs from the pointee type %s", ops[valueIdx].ID, m.typeName(vt), m.typeName(pe.ID))
		}
	}
}

func (c *opCtx) arrayLength() {
	in := c.in
	m := c.m
	s := in.opID(0)
	if !c.known(s) {
		return
	}
	m.fire(c.rule)
	rt := m.types[in.Type]
	if rt.Kind != tkInt || rt.Width != 32 || rt.Signed {
		c.bad("result type %s must be a 32-bit unsigned integer", m.typeName(in.Type))
	}
	pt := m.typeOf(s)
	if pt.Kind != tkPointer {
		c.bad("structure operand %%%d has type %s, not a pointer", s, m.typeName(pt.ID))
		return
	}
	st := m.types[pt.Elem]
	if st == nil || st.Kind != tkStruct {
		c.bad("structure operand %%%d points to %s, not a struct", s, m.typeName(pt.Elem))
		return
	}
	member, _ := in.opLit(1)
	if len(st.Members) == 0 || int(member) != len(st.Members)-1 {
		c.bad("member literal %d is not the last member (%d) of struct %%%d", member, len(st.Members)-1, st.ID)
		return
	}
	if mt := m.types[st.Members[member]]; mt == nil || mt.Kind != tkRuntimeArray {
		c.bad("member %d of struct %%%d has type %s, not a runtime array", member, st.ID, m.typeName(st.Members[member]))
	}
}

func (c *opCtx) branch() {
	in := c.in
	m := c.m
	m.fire(c.rule)
	if in.Op == opBranch {
		return // target checked by C9
	}
	cond := in.opID(0)
	if t := m.typeOf(cond); t != nil && t.Kind != tkBool {
		c.bad("condition %%%d has type %s, expected a bool scalar", cond, m.typeName(t.ID))
	}
	if n := len(in.Ops) - 3; n != 0 && n != 2 {
		c.bad("%d branch weight literal(s), must be 0 or 2", n)
	}
}

func (c *opCtx) switchOp() {
	in := c.in
	m := c.m
	sel := in.opID(0)
	t := m.typeOf(sel)
	if t == nil {
		return
	}
	m.fire(c.rule)
	if t.Kind != tkInt {
		c.bad("selector %%%d has type %s, expected an integer scalar", sel, m.typeName(t.ID))
		return
	}
	cases, ok := m.switchCases(in)
	if !ok {
		c.bad("case operands do not divide into (literal, label) pairs for a %d-bit selector", t.Width)
		return
	}
	seen := map[uint64]bool{}
	for _, cs := range cases {
		v := cs.Lit
		if t.Width < 32 {
			// literals narrower than 32 bits are sign- or zero-extended; compare the low bits
			v &= (1 << t.Width) - 1
		}
		if seen[v] {
			c.bad("case literal %d appears more than once", cs.Lit)
		}
		seen[v] = true
	}
}

// ---- images (basic operand-class checks only) ----

func (c *opCtx) image() {
	in := c.in
	m := c.m
	op := in.Op
	first := in.opID(0)
	if !c.known(first) {
		return
	}
	ft := m.typeOf(first)
	imageOf := func(t *Type) *Type { // image type behind a sampled image, or the image itself
		if t == nil {
			return nil
		}
		if t.Kind == tkSampledImage {
			return m.types[t.Elem]
		}
		if t.Kind == tkImage {
			return t
		}
		return nil
	}
	switch {
	case op == opSampledImage:
		m.fire(c.rule)
		rt := m.types[in.Type]
		if rt.Kind != tkSampledImage {
			c.bad("result type %s is not an OpTypeSampledImage", m.typeName(in.Type))
			return
		}
		if ft.Kind != tkImage || rt.Elem != ft.ID {
			c.bad("image operand %%%d type %s differs from the result's image type %s", first, m.typeName(ft.ID), m.typeName(rt.Elem))
		}
		if st := m.typeOf(in.opID(1)); st != nil && st.Kind != tkSampler {
			c.bad("sampler operand %%%d has type %s, not an OpTypeSampler", in.opID(1), m.typeName(st.ID))
		}
	case op >= opImageSampleImplicit && op <= opImageSampleProjDrefE, op == opImageGather, op == opImageDrefGather:
		m.fire(c.rule)
		if ft.Kind != tkSampledImage {
			c.bad("first operand %%%d has type %s, expected a sampled image", first, m.typeName(ft.ID))
			return
		}
		img := imageOf(ft)
		coord := m.shapeOf(in.opID(1))
		if m.typeOf(in.opID(1)) != nil && (!coord.ok || coord.kind != tkFloat) {
			c.bad("coordinate %%%d has type %s, expected float scalar or vector", in.opID(1), m.typeName(m.typeIDOf(in.opID(1))))
		}
		r := c.resultShape()
		dref := op == opImageSampleDrefImpl || op == opImageSampleDrefExpl || op == opImageSampleProjDrefI || op == opImageSampleProjDrefE
		if img != nil {
			st := m.types[img.Elem]
			if dref {
				if in.Type != img.Elem {
					c.bad("result type %s must be the image's sampled type %s for a depth-comparison sample", m.typeName(in.Type), m.typeName(img.Elem))
				}
			} else if st != nil && st.Kind != tkVoid {
				rt := m.types[in.Type]
				if !r.ok || !r.vector || r.count != 4 || rt.Elem != img.Elem {
					c.bad("result type %s must be a 4-component vector of the image's sampled type %s", m.typeName(in.Type), m.typeName(img.Elem))
				}
			}
		}
	case op == opImageFetch || op == opImageRead || op == opImageWrite:
		m.fire(c.rule)
		if ft.Kind != tkImage {
			c.bad("image operand %%%d has type %s, expected an OpTypeImage", first, m.typeName(ft.ID))
			return
		}
		if op == opImageFetch {
			if coord := m.shapeOf(in.opID(1)); m.typeOf(in.opID(1)) != nil && (!coord.ok || coord.kind != tkInt) {
				c.bad("coordinate %%%d has type %s, expected integer scalar or vector", in.opID(1), m.typeName(m.typeIDOf(in.opID(1))))
			}
			if ft.Sampled != 1 {
				c.bad("OpImageFetch needs an image with Sampled=1, image type %%%d has Sampled=%d", ft.ID, ft.Sampled)
			}
		}
	case op >= opImageQuerySizeLod && op <= opImageQuerySamples || op == opImageQueryFormat || op == opImageQueryOrder:
		m.fire(c.rule)
		if op == opImageQueryLod {
			if ft.Kind != tkSampledImage {
				c.bad("first operand %%%d has type %s, expected a sampled image", first, m.typeName(ft.ID))
			}
			return
		}
		if ft.Kind != tkImage {
			c.bad("image operand %%%d has type %s, expected an OpTypeImage", first, m.typeName(ft.ID))
		}
		if r := c.resultShape(); !r.ok || r.kind != tkInt {
			c.bad("result type %s is not an integer scalar or vector", m.typeName(in.Type))
		}
	case op == opImageTexelPointer:
		m.fire(c.rule)
		rt := m.types[in.Type]
		if rt.Kind != tkPointer || rt.SC != scImage {
			c.bad("result type %s is not a pointer in the Image storage class", m.typeName(in.Type))
		}
		if ft.Kind != tkPointer || m.types[ft.Elem] == nil || m.types[ft.Elem].Kind != tkImage {
			c.bad("image operand %%%d has type %s, expected a pointer to an OpTypeImage", first, m.typeName(ft.ID))
		} else if rt.Kind == tkPointer && rt.Elem != m.types[ft.Elem].Elem {
			c.bad("result pointee %s differs from the image's sampled type %s", m.typeName(rt.Elem), m.typeName(m.types[ft.Elem].Elem))
		}
		for k, what := range []string{"", "coordinate", "sample"} {
			if k == 0 {
				continue
			}
			if s := m.shapeOf(in.opID(k)); m.typeOf(in.opID(k)) != nil && (!s.ok || s.kind != tkInt || (k == 2 && s.vector)) {
				c.bad("%s operand %%%d has type %s, expected an integer %s", what, in.opID(k), m.typeName(m.typeIDOf(in.opID(k))), map[int]string{1: "scalar or vector", 2: "scalar"}[k])
			}
		}
	}
}
