package spvval

import "fmt"

// E rules: entry points, interfaces, execution modes.

// staticGlobals returns, for every function id, the set of module-scope variable ids
// referenced by the function or anything it (transitively) calls.
func (m *module) staticGlobals() map[uint32]map[uint32]bool {
	isGlobal := map[uint32]bool{}
	for _, g := range m.globals {
		isGlobal[g.Result] = true
	}
	direct := map[uint32]map[uint32]bool{}
	calls := map[uint32][]uint32{}
	for _, f := range m.funcs {
		id := f.Inst.Result
		set := map[uint32]bool{}
		for _, b := range f.Blocks {
			for _, in := range b.Insts {
				if in.Info == nil || in.Decode != "" {
					continue
				}
				for _, o := range in.idOps() {
					if isGlobal[o.ID] {
						set[o.ID] = true
					}
				}
				if in.Op == opFunctionCall {
					calls[id] = append(calls[id], in.opID(0))
				}
			}
		}
		direct[id] = set
	}
	result := map[uint32]map[uint32]bool{}
	var visit func(id uint32, seen map[uint32]bool, acc map[uint32]bool)
	visit = func(id uint32, seen map[uint32]bool, acc map[uint32]bool) {
		if seen[id] {
			return
		}
		seen[id] = true
		for g := range direct[id] {
			acc[g] = true
		}
		for _, c := range calls[id] {
			visit(c, seen, acc)
		}
	}
	for _, f := range m.funcs {
		acc := map[uint32]bool{}
		visit(f.Inst.Result, map[uint32]bool{}, acc)
		result[f.Inst.Result] = acc
	}
	return result
}

func (m *module) checkEntryPoints() {
	static := m.staticGlobals()
	called := map[uint32]*Inst{}
	for _, f := range m.funcs {
		for _, b := range f.Blocks {
			for _, in := range b.Insts {
				if in.Op == opFunctionCall && in.Decode == "" {
					called[in.opID(0)] = in
				}
			}
		}
	}
	seenName := map[string]*Inst{}
	for _, ep := range m.entries {
		in := ep.Inst
		// E1
		m.fire("E1")
		f := m.funcByID[ep.Fn]
		if f == nil {
			if d := m.defs[ep.Fn]; d != nil {
				m.fail("E1", "%s %q: entry point id %%%d is defined by %s, not OpFunction", in, ep.Name, ep.Fn, d.name())
			}
		} else if f.Inst.Decode == "" {
			rt := m.types[f.Inst.Type]
			ft := m.types[f.Inst.opID(1)]
			if rt != nil && rt.Kind != tkVoid {
				m.fail("E1", "%s %q: entry function %%%d returns %s, must return void", in, ep.Name, ep.Fn, m.typeName(rt.ID))
			}
			if ft != nil && ft.Kind == tkFunction && len(ft.Members) != 0 {
				m.fail("E1", "%s %q: entry function %%%d takes %d parameter(s), must take none", in, ep.Name, ep.Fn, len(ft.Members))
			}
		}
		// E5
		m.fire("E5")
		key := fmt.Sprintf("%d/%s", ep.Model, ep.Name)
		if prev := seenName[key]; prev != nil {
			m.fail("E5", "%s: execution model %d and name %q duplicate %s", in, ep.Model, ep.Name, prev)
		}
		seenName[key] = in
		if c := called[ep.Fn]; c != nil {
			m.fail("E5", "entry point function %%%d (%q) is the callee of %s", ep.Fn, ep.Name, c)
		}
		// E2
		m.fire("E2")
		listed := map[uint32]bool{}
		for _, id := range ep.Interface {
			d := m.defs[id]
			if d == nil {
				continue
			}
			if d.Op != opVariable || m.inFunc[id] != nil {
				m.fail("E2", "%s %q: interface id %%%d is defined by %s, must be a module-scope OpVariable", in, ep.Name, id, d.name())
				continue
			}
			if listed[id] && m.atLeast(1, 4) {
				m.fail("E2", "%s %q: interface id %%%d is listed more than once", in, ep.Name, id)
			}
			listed[id] = true
			if d.Decode != "" {
				continue
			}
			sc := d.Ops[0].Lit
			if !m.atLeast(1, 4) && sc != scInput && sc != scOutput {
				m.fail("E2", "%s %q: interface variable %%%d has storage class %d; before SPIR-V 1.4 only Input and Output variables may be listed (module is %d.%d)",
					in, ep.Name, id, sc, m.version[0], m.version[1])
			}
			if sc == scFunction {
				m.fail("E2", "%s %q: interface variable %%%d has Function storage class", in, ep.Name, id)
			}
		}
		// E2 (1.4+) / E3: statically used variables are listed
		if f != nil {
			for g := range static[ep.Fn] {
				d := m.defs[g]
				if d == nil || d.Op != opVariable || d.Decode != "" {
					continue
				}
				sc := d.Ops[0].Lit
				if sc == scInput || sc == scOutput {
					m.fire("E3")
					if !listed[g] {
						m.fail("E3", "%s %q: Input/Output variable %%%d (storage class %d) is statically used but not listed in the interface", in, ep.Name, g, sc)
					}
				} else if m.atLeast(1, 4) {
					m.fire("E2")
					if !listed[g] {
						m.fail("E2", "%s %q: global variable %%%d (storage class %d) is statically used but not listed in the interface (required from SPIR-V 1.4, module is %d.%d)",
							in, ep.Name, g, sc, m.version[0], m.version[1])
					}
				}
			}
		}
		// E4
		modes := map[uint32]bool{}
		for _, xm := range m.modes[ep.Fn] {
			if xm.Decode == "" {
				modes[xm.Ops[1].Lit] = true
				if mode := xm.Ops[1].Lit; mode == xmLocalSize || mode == xmLocalSizeId || mode == 18 /* LocalSizeHint */ {
					m.fire("E4")
					if n := len(xm.Ops) - 2; n != 3 {
						m.fail("E4", "%s: execution mode %d takes exactly 3 operands, got %d", xm, mode, n)
					} else if mode == xmLocalSize && (xm.Ops[2].Lit == 0 || xm.Ops[3].Lit == 0 || xm.Ops[4].Lit == 0) {
						m.fail("E4", "%s: LocalSize %d x %d x %d has a zero dimension", xm, xm.Ops[2].Lit, xm.Ops[3].Lit, xm.Ops[4].Lit)
					}
				}
			}
		}
		switch ep.Model {
		case emGLCompute:
			m.fire("E4")
			if !modes[xmLocalSize] && !modes[xmLocalSizeId] && !m.hasWorkgroupSizeConstant() {
				m.fail("E4", "%s %q: GLCompute entry point has no LocalSize / LocalSizeId execution mode and no WorkgroupSize constant", in, ep.Name)
			}
		case emFragment:
			m.fire("E4")
			if !modes[xmOriginUpperLeft] && !modes[xmOriginLowerLeft] {
				m.fail("E4", "%s %q: Fragment entry point has neither OriginUpperLeft nor OriginLowerLeft", in, ep.Name)
			}
			if modes[xmOriginUpperLeft] && modes[xmOriginLowerLeft] {
				m.fail("E4", "%s %q: Fragment entry point has both OriginUpperLeft and OriginLowerLeft", in, ep.Name)
			}
			for _, id := range ep.Interface {
				d := m.defs[id]
				if d == nil || d.Op != opVariable || d.Decode != "" || d.Ops[0].Lit != scOutput {
					continue
				}
				for _, it := range m.ioItems(d) {
					if it.builtin == biFragDepth {
						m.fire("E4")
						if !modes[xmDepthReplacing] {
							m.fail("E4", "%s %q: FragDepth output %%%d is in the interface but the DepthReplacing execution mode is missing", in, ep.Name, id)
						}
					}
				}
			}
		}
	}
	// execution modes must target entry points
	for fn, xs := range m.modes {
		isEntry := false
		for _, ep := range m.entries {
			if ep.Fn == fn {
				isEntry = true
			}
		}
		m.fire("E4")
		if !isEntry {
			m.fail("E4", "%s targets %%%d, which is not the function of any OpEntryPoint", xs[0], fn)
		}
	}
}

func (m *module) hasWorkgroupSizeConstant() bool {
	for id, ds := range m.decos {
		for _, d := range ds {
			if d.Dec == decBuiltIn && len(d.Args) > 0 && d.Args[0] == biWorkgroupSize {
				if def := m.defs[id]; def != nil && isConstOp(def.Op) {
					return true
				}
			}
		}
	}
	return false
}
