package spvval

// C rules: control flow and structured control flow (SPIR-V spec 2.11, 2.11.1 "Rules for Structured Control-flow Declarations").
// The structured rules apply because every module this validator sees declares the Shader capability.

func (m *module) checkCFG() {
	for _, f := range m.funcs {
		if len(f.Blocks) == 0 {
			continue
		}
		m.cfgBasic(f)
		if m.caps[capShader] {
			m.cfgStructured(f)
		}
	}
}

func (m *module) labelIn(f *Func, id uint32) *Block {
	d := m.defs[id]
	if d == nil || d.Op != opLabel {
		return nil
	}
	return f.ByLabel[id]
}

// cfgBasic: C2, C3, C4, C9, C10 (C1 is produced by the linear layout scan).
func (m *module) cfgBasic(f *Func) {
	entry := f.Blocks[0]
	for _, b := range f.Blocks {
		if !b.Reach {
			m.fire("C10")
		}
		t := b.term()
		if t == nil || t.Info == nil || t.Decode != "" {
			continue
		}
		// C9 / C2
		var targets []uint32
		switch t.Op {
		case opBranch:
			targets = []uint32{t.opID(0)}
		case opBranchConditional:
			targets = []uint32{t.opID(1), t.opID(2)}
		case opSwitch:
			targets = []uint32{t.opID(1)}
			cs, _ := m.switchCases(t)
			for _, c := range cs {
				targets = append(targets, c.Label)
			}
		}
		for _, id := range targets {
			m.fire("C9")
			tb := m.labelIn(f, id)
			if tb == nil {
				if d := m.defs[id]; d != nil {
					m.fail("C9", "%s in block %%%d of function %%%d: target %%%d is not a label of this function (defined by %s)", t, b.Label, f.Inst.Result, id, d.name())
				}
				continue
			}
			m.fire("C2")
			if tb == entry {
				m.fail("C2", "%s in block %%%d branches to the entry block %%%d of function %%%d", t, b.Label, entry.Label, f.Inst.Result)
			}
		}
		// merge instructions
		n := len(b.Insts)
		for i, in := range b.Insts {
			switch in.Op {
			case opSelectionMerge:
				m.fire("C3")
				if i != n-2 {
					m.fail("C3", "%s in block %%%d is not immediately followed by the block terminator", in, b.Label)
				} else if t.Op != opBranchConditional && t.Op != opSwitch {
					m.fail("C3", "%s in block %%%d is followed by %s, must be OpBranchConditional or OpSwitch", in, b.Label, t.name())
				}
				if sc, _ := in.opLit(1); sc > 3 || sc == 3 {
					m.fail("C3", "%s: selection control 0x%x has unknown bits or both Flatten and DontFlatten", in, sc)
				}
				m.fire("C9")
				if m.labelIn(f, in.opID(0)) == nil && m.defs[in.opID(0)] != nil {
					m.fail("C9", "%s: merge block %%%d is not a label of function %%%d", in, in.opID(0), f.Inst.Result)
				}
			case opLoopMerge:
				m.fire("C4")
				if i != n-2 {
					m.fail("C4", "%s in block %%%d is not the second-to-last instruction of its block", in, b.Label)
				} else if t.Op != opBranch && t.Op != opBranchConditional {
					m.fail("C4", "%s in block %%%d is followed by %s, must be OpBranch or OpBranchConditional", in, b.Label, t.name())
				}
				if lc, ok := in.opLit(2); ok {
					// every loop-control bit from DependencyLength (0x8) to PartialCount (0x100) carries one literal
					want := 0
					for bit := uint32(0x8); bit <= 0x100; bit <<= 1 {
						if lc&bit != 0 {
							want++
						}
					}
					if got := len(in.Ops) - 3; lc&^0x1ff == 0 && got != want {
						m.fail("C4", "%s: loop control 0x%x needs %d literal operand(s), got %d", in, lc, want, got)
					}
					if lc&0x3 == 0x3 {
						m.fail("C4", "%s: loop control has both Unroll and DontUnroll", in)
					}
				}
				for k := 0; k < 2; k++ {
					m.fire("C9")
					if m.labelIn(f, in.opID(k)) == nil && m.defs[in.opID(k)] != nil {
						m.fail("C9", "%s: merge/continue target %%%d is not a label of function %%%d", in, in.opID(k), f.Inst.Result)
					}
				}
			}
		}
		if t.Op == opSwitch && b.Reach && m.caps[capShader] {
			m.fire("C3")
			if n < 2 || b.Insts[n-2].Op != opSelectionMerge {
				m.fail("C3", "%s in block %%%d is not preceded by OpSelectionMerge", t, b.Label)
			}
		}
	}
}

type headerInfo struct {
	b      *Block
	merge  *Block // may be nil if the id is not a label
	cont   *Block // loops only
	isLoop bool
	isSw   bool
}

func (m *module) cfgStructured(f *Func) {
	var headers []*headerInfo
	mergeOwner := map[uint32]*Block{}
	for _, b := range f.Blocks {
		if b.Merge == 0 {
			continue
		}
		h := &headerInfo{b: b, merge: f.ByLabel[b.Merge], isLoop: b.IsLoop}
		if t := b.term(); t != nil && t.Op == opSwitch {
			h.isSw = true
		}
		if b.IsLoop {
			h.cont = f.ByLabel[b.Continue]
		}
		// C7 (declaration-level parts)
		m.fire("C7")
		if b.Merge == b.Label {
			m.fail("C7", "block %%%d in function %%%d declares itself as its merge block", b.Label, f.Inst.Result)
		}
		if prev := mergeOwner[b.Merge]; prev != nil {
			m.fail("C7", "block %%%d is the merge block of both header %%%d and header %%%d", b.Merge, prev.Label, b.Label)
		} else {
			mergeOwner[b.Merge] = b
		}
		if b.IsLoop && b.Continue == b.Merge {
			m.fail("C7", "loop header %%%d uses %%%d as both merge block and continue target", b.Label, b.Merge)
		}
		if !b.Reach {
			continue
		}
		headers = append(headers, h)
		// C5
		m.fire("C5")
		if h.merge != nil && h.merge.Reach && !dominates(b, h.merge) {
			m.fail("C5", "header %%%d does not dominate its merge block %%%d", b.Label, b.Merge)
		}
		if h.cont != nil && h.cont.Reach && !dominates(b, h.cont) {
			m.fail("C5", "loop header %%%d does not dominate its continue target %%%d", b.Label, b.Continue)
		}
	}
	// C6: back edges
	backEdges := map[int][]*Block{}    // header index -> reachable back-edge blocks
	unreachEdges := map[int][]*Block{} // header index -> unreachable blocks branching to it
	for _, b := range f.Blocks {
		for _, s := range b.Succs {
			t := f.Blocks[s]
			if !t.Reach {
				continue
			}
			if !b.Reach {
				unreachEdges[s] = append(unreachEdges[s], b)
				continue
			}
			if dominates(t, b) {
				m.fire("C6")
				backEdges[s] = append(backEdges[s], b)
				if !t.IsLoop {
					m.fail("C6", "block %%%d branches back to %%%d, which dominates it but has no OpLoopMerge", b.Label, t.Label)
					continue
				}
				if ct := f.ByLabel[t.Continue]; ct != nil && ct.Reach && !dominates(ct, b) {
					m.fail("C6", "back-edge block %%%d of loop %%%d is not dominated by the continue target %%%d", b.Label, t.Label, t.Continue)
				}
			}
		}
	}
	for _, h := range headers {
		if !h.isLoop {
			continue
		}
		m.fire("C6")
		nb, nu := len(backEdges[h.b.Index]), len(unreachEdges[h.b.Index])
		if nb > 1 {
			m.fail("C6", "loop header %%%d has %d back edges (from %%%d, %%%d, ...), exactly one is required", h.b.Label, nb, backEdges[h.b.Index][0].Label, backEdges[h.b.Index][1].Label)
		} else if nb+nu == 0 {
			m.fail("C6", "loop header %%%d has no back edge at all", h.b.Label)
		}
	}
	// C7: structured exits; C8: switch fall-through
	for _, h := range headers {
		m.checkConstructExits(f, h, headers)
		if h.isSw {
			m.checkSwitchFallthrough(f, h)
		}
	}
}

// enclosing reports whether header o's construct contains header h (by dominance).
func enclosing(o, h *headerInfo) bool {
	if o == h || !dominates(o.b, h.b) {
		return false
	}
	if o.merge != nil && o.merge.Reach && dominates(o.merge, h.b) {
		return false
	}
	return true
}

func (m *module) checkConstructExits(f *Func, h *headerInfo, headers []*headerInfo) {
	m.fire("C7")
	type exitKind struct {
		ok   bool // a legal exit target
		what string
		hdr  *Block
	}
	stops := map[int]exitKind{}
	addStop := func(b *Block, k exitKind) {
		if b == nil {
			return
		}
		if prev, dup := stops[b.Index]; dup && prev.ok {
			return
		}
		stops[b.Index] = k
	}
	for _, o := range headers {
		if !enclosing(o, h) {
			continue
		}
		addStop(o.merge, exitKind{ok: o.isLoop || o.isSw, what: "merge block", hdr: o.b})
		if o.isLoop {
			addStop(o.cont, exitKind{ok: true, what: "continue target", hdr: o.b})
			addStop(o.b, exitKind{ok: true, what: "loop header", hdr: o.b})
		}
	}
	if h.merge != nil {
		stops[h.merge.Index] = exitKind{ok: true, what: "own merge", hdr: h.b}
	}
	// traverse the construct
	in := map[int]bool{h.b.Index: true}
	work := []int{h.b.Index}
	for len(work) > 0 {
		v := work[len(work)-1]
		work = work[:len(work)-1]
		for _, s := range f.Blocks[v].Succs {
			if in[s] {
				continue
			}
			if k, stop := stops[s]; stop {
				if !k.ok {
					m.fail("C7", "block %%%d inside the construct of header %%%d branches to %%%d, the merge block of the enclosing selection %%%d; only the construct's own merge, an enclosing loop's merge/continue target or an enclosing switch's merge may be exited to",
						f.Blocks[v].Label, h.b.Label, f.Blocks[s].Label, k.hdr.Label)
				}
				continue
			}
			in[s] = true
			work = append(work, s)
		}
	}
	for idx := range in {
		b := f.Blocks[idx]
		if b.Reach && !dominates(h.b, b) {
			m.fail("C7", "block %%%d is reached from inside the construct of header %%%d without passing its merge block, but is not dominated by the header (a branch enters the construct from outside)", b.Label, h.b.Label)
			break
		}
	}
}

func (m *module) checkSwitchFallthrough(f *Func, h *headerInfo) {
	t := h.b.term()
	cases, ok := m.switchCases(t)
	if !ok {
		return
	}
	m.fire("C8")
	// ordered list of case targets (literal cases only) and the default
	defLabel := t.opID(1)
	var order []uint32
	isTarget := map[uint32]bool{defLabel: true}
	for _, c := range cases {
		order = append(order, c.Label)
		isTarget[c.Label] = true
	}
	var mergeLabel uint32
	if h.merge != nil {
		mergeLabel = h.merge.Label
	}
	fall := map[uint32]map[uint32]bool{} // from case target -> set of case targets it branches to
	into := map[uint32]map[uint32]bool{}
	for tl := range isTarget {
		if tl == mergeLabel {
			continue
		}
		tb := f.ByLabel[tl]
		if tb == nil || !tb.Reach {
			continue
		}
		for _, b := range f.Blocks {
			if !b.Reach || !dominates(tb, b) {
				continue
			}
			if h.merge != nil && h.merge.Reach && dominates(h.merge, b) {
				continue
			}
			for _, s := range b.Succs {
				sl := f.Blocks[s].Label
				if sl == tl || sl == mergeLabel || !isTarget[sl] {
					continue
				}
				if fall[tl] == nil {
					fall[tl] = map[uint32]bool{}
				}
				fall[tl][sl] = true
				if into[sl] == nil {
					into[sl] = map[uint32]bool{}
				}
				into[sl][tl] = true
			}
		}
	}
	for from, tos := range fall {
		if len(tos) > 1 {
			m.fail("C8", "case construct %%%d of the switch in block %%%d branches to %d other case targets, at most one is allowed", from, h.b.Label, len(tos))
			continue
		}
		for to := range tos {
			if len(into[to]) > 1 {
				m.fail("C8", "case target %%%d of the switch in block %%%d is branched to from %d other case constructs, at most one is allowed", to, h.b.Label, len(into[to]))
				continue
			}
			// order: 'to' must follow 'from' in the target list (only decidable for literal cases)
			firstFrom, lastTo := -1, -1
			for i, l := range order {
				if l == from && firstFrom == -1 {
					firstFrom = i
				}
				if l == to {
					lastTo = i
				}
			}
			if firstFrom >= 0 && lastTo >= 0 && lastTo < firstFrom && from != defLabel && to != defLabel {
				m.fail("C8", "case construct %%%d falls through to %%%d, which is listed before it in the OpSwitch of block %%%d", from, to, h.b.Label)
			}
		}
	}
}
