package spvval

// Operand layouts per opcode, transcribed from the SPIR-V specification
// (section 3.x "Instructions"). Only the opcodes a WGSL front-end can plausibly
// produce are tabled; an opcode missing from the table is reported under H5.

type opKind uint8

const (
	okID               opKind = iota // one <id>
	okLit                            // one literal word
	okOptID                          // optional <id>
	okOptLit                         // optional literal word
	okIDs                            // zero or more <id> to the end
	okLits                           // zero or more literal words to the end
	okString                         // nul-terminated literal string
	okOptString                      // optional string
	okConstVal                       // context-dependent literal number (>= 1 word, to the end)
	okRaw                            // remaining words left undecoded
	okMemAccess                      // optional Memory Operands mask + dependent operands
	okMemAccessReq                   // (unused) required memory operands
	okImageOps                       // optional Image Operands mask + dependent ids
	okImageOpsReq                    // required Image Operands
	okPhiPairs                       // (value id, parent id)*
	okSwitchPairs                    // (literal, label id)*, literal width from selector
	okGroupMemberPairs               // (id, literal)*
	okMask                           // decoded only: a mask word
)

type opInfo struct {
	name      string
	hasType   bool
	hasResult bool
	operands  []opKind
}

// minWords is the smallest legal word count for the instruction.
func (o *opInfo) minWords() int {
	n := 1
	if o.hasType {
		n++
	}
	if o.hasResult {
		n++
	}
	for _, k := range o.operands {
		switch k {
		case okID, okLit, okString, okConstVal, okImageOpsReq, okMemAccessReq:
			n++
		}
	}
	return n
}

// fixedWords returns the exact word count if the instruction has no variable part, else 0.
func (o *opInfo) fixedWords() int {
	for _, k := range o.operands {
		switch k {
		case okID, okLit:
		default:
			return 0
		}
	}
	return o.minWords()
}

var opTable = map[uint16]*opInfo{}

func def(op uint16, name string, shape string, kinds ...opKind) {
	// shape: "" none, "R" result only, "TR" type+result
	opTable[op] = &opInfo{name: name, hasType: shape == "TR", hasResult: shape == "R" || shape == "TR", operands: kinds}
}

// Opcode numbers used by name in the rules.
const (
	opNop                  = 0
	opUndef                = 1
	opSourceContinued      = 2
	opSource               = 3
	opSourceExtension      = 4
	opName                 = 5
	opMemberName           = 6
	opString               = 7
	opLine                 = 8
	opExtension            = 10
	opExtInstImport        = 11
	opExtInst              = 12
	opMemoryModel          = 14
	opEntryPoint           = 15
	opExecutionMode        = 16
	opCapability           = 17
	opTypeVoid             = 19
	opTypeBool             = 20
	opTypeInt              = 21
	opTypeFloat            = 22
	opTypeVector           = 23
	opTypeMatrix           = 24
	opTypeImage            = 25
	opTypeSampler          = 26
	opTypeSampledImage     = 27
	opTypeArray            = 28
	opTypeRuntimeArray     = 29
	opTypeStruct           = 30
	opTypeOpaque           = 31
	opTypePointer          = 32
	opTypeFunction         = 33
	opTypeForwardPointer   = 39
	opConstantTrue         = 41
	opConstantFalse        = 42
	opConstant             = 43
	opConstantComposite    = 44
	opConstantSampler      = 45
	opConstantNull         = 46
	opSpecConstantTrue     = 48
	opSpecConstantFalse    = 49
	opSpecConstant         = 50
	opSpecConstantComposit = 51
	opSpecConstantOp       = 52
	opFunction             = 54
	opFunctionParameter    = 55
	opFunctionEnd          = 56
	opFunctionCall         = 57
	opVariable             = 59
	opImageTexelPointer    = 60
	opLoad                 = 61
	opStore                = 62
	opCopyMemory           = 63
	opAccessChain          = 65
	opInBoundsAccessChain  = 66
	opPtrAccessChain       = 67
	opArrayLength          = 68
	opDecorate             = 71
	opMemberDecorate       = 72
	opDecorationGroup      = 73
	opGroupDecorate        = 74
	opGroupMemberDecorate  = 75
	opVectorExtractDynamic = 77
	opVectorInsertDynamic  = 78
	opVectorShuffle        = 79
	opCompositeConstruct   = 80
	opCompositeExtract     = 81
	opCompositeInsert      = 82
	opCopyObject           = 83
	opTranspose            = 84
	opSampledImage         = 86
	opImageSampleImplicit  = 87
	opImageSampleExplicit  = 88
	opImageSampleDrefImpl  = 89
	opImageSampleDrefExpl  = 90
	opImageSampleProjImpl  = 91
	opImageSampleProjExpl  = 92
	opImageSampleProjDrefI = 93
	opImageSampleProjDrefE = 94
	opImageFetch           = 95
	opImageGather          = 96
	opImageDrefGather      = 97
	opImageRead            = 98
	opImageWrite           = 99
	opImage                = 100
	opImageQueryFormat     = 101
	opImageQueryOrder      = 102
	opImageQuerySizeLod    = 103
	opImageQuerySize       = 104
	opImageQueryLod        = 105
	opImageQueryLevels     = 106
	opImageQuerySamples    = 107
	opConvertFToU          = 109
	opConvertFToS          = 110
	opConvertSToF          = 111
	opConvertUToF          = 112
	opUConvert             = 113
	opSConvert             = 114
	opFConvert             = 115
	opQuantizeToF16        = 116
	opBitcast              = 124
	opSNegate              = 126
	opFNegate              = 127
	opIAdd                 = 128
	opFAdd                 = 129
	opISub                 = 130
	opFSub                 = 131
	opIMul                 = 132
	opFMul                 = 133
	opUDiv                 = 134
	opSDiv                 = 135
	opFDiv                 = 136
	opUMod                 = 137
	opSRem                 = 138
	opSMod                 = 139
	opFRem                 = 140
	opFMod                 = 141
	opVectorTimesScalar    = 142
	opMatrixTimesScalar    = 143
	opVectorTimesMatrix    = 144
	opMatrixTimesVector    = 145
	opMatrixTimesMatrix    = 146
	opOuterProduct         = 147
	opDot                  = 148
	opIAddCarry            = 149
	opISubBorrow           = 150
	opUMulExtended         = 151
	opSMulExtended         = 152
	opAny                  = 154
	opAll                  = 155
	opIsNan                = 156
	opIsInf                = 157
	opLogicalEqual         = 164
	opLogicalNotEqual      = 165
	opLogicalOr            = 166
	opLogicalAnd           = 167
	opLogicalNot           = 168
	opSelect               = 169
	opIEqual               = 170
	opSLessThanEqual       = 179
	opFOrdEqual            = 180
	opFUnordGreaterThanEq  = 191
	opShiftRightLogical    = 194
	opShiftRightArithmetic = 195
	opShiftLeftLogical     = 196
	opBitwiseOr            = 197
	opBitwiseXor           = 198
	opBitwiseAnd           = 199
	opNot                  = 200
	opBitFieldInsert       = 201
	opBitFieldSExtract     = 202
	opBitFieldUExtract     = 203
	opBitReverse           = 204
	opBitCount             = 205
	opDPdx                 = 207
	opFwidthCoarse         = 215
	opControlBarrier       = 224
	opMemoryBarrier        = 225
	opAtomicLoad           = 227
	opAtomicStore          = 228
	opAtomicExchange       = 229
	opAtomicCompareExchang = 230
	opAtomicIIncrement     = 232
	opAtomicIDecrement     = 233
	opAtomicIAdd           = 234
	opAtomicISub           = 235
	opAtomicSMin           = 236
	opAtomicUMin           = 237
	opAtomicSMax           = 238
	opAtomicUMax           = 239
	opAtomicAnd            = 240
	opAtomicOr             = 241
	opAtomicXor            = 242
	opPhi                  = 245
	opLoopMerge            = 246
	opSelectionMerge       = 247
	opLabel                = 248
	opBranch               = 249
	opBranchConditional    = 250
	opSwitch               = 251
	opKill                 = 252
	opReturn               = 253
	opReturnValue          = 254
	opUnreachable          = 255
	opNoLine               = 317
	opModuleProcessed      = 330
	opExecutionModeId      = 331
	opDecorateId           = 332
	opGNUElect             = 333
	opGNUAll               = 334
	opGNUAny               = 335
	opGNUAllEqual          = 336
	opGNUBroadcast         = 337
	opGNUBroadcastFirst    = 338
	opGNUBallot            = 339
	opGNUInverseBallot     = 340
	opGNUBallotBitExtract  = 341
	opGNUBallotBitCount    = 342
	opGNUBallotFindLSB     = 343
	opGNUBallotFindMSB     = 344
	opGNUShuffle           = 345
	opGNUShuffleXor        = 346
	opGNUShuffleUp         = 347
	opGNUShuffleDown       = 348
	opGNUIAdd              = 349
	opGNULogicalXor        = 364
	opGNUQuadBroadcast     = 365
	opGNUQuadSwap          = 366
	opCopyLogical          = 400
	opPtrEqual             = 401
	opPtrNotEqual          = 402
	opPtrDiff              = 403
	opTerminateInvocation  = 4416
	opSDot                 = 4450
	opUDot                 = 4451
	opSUDot                = 4452
	opSDotAccSat           = 4453
	opUDotAccSat           = 4454
	opSUDotAccSat          = 4455
	opTypeRayQuery         = 4472
	opRayQueryInitialize   = 4473
	opRayQueryTerminate    = 4474
	opRayQueryGenerateInt  = 4475
	opRayQueryConfirmInt   = 4476
	opRayQueryProceed      = 4477
	opRayQueryGetIntType   = 4479
	opTypeAccelStruct      = 5341
	opDemoteToHelper       = 5380
	opAtomicFMinEXT        = 5614
	opAtomicFMaxEXT        = 5615
	opRayQueryGetRayTMin   = 6016
	opRayQueryGetRayFlags  = 6017
	opRayQueryGetIntT      = 6018
	opRayQueryGetWorldToOb = 6032
	opAtomicFAddEXT        = 6035
)

func init() {
	I, L, S := okID, okLit, okString
	def(opNop, "OpNop", "")
	def(opUndef, "OpUndef", "TR")
	def(opSourceContinued, "OpSourceContinued", "", S)
	def(opSource, "OpSource", "", L, L, okOptID, okOptString)
	def(opSourceExtension, "OpSourceExtension", "", S)
	def(opName, "OpName", "", I, S)
	def(opMemberName, "OpMemberName", "", I, L, S)
	def(opString, "OpString", "R", S)
	def(opLine, "OpLine", "", I, L, L)
	def(opExtension, "OpExtension", "", S)
	def(opExtInstImport, "OpExtInstImport", "R", S)
	def(opExtInst, "OpExtInst", "TR", I, L, okIDs)
	def(opMemoryModel, "OpMemoryModel", "", L, L)
	def(opEntryPoint, "OpEntryPoint", "", L, I, S, okIDs)
	def(opExecutionMode, "OpExecutionMode", "", I, L, okLits)
	def(opCapability, "OpCapability", "", L)
	def(opTypeVoid, "OpTypeVoid", "R")
	def(opTypeBool, "OpTypeBool", "R")
	def(opTypeInt, "OpTypeInt", "R", L, L)
	def(opTypeFloat, "OpTypeFloat", "R", L, okOptLit)
	def(opTypeVector, "OpTypeVector", "R", I, L)
	def(opTypeMatrix, "OpTypeMatrix", "R", I, L)
	def(opTypeImage, "OpTypeImage", "R", I, L, L, L, L, L, L, okOptLit)
	def(opTypeSampler, "OpTypeSampler", "R")
	def(opTypeSampledImage, "OpTypeSampledImage", "R", I)
	def(opTypeArray, "OpTypeArray", "R", I, I)
	def(opTypeRuntimeArray, "OpTypeRuntimeArray", "R", I)
	def(opTypeStruct, "OpTypeStruct", "R", okIDs)
	def(opTypeOpaque, "OpTypeOpaque", "R", S)
	def(opTypePointer, "OpTypePointer", "R", L, I)
	def(opTypeFunction, "OpTypeFunction", "R", I, okIDs)
	def(opTypeForwardPointer, "OpTypeForwardPointer", "", I, L)
	def(opConstantTrue, "OpConstantTrue", "TR")
	def(opConstantFalse, "OpConstantFalse", "TR")
	def(opConstant, "OpConstant", "TR", okConstVal)
	def(opConstantComposite, "OpConstantComposite", "TR", okIDs)
	def(opConstantSampler, "OpConstantSampler", "TR", L, L, L)
	def(opConstantNull, "OpConstantNull", "TR")
	def(opSpecConstantTrue, "OpSpecConstantTrue", "TR")
	def(opSpecConstantFalse, "OpSpecConstantFalse", "TR")
	def(opSpecConstant, "OpSpecConstant", "TR", okConstVal)
	def(opSpecConstantComposit, "OpSpecConstantComposite", "TR", okIDs)
	def(opSpecConstantOp, "OpSpecConstantOp", "TR", L, okRaw)
	def(opFunction, "OpFunction", "TR", L, I)
	def(opFunctionParameter, "OpFunctionParameter", "TR")
	def(opFunctionEnd, "OpFunctionEnd", "")
	def(opFunctionCall, "OpFunctionCall", "TR", I, okIDs)
	def(opVariable, "OpVariable", "TR", L, okOptID)
	def(opImageTexelPointer, "OpImageTexelPointer", "TR", I, I, I)
	def(opLoad, "OpLoad", "TR", I, okMemAccess)
	def(opStore, "OpStore", "", I, I, okMemAccess)
	def(opCopyMemory, "OpCopyMemory", "", I, I, okMemAccess, okMemAccess)
	def(opAccessChain, "OpAccessChain", "TR", I, okIDs)
	def(opInBoundsAccessChain, "OpInBoundsAccessChain", "TR", I, okIDs)
	def(opPtrAccessChain, "OpPtrAccessChain", "TR", I, I, okIDs)
	def(opArrayLength, "OpArrayLength", "TR", I, L)
	def(opDecorate, "OpDecorate", "", I, L, okLits)
	def(opMemberDecorate, "OpMemberDecorate", "", I, L, L, okLits)
	def(opDecorationGroup, "OpDecorationGroup", "R")
	def(opGroupDecorate, "OpGroupDecorate", "", I, okIDs)
	def(opGroupMemberDecorate, "OpGroupMemberDecorate", "", I, okGroupMemberPairs)
	def(opVectorExtractDynamic, "OpVectorExtractDynamic", "TR", I, I)
	def(opVectorInsertDynamic, "OpVectorInsertDynamic", "TR", I, I, I)
	def(opVectorShuffle, "OpVectorShuffle", "TR", I, I, okLits)
	def(opCompositeConstruct, "OpCompositeConstruct", "TR", okIDs)
	def(opCompositeExtract, "OpCompositeExtract", "TR", I, okLits)
	def(opCompositeInsert, "OpCompositeInsert", "TR", I, I, okLits)
	def(opCopyObject, "OpCopyObject", "TR", I)
	def(opTranspose, "OpTranspose", "TR", I)
	def(opSampledImage, "OpSampledImage", "TR", I, I)
	def(opImageSampleImplicit, "OpImageSampleImplicitLod", "TR", I, I, okImageOps)
	def(opImageSampleExplicit, "OpImageSampleExplicitLod", "TR", I, I, okImageOpsReq)
	def(opImageSampleDrefImpl, "OpImageSampleDrefImplicitLod", "TR", I, I, I, okImageOps)
	def(opImageSampleDrefExpl, "OpImageSampleDrefExplicitLod", "TR", I, I, I, okImageOpsReq)
	def(opImageSampleProjImpl, "OpImageSampleProjImplicitLod", "TR", I, I, okImageOps)
	def(opImageSampleProjExpl, "OpImageSampleProjExplicitLod", "TR", I, I, okImageOpsReq)
	def(opImageSampleProjDrefI, "OpImageSampleProjDrefImplicitLod", "TR", I, I, I, okImageOps)
	def(opImageSampleProjDrefE, "OpImageSampleProjDrefExplicitLod", "TR", I, I, I, okImageOpsReq)
	def(opImageFetch, "OpImageFetch", "TR", I, I, okImageOps)
	def(opImageGather, "OpImageGather", "TR", I, I, I, okImageOps)
	def(opImageDrefGather, "OpImageDrefGather", "TR", I, I, I, okImageOps)
	def(opImageRead, "OpImageRead", "TR", I, I, okImageOps)
	def(opImageWrite, "OpImageWrite", "", I, I, I, okImageOps)
	def(opImage, "OpImage", "TR", I)
	def(opImageQueryFormat, "OpImageQueryFormat", "TR", I)
	def(opImageQueryOrder, "OpImageQueryOrder", "TR", I)
	def(opImageQuerySizeLod, "OpImageQuerySizeLod", "TR", I, I)
	def(opImageQuerySize, "OpImageQuerySize", "TR", I)
	def(opImageQueryLod, "OpImageQueryLod", "TR", I, I)
	def(opImageQueryLevels, "OpImageQueryLevels", "TR", I)
	def(opImageQuerySamples, "OpImageQuerySamples", "TR", I)
	for op, n := range map[uint16]string{
		opConvertFToU: "OpConvertFToU", opConvertFToS: "OpConvertFToS", opConvertSToF: "OpConvertSToF", opConvertUToF: "OpConvertUToF",
		opUConvert: "OpUConvert", opSConvert: "OpSConvert", opFConvert: "OpFConvert", opQuantizeToF16: "OpQuantizeToF16",
		opBitcast: "OpBitcast", opSNegate: "OpSNegate", opFNegate: "OpFNegate",
		opAny: "OpAny", opAll: "OpAll", opIsNan: "OpIsNan", opIsInf: "OpIsInf", opLogicalNot: "OpLogicalNot", opNot: "OpNot",
		opBitReverse: "OpBitReverse", opBitCount: "OpBitCount",
		207: "OpDPdx", 208: "OpDPdy", 209: "OpFwidth", 210: "OpDPdxFine", 211: "OpDPdyFine", 212: "OpFwidthFine",
		213: "OpDPdxCoarse", 214: "OpDPdyCoarse", 215: "OpFwidthCoarse",
		opCopyLogical: "OpCopyLogical",
	} {
		def(op, n, "TR", I)
	}
	for op, n := range map[uint16]string{
		opIAdd: "OpIAdd", opFAdd: "OpFAdd", opISub: "OpISub", opFSub: "OpFSub", opIMul: "OpIMul", opFMul: "OpFMul",
		opUDiv: "OpUDiv", opSDiv: "OpSDiv", opFDiv: "OpFDiv", opUMod: "OpUMod", opSRem: "OpSRem", opSMod: "OpSMod",
		opFRem: "OpFRem", opFMod: "OpFMod",
		opVectorTimesScalar: "OpVectorTimesScalar", opMatrixTimesScalar: "OpMatrixTimesScalar",
		opVectorTimesMatrix: "OpVectorTimesMatrix", opMatrixTimesVector: "OpMatrixTimesVector",
		opMatrixTimesMatrix: "OpMatrixTimesMatrix", opOuterProduct: "OpOuterProduct", opDot: "OpDot",
		opIAddCarry: "OpIAddCarry", opISubBorrow: "OpISubBorrow", opUMulExtended: "OpUMulExtended", opSMulExtended: "OpSMulExtended",
		opLogicalEqual: "OpLogicalEqual", opLogicalNotEqual: "OpLogicalNotEqual", opLogicalOr: "OpLogicalOr", opLogicalAnd: "OpLogicalAnd",
		170: "OpIEqual", 171: "OpINotEqual", 172: "OpUGreaterThan", 173: "OpSGreaterThan", 174: "OpUGreaterThanEqual",
		175: "OpSGreaterThanEqual", 176: "OpULessThan", 177: "OpSLessThan", 178: "OpULessThanEqual", 179: "OpSLessThanEqual",
		180: "OpFOrdEqual", 181: "OpFUnordEqual", 182: "OpFOrdNotEqual", 183: "OpFUnordNotEqual", 184: "OpFOrdLessThan",
		185: "OpFUnordLessThan", 186: "OpFOrdGreaterThan", 187: "OpFUnordGreaterThan", 188: "OpFOrdLessThanEqual",
		189: "OpFUnordLessThanEqual", 190: "OpFOrdGreaterThanEqual", 191: "OpFUnordGreaterThanEqual",
		opShiftRightLogical: "OpShiftRightLogical", opShiftRightArithmetic: "OpShiftRightArithmetic", opShiftLeftLogical: "OpShiftLeftLogical",
		opBitwiseOr: "OpBitwiseOr", opBitwiseXor: "OpBitwiseXor", opBitwiseAnd: "OpBitwiseAnd",
		opPtrEqual: "OpPtrEqual", opPtrNotEqual: "OpPtrNotEqual", opPtrDiff: "OpPtrDiff",
	} {
		def(op, n, "TR", I, I)
	}
	def(opSelect, "OpSelect", "TR", I, I, I)
	def(opBitFieldInsert, "OpBitFieldInsert", "TR", I, I, I, I)
	def(opBitFieldSExtract, "OpBitFieldSExtract", "TR", I, I, I)
	def(opBitFieldUExtract, "OpBitFieldUExtract", "TR", I, I, I)
	def(opControlBarrier, "OpControlBarrier", "", I, I, I)
	def(opMemoryBarrier, "OpMemoryBarrier", "", I, I)
	def(opAtomicLoad, "OpAtomicLoad", "TR", I, I, I)
	def(opAtomicStore, "OpAtomicStore", "", I, I, I, I)
	def(opAtomicExchange, "OpAtomicExchange", "TR", I, I, I, I)
	def(opAtomicCompareExchang, "OpAtomicCompareExchange", "TR", I, I, I, I, I, I)
	def(opAtomicIIncrement, "OpAtomicIIncrement", "TR", I, I, I)
	def(opAtomicIDecrement, "OpAtomicIDecrement", "TR", I, I, I)
	for op, n := range map[uint16]string{
		opAtomicIAdd: "OpAtomicIAdd", opAtomicISub: "OpAtomicISub", opAtomicSMin: "OpAtomicSMin", opAtomicUMin: "OpAtomicUMin",
		opAtomicSMax: "OpAtomicSMax", opAtomicUMax: "OpAtomicUMax", opAtomicAnd: "OpAtomicAnd", opAtomicOr: "OpAtomicOr",
		opAtomicXor: "OpAtomicXor", opAtomicFAddEXT: "OpAtomicFAddEXT", opAtomicFMinEXT: "OpAtomicFMinEXT", opAtomicFMaxEXT: "OpAtomicFMaxEXT",
	} {
		def(op, n, "TR", I, I, I, I)
	}
	def(opPhi, "OpPhi", "TR", okPhiPairs)
	def(opLoopMerge, "OpLoopMerge", "", I, I, L, okLits)
	def(opSelectionMerge, "OpSelectionMerge", "", I, L)
	def(opLabel, "OpLabel", "R")
	def(opBranch, "OpBranch", "", I)
	def(opBranchConditional, "OpBranchConditional", "", I, I, I, okLits)
	def(opSwitch, "OpSwitch", "", I, I, okSwitchPairs)
	def(opKill, "OpKill", "")
	def(opReturn, "OpReturn", "")
	def(opReturnValue, "OpReturnValue", "", I)
	def(opUnreachable, "OpUnreachable", "")
	def(opNoLine, "OpNoLine", "")
	def(opModuleProcessed, "OpModuleProcessed", "", S)
	def(opExecutionModeId, "OpExecutionModeId", "", I, L, okIDs)
	def(opDecorateId, "OpDecorateId", "", I, L, okIDs)
	def(opGNUElect, "OpGroupNonUniformElect", "TR", I)
	def(opGNUAll, "OpGroupNonUniformAll", "TR", I, I)
	def(opGNUAny, "OpGroupNonUniformAny", "TR", I, I)
	def(opGNUAllEqual, "OpGroupNonUniformAllEqual", "TR", I, I)
	def(opGNUBroadcast, "OpGroupNonUniformBroadcast", "TR", I, I, I)
	def(opGNUBroadcastFirst, "OpGroupNonUniformBroadcastFirst", "TR", I, I)
	def(opGNUBallot, "OpGroupNonUniformBallot", "TR", I, I)
	def(opGNUInverseBallot, "OpGroupNonUniformInverseBallot", "TR", I, I)
	def(opGNUBallotBitExtract, "OpGroupNonUniformBallotBitExtract", "TR", I, I, I)
	def(opGNUBallotBitCount, "OpGroupNonUniformBallotBitCount", "TR", I, L, I)
	def(opGNUBallotFindLSB, "OpGroupNonUniformBallotFindLSB", "TR", I, I)
	def(opGNUBallotFindMSB, "OpGroupNonUniformBallotFindMSB", "TR", I, I)
	def(opGNUShuffle, "OpGroupNonUniformShuffle", "TR", I, I, I)
	def(opGNUShuffleXor, "OpGroupNonUniformShuffleXor", "TR", I, I, I)
	def(opGNUShuffleUp, "OpGroupNonUniformShuffleUp", "TR", I, I, I)
	def(opGNUShuffleDown, "OpGroupNonUniformShuffleDown", "TR", I, I, I)
	for i, n := range []string{"IAdd", "FAdd", "IMul", "FMul", "SMin", "UMin", "FMin", "SMax", "UMax", "FMax",
		"BitwiseAnd", "BitwiseOr", "BitwiseXor", "LogicalAnd", "LogicalOr", "LogicalXor"} {
		def(uint16(opGNUIAdd+i), "OpGroupNonUniform"+n, "TR", I, L, I, okOptID)
	}
	def(opGNUQuadBroadcast, "OpGroupNonUniformQuadBroadcast", "TR", I, I, I)
	def(opGNUQuadSwap, "OpGroupNonUniformQuadSwap", "TR", I, I, I)
	def(opTerminateInvocation, "OpTerminateInvocation", "")
	def(opDemoteToHelper, "OpDemoteToHelperInvocation", "")
	def(opSDot, "OpSDot", "TR", I, I, okOptLit)
	def(opUDot, "OpUDot", "TR", I, I, okOptLit)
	def(opSUDot, "OpSUDot", "TR", I, I, okOptLit)
	def(opSDotAccSat, "OpSDotAccSat", "TR", I, I, I, okOptLit)
	def(opUDotAccSat, "OpUDotAccSat", "TR", I, I, I, okOptLit)
	def(opSUDotAccSat, "OpSUDotAccSat", "TR", I, I, I, okOptLit)
	def(opTypeRayQuery, "OpTypeRayQueryKHR", "R")
	def(opTypeAccelStruct, "OpTypeAccelerationStructureKHR", "R")
	def(opRayQueryInitialize, "OpRayQueryInitializeKHR", "", I, I, I, I, I, I, I, I)
	def(opRayQueryTerminate, "OpRayQueryTerminateKHR", "", I)
	def(opRayQueryGenerateInt, "OpRayQueryGenerateIntersectionKHR", "", I, I)
	def(opRayQueryConfirmInt, "OpRayQueryConfirmIntersectionKHR", "", I)
	def(opRayQueryProceed, "OpRayQueryProceedKHR", "TR", I)
	def(opRayQueryGetIntType, "OpRayQueryGetIntersectionTypeKHR", "TR", I, I)
	def(6016, "OpRayQueryGetRayTMinKHR", "TR", I)
	def(6017, "OpRayQueryGetRayFlagsKHR", "TR", I)
	def(6018, "OpRayQueryGetIntersectionTKHR", "TR", I, I)
	def(6019, "OpRayQueryGetIntersectionInstanceCustomIndexKHR", "TR", I, I)
	def(6020, "OpRayQueryGetIntersectionInstanceIdKHR", "TR", I, I)
	def(6021, "OpRayQueryGetIntersectionInstanceShaderBindingTableRecordOffsetKHR", "TR", I, I)
	def(6022, "OpRayQueryGetIntersectionGeometryIndexKHR", "TR", I, I)
	def(6023, "OpRayQueryGetIntersectionPrimitiveIndexKHR", "TR", I, I)
	def(6024, "OpRayQueryGetIntersectionBarycentricsKHR", "TR", I, I)
	def(6025, "OpRayQueryGetIntersectionFrontFaceKHR", "TR", I, I)
	def(6026, "OpRayQueryGetIntersectionCandidateAABBOpaqueKHR", "TR", I)
	def(6027, "OpRayQueryGetIntersectionObjectRayDirectionKHR", "TR", I, I)
	def(6028, "OpRayQueryGetIntersectionObjectRayOriginKHR", "TR", I, I)
	def(6029, "OpRayQueryGetWorldRayDirectionKHR", "TR", I)
	def(6030, "OpRayQueryGetWorldRayOriginKHR", "TR", I)
	def(6031, "OpRayQueryGetIntersectionObjectToWorldKHR", "TR", I, I)
	def(6032, "OpRayQueryGetIntersectionWorldToObjectKHR", "TR", I, I)
}

func isTerminator(op uint16) bool {
	switch op {
	case opBranch, opBranchConditional, opSwitch, opKill, opReturn, opReturnValue, opUnreachable, opTerminateInvocation:
		return true
	}
	return false
}

func isTypeOp(op uint16) bool {
	switch op {
	case opTypeVoid, opTypeBool, opTypeInt, opTypeFloat, opTypeVector, opTypeMatrix, opTypeImage, opTypeSampler,
		opTypeSampledImage, opTypeArray, opTypeRuntimeArray, opTypeStruct, opTypeOpaque, opTypePointer, opTypeFunction,
		opTypeRayQuery, opTypeAccelStruct:
		return true
	}
	return false
}

func isConstOp(op uint16) bool {
	switch op {
	case opConstantTrue, opConstantFalse, opConstant, opConstantComposite, opConstantSampler, opConstantNull,
		opSpecConstantTrue, opSpecConstantFalse, opSpecConstant, opSpecConstantComposit, opSpecConstantOp:
		return true
	}
	return false
}

func isSpecConstOp(op uint16) bool {
	switch op {
	case opSpecConstantTrue, opSpecConstantFalse, opSpecConstant, opSpecConstantComposit, opSpecConstantOp:
		return true
	}
	return false
}
