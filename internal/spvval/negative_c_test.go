package spvval

import (
	"strings"
	"testing"
)

// ---- C: control flow ----

// loopInfo locates the (only) loop of the compute base module.
type loopInfo struct {
	lm                  int // index of OpLoopMerge
	header, merge, cont uint32
}

func findLoop(t testing.TB, tm *tmod) loopInfo {
	lm := tm.mustFind(t, opLoopMerge, 0, nil)
	return loopInfo{lm: lm, header: tm.insts[lm-1][1], merge: tm.insts[lm][1], cont: tm.insts[lm][2]}
}

// labelIndex returns the index of the OpLabel with the id.
func labelIndex(t testing.TB, tm *tmod, id uint32) int {
	return tm.mustFind(t, opLabel, 0, func(in []uint32) bool { return in[1] == id })
}

func TestNegC1Terminators(t *testing.T) {
	// drop a terminator: the next OpLabel follows an open block
	tm := baseCompute(t, v13)
	b := tm.mustFind(t, opBranch, 0, nil)
	tm.remove(b)
	expectRule(t, tm.encode(), "C1")
	// instruction after a terminator
	tm = baseCompute(t, v13)
	b = tm.mustFind(t, opBranch, 0, nil)
	tm.insert(b+1, mk(opNop))
	expectOnly(t, tm.encode(), "C1")
	// missing terminator before OpFunctionEnd
	tm = baseCompute(t, v13)
	e := tm.mustFind(t, opFunctionEnd, 0, nil)
	tm.remove(e - 1)
	expectRule(t, tm.encode(), "C1")
}

func TestNegC2EntryBlockTarget(t *testing.T) {
	tm := baseCompute(t, v13)
	f := tm.mustFind(t, opFunction, 2, nil) // main
	entry := tm.insts[tm.mustFind(t, opLabel, 0, func(in []uint32) bool { return true })][1]
	for i := f; i < len(tm.insts); i++ {
		if opOf(tm.insts[i]) == opLabel {
			entry = tm.insts[i][1]
			break
		}
	}
	l := findLoop(t, tm)
	// the continue block's back edge now goes to the function entry
	ci := labelIndex(t, tm, l.cont)
	for i := ci; ; i++ {
		if opOf(tm.insts[i]) == opBranch {
			tm.insts[i][1] = entry
			break
		}
	}
	expectRule(t, tm.encode(), "C2")
}

func TestNegC3SelectionMerge(t *testing.T) {
	// OpSwitch without OpSelectionMerge
	tm := baseCompute(t, v13)
	sw := tm.mustFind(t, opSwitch, 0, nil)
	tm.remove(sw - 1)
	expectRule(t, tm.encode(), "C3")
	// OpSelectionMerge not immediately before the terminator
	tm = baseCompute(t, v13)
	sm := tm.mustFind(t, opSelectionMerge, 0, nil)
	tm.insts[sm], tm.insts[sm-1] = tm.insts[sm-1], tm.insts[sm]
	expectOnly(t, tm.encode(), "C3")
	// OpSelectionMerge followed by OpBranch
	tm = baseCompute(t, v13)
	sm = tm.mustFind(t, opSelectionMerge, 0, nil)
	tm.insts[sm+1] = mk(opBranch, tm.insts[sm+1][2])
	expectRule(t, tm.encode(), "C3")
}

func TestNegC4LoopMerge(t *testing.T) {
	tm := baseCompute(t, v13)
	l := findLoop(t, tm)
	tm.insert(l.lm+1, mk(opNop))
	expectOnly(t, tm.encode(), "C4")
	// followed by OpSwitch
	tm = baseCompute(t, v13)
	l = findLoop(t, tm)
	br := tm.insts[l.lm+1]
	sel := u32ConstID(t, tm, 1)
	tm.insts[l.lm+1] = mk(opSwitch, sel, br[1])
	expectRule(t, tm.encode(), "C4")
}

func TestNegC5HeaderDominatesMerge(t *testing.T) {
	// declare a block *before* the loop as the loop's merge block
	tm := baseCompute(t, v13)
	l := findLoop(t, tm)
	// the block that branches to the header from outside
	pre := uint32(0)
	for i := l.lm - 2; i > 0; i-- {
		if opOf(tm.insts[i]) == opLabel {
			pre = tm.insts[i][1]
			break
		}
	}
	tm.insts[l.lm][1] = pre
	expectRule(t, tm.encode(), "C5")
}

func TestNegC6BackEdges(t *testing.T) {
	// a `continue` arm that jumps straight to the header: a second back edge, not from the continue construct
	tm := baseCompute(t, v13)
	l := findLoop(t, tm)
	n := 0
	for i := l.lm; i < len(tm.insts); i++ {
		if opOf(tm.insts[i]) == opBranch && tm.insts[i][1] == l.cont {
			tm.insts[i][1] = l.header
			n++
			break
		}
	}
	if n == 0 {
		t.Fatal("no branch to the continue target found")
	}
	expectRule(t, tm.encode(), "C6")
	// a back edge to a block without OpLoopMerge
	tm = baseCompute(t, v13)
	l = findLoop(t, tm)
	tm.remove(l.lm)
	expectRule(t, tm.encode(), "C6")
}

func TestNegC7Structure(t *testing.T) {
	// one block is the merge block of two headers ("break a merge")
	tm := baseCompute(t, v13)
	l := findLoop(t, tm)
	a := tm.mustFind(t, opSelectionMerge, 0, func(in []uint32) bool { return true })
	var sms []int
	for i := l.lm; i < len(tm.insts); i++ {
		if opOf(tm.insts[i]) == opSelectionMerge {
			sms = append(sms, i)
		}
	}
	_ = a
	if len(sms) < 4 {
		t.Fatalf("expected several selections inside the loop, found %d", len(sms))
	}
	tm.insts[sms[2]][1] = tm.insts[sms[3]][1]
	expectRule(t, tm.encode(), "C7")

	// branch into a construct: a `break` arm is redirected to the else-arm of a later selection
	tm = baseCompute(t, v13)
	l = findLoop(t, tm)
	sms = sms[:0]
	for i := l.lm; i < len(tm.insts); i++ {
		if opOf(tm.insts[i]) == opSelectionMerge {
			sms = append(sms, i)
		}
	}
	// sms[1]: `if i < n {} else {break}`; its else block is "OpLabel; OpBranch loop-merge"
	elseID := tm.insts[sms[1]+1][3]
	ei := labelIndex(t, tm, elseID)
	if opOf(tm.insts[ei+1]) != opBranch || tm.insts[ei+1][1] != l.merge {
		t.Fatalf("test setup: else block does not break out of the loop")
	}
	laterElse := tm.insts[sms[3]+1][3]
	tm.insts[ei+1][1] = laterElse
	rep := expectRule(t, tm.encode(), "C7") // (C5 fires too: the later header no longer dominates its merge block)
	found := false
	for _, f := range rep.Findings {
		if f.Rule == "C7" && strings.Contains(f.Detail, "enters the construct") {
			found = true
		}
	}
	if !found {
		t.Errorf("no 'enters the construct' finding:\n   %s", rulesOf(rep))
	}

	// an inner selection arm that exits to the merge block of an enclosing plain selection
	tm = baseCompute(t, v13)
	// helper(): if (x > 3) {return} else {} merge; wrap: make the else arm's branch skip its merge -> not available,
	// so build the case by hand below instead
	_ = tm

	// merge block equal to the header itself
	tm = baseCompute(t, v13)
	sm := tm.mustFind(t, opSelectionMerge, 0, nil)
	hdr := uint32(0)
	for i := sm; i > 0; i-- {
		if opOf(tm.insts[i]) == opLabel {
			hdr = tm.insts[i][1]
			break
		}
	}
	tm.insts[sm][1] = hdr
	expectRule(t, tm.encode(), "C7")

	// continue target == merge block
	tm = baseCompute(t, v13)
	l = findLoop(t, tm)
	tm.insts[l.lm][2] = l.merge
	expectRule(t, tm.encode(), "C7")
}

func TestNegC8SwitchFallthrough(t *testing.T) {
	// case 0 also falls into the shared block of case 1/2: two constructs branch to one case target
	tm := baseCompute(t, v13)
	sw := tm.mustFind(t, opSwitch, 0, nil)
	merge := tm.insts[sw-1][1]
	c0, c2 := tm.insts[sw][4], tm.insts[sw][8]
	i := labelIndex(t, tm, c0)
	for ; opOf(tm.insts[i]) != opBranch; i++ {
	}
	if tm.insts[i][1] != merge {
		t.Fatal("test setup: case 0 does not end in a branch to the merge block")
	}
	tm.insts[i][1] = c2
	expectOnly(t, tm.encode(), "C8")
	// the last case falls through "backwards" into the first one
	tm = baseCompute(t, v13)
	i = labelIndex(t, tm, c2)
	for ; opOf(tm.insts[i]) != opBranch; i++ {
	}
	tm.insts[i][1] = c0
	expectOnly(t, tm.encode(), "C8")
}

func TestNegC9BranchTargets(t *testing.T) {
	tm := baseCompute(t, v13)
	b := tm.mustFind(t, opBranch, 0, nil)
	tm.insts[b][1] = u32ConstID(t, tm, 1)
	expectRule(t, tm.encode(), "C9")
	// a label of another function
	tm = baseCompute(t, v13)
	first := tm.insts[tm.mustFind(t, opLabel, 0, nil)][1]
	l := findLoop(t, tm)
	ci := labelIndex(t, tm, l.merge)
	for i := ci; ; i++ {
		if opOf(tm.insts[i]) == opSelectionMerge {
			tm.insts[i][1] = first
			break
		}
	}
	expectRule(t, tm.encode(), "C9")
}

func TestNegC10UnreachableBlocksChecked(t *testing.T) {
	// append an unreachable block with a bad branch target to helper()
	tm := baseCompute(t, v13)
	e := tm.mustFind(t, opFunctionEnd, 1, nil)
	tm.insert(e, mk(opLabel, tm.newID()))
	tm.insert(e+1, mk(opBranch, u32ConstID(t, tm, 1)))
	rep := expectRule(t, tm.encode(), "C9")
	if rep.Fired["C10"] == 0 {
		t.Errorf("C10 did not count the unreachable block")
	}
	// an unreachable block without terminator
	tm = baseCompute(t, v13)
	e = tm.mustFind(t, opFunctionEnd, 1, nil)
	tm.insert(e, mk(opLabel, tm.newID()))
	expectRule(t, tm.encode(), "C1")
	// a well-formed unreachable block is fine
	tm = baseCompute(t, v13)
	e = tm.mustFind(t, opFunctionEnd, 1, nil)
	tm.insert(e, mk(opLabel, tm.newID()))
	tm.insert(e+1, mk(opUnreachable))
	expectClean(t, tm.encode())
}

// nestedSelections builds a two-level if nest by hand; bTarget selects where the innermost arm branches.
func nestedSelections(innerToOuterMerge bool) []byte {
	const (
		void = iota + 1
		fn
		boolT
		tru
		mainF
		e
		a
		b
		m1
		m2
		bound
	)
	tm := &tmod{hdr: [5]uint32{magicNumber, 0x00010300, 0, bound, 0}}
	add := func(in []uint32) { tm.insts = append(tm.insts, in) }
	add(mk(opCapability, capShader))
	add(mk(opMemoryModel, 0, 1))
	add(mk(opEntryPoint, emGLCompute, mainF, 0x6e69616d, 0)) // "main"
	add(mk(opExecutionMode, mainF, xmLocalSize, 1, 1, 1))
	add(mk(opTypeVoid, void))
	add(mk(opTypeFunction, fn, void))
	add(mk(opTypeBool, boolT))
	add(mk(opConstantTrue, boolT, tru))
	add(mk(opFunction, void, mainF, 0, fn))
	add(mk(opLabel, e))
	add(mk(opSelectionMerge, m1, 0))
	add(mk(opBranchConditional, tru, a, m1))
	add(mk(opLabel, a))
	add(mk(opSelectionMerge, m2, 0))
	add(mk(opBranchConditional, tru, b, m2))
	add(mk(opLabel, b))
	if innerToOuterMerge {
		add(mk(opBranch, m1))
	} else {
		add(mk(opBranch, m2))
	}
	add(mk(opLabel, m2))
	add(mk(opBranch, m1))
	add(mk(opLabel, m1))
	add(mk(opReturn))
	add(mk(opFunctionEnd))
	return tm.encode()
}

func TestNegC7ExitToEnclosingSelectionMerge(t *testing.T) {
	expectClean(t, nestedSelections(false))
	expectOnly(t, nestedSelections(true), "C7")
}
