package spvval

import (
	"fmt"
	"sort"
)

// D rules: decorations required by the Vulkan environment ("Validation Rules
// within a Module" / "Shader Interfaces" / "Offset and Stride Assignment").

const (
	biPosition            = 0
	biPointSize           = 1
	biClipDistance        = 3
	biCullDistance        = 4
	biPrimitiveId         = 7
	biInvocationId        = 8
	biLayer               = 9
	biViewportIndex       = 10
	biFragCoord           = 15
	biPointCoord          = 16
	biFrontFacing         = 17
	biSampleId            = 18
	biSamplePosition      = 19
	biSampleMask          = 20
	biFragDepth           = 22
	biHelperInvocation    = 23
	biNumWorkgroups       = 24
	biWorkgroupSize       = 25
	biWorkgroupId         = 26
	biLocalInvocationId   = 27
	biGlobalInvocationId  = 28
	biLocalInvocationIdx  = 29
	biSubgroupSize        = 36
	biNumSubgroups        = 38
	biSubgroupId          = 40
	biSubgroupLocalInvId  = 41
	biVertexIndex         = 42
	biInstanceIndex       = 43
	biBaseVertex          = 4424
	biBaseInstance        = 4425
	biDrawIndex           = 4426
	biViewIndex           = 4440
	biBaryCoordKHR        = 5286
	biBaryCoordNoPerspKHR = 5287
)

func (m *module) checkDecorations() {
	m.checkDecorationTargets()
	for _, v := range m.globals {
		if v.Decode != "" {
			continue
		}
		pt := m.types[v.Type]
		if pt == nil || pt.Kind != tkPointer {
			continue
		}
		sc := v.Ops[0].Lit
		switch sc {
		case scUniform, scStorageBuffer, scPushConstant:
			m.checkBufferVariable(v, pt, sc)
		}
		switch sc {
		case scUniform, scStorageBuffer, scUniformConstant:
			m.fire("D6")
			if !m.hasDec(v.Result, decDescriptorSet) || !m.hasDec(v.Result, decBinding) {
				m.fail("D6", "%s in storage class %d lacks DescriptorSet and/or Binding", v, sc)
			}
		}
		// D10: BuiltIn and Location are mutually exclusive
		if m.hasDec(v.Result, decBuiltIn) || m.hasDec(v.Result, decLocation) {
			m.fire("D10")
			if m.hasDec(v.Result, decBuiltIn) && m.hasDec(v.Result, decLocation) {
				m.fail("D10", "%s carries both BuiltIn and Location", v)
			}
		}
	}
	m.checkInterfaceDecorations()
}

// D9: decoration targets exist, member indexes are in range.
func (m *module) checkDecorationTargets() {
	for _, in := range m.insts {
		if in.Decode != "" {
			continue
		}
		switch in.Op {
		case opDecorate, opDecorateId:
			m.fire("D9")
			tgt := in.opID(0)
			if m.defs[tgt] == nil {
				m.fail("D9", "%s targets %%%d, which is not defined anywhere", in, tgt)
			}
		case opMemberDecorate, opMemberName:
			if in.Op == opMemberDecorate {
				m.fire("D9")
			}
			tgt := in.opID(0)
			if m.defs[tgt] == nil {
				continue
			}
			t := m.types[tgt]
			if t == nil || t.Kind != tkStruct {
				if in.Op == opMemberDecorate {
					m.fail("D9", "%s targets %%%d which is not a struct type", in, tgt)
				}
				continue
			}
			if idx := in.Ops[1].Lit; int(idx) >= len(t.Members) && in.Op == opMemberDecorate {
				m.fail("D9", "%s: member index %d is out of range for struct %%%d with %d member(s)", in, idx, tgt, len(t.Members))
			}
		}
	}
}

// ---- buffer block layout (D1..D5) ----

type layoutCtx struct {
	m       *module
	v       *Inst
	sc      uint32
	std140  bool            // extended alignment (Uniform class without BufferBlock)
	visited map[uint32]bool // structs already checked for this rule set
	depth   int             // recursion guard
}

func (m *module) checkBufferVariable(v *Inst, pt *Type, sc uint32) {
	st := m.stripArrays(pt.Elem)
	m.fire("D1")
	if st == nil || st.Kind != tkStruct {
		m.fail("D1", "%s in storage class %d has pointee %s, which is not a (possibly arrayed) struct", v, sc, m.typeName(pt.Elem))
		return
	}
	block, bufferBlock := m.hasDec(st.ID, decBlock), m.hasDec(st.ID, decBufferBlock)
	switch {
	case block && bufferBlock:
		m.fail("D1", "struct %%%d of %s carries both Block and BufferBlock", st.ID, v)
	case sc == scUniform && !block && !bufferBlock:
		m.fail("D1", "struct %%%d of Uniform-class %s has neither Block nor BufferBlock", st.ID, v)
	case sc != scUniform && !block:
		m.fail("D1", "struct %%%d of %s (storage class %d) is not decorated Block", st.ID, v, sc)
	}
	lc := &layoutCtx{m: m, v: v, sc: sc, visited: map[uint32]bool{}, std140: sc == scUniform && !bufferBlock}
	lc.checkStruct(st)
}

// scalarBytes returns the byte size of a scalar type (0 if not scalar numeric).
func scalarBytes(t *Type) uint32 {
	if t != nil && (t.Kind == tkInt || t.Kind == tkFloat) {
		return t.Width / 8
	}
	return 0
}

type majorness struct {
	stride   uint32
	rowMajor bool
	ok       bool
}

// baseAlign returns the base alignment of a type laid out in a buffer (0 if unknown).
// mj is the matrix layout inherited from the enclosing struct member.
func (lc *layoutCtx) baseAlign(tid uint32, mj majorness) uint32 {
	lc.depth++
	defer func() { lc.depth-- }()
	if lc.depth > 40 {
		return 0 // cyclic type in a corrupt module
	}
	m := lc.m
	t := m.types[tid]
	if t == nil {
		return 0
	}
	switch t.Kind {
	case tkInt, tkFloat:
		return scalarBytes(t)
	case tkVector:
		n := scalarBytes(m.types[t.Elem])
		if t.Count == 2 {
			return 2 * n
		}
		return 4 * n
	case tkMatrix:
		col := m.types[t.Elem]
		if col == nil {
			return 0
		}
		n := scalarBytes(m.types[col.Elem])
		cnt := col.Count
		if mj.rowMajor {
			cnt = t.Count
		}
		a := 4 * n
		if cnt == 2 {
			a = 2 * n
		}
		// Deliberately NOT extended to 16 for Uniform blocks: WGSL's mat<C>x2<f32> / f16 matrices have
		// column strides below 16 and rely on the uniformBufferStandardLayout feature (upstream validates
		// with spirv-val --uniform-buffer-standard-layout for exactly this reason).
		return a
	case tkArray, tkRuntimeArray:
		return lc.ext(lc.baseAlign(t.Elem, mj))
	case tkStruct:
		var a uint32
		for i, mem := range t.Members {
			if x := lc.baseAlign(mem, lc.memberMajorness(t, uint32(i))); x > a {
				a = x
			}
		}
		return lc.ext(a)
	}
	return 0
}

// ext applies the extended (std140-like) alignment of the Uniform storage class to arrays and structs.
func (lc *layoutCtx) ext(a uint32) uint32 {
	if lc.std140 && a != 0 {
		return (a + 15) / 16 * 16
	}
	return a
}

func (lc *layoutCtx) memberMajorness(st *Type, i uint32) majorness {
	var mj majorness
	if d, ok := lc.m.getMemberDec(st.ID, i, decMatrixStride); ok && len(d.Args) > 0 {
		mj.stride, mj.ok = d.Args[0], true
	}
	mj.rowMajor = lc.m.hasMemberDec(st.ID, i, decRowMajor)
	return mj
}

// sizeOf returns the tight byte size of a type given its decorations (0 if unknown / unsized).
func (lc *layoutCtx) sizeOf(tid uint32, mj majorness) uint32 {
	lc.depth++
	defer func() { lc.depth-- }()
	if lc.depth > 40 {
		return 0
	}
	m := lc.m
	t := m.types[tid]
	if t == nil {
		return 0
	}
	switch t.Kind {
	case tkInt, tkFloat:
		return scalarBytes(t)
	case tkVector:
		return t.Count * scalarBytes(m.types[t.Elem])
	case tkMatrix:
		col := m.types[t.Elem]
		if col == nil || !mj.ok {
			return 0
		}
		n := scalarBytes(m.types[col.Elem])
		if mj.rowMajor {
			return (col.Count-1)*mj.stride + t.Count*n
		}
		return (t.Count-1)*mj.stride + col.Count*n
	case tkArray:
		n, ok := m.constValue(t.LenID)
		d, has := m.getDec(tid, decArrayStride)
		if !ok || !has || len(d.Args) == 0 || n == 0 {
			return 0
		}
		es := lc.sizeOf(t.Elem, mj)
		return uint32(n-1)*d.Args[0] + es
	case tkStruct:
		var end uint32
		for i, mem := range t.Members {
			d, ok := m.getMemberDec(tid, uint32(i), decOffset)
			if !ok || len(d.Args) == 0 {
				return 0
			}
			if e := d.Args[0] + lc.sizeOf(mem, lc.memberMajorness(t, uint32(i))); e > end {
				end = e
			}
		}
		return end
	}
	return 0
}

// matrixThroughArrays returns the matrix type behind tid (possibly through arrays), or nil.
func (m *module) matrixThroughArrays(tid uint32) *Type {
	t := m.stripArrays(tid)
	if t != nil && t.Kind == tkMatrix {
		return t
	}
	return nil
}

func (lc *layoutCtx) checkStruct(st *Type) {
	m := lc.m
	if lc.visited[st.ID] {
		return
	}
	lc.visited[st.ID] = true
	type span struct {
		idx      int
		off, end uint32
	}
	var spans []span
	for i, mem := range st.Members {
		mi := uint32(i)
		m.fire("D2")
		od, hasOff := m.getMemberDec(st.ID, mi, decOffset)
		if !hasOff || len(od.Args) == 0 {
			m.fail("D2", "member %d of struct %%%d (reached from %s) has no Offset decoration", i, st.ID, lc.v)
		}
		mj := lc.memberMajorness(st, mi)
		if mt := m.matrixThroughArrays(mem); mt != nil {
			m.fire("D4")
			if !mj.ok {
				m.fail("D4", "matrix member %d of struct %%%d (reached from %s) has no MatrixStride", i, st.ID, lc.v)
			}
			if !m.hasMemberDec(st.ID, mi, decColMajor) && !m.hasMemberDec(st.ID, mi, decRowMajor) {
				m.fail("D4", "matrix member %d of struct %%%d (reached from %s) has neither ColMajor nor RowMajor", i, st.ID, lc.v)
			}
			if mj.ok {
				m.fire("D5")
				col := m.types[mt.Elem]
				va := lc.baseAlign(mt.ID, mj)
				if va != 0 && mj.stride%va != 0 {
					m.fail("D5", "matrix member %d of struct %%%d: MatrixStride %d is not a multiple of the %s vector alignment %d", i, st.ID, mj.stride, m.typeName(col.ID), va)
				}
			}
		}
		lc.checkArrays(st, i, mem, mj)
		if inner := m.stripArrays(mem); inner != nil && inner.Kind == tkStruct {
			lc.checkStruct(inner)
		}
		if hasOff && len(od.Args) > 0 {
			m.fire("D5")
			off := od.Args[0]
			t := m.types[mem]
			a := lc.baseAlign(mem, mj)
			if t != nil && t.Kind == tkVector {
				// relaxed block layout (Vulkan 1.1): a vector is aligned to its component size as long as it does
				// not improperly straddle a 16-byte boundary
				n := scalarBytes(m.types[t.Elem])
				sz := t.Count * n
				if n != 0 && off%n != 0 {
					m.fail("D5", "member %d of struct %%%d: Offset %d is not a multiple of the component size %d", i, st.ID, off, n)
				} else if a != 0 && off%a != 0 {
					if (sz <= 16 && off/16 != (off+sz-1)/16) || (sz > 16 && off%16 != 0) {
						m.fail("D5", "vector member %d of struct %%%d: Offset %d makes the %d-byte vector straddle a 16-byte boundary", i, st.ID, off, sz)
					}
				}
			} else if a != 0 && off%a != 0 {
				m.fail("D5", "member %d (%s) of struct %%%d: Offset %d is not a multiple of its base alignment %d", i, m.typeName(mem), st.ID, off, a)
			}
			if sz := lc.sizeOf(mem, mj); sz != 0 {
				spans = append(spans, span{i, off, off + sz})
			}
		}
	}
	sort.Slice(spans, func(a, b int) bool { return spans[a].off < spans[b].off })
	for i := 1; i < len(spans); i++ {
		m.fire("D5")
		if spans[i].off < spans[i-1].end {
			m.fail("D5", "struct %%%d: member %d at bytes [%d,%d) overlaps member %d at bytes [%d,%d)", st.ID,
				spans[i].idx, spans[i].off, spans[i].end, spans[i-1].idx, spans[i-1].off, spans[i-1].end)
		}
	}
}

// checkArrays checks ArrayStride on every array level of a member (D3, D5).
func (lc *layoutCtx) checkArrays(st *Type, member int, tid uint32, mj majorness) {
	m := lc.m
	levels := 0
	for t := m.types[tid]; t != nil && (t.Kind == tkArray || t.Kind == tkRuntimeArray); t = m.types[t.Elem] {
		if levels++; levels > 64 {
			return // cyclic type in a corrupt module
		}
		m.fire("D3")
		d, ok := m.getDec(t.ID, decArrayStride)
		if !ok || len(d.Args) == 0 {
			m.fail("D3", "array type %%%d (member %d of struct %%%d, reached from %s) has no ArrayStride", t.ID, member, st.ID, lc.v)
			continue
		}
		m.fire("D5")
		stride := d.Args[0]
		if a := lc.ext(lc.baseAlign(t.Elem, mj)); a != 0 && stride%a != 0 {
			m.fail("D5", "array type %%%d: ArrayStride %d is not a multiple of the array's base alignment %d (storage class %d)", t.ID, stride, a, lc.sc)
		}
		if es := lc.sizeOf(t.Elem, mj); es != 0 && stride < es {
			m.fail("D5", "array type %%%d: ArrayStride %d is smaller than the element size %d", t.ID, stride, es)
		}
	}
}

// ---- interface variables (D7, D8) ----

type builtinRule struct {
	name string
	// allowed (execution model -> storage classes); nil = not checked
	in  []uint32 // execution models in which the builtin may be an Input
	out []uint32 // execution models in which the builtin may be an Output
	typ func(m *module, tid uint32) bool
	req string
}

func isF32Vec(n uint32) func(m *module, tid uint32) bool {
	return func(m *module, tid uint32) bool {
		s := m.shapeOfType(m.types[tid])
		return s.ok && s.kind == tkFloat && s.width == 32 && s.vector && s.count == n
	}
}
func isF32(m *module, tid uint32) bool {
	s := m.shapeOfType(m.types[tid])
	return s.ok && s.kind == tkFloat && s.width == 32 && !s.vector
}
func isI32(m *module, tid uint32) bool {
	s := m.shapeOfType(m.types[tid])
	return s.ok && s.kind == tkInt && s.width == 32 && !s.vector
}
func isI32Vec3(m *module, tid uint32) bool {
	s := m.shapeOfType(m.types[tid])
	return s.ok && s.kind == tkInt && s.width == 32 && s.vector && s.count == 3
}
func isBool(m *module, tid uint32) bool {
	t := m.types[tid]
	return t != nil && t.Kind == tkBool
}
func isArrayOf(elem func(m *module, tid uint32) bool) func(m *module, tid uint32) bool {
	return func(m *module, tid uint32) bool {
		t := m.types[tid]
		return t != nil && t.Kind == tkArray && elem(m, t.Elem)
	}
}

var (
	preRaster  = []uint32{emVertex, emTessCtrl, emTessEval, emGeometry, emMeshEXT, emMeshNV}
	tessGeom   = []uint32{emTessCtrl, emTessEval, emGeometry}
	computeLk  = []uint32{emGLCompute, emMeshEXT, emTaskEXT, emMeshNV, emTaskNV}
	fragOnly   = []uint32{emFragment}
	vertexOnly = []uint32{emVertex}
)

var builtinRules = map[uint32]builtinRule{
	biPosition:            {"Position", tessGeom, preRaster, isF32Vec(4), "a 4-component vector of 32-bit floats"},
	biPointSize:           {"PointSize", tessGeom, preRaster, isF32, "a 32-bit float scalar"},
	biClipDistance:        {"ClipDistance", []uint32{emFragment, emTessCtrl, emTessEval, emGeometry}, preRaster, isArrayOf(isF32), "an array of 32-bit floats"},
	biCullDistance:        {"CullDistance", []uint32{emFragment, emTessCtrl, emTessEval, emGeometry}, preRaster, isArrayOf(isF32), "an array of 32-bit floats"},
	biPrimitiveId:         {"PrimitiveId", nil, nil, isI32, "a 32-bit integer scalar"},
	biFragCoord:           {"FragCoord", fragOnly, []uint32{}, isF32Vec(4), "a 4-component vector of 32-bit floats"},
	biPointCoord:          {"PointCoord", fragOnly, []uint32{}, isF32Vec(2), "a 2-component vector of 32-bit floats"},
	biFrontFacing:         {"FrontFacing", fragOnly, []uint32{}, isBool, "a bool scalar"},
	biSampleId:            {"SampleId", fragOnly, []uint32{}, isI32, "a 32-bit integer scalar"},
	biSamplePosition:      {"SamplePosition", fragOnly, []uint32{}, isF32Vec(2), "a 2-component vector of 32-bit floats"},
	biSampleMask:          {"SampleMask", fragOnly, fragOnly, isArrayOf(isI32), "an array of 32-bit integers"},
	biFragDepth:           {"FragDepth", []uint32{}, fragOnly, isF32, "a 32-bit float scalar"},
	biHelperInvocation:    {"HelperInvocation", fragOnly, []uint32{}, isBool, "a bool scalar"},
	biNumWorkgroups:       {"NumWorkgroups", computeLk, []uint32{}, isI32Vec3, "a 3-component vector of 32-bit integers"},
	biWorkgroupId:         {"WorkgroupId", computeLk, []uint32{}, isI32Vec3, "a 3-component vector of 32-bit integers"},
	biLocalInvocationId:   {"LocalInvocationId", computeLk, []uint32{}, isI32Vec3, "a 3-component vector of 32-bit integers"},
	biGlobalInvocationId:  {"GlobalInvocationId", computeLk, []uint32{}, isI32Vec3, "a 3-component vector of 32-bit integers"},
	biLocalInvocationIdx:  {"LocalInvocationIndex", computeLk, []uint32{}, isI32, "a 32-bit integer scalar"},
	biSubgroupSize:        {"SubgroupSize", nil, []uint32{}, isI32, "a 32-bit integer scalar"},
	biSubgroupLocalInvId:  {"SubgroupLocalInvocationId", nil, []uint32{}, isI32, "a 32-bit integer scalar"},
	biNumSubgroups:        {"NumSubgroups", computeLk, []uint32{}, isI32, "a 32-bit integer scalar"},
	biSubgroupId:          {"SubgroupId", computeLk, []uint32{}, isI32, "a 32-bit integer scalar"},
	biVertexIndex:         {"VertexIndex", vertexOnly, []uint32{}, isI32, "a 32-bit integer scalar"},
	biInstanceIndex:       {"InstanceIndex", vertexOnly, []uint32{}, isI32, "a 32-bit integer scalar"},
	biBaseVertex:          {"BaseVertex", vertexOnly, []uint32{}, isI32, "a 32-bit integer scalar"},
	biBaseInstance:        {"BaseInstance", vertexOnly, []uint32{}, isI32, "a 32-bit integer scalar"},
	biViewIndex:           {"ViewIndex", nil, []uint32{}, isI32, "a 32-bit integer scalar"},
	biBaryCoordKHR:        {"BaryCoordKHR", fragOnly, []uint32{}, isF32Vec(3), "a 3-component vector of 32-bit floats"},
	biBaryCoordNoPerspKHR: {"BaryCoordNoPerspKHR", fragOnly, []uint32{}, isF32Vec(3), "a 3-component vector of 32-bit floats"},
}

func containsU32(s []uint32, v uint32) bool {
	for _, x := range s {
		if x == v {
			return true
		}
	}
	return false
}

// ioItem is one interface "slot": a whole variable or one member of an IO block struct.
type ioItem struct {
	v       *Inst
	sc      uint32
	typeID  uint32
	desc    string
	builtin int64 // -1 none
	hasLoc  bool
	flat    bool
}

func (m *module) ioItems(v *Inst) []ioItem {
	pt := m.types[v.Type]
	if pt == nil || pt.Kind != tkPointer {
		return nil
	}
	sc := v.Ops[0].Lit
	item := ioItem{v: v, sc: sc, typeID: pt.Elem, desc: v.String(), builtin: -1}
	if d, ok := m.getDec(v.Result, decBuiltIn); ok && len(d.Args) > 0 {
		item.builtin = int64(d.Args[0])
	}
	item.hasLoc = m.hasDec(v.Result, decLocation)
	item.flat = m.hasDec(v.Result, decFlat)
	st := m.stripArrays(pt.Elem)
	if st != nil && st.Kind == tkStruct && item.builtin < 0 {
		anyMemberDeco := false
		for i := range st.Members {
			if m.hasMemberDec(st.ID, uint32(i), decBuiltIn) || m.hasMemberDec(st.ID, uint32(i), decLocation) {
				anyMemberDeco = true
			}
		}
		if anyMemberDeco || m.hasDec(st.ID, decBlock) {
			var items []ioItem
			for i, mem := range st.Members {
				it := ioItem{v: v, sc: sc, typeID: mem, desc: fmt.Sprintf("member %d of struct %%%d (%s)", i, st.ID, v), builtin: -1}
				if d, ok := m.getMemberDec(st.ID, uint32(i), decBuiltIn); ok && len(d.Args) > 0 {
					it.builtin = int64(d.Args[0])
				}
				it.hasLoc = item.hasLoc || m.hasMemberDec(st.ID, uint32(i), decLocation)
				it.flat = item.flat || m.hasMemberDec(st.ID, uint32(i), decFlat)
				items = append(items, it)
			}
			return items
		}
	}
	return []ioItem{item}
}

func (m *module) checkInterfaceDecorations() {
	// which execution models use each variable (through OpEntryPoint interfaces)
	models := map[uint32][]uint32{}
	for _, ep := range m.entries {
		for _, id := range ep.Interface {
			if !containsU32(models[id], ep.Model) {
				models[id] = append(models[id], ep.Model)
			}
		}
	}
	for _, v := range m.globals {
		if v.Decode != "" {
			continue
		}
		sc := v.Ops[0].Lit
		if sc != scInput && sc != scOutput {
			continue
		}
		for _, it := range m.ioItems(v) {
			if it.builtin >= 0 {
				m.checkBuiltin(it, models[v.Result])
				continue
			}
			if len(models[v.Result]) == 0 {
				continue // not part of any entry point interface
			}
			m.fire("D8")
			if !it.hasLoc {
				m.fail("D8", "%s (storage class %d) has neither BuiltIn nor Location", it.desc, sc)
			}
			if sc == scInput && containsU32(models[v.Result], emFragment) {
				t := m.stripArrays(it.typeID)
				s := m.shapeOfType(t)
				if s.ok && (s.kind == tkInt || (s.kind == tkFloat && s.width == 64)) {
					m.fire("D8")
					if !it.flat {
						m.fail("D8", "%s is a fragment-shader input of type %s and is not decorated Flat", it.desc, m.typeName(it.typeID))
					}
				}
			}
		}
	}
}

func (m *module) checkBuiltin(it ioItem, models []uint32) {
	r, ok := builtinRules[uint32(it.builtin)]
	if !ok {
		return
	}
	m.fire("D7")
	if !r.typ(m, it.typeID) {
		m.fail("D7", "%s: BuiltIn %s must be %s, type is %s", it.desc, r.name, r.req, m.typeName(it.typeID))
	}
	allowed := r.in
	dir := "Input"
	if it.sc == scOutput {
		allowed, dir = r.out, "Output"
	}
	if allowed == nil {
		return
	}
	if len(allowed) == 0 {
		m.fail("D7", "%s: BuiltIn %s cannot be used in the %s storage class", it.desc, r.name, dir)
		return
	}
	for _, em := range models {
		if !containsU32(allowed, em) {
			m.fail("D7", "%s: BuiltIn %s as %s is not allowed in execution model %d", it.desc, r.name, dir, em)
		}
	}
}
