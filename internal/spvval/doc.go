package spvval

/*
Rule catalogue (ids are stable; Report.Fired counts non-vacuous evaluations).

  H1 magic            H2 version word / range / not above the requested version unless a feature forces it
  H3 ids below bound  H4 schema 0       H5 word counts, operand decoding, unknown opcodes, trailing words
  L1 section order    L2 one OpMemoryModel with legal enumerants     L3 function layout
  I1 single definition  I2 operands defined  I3 forward references  I4 dominance  I5 OpPhi  I6 operand classes
  T1 unique non-aggregate types  T2 scalar/vector/matrix/image shapes  T3 OpVariable  T4 array length
  T5 runtime arrays   T6 OpFunction vs its function type
  O.*  per-opcode typing, one id per family (see ruleIDs)
  C1 block termination  C2 entry block  C3 selection merges  C4 loop merges  C5 header dominance
  C6 back edges  C7 merge uniqueness and construct exits/entries  C8 switch fall-through
  C9 branch targets  C10 unreachable blocks (counted; they are subject to C1/C9 like all blocks)
  D1 Block  D2 Offset  D3 ArrayStride  D4 MatrixStride/majorness  D5 alignment and overlap
  D6 DescriptorSet/Binding  D7 BuiltIn type, storage class, stage  D8 Location / Flat
  D9 decoration targets  D10 BuiltIn xor Location
  E1 entry function  E2 interface ids  E3 Input/Output listed  E4 execution modes  E5 uniqueness, not called
  K1 opcode capabilities  K2 type capabilities  K3 enumerant capabilities  K4 extensions / minimum versions
  K5 declared capabilities within Options.AllowedCaps

Deliberate choices (each one errs towards silence):

  * T1 follows the specification text ("non-aggregate, non-pointer" types must be unique): duplicate
    OpTypePointer declarations are accepted, like duplicate arrays and structs.
  * D5 uses the standard buffer layout with relaxed vector alignment. For Uniform-class Block structs arrays
    and nested structs get the extended (16-byte) alignment, but matrix column strides do not: WGSL's
    mat<C>x2<f32> and f16 matrices rely on the uniformBufferStandardLayout feature, which upstream accepts
    (spirv-val --uniform-buffer-standard-layout).
  * H2: a module version above Options.RequestedVersion is accepted when some feature of the module needs
    that version (OpCopyLogical -> 1.4, GroupNonUniform -> 1.3, ...).
  * C3 reports only OpSwitch without a merge and misplaced OpSelectionMerge; an OpBranchConditional without a
    merge instruction is never reported.
  * C7 computes a construct by walking the CFG from its header and stopping at the construct's merge block and
    at the merge / continue / header blocks of enclosing constructs; only an exit to the merge block of an
    enclosing *plain selection* is reported as illegal, plus blocks inside a construct that the header does
    not dominate (a branch into the construct).
  * Scope and memory-semantics *values* are checked against the Vulkan rules only for non-specialization
    constants. Subgroup, ray-query and image-query instructions get capability checks (K1) but no typing rules.
  * Rules that need a type which I2/I6 already reported missing are skipped (no cascades).
*/
