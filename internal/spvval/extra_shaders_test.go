package spvval

// Hand-written WGSL stress shaders used as additional calibration input (beyond the upstream corpus).
// They are valid WGSL; every finding on them is either a validator bug or a naga defect.
var extraShaders = map[string]string{
	"a_control": `
struct Buf { data: array<i32> }
@group(0) @binding(0) var<storage, read_write> buf: Buf;
var<private> counter: i32 = 3;
fn inc(p: ptr<function, i32>, by: i32) { *p = *p + by; }
fn deep(x: i32) -> i32 {
  var r = x;
  loop {
    if (r > 100) { break; }
    var j = 0;
    while (j < 4) {
      j = j + 1;
      if (j == 2) { continue; }
      switch (r & 3) {
        case 0: { r = r + 1; }
        case 1: { if (j == 3) { break; } r = r * 2; }
        case 2, 3: { r = r + j; continue; }
        default: { return r; }
      }
      inc(&r, j);
    }
    continuing {
      r = r + 7;
      break if (r > 90);
    }
  }
  return r;
}
@compute @workgroup_size(8, 2, 1)
fn main(@builtin(global_invocation_id) gid: vec3<u32>, @builtin(num_workgroups) nw: vec3<u32>, @builtin(workgroup_id) wid: vec3<u32>, @builtin(local_invocation_id) lid: vec3<u32>) {
  var acc = counter;
  for (var i = 0; i < i32(arrayLength(&buf.data)); i++) {
    for (var k = i; k > 0; k--) {
      if ((k & 1) == 0) { continue; }
      acc += deep(buf.data[k]);
      if (acc > 1000) { break; }
    }
    if (acc < 0) { return; }
  }
  buf.data[gid.x + nw.y + wid.z + lid.x] = acc / (acc % 7) ;
}
`,
	"b_math": `
struct U { m2: mat2x2<f32>, m34: mat3x4<f32>, m43: mat4x3<f32>, v: vec4<f32>, iv: vec4<i32>, uv: vec3<u32>, arr: array<vec4<f32>, 3> }
@group(0) @binding(0) var<uniform> u: U;
@group(0) @binding(1) var<storage, read_write> out: array<vec4<f32>>;
@compute @workgroup_size(1)
fn main() {
  let a = u.m34 * u.m43;           // mat3x3? (4x3 * 3x4)
  let b = u.m43 * u.v;
  let c = u.v.xyz * u.m43;
  let t = transpose(u.m34);
  let d = determinant(u.m2) + dot(u.v, u.v) + length(u.v.xy) + distance(u.v.xyz, b);
  let e = cross(u.v.xyz, b) + normalize(b) + reflect(b, b) + refract(b, b, 0.5) + faceForward(b, b, b);
  let f = mix(u.v, u.arr[1], 0.25) + mix(u.v, u.arr[2], u.v) + clamp(u.v, vec4<f32>(0.0), vec4<f32>(1.0)) + smoothstep(vec4<f32>(0.0), vec4<f32>(1.0), u.v) + step(u.v, u.v) + fma(u.v, u.v, u.v);
  let g = abs(u.iv) + sign(u.iv) + min(u.iv, vec4<i32>(3)) + max(u.iv, vec4<i32>(1)) + clamp(u.iv, vec4<i32>(0), vec4<i32>(9));
  let h = countOneBits(u.uv) + reverseBits(u.uv) + firstLeadingBit(u.uv) + firstTrailingBit(u.uv) + countLeadingZeros(u.uv) + extractBits(u.uv, 1u, 3u) + insertBits(u.uv, u.uv, 2u, 4u);
  let i = vec4<f32>(u.iv) + vec4<f32>(vec4<u32>(u.iv)) + vec4<f32>(vec4<bool>(u.iv)) + bitcast<vec4<f32>>(u.iv);
  let j = select(u.v, f, u.v > f) + select(u.v, f, true) + vec4<f32>(select(1.0, 2.0, all(u.v == f)));
  let k = pack4x8snorm(u.v) + pack4x8unorm(u.v) + pack2x16snorm(u.v.xy) + pack2x16unorm(u.v.zw) + pack2x16float(u.v.xy);
  let l = unpack4x8snorm(k) + unpack4x8unorm(k) + vec4<f32>(unpack2x16snorm(k), unpack2x16unorm(k)) + vec4<f32>(unpack2x16float(k), 0.0, 0.0);
  let m = modf(u.v.x); let n = frexp(u.v.y); let o = ldexp(u.v, u.iv);
  let p = u.iv << vec4<u32>(1u) >> vec4<u32>(2u) ;
  let q = (u.iv / vec4<i32>(3)) % vec4<i32>(2) + (-u.iv) ;
  let r = u.uv / vec3<u32>(2u) % vec3<u32>(5u);
  let s = exp(u.v) + exp2(u.v) + log(u.v) + log2(u.v) + pow(u.v, u.v) + sqrt(u.v) + inverseSqrt(u.v) + sin(u.v) + cos(u.v) + tan(u.v) + asin(u.v) + acos(u.v) + atan(u.v) + atan2(u.v, u.v) + sinh(u.v) + cosh(u.v) + tanh(u.v) + asinh(u.v) + acosh(u.v) + atanh(u.v) + floor(u.v) + ceil(u.v) + round(u.v) + trunc(u.v) + fract(u.v) + degrees(u.v) + radians(u.v) + saturate(u.v) + quantizeToF16(u.v);
  out[0] = vec4<f32>(a[0][0], b.x, c.x, t[0][0]) + vec4<f32>(d) + vec4<f32>(e, 1.0) + f + vec4<f32>(g) + vec4<f32>(vec4<u32>(h, 1u)) + i + j + l + vec4<f32>(m.fract, m.whole, n.fract, f32(n.exp)) + o + vec4<f32>(p) + vec4<f32>(q) + vec4<f32>(vec4<u32>(r, 0u)) + s;
  out[1] = (u.m2 * u.v.xy).xyxy + (u.m2 * u.m2)[1].xyxy + (u.m2 * 2.0)[0].xyxy + (u.m2 + u.m2)[0].xyxy - (u.m2 - u.m2)[1].xyxy;
}
`,
	"c_tex": `
@group(0) @binding(0) var t1: texture_1d<f32>;
@group(0) @binding(1) var t2: texture_2d<f32>;
@group(0) @binding(2) var t2a: texture_2d_array<f32>;
@group(0) @binding(3) var t3: texture_3d<f32>;
@group(0) @binding(4) var tc: texture_cube<f32>;
@group(0) @binding(5) var tca: texture_cube_array<f32>;
@group(0) @binding(6) var tms: texture_multisampled_2d<f32>;
@group(0) @binding(7) var td: texture_depth_2d;
@group(0) @binding(8) var tda: texture_depth_2d_array;
@group(0) @binding(9) var tdc: texture_depth_cube;
@group(0) @binding(10) var s: sampler;
@group(0) @binding(11) var sc: sampler_comparison;
@group(0) @binding(12) var ti: texture_2d<i32>;
@group(0) @binding(13) var tu: texture_2d<u32>;
@group(1) @binding(0) var st1: texture_storage_1d<r32float, write>;
@group(1) @binding(1) var st2: texture_storage_2d<rgba16float, write>;
@group(1) @binding(2) var st3: texture_storage_3d<rg32uint, write>;
@group(1) @binding(3) var st2a: texture_storage_2d_array<rgba8snorm, write>;
@group(1) @binding(4) var str: texture_storage_2d<r32uint, read_write>;
@group(1) @binding(5) var tdms: texture_depth_multisampled_2d;
@fragment
fn fs(@location(0) uv: vec2<f32>, @builtin(sample_index) si: u32, @builtin(sample_mask) sm: u32) -> @location(0) vec4<f32> {
  var c = textureSample(t2, s, uv) + textureSample(t1, s, uv.x) + textureSample(t2a, s, uv, 1) + textureSample(t3, s, uv.xyx) + textureSample(tc, s, uv.xyx) + textureSample(tca, s, uv.xyx, 2u);
  c += textureSample(t2, s, uv, vec2<i32>(1, 1)) + textureSampleBias(t2, s, uv, 0.5) + textureSampleLevel(t2, s, uv, 1.0) + textureSampleGrad(t2, s, uv, uv, uv);
  c += vec4<f32>(textureSample(td, s, uv) + textureSampleCompare(td, sc, uv, 0.5) + textureSampleCompareLevel(tda, sc, uv, 1, 0.5) + textureSampleCompare(tdc, sc, uv.xyx, 0.5) + textureSampleLevel(td, s, uv, 1));
  c += textureGather(1, t2, s, uv) + textureGather(td, s, uv) + textureGatherCompare(td, sc, uv, 0.5) + textureGather(0, t2, s, uv, vec2<i32>(1, 0));
  c += textureLoad(t2, vec2<i32>(1, 2), 0) + textureLoad(t1, 1, 0) + textureLoad(t2a, vec2<u32>(1u, 2u), 1, 0) + textureLoad(t3, vec3<i32>(0), 1) + textureLoad(tms, vec2<i32>(0), i32(si)) + vec4<f32>(textureLoad(td, vec2<i32>(0), 0)) + vec4<f32>(textureLoad(tdms, vec2<i32>(0), 1));
  c += vec4<f32>(textureLoad(ti, vec2<i32>(0), 0)) + vec4<f32>(textureLoad(tu, vec2<i32>(0), 0)) + vec4<f32>(textureLoad(str, vec2<i32>(0)));
  let d = textureDimensions(t1) + textureDimensions(t2).x + textureDimensions(t2a, 1).y + textureDimensions(t3).z + textureDimensions(tc).x + textureDimensions(tca).x + textureDimensions(tms).x + textureDimensions(st2).x + textureDimensions(td).y;
  let n = textureNumLayers(t2a) + textureNumLayers(tca) + textureNumLevels(t2) + textureNumLevels(tc) + textureNumSamples(tms) + textureNumLayers(st2a) + textureNumLayers(tda);
  textureStore(st1, 1, c); textureStore(st2, vec2<i32>(0), c); textureStore(st3, vec3<u32>(0u), vec4<u32>(d)); textureStore(st2a, vec2<i32>(0), 1, c); textureStore(str, vec2<i32>(1), vec4<u32>(n + sm));
  return c + dpdx(c) + dpdy(c) + fwidth(c) + dpdxCoarse(c) + dpdyFine(c);
}
`,
	"d_io": `
struct VIn { @location(0) p: vec4<f32>, @location(1) n: vec3<f32>, @location(2) i: vec2<i32>, @location(3) u: u32, @builtin(vertex_index) vi: u32, @builtin(instance_index) ii: u32 }
struct V2F {
  @builtin(position) @invariant pos: vec4<f32>,
  @location(0) @interpolate(flat) i: vec2<i32>,
  @location(1) @interpolate(linear, centroid) a: vec3<f32>,
  @location(2) @interpolate(perspective, sample) b: f32,
  @location(3) @interpolate(linear) c: vec2<f32>,
  @location(4) @interpolate(flat) u: u32,
  @location(5) d: vec4<f32>,
}
struct FOut { @location(0) c0: vec4<f32>, @location(1) c1: vec4<u32>, @location(2) c2: i32, @builtin(frag_depth) depth: f32, @builtin(sample_mask) mask: u32 }
struct PC { k: vec4<f32>, j: u32 }
var<push_constant> pc: PC;
@vertex fn vs(v: VIn) -> V2F {
  var o: V2F;
  o.pos = v.p + pc.k; o.i = v.i; o.a = v.n; o.b = f32(v.vi + v.ii); o.c = v.n.xy; o.u = v.u + pc.j; o.d = v.p;
  return o;
}
@fragment fn fs(f: V2F, @builtin(front_facing) ff: bool, @builtin(sample_index) si: u32, @builtin(sample_mask) sm: u32) -> FOut {
  if (f.b < 0.0) { discard; }
  var o: FOut;
  o.c0 = f.d + vec4<f32>(f.a, f.b) + f.pos; o.c1 = vec4<u32>(f.u, si, sm, u32(ff)); o.c2 = f.i.x + f.i.y; o.depth = f.pos.z * 0.5; o.mask = sm & 3u;
  return o;
}
@fragment fn fs2(@builtin(position) p: vec4<f32>) -> @location(0) vec4<f32> { return p; }
`,
	"e_atomics": `
struct S { a: atomic<u32>, b: atomic<i32>, arr: array<atomic<u32>, 4> }
@group(0) @binding(0) var<storage, read_write> s: S;
var<workgroup> wa: atomic<i32>;
var<workgroup> wu: array<atomic<u32>, 8>;
var<workgroup> wm: mat3x3<f32>;
var<workgroup> ws: array<vec3<f32>, 5>;
@compute @workgroup_size(4)
fn main(@builtin(local_invocation_index) li: u32) {
  atomicStore(&wa, 1); atomicStore(&wu[li], 2u);
  workgroupBarrier(); storageBarrier();
  let x = atomicLoad(&s.a) + atomicAdd(&s.a, 1u) + atomicSub(&s.a, 1u) + atomicMax(&s.a, 3u) + atomicMin(&s.a, 4u) + atomicAnd(&s.arr[1], 5u) + atomicOr(&s.arr[2], 6u) + atomicXor(&s.arr[li & 3u], 7u) + atomicExchange(&wu[1], 9u);
  let y = atomicLoad(&s.b) + atomicAdd(&wa, 2) + atomicMax(&s.b, -1) + atomicMin(&wa, -2);
  let r = atomicCompareExchangeWeak(&s.a, x, 4u);
  let r2 = atomicCompareExchangeWeak(&wa, y, 5);
  if (r.exchanged && r2.exchanged) { atomicStore(&s.b, r2.old_value + i32(r.old_value)); }
  wm[1] = ws[li] ; ws[li + 1u] = wm[2] * 2.0;
  let wl = workgroupUniformLoad(&wm);
  s.arr[0] = 1u;
}
`,
	"f_types": `
struct In2 { v: vec3<f32>, f: f32, m: mat2x3<f32> }
struct In1 { a: array<In2, 2>, b: vec2<u32>, c: array<array<f32, 3>, 2>, d: mat4x4<f32>, e: array<mat2x2<f32>, 2> }
@group(0) @binding(0) var<storage, read_write> sb: In1;
struct UIn { a: array<In2, 2>, b: vec2<u32>, d: mat4x4<f32>, e: array<mat2x2<f32>, 2> }
@group(0) @binding(1) var<uniform> ub: UIn;
@group(0) @binding(3) var<storage, read> sb2: In1;
@group(0) @binding(2) var<storage, read> ro: array<In2>;
var<private> pv: In1;
const K: array<vec2<f32>, 3> = array<vec2<f32>, 3>(vec2<f32>(1.0, 2.0), vec2<f32>(3.0, 4.0), vec2<f32>(5.0, 6.0));
fn take(p: ptr<private, In1>, q: ptr<function, In2>) -> f32 { (*q).f = (*p).a[1].f; return (*p).c[1][2]; }
fn ret_struct(i: u32) -> In2 { var x = ro[i]; x.m[1] = x.v; return x; }
@compute @workgroup_size(1)
fn main() {
  pv = sb2; pv.b = ub.b;
  var loc: In2 = ret_struct(1u);
  var arr = array<i32, 4>(1, 2, 3, 4);
  var idx = 2;
  arr[idx] = arr[idx - 1] + i32(K[idx].y);
  let t = take(&pv, &loc);
  sb = pv;
  sb.a[1] = loc;
  sb.c[1][idx] = t + f32(arr[3]);
  sb.d[2][1] = sb.e[1][0].y + ub.a[0].m[1][2];
  var v = vec4<f32>(1.0); v[idx] = 2.0; let w = v[idx + 1];
  var mm = mat3x3<f32>(); mm[idx][1] = w; mm[1] = vec3<f32>(w);
  sb.b = vec2<u32>(u32(mm[2][idx]), arrayLength(&ro));
  let z = In2(vec3<f32>(1.0), 2.0, mat2x3<f32>());
  sb.a[0] = z;
}
`,
	"g_ptr": `
struct P { v: vec4<f32>, a: array<f32, 4>, m: mat3x3<f32> }
@group(0) @binding(0) var<storage, read_write> sp: P;
var<workgroup> wp: P;
var<private> pp: P;
fn f_fn(p: ptr<function, P>, i: i32) -> f32 { (*p).a[i] = (*p).v[i]; (*p).m[i][1] = 2.0; return (*p).m[1][i]; }
fn f_vec(p: ptr<function, vec4<f32>>) { (*p).y = (*p).x; }
fn f_arr(p: ptr<function, array<f32, 4>>, i: u32) -> f32 { (*p)[i] += 1.0; return (*p)[3u - i]; }
fn f_wg(p: ptr<workgroup, P>, i: i32) -> f32 { return (*p).a[i] + (*p).v.z; }
fn f_st(p: ptr<storage, P, read_write>, i: i32) { (*p).a[i] = 1.0; }
fn f_pr(p: ptr<private, P>, i: i32) -> f32 { (*p).v.x = 3.0; return (*p).a[i]; }
@compute @workgroup_size(2)
fn main(@builtin(local_invocation_index) li: u32) {
  var l: P;
  var x = f_fn(&l, i32(li));
  f_vec(&l.v);
  x += f_arr(&l.a, li);
  let lp = &l.m;
  (*lp)[2] = vec3<f32>(x);
  let lq = &(*lp)[1];
  (*lq).z = 4.0;
  x += f_wg(&wp, 1) + f_pr(&pp, 2);
  f_st(&sp, 3);
  let c = &sp.a[li];
  *c = x + (*lq).y;
  var b = (x > 1.0) && (li == 0u || f_pr(&pp, 0) > 2.0);
  b = b | (li == 1u); b = b & !b;
  var v = vec4<f32>(1.0); v.x += 2.0; v.y *= x; v[li] -= 1.0; v = -v;
  var i = 5; i <<= 2u; i >>= 1u; i %= 3; i /= 2; i |= 8; i &= 12; i ^= 1; i++; i--;
  sp.v = select(v, vec4<f32>(f32(i)), b);
  wp.a[li] = l.a[li];
}
`,
	"h_switch": `
@group(0) @binding(0) var<storage, read_write> o: array<i32>;
fn s1(x: i32) -> i32 {
  switch (x) { case -1: { return 1; } case 0, 1: { return 2; } case 2: { } default: { return 3; } }
  return 4;
}
fn s2(x: u32) -> i32 {
  var r = 0;
  switch (x) { default: { r = 1; } }
  switch (x) { case 1u: { r = 2; } case 5u, default: { r = 3; } }
  for (var i = 0u; i < x; i++) {
    switch (i) {
      case 0u: { continue; }
      case 1u: { break; }
      case 2u: { if (r > 3) { break; } else { r += 1; } }
      case 3u: { loop { r += 1; if (r > 10) { break; } } }
      default: { return r; }
    }
    r += 1;
  }
  return r;
}
fn s3(x: i32) -> i32 {
  var i = 0;
  loop {
    switch (x + i) { case 1: { i += 2; } case 2: { break; } default: { i += 1; } }
    if (i > 5) { break; }
    continuing { i += 1; if (i == 3) { i += 1; } }
  }
  while (true) { if (i > 20) { return i; } i += 3; }
  return 0;
}
fn s4(a: bool, b: bool) -> i32 {
  if (a) { if (b) { return 1; } else { return 2; } } else if (b) { return 3; }
  if (a && b) { } else { }
  return 4;
}
@compute @workgroup_size(1)
fn main() { o[0] = s1(o[1]) + s2(u32(o[2])) + s3(o[3]) + s4(o[4] > 0, o[5] > 0); }
`,
	"i_consts": `
override scale: f32 = 2.0;
override count: u32 = 4u;
@id(7) override flag: bool = true;
const PI2 = 6.283;
const TABLE = array<vec3<f32>, 2>(vec3<f32>(1.0, 2.0, 3.0), vec3<f32>(4.0));
const MAT = mat2x2<f32>(1.0, 0.0, 0.0, 1.0);
struct C { a: i32, b: vec2<u32>, c: array<f32, 2> }
const CS = C(1, vec2<u32>(2u, 3u), array<f32, 2>(4.0, 5.0));
var<private> pc: C = CS;
var<private> pz: array<vec4<i32>, 3>;
@group(0) @binding(0) var<storage, read_write> o: array<f32>;
@compute @workgroup_size(1)
fn main() {
  var t = TABLE;
  let i = u32(o[0]);
  var acc = t[i % 2u].y * scale + PI2 + MAT[i % 2u].x + f32(pc.b.y) + pc.c[i % 2u] + f32(pc.a) + f32(pz[i % 3u].w);
  if (flag) { acc += f32(count); }
  let big = 0xFFFFFFFFu; let neg = -2147483647 - 1; let h = 1e-3;
  o[1] = acc + f32(big >> 31u) + f32(neg / 2) + h + f32(1u << (i % 32u)) + f32(i32(i) / -1) + f32(i32(i) % 0 + 1);
  o[2] = f32(vec3<i32>(1, 2, 3).z) + vec2<f32>(1.0, 2.0).yx.x + f32(vec4<bool>(true, false, true, false).z);
}
`,
	"j_f16": `
enable f16;
struct S { a: f16, b: vec2<f16>, c: vec3<f16>, d: vec4<f16>, m: mat2x2<f16>, arr: array<f16, 4>, f: f32 }
@group(0) @binding(0) var<storage, read_write> s: S;
struct US { a: f16, b: vec2<f16>, c: vec3<f16>, d: vec4<f16>, m: mat2x2<f16>, arr: array<vec4<f32>, 4>, f: f32 }
@group(0) @binding(1) var<uniform> u: US;
fn hf(x: f16, v: vec3<f16>) -> f16 { return x * v.y + dot(v, v); }
@compute @workgroup_size(1)
fn main() {
  var h: f16 = u.a + 1.5h;
  let v = u.c * h + vec3<f16>(u.b, 2.0h);
  s.a = hf(h, v) + f16(u.f) + f16(3) + f16(7u);
  s.f = f32(s.a) + f32(v.x);
  s.d = vec4<f16>(v, h) * u.d + select(u.d, s.d, u.d > s.d) + abs(u.d) + clamp(u.d, vec4<f16>(0.0h), vec4<f16>(1.0h)) + sqrt(u.d) + floor(u.d) + mix(u.d, s.d, 0.5h) + max(u.d, s.d);
  s.m = u.m * u.m + u.m * 2.0h; s.b = u.m * u.b;
  s.arr[2] = f16(u.arr[1].y) + f16(i32(h)) + f16(u32(h));
  let bc = u.b * 2.0h;
  s.c = vec3<f16>(bc, h) + vec3<f16>(vec3<f32>(1.0)) + vec3<f16>(vec3<i32>(1)) ;
}
`,
	"k_i64": `
struct S { a: i64, b: u64, v: vec3<i64>, w: vec2<u64>, f: f32, i: i32, u: u32 }
@group(0) @binding(0) var<storage, read_write> s: S;
fn f64i(x: i64, y: u64) -> i64 { return x * i64(y) - x / 3li + x % 5li + (x << 2u) + (x >> 1u) + (x & 7li) + (x | 8li) + (x ^ 1li) + (-x) + ~x; }
@compute @workgroup_size(1)
fn main() {
  s.a = f64i(s.a, s.b) + i64(s.f) + i64(s.i) + i64(s.u) + abs(s.a) + min(s.a, 3li) + max(s.a, 4li) + clamp(s.a, 0li, 9li) + select(1li, 2li, s.a > 3li) + i64(s.b == 7lu);
  s.b = s.b / 3lu + s.b % 5lu + u64(s.f) + u64(s.i) + u64(s.u) + (s.b << 3u) + (s.b >> 2u) + bitcast<u64>(s.a) + min(s.b, 2lu);
  s.f = f32(s.a) + f32(s.b); s.i = i32(s.a) + i32(s.b); s.u = u32(s.a) + u32(s.b);
  s.v = s.v * vec3<i64>(2li) + vec3<i64>(vec2<i64>(s.w), 1li) + vec3<i64>(vec3<f32>(1.0)) - s.v / vec3<i64>(2li);
  s.w = vec2<u64>(s.v.xy) + s.w % vec2<u64>(3lu);
  s.a += i64(countOneBits(s.a)) + i64(firstTrailingBit(s.b)) + i64(firstLeadingBit(s.a)) + reverseBits(s.a) + sign(s.a);
}
`,
	"l_subgroup": `
enable subgroups;
@group(0) @binding(0) var<storage, read_write> o: array<u32>;
@compute @workgroup_size(32)
fn main(@builtin(subgroup_size) ss: u32, @builtin(subgroup_invocation_id) si: u32, @builtin(num_subgroups) ns: u32, @builtin(subgroup_id) sid: u32, @builtin(local_invocation_index) li: u32) {
  var x = li + ss + ns + sid;
  let b = subgroupBallot((x & 1u) == 1u);
  x += b.x + subgroupAdd(x) + subgroupMul(x) + subgroupMin(x) + subgroupMax(x) + subgroupAnd(x) + subgroupOr(x) + subgroupXor(x) + subgroupExclusiveAdd(x) + subgroupInclusiveMul(x);
  x += subgroupBroadcastFirst(x) + subgroupBroadcast(x, 3u) + subgroupShuffle(x, si ^ 1u) + subgroupShuffleDown(x, 1u) + subgroupShuffleUp(x, 1u) + subgroupShuffleXor(x, 2u) + quadBroadcast(x, 1u) + quadSwapX(x) + quadSwapY(x) + quadSwapDiagonal(x);
  let f = subgroupAdd(f32(x)) + subgroupMax(f32(x)); let v = subgroupAdd(vec3<i32>(i32(x)));
  if (subgroupAll(x > 0u) || subgroupAny(x == 3u)) { x += 1u; }
  subgroupBarrier();
  o[li] = x + u32(f) + u32(v.y);
}
`,
	"m_misc": `
struct VO { @builtin(position) p: vec4<f32>, @builtin(clip_distances) cd: array<f32, 2>, @location(0) c: vec4<f32> }
@vertex fn vs(@builtin(vertex_index) vi: u32) -> VO { var o: VO; o.p = vec4<f32>(f32(vi)); o.cd[0] = 1.0; o.cd[1] = f32(vi); o.c = o.p; return o; }
struct FO { @location(0) @blend_src(0) a: vec4<f32>, @location(0) @blend_src(1) b: vec4<f32> }
@group(0) @binding(0) var rw: texture_storage_2d<r32uint, read_write>;
@group(0) @binding(1) var ro: texture_storage_2d<rgba8unorm, read>;
@group(0) @binding(2) var wo: texture_storage_2d_array<rgba32float, write>;
@group(0) @binding(3) var ext: texture_2d<f32>;
@fragment fn fs(@builtin(primitive_index) pi: u32, @builtin(view_index) view: i32, @location(0) c: vec4<f32>) -> FO {
  let v = textureLoad(rw, vec2<u32>(pi, 1u)); textureStore(rw, vec2<i32>(view, 0), v + vec4<u32>(1u));
  let r = textureLoad(ro, vec2<i32>(0, 0)); textureStore(wo, vec2<i32>(0), 1u, r + c);
  return FO(c + textureLoad(ext, vec2<u32>(0u), 0u), r);
}
`,
}
