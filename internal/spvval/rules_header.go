package spvval

// H rules: module header and physical layout (SPIR-V spec 2.3 "Physical Layout of a SPIR-V Module").

func (m *module) checkHeader() {
	h := m.raw.Hdr
	// H2: version word is 0 | major | minor | 0.
	m.fire("H2")
	maj, min := int(h.Version>>16&0xff), int(h.Version>>8&0xff)
	switch {
	case h.Version&0xff0000ff != 0:
		m.fail("H2", "version word 0x%08x has non-zero high or low byte", h.Version)
	case maj != 1 || min > 6:
		m.fail("H2", "version %d.%d is outside 1.0..1.6", maj, min)
	}
	// H4: schema is reserved and must be 0.
	m.fire("H4")
	if h.Schema != 0 {
		m.fail("H4", "header schema word is %d, must be 0", h.Schema)
	}
	// H3: all ids satisfy 0 < id < bound.
	m.fire("H3")
	if h.Bound == 0 {
		m.fail("H3", "id bound is 0")
	}
	reported := 0
	chk := func(in *Inst, id uint32, what string) {
		if reported >= 5 {
			return
		}
		if id == 0 {
			m.fail("H3", "%s: %s is id 0", in, what)
			reported++
		} else if id >= h.Bound {
			m.fail("H3", "%s: %s %%%d is not below the bound %d", in, what, id, h.Bound)
			reported++
		}
	}
	for _, in := range m.insts {
		if in.Info == nil {
			continue
		}
		if in.Info.hasType && len(in.Words) > 1 {
			chk(in, in.Type, "result type")
		}
		if in.Info.hasResult && (in.Result != 0 || in.Decode == "") {
			chk(in, in.Result, "result id")
		}
		for _, o := range m.allIDOperands(in) {
			chk(in, o.ID, "operand")
		}
	}
}

// checkWordCounts implements the per-instruction part of H5 and returns false
// when the stream could not be decoded reliably.
func (m *module) checkWordCounts() bool {
	ok := true
	for _, in := range m.insts {
		m.fire("H5")
		if in.Info == nil {
			m.fail("H5", "unknown opcode %d at word %d (word count %d)", in.Op, in.Pos, len(in.Words))
			ok = false
			continue
		}
		if min := in.Info.minWords(); len(in.Words) < min {
			m.fail("H5", "%s has word count %d, minimum is %d", in, len(in.Words), min)
			ok = false
			continue
		}
		if fx := in.Info.fixedWords(); fx != 0 && len(in.Words) != fx {
			m.fail("H5", "%s has word count %d, must be %d", in, len(in.Words), fx)
			ok = false
			continue
		}
		if in.Decode != "" {
			m.fail("H5", "%s: %s", in, in.Decode)
			ok = false
		}
	}
	return ok
}
