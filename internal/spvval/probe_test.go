package spvval

import (
	"fmt"
	"os"
	"sort"
	"strings"
	"testing"

	"github.com/gogpu/naga"
	"github.com/gogpu/naga/spirv"
)

// TestProbe: SPVVAL_PROBE=<corpus shader name> SPVVAL_VARIANT=n SPVVAL_VER=1.0 SPVVAL_GREP=substr
func TestProbe(t *testing.T) {
	name := os.Getenv("SPVVAL_PROBE")
	if name == "" {
		t.Skip()
	}
	var sh corpusShader
	for _, s := range loadCorpus(t) {
		if s.name == name {
			sh = s
		}
	}
	m, err := lowerCorpus(sh)
	if err != nil {
		t.Fatal(err)
	}
	base, _ := corpusOptions(sh)
	vi := 0
	fmt.Sscanf(os.Getenv("SPVVAL_VARIANT"), "%d", &vi)
	ver := [2]int{1, 0}
	if v := os.Getenv("SPVVAL_VER"); v != "" {
		fmt.Sscanf(v, "%d.%d", &ver[0], &ver[1])
	}
	o := optionVariants(base)[vi]
	o.Version = spirv.Version{Major: uint8(ver[0]), Minor: uint8(ver[1])}
	bin, err := generate(m, o)
	if err != nil {
		t.Fatal(err)
	}
	g := os.Getenv("SPVVAL_GREP")
	for _, l := range strings.Split(disasmT(bin), "\n") {
		if g == "" || strings.Contains(l, g) {
			fmt.Println(l)
		}
	}
	rep := Validate(bin, Options{RequestedVersion: ver})
	for _, f := range rep.Findings {
		fmt.Println("FINDING", f)
	}
}

// TestProbeDir: SPVVAL_DIR=<dir with .wgsl> validates every shader at all versions and option variants.
func TestProbeDir(t *testing.T) {
	dir := os.Getenv("SPVVAL_DIR")
	if dir == "" {
		t.Skip()
	}
	ents, _ := os.ReadDir(dir)
	for _, e := range ents {
		if !strings.HasSuffix(e.Name(), ".wgsl") {
			continue
		}
		src, _ := os.ReadFile(dir + "/" + e.Name())
		sh := corpusShader{name: e.Name(), src: string(src)}
		m, err := lowerCorpus(sh)
		if err != nil {
			fmt.Printf("%s: FRONT-END: %v\n", e.Name(), err)
			continue
		}
		if errs, err := naga.Validate(m); err != nil || len(errs) > 0 {
			fmt.Printf("%s: IR VALIDATION: %v %v\n", e.Name(), err, errs)
		}
		seen := map[string]bool{}
		n := 0
		for vi, variant := range optionVariants(spirv.DefaultOptions()) {
			for _, v := range corpusVersions {
				o := variant
				o.Version = spirv.Version{Major: uint8(v[0]), Minor: uint8(v[1])}
				bin, err := generate(m, o)
				if err != nil {
					k := "BACKEND: " + err.Error()
					if !seen[k] {
						seen[k] = true
						fmt.Printf("%s v%d.%d variant %d: %s\n", e.Name(), v[0], v[1], vi, k)
					}
					continue
				}
				n++
				rep := Validate(bin, Options{RequestedVersion: v})
				for _, f := range rep.Findings {
					k := f.Rule + ": " + f.Detail
					if !seen[k] {
						seen[k] = true
						fmt.Printf("%s v%d.%d variant %d: %s\n", e.Name(), v[0], v[1], vi, k)
					}
				}
			}
		}
		fmt.Printf("%s: %d modules validated\n", e.Name(), n)
	}
}

// TestProbeFile: SPVVAL_FILE=<wgsl> SPVVAL_VER, SPVVAL_VARIANT, SPVVAL_GREP
func TestProbeFile(t *testing.T) {
	path := os.Getenv("SPVVAL_FILE")
	if path == "" {
		t.Skip()
	}
	src, _ := os.ReadFile(path)
	m, err := lowerCorpus(corpusShader{name: path, src: string(src)})
	if err != nil {
		t.Fatal(err)
	}
	vi := 0
	fmt.Sscanf(os.Getenv("SPVVAL_VARIANT"), "%d", &vi)
	ver := [2]int{1, 0}
	if v := os.Getenv("SPVVAL_VER"); v != "" {
		fmt.Sscanf(v, "%d.%d", &ver[0], &ver[1])
	}
	o := optionVariants(spirv.DefaultOptions())[vi]
	o.Version = spirv.Version{Major: uint8(ver[0]), Minor: uint8(ver[1])}
	bin, err := generate(m, o)
	if err != nil {
		t.Fatal(err)
	}
	g := os.Getenv("SPVVAL_GREP")
	for _, l := range strings.Split(disasmT(bin), "\n") {
		if g == "" || strings.Contains(l, g) {
			fmt.Println(l)
		}
	}
	for _, f := range Validate(bin, Options{RequestedVersion: ver}).Findings {
		fmt.Println("FINDING", f)
	}
}

// TestProbeFuzz: SPVVAL_FUZZ=n random corruptions per corpus module (panic hunt).
func TestProbeFuzz(t *testing.T) {
	n := 0
	fmt.Sscanf(os.Getenv("SPVVAL_FUZZ"), "%d", &n)
	if n == 0 {
		t.Skip()
	}
	seed := uint64(12345)
	fmt.Sscanf(os.Getenv("SPVVAL_SEED"), "%d", &seed)
	rnd := func() uint64 { seed ^= seed << 13; seed ^= seed >> 7; seed ^= seed << 17; return seed }
	total, internal := 0, 0
	for _, sh := range loadCorpus(t) {
		m, err := lowerCorpus(sh)
		if err != nil {
			continue
		}
		o, _ := corpusOptions(sh)
		o.Version = spirv.Version{Major: 1, Minor: uint8(rnd() % 7)}
		bin, err := generate(m, o)
		if err != nil {
			continue
		}
		for k := 0; k < n; k++ {
			words := len(bin) / 4
			c := append([]byte(nil), bin...)
			if k%3 == 0 { // structural corruption: remove / duplicate / swap / move instructions
				tm := decodeT(t, bin)
				for j := uint64(0); j <= rnd()%3; j++ {
					a, b := int(rnd()%uint64(len(tm.insts))), int(rnd()%uint64(len(tm.insts)))
					switch rnd() % 4 {
					case 0:
						tm.remove(a)
					case 1:
						tm.insert(b, tm.insts[a])
					case 2:
						tm.insts[a], tm.insts[b] = tm.insts[b], tm.insts[a]
					default:
						x := tm.insts[a]
						tm.remove(a)
						tm.insert(b%len(tm.insts), x)
					}
				}
				c = tm.encode()
				words = len(c) / 4
			}
			for j := uint64(0); j <= rnd()%3; j++ {
				w := 5 + int(rnd()%uint64(words-5))
				var val uint32
				switch rnd() % 6 {
				case 0:
					val = uint32(rnd() % 64)
				case 1:
					val = uint32(rnd())
				case 2:
					val = uint32(c[4*w]) | uint32(c[4*w+1])<<8 | uint32(c[4*w+2])<<16 | uint32(c[4*w+3])<<24
					val ^= 1 << (rnd() % 32)
				case 3: // copy another word
					x := 5 + int(rnd()%uint64(words-5))
					val = uint32(c[4*x]) | uint32(c[4*x+1])<<8 | uint32(c[4*x+2])<<16 | uint32(c[4*x+3])<<24
				case 4:
					val = uint32(rnd()%8+1)<<16 | uint32(rnd()%400)
				default:
					val = 0
				}
				c[4*w], c[4*w+1], c[4*w+2], c[4*w+3] = byte(val), byte(val>>8), byte(val>>16), byte(val>>24)
			}
			total++
			for _, f := range Validate(c, Options{RequestedVersion: [2]int{1, 3}, AllowedCaps: []uint32{1}}).Findings {
				if f.Rule == "INTERNAL" {
					internal++
					if internal < 4 {
						fmt.Println(sh.name, f.Detail[:min(len(f.Detail), 1500)])
					}
				}
			}
		}
	}
	fmt.Printf("fuzz: %d corrupted modules, %d internal panics\n", total, internal)
	if internal > 0 {
		t.Fail()
	}
}

// TestProbeSurvivors: which single-word corruptions go unnoticed? (SPVVAL_SURV=1)
func TestProbeSurvivors(t *testing.T) {
	if os.Getenv("SPVVAL_SURV") == "" {
		t.Skip()
	}
	seed := uint64(777)
	rnd := func() uint64 { seed ^= seed << 13; seed ^= seed >> 7; seed ^= seed << 17; return seed }
	surv := map[string]int{}
	tot := map[string]int{}
	for _, sh := range loadCorpus(t) {
		m, err := lowerCorpus(sh)
		if err != nil {
			continue
		}
		o, _ := corpusOptions(sh)
		o.Version = spirv.Version{Major: 1, Minor: 3}
		bin, err := generate(m, o)
		if err != nil {
			continue
		}
		rm := readModule(bin, map[string]int{})
		for k := 0; k < 200; k++ {
			in := rm.Insts[rnd()%uint64(len(rm.Insts))]
			if len(in.Words) < 2 {
				continue
			}
			wi := 1 + int(rnd()%uint64(len(in.Words)-1))
			w := in.Pos + wi
			old := rm.Words[w]
			// replace by another id-ish value: a different word taken from the same instruction kind range
			val := uint32(1 + rnd()%uint64(rm.Hdr.Bound-1))
			if val == old {
				continue
			}
			c := append([]byte(nil), bin...)
			c[4*w], c[4*w+1], c[4*w+2], c[4*w+3] = byte(val), byte(val>>8), byte(val>>16), byte(val>>24)
			key := fmt.Sprintf("%s word %d", in.name(), wi)
			tot[key]++
			if len(Validate(c, Options{}).Findings) == 0 {
				surv[key]++
			}
		}
	}
	type kv struct {
		k    string
		s, t int
	}
	var all []kv
	for k, s := range surv {
		all = append(all, kv{k, s, tot[k]})
	}
	sort.Slice(all, func(a, b int) bool { return all[a].s > all[b].s })
	st, tt := 0, 0
	for _, v := range tot {
		tt += v
	}
	for _, v := range surv {
		st += v
	}
	fmt.Printf("survivors %d of %d\n", st, tt)
	for i, e := range all {
		if i > 60 {
			break
		}
		fmt.Printf("%5d / %5d  %s\n", e.s, e.t, e.k)
	}
}
