// Package spvval is an independent structural validator for SPIR-V binaries,
// written from the SPIR-V specification (universal validation rules, 1.0-1.6)
// and the Vulkan environment rules for shaders. It is a stand-in for spirv-val
// and deliberately errs on the side of silence: a rule only reports what the
// specification clearly forbids.
package spvval

import (
	"fmt"
	"runtime/debug"
	"sort"
)

// Options controls environment-dependent checks.
type Options struct {
	RequestedVersion [2]int   // {major, minor} the caller asked naga for ({0,0} = do not check)
	AllowedCaps      []uint32 // nil = any; else the set the caller allowed naga to use (rule K5)
}

// Finding is one rule violation.
type Finding struct {
	Rule   string // rule id like "I4"
	Detail string // names ids / opcodes / word index
}

func (f Finding) String() string { return f.Rule + ": " + f.Detail }

// Report is the result of Validate.
type Report struct {
	Findings []Finding
	Fired    map[string]int // rule id -> number of non-vacuous evaluations in this module
}

var ruleIDs = []string{
	"H1", "H2", "H3", "H4", "H5",
	"L1", "L2", "L3",
	"I1", "I2", "I3", "I4", "I5", "I6",
	"T1", "T2", "T3", "T4", "T5", "T6",
	"O.arith-int", "O.arith-float", "O.bitwise", "O.shift", "O.compare", "O.logical", "O.convert", "O.bitcast",
	"O.select", "O.composite", "O.shuffle", "O.access-chain", "O.load-store", "O.call", "O.return", "O.atomic",
	"O.extinst", "O.array-length", "O.matrix", "O.branch", "O.switch", "O.image",
	"C1", "C2", "C3", "C4", "C5", "C6", "C7", "C8", "C9", "C10",
	"D1", "D2", "D3", "D4", "D5", "D6", "D7", "D8", "D9", "D10",
	"E1", "E2", "E3", "E4", "E5",
	"K1", "K2", "K3", "K4", "K5",
}

// RuleIDs returns all rule ids implemented.
func RuleIDs() []string {
	r := append([]string(nil), ruleIDs...)
	sort.Strings(r)
	return r
}

// Validate checks one SPIR-V module. It never panics.
func Validate(bin []byte, opt Options) (rep Report) {
	rep.Fired = map[string]int{}
	defer func() {
		if r := recover(); r != nil {
			rep.Findings = append(rep.Findings, Finding{Rule: "INTERNAL", Detail: fmt.Sprintf("panic: %v\n%s", r, debug.Stack())})
		}
	}()
	rm := readModule(bin, rep.Fired)
	rep.Findings = append(rep.Findings, rm.Errors...)
	if !rm.HdrOK {
		return rep
	}
	m := buildModel(rm, opt, &rep)
	m.checkHeader()
	wordsOK := m.checkWordCounts()
	if !wordsOK {
		// operand decoding is unreliable: the remaining rules would only produce noise.
		return rep
	}
	m.checkLayout()
	m.checkIDs()
	for _, f := range m.funcs {
		m.buildCFG(f)
	}
	m.checkDominance()
	m.checkTypes()
	m.checkOps()
	m.checkCFG()
	m.checkDecorations()
	m.checkEntryPoints()
	m.checkCapabilities()
	return rep
}
