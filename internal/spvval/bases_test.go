package spvval

import "testing"

// Sources of the base modules that the negative tests corrupt.

const computeWGSL = `
struct Inner { a: vec3<f32>, b: f32 }
struct Data {
  count: atomic<u32>,
  m: mat3x3<f32>,
  inner: array<Inner, 4>,
  vals: array<u32>,
}
struct Params { scale: vec4<f32>, n: u32 }
@group(0) @binding(0) var<storage, read_write> data: Data;
@group(0) @binding(1) var<uniform> params: Params;
var<workgroup> shared_acc: array<u32, 64>;

fn helper(x: u32, y: f32) -> u32 {
  if (x > 3u) { return x * 2u; }
  return x + u32(y);
}

@compute @workgroup_size(64)
fn main(@builtin(global_invocation_id) gid: vec3<u32>, @builtin(local_invocation_index) lid: u32) {
  var acc: u32 = 0u;
  let n = arrayLength(&data.vals);
  for (var i: u32 = 0u; i < n; i = i + 1u) {
    if (data.vals[i] == 7u) { continue; }
    if (data.vals[i] == 9u) { break; }
    acc = acc + helper(data.vals[i], params.scale.x);
  }
  switch (gid.x) {
    case 0u: { acc = acc + 1u; }
    case 1u, 2u: { acc = acc ^ 5u; }
    default: { acc = acc << 1u; }
  }
  shared_acc[lid] = acc;
  workgroupBarrier();
  let v = data.m * data.inner[1].a;
  let s = select(v, vec3<f32>(1.0), v.x > 0.0);
  let mx = max(s.x, params.scale.y);
  atomicAdd(&data.count, u32(mx) + shared_acc[(lid + 1u) % 64u]);
  data.inner[2].b = dot(s, v) + f32(countOneBits(acc));
  data.vals[gid.x] = bitcast<u32>(mx) + vec2<u32>(acc, n).yx.x;
}
`

const gfxWGSL = `
struct VOut {
  @builtin(position) pos: vec4<f32>,
  @location(0) uv: vec2<f32>,
  @location(1) @interpolate(flat) idx: u32,
}
struct U { mvp: mat4x4<f32>, tint: vec4<f32> }
@group(0) @binding(0) var<uniform> u: U;
@group(0) @binding(1) var tex: texture_2d<f32>;
@group(0) @binding(2) var smp: sampler;
@group(1) @binding(0) var simg: texture_storage_2d<rgba8unorm, write>;

@vertex
fn vs(@builtin(vertex_index) vi: u32, @location(0) p: vec3<f32>) -> VOut {
  var o: VOut;
  o.pos = u.mvp * vec4<f32>(p, 1.0);
  o.uv = p.xy;
  o.idx = vi;
  return o;
}

@fragment
fn fs(in: VOut, @builtin(front_facing) ff: bool) -> @location(0) vec4<f32> {
  var c = textureSample(tex, smp, in.uv) * u.tint;
  let d = textureDimensions(tex);
  if (ff && in.idx > 2u) { c = c * 0.5; }
  textureStore(simg, vec2<i32>(i32(d.x), 1), c);
  let t = textureLoad(tex, vec2<i32>(0, 0), 0);
  return c + t;
}
`

func baseCompute(t testing.TB, ver [2]int) *tmod {
	t.Helper()
	bin := compileT(t, computeWGSL, ver)
	expectClean(t, bin)
	return decodeT(t, bin)
}

func baseGfx(t testing.TB, ver [2]int) *tmod {
	t.Helper()
	bin := compileT(t, gfxWGSL, ver)
	expectClean(t, bin)
	return decodeT(t, bin)
}
