package spvval

// Control-flow graph construction and dominator computation
// (Cooper, Harvey, Kennedy: "A Simple, Fast Dominance Algorithm").

type switchCase struct {
	Lit   uint64
	Label uint32
	Word  int
}

// switchCases decodes the (literal, label) pairs of an OpSwitch. The literal
// width comes from the selector's type. ok is false when the selector type is
// unknown or the operand words do not divide into pairs.
func (m *module) switchCases(in *Inst) (cases []switchCase, ok bool) {
	if in.Op != opSwitch || len(in.Ops) < 2 {
		return nil, false
	}
	st := m.typeOf(in.Ops[0].ID)
	if st == nil || st.Kind != tkInt {
		return nil, false
	}
	lw := 1
	if st.Width > 32 {
		lw = 2
	}
	if len(in.Ops) < 3 {
		return nil, true
	}
	raw := in.Ops[2]
	if raw.N%(lw+1) != 0 {
		return nil, false
	}
	for p := raw.Word; p < raw.Word+raw.N; p += lw + 1 {
		v := uint64(in.Words[p])
		if lw == 2 {
			v |= uint64(in.Words[p+1]) << 32
		}
		cases = append(cases, switchCase{Lit: v, Label: in.Words[p+lw], Word: p})
	}
	return cases, true
}

// branchTargets returns the label ids a terminator branches to (with duplicates removed, in order).
func (m *module) branchTargets(in *Inst) []uint32 {
	var t []uint32
	add := func(id uint32) {
		for _, x := range t {
			if x == id {
				return
			}
		}
		t = append(t, id)
	}
	switch in.Op {
	case opBranch:
		add(in.Ops[0].ID)
	case opBranchConditional:
		add(in.Ops[1].ID)
		add(in.Ops[2].ID)
	case opSwitch:
		add(in.Ops[1].ID)
		cs, _ := m.switchCases(in)
		for _, c := range cs {
			add(c.Label)
		}
	}
	return t
}

// allIDOperands returns every id operand of the instruction, including OpSwitch case labels.
func (m *module) allIDOperands(in *Inst) []Operand {
	ops := in.idOps()
	if in.Op == opSwitch {
		cs, _ := m.switchCases(in)
		for _, c := range cs {
			ops = append(ops, Operand{Kind: okID, Word: c.Word, N: 1, ID: c.Label})
		}
	}
	return ops
}

func (m *module) buildCFG(f *Func) {
	n := len(f.Blocks)
	if n == 0 {
		return
	}
	for _, b := range f.Blocks {
		t := b.term()
		if t == nil || t.Info == nil || t.Decode != "" {
			continue
		}
		for _, id := range m.branchTargets(t) {
			if tb := f.ByLabel[id]; tb != nil {
				b.Succs = append(b.Succs, tb.Index)
				tb.Preds = append(tb.Preds, b.Index)
			}
		}
	}
	// postorder DFS from the entry block (iterative)
	post := make([]int, 0, n)
	state := make([]int, n) // next successor index to visit; -1 = unvisited
	for i := range state {
		state[i] = -1
	}
	stack := []int{0}
	state[0] = 0
	for len(stack) > 0 {
		v := stack[len(stack)-1]
		b := f.Blocks[v]
		if state[v] < len(b.Succs) {
			w := b.Succs[state[v]]
			state[v]++
			if state[w] == -1 {
				state[w] = 0
				stack = append(stack, w)
			}
			continue
		}
		stack = stack[:len(stack)-1]
		post = append(post, v)
	}
	for i, v := range post {
		f.Blocks[v].Reach = true
		f.Blocks[v].RPO = len(post) - 1 - i
	}
	rpo := make([]int, len(post))
	for _, v := range post {
		rpo[f.Blocks[v].RPO] = v
	}
	f.Blocks[0].Idom = 0
	intersect := func(a, b int) int {
		for a != b {
			for f.Blocks[a].RPO > f.Blocks[b].RPO {
				a = f.Blocks[a].Idom
			}
			for f.Blocks[b].RPO > f.Blocks[a].RPO {
				b = f.Blocks[b].Idom
			}
		}
		return a
	}
	for changed := true; changed; {
		changed = false
		for _, v := range rpo[1:] {
			nd := -1
			for _, p := range f.Blocks[v].Preds {
				if !f.Blocks[p].Reach || f.Blocks[p].Idom == -1 {
					continue
				}
				if nd == -1 {
					nd = p
				} else {
					nd = intersect(p, nd)
				}
			}
			if nd != -1 && f.Blocks[v].Idom != nd {
				f.Blocks[v].Idom = nd
				changed = true
			}
		}
	}
	// number the dominator tree for O(1) dominance queries
	kids := make([][]int, n)
	for _, v := range rpo[1:] {
		d := f.Blocks[v].Idom
		kids[d] = append(kids[d], v)
	}
	clock := 0
	type frame struct{ v, i int }
	st := []frame{{0, 0}}
	f.Blocks[0].domIn = clock
	clock++
	for len(st) > 0 {
		fr := &st[len(st)-1]
		if fr.i < len(kids[fr.v]) {
			c := kids[fr.v][fr.i]
			fr.i++
			f.Blocks[c].domIn = clock
			clock++
			st = append(st, frame{c, 0})
			continue
		}
		f.Blocks[fr.v].domOut = clock
		clock++
		st = st[:len(st)-1]
	}
}

// dominates reports whether block a dominates block b (both must be reachable; a dominates itself).
func dominates(a, b *Block) bool {
	if !a.Reach || !b.Reach {
		return false
	}
	return a.domIn <= b.domIn && b.domOut <= a.domOut
}
