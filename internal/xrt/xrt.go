// Package xrt holds the small set of types shared by every interpreter
// ("monitor that executes an artefact") in /verif: byte buffers addressed by a
// resource slot, trap records, coverage counters and dispatch geometry.
package xrt

import (
	"fmt"
	"sort"
)

// Slot identifies a resource as the *target artefact* names it.
//
//	SPIR-V / naga IR : Kind "" , A = DescriptorSet/group, B = Binding
//	HLSL             : Kind "u"|"t"|"b" (register class), A = space, B = register
//	MSL              : Kind "buffer", A = 0, B = [[buffer(n)]] index
//	GLSL             : Kind "buffer"|"uniform", A = 0, B = layout(binding=n)
type Slot struct {
	Kind string
	A, B uint32
}

func (s Slot) String() string { return fmt.Sprintf("%s(%d,%d)", s.Kind, s.A, s.B) }

// Buffers maps a slot to the bytes behind it. Interpreters mutate the slices in
// place (never reallocate); a buffer's length is the binding size and decides
// arrayLength().
type Buffers map[Slot][]byte

func (b Buffers) Clone() Buffers {
	c := make(Buffers, len(b))
	for k, v := range b {
		c[k] = append([]byte(nil), v...)
	}
	return c
}

// Dispatch geometry for a compute entry point. Workgroup size comes from the
// artefact itself. NumGroups {0,0,0} means {1,1,1}.
type Dispatch struct {
	NumGroups [3]uint32
}

func (d Dispatch) Groups() [3]uint32 {
	g := d.NumGroups
	for i := range g {
		if g[i] == 0 {
			g[i] = 1
		}
	}
	return g
}

// TrapKind classifies what a trapping interpreter saw.
type TrapKind string

const (
	TrapOOB        TrapKind = "out-of-object-access" // access outside the variable/buffer object
	TrapPoison     TrapKind = "poison-read"          // read of a never-written location the language does not zero
	TrapDivZero    TrapKind = "int-div-by-zero"      // target-undefined integer division/remainder
	TrapDivOvf     TrapKind = "int-div-overflow"     // INT_MIN / -1 where undefined
	TrapShift      TrapKind = "shift-out-of-range"   // shift amount >= width where undefined
	TrapF2I        TrapKind = "float-to-int-range"   // float->int of NaN/inf/out-of-range where undefined
	TrapSignedOvf  TrapKind = "signed-overflow"      // signed integer overflow where undefined (C++/MSL)
	TrapUnreach    TrapKind = "unreachable-executed" // OpUnreachable / fell off a non-void function
	TrapReserved   TrapKind = "reserved-identifier"  // declared name is reserved in the target language
	TrapRedecl     TrapKind = "redeclaration"        // same name declared twice in a scope
	TrapUnresolved TrapKind = "unresolved-identifier"
	TrapType       TrapKind = "type-error"
	TrapOther      TrapKind = "other"
)

// Trap is a monitor report: the artefact did something its own language leaves
// undefined (or is statically ill-formed). It is a *finding about the artefact*.
type Trap struct {
	Kind   TrapKind
	Detail string // human-readable: what, where (function / line / id)
}

func (t *Trap) Error() string { return string(t.Kind) + ": " + t.Detail }

// Unsupported is returned (as error) when the interpreter meets a construct
// outside its supported subset, or exceeds its step budget: the case is
// INCONCLUSIVE, never a violation.
type Unsupported struct{ What string }

func (u *Unsupported) Error() string { return "unsupported: " + u.What }

// Coverage counts what was actually executed (opcode / builtin / statement-kind names).
type Coverage map[string]int

func (c Coverage) Add(k string) { c[k]++ }
func (c Coverage) Merge(o Coverage) {
	for k, v := range o {
		c[k] += v
	}
}
func (c Coverage) Keys() []string {
	ks := make([]string, 0, len(c))
	for k := range c {
		ks = append(ks, k)
	}
	sort.Strings(ks)
	return ks
}

// Result of one execution.
type Result struct {
	Traps []*Trap  // all traps seen (execution continues after a trap with a defined fallback where possible; first is the witness)
	Steps int      // interpreted instructions / statements
	Cov   Coverage // executed-kind counters
}

// Options common to interpreters.
type Options struct {
	Dispatch Dispatch
	MaxSteps int  // 0 => 2_000_000; exceeding returns *Unsupported{"step budget"}
	TrapMode bool // when false, target-undefined operations are evaluated with the "natural" result and not reported
}

func (o Options) StepBudget() int {
	if o.MaxSteps <= 0 {
		return 2_000_000
	}
	return o.MaxSteps
}
