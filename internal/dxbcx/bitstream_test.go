package dxbcx

import (
	"testing"
)

// Hand-built streams exercise what naga's writer never emits: DEFINE_ABBREV,
// BLOCKINFO-provided abbreviations, fixed / vbr / char6 / array / blob operands.

type abbrevSpec struct {
	literal bool
	enc     uint64
	value   uint64
}

func lit(v uint64) abbrevSpec   { return abbrevSpec{literal: true, value: v} }
func fixed(w uint64) abbrevSpec { return abbrevSpec{enc: encFixed, value: w} }
func vbrOp(w uint64) abbrevSpec { return abbrevSpec{enc: encVBR, value: w} }
func arrayOp() abbrevSpec       { return abbrevSpec{enc: encArray} }
func char6Op() abbrevSpec       { return abbrevSpec{enc: encChar6} }
func blobOp() abbrevSpec        { return abbrevSpec{enc: encBlob} }

func (w *bitWriter) defineAbbrev(width uint, ops ...abbrevSpec) {
	w.bits(abbrevDefine, width)
	w.vbr(uint64(len(ops)), 5)
	for _, op := range ops {
		if op.literal {
			w.bits(1, 1)
			w.vbr(op.value, 8)
			continue
		}
		w.bits(0, 1)
		w.bits(op.enc, 3)
		if op.enc == encFixed || op.enc == encVBR {
			w.vbr(op.value, 5)
		}
	}
}

func char6Of(ch byte) uint64 {
	for i := 0; i < len(char6Alphabet); i++ {
		if char6Alphabet[i] == ch {
			return uint64(i)
		}
	}
	panic("not char6")
}

type streamOpts struct {
	undefinedAbbrev   bool // use abbreviation id 6 in the type block
	arrayWithoutElem  bool
	badEncoding       bool
	abbrevBeforeSetBI bool
	emptySetBID       bool
	blockInBlockInfo  bool
	noOperandAbbrev   bool
	blobNotLast       bool
	codeIsArray       bool
}

// abbrevModule builds: MODULE { BLOCKINFO{abbrevs for TYPE and VST}, VERSION,
// TYPE{i32, void, void()}, FUNCTION proto, METADATA{NAME via blob, NAMED_NODE},
// VST{"f_1"} }.
func abbrevModule(o streamOpts) []byte {
	w := &bitWriter{}
	w.magic()
	mod := w.enter(2, blkModule, 3)

	bi := w.enter(3, blkBlockInfo, 2)
	if o.abbrevBeforeSetBI {
		w.defineAbbrev(2, lit(1), fixed(4))
	}
	if o.emptySetBID {
		w.unabbrev(2, blockInfoSetBID)
	}
	if o.blockInBlockInfo {
		x := w.enter(2, 99, 2)
		w.end(2, x)
	}
	w.unabbrev(2, blockInfoSetBID, blkTypeNew)
	w.defineAbbrev(2, lit(tcInteger), fixed(8)) // type block abbreviation 4
	w.unabbrev(2, blockInfoSetBID, blkValueSymtab)
	w.defineAbbrev(2, fixed(3), vbrOp(8), arrayOp(), char6Op()) // VST abbreviation 4
	w.end(2, bi)

	w.unabbrev(3, modVersion, 1)

	tb := w.enter(3, blkTypeNew, 4)
	w.unabbrev(4, tcNumEntry, 3)
	w.bits(4, 4) // BLOCKINFO abbreviation: INTEGER, fixed(8) width
	w.bits(32, 8)
	switch {
	case o.arrayWithoutElem:
		w.defineAbbrev(4, lit(tcVoid), arrayOp())
	case o.badEncoding:
		w.defineAbbrev(4, lit(tcVoid), abbrevSpec{enc: 7})
	case o.noOperandAbbrev:
		w.defineAbbrev(4)
	case o.blobNotLast:
		w.defineAbbrev(4, lit(tcVoid), blobOp(), fixed(1))
	case o.codeIsArray:
		w.defineAbbrev(4, arrayOp(), fixed(1))
	default:
		w.defineAbbrev(4, lit(tcVoid)) // local abbreviation 5
	}
	if o.undefinedAbbrev {
		w.bits(6, 4)
	} else if o.arrayWithoutElem || o.badEncoding || o.noOperandAbbrev || o.blobNotLast || o.codeIsArray {
		w.unabbrev(4, tcVoid) // do not use the broken abbreviation
	} else {
		w.bits(5, 4)
	}
	w.unabbrev(4, tcFunction, 0, 1)
	w.end(4, tb)

	w.unabbrev(3, modFunction, 2, 0, 1, 0, 0, 0, 0, 0)

	mb := w.enter(3, blkMetadata, 3)
	w.defineAbbrev(3, lit(mdcName), blobOp()) // local abbreviation 4
	w.bits(4, 3)
	name := "dx.version"
	w.vbr(uint64(len(name)), 6)
	w.align32()
	for i := 0; i < len(name); i++ {
		w.bits(uint64(name[i]), 8)
	}
	w.align32()
	w.unabbrev(3, mdcNamedNode)
	w.end(3, mb)

	vb := w.enter(3, blkValueSymtab, 4)
	w.bits(4, 4) // BLOCKINFO abbreviation: [fixed3 code, vbr8 id, array char6]
	w.bits(vstEntry, 3)
	w.vbr(0, 8)
	w.vbr(3, 6)
	for _, ch := range []byte("f_1") {
		w.bits(char6Of(ch), 6)
	}
	w.end(4, vb)

	w.end(3, mod)
	return w.out
}

func checkBitcode(bc []byte) Report {
	rep := Report{Fired: map[string]int{}, ShaderKind: -1}
	c := &checker{rep: &rep, exp: noExpect(), primary: true}
	c.bitcodeModule(bc)
	return rep
}

func TestAbbreviations(t *testing.T) {
	bc := abbrevModule(streamOpts{})
	rep := checkBitcode(bc)
	mustClean(t, "abbreviated module", rep)
	if rep.NumTypes != 3 || rep.NumFunctions != 1 {
		t.Errorf("types %d functions %d", rep.NumTypes, rep.NumFunctions)
	}
	if rep.Fired["B4"] == 0 || rep.Fired["B5"] == 0 || rep.Fired["M6"] == 0 {
		t.Errorf("B4/B5/M6 not evaluated: %v", rep.Fired)
	}

	// Inspect the decoded records.
	c := &checker{rep: &Report{Fired: map[string]int{}}}
	top, ok := c.parseBitstream(bc)
	if !ok || len(top) != 1 {
		t.Fatal("parse failed")
	}
	tb := subBlocks(top[0], blkTypeNew)[0]
	if r := records(tb, tcInteger); len(r) != 1 || len(r[0].ops) != 1 || r[0].ops[0] != 32 || r[0].abbrev != 4 {
		t.Errorf("INTEGER record via BLOCKINFO abbreviation: %+v", r)
	}
	if r := records(tb, tcVoid); len(r) != 1 || len(r[0].ops) != 0 || r[0].abbrev != 5 {
		t.Errorf("VOID record via local abbreviation: %+v", r)
	}
	mb := subBlocks(top[0], blkMetadata)[0]
	if r := records(mb, mdcName); len(r) != 1 || opsString(r[0].ops, 0) != "dx.version" {
		t.Errorf("blob record: %+v", r)
	}
	vb := subBlocks(top[0], blkValueSymtab)[0]
	if r := records(vb, vstEntry); len(r) != 1 || r[0].ops[0] != 0 || opsString(r[0].ops, 1) != "f_1" {
		t.Errorf("char6 array record: %+v", r)
	}

	for name, tc := range map[string]struct {
		o    streamOpts
		rule string
	}{
		"undefined abbreviation id":   {streamOpts{undefinedAbbrev: true}, "B4"},
		"array without element":       {streamOpts{arrayWithoutElem: true}, "B4"},
		"unknown encoding":            {streamOpts{badEncoding: true}, "B4"},
		"abbreviation without ops":    {streamOpts{noOperandAbbrev: true}, "B4"},
		"blob not last":               {streamOpts{blobNotLast: true}, "B4"},
		"code operand is an array":    {streamOpts{codeIsArray: true}, "B4"},
		"DEFINE_ABBREV before SETBID": {streamOpts{abbrevBeforeSetBI: true}, "B5"},
		"SETBID without operand":      {streamOpts{emptySetBID: true}, "B5"},
		"block inside BLOCKINFO":      {streamOpts{blockInBlockInfo: true}, "B5"},
	} {
		rep := checkBitcode(abbrevModule(tc.o))
		mustFire(t, name, rep, tc.rule)
	}
}

func TestBitReader(t *testing.T) {
	w := &bitWriter{}
	w.bits(5, 3)
	w.vbr(27, 4)
	w.vbr(0xFFFFFFFFFFFFFFFF, 6)
	w.bits(0x123456789ABCDEF0, 64)
	w.vbr(0, 2)
	w.vbr(1<<40+3, 32)
	w.align32()
	r := bitReader{data: w.out, nbits: uint64(len(w.out)) * 8}
	if v, ok := r.read(3); !ok || v != 5 {
		t.Fatalf("fixed3 = %d", v)
	}
	if v, ok, ovf := r.vbr(4); !ok || ovf || v != 27 {
		t.Fatalf("vbr4 = %d", v)
	}
	if v, ok, ovf := r.vbr(6); !ok || ovf || v != 0xFFFFFFFFFFFFFFFF {
		t.Fatalf("vbr6 max = %#x ovf=%v", v, ovf)
	}
	if v, ok := r.read(64); !ok || v != 0x123456789ABCDEF0 {
		t.Fatalf("fixed64 = %#x", v)
	}
	if v, ok, _ := r.vbr(2); !ok || v != 0 {
		t.Fatalf("vbr2 = %d", v)
	}
	if v, ok, ovf := r.vbr(32); !ok || ovf || v != 1<<40+3 {
		t.Fatalf("vbr32 = %#x", v)
	}
	if !r.align32() || r.pos != r.nbits {
		t.Fatalf("align: pos %d of %d", r.pos, r.nbits)
	}
	if _, ok := r.read(1); ok {
		t.Fatal("read past the end succeeded")
	}
	// A value needing more than 64 bits is reported as overflow.
	w = &bitWriter{}
	for i := 0; i < 13; i++ {
		w.bits(0x3F, 6) // continuation + all ones
	}
	w.bits(0x1F, 6)
	w.align32()
	r = bitReader{data: w.out, nbits: uint64(len(w.out)) * 8}
	if _, ok, ovf := r.vbr(6); !ok || !ovf {
		t.Fatalf("70-bit vbr: ok=%v overflow=%v", ok, ovf)
	}
}

// TestForwardReferences: a forward reference is legal when it is eventually
// defined, carries its type through getValueTypePair, and matches that type.
func TestForwardReferences(t *testing.T) {
	base := compileNamed(t, computeSrc, "main", 0)
	// Find "binop a, b" directly followed by something, and rewrite the first
	// BINOP's lhs into a forward reference to its own result's successor... the
	// simplest legal forward reference is to the instruction's own result:
	// relative id 0 with an explicit type (dead code may do that in LLVM).
	b := mutateModule(t, base, func(m *bsBlock) {
		f := subBlocks(m, blkFunction)[0]
		bin := records(f, fcBinop)[0]
		// [lhs, rhs, opcode] -> [0 (=self, forward), i32 type id, rhs, opcode]
		i32 := uint64(0)
		for i, r := range typeRecords(subBlocks(m, blkTypeNew)[0]) {
			if r.code == tcInteger && r.ops[0] == 32 {
				i32 = uint64(i)
			}
		}
		bin.ops = []uint64{0, i32, bin.ops[1], bin.ops[2]}
	})
	rep := Check(b, noExpect())
	mustClean(t, "typed forward reference to a defined value", rep)

	// Same forward reference with a wrong type.
	b = mutateModule(t, base, func(m *bsBlock) {
		f := subBlocks(m, blkFunction)[0]
		bin := records(f, fcBinop)[0]
		i1 := uint64(0)
		for i, r := range typeRecords(subBlocks(m, blkTypeNew)[0]) {
			if r.code == tcInteger && r.ops[0] == 1 {
				i1 = uint64(i)
			}
		}
		bin.ops = []uint64{0, i1, bin.ops[1], bin.ops[2]}
	})
	mustFire(t, "forward reference with the wrong type", Check(b, noExpect()), "F3")

	// Forward reference without the type operand.
	b = mutateModule(t, base, func(m *bsBlock) {
		f := subBlocks(m, blkFunction)[0]
		bin := records(f, fcBinop)[0]
		bin.ops[0] = 0
	})
	mustFire(t, "forward reference without type", Check(b, noExpect()), "F3")
}

// typeRecords lists the records of a type block that define a type id, in id
// order.
func typeRecords(tb *bsBlock) []*bsRecord {
	var out []*bsRecord
	for _, it := range tb.items {
		if it.rec == nil || it.rec.code == tcNumEntry || it.rec.code == tcStructName {
			continue
		}
		out = append(out, it.rec)
	}
	return out
}
