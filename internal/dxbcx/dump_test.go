package dxbcx

import (
	"fmt"
	"os"
	"strings"
	"testing"

	"github.com/gogpu/naga/dxil"
)

// dumpBitcode renders the raw block/record tree of the DXIL part. It is a
// debugging aid for reviewing calibration findings:
//
//	DXBCX_DUMP=shader:entry:minor go test -run TestDump ./internal/dxbcx/
func dumpBitcode(bin []byte) string {
	rep := Report{Fired: map[string]int{}}
	c := &checker{rep: &rep, exp: noExpect()}
	parts, ok := c.container(bin)
	if !ok {
		return "container unreadable"
	}
	var sb strings.Builder
	for _, p := range parts {
		fmt.Fprintf(&sb, "part %s off %d size %d\n", p.fourcc, p.off, len(p.body))
		if p.fourcc == "ISG1" || p.fourcc == "OSG1" || p.fourcc == "PSG1" || p.fourcc == "PSV0" {
			fmt.Fprintf(&sb, "  % x\n", p.body)
		}
		if p.fourcc != "DXIL" {
			continue
		}
		_, bc, ok := c.programHeader(p.body)
		if !ok {
			continue
		}
		top, _ := c.parseBitstream(bc)
		for _, b := range top {
			dumpBlock(&sb, b, 0)
		}
	}
	return sb.String()
}

func dumpBlock(sb *strings.Builder, b *bsBlock, depth int) {
	ind := strings.Repeat("  ", depth)
	fmt.Fprintf(sb, "%sBLOCK id=%d width=%d bit=%d len=%d\n", ind, b.id, b.abbrevWidth, b.startBit, b.lenWords)
	n := 0
	for _, it := range b.items {
		if it.blk != nil {
			dumpBlock(sb, it.blk, depth+1)
			continue
		}
		name := ""
		if b.id == blkFunction {
			name = knownFuncCodes[it.rec.code]
		}
		ops := fmt.Sprint(it.rec.ops)
		if (b.id == blkMetadata || b.id == blkValueSymtab || b.id == blkTypeNew && it.rec.code == tcStructName) && len(it.rec.ops) > 0 {
			switch it.rec.code {
			case mdcString, mdcName:
				ops = fmt.Sprintf("%q", opsString(it.rec.ops, 0))
			case mdcKind:
				ops = fmt.Sprintf("%d %q", it.rec.ops[0], opsString(it.rec.ops, 1))
			}
			if b.id == blkTypeNew {
				ops = fmt.Sprintf("%q", opsString(it.rec.ops, 0))
			}
		}
		fmt.Fprintf(sb, "%s  #%d rec code=%d %s %s\n", ind, n, it.rec.code, name, ops)
		n++
	}
}

func TestDump(t *testing.T) {
	spec := os.Getenv("DXBCX_DUMP")
	if spec == "" {
		t.Skip("set DXBCX_DUMP=shader:entry:minor")
	}
	f := strings.Split(spec, ":")
	if len(f) != 3 {
		t.Fatal("want shader:entry:minor")
	}
	m := lowerCorpus(corpusDir + "/" + f[0] + ".wgsl")
	if m == nil {
		t.Fatal("shader does not lower")
	}
	for j := range m.EntryPoints {
		if m.EntryPoints[j].Name != f[1] {
			continue
		}
		opts := dxil.DefaultOptions()
		opts.ShaderModel = dxil.ShaderModel{Major: 6, Minor: uint32(f[2][0] - '0')}
		bin, err := compileEP(m, j, opts)
		if err != nil {
			t.Fatal(err)
		}
		if os.Getenv("DXBCX_TRACE") != "" {
			traceInst = func(s string) { t.Log(s) }
			defer func() { traceInst = nil }()
		}
		rep := Check(bin, noExpect())
		for _, fd := range rep.Findings {
			t.Logf("%s: %s", fd.Rule, fd.Detail)
		}
		t.Logf("unsupported=%q counts: types %d globals %d funcs %d md %d insts %d", rep.Unsupported, rep.NumTypes, rep.NumGlobals, rep.NumFunctions, rep.NumMetadataNodes, rep.NumInstructions)
		if out := os.Getenv("DXBCX_DUMP_OUT"); out != "" {
			os.WriteFile(out, []byte(dumpBitcode(bin)), 0o644)
		} else {
			t.Log("\n" + dumpBitcode(bin))
		}
		return
	}
	t.Fatalf("entry point %q not found", f[1])
}
