package dxbcx

// DxilProgramHeader (24 bytes):
//
//	u32 ProgramVersion   (kind << 16) | (major << 4) | minor
//	u32 SizeInUint32     size of the whole part payload in dwords
//	DxilBitcodeHeader:
//	  u32 DxilMagic      0x4C495844 "DXIL"
//	  u32 DxilVersion    (major << 8) | minor
//	  u32 BitcodeOffset  from the start of DxilBitcodeHeader (normally 16)
//	  u32 BitcodeSize    in bytes
type programHeader struct {
	kind, major, minor uint32
}

const dxilMagic = 0x4C495844

// programHeader evaluates D1 on a part payload that starts with a
// DxilProgramHeader and returns the bitcode bytes.
func (c *checker) programHeader(body []byte) (programHeader, []byte, bool) {
	var h programHeader
	if !c.check("D1", len(body) >= 24, "program part of %d bytes is shorter than DxilProgramHeader (24)", len(body)) {
		return h, nil, false
	}
	ver := le32(body, 0)
	h.kind = ver >> 16
	h.major = (ver >> 4) & 0xF
	h.minor = ver & 0xF
	c.check("D1", (ver>>8)&0xFF == 0, "ProgramVersion %#x has bits 8..15 set", ver)
	c.check("D1", h.kind <= 15, "ProgramVersion %#x: shader kind %d out of range", ver, h.kind)
	c.check("D1", h.major == 6, "ProgramVersion %#x: shader model major %d, DXIL needs 6", ver, h.major)
	words := le32(body, 4)
	c.check("D1", uint64(words)*4 == uint64(len(body)), "SizeInUint32 %d (= %d bytes) != part size %d", words, uint64(words)*4, len(body))
	ok := c.check("D1", le32(body, 8) == dxilMagic, "DxilMagic %#x, want %#x", le32(body, 8), uint32(dxilMagic))
	dv := le32(body, 12)
	c.check("D1", dv>>8 == 1, "DxilVersion %#x: major %d, want 1", dv, dv>>8)
	off := uint64(le32(body, 16))
	size := uint64(le32(body, 20))
	c.fire("D1")
	start := 8 + off
	switch {
	case off < 16:
		c.find("D1", "BitcodeOffset %d points inside DxilBitcodeHeader (16 bytes)", off)
		ok = false
	case start+size > uint64(len(body)):
		c.find("D1", "bitcode [%d, %d) runs past the part end %d", start, start+size, len(body))
		ok = false
	case uint64(len(body))-(start+size) >= 4:
		c.find("D1", "bitcode ends at %d but the part has %d bytes (more than alignment padding left over)", start+size, len(body))
	}
	if !ok {
		return h, nil, false
	}
	return h, body[start : start+size], true
}

// expectProgram evaluates D2.
func (c *checker) expectProgram(h programHeader) {
	if c.exp.ShaderKind >= 0 {
		c.check("D2", int(h.kind) == c.exp.ShaderKind, "program header shader kind %d, expected %d", h.kind, c.exp.ShaderKind)
	}
	if c.exp.ShaderModel != [2]int{} {
		c.check("D2", int(h.major) == c.exp.ShaderModel[0] && int(h.minor) == c.exp.ShaderModel[1],
			"program header shader model %d.%d, expected %d.%d", h.major, h.minor, c.exp.ShaderModel[0], c.exp.ShaderModel[1])
	}
}
