package dxbcx

// PSV0 layout (DxilPipelineStateValidation.h, ReadOrWrite):
//
//	u32 PSVRuntimeInfo_size, then that many bytes of PSVRuntimeInfoN
//	    v0 24: 16-byte stage union, u32 MinWaveLanes, u32 MaxWaveLanes
//	    v1 36: + u8 ShaderStage, u8 UsesViewID, 2-byte union
//	             (GS u16 MaxVertexCount | HS/DS u8 SigPatchConstOrPrimVectors |
//	              MS {u8 SigPrimVectors, u8 MeshOutputTopology}),
//	             u8 SigInputElements, SigOutputElements,
//	             SigPatchConstOrPrimElements, u8 SigInputVectors,
//	             u8 SigOutputVectors[4]
//	    v2 48: + u32 NumThreadsX,Y,Z
//	    v3 52: + u32 EntryFunctionName (string table offset)
//	u32 ResourceCount; if > 0: u32 PSVResourceBindInfo_size, records
//	    BindInfo0 16: u32 ResType, Space, LowerBound, UpperBound
//	    BindInfo1 24: + u32 ResKind, ResFlags
//	if v1+:
//	  u32 StringTableSize (dword aligned) + bytes
//	  u32 SemanticIndexTableEntries + dwords
//	  if any Sig*Elements: u32 PSVSignatureElement_size (>= 16), elements in
//	      input, output, patch-const/prim order
//	  if UsesViewID: per stream with SigOutputVectors[i]: MaskDwords(out) dwords;
//	      if (HS or MS) and PCOrPrimVectors: MaskDwords(pc) dwords
//	  per stream with SigInputVectors and SigOutputVectors[i]:
//	      MaskDwords(out)*in*4 dwords
//	  if HS and pc and in: MaskDwords(pc)*in*4 dwords
//	  if DS and out[0] and pc: MaskDwords(out[0])*pc*4 dwords
//
// MaskDwords(v) = (v+7)>>3.

func psvMaskDwords(v uint64) uint64 { return (v + 7) >> 3 }

func psvIOTableDwords(in, out uint64) uint64 { return psvMaskDwords(out) * in * 4 }

type psvCursor struct {
	b   []byte
	pos uint64
}

func (p *psvCursor) u32() (uint32, bool) {
	if p.pos+4 > uint64(len(p.b)) {
		return 0, false
	}
	v := le32(p.b, int(p.pos))
	p.pos += 4
	return v, true
}

func (p *psvCursor) skip(n uint64) bool {
	if p.pos+n > uint64(len(p.b)) || p.pos+n < p.pos {
		return false
	}
	p.pos += n
	return true
}

func (c *checker) psv(body []byte, inCount, outCount, pcCount int) {
	cur := &psvCursor{b: body}
	c.fire("P1")
	rtiSize, ok := cur.u32()
	if !ok {
		c.find("P1", "PSV0 part of %d bytes has no runtime-info size", len(body))
		return
	}
	switch {
	case rtiSize == 24, rtiSize == 36, rtiSize == 48, rtiSize == 52:
	case rtiSize > 52 && rtiSize%4 == 0:
		// A later PSVRuntimeInfo version; readers treat it as v3 plus unknown tail.
	default:
		c.find("P1", "runtime-info size %d is not one of 24/36/48/52", rtiSize)
		if rtiSize < 24 {
			return
		}
	}
	rtiStart := cur.pos
	if !cur.skip(uint64(rtiSize)) {
		c.find("P1", "runtime info of %d bytes does not fit in the %d-byte part", rtiSize, len(body))
		return
	}
	rti := body[rtiStart : rtiStart+uint64(rtiSize)]
	version := 0
	switch {
	case rtiSize >= 52:
		version = 3
	case rtiSize >= 48:
		version = 2
	case rtiSize >= 36:
		version = 1
	}

	// Resources.
	c.fire("P1")
	resCount, ok := cur.u32()
	if !ok {
		c.find("P1", "resource count runs past the part end")
		return
	}
	if resCount > 0 {
		stride, ok := cur.u32()
		if !ok {
			c.find("P1", "resource bind-info size runs past the part end")
			return
		}
		if stride < 16 || stride%4 != 0 {
			c.find("P1", "resource bind-info size %d (want 16 or 24)", stride)
			return
		}
		if version >= 2 && stride < 24 {
			c.find("P1", "runtime info v%d but resource bind-info size %d < 24 (PSVResourceBindInfo1)", version, stride)
		}
		recStart := cur.pos
		if !cur.skip(uint64(resCount) * uint64(stride)) {
			c.find("P1", "%d resource records of %d bytes run past the part end", resCount, stride)
			return
		}
		for i := uint64(0); i < uint64(resCount); i++ {
			r := body[recStart+i*uint64(stride):]
			ty, space, lo, hi := le32(r, 0), le32(r, 4), le32(r, 8), le32(r, 12)
			c.fire("P3")
			if ty > 9 {
				c.find("P3", "resource %d: PSVResourceType %d > 9", i, ty)
			}
			if lo > hi {
				c.find("P3", "resource %d (type %d space %d): LowerBound %d > UpperBound %d", i, ty, space, lo, hi)
			}
			if stride >= 24 {
				if kind := le32(r, 16); kind > 18 {
					c.find("P3", "resource %d: PSVResourceKind %d > 18", i, kind)
				}
			}
		}
	}

	if version == 0 {
		c.check("P1", cur.pos == uint64(len(body)), "v0 PSV0 consumed %d of %d bytes", cur.pos, len(body))
		return
	}

	stage := uint64(rti[24])
	usesViewID := rti[25] != 0
	pcVectors := uint64(rti[26])
	sigIn, sigOut, sigPC := uint64(rti[28]), uint64(rti[29]), uint64(rti[30])
	inVectors := uint64(rti[31])
	outVectors := [4]uint64{uint64(rti[32]), uint64(rti[33]), uint64(rti[34]), uint64(rti[35])}

	if c.rep.ShaderKind >= 0 {
		c.check("P2", int(stage) == c.rep.ShaderKind, "PSV0 ShaderStage %d != program header shader kind %d", stage, c.rep.ShaderKind)
	}

	// String table.
	c.fire("P1")
	strSize, ok := cur.u32()
	if !ok {
		c.find("P1", "string table size runs past the part end")
		return
	}
	if strSize%4 != 0 {
		c.find("P1", "string table size %d is not a multiple of 4", strSize)
	}
	strStart := cur.pos
	if !cur.skip(uint64(strSize)) {
		c.find("P1", "string table of %d bytes runs past the part end", strSize)
		return
	}
	strTab := body[strStart : strStart+uint64(strSize)]

	// Semantic index table.
	c.fire("P1")
	idxCount, ok := cur.u32()
	if !ok {
		c.find("P1", "semantic index table count runs past the part end")
		return
	}
	if !cur.skip(uint64(idxCount) * 4) {
		c.find("P1", "semantic index table of %d entries runs past the part end", idxCount)
		return
	}

	if version >= 3 {
		// EntryFunctionName is a string table offset.
		name := uint64(le32(rti, 48))
		c.fire("P2")
		if _, ok := cstringAt(strTab, name); !ok && !(name == 0 && strSize == 0) {
			c.find("P2", "EntryFunctionName offset %d is not a string inside the %d-byte string table", name, strSize)
		}
	}

	// Signature elements.
	rows := [3]uint64{}
	if sigIn+sigOut+sigPC > 0 {
		c.fire("P1")
		elemSize, ok := cur.u32()
		if !ok {
			c.find("P1", "signature element size runs past the part end")
			return
		}
		if elemSize < 16 || elemSize%4 != 0 {
			c.find("P1", "PSVSignatureElement size %d (want 16)", elemSize)
			return
		}
		elemStart := cur.pos
		if !cur.skip((sigIn + sigOut + sigPC) * uint64(elemSize)) {
			c.find("P1", "%d+%d+%d signature elements of %d bytes run past the part end", sigIn, sigOut, sigPC, elemSize)
			return
		}
		names := [3]string{"input", "output", "patch-const/prim"}
		n := uint64(0)
		for group, cnt := range [3]uint64{sigIn, sigOut, sigPC} {
			for i := uint64(0); i < cnt; i++ {
				e := body[elemStart+n*uint64(elemSize):]
				n++
				nameOff, idxOff, r := uint64(le32(e, 0)), uint64(le32(e, 4)), uint64(e[8])
				rows[group] += r
				c.fire("P2")
				if _, ok := cstringAt(strTab, nameOff); !ok {
					c.find("P2", "PSV %s element %d: SemanticName offset %d is not a string inside the %d-byte string table", names[group], i, nameOff, strSize)
				}
				need := r
				if need == 0 {
					need = 1
				}
				if idxOff+need > uint64(idxCount) {
					c.find("P2", "PSV %s element %d: SemanticIndexes offset %d (+%d rows) outside the %d-entry index table", names[group], i, idxOff, r, idxCount)
				}
			}
		}
	}

	// PSV element count vs container signature: one signature entry per
	// semantic index, i.e. per element row.
	cmp := func(what string, psvCount, psvRows uint64, sig int) {
		if sig < 0 {
			return
		}
		c.fire("P2")
		if psvCount > uint64(sig) || psvRows != uint64(sig) {
			c.find("P2", "PSV0 has %d %s signature elements (%d rows) but the container signature has %d entries", psvCount, what, psvRows, sig)
		}
	}
	cmp("input", sigIn, rows[0], inCount)
	cmp("output", sigOut, rows[1], outCount)
	if pcCount >= 0 || sigPC > 0 {
		pc := pcCount
		if pc < 0 {
			pc = 0
		}
		cmp("patch-const/prim", sigPC, rows[2], pc)
	}

	// Dependency tables.
	const (
		kindHull   = 3
		kindDomain = 4
		kindMesh   = 13
	)
	var dep uint64
	if usesViewID {
		for _, ov := range outVectors {
			if ov != 0 {
				dep += psvMaskDwords(ov)
			}
		}
		if (stage == kindHull || stage == kindMesh) && pcVectors != 0 {
			dep += psvMaskDwords(pcVectors)
		}
	}
	for _, ov := range outVectors {
		if inVectors != 0 && ov != 0 {
			dep += psvIOTableDwords(inVectors, ov)
		}
	}
	if stage == kindHull && pcVectors != 0 && inVectors != 0 {
		dep += psvIOTableDwords(inVectors, pcVectors)
	}
	if stage == kindDomain && outVectors[0] != 0 && pcVectors != 0 {
		dep += psvIOTableDwords(pcVectors, outVectors[0])
	}
	c.fire("P1")
	if !cur.skip(dep * 4) {
		c.find("P1", "dependency tables need %d bytes at offset %d, part has %d bytes", dep*4, cur.pos, len(body))
		return
	}
	c.check("P1", cur.pos == uint64(len(body)), "PSV0 layout consumes %d bytes but the part has %d", cur.pos, len(body))
}
