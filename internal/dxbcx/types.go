package dxbcx

// LLVM type table model. Type ids below modCtx.numEntry come from the
// TYPE_BLOCK_ID_NEW records; ids at or above it are synthetic (derived pointer /
// vector / i1 types the module never spelled out but instructions produce).

type tyKind uint8

const (
	tkInvalid tyKind = iota // slot never filled
	tkVoid
	tkHalf
	tkFloat
	tkDouble
	tkX86FP80
	tkFP128
	tkPPCFP128
	tkLabel
	tkMetadata
	tkX86MMX
	tkInt
	tkPtr
	tkArray
	tkVector
	tkStruct
	tkOpaque
	tkFunc
)

type typ struct {
	kind   tyKind
	bits   uint64 // integer width
	elem   int    // pointer / array / vector element
	n      uint64 // array / vector length
	addr   uint64 // pointer address space
	fields []int  // struct
	named  bool   // identified struct (compared by identity)
	name   string
	vararg bool
	ret    int
	params []int
}

const noType = -1

func (m *modCtx) ty(id int) *typ {
	if id < 0 || id >= len(m.types) {
		return nil
	}
	return &m.types[id]
}

func (m *modCtx) kindOf(id int) tyKind {
	if t := m.ty(id); t != nil {
		return t.kind
	}
	return tkInvalid
}

func isFPKind(k tyKind) bool { return k >= tkHalf && k <= tkPPCFP128 }

func fpBits(k tyKind) uint64 {
	switch k {
	case tkHalf:
		return 16
	case tkFloat:
		return 32
	case tkDouble:
		return 64
	case tkX86FP80:
		return 80
	case tkFP128, tkPPCFP128:
		return 128
	}
	return 0
}

// scalar returns the element type of a vector, or id itself.
func (m *modCtx) scalar(id int) int {
	if t := m.ty(id); t != nil && t.kind == tkVector {
		return t.elem
	}
	return id
}

func (m *modCtx) isIntOrIntVec(id int) bool { return m.kindOf(m.scalar(id)) == tkInt }
func (m *modCtx) isFPOrFPVec(id int) bool   { return isFPKind(m.kindOf(m.scalar(id))) }
func (m *modCtx) isPtrOrPtrVec(id int) bool { return m.kindOf(m.scalar(id)) == tkPtr }

// vecLen is the vector length, 0 for non-vectors.
func (m *modCtx) vecLen(id int) uint64 {
	if t := m.ty(id); t != nil && t.kind == tkVector {
		return t.n
	}
	return 0
}

// sameType is LLVM type identity: structural for everything but identified
// structs (and opaque types), which are compared by table slot.
func (m *modCtx) sameType(a, b int) bool {
	return m.sameTypeDepth(a, b, 0)
}

func (m *modCtx) sameTypeDepth(a, b, depth int) bool {
	if a == b {
		return true
	}
	ta, tb := m.ty(a), m.ty(b)
	if ta == nil || tb == nil || ta.kind != tb.kind || depth > 64 {
		return false
	}
	switch ta.kind {
	case tkInt:
		return ta.bits == tb.bits
	case tkPtr:
		return ta.addr == tb.addr && m.sameTypeDepth(ta.elem, tb.elem, depth+1)
	case tkArray, tkVector:
		return ta.n == tb.n && m.sameTypeDepth(ta.elem, tb.elem, depth+1)
	case tkStruct:
		if ta.named || tb.named || len(ta.fields) != len(tb.fields) {
			return false
		}
		for i := range ta.fields {
			if !m.sameTypeDepth(ta.fields[i], tb.fields[i], depth+1) {
				return false
			}
		}
		return true
	case tkOpaque, tkInvalid:
		return false
	case tkFunc:
		if ta.vararg != tb.vararg || len(ta.params) != len(tb.params) || !m.sameTypeDepth(ta.ret, tb.ret, depth+1) {
			return false
		}
		for i := range ta.params {
			if !m.sameTypeDepth(ta.params[i], tb.params[i], depth+1) {
				return false
			}
		}
		return true
	}
	return true // void, fp kinds, label, metadata, mmx
}

type derivedKey struct {
	kind tyKind
	elem int
	n    uint64
}

// findOrAdd returns the id of a type structurally equal to t, appending a
// synthetic one when the table has none. Only used after the type table is
// complete, for int / pointer / vector / anonymous struct types.
func (m *modCtx) findOrAdd(t typ) int {
	key := derivedKey{t.kind, t.elem, t.n + t.addr + t.bits}
	cacheable := t.kind == tkInt || t.kind == tkPtr || t.kind == tkVector
	if cacheable {
		if id, ok := m.derived[key]; ok {
			return id
		}
	}
	id := m.findOrAddSlow(t)
	if cacheable {
		m.derived[key] = id
	}
	return id
}

func (m *modCtx) findOrAddSlow(t typ) int {
	probe := len(m.types)
	m.types = append(m.types, t)
	for i := 0; i < probe; i++ {
		if m.types[i].kind == t.kind && m.sameTypeDepth(i, probe, 1) {
			m.types = m.types[:probe]
			return i
		}
	}
	return probe
}

func (m *modCtx) ptrTo(elem int, addr uint64) int {
	if elem < 0 {
		return noType
	}
	return m.findOrAdd(typ{kind: tkPtr, elem: elem, addr: addr})
}

func (m *modCtx) intType(bits uint64) int { return m.findOrAdd(typ{kind: tkInt, bits: bits}) }

func (m *modCtx) vectorOf(n uint64, elem int) int {
	if elem < 0 {
		return noType
	}
	return m.findOrAdd(typ{kind: tkVector, n: n, elem: elem})
}

// cmpResult is i1 or <n x i1> matching operand type op.
func (m *modCtx) cmpResult(op int) int {
	if op < 0 {
		return noType
	}
	i1 := m.intType(1)
	if n := m.vecLen(op); n > 0 {
		return m.vectorOf(n, i1)
	}
	return i1
}

func (m *modCtx) typeString(id int) string { return m.typeStringDepth(id, 0) }

func (m *modCtx) typeStringDepth(id, depth int) string {
	t := m.ty(id)
	if t == nil {
		return "?"
	}
	if depth > 4 {
		return "..."
	}
	switch t.kind {
	case tkVoid:
		return "void"
	case tkHalf:
		return "half"
	case tkFloat:
		return "float"
	case tkDouble:
		return "double"
	case tkX86FP80, tkFP128, tkPPCFP128:
		return "fp" + utoa(fpBits(t.kind))
	case tkLabel:
		return "label"
	case tkMetadata:
		return "metadata"
	case tkX86MMX:
		return "x86_mmx"
	case tkInt:
		return "i" + utoa(t.bits)
	case tkPtr:
		s := m.typeStringDepth(t.elem, depth+1)
		if t.addr != 0 {
			s += " addrspace(" + utoa(t.addr) + ")"
		}
		return s + "*"
	case tkArray:
		return "[" + utoa(t.n) + " x " + m.typeStringDepth(t.elem, depth+1) + "]"
	case tkVector:
		return "<" + utoa(t.n) + " x " + m.typeStringDepth(t.elem, depth+1) + ">"
	case tkStruct:
		if t.named {
			return "%" + t.name
		}
		s := "{"
		for i, f := range t.fields {
			if i > 0 {
				s += ", "
			}
			s += m.typeStringDepth(f, depth+1)
		}
		return s + "}"
	case tkOpaque:
		return "opaque %" + t.name
	case tkFunc:
		s := m.typeStringDepth(t.ret, depth+1) + " ("
		for i, p := range t.params {
			if i > 0 {
				s += ", "
			}
			s += m.typeStringDepth(p, depth+1)
		}
		if t.vararg {
			s += ", ..."
		}
		return s + ")"
	}
	return "<unset type #" + utoa(uint64(id)) + ">"
}

func utoa(v uint64) string {
	if v == 0 {
		return "0"
	}
	var b [20]byte
	i := len(b)
	for v > 0 {
		i--
		b[i] = byte('0' + v%10)
		v /= 10
	}
	return string(b[i:])
}
