package dxbcx

import (
	"encoding/binary"
	"testing"

	"github.com/gogpu/naga"
	"github.com/gogpu/naga/dxil"
	"github.com/gogpu/naga/ir"
)

// ---- test-side bit writer (independent of the reader under test) ----

type bitWriter struct {
	out  []byte
	cur  uint64
	nbit uint
}

func (w *bitWriter) bits(v uint64, n uint) {
	for n > 0 {
		take := 32 - w.nbit
		if take > n {
			take = n
		}
		w.cur |= (v & (1<<take - 1)) << w.nbit
		w.nbit += take
		v >>= take
		n -= take
		if w.nbit == 32 {
			w.flush()
		}
	}
}

func (w *bitWriter) flush() {
	var b [4]byte
	binary.LittleEndian.PutUint32(b[:], uint32(w.cur))
	w.out = append(w.out, b[:]...)
	w.cur, w.nbit = 0, 0
}

func (w *bitWriter) vbr(v uint64, n uint) {
	hi := uint64(1) << (n - 1)
	for v >= hi {
		w.bits(v&(hi-1)|hi, n)
		v >>= n - 1
	}
	w.bits(v, n)
}

func (w *bitWriter) align32() {
	if w.nbit > 0 {
		w.flush()
	}
}

func (w *bitWriter) magic() {
	w.bits('B', 8)
	w.bits('C', 8)
	w.bits(0xC0, 8)
	w.bits(0xDE, 8)
}

// enter writes ENTER_SUBBLOCK and returns the offset of the length word.
func (w *bitWriter) enter(outerWidth uint, id, width uint64) int {
	w.bits(abbrevEnterSubblock, outerWidth)
	w.vbr(id, 8)
	w.vbr(width, 4)
	w.align32()
	at := len(w.out)
	w.out = append(w.out, 0, 0, 0, 0)
	return at
}

func (w *bitWriter) end(width uint, lenAt int) {
	w.bits(abbrevEndBlock, width)
	w.align32()
	binary.LittleEndian.PutUint32(w.out[lenAt:], uint32((len(w.out)-lenAt-4)/4))
}

func (w *bitWriter) unabbrev(width uint, code uint64, ops ...uint64) {
	w.bits(abbrevUnabbrev, width)
	w.vbr(code, 6)
	w.vbr(uint64(len(ops)), 6)
	for _, op := range ops {
		w.vbr(op, 6)
	}
}

// writeTree re-serialises a parsed block tree with unabbreviated records only.
func writeTree(t testing.TB, top []*bsBlock) []byte {
	w := &bitWriter{}
	w.magic()
	for _, b := range top {
		writeBlock(t, w, b, 2)
	}
	w.align32()
	return w.out
}

func writeBlock(t testing.TB, w *bitWriter, b *bsBlock, outer uint) {
	at := w.enter(outer, uint64(b.id), uint64(b.abbrevWidth))
	for _, it := range b.items {
		if it.blk != nil {
			writeBlock(t, w, it.blk, uint(b.abbrevWidth))
			continue
		}
		if it.rec.abbrev != abbrevUnabbrev {
			t.Fatalf("writeTree: record at bit %d uses abbreviation %d", it.rec.bit, it.rec.abbrev)
		}
		w.unabbrev(uint(b.abbrevWidth), uint64(it.rec.code), it.rec.ops...)
	}
	w.end(uint(b.abbrevWidth), at)
}

// ---- container helpers ----

type rawPart struct {
	fourcc string
	body   []byte
}

func splitContainer(t testing.TB, bin []byte) []rawPart {
	rep := Report{Fired: map[string]int{}}
	c := &checker{rep: &rep}
	parts, ok := c.container(bin)
	if !ok || len(rep.Findings) > 0 {
		t.Fatalf("splitContainer: %v", rep.Findings)
	}
	var out []rawPart
	for _, p := range parts {
		out = append(out, rawPart{p.fourcc, append([]byte(nil), p.body...)})
	}
	return out
}

// programPart wraps bitcode in a DxilProgramHeader, keeping the version words
// of the old part.
func programPart(old, bitcode []byte) []byte {
	body := make([]byte, 24+len(bitcode))
	copy(body, old[:24])
	binary.LittleEndian.PutUint32(body[4:], uint32(len(body)/4))
	binary.LittleEndian.PutUint32(body[16:], 16)
	binary.LittleEndian.PutUint32(body[20:], uint32(len(bitcode)))
	copy(body[24:], bitcode)
	return body
}

// buildContainer assembles parts into a signed container (HASH part and
// container digest recomputed).
func buildContainer(parts []rawPart) []byte {
	var bitcode []byte
	for _, p := range parts {
		if p.fourcc == "DXIL" && len(p.body) >= 24 {
			off := 8 + int(binary.LittleEndian.Uint32(p.body[16:]))
			n := int(binary.LittleEndian.Uint32(p.body[20:]))
			if off+n <= len(p.body) {
				bitcode = p.body[off : off+n]
			}
		}
	}
	size := 32 + 4*len(parts)
	for _, p := range parts {
		size += 8 + len(p.body)
	}
	out := make([]byte, size)
	copy(out, "DXBC")
	binary.LittleEndian.PutUint16(out[20:], 1)
	binary.LittleEndian.PutUint32(out[24:], uint32(size))
	binary.LittleEndian.PutUint32(out[28:], uint32(len(parts)))
	pos := 32 + 4*len(parts)
	for i, p := range parts {
		binary.LittleEndian.PutUint32(out[32+4*i:], uint32(pos))
		copy(out[pos:], p.fourcc)
		binary.LittleEndian.PutUint32(out[pos+4:], uint32(len(p.body)))
		body := p.body
		if p.fourcc == "HASH" && len(body) == 20 && bitcode != nil {
			body = make([]byte, 20)
			d := md5Sum(bitcode)
			copy(body[4:], d[:])
		}
		copy(out[pos+8:], body)
		pos += 8 + len(p.body)
	}
	resign(out)
	return out
}

func resign(bin []byte) {
	d := dxbcChecksum(bin[20:])
	copy(bin[4:20], d[:])
}

// mutateModule parses the DXIL part's bitcode, lets f edit the block tree, and
// returns a re-assembled, re-signed container. STAT gets the same bitcode.
func mutateModule(t testing.TB, bin []byte, f func(mod *bsBlock)) []byte {
	parts := splitContainer(t, bin)
	var newBC []byte
	for i := range parts {
		if parts[i].fourcc != "DXIL" {
			continue
		}
		rep := Report{Fired: map[string]int{}}
		c := &checker{rep: &rep}
		_, bc, ok := c.programHeader(parts[i].body)
		if !ok {
			t.Fatal("mutateModule: bad program header")
		}
		top, ok := c.parseBitstream(bc)
		if !ok || len(top) != 1 {
			t.Fatalf("mutateModule: bitstream: %v", rep.Findings)
		}
		f(top[0])
		newBC = writeTree(t, top)
		parts[i].body = programPart(parts[i].body, newBC)
	}
	for i := range parts {
		if parts[i].fourcc == "STAT" {
			parts[i].body = programPart(parts[i].body, newBC)
		}
	}
	return buildContainer(parts)
}

func subBlocks(b *bsBlock, id uint32) []*bsBlock {
	var out []*bsBlock
	for _, it := range b.items {
		if it.blk != nil && it.blk.id == id {
			out = append(out, it.blk)
		}
	}
	return out
}

func records(b *bsBlock, code uint32) []*bsRecord {
	var out []*bsRecord
	for _, it := range b.items {
		if it.rec != nil && it.rec.code == code {
			out = append(out, it.rec)
		}
	}
	return out
}

// ---- naga front end for inline sources ----

const computeSrc = `
@group(0) @binding(0) var<storage, read_write> buf: array<u32>;
var<workgroup> tile: array<u32, 64>;

@compute @workgroup_size(64)
fn main(@builtin(global_invocation_id) gid: vec3<u32>, @builtin(local_invocation_index) li: u32) {
    let i = gid.x;
    tile[li] = i;
    workgroupBarrier();
    var acc = 0u;
    for (var k = 0u; k < 4u; k = k + 1u) {
        acc = acc + tile[(li + k) % 64u];
    }
    var sel = 1u;
    if (i > 7u) { sel = 2u; } else { sel = 3u; }
    let f = f32(i) * 0.5;
    if (i < arrayLength(&buf)) {
        buf[i] = buf[i] * 2u + acc + sel + u32(f);
    }
}
`

const renderSrc = `
struct VOut {
    @builtin(position) pos: vec4<f32>,
    @location(0) uv: vec2<f32>,
    @location(1) tint: vec3<f32>,
}

@group(0) @binding(0) var<uniform> scale: vec4<f32>;

@vertex
fn vs(@location(0) p: vec2<f32>, @location(1) uv: vec2<f32>, @builtin(vertex_index) vi: u32) -> VOut {
    var o: VOut;
    o.pos = vec4<f32>(p * scale.xy, 0.0, 1.0);
    o.uv = uv;
    o.tint = vec3<f32>(f32(vi), scale.z, scale.w);
    return o;
}

@fragment
fn fs(in: VOut) -> @location(0) vec4<f32> {
    return vec4<f32>(in.uv, in.tint.x, 1.0);
}
`

func lowerSrc(t testing.TB, src string) *ir.Module {
	ast, err := naga.Parse(src)
	if err != nil {
		t.Fatalf("parse: %v", err)
	}
	m, err := naga.LowerWithSource(ast, src)
	if err != nil {
		t.Fatalf("lower: %v", err)
	}
	return m
}

func compileNamed(t testing.TB, src, entry string, minor int) []byte {
	m := lowerSrc(t, src)
	for j := range m.EntryPoints {
		if m.EntryPoints[j].Name == entry {
			opts := dxil.DefaultOptions()
			opts.ShaderModel = dxil.ShaderModel{Major: 6, Minor: uint32(minor)}
			bin, err := compileEP(m, j, opts)
			if err != nil {
				t.Fatalf("dxil.Compile(%s): %v", entry, err)
			}
			return bin
		}
	}
	t.Fatalf("entry point %q not found", entry)
	return nil
}

func hasRule(rep Report, rule string) bool {
	for _, f := range rep.Findings {
		if f.Rule == rule {
			return true
		}
	}
	return false
}

func mustClean(t testing.TB, what string, rep Report) {
	t.Helper()
	for _, f := range rep.Findings {
		t.Errorf("%s: unexpected finding %s: %s", what, f.Rule, f.Detail)
	}
	if rep.Unsupported != "" {
		t.Errorf("%s: unexpected Unsupported: %s", what, rep.Unsupported)
	}
}

func mustFire(t testing.TB, what string, rep Report, rule string) {
	t.Helper()
	if !hasRule(rep, rule) {
		t.Errorf("%s: rule %s did not fire; findings: %v", what, rule, rep.Findings)
	}
	if hasRule(rep, "INTERNAL") {
		t.Errorf("%s: INTERNAL finding: %v", what, rep.Findings)
	}
}
