package dxbcx

import (
	"encoding/binary"
	"testing"
)

func put32(b []byte, off int, v uint32) { binary.LittleEndian.PutUint32(b[off:], v) }

func partOffset(t testing.TB, bin []byte, fourcc string) int {
	count := int(le32(bin, 28))
	for i := 0; i < count; i++ {
		off := int(le32(bin, 32+4*i))
		if string(bin[off:off+4]) == fourcc {
			return off
		}
	}
	t.Fatalf("part %s not found", fourcc)
	return 0
}

func clone(b []byte) []byte { return append([]byte(nil), b...) }

// TestBaselinesClean: the inline shaders used by the negative tests produce no
// finding, for every stage and SM 6.0 / 6.6, with and without expectations.
func TestBaselinesClean(t *testing.T) {
	for _, minor := range []int{0, 6} {
		cs := compileNamed(t, computeSrc, "main", minor)
		rep := Check(cs, Expect{ShaderKind: 5, ShaderModel: [2]int{6, minor}, NumInputElems: 0, NumOutputElems: 0})
		mustClean(t, "compute", rep)
		if rep.ShaderKind != 5 || rep.NumFunctions == 0 || rep.NumInstructions == 0 || rep.NumTypes == 0 || rep.NumGlobals == 0 || rep.NumMetadataNodes == 0 {
			t.Errorf("compute counters: %+v", rep)
		}
		vs := compileNamed(t, renderSrc, "vs", minor)
		rep = Check(vs, Expect{ShaderKind: 1, ShaderModel: [2]int{6, minor}, NumInputElems: 3, NumOutputElems: 3})
		mustClean(t, "vertex", rep)
		if rep.InputSigElements != 3 || rep.OutputSigElements != 3 {
			t.Errorf("vertex signature counts %d/%d", rep.InputSigElements, rep.OutputSigElements)
		}
		fs := compileNamed(t, renderSrc, "fs", minor)
		rep = Check(fs, Expect{ShaderKind: 0, ShaderModel: [2]int{6, minor}, NumInputElems: 3, NumOutputElems: 1})
		mustClean(t, "fragment", rep)
		want := []string{"SFI0", "ISG1", "OSG1", "PSV0", "STAT", "HASH", "DXIL"}
		if len(rep.Parts) != len(want) {
			t.Errorf("parts %v", rep.Parts)
		}
	}
}

func TestNegativeContainer(t *testing.T) {
	base := compileNamed(t, renderSrc, "vs", 0)
	mustClean(t, "base", Check(base, noExpect()))

	t.Run("magic", func(t *testing.T) {
		b := clone(base)
		b[0] = 'X'
		mustFire(t, "magic", Check(b, noExpect()), "X1")
		mustFire(t, "empty", Check(nil, noExpect()), "X1")
	})
	t.Run("total size", func(t *testing.T) {
		b := clone(base)
		put32(b, 24, le32(b, 24)+4)
		resign(b)
		mustFire(t, "size+4", Check(b, noExpect()), "X2")
	})
	t.Run("version", func(t *testing.T) {
		b := clone(base)
		b[20] = 2
		resign(b)
		mustFire(t, "version", Check(b, noExpect()), "X2")
	})
	t.Run("part count", func(t *testing.T) {
		b := clone(base)
		put32(b, 28, 0x10000000)
		resign(b)
		mustFire(t, "count", Check(b, noExpect()), "X2")
	})
	t.Run("part offset shifted", func(t *testing.T) {
		for i := 0; i < int(le32(base, 28)); i++ {
			b := clone(base)
			put32(b, 32+4*i, le32(b, 32+4*i)+4)
			resign(b)
			// The shifted header reads the old size field as fourcc; whether X3
			// can see it depends on the garbage size, X6 always does.
			if rep := Check(b, noExpect()); !hasRule(rep, "X3") && !hasRule(rep, "X6") {
				t.Errorf("part %d offset+4: neither X3 nor X6 fired: %v", i, rep.Findings)
			}
			b = clone(base)
			put32(b, 32+4*i, le32(b, 32+4*i)+2)
			resign(b)
			mustFire(t, "offset+2", Check(b, noExpect()), "X3")
		}
	})
	t.Run("part size", func(t *testing.T) {
		b := clone(base)
		off := partOffset(t, b, "DXIL")
		put32(b, off+4, le32(b, off+4)+8)
		resign(b)
		mustFire(t, "DXIL size+8", Check(b, noExpect()), "X3")
	})
	t.Run("truncate", func(t *testing.T) {
		for _, n := range []int{1, 4, 100, len(base) / 2, len(base) - 40, len(base) - 10} {
			rep := Check(base[:len(base)-n], noExpect())
			if !hasRule(rep, "X2") && !hasRule(rep, "X3") {
				t.Errorf("truncated by %d: no X2/X3 finding: %v", n, rep.Findings)
			}
			if hasRule(rep, "INTERNAL") {
				t.Errorf("truncated by %d: %v", n, rep.Findings)
			}
		}
	})
	t.Run("digest", func(t *testing.T) {
		b := clone(base)
		b[7] ^= 1
		mustFire(t, "digest bit", Check(b, noExpect()), "X4")
		b = clone(base)
		b[len(b)-1] ^= 0x80
		rep := Check(b, noExpect())
		mustFire(t, "payload bit", rep, "X4")
		for _, v := range []byte{0, 1, 2} {
			b = clone(base)
			for i := 4; i < 20; i++ {
				b[i] = v
			}
			mustFire(t, "sentinel without permission", Check(b, noExpect()), "X4")
			e := noExpect()
			e.AllowZeroHash = true
			mustClean(t, "sentinel with permission", Check(b, e))
		}
		b = clone(base)
		for i := 4; i < 20; i++ {
			b[i] = 3
		}
		e := noExpect()
		e.AllowZeroHash = true
		mustFire(t, "0x03 is not a sentinel", Check(b, e), "X4")
	})
	t.Run("hash part", func(t *testing.T) {
		b := clone(base)
		off := partOffset(t, b, "HASH")
		b[off+8+4] ^= 1
		resign(b)
		rep := Check(b, noExpect())
		mustFire(t, "HASH digest", rep, "X5")
		if hasRule(rep, "X4") {
			t.Error("X4 fired although the container was re-signed")
		}
		// With IncludesSource the digest cannot be recomputed: no finding.
		b = clone(base)
		put32(b, off+8, 1)
		b[off+8+4] ^= 1
		resign(b)
		mustClean(t, "HASH flags=1", Check(b, noExpect()))
		// Wrong size.
		parts := splitContainer(t, base)
		for i := range parts {
			if parts[i].fourcc == "HASH" {
				parts[i].body = make([]byte, 24)
			}
		}
		mustFire(t, "HASH size", Check(buildContainer(parts), noExpect()), "X5")
	})
	t.Run("parts present", func(t *testing.T) {
		for _, drop := range []string{"ISG1", "OSG1", "PSV0", "DXIL"} {
			var parts []rawPart
			for _, p := range splitContainer(t, base) {
				if p.fourcc != drop {
					parts = append(parts, p)
				}
			}
			mustFire(t, "missing "+drop, Check(buildContainer(parts), noExpect()), "X6")
		}
		parts := splitContainer(t, base)
		parts = append(parts, parts[1])
		mustFire(t, "duplicate", Check(buildContainer(parts), noExpect()), "X6")
		// SFI0 and HASH are optional.
		parts = nil
		for _, p := range splitContainer(t, base) {
			if p.fourcc != "SFI0" && p.fourcc != "HASH" && p.fourcc != "STAT" {
				parts = append(parts, p)
			}
		}
		mustClean(t, "without optional parts", Check(buildContainer(parts), noExpect()))
	})
}

func TestNegativeSignature(t *testing.T) {
	base := compileNamed(t, renderSrc, "vs", 0)
	isg := partOffset(t, base, "ISG1") + 8
	osg := partOffset(t, base, "OSG1") + 8
	elem := func(sig, i int) int { return sig + 8 + 32*i }
	mut := func(name, rule string, f func(b []byte)) {
		t.Helper()
		b := clone(base)
		f(b)
		resign(b)
		mustFire(t, name, Check(b, noExpect()), rule)
	}
	mut("name offset past part", "S1", func(b []byte) { put32(b, elem(isg, 0)+4, 4000) })
	mut("name offset into table", "S1", func(b []byte) { put32(b, elem(isg, 1)+4, 12) })
	mut("name unterminated", "S1", func(b []byte) {
		size := int(le32(b, isg-4))
		for i := isg + 8 + 3*32; i < isg+size; i++ {
			if b[i] == 0 {
				b[i] = 'x'
			}
		}
	})
	mut("param offset", "S1", func(b []byte) { put32(b, isg+4, 12) })
	mut("count too large", "S1", func(b []byte) { put32(b, isg, 40) })
	mut("system value", "S1", func(b []byte) { put32(b, elem(osg, 0)+12, 20) })
	mut("system value vs name", "S1", func(b []byte) {
		for i := 0; i < int(le32(b, osg)); i++ {
			if le32(b, elem(osg, i)+12) == 1 { // SV_Position
				put32(b, elem(osg, i)+12, 7)
				return
			}
		}
		t.Fatal("no SV_Position output")
	})
	mut("comp type", "S1", func(b []byte) { put32(b, elem(isg, 0)+16, 10) })
	mut("register", "S1", func(b []byte) { put32(b, elem(isg, 0)+20, 32) })
	mut("mask", "S1", func(b []byte) { b[elem(isg, 0)+24] = 0x13 })
	mut("always-reads outside mask", "S1", func(b []byte) { b[elem(isg, 0)+24] = 0x3; b[elem(isg, 0)+25] = 0x4 })
	mut("never-writes inside mask", "S1", func(b []byte) { b[elem(osg, 0)+25] = 0x1 })
	mut("stream", "S1", func(b []byte) { put32(b, elem(isg, 0), 4) })
	mut("min precision", "S1", func(b []byte) { put32(b, elem(isg, 0)+28, 9) })
	mut("overlap", "S1", func(b []byte) { put32(b, elem(isg, 1)+20, le32(b, elem(isg, 0)+20)) })

	rep := Check(base, Expect{ShaderKind: -1, NumInputElems: 2, NumOutputElems: -1})
	mustFire(t, "input count", rep, "S2")
	rep = Check(base, Expect{ShaderKind: -1, NumInputElems: -1, NumOutputElems: 4})
	mustFire(t, "output count", rep, "S2")

	// Register 0xFFFFFFFF is the "not allocated" marker and never overlaps.
	b := clone(base)
	put32(b, elem(isg, 0)+20, 0xFFFFFFFF)
	put32(b, elem(isg, 1)+20, 0xFFFFFFFF)
	resign(b)
	if rep := Check(b, noExpect()); hasRule(rep, "S1") {
		t.Errorf("unallocated registers flagged: %v", rep.Findings)
	}
}

func TestNegativePSV(t *testing.T) {
	base := compileNamed(t, renderSrc, "vs", 0)
	psv := partOffset(t, base, "PSV0") + 8
	rti := psv + 4
	mut := func(name, rule string, f func(b []byte)) {
		t.Helper()
		b := clone(base)
		f(b)
		resign(b)
		mustFire(t, name, Check(b, noExpect()), rule)
	}
	mut("runtime info size", "P1", func(b []byte) { put32(b, psv, 40) })
	mut("runtime info size huge", "P1", func(b []byte) { put32(b, psv, 4000) })
	mut("sig input count +1", "P1", func(b []byte) { b[rti+28]++ })
	mut("sig input count -1", "P1", func(b []byte) { b[rti+28]-- })
	mut("sig output count", "P1", func(b []byte) { b[rti+29] += 2 })
	mut("input vectors", "P1", func(b []byte) { b[rti+31]++ })
	mut("output vectors", "P1", func(b []byte) { b[rti+32] += 8 })
	mut("uses view id without tables", "P1", func(b []byte) { b[rti+25] = 1 })
	mut("resource count", "P1", func(b []byte) { put32(b, rti+52, le32(b, rti+52)+1) })
	mut("stage", "P2", func(b []byte) { b[rti+24] = 0 })
	mut("entry name", "P2", func(b []byte) { put32(b, rti+48, 4000) })

	// Resource records: count at rti+52, stride at +56, records from +60.
	if le32(base, rti+52) == 0 {
		t.Fatal("vertex baseline has no PSV resource")
	}
	rec := rti + 60
	mut("resource type", "P3", func(b []byte) { put32(b, rec, 10) })
	mut("resource bounds", "P3", func(b []byte) { put32(b, rec+8, 5); put32(b, rec+12, 4) })
	mut("resource kind", "P3", func(b []byte) { put32(b, rec+16, 19) })
	mut("bind info stride", "P1", func(b []byte) { put32(b, rti+56, 16) })

	// Element tables: locate the first PSV signature element through the layout.
	stride := int(le32(base, rti+56))
	pos := rec + int(le32(base, rti+52))*stride
	strSize := int(le32(base, pos))
	pos += 4 + strSize
	idxCount := int(le32(base, pos))
	pos += 4 + 4*idxCount
	if le32(base, pos) != 16 {
		t.Fatalf("element size field %d", le32(base, pos))
	}
	first := pos + 4
	mut("string table size", "P1", func(b []byte) { put32(b, rec+int(le32(b, rti+52))*stride, uint32(strSize+2)) })
	mut("element size", "P1", func(b []byte) { put32(b, pos, 12) })
	mut("element name offset", "P2", func(b []byte) { put32(b, first, uint32(strSize)) })
	mut("element index offset", "P2", func(b []byte) { put32(b, first+4, uint32(idxCount)) })
	mut("element rows", "P2", func(b []byte) { b[first+8] = 0 })

	// Consistent with itself but not with ISG1: drop one ISG1 element.
	parts := splitContainer(t, base)
	for i := range parts {
		if parts[i].fourcc == "ISG1" {
			body := clone(parts[i].body)
			put32(body, 0, le32(body, 0)-1)
			parts[i].body = body
		}
	}
	mustFire(t, "PSV vs ISG1 count", Check(buildContainer(parts), noExpect()), "P2")
}

func TestNegativeProgramHeader(t *testing.T) {
	base := compileNamed(t, computeSrc, "main", 2)
	dx := partOffset(t, base, "DXIL") + 8
	mut := func(name, rule string, f func(b []byte)) {
		t.Helper()
		b := clone(base)
		f(b)
		resign(b)
		mustFire(t, name, Check(b, noExpect()), rule)
	}
	mut("dword size", "D1", func(b []byte) { put32(b, dx+4, le32(b, dx+4)+1) })
	mut("magic", "D1", func(b []byte) { put32(b, dx+8, 0x4C495845) })
	mut("dxil major", "D1", func(b []byte) { put32(b, dx+12, 0x200) })
	mut("bitcode offset", "D1", func(b []byte) { put32(b, dx+16, 12) })
	mut("bitcode size too big", "D1", func(b []byte) { put32(b, dx+20, le32(b, dx+20)+4) })
	mut("bitcode size too small", "D1", func(b []byte) { put32(b, dx+20, le32(b, dx+20)-8) })
	mut("shader model major", "D1", func(b []byte) { put32(b, dx, 5<<16|5<<4|0) })
	mut("reserved bits", "D1", func(b []byte) { put32(b, dx, le32(b, dx)|0x100) })
	mut("kind", "D1", func(b []byte) { put32(b, dx, 16<<16|6<<4) })

	rep := Check(base, Expect{ShaderKind: 1, NumInputElems: -1, NumOutputElems: -1})
	mustFire(t, "kind expectation", rep, "D2")
	rep = Check(base, Expect{ShaderKind: -1, ShaderModel: [2]int{6, 0}, NumInputElems: -1, NumOutputElems: -1})
	mustFire(t, "SM expectation", rep, "D2")
	rep = Check(base, Expect{ShaderKind: 5, ShaderModel: [2]int{6, 2}, NumInputElems: -1, NumOutputElems: -1})
	mustClean(t, "matching expectation", rep)
	if rep.Fired["D2"] != 2 {
		t.Errorf("D2 fired %d times", rep.Fired["D2"])
	}
	// A pixel-kind expectation must be expressible: ShaderKind 0 is checked.
	rep = Check(base, Expect{ShaderKind: 0, NumInputElems: -1, NumOutputElems: -1})
	mustFire(t, "kind 0 expectation", rep, "D2")
}

func TestNegativeBitstream(t *testing.T) {
	base := compileNamed(t, computeSrc, "main", 0)
	parts := splitContainer(t, base)
	var dxil []byte
	for _, p := range parts {
		if p.fourcc == "DXIL" {
			dxil = p.body
		}
	}
	withBitcode := func(bc []byte) []byte {
		ps := splitContainer(t, base)
		for i := range ps {
			if ps[i].fourcc == "DXIL" || ps[i].fourcc == "STAT" {
				ps[i].body = programPart(dxil, bc)
			}
		}
		return buildContainer(ps)
	}
	bc := clone(dxil[24:])

	// Round trip: re-serialising the parsed tree reproduces the bytes.
	same := mutateModule(t, base, func(*bsBlock) {})
	if string(same) != string(base) {
		t.Fatal("parse + re-serialise + re-sign does not reproduce naga's container")
	}

	t.Run("magic", func(t *testing.T) {
		b := clone(bc)
		b[2] = 0xC1
		mustFire(t, "magic", Check(withBitcode(b), noExpect()), "B1")
	})
	t.Run("abbrev width", func(t *testing.T) {
		// Bits 32..: ENTER_SUBBLOCK(2 bits) blockid vbr8 newabbrevlen vbr4.
		get := func(b []byte) uint32 { return le32(b, 4) >> 10 & 0xF }
		if get(bc) != 3 {
			t.Fatalf("module block abbrev width field is %d", get(bc))
		}
		for _, w := range []uint32{0, 2, 4} {
			b := clone(bc)
			put32(b, 4, le32(b, 4)&^(0xF<<10)|w<<10)
			rep := Check(withBitcode(b), noExpect())
			if w == 0 {
				mustFire(t, "width 0", rep, "B2")
				continue
			}
			// A different width makes every following abbreviation id misread.
			if len(rep.Findings) == 0 || hasRule(rep, "INTERNAL") {
				t.Errorf("width %d: findings %v", w, rep.Findings)
			}
			for _, f := range rep.Findings {
				if f.Rule[0] != 'B' {
					t.Errorf("width %d: non-bitstream finding after a bitstream error: %v", w, f)
				}
			}
		}
	})
	t.Run("block length", func(t *testing.T) {
		b := clone(bc)
		put32(b, 8, le32(b, 8)+1)
		mustFire(t, "module length word", Check(withBitcode(b), noExpect()), "B2")
	})
	t.Run("cut END_BLOCK", func(t *testing.T) {
		mustFire(t, "last dword removed", Check(withBitcode(bc[:len(bc)-4]), noExpect()), "B3")
	})
	t.Run("trailing data", func(t *testing.T) {
		mustFire(t, "zero dword appended", Check(withBitcode(append(clone(bc), 0, 0, 0, 0)), noExpect()), "B3")
		mustFire(t, "garbage appended", Check(withBitcode(append(clone(bc), 1, 2, 3, 4)), noExpect()), "B3")
	})
	t.Run("unaligned size", func(t *testing.T) {
		ps := splitContainer(t, base)
		for i := range ps {
			if ps[i].fourcc == "DXIL" {
				body := clone(ps[i].body)
				put32(body, 20, le32(body, 20)-1)
				ps[i].body = body
			}
		}
		mustFire(t, "bitcode size - 1", Check(buildContainer(ps), noExpect()), "B1")
	})
	t.Run("numops", func(t *testing.T) {
		// First record of the module block: UNABBREV_RECORD code=1 numops=1 at
		// bit 96: 3 bits id, 6 bits code, 6 bits numops.
		b := clone(bc)
		v := le32(b, 12)
		if v&7 != 3 || v>>3&0x3F != 1 || v>>9&0x3F != 1 {
			t.Fatalf("unexpected first record %#x", v)
		}
		// numops := vbr6 0b111111 continuation chunks forever
		put32(b, 12, v|0x3F<<9)
		for i := 16; i < 40; i++ {
			b[i] = 0xFF
		}
		mustFire(t, "numops", Check(withBitcode(b), noExpect()), "B6")
	})
	t.Run("two module blocks", func(t *testing.T) {
		b := append(clone(bc), bc[4:]...)
		mustFire(t, "two modules", Check(withBitcode(b), noExpect()), "M1")
	})
}

func TestNegativeModule(t *testing.T) {
	base := compileNamed(t, computeSrc, "main", 0)
	mustClean(t, "base", Check(base, noExpect()))
	mut := func(name, rule string, f func(mod *bsBlock)) {
		t.Helper()
		b := mutateModule(t, base, f)
		rep := Check(b, noExpect())
		mustFire(t, name, rep, rule)
		for _, fd := range rep.Findings {
			if fd.Rule[0] == 'X' || fd.Rule[0] == 'B' || fd.Rule[0] == 'D' {
				t.Errorf("%s: container-level finding after a module-level mutation: %v", name, fd)
			}
		}
	}
	fn := func(mod *bsBlock) *bsBlock { return subBlocks(mod, blkFunction)[0] }

	mut("version", "M1", func(m *bsBlock) { records(m, modVersion)[0].ops[0] = 2 })
	mut("numentry", "M2", func(m *bsBlock) { records(subBlocks(m, blkTypeNew)[0], tcNumEntry)[0].ops[0]++ })
	mut("pointer to missing type", "M2", func(m *bsBlock) { records(subBlocks(m, blkTypeNew)[0], tcPointer)[0].ops[0] = 500 })
	mut("forward type ref", "M2", func(m *bsBlock) {
		tb := subBlocks(m, blkTypeNew)[0]
		n := records(tb, tcNumEntry)[0].ops[0]
		records(tb, tcPointer)[0].ops[0] = n - 1 // the metadata type, defined last
	})
	mut("vector of length 0", "M2", func(m *bsBlock) {
		tb := subBlocks(m, blkTypeNew)[0]
		arr := records(tb, tcArray)
		if len(arr) == 0 {
			t.Fatal("no array type")
		}
		arr[0].code = tcVector
		arr[0].ops[0] = 0
	})
	mut("function type id", "M3", func(m *bsBlock) { records(m, modFunction)[0].ops[0] = 400 })
	mut("function not a function type", "M3", func(m *bsBlock) { records(m, modFunction)[1].ops[0] = 0 })
	mut("function paramattr", "M3", func(m *bsBlock) { records(m, modFunction)[1].ops[4] = 9 })
	mut("function linkage", "M3", func(m *bsBlock) { records(m, modFunction)[0].ops[3] = 20 })
	mut("global type id", "M3", func(m *bsBlock) { records(m, modGlobalVar)[0].ops[0] = 400 })
	mut("global alignment", "M3", func(m *bsBlock) { records(m, modGlobalVar)[0].ops[4] = 31 })
	mut("global section", "M3", func(m *bsBlock) { records(m, modGlobalVar)[0].ops[5] = 1 })
	mut("global initialiser", "M3", func(m *bsBlock) { records(m, modGlobalVar)[0].ops[2] = 5000 })
	mut("attribute group", "M3", func(m *bsBlock) { records(subBlocks(m, blkParamAttr)[0], paramAttrEntry)[0].ops[0] = 9 })
	mut("attribute kind", "M3", func(m *bsBlock) { records(subBlocks(m, blkParamAttrGroup)[0], paramAttrGrpEntry)[0].ops[3] = 60 })
	mut("settype", "M4", func(m *bsBlock) { records(subBlocks(m, blkConstants)[0], cstSetType)[0].ops[0] = 400 })
	mut("integer under float type", "M4", func(m *bsBlock) {
		cb := subBlocks(m, blkConstants)[0]
		// Retype the first SETTYPE to the void type: the INTEGER after it is wrong.
		records(cb, cstSetType)[0].ops[0] = 0
	})
	mut("metadata node operand", "M5", func(m *bsBlock) {
		nodes := records(subBlocks(m, blkMetadata)[0], mdcNode)
		nodes[len(nodes)-1].ops[0] = 5000
	})
	mut("metadata value id", "M5", func(m *bsBlock) {
		records(subBlocks(m, blkMetadata)[0], mdcValue)[0].ops[1] = 5000
	})
	mut("metadata value type", "M5", func(m *bsBlock) {
		records(subBlocks(m, blkMetadata)[0], mdcValue)[0].ops[0] = 0
	})
	mut("named node operand", "M5", func(m *bsBlock) {
		records(subBlocks(m, blkMetadata)[0], mdcNamedNode)[0].ops[0] = 0 // !0 is a string
	})
	mut("named node without name", "M5", func(m *bsBlock) {
		mb := subBlocks(m, blkMetadata)[0]
		for i, it := range mb.items {
			if it.rec != nil && it.rec.code == mdcName {
				mb.items = append(mb.items[:i:i], mb.items[i+1:]...)
				break
			}
		}
	})
	mut("metadata kind twice", "M5", func(m *bsBlock) {
		kb := subBlocks(m, blkMetadata)[1]
		kb.items[1].rec.ops[0] = kb.items[0].rec.ops[0]
	})
	mut("symtab value id", "M6", func(m *bsBlock) { records(subBlocks(m, blkValueSymtab)[0], vstEntry)[0].ops[0] = 5000 })
	mut("symtab duplicate name", "M6", func(m *bsBlock) {
		es := records(subBlocks(m, blkValueSymtab)[0], vstEntry)
		es[1].ops = append([]uint64{es[1].ops[0]}, es[0].ops[1:]...)
	})
	mut("symtab bbentry at module level", "M6", func(m *bsBlock) { records(subBlocks(m, blkValueSymtab)[0], vstEntry)[0].code = vstBBEntry })

	mut("body without definition", "F1", func(m *bsBlock) {
		for _, r := range records(m, modFunction) {
			r.ops[2] = 1 // every function becomes a prototype
		}
	})
	mut("definition without body", "F1", func(m *bsBlock) {
		for i, it := range m.items {
			if it.blk != nil && it.blk.id == blkFunction {
				m.items = append(m.items[:i:i], m.items[i+1:]...)
				break
			}
		}
	})
	mut("declareblocks + 1", "F2", func(m *bsBlock) { records(fn(m), fcDeclareBlocks)[0].ops[0]++ })
	mut("declareblocks - 1", "F2", func(m *bsBlock) { records(fn(m), fcDeclareBlocks)[0].ops[0]-- })
	mut("declareblocks 0", "F2", func(m *bsBlock) { records(fn(m), fcDeclareBlocks)[0].ops[0] = 0 })
	mut("declareblocks missing", "F2", func(m *bsBlock) { f := fn(m); f.items = f.items[1:] })
	mut("dangling instruction", "F2", func(m *bsBlock) {
		f := fn(m)
		f.items = append(f.items, bsItem{rec: &bsRecord{code: fcUnreachable, abbrev: abbrevUnabbrev}})
	})
	mut("last terminator removed", "F2", func(m *bsBlock) { f := fn(m); f.items = f.items[:len(f.items)-1] })

	mut("operand beyond range", "F3", func(m *bsBlock) {
		// A relative id larger than the current value number wraps to a value
		// that is never defined.
		records(fn(m), fcBinop)[0].ops[0] = 100000
	})
	mut("operand is itself plus one", "F3", func(m *bsBlock) {
		bs := records(fn(m), fcBinop)
		bs[len(bs)-1].ops[1] = 0xFFFFFFFF - 5000 + 1 // relative -5000: far forward
	})
	mut("branch target", "F3", func(m *bsBlock) { records(fn(m), fcBr)[0].ops[0] = 1000 })
	mut("call argument count", "F3", func(m *bsBlock) { c := records(fn(m), fcCall)[0]; c.ops = c.ops[:len(c.ops)-1] })
	mut("call extra argument", "F3", func(m *bsBlock) { c := records(fn(m), fcCall)[0]; c.ops = append(c.ops, 1) })
	mut("call explicit type", "F3", func(m *bsBlock) { records(fn(m), fcCall)[0].ops[2] = 0 })
	mut("call callee not a function", "F3", func(m *bsBlock) { c := records(fn(m), fcCall)[0]; c.ops[3] = 1 })
	mut("binop opcode", "F3", func(m *bsBlock) { records(fn(m), fcBinop)[0].ops[2] = 13 })
	mut("cmp predicate", "F3", func(m *bsBlock) { records(fn(m), fcCmp2)[0].ops[2] = 50 })
	mut("cast opcode", "F3", func(m *bsBlock) { records(fn(m), fcCast)[0].ops[2] = 13 })
	mut("cast kind", "F3", func(m *bsBlock) { records(fn(m), fcCast)[0].ops[2] = 0 }) // trunc i32 -> float
	mut("cast type", "F3", func(m *bsBlock) { records(fn(m), fcCast)[0].ops[1] = 400 })
	mut("phi type", "F3", func(m *bsBlock) { records(fn(m), fcPhi)[0].ops[0] = 400 })
	mut("phi block", "F3", func(m *bsBlock) { records(fn(m), fcPhi)[0].ops[2] = 77 })
	mut("gep type", "F3", func(m *bsBlock) { records(fn(m), fcGEP)[0].ops[1] = 400 })
	mut("load alignment", "F3", func(m *bsBlock) { records(fn(m), fcLoad)[0].ops[2] = 40 })
	mut("store truncated", "F3", func(m *bsBlock) { s := records(fn(m), fcStore)[0]; s.ops = s.ops[:3] })
	mut("ret with value in void function", "F3", func(m *bsBlock) { records(fn(m), fcRet)[0].ops = []uint64{1} })

	// F4: an unknown function code makes the case inconclusive, not a violation.
	b := mutateModule(t, base, func(m *bsBlock) { records(fn(m), fcBinop)[0].code = 48 })
	rep := Check(b, noExpect())
	if rep.Unsupported == "" {
		t.Error("unknown function record code did not set Unsupported")
	}
	for _, fd := range rep.Findings {
		t.Errorf("unknown function code produced a finding: %v", fd)
	}
	for _, code := range []uint32{14, 17, 18, 21, 22, 25, 32, 48, 60} {
		if _, ok := knownFuncCodes[code]; ok {
			t.Errorf("code %d must not be in the known table", code)
		}
	}
}

// TestNeverPanics feeds random corruptions of a valid container.
func TestNeverPanics(t *testing.T) {
	base := compileNamed(t, renderSrc, "fs", 0)
	seed := uint32(12345)
	next := func() uint32 { seed = seed*1664525 + 1013904223; return seed >> 8 }
	for i := 0; i < 3000; i++ {
		b := clone(base)
		for k := 0; k < 1+int(next()%4); k++ {
			b[int(next())%len(b)] ^= byte(1 << (next() % 8))
		}
		if i%3 == 0 {
			resign(b)
		}
		if i%7 == 0 {
			b = b[:int(next())%len(b)]
		}
		rep := Check(b, noExpect())
		if hasRule(rep, "INTERNAL") {
			t.Fatalf("iteration %d: %v", i, rep.Findings)
		}
		if len(rep.Findings) == 0 && rep.Unsupported == "" && i%3 != 0 && i%7 != 0 {
			t.Fatalf("iteration %d: corrupted container without re-signing passed", i)
		}
	}
}

// TestNeverPanicsOnMutatedTrees corrupts operands / codes / counts inside an
// otherwise well-formed bitstream so that the module layer (not only the
// container and bitstream layers) sees nonsense.
func TestNeverPanicsOnMutatedTrees(t *testing.T) {
	bases := [][]byte{compileNamed(t, computeSrc, "main", 0), compileNamed(t, renderSrc, "vs", 0)}
	seed := uint32(777)
	next := func() uint32 { seed = seed*1664525 + 1013904223; return seed >> 8 }
	var collect func(b *bsBlock, out *[]*bsRecord)
	collect = func(b *bsBlock, out *[]*bsRecord) {
		for _, it := range b.items {
			if it.blk != nil {
				collect(it.blk, out)
			} else {
				*out = append(*out, it.rec)
			}
		}
	}
	interesting := []uint64{0, 1, 2, 3, 7, 31, 32, 33, 255, 1 << 15, 1<<32 - 1, 1 << 32, 1<<63 + 5, 1<<64 - 1}
	silent := 0
	for i := 0; i < 1500; i++ {
		b := mutateModule(t, bases[i%2], func(m *bsBlock) {
			var recs []*bsRecord
			collect(m, &recs)
			for k := 0; k < 1+int(next()%3); k++ {
				r := recs[int(next())%len(recs)]
				switch next() % 6 {
				case 0:
					r.code = next() % 50
				case 1:
					if len(r.ops) > 0 {
						r.ops = r.ops[:int(next())%len(r.ops)]
					}
				case 2:
					r.ops = append(r.ops, interesting[int(next())%len(interesting)])
				default:
					if len(r.ops) > 0 {
						r.ops[int(next())%len(r.ops)] = interesting[int(next())%len(interesting)]
					}
				}
			}
		})
		rep := Check(b, noExpect())
		if hasRule(rep, "INTERNAL") {
			t.Fatalf("iteration %d: %v", i, rep.Findings)
		}
		for _, f := range rep.Findings {
			if f.Rule[0] == 'X' || f.Rule[0] == 'D' || f.Rule[0] == 'B' {
				t.Fatalf("iteration %d: container/bitstream finding after a record-level mutation: %v", i, f)
			}
		}
		if len(rep.Findings) == 0 && rep.Unsupported == "" {
			silent++
		}
	}
	// Some mutations are harmless (flags, names, values of constants), most are not.
	if silent > 600 {
		t.Errorf("%d of 1500 mutated modules passed silently", silent)
	}
	t.Logf("%d of 1500 mutated modules passed silently", silent)
}
