package dxbcx

import "fmt"

// TYPE_BLOCK_ID_NEW record codes.
const (
	tcNumEntry    = 1
	tcVoid        = 2
	tcFloat       = 3
	tcDouble      = 4
	tcLabel       = 5
	tcOpaque      = 6
	tcInteger     = 7
	tcPointer     = 8
	tcFunctionOld = 9
	tcHalf        = 10
	tcArray       = 11
	tcVector      = 12
	tcX86FP80     = 13
	tcFP128       = 14
	tcPPCFP128    = 15
	tcMetadata    = 16
	tcX86MMX      = 17
	tcStructAnon  = 18
	tcStructName  = 19
	tcStructNamed = 20
	tcFunction    = 21
)

type typeRef struct {
	from int // index of the referring record
	to   uint64
}

// typeTable reads the type table and evaluates M2.
func (m *modCtx) typeTable(b *bsBlock) {
	c := m.c
	m.haveTypes = true
	if len(m.types) > 0 {
		// A constants block came first and already created derived types.
		c.unsupported("TYPE_BLOCK_ID_NEW after a block that needed types")
		return
	}
	haveNum := false
	next := 0
	var refs []typeRef
	pendingName := ""
	ref := func(id uint64) int {
		refs = append(refs, typeRef{next, id})
		return int(id)
	}
	for _, it := range b.items {
		r := it.rec
		if r == nil {
			continue
		}
		var t typ
		switch r.code {
		case tcNumEntry:
			c.fire("M2")
			if len(r.ops) < 1 || r.ops[0] > 1<<24 {
				c.find("M2", "bit %d: TYPE_CODE_NUMENTRY %v unusable", r.bit, r.ops)
				continue
			}
			haveNum = true
			m.numEntry = int(r.ops[0])
			continue
		case tcStructName:
			pendingName = opsString(r.ops, 0)
			continue
		case tcVoid:
			t.kind = tkVoid
		case tcHalf:
			t.kind = tkHalf
		case tcFloat:
			t.kind = tkFloat
		case tcDouble:
			t.kind = tkDouble
		case tcX86FP80:
			t.kind = tkX86FP80
		case tcFP128:
			t.kind = tkFP128
		case tcPPCFP128:
			t.kind = tkPPCFP128
		case tcLabel:
			t.kind = tkLabel
		case tcMetadata:
			t.kind = tkMetadata
		case tcX86MMX:
			t.kind = tkX86MMX
		case tcInteger:
			t.kind = tkInt
			c.fire("M2")
			if len(r.ops) < 1 || r.ops[0] < 1 || r.ops[0] > (1<<23)-1 {
				c.find("M2", "type %d: INTEGER width %v out of range", next, r.ops)
			} else {
				t.bits = r.ops[0]
			}
		case tcPointer:
			t.kind = tkPtr
			c.fire("M2")
			if len(r.ops) < 1 {
				c.find("M2", "type %d: POINTER without pointee", next)
				t.elem = noType
			} else {
				t.elem = ref(r.ops[0])
				if len(r.ops) >= 2 {
					t.addr = r.ops[1]
				}
			}
		case tcArray, tcVector:
			t.kind = tkArray
			if r.code == tcVector {
				t.kind = tkVector
			}
			c.fire("M2")
			if len(r.ops) < 2 {
				c.find("M2", "type %d: ARRAY/VECTOR with %d operands, need 2", next, len(r.ops))
				t.elem = noType
			} else {
				t.n = r.ops[0]
				t.elem = ref(r.ops[1])
				if r.code == tcVector && t.n == 0 {
					c.find("M2", "type %d: VECTOR of length 0", next)
				}
			}
		case tcStructAnon, tcStructNamed:
			t.kind = tkStruct
			c.fire("M2")
			if len(r.ops) < 1 {
				c.find("M2", "type %d: STRUCT without the ispacked operand", next)
			} else {
				for _, f := range r.ops[1:] {
					t.fields = append(t.fields, ref(f))
				}
			}
			if r.code == tcStructNamed {
				t.named = true
				t.name = pendingName
				pendingName = ""
			}
		case tcOpaque:
			t.kind = tkOpaque
			t.named = true
			t.name = pendingName
			pendingName = ""
			c.check("M2", len(r.ops) == 1, "type %d: OPAQUE with %d operands, want 1", next, len(r.ops))
		case tcFunction, tcFunctionOld:
			t.kind = tkFunc
			ops := r.ops
			c.fire("M2")
			min := 2
			if r.code == tcFunctionOld {
				min = 3
			}
			if len(ops) < min {
				c.find("M2", "type %d: FUNCTION with %d operands, need at least %d", next, len(ops), min)
				t.ret = noType
			} else {
				t.vararg = ops[0] != 0
				t.ret = ref(ops[min-1])
				for _, p := range ops[min:] {
					t.params = append(t.params, ref(p))
				}
			}
		default:
			// The 3.7 reader rejects unknown type codes ("Invalid value").
			c.fire("M2")
			c.find("M2", "bit %d: unknown TYPE_CODE %d", r.bit, r.code)
			continue
		}
		c.fire("M2")
		if !haveNum {
			c.find("M2", "type %d defined before TYPE_CODE_NUMENTRY", next)
			haveNum = true // report once
		}
		m.types = append(m.types, t)
		next++
	}
	m.typeRecords = next
	c.check("M2", next == m.numEntry, "NUMENTRY says %d types, the block defines %d", m.numEntry, next)
	// Only ids that a record defined are addressable, whatever NUMENTRY said;
	// ids from here on are synthetic (derived) types.
	m.numEntry = next

	for _, rf := range refs {
		c.fire("M2")
		if rf.to >= uint64(next) {
			c.find("M2", "type %d refers to type id %d, the table has %d entries", rf.from, rf.to, next)
			continue
		}
		if int(rf.to) >= rf.from {
			// Forward (or self) reference: the reader can only have a placeholder
			// for an identified struct at this point.
			tt := m.types[rf.to]
			if !(tt.kind == tkStruct && tt.named) && tt.kind != tkOpaque {
				c.find("M2", "type %d forward-references type id %d (%s); only named structs can be forward referenced", rf.from, rf.to, m.typeString(int(rf.to)))
			}
		}
	}
	// Element-kind validity that the 3.7 reader enforces.
	for i := 0; i < next; i++ {
		t := &m.types[i]
		switch t.kind {
		case tkPtr:
			k := m.kindOf(t.elem)
			c.check("M2", !(k == tkVoid || k == tkLabel || k == tkMetadata), "type %d: pointer to %s", i, m.typeString(t.elem))
		case tkArray:
			k := m.kindOf(t.elem)
			c.check("M2", !(k == tkVoid || k == tkLabel || k == tkMetadata || k == tkFunc), "type %d: array of %s", i, m.typeString(t.elem))
		case tkVector:
			k := m.kindOf(t.elem)
			c.check("M2", k == tkInt || isFPKind(k) || k == tkPtr || k == tkInvalid, "type %d: vector of %s", i, m.typeString(t.elem))
		case tkStruct:
			for _, f := range t.fields {
				k := m.kindOf(f)
				c.check("M2", !(k == tkVoid || k == tkLabel || k == tkMetadata || k == tkFunc), "type %d: struct field of type %s", i, m.typeString(f))
			}
		case tkFunc:
			k := m.kindOf(t.ret)
			c.check("M2", !(k == tkLabel || k == tkMetadata || k == tkFunc), "type %d: function returning %s", i, m.typeString(t.ret))
			for _, p := range t.params {
				pk := m.kindOf(p)
				c.check("M2", !(pk == tkVoid || pk == tkFunc), "type %d: function parameter of type %s", i, m.typeString(p))
			}
		}
	}
}

func opsString(ops []uint64, from int) string {
	if from > len(ops) {
		return ""
	}
	b := make([]byte, 0, len(ops)-from)
	for _, v := range ops[from:] {
		b = append(b, byte(v))
	}
	return string(b)
}

// CONSTANTS_BLOCK record codes.
const (
	cstSetType      = 1
	cstNull         = 2
	cstUndef        = 3
	cstInteger      = 4
	cstWideInteger  = 5
	cstFloat        = 6
	cstAggregate    = 7
	cstString       = 8
	cstCString      = 9
	cstCEBinop      = 10
	cstCECast       = 11
	cstCEGEP        = 12
	cstCESelect     = 13
	cstCEExtractElt = 14
	cstCEInsertElt  = 15
	cstCEShuffleVec = 16
	cstCECmp        = 17
	cstInlineAsmOld = 18
	cstCEShufVecEx  = 19
	cstCEInboundGEP = 20
	cstBlockAddress = 21
	cstData         = 22
	cstInlineAsm    = 23
)

func decodeSignRotated(v uint64) int64 {
	if v&1 == 0 {
		return int64(v >> 1)
	}
	if v != 1 {
		return -int64(v >> 1)
	}
	return -1 << 63
}

type cstRef struct {
	id   uint64
	ty   int // expected type, or noType
	what string
}

// constants reads one CONSTANTS_BLOCK (module or function level), appends its
// values and evaluates M4.
func (m *modCtx) constants(b *bsBlock, scope string) {
	c := m.c
	curTy := m.intType(32) // the reader starts with i32
	var refs []cstRef
	first := len(m.vals)
	for _, it := range b.items {
		r := it.rec
		if r == nil {
			continue
		}
		what := fmt.Sprintf("%s constant value %d", scope, len(m.vals))
		if r.code == cstSetType {
			c.fire("M4")
			if len(r.ops) < 1 || !m.typeIDOK(r.ops[0]) {
				c.find("M4", "bit %d: CST_CODE_SETTYPE %v outside the %d-entry type table", r.bit, r.ops, m.numEntry)
				curTy = noType
			} else {
				curTy = int(r.ops[0])
			}
			continue
		}
		v := gval{ty: curTy, kind: vkConst}
		k := m.kindOf(curTy)
		valRef := func(id uint64, ty int, role string) {
			refs = append(refs, cstRef{id, ty, what + " " + role})
		}
		typeOp := func(id uint64, role string) int {
			if !c.check("M4", m.typeIDOK(id), "%s: %s type id %d outside the %d-entry type table", what, role, id, m.numEntry) {
				return noType
			}
			return int(id)
		}
		need := func(n int, name string) bool {
			return c.check("M4", len(r.ops) >= n, "%s: %s with %d operands, need at least %d", what, name, len(r.ops), n)
		}
		switch r.code {
		case cstNull, cstUndef:
		case cstInteger:
			c.fire("M4")
			if len(r.ops) < 1 {
				c.find("M4", "%s: INTEGER without a value", what)
			} else if curTy != noType && k != tkInt {
				c.find("M4", "%s: INTEGER under current type %s", what, m.typeString(curTy))
			} else {
				v.isInt = true
				v.ival = decodeSignRotated(r.ops[0])
			}
		case cstWideInteger:
			c.check("M4", len(r.ops) >= 1 && (curTy == noType || k == tkInt), "%s: WIDE_INTEGER needs an integer current type and operands", what)
		case cstFloat:
			c.fire("M4")
			if len(r.ops) < 1 {
				c.find("M4", "%s: FLOAT without a value", what)
			} else if curTy != noType && !isFPKind(k) {
				c.find("M4", "%s: FLOAT under current type %s", what, m.typeString(curTy))
			}
		case cstAggregate:
			c.fire("M4")
			t := m.ty(curTy)
			switch {
			case len(r.ops) == 0:
				c.find("M4", "%s: AGGREGATE without elements", what)
			case t == nil:
			case t.kind == tkStruct:
				if len(r.ops) != len(t.fields) {
					c.find("M4", "%s: AGGREGATE has %d elements, %s has %d fields", what, len(r.ops), m.typeString(curTy), len(t.fields))
				}
				for i, id := range r.ops {
					et := noType
					if i < len(t.fields) {
						et = t.fields[i]
					}
					valRef(id, et, fmt.Sprintf("element %d", i))
				}
			case t.kind == tkArray || t.kind == tkVector:
				if uint64(len(r.ops)) != t.n {
					c.find("M4", "%s: AGGREGATE has %d elements, %s has %d", what, len(r.ops), m.typeString(curTy), t.n)
				}
				for i, id := range r.ops {
					valRef(id, t.elem, fmt.Sprintf("element %d", i))
				}
			default:
				c.find("M4", "%s: AGGREGATE under non-aggregate current type %s", what, m.typeString(curTy))
			}
		case cstString, cstCString:
			c.fire("M4")
			if len(r.ops) == 0 {
				c.find("M4", "%s: STRING without characters", what)
			}
		case cstData:
			c.fire("M4")
			t := m.ty(curTy)
			switch {
			case len(r.ops) == 0:
				c.find("M4", "%s: DATA without elements", what)
			case t == nil:
			case t.kind != tkArray && t.kind != tkVector:
				c.find("M4", "%s: DATA under non-sequential current type %s", what, m.typeString(curTy))
			default:
				et := m.ty(t.elem)
				okElem := et != nil && (et.kind == tkFloat || et.kind == tkDouble ||
					et.kind == tkInt && (et.bits == 8 || et.bits == 16 || et.bits == 32 || et.bits == 64))
				if !okElem {
					c.find("M4", "%s: DATA with element type %s (only i8/i16/i32/i64/float/double)", what, m.typeString(t.elem))
				}
				if uint64(len(r.ops)) != t.n {
					c.find("M4", "%s: DATA has %d elements, %s has %d", what, len(r.ops), m.typeString(curTy), t.n)
				}
			}
		case cstCEBinop:
			if need(3, "CE_BINOP") {
				valRef(r.ops[1], curTy, "lhs")
				valRef(r.ops[2], curTy, "rhs")
			}
		case cstCECast:
			if need(3, "CE_CAST") {
				valRef(r.ops[2], typeOp(r.ops[1], "operand"), "operand")
			}
		case cstCEGEP, cstCEInboundGEP:
			ops := r.ops
			if len(ops)%2 == 1 {
				typeOp(ops[0], "pointee")
				ops = ops[1:]
			}
			c.check("M4", len(ops) >= 2, "%s: CE_GEP without a base pointer", what)
			for i := 0; i+1 < len(ops); i += 2 {
				valRef(ops[i+1], typeOp(ops[i], "operand"), fmt.Sprintf("operand %d", i/2))
			}
		case cstCESelect:
			if need(3, "CE_SELECT") {
				valRef(r.ops[0], noType, "condition")
				valRef(r.ops[1], curTy, "true value")
				valRef(r.ops[2], curTy, "false value")
			}
		case cstCEExtractElt:
			if need(3, "CE_EXTRACTELT") {
				valRef(r.ops[1], typeOp(r.ops[0], "vector"), "vector")
				if len(r.ops) == 4 {
					valRef(r.ops[3], typeOp(r.ops[2], "index"), "index")
				} else {
					valRef(r.ops[2], noType, "index")
				}
			}
		case cstCEInsertElt:
			if need(3, "CE_INSERTELT") {
				valRef(r.ops[0], curTy, "vector")
				valRef(r.ops[1], noType, "element")
				if len(r.ops) == 4 {
					valRef(r.ops[3], typeOp(r.ops[2], "index"), "index")
				} else {
					valRef(r.ops[2], noType, "index")
				}
			}
		case cstCEShuffleVec:
			if need(3, "CE_SHUFFLEVEC") {
				valRef(r.ops[0], curTy, "vector 1")
				valRef(r.ops[1], curTy, "vector 2")
				valRef(r.ops[2], noType, "mask")
			}
		case cstCEShufVecEx:
			if need(4, "CE_SHUFVEC_EX") {
				t := typeOp(r.ops[0], "operand")
				valRef(r.ops[1], t, "vector 1")
				valRef(r.ops[2], t, "vector 2")
				valRef(r.ops[3], noType, "mask")
			}
		case cstCECmp:
			if need(4, "CE_CMP") {
				t := typeOp(r.ops[0], "operand")
				valRef(r.ops[1], t, "lhs")
				valRef(r.ops[2], t, "rhs")
			}
		case cstBlockAddress:
			if need(3, "BLOCKADDRESS") {
				typeOp(r.ops[0], "function")
				valRef(r.ops[1], noType, "function")
			}
		case cstInlineAsm, cstInlineAsmOld:
		default:
			// The 3.7 reader turns unknown constant codes into undef; numbering
			// still advances by one.
		}
		m.vals = append(m.vals, v)
	}
	// The reader fails the block ("Invalid constant reference") when a
	// reference reaches past the values that exist once the block is read.
	for _, rf := range refs {
		c.fire("M4")
		if rf.id >= uint64(len(m.vals)) {
			c.find("M4", "%s: value id %d, but only %d values exist at the end of the constants block (values %d.. are its own)", rf.what, rf.id, len(m.vals), first)
			continue
		}
		tv := m.vals[rf.id]
		if tv.kind == vkArg || tv.kind == vkInst {
			c.find("M4", "%s: value id %d is not a constant", rf.what, rf.id)
			continue
		}
		if rf.ty != noType && tv.ty != noType && !m.sameType(rf.ty, tv.ty) {
			c.find("M4", "%s: value id %d has type %s, the constant needs %s", rf.what, rf.id, m.typeString(tv.ty), m.typeString(rf.ty))
		}
	}
}

// METADATA_BLOCK record codes.
const (
	mdcString       = 1
	mdcValue        = 2
	mdcNode         = 3
	mdcName         = 4
	mdcDistinctNode = 5
	mdcKind         = 6
	mdcLocation     = 7
	mdcOldNode      = 8
	mdcOldFnNode    = 9
	mdcNamedNode    = 10
	mdcAttachment   = 11
	mdcFirstDebug   = 12
	mdcLastDebug    = 32
)

// metadata reads a METADATA_BLOCK. fn is nil at module level; inside a
// function the ids continue after the module-level ones.
func (m *modCtx) metadata(b *bsBlock, fn *fnCtx) {
	c := m.c
	if m.stopMD {
		return
	}
	scope := "module"
	if fn != nil {
		scope = fn.name
	}
	haveName := false
	for idx, it := range b.items {
		r := it.rec
		if r == nil {
			continue
		}
		prevName := haveName
		haveName = false
		id := len(m.md)
		what := fmt.Sprintf("%s metadata !%d", scope, id)
		switch r.code {
		case mdcString:
			c.fire("M5")
			for _, ch := range r.ops {
				if ch > 0xFF {
					c.find("M5", "%s: METADATA_STRING character %d does not fit a byte", what, ch)
					break
				}
			}
			m.md = append(m.md, mdString)
		case mdcValue:
			c.fire("M5")
			if len(r.ops) != 2 {
				c.find("M5", "%s: METADATA_VALUE with %d operands, want 2", what, len(r.ops))
			} else if !m.typeIDOK(r.ops[0]) {
				c.find("M5", "%s: METADATA_VALUE type id %d outside the %d-entry type table", what, r.ops[0], m.numEntry)
			} else if k := m.kindOf(int(r.ops[0])); k == tkMetadata || k == tkVoid {
				c.find("M5", "%s: METADATA_VALUE of type %s", what, m.typeString(int(r.ops[0])))
			} else {
				m.mdValueRefs = append(m.mdValueRefs, mdValueRef{ty: int(r.ops[0]), val: r.ops[1], what: what})
			}
			m.md = append(m.md, mdValue)
		case mdcNode, mdcDistinctNode:
			for i, op := range r.ops {
				if op != 0 {
					m.mdNodeRefs = append(m.mdNodeRefs, pendingRef{id: op - 1, what: fmt.Sprintf("%s operand %d", what, i)})
				}
			}
			m.md = append(m.md, mdNode)
			if fn == nil {
				m.numMDNodes++
			}
		case mdcName:
			c.fire("M5")
			for _, ch := range r.ops {
				if ch > 0xFF {
					c.find("M5", "bit %d: METADATA_NAME character %d does not fit a byte", r.bit, ch)
					break
				}
			}
			haveName = true
			// The next record must be the NAMED_NODE.
			nextIsNamed := false
			for _, nx := range b.items[idx+1:] {
				if nx.rec != nil {
					nextIsNamed = nx.rec.code == mdcNamedNode
				}
				break
			}
			if !nextIsNamed {
				c.find("M5", "bit %d: METADATA_NAME %q not followed by METADATA_NAMED_NODE", r.bit, opsString(r.ops, 0))
			}
		case mdcNamedNode:
			c.check("M5", prevName, "bit %d: METADATA_NAMED_NODE without a preceding METADATA_NAME", r.bit)
			for i, op := range r.ops {
				m.mdNamedRefs = append(m.mdNamedRefs, pendingRef{id: op, what: fmt.Sprintf("%s named node (bit %d) operand %d", scope, r.bit, i)})
			}
		case mdcKind:
			c.fire("M5")
			if len(r.ops) < 2 {
				c.find("M5", "bit %d: METADATA_KIND with %d operands, need [id, name...]", r.bit, len(r.ops))
				break
			}
			if m.mdKinds[r.ops[0]] {
				c.find("M5", "bit %d: METADATA_KIND id %d defined twice", r.bit, r.ops[0])
			}
			m.mdKinds[r.ops[0]] = true
		case mdcLocation, mdcOldNode, mdcOldFnNode:
			m.md = append(m.md, mdNode)
		case mdcAttachment:
		default:
			if r.code >= mdcFirstDebug && r.code <= mdcLastDebug {
				m.md = append(m.md, mdNode) // debug-info node: one id, operands not checked
				break
			}
			c.unsupported("metadata record code %d", r.code)
			m.stopMD = true
			return
		}
	}
}

// resolveMetadata checks the references collected by metadata() once the
// enclosing scope is complete.
func (m *modCtx) resolveMetadata(mdCount, valCount int, scope string) {
	c := m.c
	if m.stopMD {
		m.mdNodeRefs, m.mdNamedRefs, m.mdValueRefs = nil, nil, nil
		return
	}
	for _, r := range m.mdNodeRefs {
		c.check("M5", r.id < uint64(mdCount), "%s: refers to metadata id %d, %s scope has %d", r.what, r.id, scope, mdCount)
	}
	for _, r := range m.mdNamedRefs {
		if c.check("M5", r.id < uint64(mdCount), "%s: refers to metadata id %d, %s scope has %d", r.what, r.id, scope, mdCount) {
			c.check("M5", m.md[r.id] == mdNode, "%s: metadata id %d is not a node", r.what, r.id)
		}
	}
	for _, r := range m.mdValueRefs {
		if !c.check("M5", r.val < uint64(valCount), "%s: METADATA_VALUE value id %d, %s scope has %d values", r.what, r.val, scope, valCount) {
			continue
		}
		if vt := m.vals[r.val].ty; vt != noType {
			c.check("M5", m.sameType(vt, r.ty), "%s: METADATA_VALUE says type %s, value %d has type %s", r.what, m.typeString(r.ty), r.val, m.typeString(vt))
		}
	}
	m.mdNodeRefs, m.mdNamedRefs, m.mdValueRefs = nil, nil, nil
}

// VALUE_SYMTAB record codes.
const (
	vstEntry   = 1
	vstBBEntry = 2
)

// valueSymtab evaluates M6 on one VALUE_SYMTAB block.
func (m *modCtx) valueSymtab(b *bsBlock, valCount int, blocks uint64, inFunction bool, scope string) {
	c := m.c
	names := map[string]bool{}
	for _, it := range b.items {
		r := it.rec
		if r == nil || (r.code != vstEntry && r.code != vstBBEntry) {
			continue
		}
		c.fire("M6")
		if len(r.ops) < 1 {
			c.find("M6", "bit %d: %s VST record without an id", r.bit, scope)
			continue
		}
		name := opsString(r.ops, 1)
		for _, ch := range r.ops[1:] {
			if ch > 0xFF {
				c.find("M6", "bit %d: %s VST name character %d does not fit a byte", r.bit, scope, ch)
				break
			}
		}
		if r.code == vstEntry {
			if r.ops[0] >= uint64(valCount) {
				c.find("M6", "%s VST_ENTRY %q: value id %d, scope has %d values", scope, name, r.ops[0], valCount)
			}
		} else {
			if !inFunction || r.ops[0] >= blocks {
				c.find("M6", "%s VST_BBENTRY %q: block id %d, function has %d blocks", scope, name, r.ops[0], blocks)
			}
		}
		if names[name] {
			c.find("M6", "%s value symbol table holds the name %q twice", scope, name)
		}
		names[name] = true
	}
}
