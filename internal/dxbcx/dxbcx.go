// Package dxbcx is an independent reader/checker for the bytes returned by
// naga's experimental DXIL backend: a DXBC container (DxilContainer.h layout)
// holding signature / pipeline-state-validation parts and a DXIL part with an
// LLVM 3.7 bitstream.
//
// Everything here is written from the public format descriptions:
//
//   - DXBC / DxilContainer.h: DxilContainerHeader, DxilPartHeader,
//     DxilProgramHeader, DxilBitcodeHeader, DxilProgramSignature(+Element),
//     DxilShaderFeatureInfo, DxilShaderHash;
//   - the DXBC container checksum ("retail hash", INF-0004 / DxilHash.cpp): MD5
//     rounds with a non-standard final block;
//   - DxilPipelineStateValidation.h (PSV0 layout);
//   - LLVM 3.7 BitCodeFormat + LLVMBitCodes.h + the behaviour of the 3.7
//     BitcodeReader (which operand is relative, which carries a type, ...).
//
// It does not import any naga package.
//
// # Rules
//
//	X1 "DXBC" magic.                     X2 header: version 1.0, size field == len, offset table fits.
//	X3 parts: 4-byte aligned offsets and sizes, ascending without overlap, inside the
//	   file, last part ends at the file end (holes between parts are not flagged:
//	   DxilContainer.h's own validity check tolerates them).
//	X4 Hash == DXBC checksum of bytes [20,end). With Expect.AllowZeroHash the all-zero,
//	   0x01*16 (BYPASS) and 0x02*16 (PREVIEW_BYPASS) values are accepted instead.
//	X5 HASH part is 20 bytes; with Flags == 0 its digest is the plain MD5 of the DXIL
//	   part's bitcode bytes (the DXC convention: the program *bitcode*, without the
//	   24-byte DxilProgramHeader). Flags bit 0 (IncludesSource): not recomputable.
//	X6 DXIL, ISG1, OSG1, PSV0 present; no fourcc twice; every fourcc is a DxilFourCC
//	   value; SFI0 is 8 bytes.
//	S1 ISG1/OSG1/PSG1 element tables (see sig.go).   S2 counts == Expect.
//	P1 PSV0 layout consumes the part exactly (see psv.go); runtime-info sizes
//	   24/36/48/52, larger 4-aligned sizes are read as "v3 plus unknown tail".
//	P2 PSV0 stage == program header kind; PSV element rows == signature entries;
//	   string / index table offsets in range.    P3 resource records.
//	D1 DxilProgramHeader.                 D2 kind / shader model == Expect.
//	B1 'BC' 0xC0DE, size multiple of 4.   B2 ENTER_SUBBLOCK width 1..32, length word exact.
//	B3 END_BLOCK / nesting / nothing after the module block.
//	B4 DEFINE_ABBREV well-formed, abbreviation ids defined (fixed(0)/vbr(0) read as a
//	   literal 0 like LLVM 3.7 does).      B5 BLOCKINFO.   B6 UNABBREV_RECORD operand count / VBR size.
//	M1 one top-level MODULE_BLOCK, VERSION 0 or 1 (0 = absolute ids, also decoded).
//	M2 type table: NUMENTRY, ids in range, forward references only to named structs,
//	   vector length > 0 ([0 x T] arrays are legal LLVM), element kinds.
//	M3 GLOBALVAR / FUNCTION / attribute records.   M4 constants.   M5 metadata.   M6 symbol tables.
//	F1 bodies <-> isproto=0 records.      F2 DECLAREBLOCKS / terminators.
//	F3 operands: every value operand resolves to a value that exists when the function
//	   ends; forward references follow getValueTypePair (type id appended) and agree
//	   with the later definition; operand types agree wherever the 3.7 BitcodeReader
//	   itself compares them (binop/cmp/select/store/call arguments/phi/...); type ids,
//	   block ids, opcodes, predicates, alignments, orderings in range.
//	F4 a function record code outside LLVM 3.7's FunctionCodes (or LANDINGPAD, which is
//	   not decoded) sets Report.Unsupported: inconclusive, never a finding.
//
// A bitstream-level error (B rules) stops the module-level rules for that blob, so
// one bad bit is not reported many times.
package dxbcx

import (
	"bytes"
	"fmt"
	"sort"
)

// Finding is one violated rule.
type Finding struct{ Rule, Detail string }

// Report is the result of Check.
type Report struct {
	Findings []Finding
	Fired    map[string]int // rule id -> non-vacuous evaluations
	Parts    []string       // fourcc list in order

	ShaderKind  int    // from DXIL program header (0 pixel,1 vertex,5 compute ...), -1 if unreadable
	ShaderModel [2]int // major, minor from program header

	// Counters taken from the DXIL part's module (not from STAT).
	NumTypes, NumGlobals, NumFunctions, NumMetadataNodes, NumInstructions int

	InputSigElements, OutputSigElements int

	// Unsupported is non-empty when the reader met a record it cannot continue
	// past. The case is INCONCLUSIVE, not a finding.
	Unsupported string
}

// Expect says what the caller asked the backend for.
type Expect struct {
	ShaderKind                    int    // -1 = don't check
	ShaderModel                   [2]int // {0,0} = don't check
	NumInputElems, NumOutputElems int    // -1 = don't check

	// AllowZeroHash accepts the documented "no real digest" container hashes
	// in place of a verifying one: all-zero (unsigned container) and the two
	// INF-0004 sentinels 0x01*16 (BYPASS) and 0x02*16 (PREVIEW_BYPASS).
	AllowZeroHash bool
}

var ruleIDs = []string{
	"X1", "X2", "X3", "X4", "X5", "X6",
	"S1", "S2",
	"P1", "P2", "P3",
	"D1", "D2",
	"B1", "B2", "B3", "B4", "B5", "B6",
	"M1", "M2", "M3", "M4", "M5", "M6",
	"F1", "F2", "F3", "F4",
}

// RuleIDs lists every rule id that can appear in Report.Fired / Finding.Rule
// (besides the pseudo rule "INTERNAL").
func RuleIDs() []string {
	out := append([]string(nil), ruleIDs...)
	sort.Strings(out)
	return out
}

const maxFindings = 200

type checker struct {
	rep     *Report
	exp     Expect
	prefix  string // "" for the DXIL part, "STAT: " while checking the STAT copy
	primary bool   // counters go to the report
}

func (c *checker) fire(rule string) { c.rep.Fired[rule]++ }

func (c *checker) find(rule, format string, args ...any) {
	if len(c.rep.Findings) >= maxFindings {
		return
	}
	c.rep.Findings = append(c.rep.Findings, Finding{Rule: rule, Detail: c.prefix + fmt.Sprintf(format, args...)})
}

// check counts one non-vacuous evaluation of rule and records a finding when
// ok is false. It returns ok.
func (c *checker) check(rule string, ok bool, format string, args ...any) bool {
	c.fire(rule)
	if !ok {
		c.find(rule, format, args...)
	}
	return ok
}

func (c *checker) unsupported(format string, args ...any) {
	if c.rep.Unsupported == "" {
		c.rep.Unsupported = c.prefix + fmt.Sprintf(format, args...)
	}
}

// Check decodes bin and evaluates every rule. It never panics.
func Check(bin []byte, exp Expect) (rep Report) {
	rep = Report{Fired: map[string]int{}, ShaderKind: -1}
	defer func() {
		if r := recover(); r != nil {
			rep.Findings = append(rep.Findings, Finding{Rule: "INTERNAL", Detail: fmt.Sprint("panic: ", r)})
		}
	}()
	c := &checker{rep: &rep, exp: exp, primary: true}
	c.run(bin)
	return rep
}

func (c *checker) run(bin []byte) {
	parts, ok := c.container(bin)
	if !ok {
		return
	}
	for _, p := range parts {
		c.rep.Parts = append(c.rep.Parts, p.fourcc)
	}
	c.containerDigest(bin)
	c.requiredParts(parts)

	byName := map[string]*part{}
	for i := range parts {
		if _, dup := byName[parts[i].fourcc]; !dup {
			byName[parts[i].fourcc] = &parts[i]
		}
	}

	// DXIL program header first: the signature and PSV0 rules need the stage.
	var bitcode []byte
	haveProgram := false
	if p := byName["DXIL"]; p != nil {
		var hdr programHeader
		hdr, bitcode, haveProgram = c.programHeader(p.body)
		if haveProgram {
			c.rep.ShaderKind = int(hdr.kind)
			c.rep.ShaderModel = [2]int{int(hdr.major), int(hdr.minor)}
			c.expectProgram(hdr)
		}
	}
	c.hashPart(byName["HASH"], byName["DXIL"], bitcode, haveProgram)

	inCount, outCount, pcCount := -1, -1, -1
	if p := byName["ISG1"]; p != nil {
		if n, ok := c.signature("ISG1", p.body, true); ok {
			inCount = n
			c.rep.InputSigElements = n
		}
	}
	if p := byName["OSG1"]; p != nil {
		if n, ok := c.signature("OSG1", p.body, false); ok {
			outCount = n
			c.rep.OutputSigElements = n
		}
	}
	if p := byName["PSG1"]; p != nil {
		// Patch-constant signature: input of a domain shader (kind 4), output of
		// hull (3) and mesh (13) shaders.
		isInput := c.rep.ShaderKind == 4
		if n, ok := c.signature("PSG1", p.body, isInput); ok {
			pcCount = n
		}
	}
	if c.exp.NumInputElems >= 0 && inCount >= 0 {
		c.check("S2", inCount == c.exp.NumInputElems, "ISG1 has %d elements, expected %d", inCount, c.exp.NumInputElems)
	}
	if c.exp.NumOutputElems >= 0 && outCount >= 0 {
		c.check("S2", outCount == c.exp.NumOutputElems, "OSG1 has %d elements, expected %d", outCount, c.exp.NumOutputElems)
	}

	if p := byName["PSV0"]; p != nil {
		c.psv(p.body, inCount, outCount, pcCount)
	}

	if haveProgram {
		c.bitcodeModule(bitcode)
	}

	// STAT carries a DxilProgramHeader + module bitcode too (DFCC_ShaderStatistics).
	if p := byName["STAT"]; p != nil {
		sc := &checker{rep: c.rep, exp: c.exp, prefix: "STAT: ", primary: false}
		// naga's STAT is a byte copy of the DXIL bitcode; decoding it again would
		// only repeat every finding.
		if _, bc, ok := sc.programHeader(p.body); ok && !(haveProgram && bytes.Equal(bc, bitcode)) {
			sc.bitcodeModule(bc)
		}
	}
}
