package dxbcx

import "strings"

// DxilProgramSignature { u32 ParamCount; u32 ParamOffset }
// DxilProgramSignatureElement (32 bytes):
//
//	u32 Stream
//	u32 SemanticName    offset of a NUL-terminated string from the part start
//	u32 SemanticIndex
//	u32 SystemValue     DxilProgramSigSemantic (== D3D_NAME)
//	u32 CompType        DxilProgramSigCompType 0..9
//	u32 Register        row, or 0xFFFFFFFF when not allocated
//	u8  Mask
//	u8  NeverWrites_Mask (output) / AlwaysReads_Mask (input)
//	u16 Pad
//	u32 MinPrecision    DxilProgramSigMinPrecision

const sigElemSize = 32

func validSysValue(v uint32) bool {
	switch {
	case v <= 16: // Undefined .. FinalLineDensityTessfactor
		return true
	case v >= 23 && v <= 25: // Barycentrics, ShadingRate, CullPrimitive
		return true
	case v >= 64 && v <= 70: // Target .. InnerCoverage
		return true
	}
	return false
}

func validMinPrecision(v uint32) bool {
	return v <= 5 || v == 0xf0 || v == 0xf1
}

// D3D_NAME values that a given SV_ semantic name can only ever carry (or 0
// when the stage interprets the semantic as an arbitrary one). Tess factors are
// left out because their value depends on the domain.
var svNameValue = map[string]uint32{
	"sv_position":               1,
	"sv_clipdistance":           2,
	"sv_culldistance":           3,
	"sv_rendertargetarrayindex": 4,
	"sv_viewportarrayindex":     5,
	"sv_vertexid":               6,
	"sv_primitiveid":            7,
	"sv_instanceid":             8,
	"sv_isfrontface":            9,
	"sv_sampleindex":            10,
	"sv_barycentrics":           23,
	"sv_shadingrate":            24,
	"sv_cullprimitive":          25,
	"sv_target":                 64,
	"sv_depth":                  65,
	"sv_coverage":               66,
	"sv_depthgreaterequal":      67,
	"sv_depthlessequal":         68,
	"sv_stencilref":             69,
	"sv_innercoverage":          70,
}

func cstringAt(b []byte, off uint64) (string, bool) {
	if off >= uint64(len(b)) {
		return "", false
	}
	for i := off; i < uint64(len(b)); i++ {
		if b[i] == 0 {
			return string(b[off:i]), true
		}
	}
	return "", false
}

// signature evaluates S1 for one ISG1/OSG1/PSG1 payload and returns the
// element count.
func (c *checker) signature(name string, body []byte, isInput bool) (int, bool) {
	if !c.check("S1", len(body) >= 8, "%s: %d bytes, shorter than DxilProgramSignature (8)", name, len(body)) {
		return 0, false
	}
	count := uint64(le32(body, 0))
	offset := uint64(le32(body, 4))
	c.check("S1", offset == 8, "%s: ParamOffset %d, want 8", name, offset)
	tableEnd := offset + count*sigElemSize
	if !c.check("S1", offset >= 8 && tableEnd <= uint64(len(body)), "%s: %d elements at offset %d end at %d, part has %d bytes", name, count, offset, tableEnd, len(body)) {
		return 0, false
	}
	type used struct {
		stream, reg uint32
		mask        byte
		idx         int
	}
	var alloc []used
	for i := 0; i < int(count); i++ {
		e := body[int(offset)+i*sigElemSize:]
		stream, nameOff, sysval := le32(e, 0), uint64(le32(e, 4)), le32(e, 12)
		compType, reg := le32(e, 16), le32(e, 20)
		mask, rw := e[24], e[25]
		minPrec := le32(e, 28)
		c.fire("S1")
		sem, ok := cstringAt(body, nameOff)
		switch {
		case !ok:
			c.find("S1", "%s[%d]: SemanticName offset %d is not a NUL-terminated string inside the %d-byte part", name, i, nameOff, len(body))
		case nameOff < tableEnd:
			c.find("S1", "%s[%d]: SemanticName offset %d points into the header/element table (which ends at %d)", name, i, nameOff, tableEnd)
		}
		if stream > 3 {
			c.find("S1", "%s[%d] %q: stream %d > 3", name, i, sem, stream)
		}
		if !validSysValue(sysval) {
			c.find("S1", "%s[%d] %q: SystemValue %d is not a DxilProgramSigSemantic value", name, i, sem, sysval)
		} else if want, known := svNameValue[strings.ToLower(sem)]; ok && known && sysval != 0 && sysval != want {
			c.find("S1", "%s[%d] %q: SystemValue %d, but D3D_NAME for this semantic is %d", name, i, sem, sysval, want)
		}
		if compType > 9 {
			c.find("S1", "%s[%d] %q: CompType %d > 9", name, i, sem, compType)
		}
		if reg >= 32 && reg != 0xFFFFFFFF {
			c.find("S1", "%s[%d] %q: register %d (want < 32 or 0xFFFFFFFF)", name, i, sem, reg)
		}
		if mask > 0xF {
			c.find("S1", "%s[%d] %q: mask %#x has bits above the xyzw nibble", name, i, sem, mask)
		}
		if isInput {
			if rw&0xF&^mask != 0 {
				c.find("S1", "%s[%d] %q: always-reads mask %#x not inside mask %#x", name, i, sem, rw, mask)
			}
		} else {
			if rw&mask&0xF != 0 {
				c.find("S1", "%s[%d] %q: never-writes mask %#x intersects mask %#x", name, i, sem, rw, mask)
			}
		}
		if !validMinPrecision(minPrec) {
			c.find("S1", "%s[%d] %q: MinPrecision %#x is not a DxilProgramSigMinPrecision value", name, i, sem, minPrec)
		}
		if reg != 0xFFFFFFFF {
			for _, u := range alloc {
				if u.stream == stream && u.reg == reg && u.mask&mask&0xF != 0 {
					c.find("S1", "%s[%d] %q: register %d mask %#x overlaps element %d (mask %#x)", name, i, sem, reg, mask, u.idx, u.mask)
				}
			}
			alloc = append(alloc, used{stream, reg, mask, i})
		}
	}
	return int(count), true
}
