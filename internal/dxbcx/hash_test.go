package dxbcx

import (
	"bytes"
	"crypto/md5"
	"encoding/hex"
	"math/rand"
	"testing"
)

func TestMD5AgainstStdlib(t *testing.T) {
	// RFC 1321 test suite plus every length around the padding boundaries.
	for _, tc := range []struct{ in, want string }{
		{"", "d41d8cd98f00b204e9800998ecf8427e"},
		{"a", "0cc175b9c0f1b6a831c399e269772661"},
		{"abc", "900150983cd24fb0d6963f7d28e17f72"},
		{"message digest", "f96b697d7cb7938d525a2f31aaf161d0"},
		{"12345678901234567890123456789012345678901234567890123456789012345678901234567890", "57edf4a22be3c955ac49da2e2107b67a"},
	} {
		got := md5Sum([]byte(tc.in))
		if hex.EncodeToString(got[:]) != tc.want {
			t.Errorf("md5(%q) = %x, want %s", tc.in, got, tc.want)
		}
	}
	rng := rand.New(rand.NewSource(1))
	for n := 0; n < 300; n++ {
		b := make([]byte, n)
		rng.Read(b)
		if got, want := md5Sum(b), md5.Sum(b); got != want {
			t.Fatalf("len %d: md5Sum %x, crypto/md5 %x", n, got, want)
		}
	}
}

// refChecksum is a second, deliberately literal transcription of the published
// ComputeHashRetail routine (explicit padding buffer, memcpy-style block
// assembly), used to cross-check dxbcChecksum's compact formulation.
func refChecksum(data []byte) [16]byte {
	var padding [64]byte
	padding[0] = 0x80
	byteCount := uint32(len(data))
	leftOver := byteCount & 0x3f
	var padAmount uint32
	twoRows := false
	if leftOver < 56 {
		padAmount = 56 - leftOver
	} else {
		padAmount = 120 - leftOver
		twoRows = true
	}
	s := md5Init()
	n := (byteCount + padAmount + 8) >> 6
	offset := uint32(0)
	nextEnd := n - 1
	if twoRows {
		nextEnd = n - 2
	}
	for i := uint32(0); i < n; i, offset = i+1, offset+64 {
		if i != nextEnd {
			s.block(data[offset : offset+64])
			continue
		}
		var x [64]byte
		put := func(off int, v uint32) {
			x[off], x[off+1], x[off+2], x[off+3] = byte(v), byte(v>>8), byte(v>>16), byte(v>>24)
		}
		if !twoRows && i == n-1 {
			rem := byteCount - offset
			put(0, byteCount<<3)
			copy(x[4:], data[offset:offset+rem])
			copy(x[4+rem:], padding[:padAmount])
			put(60, 1|byteCount<<1)
		} else if twoRows {
			if i == n-2 {
				rem := byteCount - offset
				copy(x[:], data[offset:offset+rem])
				copy(x[rem:], padding[:padAmount-56])
				nextEnd = n - 1
			} else {
				put(0, byteCount<<3)
				copy(x[4:], padding[padAmount-56:][:56])
				put(60, 1|byteCount<<1)
			}
		}
		s.block(x[:])
	}
	return s.sum()
}

func TestDXBCChecksumFormulations(t *testing.T) {
	rng := rand.New(rand.NewSource(2))
	for n := 0; n < 400; n++ {
		b := make([]byte, n)
		rng.Read(b)
		if got, want := dxbcChecksum(b), refChecksum(b); got != want {
			t.Fatalf("len %d: dxbcChecksum %x, literal transcription %x", n, got, want)
		}
		if n > 0 {
			if plain := md5Sum(b); plain == dxbcChecksum(b) {
				t.Fatalf("len %d: container checksum equals plain MD5", n)
			}
		}
	}
}

// TestHashConventions pins the two conventions on a real naga output: the
// container digest covers bytes 20..end with the modified final block, the HASH
// part holds the plain MD5 of the bitcode (not of the whole DXIL part).
func TestHashConventions(t *testing.T) {
	bin := compileNamed(t, computeSrc, "main", 0)
	rep := Check(bin, noExpect())
	mustClean(t, "compute", rep)
	if rep.Fired["X4"] == 0 || rep.Fired["X5"] < 2 {
		t.Fatalf("X4/X5 not evaluated: %v", rep.Fired)
	}
	parts := splitContainer(t, bin)
	var dxilBody, hashBody []byte
	for _, p := range parts {
		switch p.fourcc {
		case "DXIL":
			dxilBody = p.body
		case "HASH":
			hashBody = p.body
		}
	}
	whole := md5.Sum(dxilBody)
	bitcode := md5.Sum(dxilBody[24:])
	if !bytes.Equal(hashBody[4:], bitcode[:]) || bytes.Equal(hashBody[4:], whole[:]) {
		t.Errorf("HASH digest %x: bitcode md5 %x, whole-part md5 %x", hashBody[4:], bitcode, whole)
	}
	zeroed := append([]byte(nil), bin...)
	for i := 4; i < 20; i++ {
		zeroed[i] = 0
	}
	wholeFile := dxbcChecksum(zeroed)
	if bytes.Equal(bin[4:20], wholeFile[:]) {
		t.Error("container digest matches the whole-file-with-zeroed-digest convention")
	}
}
