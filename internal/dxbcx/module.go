package dxbcx

import "fmt"

// LLVM 3.7 LLVMBitCodes.h ids.
const (
	blkBlockInfo       = 0
	blkModule          = 8
	blkParamAttr       = 9
	blkParamAttrGroup  = 10
	blkConstants       = 11
	blkFunction        = 12
	blkValueSymtab     = 14
	blkMetadata        = 15
	blkMetadataAttach  = 16
	blkTypeNew         = 17
	blkUseList         = 18
	modVersion         = 1
	modTriple          = 2
	modDataLayout      = 3
	modAsm             = 4
	modSectionName     = 5
	modDepLib          = 6
	modGlobalVar       = 7
	modFunction        = 8
	modAliasOld        = 9
	modPurgeVals       = 10
	modGCName          = 11
	modComdat          = 12
	modAlias           = 14
	paramAttrEntryOld  = 1
	paramAttrEntry     = 2
	paramAttrGrpEntry  = 3
	maxAttrKind        = 45 // ATTR_KIND_ARGMEMONLY
	maxLinkage         = 19
	maxAlignExponentP1 = 30 // Value::MaxAlignmentExponent (29) + 1
)

type valKind uint8

const (
	vkGlobalVar valKind = iota
	vkFunction
	vkAlias
	vkConst
	vkArg
	vkInst
)

type gval struct {
	ty    int
	kind  valKind
	fn    int   // index into modCtx.funcs for vkFunction
	isInt bool  // integer constant with a known value
	ival  int64 // its value
}

type fnInfo struct {
	fty     int // function type id
	proto   bool
	valueID int
}

type mdKind uint8

const (
	mdString mdKind = iota + 1
	mdValue
	mdNode
)

type modCtx struct {
	c *checker

	types       []typ
	numEntry    int // ids below this come from type records; ids from here on are derived types
	typeRecords int // type records actually present
	haveTypes   bool
	derived     map[derivedKey]int

	vals       []gval
	moduleVals int // number of module-level values once the module is read
	funcs      []fnInfo
	relative   bool
	haveVer    bool

	attrGroups  map[uint64]bool
	attrEntries int
	sections    int
	gcs         int
	comdats     int

	md      []mdKind // module-level metadata ids
	mdKinds map[uint64]bool

	numGlobals int
	numMDNodes int
	numInsts   int

	pendingInits []pendingRef // global initialisers: value ids
	pendingFnVal []pendingRef // prologue / prefix / personality value ids
	fnBlocks     []*bsBlock
	vstBlocks    []*bsBlock
	mdValueRefs  []mdValueRef
	mdNodeRefs   []pendingRef // METADATA_NODE operands (already minus 1)
	mdNamedRefs  []pendingRef // NAMED_NODE operands
	stopMD       bool
}

type pendingRef struct {
	id   uint64
	ty   int // type the referenced value must have, or noType
	what string
}

type mdValueRef struct {
	ty   int
	val  uint64
	what string
}

// bitcodeModule runs the bitstream reader and the module-level rules on one
// bitcode blob.
func (c *checker) bitcodeModule(bc []byte) {
	top, ok := c.parseBitstream(bc)
	if !ok {
		return
	}
	c.fire("M1")
	if len(top) != 1 || top[0].id != blkModule {
		ids := make([]uint32, len(top))
		for i, b := range top {
			ids[i] = b.id
		}
		c.find("M1", "top level holds blocks %v, want exactly one MODULE_BLOCK (id 8)", ids)
	}
	for _, b := range top {
		if b.id == blkModule {
			m := &modCtx{c: c, derived: map[derivedKey]int{}, attrGroups: map[uint64]bool{}, mdKinds: map[uint64]bool{}}
			m.module(b)
			return
		}
	}
}

func (m *modCtx) module(b *bsBlock) {
	c := m.c
	seenFnBlock := false
	for _, it := range b.items {
		if it.blk != nil {
			sb := it.blk
			switch sb.id {
			case blkBlockInfo:
				// handled by the bitstream layer
			case blkParamAttrGroup:
				m.paramAttrGroups(sb)
			case blkParamAttr:
				m.paramAttrs(sb)
			case blkTypeNew:
				c.fire("M2")
				if m.haveTypes {
					c.find("M2", "bit %d: second TYPE_BLOCK_ID_NEW in the module", sb.startBit)
					continue
				}
				m.typeTable(sb)
			case blkConstants:
				m.constants(sb, "module")
			case blkMetadata:
				m.metadata(sb, nil)
			case blkFunction:
				if !seenFnBlock {
					seenFnBlock = true
					// LLVM resolves global initialisers when it meets the first body.
					m.resolveInits()
				}
				m.fnBlocks = append(m.fnBlocks, sb)
			case blkValueSymtab:
				m.vstBlocks = append(m.vstBlocks, sb)
			}
			continue
		}
		m.moduleRecord(it.rec)
	}
	if !m.haveVer {
		// No VERSION record means version 0: absolute value ids.
		m.relative = false
	}
	m.resolveInits()
	m.moduleVals = len(m.vals)

	for _, r := range m.pendingFnVal {
		c.check("M3", r.id < uint64(m.moduleVals), "%s: value id %d outside the %d module-level values", r.what, r.id, m.moduleVals)
	}
	m.resolveMetadata(len(m.md), m.moduleVals, "module")
	for _, vb := range m.vstBlocks {
		m.valueSymtab(vb, m.moduleVals, 0, false, "module")
	}

	if c.primary {
		c.rep.NumTypes = m.typeRecords
		c.rep.NumGlobals = m.numGlobals
		c.rep.NumFunctions = len(m.funcs)
		c.rep.NumMetadataNodes = m.numMDNodes
	}

	// F1: bodies attach, in order, to the FUNCTION records with isproto == 0.
	var defs []int
	for i, f := range m.funcs {
		if !f.proto {
			defs = append(defs, i)
		}
	}
	c.check("F1", len(defs) == len(m.fnBlocks), "%d FUNCTION_BLOCKs for %d function records with isproto=0", len(m.fnBlocks), len(defs))
	for i, fb := range m.fnBlocks {
		if i >= len(defs) {
			break
		}
		m.function(fb, defs[i])
		if c.rep.Unsupported != "" {
			break
		}
	}
	if c.primary {
		c.rep.NumInstructions = m.numInsts
	}
}

func (m *modCtx) resolveInits() {
	for _, r := range m.pendingInits {
		ok := m.c.check("M3", r.id < uint64(len(m.vals)), "%s: initialiser value id %d outside the %d values defined so far", r.what, r.id, len(m.vals))
		if ok {
			v := m.vals[r.id]
			m.c.check("M3", v.kind != vkArg && v.kind != vkInst, "%s: initialiser value id %d is not a constant", r.what, r.id)
			if r.ty != noType && v.ty != noType {
				m.c.check("M3", m.sameType(r.ty, v.ty), "%s: initialiser value id %d has type %s, the variable holds %s", r.what, r.id, m.typeString(v.ty), m.typeString(r.ty))
			}
		}
	}
	m.pendingInits = nil
}

func (m *modCtx) typeIDOK(id uint64) bool {
	return id < uint64(m.numEntry) && id < uint64(len(m.types)) && m.types[id].kind != tkInvalid
}

func (m *modCtx) moduleRecord(r *bsRecord) {
	c := m.c
	switch r.code {
	case modVersion:
		c.fire("M1")
		if len(r.ops) < 1 || r.ops[0] > 1 {
			c.find("M1", "bit %d: MODULE_CODE_VERSION %v, LLVM 3.7 knows 0 and 1", r.bit, r.ops)
			return
		}
		m.haveVer = true
		m.relative = r.ops[0] == 1
	case modSectionName:
		m.sections++
	case modGCName:
		m.gcs++
	case modComdat:
		m.comdats++
	case modPurgeVals:
		c.unsupported("MODULE_CODE_PURGEVALS")
	case modGlobalVar:
		m.globalVar(r)
	case modFunction:
		m.functionRecord(r)
	case modAliasOld, modAlias:
		c.fire("M3")
		ty := noType
		if r.code == modAliasOld {
			if len(r.ops) < 3 || !m.typeIDOK(r.ops[0]) || m.kindOf(int(r.ops[0])) != tkPtr {
				c.find("M3", "bit %d: ALIAS_OLD record %v needs a pointer type id", r.bit, r.ops)
			} else {
				ty = int(r.ops[0])
			}
		} else {
			if len(r.ops) < 4 || !m.typeIDOK(r.ops[0]) {
				c.find("M3", "bit %d: ALIAS record %v needs a valid type id", r.bit, r.ops)
			} else {
				ty = m.ptrTo(int(r.ops[0]), r.ops[1])
			}
		}
		m.vals = append(m.vals, gval{ty: ty, kind: vkAlias})
	}
}

func (m *modCtx) globalVar(r *bsRecord) {
	c := m.c
	m.numGlobals++
	what := fmt.Sprintf("GLOBALVAR #%d (value %d)", m.numGlobals-1, len(m.vals))
	c.fire("M3")
	ty := noType      // the variable's pointer type
	valueTy := noType // what it holds
	defer func() { m.vals = append(m.vals, gval{ty: ty, kind: vkGlobalVar}) }()
	if len(r.ops) < 6 {
		c.find("M3", "%s: %d operands, need at least 6", what, len(r.ops))
		return
	}
	if !m.typeIDOK(r.ops[0]) {
		c.find("M3", "%s: type id %d outside the %d-entry type table", what, r.ops[0], m.numEntry)
	} else {
		t := int(r.ops[0])
		explicit := r.ops[1]&2 != 0
		if explicit {
			k := m.kindOf(t)
			if k == tkVoid || k == tkLabel || k == tkMetadata || k == tkFunc {
				c.find("M3", "%s: value type %s is not a valid global variable type", what, m.typeString(t))
			} else {
				ty = m.ptrTo(t, r.ops[1]>>2)
				valueTy = t
			}
		} else if m.kindOf(t) != tkPtr {
			c.find("M3", "%s: no explicit-type flag, so type id %d must be a pointer, it is %s", what, t, m.typeString(t))
		} else {
			ty = t
			valueTy = m.types[t].elem
		}
	}
	if r.ops[3] > maxLinkage {
		c.find("M3", "%s: linkage %d > %d", what, r.ops[3], maxLinkage)
	}
	if r.ops[4] > maxAlignExponentP1 {
		c.find("M3", "%s: alignment field %d (log2+1) > %d", what, r.ops[4], maxAlignExponentP1)
	}
	if r.ops[5] > uint64(m.sections) {
		c.find("M3", "%s: section index %d but only %d SECTIONNAME records", what, r.ops[5], m.sections)
	}
	if len(r.ops) > 11 && r.ops[11] > uint64(m.comdats) {
		c.find("M3", "%s: comdat index %d but only %d COMDAT records", what, r.ops[11], m.comdats)
	}
	if r.ops[2] != 0 {
		m.pendingInits = append(m.pendingInits, pendingRef{id: r.ops[2] - 1, ty: valueTy, what: what})
	}
}

func (m *modCtx) functionRecord(r *bsRecord) {
	c := m.c
	idx := len(m.funcs)
	what := fmt.Sprintf("FUNCTION #%d (value %d)", idx, len(m.vals))
	c.fire("M3")
	info := fnInfo{fty: noType, valueID: len(m.vals), proto: true}
	ty := noType
	defer func() {
		m.funcs = append(m.funcs, info)
		m.vals = append(m.vals, gval{ty: ty, kind: vkFunction, fn: idx})
	}()
	if len(r.ops) < 8 {
		c.find("M3", "%s: %d operands, need at least 8", what, len(r.ops))
		return
	}
	info.proto = r.ops[2] != 0
	if !m.typeIDOK(r.ops[0]) {
		c.find("M3", "%s: type id %d outside the %d-entry type table", what, r.ops[0], m.numEntry)
	} else {
		t := int(r.ops[0])
		if m.kindOf(t) == tkPtr {
			t = m.types[t].elem
		}
		if m.kindOf(t) != tkFunc {
			c.find("M3", "%s: type id %d is %s, not a function type", what, r.ops[0], m.typeString(int(r.ops[0])))
		} else {
			info.fty = t
			ty = m.ptrTo(t, 0)
		}
	}
	if r.ops[3] > maxLinkage {
		c.find("M3", "%s: linkage %d > %d", what, r.ops[3], maxLinkage)
	}
	if r.ops[4] > uint64(m.attrEntries) {
		c.find("M3", "%s: paramattr index %d but the PARAMATTR block has %d entries", what, r.ops[4], m.attrEntries)
	}
	if r.ops[5] > maxAlignExponentP1 {
		c.find("M3", "%s: alignment field %d (log2+1) > %d", what, r.ops[5], maxAlignExponentP1)
	}
	if r.ops[6] > uint64(m.sections) {
		c.find("M3", "%s: section index %d but only %d SECTIONNAME records", what, r.ops[6], m.sections)
	}
	if len(r.ops) > 8 && r.ops[8] > uint64(m.gcs) {
		c.find("M3", "%s: gc index %d but only %d GCNAME records", what, r.ops[8], m.gcs)
	}
	if len(r.ops) > 12 && r.ops[12] > uint64(m.comdats) {
		c.find("M3", "%s: comdat index %d but only %d COMDAT records", what, r.ops[12], m.comdats)
	}
	for _, slot := range []struct {
		i    int
		name string
	}{{10, "prologue data"}, {13, "prefix data"}, {14, "personality"}} {
		if len(r.ops) > slot.i && r.ops[slot.i] != 0 {
			m.pendingFnVal = append(m.pendingFnVal, pendingRef{id: r.ops[slot.i] - 1, ty: noType, what: what + " " + slot.name})
		}
	}
}

// paramAttrGroups reads PARAMATTR_GROUP_BLOCK:
// GRP_CODE_ENTRY [grpid, paramidx, (0 kind | 1 kind value | 3 key.. 0 | 4 key.. 0 value.. 0)*].
func (m *modCtx) paramAttrGroups(b *bsBlock) {
	c := m.c
	for _, it := range b.items {
		r := it.rec
		if r == nil || r.code != paramAttrGrpEntry {
			continue
		}
		c.fire("M3")
		if len(r.ops) < 3 {
			c.find("M3", "bit %d: PARAMATTR_GRP_CODE_ENTRY with %d operands, need at least 3", r.bit, len(r.ops))
			continue
		}
		m.attrGroups[r.ops[0]] = true
		for i := 2; i < len(r.ops); i++ {
			switch r.ops[i] {
			case 0, 1:
				if i+1 >= len(r.ops) || (r.ops[i] == 1 && i+2 >= len(r.ops)) {
					c.find("M3", "bit %d: attribute group %d: truncated attribute at operand %d", r.bit, r.ops[0], i)
					i = len(r.ops)
					break
				}
				kind := r.ops[i+1]
				if kind == 0 || kind > maxAttrKind {
					c.find("M3", "bit %d: attribute group %d: unknown attribute kind %d", r.bit, r.ops[0], kind)
				}
				if r.ops[i] == 1 {
					i += 2
				} else {
					i++
				}
			case 3, 4:
				hasVal := r.ops[i] == 4
				i++
				for i < len(r.ops) && r.ops[i] != 0 {
					i++
				}
				if hasVal {
					i++
					for i < len(r.ops) && r.ops[i] != 0 {
						i++
					}
				}
				if i >= len(r.ops) {
					c.find("M3", "bit %d: attribute group %d: unterminated string attribute", r.bit, r.ops[0])
				}
			default:
				c.find("M3", "bit %d: attribute group %d: attribute form %d is not 0/1/3/4", r.bit, r.ops[0], r.ops[i])
				i = len(r.ops)
			}
		}
	}
}

func (m *modCtx) paramAttrs(b *bsBlock) {
	c := m.c
	for _, it := range b.items {
		r := it.rec
		if r == nil {
			continue
		}
		switch r.code {
		case paramAttrEntryOld:
			m.attrEntries++
			c.check("M3", len(r.ops)%2 == 0, "bit %d: PARAMATTR_CODE_ENTRY_OLD with an odd number of operands", r.bit)
		case paramAttrEntry:
			m.attrEntries++
			for _, g := range r.ops {
				c.check("M3", m.attrGroups[g], "bit %d: PARAMATTR entry %d refers to attribute group %d, which PARAMATTR_GROUP_BLOCK does not define", r.bit, m.attrEntries, g)
			}
		}
	}
}
