package dxbcx

import "fmt"

// LLVM bitstream container reader (BitCodeFormat, "Bitstream Format").
//
// The stream is a sequence of 32-bit little-endian words read LSB first.
// After the 'BC' 0xC0DE magic the top level uses 2-bit abbreviation ids:
//
//	0 END_BLOCK       <align32>
//	1 ENTER_SUBBLOCK  blockid vbr8, newabbrevlen vbr4, <align32>, blocklen u32
//	2 DEFINE_ABBREV   numabbrevops vbr5, ops...
//	3 UNABBREV_RECORD code vbr6, numops vbr6, op vbr6 ...
//	4+ abbreviated record using the (id-4)th abbreviation in scope
//
// The reader builds a tree of blocks and records and evaluates B1..B6.

const (
	abbrevEndBlock      = 0
	abbrevEnterSubblock = 1
	abbrevDefine        = 2
	abbrevUnabbrev      = 3
)

const maxBlockDepth = 64

type bsRecord struct {
	code   uint32
	ops    []uint64
	abbrev uint32 // abbreviation id the record was written with
	bit    uint64 // bit position of the abbreviation id
}

type bsItem struct {
	rec *bsRecord
	blk *bsBlock
}

type bsBlock struct {
	id          uint32
	abbrevWidth uint32
	items       []bsItem
	startBit    uint64 // bit position of the ENTER_SUBBLOCK abbreviation id
	bodyBit     uint64 // first bit after the length word
	endBit      uint64 // bit position of the END_BLOCK abbreviation id (0 if never closed)
	lenWords    uint32
	closed      bool
}

const (
	encFixed = 1
	encVBR   = 2
	encArray = 3
	encChar6 = 4
	encBlob  = 5
)

type abbrevOp struct {
	literal bool
	value   uint64 // literal value, or width for fixed/vbr
	enc     uint32
}

type abbrevDef struct {
	ops   []abbrevOp
	valid bool
}

const char6Alphabet = "abcdefghijklmnopqrstuvwxyzABCDEFGHIJKLMNOPQRSTUVWXYZ0123456789._"

type bitReader struct {
	data  []byte
	pos   uint64 // bit position
	nbits uint64
}

func (r *bitReader) remaining() uint64 { return r.nbits - r.pos }

// read returns the next n (<= 64) bits.
func (r *bitReader) read(n uint64) (uint64, bool) {
	if n == 0 {
		return 0, true
	}
	if n > 64 || r.remaining() < n {
		return 0, false
	}
	var v uint64
	got := uint64(0)
	for got < n {
		byteIdx := r.pos >> 3
		bitOff := r.pos & 7
		take := 8 - bitOff
		if take > n-got {
			take = n - got
		}
		chunk := (uint64(r.data[byteIdx]) >> bitOff) & ((1 << take) - 1)
		v |= chunk << got
		got += take
		r.pos += take
	}
	return v, true
}

// vbr reads a variable-bit-rate value of chunk width n. overflow
// reports a value that does not fit in 64 bits.
func (r *bitReader) vbr(n uint64) (v uint64, ok, overflow bool) {
	if n < 1 || n > 64 {
		return 0, false, false
	}
	if n == 1 {
		// Degenerate but decodable: every chunk is only a continuation bit.
		for {
			bit, ok := r.read(1)
			if !ok {
				return 0, false, false
			}
			if bit == 0 {
				return 0, true, false
			}
		}
	}
	hi := uint64(1) << (n - 1)
	shift := uint64(0)
	for {
		chunk, ok := r.read(n)
		if !ok {
			return 0, false, false
		}
		payload := chunk & (hi - 1)
		if shift >= 64 {
			if payload != 0 {
				overflow = true
			}
		} else {
			if shift > 0 && payload>>(64-shift) != 0 {
				overflow = true
			}
			v |= payload << shift
		}
		if chunk&hi == 0 {
			return v, true, overflow
		}
		shift += n - 1
		if shift > 64+64 {
			// A continuation chain this long can only be garbage.
			return v, true, true
		}
	}
}

func (r *bitReader) align32() bool {
	p := (r.pos + 31) &^ 31
	if p > r.nbits {
		return false
	}
	r.pos = p
	return true
}

type bsParser struct {
	c         *checker
	r         bitReader
	blockInfo map[uint32][]abbrevDef
	fatal     bool // the stream cannot be decoded any further
}

func (p *bsParser) fail(rule, format string, args ...any) {
	p.c.find(rule, "bit %d: %s", p.r.pos, fmt.Sprintf(format, args...))
	p.fatal = true
}

// parseBitstream evaluates B1..B6 and returns the top-level blocks. ok is false
// when the stream could not be decoded completely; module-level checks are
// then skipped to avoid reporting consequences of one bitstream error many
// times.
func (c *checker) parseBitstream(bc []byte) (top []*bsBlock, ok bool) {
	good := c.check("B1", len(bc) >= 4 && bc[0] == 'B' && bc[1] == 'C' && bc[2] == 0xC0 && bc[3] == 0xDE,
		"bitcode does not start with 'BC' 0xC0DE")
	if !c.check("B1", len(bc)%4 == 0, "bitcode size %d is not a multiple of 4", len(bc)) || !good {
		return nil, false
	}
	p := &bsParser{c: c, r: bitReader{data: bc, pos: 32, nbits: uint64(len(bc)) * 8}, blockInfo: map[uint32][]abbrevDef{}}
	const topWidth = 2
	for p.r.remaining() > 0 {
		at := p.r.pos
		id, _ := p.r.read(topWidth)
		if len(top) > 0 && top[len(top)-1].closed {
			// Something follows a complete top-level block.
			c.fire("B3")
			if id != abbrevEnterSubblock {
				rest := bc[at/8:]
				if allBytes(rest, 0) {
					c.find("B3", "bit %d: %d zero bytes follow the end of the top-level block", at, len(rest))
				} else {
					c.find("B3", "bit %d: %d bytes of trailing data after the end of the top-level block", at, len(rest))
				}
				return top, false
			}
		}
		if id != abbrevEnterSubblock {
			c.fire("B3")
			c.find("B3", "bit %d: top-level abbreviation id %d, only ENTER_SUBBLOCK may appear outside a block", at, id)
			return top, false
		}
		blk := p.enterBlock(at, 0)
		if blk != nil {
			top = append(top, blk)
		}
		if p.fatal {
			return top, false
		}
	}
	c.fire("B3")
	if len(top) == 0 {
		c.find("B3", "bitstream contains no block")
		return top, false
	}
	return top, true
}

// enterBlock is called after an ENTER_SUBBLOCK abbreviation id was read.
func (p *bsParser) enterBlock(at uint64, depth int) *bsBlock {
	c := p.c
	blockID, ok1, ovf1 := p.r.vbr(8)
	width, ok2, ovf2 := p.r.vbr(4)
	if !ok1 || !ok2 {
		c.fire("B3")
		p.fail("B3", "stream ends inside ENTER_SUBBLOCK")
		return nil
	}
	c.fire("B2")
	if ovf1 || ovf2 || blockID > 0xFFFFFFFF {
		p.fail("B2", "ENTER_SUBBLOCK with absurd block id / abbrev width")
		return nil
	}
	if width < 1 || width > 32 {
		p.fail("B2", "ENTER_SUBBLOCK (block id %d) sets abbreviation width %d, must be within 1..32", blockID, width)
		return nil
	}
	if !p.r.align32() {
		c.fire("B3")
		p.fail("B3", "stream ends inside ENTER_SUBBLOCK alignment")
		return nil
	}
	lenWord, ok := p.r.read(32)
	if !ok {
		c.fire("B3")
		p.fail("B3", "stream ends before the block length word of block id %d", blockID)
		return nil
	}
	blk := &bsBlock{id: uint32(blockID), abbrevWidth: uint32(width), startBit: at, bodyBit: p.r.pos, lenWords: uint32(lenWord)}
	if depth >= maxBlockDepth {
		c.unsupported("block nesting deeper than %d", maxBlockDepth)
		p.fatal = true
		return blk
	}
	// Abbreviations in scope: those BLOCKINFO registered for this block id,
	// then the ones the block defines itself.
	abbrevs := append([]abbrevDef(nil), p.blockInfo[blk.id]...)
	isInfo := blk.id == 0
	infoBID := int64(-1)

	for {
		if p.r.remaining() < width {
			c.fire("B3")
			p.fail("B3", "stream ends inside block id %d (entered at bit %d): no END_BLOCK", blk.id, at)
			return blk
		}
		recBit := p.r.pos
		id, _ := p.r.read(width)
		switch id {
		case abbrevEndBlock:
			c.fire("B3")
			blk.endBit = recBit
			if !p.r.align32() {
				p.fail("B3", "END_BLOCK of block id %d cannot be aligned to 32 bits inside the stream", blk.id)
				return blk
			}
			blk.closed = true
			actual := (p.r.pos - blk.bodyBit) / 32
			c.check("B2", actual == uint64(blk.lenWords), "block id %d entered at bit %d: length word says %d dwords, block body is %d dwords", blk.id, at, blk.lenWords, actual)
			return blk

		case abbrevEnterSubblock:
			if isInfo {
				c.fire("B5")
				c.find("B5", "bit %d: sub-block inside BLOCKINFO", recBit)
			}
			sub := p.enterBlock(recBit, depth+1)
			if sub != nil {
				blk.items = append(blk.items, bsItem{blk: sub})
			}
			if p.fatal {
				return blk
			}

		case abbrevDefine:
			def, ok := p.defineAbbrev()
			if !ok {
				return blk
			}
			if isInfo {
				c.fire("B5")
				if infoBID < 0 {
					c.find("B5", "bit %d: DEFINE_ABBREV in BLOCKINFO before any SETBID", recBit)
				} else {
					p.blockInfo[uint32(infoBID)] = append(p.blockInfo[uint32(infoBID)], def)
				}
			} else {
				abbrevs = append(abbrevs, def)
			}

		case abbrevUnabbrev:
			rec := p.unabbrevRecord(recBit)
			if rec == nil {
				return blk
			}
			blk.items = append(blk.items, bsItem{rec: rec})
			if isInfo {
				p.blockInfoRecord(rec, &infoBID)
			}

		default:
			c.fire("B4")
			idx := id - 4
			if idx >= uint64(len(abbrevs)) {
				p.fail("B4", "abbreviation id %d used in block id %d, but only %d abbreviations are defined in scope", id, blk.id, len(abbrevs))
				return blk
			}
			if !abbrevs[idx].valid {
				p.fail("B4", "abbreviation id %d used in block id %d is malformed", id, blk.id)
				return blk
			}
			rec := p.abbrevRecord(recBit, uint32(id), abbrevs[idx])
			if rec == nil {
				return blk
			}
			blk.items = append(blk.items, bsItem{rec: rec})
			if isInfo {
				p.blockInfoRecord(rec, &infoBID)
			}
		}
	}
}

// BLOCKINFO record codes.
const (
	blockInfoSetBID        = 1
	blockInfoBlockName     = 2
	blockInfoSetRecordName = 3
)

func (p *bsParser) blockInfoRecord(rec *bsRecord, bid *int64) {
	c := p.c
	switch rec.code {
	case blockInfoSetBID:
		c.fire("B5")
		if len(rec.ops) < 1 || rec.ops[0] > 0xFFFFFFFF {
			c.find("B5", "bit %d: SETBID without a usable block id operand", rec.bit)
			return
		}
		*bid = int64(rec.ops[0])
	case blockInfoBlockName:
		c.check("B5", *bid >= 0, "bit %d: BLOCKNAME before any SETBID", rec.bit)
	case blockInfoSetRecordName:
		c.check("B5", *bid >= 0 && len(rec.ops) >= 1, "bit %d: SETRECORDNAME needs a preceding SETBID and a record id operand", rec.bit)
	}
}

func (p *bsParser) defineAbbrev() (abbrevDef, bool) {
	c := p.c
	c.fire("B4")
	at := p.r.pos
	n, ok, ovf := p.r.vbr(5)
	if !ok || ovf || n > p.r.remaining() {
		p.fail("B4", "DEFINE_ABBREV with unreadable operand count")
		return abbrevDef{}, false
	}
	def := abbrevDef{valid: true}
	bad := func(format string, args ...any) {
		c.find("B4", "bit %d: DEFINE_ABBREV: %s", at, fmt.Sprintf(format, args...))
		def.valid = false
	}
	for i := uint64(0); i < n; i++ {
		lit, ok := p.r.read(1)
		if !ok {
			p.fail("B4", "stream ends inside DEFINE_ABBREV")
			return def, false
		}
		if lit == 1 {
			v, ok, _ := p.r.vbr(8)
			if !ok {
				p.fail("B4", "stream ends inside DEFINE_ABBREV")
				return def, false
			}
			def.ops = append(def.ops, abbrevOp{literal: true, value: v})
			continue
		}
		enc, ok := p.r.read(3)
		if !ok {
			p.fail("B4", "stream ends inside DEFINE_ABBREV")
			return def, false
		}
		switch enc {
		case encFixed, encVBR:
			w, ok, ovf := p.r.vbr(5)
			if !ok {
				p.fail("B4", "stream ends inside DEFINE_ABBREV")
				return def, false
			}
			if w == 0 && !ovf {
				// LLVM 3.7 reads fixed(0) / vbr(0) as a literal zero.
				def.ops = append(def.ops, abbrevOp{literal: true, value: 0})
				continue
			}
			if ovf || w > 64 {
				bad("operand %d: width %d > 64", i, w)
				w = 64
			}
			def.ops = append(def.ops, abbrevOp{enc: uint32(enc), value: w})
		case encArray, encChar6, encBlob:
			def.ops = append(def.ops, abbrevOp{enc: uint32(enc)})
		default:
			// The stream stays decodable (the encoding field has a fixed size) but
			// no record can use this abbreviation.
			bad("operand %d: unknown encoding %d", i, enc)
			def.ops = append(def.ops, abbrevOp{enc: uint32(enc)})
		}
	}
	if len(def.ops) == 0 {
		bad("no operands")
		return def, true
	}
	if first := def.ops[0]; !first.literal && (first.enc == encArray || first.enc == encBlob) {
		bad("starts with an array or blob (the first operand is the record code)")
	}
	for i, op := range def.ops {
		if op.literal {
			continue
		}
		switch op.enc {
		case encArray:
			if i != len(def.ops)-2 {
				bad("array operand %d is not the second to last operand", i)
			} else if el := def.ops[i+1]; !el.literal && (el.enc == encArray || el.enc == encBlob) {
				bad("array element type is an array or blob")
			}
		case encBlob:
			if i != len(def.ops)-1 {
				bad("blob operand %d is not the last operand", i)
			}
		}
	}
	return def, true
}

func (p *bsParser) unabbrevRecord(at uint64) *bsRecord {
	c := p.c
	c.fire("B6")
	code, ok1, ovf1 := p.r.vbr(6)
	numops, ok2, ovf2 := p.r.vbr(6)
	if !ok1 || !ok2 {
		p.fail("B6", "stream ends inside UNABBREV_RECORD header")
		return nil
	}
	if ovf1 || code > 0xFFFFFFFF {
		p.fail("B6", "UNABBREV_RECORD code does not fit in 32 bits")
		return nil
	}
	if ovf2 || numops > p.r.remaining()/6 {
		p.fail("B6", "UNABBREV_RECORD code %d claims %d operands but only %d bits remain in the stream", code, numops, p.r.remaining())
		return nil
	}
	rec := &bsRecord{code: uint32(code), abbrev: abbrevUnabbrev, bit: at, ops: make([]uint64, 0, numops)}
	for i := uint64(0); i < numops; i++ {
		v, ok, ovf := p.r.vbr(6)
		if !ok {
			p.fail("B6", "stream ends inside operand %d of UNABBREV_RECORD code %d", i, code)
			return nil
		}
		if ovf {
			p.fail("B6", "operand %d of UNABBREV_RECORD code %d does not fit in 64 bits", i, code)
			return nil
		}
		rec.ops = append(rec.ops, v)
	}
	return rec
}

func (p *bsParser) scalar(op abbrevOp) (uint64, bool) {
	if op.literal {
		return op.value, true
	}
	switch op.enc {
	case encFixed:
		return p.r.read(op.value)
	case encVBR:
		v, ok, ovf := p.r.vbr(op.value)
		return v, ok && !ovf
	case encChar6:
		v, ok := p.r.read(6)
		if !ok {
			return 0, false
		}
		return uint64(char6Alphabet[v]), true
	}
	return 0, false
}

func (p *bsParser) abbrevRecord(at uint64, id uint32, def abbrevDef) *bsRecord {
	code, ok := p.scalar(def.ops[0])
	if !ok {
		p.fail("B4", "stream ends inside abbreviated record (abbreviation id %d)", id)
		return nil
	}
	rec := &bsRecord{code: uint32(code), abbrev: id, bit: at}
	for i := 1; i < len(def.ops); i++ {
		op := def.ops[i]
		if op.literal || (op.enc != encArray && op.enc != encBlob) {
			v, ok := p.scalar(op)
			if !ok {
				p.fail("B4", "stream ends inside abbreviated record (abbreviation id %d, operand %d)", id, i)
				return nil
			}
			rec.ops = append(rec.ops, v)
			continue
		}
		n, ok, ovf := p.r.vbr(6)
		if !ok || ovf || n > p.r.remaining() {
			p.fail("B4", "abbreviated record (abbreviation id %d): array/blob length runs past the stream", id)
			return nil
		}
		if op.enc == encArray {
			el := def.ops[i+1]
			if el.literal || el.enc == encFixed && el.value == 0 {
				// Zero-width elements: only the count matters.
				if n > 1<<20 {
					p.fail("B4", "abbreviated record (abbreviation id %d): array of %d zero-width elements", id, n)
					return nil
				}
			}
			for k := uint64(0); k < n; k++ {
				v, ok := p.scalar(el)
				if !ok {
					p.fail("B4", "stream ends inside array element %d (abbreviation id %d)", k, id)
					return nil
				}
				rec.ops = append(rec.ops, v)
			}
			i++ // the element operand is consumed with the array
			continue
		}
		// Blob: [len vbr6, align32, bytes, align32].
		if !p.r.align32() || n > p.r.remaining()/8 {
			p.fail("B4", "blob of %d bytes runs past the stream (abbreviation id %d)", n, id)
			return nil
		}
		start := p.r.pos / 8
		for k := uint64(0); k < n; k++ {
			rec.ops = append(rec.ops, uint64(p.r.data[start+k]))
		}
		p.r.pos += n * 8
		if !p.r.align32() {
			p.fail("B4", "blob tail alignment runs past the stream (abbreviation id %d)", id)
			return nil
		}
	}
	return rec
}
