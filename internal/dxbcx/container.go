package dxbcx

import (
	"bytes"
	"encoding/binary"
	"fmt"
)

// DxilContainerHeader (32 bytes):
//
//	u32  HeaderFourCC "DXBC"
//	u8   Hash[16]
//	u16  Version.Major (1), u16 Version.Minor (0)
//	u32  ContainerSizeInBytes
//	u32  PartCount
//	u32  PartOffset[PartCount]
//
// DxilPartHeader: u32 PartFourCC, u32 PartSize, then PartSize bytes.

const containerHeaderSize = 32

type part struct {
	fourcc string
	off    int    // offset of the part header in the file
	body   []byte // PartSize bytes after the 8-byte header
}

func le32(b []byte, off int) uint32 { return binary.LittleEndian.Uint32(b[off:]) }

func fourccString(b []byte) string {
	for _, ch := range b[:4] {
		if ch < 0x20 || ch > 0x7e {
			return fmt.Sprintf("%%%02x%02x%02x%02x", b[0], b[1], b[2], b[3])
		}
	}
	return string(b[:4])
}

// container evaluates X1..X3 and returns the parts that lie inside the file.
func (c *checker) container(bin []byte) ([]part, bool) {
	if !c.check("X1", len(bin) >= 4 && string(bin[:4]) == "DXBC", "container does not start with \"DXBC\" (len %d)", len(bin)) {
		return nil, false
	}
	if !c.check("X2", len(bin) >= containerHeaderSize, "file of %d bytes is shorter than the 32-byte container header", len(bin)) {
		return nil, false
	}
	major := binary.LittleEndian.Uint16(bin[20:])
	minor := binary.LittleEndian.Uint16(bin[22:])
	c.check("X2", major == 1 && minor == 0, "container version %d.%d, want 1.0", major, minor)
	total := le32(bin, 24)
	c.check("X2", uint64(total) == uint64(len(bin)), "ContainerSizeInBytes %d != file length %d", total, len(bin))
	count := le32(bin, 28)
	tableEnd := uint64(containerHeaderSize) + 4*uint64(count)
	if !c.check("X2", tableEnd <= uint64(len(bin)), "part count %d: offset table (ends at %d) does not fit in %d bytes", count, tableEnd, len(bin)) {
		return nil, false
	}

	var parts []part
	prevEnd := tableEnd
	lastEnd := tableEnd
	for i := 0; i < int(count); i++ {
		off := uint64(le32(bin, containerHeaderSize+4*i))
		c.fire("X3")
		bad := false
		if off%4 != 0 {
			c.find("X3", "part %d offset %d is not 4-byte aligned", i, off)
		}
		if off < prevEnd {
			c.find("X3", "part %d offset %d overlaps the header/previous part (which ends at %d)", i, off, prevEnd)
		}
		if off+8 > uint64(len(bin)) {
			c.find("X3", "part %d header at offset %d does not fit in %d bytes", i, off, len(bin))
			continue
		}
		size := uint64(le32(bin, int(off)+4))
		end := off + 8 + size
		if end > uint64(len(bin)) {
			c.find("X3", "part %d (%s) at %d with size %d ends at %d, past the file end %d", i, fourccString(bin[off:]), off, size, end, len(bin))
			bad = true
		}
		if size%4 != 0 {
			c.find("X3", "part %d (%s) size %d is not a multiple of 4", i, fourccString(bin[off:]), size)
		}
		if bad {
			continue
		}
		if end > prevEnd {
			prevEnd = end
		}
		lastEnd = end
		parts = append(parts, part{fourcc: fourccString(bin[off:]), off: int(off), body: bin[off+8 : end]})
	}
	if count > 0 {
		c.check("X3", lastEnd == uint64(len(bin)), "last part ends at %d but the file has %d bytes", lastEnd, len(bin))
	}
	return parts, true
}

func allBytes(b []byte, v byte) bool {
	for _, x := range b {
		if x != v {
			return false
		}
	}
	return true
}

// containerDigest evaluates X4: Hash == DXBC checksum of bytes [20, end).
func (c *checker) containerDigest(bin []byte) {
	have := bin[4:20]
	if c.exp.AllowZeroHash && (allBytes(have, 0) || allBytes(have, 1) || allBytes(have, 2)) {
		return
	}
	want := dxbcChecksum(bin[20:])
	c.check("X4", bytes.Equal(have, want[:]), "container digest %x does not verify (computed %x over bytes 20..%d)", have, want, len(bin))
}

// knownFourCC is the DxilFourCC enumeration of DxilContainer.h (minus the
// container magic itself). The DXIL validator rejects any other part
// ("Unknown part found in DXIL container").
var knownFourCC = map[string]bool{
	"RDEF": true, "ISG1": true, "OSG1": true, "PSG1": true, "STAT": true, "ILDB": true, "ILDN": true,
	"SFI0": true, "PRIV": true, "RTS0": true, "DXIL": true, "PSV0": true, "RDAT": true, "HASH": true,
	"SRCI": true, "PDBI": true, "VERS": true,
}

// requiredParts evaluates X6.
func (c *checker) requiredParts(parts []part) {
	seen := map[string]int{}
	for _, p := range parts {
		seen[p.fourcc]++
		c.check("X6", knownFourCC[p.fourcc], "part at offset %d has fourcc %q, which is not a DxilFourCC value", p.off, p.fourcc)
	}
	c.fire("X6")
	for _, p := range parts {
		if n := seen[p.fourcc]; n > 1 {
			c.find("X6", "part %s appears %d times", p.fourcc, n)
			seen[p.fourcc] = 1 // report once
		}
	}
	for _, need := range []string{"DXIL", "ISG1", "OSG1", "PSV0"} {
		c.check("X6", seen[need] > 0, "required part %s is missing", need)
	}
	for _, p := range parts {
		if p.fourcc == "SFI0" {
			// DxilShaderFeatureInfo { uint64 FeatureFlags }
			c.check("X6", len(p.body) == 8, "SFI0 part has %d bytes, DxilShaderFeatureInfo is 8", len(p.body))
		}
	}
}

// hashPart evaluates X5. DxilShaderHash { u32 Flags; u8 Digest[16] }.
//
// Convention (DxilContainerAssembler.cpp, SerializeDxilContainerForModule):
// with Flags == 0 (DxilShaderHashFlags::None) the digest is the plain MD5 of
// the program's bitcode stream - the bytes that BitcodeOffset/BitcodeSize of
// the DXIL part's DxilProgramHeader delimit - NOT of the whole part with its
// 24-byte header. With Flags bit 0 (IncludesSource) the digest covers a debug
// module that need not be in the container, so it cannot be recomputed here.
func (c *checker) hashPart(h, dxil *part, bitcode []byte, haveProgram bool) {
	if h == nil {
		return
	}
	if !c.check("X5", len(h.body) == 20, "HASH part has %d bytes, DxilShaderHash is 20", len(h.body)) {
		return
	}
	flags := le32(h.body, 0)
	if flags != 0 || dxil == nil || !haveProgram {
		return
	}
	want := md5Sum(bitcode)
	c.check("X5", bytes.Equal(h.body[4:20], want[:]), "HASH digest %x != MD5 of the DXIL part's bitcode %x", h.body[4:20], want)
}
